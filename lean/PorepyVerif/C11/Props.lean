/-
C11 — property theorems: MPFA reproduces linear pressure fields exactly.

Property (properties.jsonl): for any 2-D / 3-D grid, any constant SPD permeability and any mix of
Dirichlet and Neumann boundary faces, the MPFA flux and boundary-flux matrices applied to a linear
pressure field and its boundary data give the exact Darcy flux on every face, and the boundary
pressure reconstruction returns the exact pressure at boundary face centres; a constant pressure
produces zero flux.

What is proved here (all statements over exact rationals, any dimension `d`, any number of
sub-cells and sub-faces, ANY geometry — cell centres, continuity points and normals are arbitrary
vectors, `K` is an arbitrary `d × d` matrix, not even symmetric):

  * `local_consistency`       the constant gradient `a` satisfies every row of every interaction
                              region whose data come from `p(x) = a·x + b`;
  * `exact_flux`, `exact_boundary_pressure`, `const_zero_flux`
                              if the local system has at most one solution (`Nonsingular`), every
                              solution gives the exact Darcy sub-face flux `−n·K a`, the exact
                              pressure `p(x_c)` at every continuity point, and zero flux for
                              constant data;
  * `certificate_nonsingular` the executable check `certOK` (`L·A = I` by multiplication) implies
                              `Nonsingular`;
  * `solve_sound`             the model's solver returns THE solution whenever a solution exists;
  * `region_solver_exact`     hence on affine data `Region.solve` returns `g_k = a` for all k and
                              the exact fluxes / pressures — for every region it solves at all;
  * `face_flux_exact`, `face_pressure_exact`   from sub-faces to faces (sum / mean);
  * `mpfa2d_linear_exact`     the lifted statement for the executable 2-D discretisation `Grid2`
                              (regions built by the model from `face_nodes` / `cell_faces`): for every
                              well-formed grid whose regions are all certified, the assembled
                              scheme is exact on affine data on every face / boundary face.

Face quantities of the real code are sums (flux) / means (pressure) of the sub-face quantities
over the nodes of the face (`hf2f`, `area_mat`); for the flux the sum of `−(n_f/N)·K a` over the
`N` nodes is `−n_f·K a`; for the pressure the mean of `p` over the continuity points
`x_f + η (x_v − x_f)` is `p(x_f)` on faces whose centre is the mean of their nodes, and η = 0 on
boundary faces anyway.  That last summation, the global index bookkeeping and rounding are not
modelled (see TRUSTED in harness/props/c11.py); they are covered by the correspondence check.
-/
import PorepyVerif.C11.Lemmas

namespace PorepyVerif.C11

/-- **Local consistency.**  For the data of an affine field `p(x) = a·x + b` with constant `K`
    (cell pressures `p(x_i)`, Dirichlet values `p(x_c)`, Neumann values the outward Darcy flux),
    the assignment `g_k = a` for all sub-cells satisfies every row of the local system:
    flux continuity, pressure continuity at the continuity points, Dirichlet and Neumann rows. -/
theorem local_consistency (d : Nat) (R : Region) (K : Mat) (a : Vec) (b : Rat)
    (hwf : R.WF d) (hdata : R.AffineData K a b) : R.Consistent (fun _ => a) := by
  intro f hf
  obtain ⟨_, hxc, hidx⟩ := hwf.2 f hf
  have hcell : ∀ i, i < R.cells.length →
      (R.cellAt i).K = K ∧ presAt (R.cellAt i) a f.xc = affine a b f.xc := by
    intro i hi
    have hm := cellAt_mem R i hi
    obtain ⟨hK, hp⟩ := hdata.1 _ hm
    exact ⟨hK, presAt_affine _ a b f.xc hp (by rw [hxc, (hwf.1 _ hm).1])⟩
  have hface := hdata.2 f hf
  unfold SubFace.holds
  cases hk : f.kind with
  | interior i j =>
    rw [hk] at hidx
    obtain ⟨hKi, hPi⟩ := hcell i hidx.1
    obtain ⟨hKj, hPj⟩ := hcell j hidx.2.1
    exact ⟨by rw [hKi, hKj], by rw [hPi, hPj]⟩
  | dirichlet i pD =>
    rw [hk] at hidx hface
    obtain ⟨_, hPi⟩ := hcell i hidx
    show presAt (R.cellAt i) a f.xc = pD
    rw [hPi]; exact hface.symm
  | neumann i sgn qN =>
    rw [hk] at hidx hface
    obtain ⟨hKi, _⟩ := hcell i hidx
    show sgn * nKg f.n (R.cellAt i).K a = -qN
    have hq : qN = -(sgn * nKg f.n K a) := hface
    rw [hKi, hq]; grind

/-- every solution of a nonsingular local system with affine data is the constant gradient -/
theorem solution_is_gradient (d : Nat) (R : Region) (K : Mat) (a : Vec) (b : Rat)
    (hwf : R.WF d) (ha : a.length = d) (hdata : R.AffineData K a b) (hns : R.Nonsingular d)
    (G : Nat → Vec) (hG : ∀ i, (G i).length = d) (hc : R.Consistent G) :
    ∀ i < R.cells.length, G i = a :=
  hns G (fun _ => a) hG (fun _ => ha) hc (local_consistency d R K a b hwf hdata)

/-- **Exact flux.**  If the local system is nonsingular, the sub-face flux computed from ANY
    solution of it is the exact Darcy flux `−n·K a` of the affine field. -/
theorem exact_flux (d : Nat) (R : Region) (K : Mat) (a : Vec) (b : Rat)
    (hwf : R.WF d) (ha : a.length = d) (hdata : R.AffineData K a b) (hns : R.Nonsingular d)
    (G : Nat → Vec) (hG : ∀ i, (G i).length = d) (hc : R.Consistent G) :
    ∀ f ∈ R.faces, f.flux R G = -(nKg f.n K a) := by
  intro f hf
  have hi := idxOK_first _ _ (hwf.2 f hf).2.2
  unfold SubFace.flux
  rw [solution_is_gradient d R K a b hwf ha hdata hns G hG hc _ hi,
    (hdata.1 _ (cellAt_mem R _ hi)).1]

/-- **Exact pressure reconstruction.**  Under the same hypotheses the reconstructed pressure at the
    continuity point of every sub-face (boundary sub-faces: the face centre; interior sub-faces:
    mean of the two one-sided values) is the exact pressure `p(x_c) = a·x_c + b`. -/
theorem exact_boundary_pressure (d : Nat) (R : Region) (K : Mat) (a : Vec) (b : Rat)
    (hwf : R.WF d) (ha : a.length = d) (hdata : R.AffineData K a b) (hns : R.Nonsingular d)
    (G : Nat → Vec) (hG : ∀ i, (G i).length = d) (hc : R.Consistent G) :
    ∀ f ∈ R.faces, f.pres R G = affine a b f.xc := by
  intro f hf
  obtain ⟨_, hxc, hidx⟩ := hwf.2 f hf
  have hsol := solution_is_gradient d R K a b hwf ha hdata hns G hG hc
  have hP : ∀ i, i < R.cells.length → presAt (R.cellAt i) (G i) f.xc = affine a b f.xc := by
    intro i hi
    have hm := cellAt_mem R i hi
    rw [hsol i hi]
    exact presAt_affine _ a b f.xc (hdata.1 _ hm).2 (by rw [hxc, (hwf.1 _ hm).1])
  unfold SubFace.pres SubFace.pres1
  cases hk : f.kind with
  | interior i j =>
    rw [hk] at hidx
    show (presAt (R.cellAt i) (G i) f.xc + presAt (R.cellAt j) (G j) f.xc) / 2 = _
    rw [hP i hidx.1, hP j hidx.2.1]; grind
  | dirichlet i pD =>
    rw [hk] at hidx
    exact hP i hidx
  | neumann i sgn qN =>
    rw [hk] at hidx
    exact hP i hidx

/-- **A constant pressure produces zero flux** (and is reconstructed exactly). -/
theorem const_zero_flux (d : Nat) (R : Region) (K : Mat) (b : Rat)
    (hwf : R.WF d) (hdata : R.ConstData K b) (hns : R.Nonsingular d)
    (G : Nat → Vec) (hG : ∀ i, (G i).length = d) (hc : R.Consistent G) :
    ∀ f ∈ R.faces, f.flux R G = 0 ∧ f.pres R G = b := by
  have haff : R.AffineData K (zeros d) b := by
    constructor
    · intro c hc'
      obtain ⟨hK, hp⟩ := hdata.1 c hc'
      exact ⟨hK, by simp [affine, hp]⟩
    · intro f hf
      have := hdata.2 f hf
      cases hk : f.kind with
      | interior i j => trivial
      | dirichlet i pD => rw [hk] at this; simp [Kind.affineOK, affine]; exact this
      | neumann i sgn qN => rw [hk] at this; simp [Kind.affineOK, nKg_zeros]; exact this
  intro f hf
  constructor
  · rw [exact_flux d R K (zeros d) b hwf (by simp) haff hns G hG hc f hf, nKg_zeros]; simp
  · rw [exact_boundary_pressure d R K (zeros d) b hwf (by simp) haff hns G hG hc f hf]
    simp [affine]

/-- **The certificate check is sound**: if `L · A = I` (checked by explicit multiplication in
    `certOK`) then the local system has at most one solution. -/
theorem certificate_nonsingular (d : Nat) (R : Region) (L : Mat) (hwf : R.WF d)
    (hcert : certOK d R L = true) : R.Nonsingular d := by
  intro G G' hG hG' hc hc' i hi
  have h1 := cert_solution d R L hwf hcert G hG hc
  have h2 := cert_solution d R L hwf hcert G' hG' hc'
  have h : tabulate G R.cells.length = tabulate G' R.cells.length := h1.symm.trans h2
  have := congrArg (fun T => gradFn T i) h
  simpa [gradFn_tabulate _ _ _ hi] using this

/-- **The solver is sound**: whenever `Region.solve` answers, its gradients agree with EVERY
    solution of the local system (so if a solution exists, the solver returned it, and the
    region is nonsingular). -/
theorem solve_sound (d : Nat) (R : Region) (s : Solution) (hwf : R.WF d)
    (hs : R.solve d = some s) :
    R.Nonsingular d ∧
    ∀ G : Nat → Vec, (∀ i, (G i).length = d) → R.Consistent G →
      ∀ i < R.cells.length, gradFn s.G i = G i := by
  unfold Region.solve at hs
  cases hL : leftInverse (R.matrix d) with
  | none => rw [hL] at hs; cases hs
  | some L =>
    rw [hL] at hs
    by_cases hcert : certOK d R L = true
    · simp only [hcert, if_true, Option.some.injEq] at hs
      subst hs
      refine ⟨certificate_nonsingular d R L hwf hcert, ?_⟩
      intro G hG hc i hi
      show gradFn (chunks d R.cells.length (mulVec L (R.rhs d))) i = G i
      rw [cert_solution d R L hwf hcert G hG hc, gradFn_tabulate _ _ _ hi]
    · simp [hcert] at hs

/-- **End-to-end statement for the executable region model**: on the data of an affine field the
    solver — if it answers at all — returns the constant gradient in every sub-cell, the exact
    Darcy flux `−n·K a` through every sub-face and the exact pressure at every continuity point. -/
theorem region_solver_exact (d : Nat) (R : Region) (K : Mat) (a : Vec) (b : Rat) (s : Solution)
    (hwf : R.WF d) (ha : a.length = d) (hdata : R.AffineData K a b) (hs : R.solve d = some s) :
    (∀ i < R.cells.length, gradFn s.G i = a) ∧
    (∀ f ∈ R.faces, f.flux R (gradFn s.G) = -(nKg f.n K a)) ∧
    (∀ f ∈ R.faces, f.pres R (gradFn s.G) = affine a b f.xc) := by
  obtain ⟨hns, hsol⟩ := solve_sound d R s hwf hs
  have hgrad : ∀ i < R.cells.length, gradFn s.G i = a :=
    hsol (fun _ => a) (fun _ => ha) (local_consistency d R K a b hwf hdata)
  -- replace the solver's output by the constant assignment on the indices that matter
  have hcons : R.Consistent (gradFn s.G) :=
    (consistent_congr d R hwf _ _ hgrad).mpr (local_consistency d R K a b hwf hdata)
  have hfl : ∀ f ∈ R.faces, f.flux R (gradFn s.G) = -(nKg f.n K a) := by
    intro f hf
    have hi := idxOK_first _ _ (hwf.2 f hf).2.2
    unfold SubFace.flux
    rw [hgrad _ hi, (hdata.1 _ (cellAt_mem R _ hi)).1]
  have hpr : ∀ f ∈ R.faces, f.pres R (gradFn s.G) = affine a b f.xc := by
    intro f hf
    obtain ⟨_, hxc, hidx⟩ := hwf.2 f hf
    have hP : ∀ i, i < R.cells.length →
        presAt (R.cellAt i) (gradFn s.G i) f.xc = affine a b f.xc := by
      intro i hi
      have hm := cellAt_mem R i hi
      rw [hgrad i hi]
      exact presAt_affine _ a b f.xc (hdata.1 _ hm).2 (by rw [hxc, (hwf.1 _ hm).1])
    unfold SubFace.pres SubFace.pres1
    cases hk : f.kind with
    | interior i j =>
      rw [hk] at hidx
      show (presAt (R.cellAt i) (gradFn s.G i) f.xc + presAt (R.cellAt j) (gradFn s.G j) f.xc) / 2 = _
      rw [hP i hidx.1, hP j hidx.2.1]; grind
    | dirichlet i pD => rw [hk] at hidx; exact hP i hidx
    | neumann i sgn qN => rw [hk] at hidx; exact hP i hidx
  exact ⟨hgrad, hfl, hpr⟩

/-- **From sub-faces to faces (flux).**  The real code adds the `N = num_nodes(f)` sub-face fluxes of
    a face (`hf2f`), each taken with the sub-face normal `n_f / N`.  If each of them is the exact
    sub-face flux, the sum is the exact Darcy flux `−n_f·K a` through the whole face. -/
theorem face_flux_exact (nf : Vec) (K : Mat) (a : Vec) (N : Nat) (hN : N ≠ 0) (fl : List Rat)
    (hlen : fl.length = N) (h : ∀ x ∈ fl, x = -(nKg (smul (1 / (N : Rat)) nf) K a)) :
    fl.sum = -(nKg nf K a) := by
  have hsum : ∀ (l : List Rat) (c : Rat), (∀ x ∈ l, x = c) → l.sum = (l.length : Rat) * c := by
    intro l c hl
    induction l with
    | nil => simp
    | cons x l ih =>
      have hx : x = c := hl x (by simp)
      have := ih (fun y hy => hl y (by simp [hy]))
      simp only [List.sum_cons, List.length_cons, this, hx]
      push_cast
      grind
  rw [hsum fl _ h, hlen]
  have hNq : (N : Rat) ≠ 0 := by exact_mod_cast hN
  unfold nKg
  rw [dot_smul_left]
  grind

/-- **From sub-faces to faces (pressure).**  The reconstructed face pressure is the mean of the
    sub-face values (`area_mat`); on a boundary face every continuity point is the face centre
    (η = 0 there), so if every sub-face value is the exact `p(x_f)`, so is the mean. -/
theorem face_pressure_exact (pf : Rat) (N : Nat) (hN : N ≠ 0) (pr : List Rat)
    (hlen : pr.length = N) (h : ∀ x ∈ pr, x = pf) : pr.sum / (N : Rat) = pf := by
  have hsum : ∀ (l : List Rat) (c : Rat), (∀ x ∈ l, x = c) → l.sum = (l.length : Rat) * c := by
    intro l c hl
    induction l with
    | nil => simp
    | cons x l ih =>
      have hx : x = c := hl x (by simp)
      have := ih (fun y hy => hl y (by simp [hy]))
      simp only [List.sum_cons, List.length_cons, this, hx]
      push_cast
      grind
  rw [hsum pr _ h, hlen]
  have hNq : (N : Rat) ≠ 0 := by exact_mod_cast hN
  grind

/-- **`mpfa2d_linear_exact` — the lifted statement for the executable 2-D discretisation.**
    For EVERY well-formed 2-D grid (any topology given by `face_nodes` / `cell_faces`, any
    geometry arrays, any η, any boundary-type assignment) for which all interaction regions are
    certified nonsingular (`G.certs = some Ls`), the assembled scheme — per node the region the
    model builds itself, gradients `L_v · rhs_v`, sub-face fluxes summed per face, sub-face
    pressures averaged per face — applied to the data of an affine field `p(x) = a·x + b` with a
    constant permeability `K` (cell values `p(x_c)`, Dirichlet values `p(x_f)`, Neumann values
    `−sgn · n_f·K a`) gives the exact Darcy flux `−n_f·K a` on every face and the exact pressure
    `p(x_f)` on every boundary face. -/
theorem mpfa2d_linear_exact (G : Grid2) (K : Mat) (a : Vec) (b : Rat) (p bc : List Rat)
    (Ls : List Mat) (hwf : G.WF) (ha : a.length = 2) (hdata : G.AffineGlobal K a b p bc)
    (hcert : G.certs = some Ls) :
    ∀ f < G.numFaces,
      G.faceFlux (G.nodeSols Ls p bc) bc f = -(nKg (G.fnAt f) K a) ∧
      (G.isBoundary f = true → G.facePres (G.nodeSols Ls p bc) bc f = affine a b (G.fcAt f)) := by
  intro f hf
  obtain ⟨hne, hnodes⟩ := hwf.2.2.2.2.2.2.2.2.2.1 _ (getD_mem' G.faceNodes f [] hf)
  change G.fnodes f ≠ [] at hne
  change ∀ v ∈ G.fnodes f, v < G.numNodes at hnodes
  have hN : (G.fnodes f).length ≠ 0 := by
    intro h0; exact hne (List.length_eq_zero_iff.mp h0)
  -- per node of the face: all gradients of its region equal `a`
  have hnode : ∀ v ∈ G.fnodes f,
      (G.mkFace bc v f).flux (Grid2.nodeSolAt (G.nodeSols Ls p bc) v).R
          (gradFn (Grid2.nodeSolAt (G.nodeSols Ls p bc) v).Gs) = -(nKg (G.mkFace bc v f).n K a) ∧
      (G.mkFace bc v f).pres (Grid2.nodeSolAt (G.nodeSols Ls p bc) v).R
          (gradFn (Grid2.nodeSolAt (G.nodeSols Ls p bc) v).Gs) = affine a b (G.mkFace bc v f).xc := by
    intro v hv
    have hvn := hnodes v hv
    rw [G.nodeSolAt_nodeSols Ls p bc v hvn]
    have hRwf := G.region_wf hwf p bc v hvn
    have hRaff := G.region_affine hwf K a b p bc hdata v
    have hcons := local_consistency 2 _ K a b hRwf hRaff
    have hsol := cert_solution 2 _ _ hRwf (G.certs_ok Ls hcert p bc v hvn) (fun _ => a) (fun _ => ha) hcons
    have hgrad : ∀ i < (G.region p bc v).cells.length,
        gradFn (chunks 2 (G.region p bc v).cells.length
          (mulVec (Ls.getD v []) ((G.region p bc v).rhs 2))) i = a := by
      intro i hi
      rw [hsol, gradFn_tabulate _ _ _ hi]
    have hmem : G.mkFace bc v f ∈ (G.region p bc v).faces := by
      simp only [Grid2.region, List.mem_map]
      exact ⟨f, (G.mem_facesOf v f).mpr ⟨hf, hv⟩, rfl⟩
    exact ⟨flux_of_const 2 _ K a b hRwf hRaff _ hgrad _ hmem,
      pres_of_const 2 _ K a b hRwf hRaff _ hgrad _ hmem⟩
  constructor
  · unfold Grid2.faceFlux
    apply face_flux_exact (G.fnAt f) K a (G.fnodes f).length hN
    · simp
    · intro x hx
      simp only [List.mem_map] at hx
      obtain ⟨v, hv, rfl⟩ := hx
      rw [(hnode v hv).1, G.mkFace_n]
      rfl
  · intro hb
    unfold Grid2.facePres
    apply face_pressure_exact (affine a b (G.fcAt f)) (G.fnodes f).length hN
    · simp
    · intro x hx
      simp only [List.mem_map] at hx
      obtain ⟨v, hv, rfl⟩ := hx
      rw [(hnode v hv).2]
      -- on a boundary face the continuity point is the face centre
      rcases G.fcells_cases hwf f hf with ⟨c, s, hl, _⟩ | ⟨c1, s1, c2, s2, hl, _, _, _⟩
      · rw [G.mkFace_bnd bc v f c s hl]; split <;> rfl
      · simp [Grid2.isBoundary, hl] at hb

/-- **Grid level, clause "a constant pressure produces zero flux".**  For every well-formed, fully
    certified 2-D grid the assembled scheme applied to constant data (cells and Dirichlet faces `b`,
    Neumann faces `0`) gives flux `0` on every face and pressure `b` on every boundary face. -/
theorem mpfa2d_const_zero_flux (G : Grid2) (K : Mat) (b : Rat) (p bc : List Rat) (Ls : List Mat)
    (hwf : G.WF) (hdata : G.ConstGlobal K b p bc) (hcert : G.certs = some Ls) :
    ∀ f < G.numFaces,
      G.faceFlux (G.nodeSols Ls p bc) bc f = 0 ∧
      (G.isBoundary f = true → G.facePres (G.nodeSols Ls p bc) bc f = b) := by
  have haff : G.AffineGlobal K (zeros 2) b p bc := by
    constructor
    · intro c hc
      obtain ⟨hK, hp⟩ := hdata.1 c hc
      exact ⟨hK, by rw [hp]; simp [affine]⟩
    · intro f hf
      have h := hdata.2 f hf
      unfold Grid2.bcConstOK at h
      unfold Grid2.bcOK
      split
      · rename_i c s hl
        rw [hl] at h
        simp only [affine, nKg_zeros, dot_zeros_left] at h ⊢
        split
        · rename_i hd; simp only [hd, if_true] at h; rw [h]; simp
        · rename_i hd; simp only [hd] at h; rw [h]; simp
      · trivial
  intro f hf
  obtain ⟨h1, h2⟩ := mpfa2d_linear_exact G K (zeros 2) b p bc Ls hwf (by simp) haff hcert f hf
  refine ⟨by rw [h1, nKg_zeros]; simp, fun hb => ?_⟩
  rw [h2 hb]; simp [affine]

/-- **Every region the model builds satisfies the hypotheses of the region theorems** — for every
    well-formed 2-D grid, every node, every boundary-type assignment and all data: the region is
    well-formed, and it carries affine data whenever the global data are affine. -/
theorem mpfa2d_regions_wellformed (G : Grid2) (hwf : G.WF) (K : Mat) (a : Vec) (b : Rat)
    (p bc : List Rat) (v : Nat) (hv : v < G.numNodes) :
    (G.region p bc v).WF 2 ∧ (G.AffineGlobal K a b p bc → (G.region p bc v).AffineData K a b) :=
  ⟨G.region_wf hwf p bc v hv, fun h => G.region_affine hwf K a b p bc h v⟩

/-- **Certified grid ⇒ every interaction region is nonsingular, for all data.** -/
theorem mpfa2d_regions_nonsingular (G : Grid2) (Ls : List Mat) (hwf : G.WF)
    (hcert : G.certs = some Ls) (p bc : List Rat) (v : Nat) (hv : v < G.numNodes) :
    (G.region p bc v).Nonsingular 2 :=
  certificate_nonsingular 2 _ _ (G.region_wf hwf p bc v hv) (G.certs_ok Ls hcert p bc v hv)

/-- **The assembled scheme uses THE solution of every local system, for arbitrary (non-affine) data**:
    the gradients `L_v · rhs_v` stored by `nodeSols` agree with every gradient assignment that
    satisfies the rows of region `v`.  Hence the columns the driver returns (the scheme applied to
    unit vectors) are the columns of the MPFA-O scheme defined by the rows, not merely something
    that is right on affine data. -/
theorem mpfa2d_gradients_sound (G : Grid2) (Ls : List Mat) (hwf : G.WF) (hcert : G.certs = some Ls)
    (p bc : List Rat) (v : Nat) (hv : v < G.numNodes) (Gf : Nat → Vec)
    (hG : ∀ i, (Gf i).length = 2) (hc : (G.region p bc v).Consistent Gf) :
    ∀ i < (G.region p bc v).cells.length,
      gradFn (Grid2.nodeSolAt (G.nodeSols Ls p bc) v).Gs i = Gf i := by
  intro i hi
  rw [G.nodeSolAt_nodeSols Ls p bc v hv]
  show gradFn (chunks 2 (G.region p bc v).cells.length
    (mulVec (Ls.getD v []) ((G.region p bc v).rhs 2))) i = Gf i
  rw [cert_solution 2 _ _ (G.region_wf hwf p bc v hv) (G.certs_ok Ls hcert p bc v hv) Gf hG hc,
    gradFn_tabulate _ _ _ hi]

/-- the computed affine data satisfy `AffineGlobal` when the permeability is the same in all cells -/
theorem affineData_affineGlobal (G : Grid2) (K : Mat) (a : Vec) (b : Rat)
    (hK : ∀ c < G.numCells, G.permAt c = K) :
    G.AffineGlobal K a b (G.affineData K a b).1 (G.affineData K a b).2 := by
  constructor
  · intro c hc
    refine ⟨hK c hc, ?_⟩
    simp only [Grid2.affineData]
    rw [getD_map_range _ G.numCells c 0 hc]
  · intro f hf
    unfold Grid2.bcOK
    simp only [Grid2.affineData]
    rw [getD_map_range _ G.numFaces f 0 hf]
    unfold Grid2.affineBc
    split
    · split <;> rfl
    · trivial

/-- **Closed form**: what the driver's `apply` returns on the computed affine data, as lists — the
    hypotheses are the decidable input conditions `G.WF`, constant permeability, and the computed
    certificate `G.certs`; no per-case oracle is involved. -/
theorem mpfa2d_apply_exact (G : Grid2) (K : Mat) (a : Vec) (b : Rat) (Ls : List Mat)
    (hwf : G.WF) (ha : a.length = 2) (hK : ∀ c < G.numCells, G.permAt c = K)
    (hcert : G.certs = some Ls) :
    (G.apply Ls (G.affineData K a b).1 (G.affineData K a b).2).1 =
      (List.range G.numFaces).map (fun f => -(nKg (G.fnAt f) K a)) ∧
    ∀ f < G.numFaces, G.isBoundary f = true →
      (G.apply Ls (G.affineData K a b).1 (G.affineData K a b).2).2.getD f 0 = affine a b (G.fcAt f) := by
  have hdata := affineData_affineGlobal G K a b hK
  have hmain := mpfa2d_linear_exact G K a b _ _ Ls hwf ha hdata hcert
  constructor
  · unfold Grid2.apply
    apply List.map_congr_left
    intro f hf
    exact (hmain f (List.mem_range.mp hf)).1
  · intro f hf hb
    unfold Grid2.apply
    simp only
    rw [getD_map_range _ G.numFaces f 0 hf]
    exact (hmain f hf).2 hb

/-- `withAffine` produces affine data (the driver uses it to fill in the data from `(K, a, b)`). -/
theorem withAffine_affineData (R : Region) (K : Mat) (a : Vec) (b : Rat) :
    (R.withAffine K a b).AffineData K a b := by
  constructor
  · intro c hc
    simp only [Region.withAffine, List.mem_map] at hc
    obtain ⟨c0, _, rfl⟩ := hc
    exact ⟨rfl, rfl⟩
  · intro f hf
    simp only [Region.withAffine, List.mem_map] at hf
    obtain ⟨f0, _, rfl⟩ := hf
    cases f0.kind <;> simp [Kind.withAffine, Kind.affineOK]

/-! ### non-vacuity: a concrete interior region (2×2 unit squares around the node (1,1),
    anisotropic full `K`, field `p = 3x − 2y + 7/2`) and a concrete boundary region with one
    Dirichlet and one Neumann sub-face -/

def exK : Mat := [[2, 1], [1, 3]]

def exInterior : Region :=
  { cells := [⟨[1/2, 1/2], exK, 0⟩, ⟨[3/2, 1/2], exK, 0⟩, ⟨[1/2, 3/2], exK, 0⟩, ⟨[3/2, 3/2], exK, 0⟩],
    faces := [⟨[1/2, 0], [1, 1/2], .interior 0 1⟩, ⟨[1/2, 0], [1, 3/2], .interior 2 3⟩,
              ⟨[0, 1/2], [1/2, 1], .interior 0 2⟩, ⟨[0, 1/2], [3/2, 1], .interior 1 3⟩] }

def exBoundary : Region :=
  { cells := [⟨[1/2, 1/3], exK, 0⟩],
    faces := [⟨[0, -1/2], [1/2, 0], .dirichlet 0 0⟩, ⟨[-1/2, 1/8], [0, 1/2], .neumann 0 (-1) 0⟩] }

/-- hypotheses of `local_consistency` / `region_solver_exact` are satisfiable, the solver answers,
    and its answer is the constant gradient with the exact fluxes `−n·K a` -/
example :
    let R := exInterior.withAffine exK [3, -2] (7/2)
    R.WF 2 ∧ R.AffineData exK [3, -2] (7/2) ∧ R.Consistent (fun _ => [3, -2]) ∧
    (R.solve 2).map (·.G) = some [[3, -2], [3, -2], [3, -2], [3, -2]] ∧
    R.faces.map (fun f => f.flux R (fun _ => [3, -2])) = [-2, -2, 3/2, 3/2] := by decide +kernel

example :
    let R := exBoundary.withAffine exK [1, 2] (-1)
    R.WF 2 ∧ R.AffineData exK [1, 2] (-1) ∧ R.Consistent (fun _ => [1, 2]) ∧
    (R.solve 2).map (·.G) = some [[1, 2]] := by decide +kernel

/-- the hypothesis `Nonsingular` is satisfiable (via the certificate) … -/
example : (exInterior.withAffine exK [3, -2] (7/2)).Nonsingular 2 := by
  have hs : ((exInterior.withAffine exK [3, -2] (7/2)).solve 2).isSome = true := by decide +kernel
  obtain ⟨s, hs⟩ := Option.isSome_iff_exists.mp hs
  exact (solve_sound 2 _ s (by decide +kernel) hs).1

/-- … and not vacuous: a region with two Dirichlet sub-faces at the same point is singular, the
    solver refuses it -/
example :
    (({ cells := [⟨[0, 0], exK, 0⟩],
        faces := [⟨[1, 0], [1, 1], .dirichlet 0 0⟩, ⟨[0, 1], [1, 1], .dirichlet 0 0⟩] } : Region).solve 2).isNone
      = true := by decide +kernel

/-- two sub-faces of a face with normal `(1,0)`: the exact sub-face fluxes `−1` add up to `−n_f·K a = −2` -/
example : ([-1, -1] : List Rat).sum = -(nKg [1, 0] exK [1, 0]) :=
  face_flux_exact [1, 0] exK [1, 0] 2 (by decide) [-1, -1] rfl (by decide +kernel)

example : ([7/2, 7/2] : List Rat).sum / ((2 : Nat) : Rat) = 7/2 :=
  face_pressure_exact (7/2) 2 (by decide) [7/2, 7/2] rfl (by decide +kernel)

/-- a concrete grid for `mpfa2d_linear_exact`: two unit squares side by side, full anisotropic `K`,
    Dirichlet on the left, bottom-right and top-right faces, Neumann elsewhere -/
def exGrid : Grid2 :=
  { nodes := [[0, 0], [1, 0], [2, 0], [0, 1], [1, 1], [2, 1]],
    faceNodes := [[0, 3], [1, 4], [2, 5], [0, 1], [1, 2], [3, 4], [4, 5]],
    faceCells := [[(0, -1)], [(0, 1), (1, -1)], [(1, 1)], [(0, -1)], [(1, -1)], [(0, 1)], [(1, 1)]],
    cellCenters := [[1/2, 1/2], [3/2, 1/2]],
    faceCenters := [[0, 1/2], [1, 1/2], [2, 1/2], [1/2, 0], [3/2, 0], [1/2, 1], [3/2, 1]],
    faceNormals := [[1, 0], [1, 0], [1, 0], [0, 1], [0, 1], [0, 1], [0, 1]],
    perm := [exK, exK],
    isDir := [true, false, false, false, true, false, true],
    eta := 0 }

/-- hypotheses of `mpfa2d_linear_exact` are satisfiable and its conclusion is what the model computes:
    all six interaction regions are certified, and the assembled scheme applied to the data of
    `p = 3x − 2y + 1/2` returns the exact fluxes `−n_f·K a` = (−4,−4,−4,3,3,3,3) -/
example :
    exGrid.WF ∧ (exGrid.certs).isSome = true ∧
    (exGrid.certs).map (fun Ls =>
      (exGrid.apply Ls (exGrid.affineData exK [3, -2] (1/2)).1 (exGrid.affineData exK [3, -2] (1/2)).2).1)
      = some [-4, -4, -4, 3, 3, 3, 3] := by decide +kernel

/-- `mpfa2d_const_zero_flux`, `mpfa2d_apply_exact`, `mpfa2d_regions_nonsingular` on the concrete grid:
    hypotheses hold, constant data give zero flux everywhere -/
example :
    (∀ c < exGrid.numCells, exGrid.permAt c = exK) ∧
    (exGrid.certs).map (fun Ls =>
      (exGrid.apply Ls (exGrid.affineData exK [0, 0] 5).1 (exGrid.affineData exK [0, 0] 5).2).1)
      = some [0, 0, 0, 0, 0, 0, 0] := by decide +kernel

example : ∀ v < exGrid.numNodes, (exGrid.region [] [] v).Nonsingular 2 := by
  have h : (exGrid.certs).isSome = true := by decide +kernel
  obtain ⟨Ls, hLs⟩ := Option.isSome_iff_exists.mp h
  exact fun v hv => mpfa2d_regions_nonsingular exGrid Ls (by decide +kernel) hLs [] [] v hv

/-- constant data: zero flux -/
example :
    let R := exInterior.withAffine exK [0, 0] 5
    R.ConstData exK 5 ∧ (R.solve 2).map (·.G) = some [[0, 0], [0, 0], [0, 0], [0, 0]] := by
  decide +kernel

end PorepyVerif.C11
