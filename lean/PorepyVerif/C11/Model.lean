/-
C11 — executable model of ONE interaction region of the MPFA-O scheme
(`porepy.numerics.fv.mpfa.Mpfa._flux_discretization`), core Lean only, exact rationals.

What the real code does (vectorised, all regions at once) and what is modelled here per region
(= per grid node `v`):

  * unknowns: one gradient `g_k ∈ ℚ^d` per sub-cell (cell–node pair)          ↦ `G : Nat → Vec`
  * cell-centre pressures are data (moved to the right-hand side)              ↦ `SubCell.p`
  * per sub-face (face–node pair) with normal `n = n_f / num_nodes(f)`
    (`_fvutils.scalar_tensor_vector_prod`) and continuity point
    `x_c = x_f + η (x_v − x_f)`, η = 0 on boundary faces (`compute_dist_face_cell`):
      - interior:   flux continuity  `n·K_i g_i = n·K_j g_j`      (rows of `nk_grad_n`)
                    pressure cont.   `p_i + g_i·(x_c−x_i) = p_j + g_j·(x_c−x_j)`   (`pr_cont_grad`)
      - Dirichlet:  `p_i + g_i·(x_c−x_i) = p_D`                   (`exclude_neumann_robin` keeps it)
      - Neumann:    `sgn · n·K_i g_i = − q_N`                     (`exclude_robin_dirichlet` keeps it;
                    `sgn` = ±1 orientation of the face normal w.r.t. the cell, `q_N` = prescribed
                    outward flux through the sub-face = bc value / num_nodes, `_create_bound_rhs`)
    The code's interior rows carry the factors `sgn_i = −sgn_j`, and every row is scaled by
    `diagonal_scaling_matrix`; both are non-zero row factors and drop out of the solution.
  * sub-face flux (`darcy = −nk_grad_all[unique_subfno]`): `−n·K_i g_i`, `i` = first side
  * pressure reconstruction (`reconstruct_presssure`): `p_i + g_i·(x_c − x_i)`, averaged over the
    two sides on interior sub-faces.

The local system is solved by an exact Gauss–Jordan elimination on `[A | I]`; its result `L` is
NOT trusted: `certOK` re-checks `L·A = I` by plain multiplication, and Props.lean proves that a
passing check implies uniqueness of the solution (`certificate_nonsingular`).
-/
namespace PorepyVerif.C11

abbrev Vec := List Rat
abbrev Mat := List Vec

/-! ## vectors as lists -/

def dot : Vec → Vec → Rat
  | a :: as, b :: bs => a * b + dot as bs
  | _, _ => 0

def vsub : Vec → Vec → Vec
  | a :: as, b :: bs => (a - b) :: vsub as bs
  | _, _ => []

def vadd : Vec → Vec → Vec
  | a :: as, b :: bs => (a + b) :: vadd as bs
  | _, _ => []

def smul (c : Rat) (v : Vec) : Vec := v.map (c * ·)

def zeros (n : Nat) : Vec := List.replicate n 0

/-- matrix (list of rows) times vector -/
def mulVec (K : Mat) (g : Vec) : Vec := K.map (fun r => dot r g)

/-- row vector times matrix, `l · A = Σ_k l_k • A_k`, result of width `w` -/
def vecMat (w : Nat) : Vec → Mat → Vec
  | b :: bs, a :: as => vadd (smul b a) (vecMat w bs as)
  | _, _ => zeros w

/-- the affine pressure field `p(x) = a·x + b` -/
def affine (a : Vec) (b : Rat) (x : Vec) : Rat := dot a x + b

/-- `n · K g` -/
def nKg (n : Vec) (K : Mat) (g : Vec) : Rat := dot n (mulVec K g)

/-! ## interaction region -/

structure SubCell where
  x : Vec      -- cell centre
  K : Mat      -- permeability of the cell
  p : Rat      -- cell-centre pressure
deriving Repr

inductive Kind where
  | interior (i j : Nat)                    -- sub-cells on the two sides; the flux is taken from `i`
  | dirichlet (i : Nat) (pD : Rat)
  | neumann (i : Nat) (sgn : Rat) (qN : Rat)
deriving Repr

structure SubFace where
  n : Vec      -- sub-face normal  n_f / num_nodes(f)
  xc : Vec     -- continuity point x_f + η (x_v − x_f)
  kind : Kind
deriving Repr

structure Region where
  cells : List SubCell
  faces : List SubFace
deriving Repr

def Region.cellAt (R : Region) (i : Nat) : SubCell := R.cells.getD i ⟨[], [], 0⟩

/-- the sub-cell whose gradient defines the flux / the one-sided pressure of the sub-face -/
def Kind.first : Kind → Nat
  | .interior i _ => i
  | .dirichlet i _ => i
  | .neumann i _ _ => i

/-- sub-cells a sub-face refers to -/
def Kind.cells : Kind → List Nat
  | .interior i j => [i, j]
  | .dirichlet i _ => [i]
  | .neumann i _ _ => [i]

/-- sub-cell pressure `p_c + g·(x − x_c)` evaluated at `x` -/
def presAt (c : SubCell) (g : Vec) (x : Vec) : Rat := c.p + dot g (vsub x c.x)

/-- The rows of the local system contributed by one sub-face, as a proposition about the
    gradient assignment `G`. -/
def SubFace.holds (R : Region) (G : Nat → Vec) (f : SubFace) : Prop :=
  match f.kind with
  | .interior i j =>
      nKg f.n (R.cellAt i).K (G i) = nKg f.n (R.cellAt j).K (G j) ∧
      presAt (R.cellAt i) (G i) f.xc = presAt (R.cellAt j) (G j) f.xc
  | .dirichlet i pD => presAt (R.cellAt i) (G i) f.xc = pD
  | .neumann i sgn qN => sgn * nKg f.n (R.cellAt i).K (G i) = -qN

instance (R : Region) (G : Nat → Vec) (f : SubFace) : Decidable (f.holds R G) := by
  unfold SubFace.holds; split <;> infer_instance

/-- `G` solves the local system of the region. -/
def Region.Consistent (R : Region) (G : Nat → Vec) : Prop := ∀ f ∈ R.faces, f.holds R G

instance (R : Region) (G : Nat → Vec) : Decidable (R.Consistent G) := by
  unfold Region.Consistent; infer_instance

/-- discrete Darcy flux through a sub-face in the direction of the face normal -/
def SubFace.flux (R : Region) (G : Nat → Vec) (f : SubFace) : Rat :=
  -(nKg f.n (R.cellAt f.kind.first).K (G f.kind.first))

/-- one-sided reconstructed pressure at the continuity point (side `first`) -/
def SubFace.pres1 (R : Region) (G : Nat → Vec) (f : SubFace) : Rat :=
  presAt (R.cellAt f.kind.first) (G f.kind.first) f.xc

/-- reconstructed sub-face pressure as in `reconstruct_presssure` (mean of the sides) -/
def SubFace.pres (R : Region) (G : Nat → Vec) (f : SubFace) : Rat :=
  match f.kind with
  | .interior i j => (presAt (R.cellAt i) (G i) f.xc + presAt (R.cellAt j) (G j) f.xc) / 2
  | _ => f.pres1 R G

/-! ## well-formedness (decidable) -/

def Kind.idxOK (m : Nat) : Kind → Prop
  | .interior i j => i < m ∧ j < m ∧ i ≠ j
  | .dirichlet i _ => i < m
  | .neumann i _ _ => i < m

instance (m : Nat) (k : Kind) : Decidable (k.idxOK m) := by
  unfold Kind.idxOK; split <;> infer_instance

def SubCell.WF (d : Nat) (c : SubCell) : Prop :=
  c.x.length = d ∧ c.K.length = d ∧ ∀ r ∈ c.K, r.length = d

def SubFace.WF (d m : Nat) (f : SubFace) : Prop :=
  f.n.length = d ∧ f.xc.length = d ∧ f.kind.idxOK m

instance (d : Nat) (c : SubCell) : Decidable (c.WF d) := by unfold SubCell.WF; infer_instance
instance (d m : Nat) (f : SubFace) : Decidable (f.WF d m) := by unfold SubFace.WF; infer_instance

/-- every vector has `d` components, every permeability is `d × d`, indices point to sub-cells -/
def Region.WF (d : Nat) (R : Region) : Prop :=
  (∀ c ∈ R.cells, c.WF d) ∧ (∀ f ∈ R.faces, f.WF d R.cells.length)

instance (d : Nat) (R : Region) : Decidable (R.WF d) := by unfold Region.WF; infer_instance

/-! ## data of an affine field -/

def Kind.affineOK (K : Mat) (a : Vec) (b : Rat) (n xc : Vec) : Kind → Prop
  | .interior _ _ => True
  | .dirichlet _ pD => pD = affine a b xc
  | .neumann _ sgn qN => qN = -(sgn * nKg n K a)

instance (K : Mat) (a : Vec) (b : Rat) (n xc : Vec) (k : Kind) : Decidable (k.affineOK K a b n xc) := by
  unfold Kind.affineOK; split <;> infer_instance

/-- the region's data are those of `p(x) = a·x + b` with the constant permeability `K`:
    cell pressures `p(x_i)`, Dirichlet values `p(x_c)`, Neumann values = outward Darcy flux. -/
def Region.AffineData (R : Region) (K : Mat) (a : Vec) (b : Rat) : Prop :=
  (∀ c ∈ R.cells, c.K = K ∧ c.p = affine a b c.x) ∧
  (∀ f ∈ R.faces, f.kind.affineOK K a b f.n f.xc)

instance (R : Region) (K : Mat) (a : Vec) (b : Rat) : Decidable (R.AffineData K a b) := by
  unfold Region.AffineData; infer_instance

def Kind.constOK (b : Rat) : Kind → Prop
  | .interior _ _ => True
  | .dirichlet _ pD => pD = b
  | .neumann _ _ qN => qN = 0

instance (b : Rat) (k : Kind) : Decidable (k.constOK b) := by
  unfold Kind.constOK; split <;> infer_instance

/-- data of a constant pressure `b`: all cell pressures and Dirichlet values are `b`, all
    Neumann values are `0` -/
def Region.ConstData (R : Region) (K : Mat) (b : Rat) : Prop :=
  (∀ c ∈ R.cells, c.K = K ∧ c.p = b) ∧ (∀ f ∈ R.faces, f.kind.constOK b)

instance (R : Region) (K : Mat) (b : Rat) : Decidable (R.ConstData K b) := by
  unfold Region.ConstData; infer_instance

/-- The local system of the region has at most one solution (among gradient assignments with
    `d` components per sub-cell; components beyond `d` would be ignored by the dot products). -/
def Region.Nonsingular (d : Nat) (R : Region) : Prop :=
  ∀ G G' : Nat → Vec, (∀ i, (G i).length = d) → (∀ i, (G' i).length = d) →
    R.Consistent G → R.Consistent G' → ∀ i < R.cells.length, G i = G' i

def Kind.withAffine (K : Mat) (a : Vec) (b : Rat) (n xc : Vec) : Kind → Kind
  | .interior i j => .interior i j
  | .dirichlet i _ => .dirichlet i (affine a b xc)
  | .neumann i sgn _ => .neumann i sgn (-(sgn * nKg n K a))

/-- overwrite permeabilities, pressures and boundary values by those of the affine field -/
def Region.withAffine (R : Region) (K : Mat) (a : Vec) (b : Rat) : Region :=
  { cells := R.cells.map (fun c => { x := c.x, K := K, p := affine a b c.x }),
    faces := R.faces.map (fun f => { n := f.n, xc := f.xc, kind := f.kind.withAffine K a b f.n f.xc }) }

/-! ## assembly of the local linear system  `A y = rhs`,  `y` = concatenated gradients -/

/-- the vector `v` placed in block `i` of `m` blocks of width `d` -/
def place (d : Nat) : Nat → Nat → Vec → Vec
  | 0, _, _ => []
  | m + 1, 0, v => v ++ zeros (m * d)
  | m + 1, i + 1, v => zeros d ++ place d m i v

structure LinRow where
  coef : Vec
  rhs : Rat
deriving Repr

def SubFace.rows (d : Nat) (R : Region) (f : SubFace) : List LinRow :=
  let m := R.cells.length
  match f.kind with
  | .interior i j =>
      let ci := R.cellAt i
      let cj := R.cellAt j
      [ { coef := vsub (place d m i (vecMat d f.n ci.K)) (place d m j (vecMat d f.n cj.K)), rhs := 0 },
        { coef := vsub (place d m i (vsub f.xc ci.x)) (place d m j (vsub f.xc cj.x)), rhs := cj.p - ci.p } ]
  | .dirichlet i pD =>
      let ci := R.cellAt i
      [ { coef := place d m i (vsub f.xc ci.x), rhs := pD - ci.p } ]
  | .neumann i sgn qN =>
      let ci := R.cellAt i
      [ { coef := place d m i (smul sgn (vecMat d f.n ci.K)), rhs := -qN } ]

def Region.rows (d : Nat) (R : Region) : List LinRow := R.faces.flatMap (fun f => f.rows d R)

def Region.matrix (d : Nat) (R : Region) : Mat := (R.rows d).map (·.coef)
def Region.rhs (d : Nat) (R : Region) : Vec := (R.rows d).map (·.rhs)

/-! ## exact Gauss–Jordan elimination on `[A | I]` (result checked by `certOK`, not trusted) -/

abbrev WRow := Vec × Vec

/-- identity matrix, by recursion on the size -/
def identity : Nat → Mat
  | 0 => []
  | n + 1 => (1 :: zeros n) :: (identity n).map (fun r => 0 :: r)

/-- first row whose leading entry is non-zero, and the other rows in order -/
def extractPivot : List WRow → Option (WRow × List WRow)
  | [] => none
  | r :: rs =>
    match r.1 with
    | [] => none
    | h :: _ =>
      if h ≠ 0 then some (r, rs)
      else match extractPivot rs with
        | none => none
        | some (p, rest) => some (p, r :: rest)

/-- eliminate the leading column of `r` with the normalised pivot row `p` (leading 1 dropped) -/
def elimRow (p r : WRow) : WRow :=
  match r.1 with
  | [] => r
  | h :: t => (vsub t (smul h p.1), vsub r.2 (smul h p.2))

def gjLoop : Nat → List WRow → List WRow → Option (List WRow)
  | 0, done, todo => if todo.isEmpty then some done else none
  | fuel + 1, done, todo =>
    match todo with
    | [] => some done
    | _ :: _ =>
      match extractPivot todo with
      | none => none
      | some (p, rest) =>
        match p.1 with
        | [] => none
        | c :: pt =>
          let pn : WRow := (smul c⁻¹ pt, smul c⁻¹ p.2)
          gjLoop fuel (done.map (elimRow pn) ++ [pn]) (rest.map (elimRow pn))

/-- candidate left inverse of a square matrix (`none`: no pivot found / not square) -/
def leftInverse (A : Mat) : Option Mat :=
  let n := A.length
  if A.all (fun r => r.length == n) then
    (gjLoop n [] (A.zip (identity n))).map (fun rows => rows.map (·.2))
  else none

/-- the certificate check: `L` has `n` rows and `L · A = I_n`, where `n` = number of unknowns -/
def leftInvOK (n : Nat) (L A : Mat) : Bool :=
  L.length == n && A.all (fun r => r.length == n) &&
  (L.map (fun l => vecMat n l A) == identity n)

/-- `L` certifies that the local system of `R` has at most one solution -/
def certOK (d : Nat) (R : Region) (L : Mat) : Bool :=
  leftInvOK (R.cells.length * d) L (R.matrix d)

/-- cut a vector into `m` blocks of width `d` -/
def chunks (d : Nat) : Nat → Vec → List Vec
  | 0, _ => []
  | m + 1, y => y.take d :: chunks d m (y.drop d)

structure Solution where
  L : Mat             -- certified left inverse
  G : List Vec        -- sub-cell gradients  L · rhs
deriving Repr

/-- solve the local system; `none` = singular (or the certificate check failed) -/
def Region.solve (d : Nat) (R : Region) : Option Solution :=
  match leftInverse (R.matrix d) with
  | none => none
  | some L =>
    if certOK d R L then
      some { L := L, G := chunks d R.cells.length (mulVec L (R.rhs d)) }
    else none

def gradFn (Gs : List Vec) : Nat → Vec := fun i => Gs.getD i []

end PorepyVerif.C11
