/-
C11 — executable model of ONE interaction region of the MPFA-O scheme
(`porepy.numerics.fv.mpfa.Mpfa._flux_discretization`), core Lean only, exact rationals.

What the real code does (vectorised, all regions at once) and what is modelled here per region
(= per grid node `v`):

  * unknowns: one gradient `g_k ∈ ℚ^d` per sub-cell (cell–node pair)          ↦ `G : Nat → Vec`
  * cell-centre pressures are data (moved to the right-hand side)              ↦ `SubCell.p`
  * per sub-face (face–node pair) with normal `n = n_f / num_nodes(f)`
    (`_fvutils.scalar_tensor_vector_prod`) and continuity point
    `x_c = x_f + η (x_v − x_f)`, η = 0 on boundary faces (`compute_dist_face_cell`):
      - interior:   flux continuity  `n·K_i g_i = n·K_j g_j`      (rows of `nk_grad_n`)
                    pressure cont.   `p_i + g_i·(x_c−x_i) = p_j + g_j·(x_c−x_j)`   (`pr_cont_grad`)
      - Dirichlet:  `p_i + g_i·(x_c−x_i) = p_D`                   (`exclude_neumann_robin` keeps it)
      - Neumann:    `sgn · n·K_i g_i = − q_N`                     (`exclude_robin_dirichlet` keeps it;
                    `sgn` = ±1 orientation of the face normal w.r.t. the cell, `q_N` = prescribed
                    outward flux through the sub-face = bc value / num_nodes, `_create_bound_rhs`)
    The code's interior rows carry the factors `sgn_i = −sgn_j`, and every row is scaled by
    `diagonal_scaling_matrix`; both are non-zero row factors and drop out of the solution.
  * sub-face flux (`darcy = −nk_grad_all[unique_subfno]`): `−n·K_i g_i`, `i` = first side
  * pressure reconstruction (`reconstruct_presssure`): `p_i + g_i·(x_c − x_i)`, averaged over the
    two sides on interior sub-faces.

The local system is solved by an exact Gauss–Jordan elimination on `[A | I]`; its result `L` is
NOT trusted: `certOK` re-checks `L·A = I` by plain multiplication, and Props.lean proves that a
passing check implies uniqueness of the solution (`certificate_nonsingular`).
-/
namespace PorepyVerif.C11

abbrev Vec := List Rat
abbrev Mat := List Vec

/-! ## vectors as lists -/

def dot : Vec → Vec → Rat
  | a :: as, b :: bs => a * b + dot as bs
  | _, _ => 0

def vsub : Vec → Vec → Vec
  | a :: as, b :: bs => (a - b) :: vsub as bs
  | _, _ => []

def vadd : Vec → Vec → Vec
  | a :: as, b :: bs => (a + b) :: vadd as bs
  | _, _ => []

def smul (c : Rat) (v : Vec) : Vec := v.map (c * ·)

def zeros (n : Nat) : Vec := List.replicate n 0

/-- matrix (list of rows) times vector -/
def mulVec (K : Mat) (g : Vec) : Vec := K.map (fun r => dot r g)

/-- row vector times matrix, `l · A = Σ_k l_k • A_k`, result of width `w` -/
def vecMat (w : Nat) : Vec → Mat → Vec
  | b :: bs, a :: as => vadd (smul b a) (vecMat w bs as)
  | _, _ => zeros w

/-- the affine pressure field `p(x) = a·x + b` -/
def affine (a : Vec) (b : Rat) (x : Vec) : Rat := dot a x + b

/-- `n · K g` -/
def nKg (n : Vec) (K : Mat) (g : Vec) : Rat := dot n (mulVec K g)

/-! ## interaction region -/

structure SubCell where
  x : Vec      -- cell centre
  K : Mat      -- permeability of the cell
  p : Rat      -- cell-centre pressure
deriving Repr

inductive Kind where
  | interior (i j : Nat)                    -- sub-cells on the two sides; the flux is taken from `i`
  | dirichlet (i : Nat) (pD : Rat)
  | neumann (i : Nat) (sgn : Rat) (qN : Rat)
deriving Repr

structure SubFace where
  n : Vec      -- sub-face normal  n_f / num_nodes(f)
  xc : Vec     -- continuity point x_f + η (x_v − x_f)
  kind : Kind
deriving Repr

structure Region where
  cells : List SubCell
  faces : List SubFace
deriving Repr

def Region.cellAt (R : Region) (i : Nat) : SubCell := R.cells.getD i ⟨[], [], 0⟩

/-- the sub-cell whose gradient defines the flux / the one-sided pressure of the sub-face -/
def Kind.first : Kind → Nat
  | .interior i _ => i
  | .dirichlet i _ => i
  | .neumann i _ _ => i

/-- sub-cells a sub-face refers to -/
def Kind.cells : Kind → List Nat
  | .interior i j => [i, j]
  | .dirichlet i _ => [i]
  | .neumann i _ _ => [i]

/-- sub-cell pressure `p_c + g·(x − x_c)` evaluated at `x` -/
def presAt (c : SubCell) (g : Vec) (x : Vec) : Rat := c.p + dot g (vsub x c.x)

/-- The rows of the local system contributed by one sub-face, as a proposition about the
    gradient assignment `G`. -/
def SubFace.holds (R : Region) (G : Nat → Vec) (f : SubFace) : Prop :=
  match f.kind with
  | .interior i j =>
      nKg f.n (R.cellAt i).K (G i) = nKg f.n (R.cellAt j).K (G j) ∧
      presAt (R.cellAt i) (G i) f.xc = presAt (R.cellAt j) (G j) f.xc
  | .dirichlet i pD => presAt (R.cellAt i) (G i) f.xc = pD
  | .neumann i sgn qN => sgn * nKg f.n (R.cellAt i).K (G i) = -qN

instance (R : Region) (G : Nat → Vec) (f : SubFace) : Decidable (f.holds R G) := by
  unfold SubFace.holds; split <;> infer_instance

/-- `G` solves the local system of the region. -/
def Region.Consistent (R : Region) (G : Nat → Vec) : Prop := ∀ f ∈ R.faces, f.holds R G

instance (R : Region) (G : Nat → Vec) : Decidable (R.Consistent G) := by
  unfold Region.Consistent; infer_instance

/-- discrete Darcy flux through a sub-face in the direction of the face normal -/
def SubFace.flux (R : Region) (G : Nat → Vec) (f : SubFace) : Rat :=
  -(nKg f.n (R.cellAt f.kind.first).K (G f.kind.first))

/-- one-sided reconstructed pressure at the continuity point (side `first`) -/
def SubFace.pres1 (R : Region) (G : Nat → Vec) (f : SubFace) : Rat :=
  presAt (R.cellAt f.kind.first) (G f.kind.first) f.xc

/-- reconstructed sub-face pressure as in `reconstruct_presssure` (mean of the sides) -/
def SubFace.pres (R : Region) (G : Nat → Vec) (f : SubFace) : Rat :=
  match f.kind with
  | .interior i j => (presAt (R.cellAt i) (G i) f.xc + presAt (R.cellAt j) (G j) f.xc) / 2
  | _ => f.pres1 R G

/-! ## well-formedness (decidable) -/

def Kind.idxOK (m : Nat) : Kind → Prop
  | .interior i j => i < m ∧ j < m ∧ i ≠ j
  | .dirichlet i _ => i < m
  | .neumann i _ _ => i < m

instance (m : Nat) (k : Kind) : Decidable (k.idxOK m) := by
  unfold Kind.idxOK; split <;> infer_instance

def SubCell.WF (d : Nat) (c : SubCell) : Prop :=
  c.x.length = d ∧ c.K.length = d ∧ ∀ r ∈ c.K, r.length = d

def SubFace.WF (d m : Nat) (f : SubFace) : Prop :=
  f.n.length = d ∧ f.xc.length = d ∧ f.kind.idxOK m

instance (d : Nat) (c : SubCell) : Decidable (c.WF d) := by unfold SubCell.WF; infer_instance
instance (d m : Nat) (f : SubFace) : Decidable (f.WF d m) := by unfold SubFace.WF; infer_instance

/-- every vector has `d` components, every permeability is `d × d`, indices point to sub-cells -/
def Region.WF (d : Nat) (R : Region) : Prop :=
  (∀ c ∈ R.cells, c.WF d) ∧ (∀ f ∈ R.faces, f.WF d R.cells.length)

instance (d : Nat) (R : Region) : Decidable (R.WF d) := by unfold Region.WF; infer_instance

/-! ## data of an affine field -/

def Kind.affineOK (K : Mat) (a : Vec) (b : Rat) (n xc : Vec) : Kind → Prop
  | .interior _ _ => True
  | .dirichlet _ pD => pD = affine a b xc
  | .neumann _ sgn qN => qN = -(sgn * nKg n K a)

instance (K : Mat) (a : Vec) (b : Rat) (n xc : Vec) (k : Kind) : Decidable (k.affineOK K a b n xc) := by
  unfold Kind.affineOK; split <;> infer_instance

/-- the region's data are those of `p(x) = a·x + b` with the constant permeability `K`:
    cell pressures `p(x_i)`, Dirichlet values `p(x_c)`, Neumann values = outward Darcy flux. -/
def Region.AffineData (R : Region) (K : Mat) (a : Vec) (b : Rat) : Prop :=
  (∀ c ∈ R.cells, c.K = K ∧ c.p = affine a b c.x) ∧
  (∀ f ∈ R.faces, f.kind.affineOK K a b f.n f.xc)

instance (R : Region) (K : Mat) (a : Vec) (b : Rat) : Decidable (R.AffineData K a b) := by
  unfold Region.AffineData; infer_instance

def Kind.constOK (b : Rat) : Kind → Prop
  | .interior _ _ => True
  | .dirichlet _ pD => pD = b
  | .neumann _ _ qN => qN = 0

instance (b : Rat) (k : Kind) : Decidable (k.constOK b) := by
  unfold Kind.constOK; split <;> infer_instance

/-- data of a constant pressure `b`: all cell pressures and Dirichlet values are `b`, all
    Neumann values are `0` -/
def Region.ConstData (R : Region) (K : Mat) (b : Rat) : Prop :=
  (∀ c ∈ R.cells, c.K = K ∧ c.p = b) ∧ (∀ f ∈ R.faces, f.kind.constOK b)

instance (R : Region) (K : Mat) (b : Rat) : Decidable (R.ConstData K b) := by
  unfold Region.ConstData; infer_instance

/-- The local system of the region has at most one solution (among gradient assignments with
    `d` components per sub-cell; components beyond `d` would be ignored by the dot products). -/
def Region.Nonsingular (d : Nat) (R : Region) : Prop :=
  ∀ G G' : Nat → Vec, (∀ i, (G i).length = d) → (∀ i, (G' i).length = d) →
    R.Consistent G → R.Consistent G' → ∀ i < R.cells.length, G i = G' i

def Kind.withAffine (K : Mat) (a : Vec) (b : Rat) (n xc : Vec) : Kind → Kind
  | .interior i j => .interior i j
  | .dirichlet i _ => .dirichlet i (affine a b xc)
  | .neumann i sgn _ => .neumann i sgn (-(sgn * nKg n K a))

/-- overwrite permeabilities, pressures and boundary values by those of the affine field -/
def Region.withAffine (R : Region) (K : Mat) (a : Vec) (b : Rat) : Region :=
  { cells := R.cells.map (fun c => { x := c.x, K := K, p := affine a b c.x }),
    faces := R.faces.map (fun f => { n := f.n, xc := f.xc, kind := f.kind.withAffine K a b f.n f.xc }) }

/-! ## assembly of the local linear system  `A y = rhs`,  `y` = concatenated gradients -/

/-- the vector `v` placed in block `i` of `m` blocks of width `d` -/
def place (d : Nat) : Nat → Nat → Vec → Vec
  | 0, _, _ => []
  | m + 1, 0, v => v ++ zeros (m * d)
  | m + 1, i + 1, v => zeros d ++ place d m i v

structure LinRow where
  coef : Vec
  rhs : Rat
deriving Repr

def SubFace.rows (d : Nat) (R : Region) (f : SubFace) : List LinRow :=
  let m := R.cells.length
  match f.kind with
  | .interior i j =>
      let ci := R.cellAt i
      let cj := R.cellAt j
      [ { coef := vsub (place d m i (vecMat d f.n ci.K)) (place d m j (vecMat d f.n cj.K)), rhs := 0 },
        { coef := vsub (place d m i (vsub f.xc ci.x)) (place d m j (vsub f.xc cj.x)), rhs := cj.p - ci.p } ]
  | .dirichlet i pD =>
      let ci := R.cellAt i
      [ { coef := place d m i (vsub f.xc ci.x), rhs := pD - ci.p } ]
  | .neumann i sgn qN =>
      let ci := R.cellAt i
      [ { coef := place d m i (smul sgn (vecMat d f.n ci.K)), rhs := -qN } ]

def Region.rows (d : Nat) (R : Region) : List LinRow := R.faces.flatMap (fun f => f.rows d R)

def Region.matrix (d : Nat) (R : Region) : Mat := (R.rows d).map (·.coef)
def Region.rhs (d : Nat) (R : Region) : Vec := (R.rows d).map (·.rhs)

/-! ## exact Gauss–Jordan elimination on `[A | I]` (result checked by `certOK`, not trusted) -/

abbrev WRow := Vec × Vec

/-- identity matrix, by recursion on the size -/
def identity : Nat → Mat
  | 0 => []
  | n + 1 => (1 :: zeros n) :: (identity n).map (fun r => 0 :: r)

/-- first row whose leading entry is non-zero, and the other rows in order -/
def extractPivot : List WRow → Option (WRow × List WRow)
  | [] => none
  | r :: rs =>
    match r.1 with
    | [] => none
    | h :: _ =>
      if h ≠ 0 then some (r, rs)
      else match extractPivot rs with
        | none => none
        | some (p, rest) => some (p, r :: rest)

/-- eliminate the leading column of `r` with the normalised pivot row `p` (leading 1 dropped) -/
def elimRow (p r : WRow) : WRow :=
  match r.1 with
  | [] => r
  | h :: t => (vsub t (smul h p.1), vsub r.2 (smul h p.2))

def gjLoop : Nat → List WRow → List WRow → Option (List WRow)
  | 0, done, todo => if todo.isEmpty then some done else none
  | fuel + 1, done, todo =>
    match todo with
    | [] => some done
    | _ :: _ =>
      match extractPivot todo with
      | none => none
      | some (p, rest) =>
        match p.1 with
        | [] => none
        | c :: pt =>
          let pn : WRow := (smul c⁻¹ pt, smul c⁻¹ p.2)
          gjLoop fuel (done.map (elimRow pn) ++ [pn]) (rest.map (elimRow pn))

/-- candidate left inverse of a square matrix (`none`: no pivot found / not square) -/
def leftInverse (A : Mat) : Option Mat :=
  let n := A.length
  if A.all (fun r => r.length == n) then
    (gjLoop n [] (A.zip (identity n))).map (fun rows => rows.map (·.2))
  else none

/-- the certificate check: `L` has `n` rows and `L · A = I_n`, where `n` = number of unknowns -/
def leftInvOK (n : Nat) (L A : Mat) : Bool :=
  L.length == n && A.all (fun r => r.length == n) &&
  (L.map (fun l => vecMat n l A) == identity n)

/-- `L` certifies that the local system of `R` has at most one solution -/
def certOK (d : Nat) (R : Region) (L : Mat) : Bool :=
  leftInvOK (R.cells.length * d) L (R.matrix d)

/-- cut a vector into `m` blocks of width `d` -/
def chunks (d : Nat) : Nat → Vec → List Vec
  | 0, _ => []
  | m + 1, y => y.take d :: chunks d m (y.drop d)

structure Solution where
  L : Mat             -- certified left inverse
  G : List Vec        -- sub-cell gradients  L · rhs
deriving Repr

/-- solve the local system; `none` = singular (or the certificate check failed) -/
def Region.solve (d : Nat) (R : Region) : Option Solution :=
  match leftInverse (R.matrix d) with
  | none => none
  | some L =>
    if certOK d R L then
      some { L := L, G := chunks d R.cells.length (mulVec L (R.rhs d)) }
    else none

def gradFn (Gs : List Vec) : Nat → Vec := fun i => Gs.getD i []

/-! ## `mpfa2d`: the whole 2-D discretisation

The grid as the real code sees it: `face_nodes`, `cell_faces` (here per face: its cells with the
orientation sign, ascending in the cell index), the geometry arrays, a permeability per cell, the
boundary type per face and the continuity parameter η.  Per node `v` the model builds the
interaction region itself (sub-cell topology: faces containing `v`, cells of those faces, local
numbering = ascending global index — what `SubcellTopology` obtains by a lexsort), solves it with
the certified left inverse, and adds the sub-face results up per face (`hf2f`, `area_mat`). -/

structure Grid2 where
  nodes : List Vec
  faceNodes : List (List Nat)
  faceCells : List (List (Nat × Rat))
  cellCenters : List Vec
  faceCenters : List Vec
  faceNormals : List Vec
  perm : List Mat
  isDir : List Bool
  eta : Rat
deriving Repr

namespace Grid2
variable (G : Grid2)

def numNodes : Nat := G.nodes.length
def numFaces : Nat := G.faceNodes.length
def numCells : Nat := G.cellCenters.length
def nodeAt (v : Nat) : Vec := G.nodes.getD v []
def ccAt (c : Nat) : Vec := G.cellCenters.getD c []
def fcAt (f : Nat) : Vec := G.faceCenters.getD f []
def fnAt (f : Nat) : Vec := G.faceNormals.getD f []
def permAt (c : Nat) : Mat := G.perm.getD c []
def fnodes (f : Nat) : List Nat := G.faceNodes.getD f []
def fcells (f : Nat) : List (Nat × Rat) := G.faceCells.getD f []
def dirAt (f : Nat) : Bool := G.isDir.getD f false
/-- number of nodes (= number of sub-faces) of a face, as a rational -/
def nN (f : Nat) : Rat := ((G.fnodes f).length : Nat)

/-- faces that contain node `v`, ascending -/
def facesOf (v : Nat) : List Nat := (List.range G.numFaces).filter (fun f => (G.fnodes f).contains v)

/-- cells of the faces around `v`, ascending and without repetition -/
def cellsOf (v : Nat) : List Nat :=
  (List.range G.numCells).filter (fun c => ((G.facesOf v).flatMap (fun f => (G.fcells f).map (·.1))).contains c)

/-- local number of cell `c` in the interaction region of `v` -/
def loc (v c : Nat) : Nat := (G.cellsOf v).idxOf c

def mkCell (p : List Rat) (c : Nat) : SubCell := ⟨G.ccAt c, G.permAt c, p.getD c 0⟩

/-- the sub-face of face `f` at node `v`, with its data: `bc f` is the Dirichlet value resp. the
    Neumann flux integrated over the WHOLE face (divided here by the number of sub-faces) -/
def mkFace (bc : List Rat) (v f : Nat) : SubFace :=
  let n := smul (1 / G.nN f) (G.fnAt f)
  match G.fcells f with
  | [(c, s)] =>
      if G.dirAt f then ⟨n, G.fcAt f, .dirichlet (G.loc v c) (bc.getD f 0)⟩
      else ⟨n, G.fcAt f, .neumann (G.loc v c) s (bc.getD f 0 / G.nN f)⟩
  | [(c1, _), (c2, _)] =>
      ⟨n, vadd (G.fcAt f) (smul G.eta (vsub (G.nodeAt v) (G.fcAt f))), .interior (G.loc v c1) (G.loc v c2)⟩
  | _ => ⟨n, G.fcAt f, .dirichlet 0 0⟩

/-- the interaction region of node `v` with the data `p` (cells) and `bc` (faces) -/
def region (p bc : List Rat) (v : Nat) : Region :=
  { cells := (G.cellsOf v).map (G.mkCell p), faces := (G.facesOf v).map (G.mkFace bc v) }

/-- certified left inverse of the local matrix of node `v` (the matrix does not depend on the data) -/
def certAt (v : Nat) : Option Mat :=
  match leftInverse ((G.region [] [] v).matrix 2) with
  | none => none
  | some L => if certOK 2 (G.region [] [] v) L then some L else none

def allSome : List (Option α) → Option (List α)
  | [] => some []
  | none :: _ => none
  | some a :: l => match allSome l with
    | none => none
    | some as => some (a :: as)

/-- certificates of all nodes; `none` = some interaction region is singular -/
def certs : Option (List Mat) := allSome ((List.range G.numNodes).map G.certAt)

structure NodeSol where
  R : Region
  Gs : List Vec
deriving Repr

/-- per node: the region with its data and the sub-cell gradients `L_v · rhs_v` -/
def nodeSols (Ls : List Mat) (p bc : List Rat) : List NodeSol :=
  (List.range G.numNodes).map (fun v =>
    let R := G.region p bc v
    ⟨R, chunks 2 R.cells.length (mulVec (Ls.getD v []) (R.rhs 2))⟩)

def nodeSolAt (ns : List NodeSol) (v : Nat) : NodeSol := ns.getD v ⟨⟨[], []⟩, []⟩

/-- flux through face `f`: sum of its sub-face fluxes (`hf2f`) -/
def faceFlux (ns : List NodeSol) (bc : List Rat) (f : Nat) : Rat :=
  ((G.fnodes f).map (fun v =>
    (G.mkFace bc v f).flux (nodeSolAt ns v).R (gradFn (nodeSolAt ns v).Gs))).sum

/-- reconstructed pressure on face `f`: mean of its sub-face values (`area_mat`) -/
def facePres (ns : List NodeSol) (bc : List Rat) (f : Nat) : Rat :=
  ((G.fnodes f).map (fun v =>
    (G.mkFace bc v f).pres (nodeSolAt ns v).R (gradFn (nodeSolAt ns v).Gs))).sum / G.nN f

/-- `flux·p + bound_flux·bc` and `bound_pressure_cell·p + bound_pressure_face·bc` for all faces -/
def apply (Ls : List Mat) (p bc : List Rat) : List Rat × List Rat :=
  let ns := G.nodeSols Ls p bc
  ((List.range G.numFaces).map (G.faceFlux ns bc), (List.range G.numFaces).map (G.facePres ns bc))

def unit (n k : Nat) : List Rat := (List.range n).map (fun j => if j = k then 1 else 0)

/-- the four matrices, column by column (cell columns: `flux`, `bound_pressure_cell`; face columns:
    `bound_flux`, `bound_pressure_face`), each column = the scheme applied to a unit vector -/
def matrices (Ls : List Mat) : List (List Rat × List Rat) × List (List Rat × List Rat) :=
  ((List.range G.numCells).map (fun c => G.apply Ls (unit G.numCells c) []),
   (List.range G.numFaces).map (fun f => G.apply Ls [] (unit G.numFaces f)))

/-! well-formedness of the grid (decidable) -/

def fcOK (nc : Nat) : List (Nat × Rat) → Prop
  | [(c, _)] => c < nc
  | [(c1, _), (c2, _)] => c1 < nc ∧ c2 < nc ∧ c1 ≠ c2
  | _ => False

instance (nc : Nat) (l : List (Nat × Rat)) : Decidable (fcOK nc l) := by
  unfold fcOK; split <;> infer_instance

def WF : Prop :=
  G.faceCells.length = G.numFaces ∧ G.faceCenters.length = G.numFaces ∧
  G.faceNormals.length = G.numFaces ∧ G.perm.length = G.numCells ∧
  (∀ x ∈ G.nodes, x.length = 2) ∧ (∀ x ∈ G.cellCenters, x.length = 2) ∧
  (∀ x ∈ G.faceCenters, x.length = 2) ∧ (∀ x ∈ G.faceNormals, x.length = 2) ∧
  (∀ K ∈ G.perm, K.length = 2 ∧ ∀ r ∈ K, r.length = 2) ∧
  (∀ l ∈ G.faceNodes, l ≠ [] ∧ ∀ v ∈ l, v < G.numNodes) ∧
  (∀ l ∈ G.faceCells, fcOK G.numCells l)

instance : Decidable G.WF := by unfold WF; infer_instance

def bcOK (K : Mat) (a : Vec) (b : Rat) (bc : List Rat) (f : Nat) : Prop :=
  match G.fcells f with
  | [(_, s)] =>
      if G.dirAt f then bc.getD f 0 = affine a b (G.fcAt f)
      else bc.getD f 0 = -(s * nKg (G.fnAt f) K a)
  | _ => True

/-- global data of the affine field `p(x) = a·x + b` with the constant permeability `K`:
    cell values `p(x_c)`, Dirichlet values `p(x_f)`, Neumann values = outward Darcy flux through
    the face, `−sgn · n_f·K a` -/
def AffineGlobal (K : Mat) (a : Vec) (b : Rat) (p bc : List Rat) : Prop :=
  (∀ c < G.numCells, G.permAt c = K ∧ p.getD c 0 = affine a b (G.ccAt c)) ∧
  (∀ f < G.numFaces, G.bcOK K a b bc f)

def isBoundary (f : Nat) : Bool := (G.fcells f).length == 1

def bcConstOK (b : Rat) (bc : List Rat) (f : Nat) : Prop :=
  match G.fcells f with
  | [(_, _)] => if G.dirAt f then bc.getD f 0 = b else bc.getD f 0 = 0
  | _ => True

/-- global data of a constant pressure `b`: cell values and Dirichlet values `b`, Neumann values `0` -/
def ConstGlobal (K : Mat) (b : Rat) (p bc : List Rat) : Prop :=
  (∀ c < G.numCells, G.permAt c = K ∧ p.getD c 0 = b) ∧ (∀ f < G.numFaces, G.bcConstOK b bc f)

def affineBc (K : Mat) (a : Vec) (b : Rat) (f : Nat) : Rat :=
  match G.fcells f with
  | [(_, s)] => if G.dirAt f then affine a b (G.fcAt f) else -(s * nKg (G.fnAt f) K a)
  | _ => 0

/-- the data of `AffineGlobal`, computed -/
def affineData (K : Mat) (a : Vec) (b : Rat) : List Rat × List Rat :=
  ((List.range G.numCells).map (fun c => affine a b (G.ccAt c)),
   (List.range G.numFaces).map (G.affineBc K a b))

end Grid2

end PorepyVerif.C11
