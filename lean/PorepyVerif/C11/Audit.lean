import PorepyVerif.C11.Props
#print axioms PorepyVerif.C11.local_consistency
#print axioms PorepyVerif.C11.exact_flux
#print axioms PorepyVerif.C11.exact_boundary_pressure
#print axioms PorepyVerif.C11.const_zero_flux
#print axioms PorepyVerif.C11.certificate_nonsingular
#print axioms PorepyVerif.C11.solve_sound
#print axioms PorepyVerif.C11.region_solver_exact
#print axioms PorepyVerif.C11.face_flux_exact
#print axioms PorepyVerif.C11.face_pressure_exact
#print axioms PorepyVerif.C11.mpfa2d_linear_exact
#print axioms PorepyVerif.C11.mpfa2d_const_zero_flux
#print axioms PorepyVerif.C11.mpfa2d_regions_wellformed
#print axioms PorepyVerif.C11.mpfa2d_regions_nonsingular
#print axioms PorepyVerif.C11.mpfa2d_gradients_sound
#print axioms PorepyVerif.C11.mpfa2d_apply_exact
