/-
C13 — executable model of ONE interaction region (the local system around one grid node) of
`porepy.numerics.fv.mpsa.Mpsa._stress_discretization` (core Lean only, any dimension `d`).

What the code does around a node `v` (facts read off `_create_inverse_gradient_matrix`,
`_tensor_vector_prod`, `_split_stiffness_matrix`, `_eliminate_ncasym`, `_unique_hooks_law`,
`_get_displacement_submatrices`, `_create_rhs_cell_center`, `_create_bound_rhs`,
`_fvutils.compute_dist_face_cell`):

* unknowns: one displacement gradient `G k` (`d×d`, `G k i l = ∂u_i/∂x_l`) per sub-cell `k`
  (pair cell/node); the cell-centre displacements `u k` go to the right-hand side;
* the stiffness tensor is split, `C = csym + casym`; for an isotropic medium
  `csym G = λ tr(G) I + μ G + μ diag(G)` and `casym G = μ (Gᵀ − diag G)`, so that
  `csym G + casym G = μ (G + Gᵀ) + λ tr(G) I` (Hooke's law);
* weak symmetry: the `casym` part of the stress is replaced by its volume weighted average over
  all sub-cells around the node (`average * casym_mat`, weights `cell_vol/node_vol`);
  the traction of sub-cell `k` on a sub-face with normal `n = n_f / #nodes(f)` is
  `(csym (G k) + avg) n`;
* rows of the local system:
  - internal sub-face: traction continuity.  The code pairs only the `csym` part
    (`ncsym = pair_over_subfaces_nd(ncsym_all)`): the averaged part is the same on both sides;
  - internal sub-face: displacement continuity at `x_s = x_f + η (x_v − x_f)`;
  - Dirichlet sub-face: `u_k + G_k (x_s − x_k) = u_D` (`η = 0` on the boundary);
  - Neumann sub-face: `(csym (G k) + avg) n = t`; at nodes that have more Neumann sub-faces than
    sub-cells `_eliminate_ncasym` drops `avg` from the row and from the discrete Hooke's law
    (flag `elim`);
* output: the discrete Hooke's law of the first side of every sub-face applied to the solution
  (`hook @ igrad @ rhs`), summed over the sub-faces of a face (`hf2f`).

Numbers are rationals; every binary64 value is one.  Sub-cells are indexed `0 … m-1`.
-/
import PorepyVerif.C11.Model

namespace PorepyVerif.C13

abbrev Vec (d : Nat) := Fin d → Rat
abbrev Mat (d : Nat) := Fin d → Fin d → Rat

/-- `Σ_{i<n} f i` by structural recursion (reduces on concrete data) -/
def sumFin : (n : Nat) → (Fin n → Rat) → Rat
  | 0, _ => 0
  | n + 1, f => f 0 + sumFin n (fun i => f i.succ)

/-- `∀ i<n, p i` as a Bool -/
def allFin : (n : Nat) → (Fin n → Bool) → Bool
  | 0, _ => true
  | n + 1, p => p 0 && allFin n (fun i => p i.succ)

/-- `Σ_{k<m} f k` -/
def sumTo (f : Nat → Rat) : Nat → Rat
  | 0 => 0
  | m + 1 => sumTo f m + f m

variable {d : Nat}

def mulVec (M : Mat d) (v : Vec d) : Vec d := fun i => sumFin d (fun j => M i j * v j)
def tr (M : Mat d) : Rat := sumFin d (fun i => M i i)
def vsub (x y : Vec d) : Vec d := fun i => x i - y i

/-- the part of the isotropic stiffness tensor kept in `csym` by `_split_stiffness_matrix`
    (entries `C_ijij` and `C_iijj`), applied to a gradient -/
def csym (lam mu : Rat) (G : Mat d) : Mat d :=
  fun i j => if i = j then lam * tr G + 2 * mu * G i i else mu * G i j

/-- the rest (`C_ijji`, `i ≠ j`), applied to a gradient -/
def casym (mu : Rat) (G : Mat d) : Mat d :=
  fun i j => if i = j then 0 else mu * G j i

/-- Hooke's law `σ(G) = μ (G + Gᵀ) + λ tr(G) I` -/
def hooke (lam mu : Rat) (G : Mat d) : Mat d :=
  fun i j => mu * (G i j + G j i) + (if i = j then lam * tr G else 0)

/-- the affine displacement field `u(x) = A x + b` -/
def affine (A : Mat d) (b : Vec d) (x : Vec d) : Vec d := fun i => mulVec A x i + b i

/-- one row (a `d`-vector equation) of the local system; `i`, `j` index sub-cells -/
inductive Row (d : Nat) where
  /-- internal sub-face, normal `n` (pointing from `i` to `j`): traction continuity -/
  | tractionCont (i j : Nat) (n : Vec d)
  /-- internal sub-face: displacement continuity at the point `xs` -/
  | dispCont (i j : Nat) (xs : Vec d)
  /-- Dirichlet sub-face of sub-cell `i`: prescribed displacement `uD` at `xs` -/
  | dirichlet (i : Nat) (xs : Vec d) (uD : Vec d)
  /-- Neumann sub-face of sub-cell `i` with normal `n`: prescribed traction `t` (w.r.t. `n`);
      `elim`: the averaged part was removed by `_eliminate_ncasym` -/
  | neumann (i : Nat) (n : Vec d) (t : Vec d) (elim : Bool)

/-- an interaction region: material, sub-cells (volume shares and cell centres), rows -/
structure Region (d : Nat) where
  lam : Rat
  mu : Rat
  /-- number of sub-cells around the node -/
  m : Nat
  /-- `cell_volume / num_cell_nodes` of the cell of sub-cell `k` -/
  vol : Nat → Rat
  /-- cell centre of sub-cell `k` -/
  xc : Nat → Vec d
  rows : List (Row d)

/-- weak symmetry: volume weighted average of `casym (G k)` over the sub-cells of the region -/
def avgAsym (R : Region d) (G : Nat → Mat d) : Mat d :=
  fun a b => sumTo (fun k => R.vol k * casym R.mu (G k) a b) R.m / sumTo R.vol R.m

/-- stress tensor used for sub-cell `i` (discrete Hooke's law of the code) -/
def subStress (R : Region d) (G : Nat → Mat d) (i : Nat) (elim : Bool) : Mat d :=
  fun a b => csym R.lam R.mu (G i) a b + (if elim then 0 else avgAsym R G a b)

/-- traction of sub-cell `i` on a sub-face with normal `n` -/
def subTraction (R : Region d) (G : Nat → Mat d) (i : Nat) (n : Vec d) (elim : Bool) : Vec d :=
  mulVec (subStress R G i elim) n

/-- displacement of sub-cell `i` evaluated at the point `x` -/
def subDisp (R : Region d) (u : Nat → Vec d) (G : Nat → Mat d) (i : Nat) (x : Vec d) : Vec d :=
  fun a => u i a + mulVec (G i) (vsub x (R.xc i)) a

/-- left-hand side minus right-hand side of a row -/
def Row.residual (R : Region d) (u : Nat → Vec d) (G : Nat → Mat d) : Row d → Vec d
  | .tractionCont i j n => fun a =>
      mulVec (csym R.lam R.mu (G i)) n a - mulVec (csym R.lam R.mu (G j)) n a
  | .dispCont i j xs => fun a => subDisp R u G i xs a - subDisp R u G j xs a
  | .dirichlet i xs uD => fun a => subDisp R u G i xs a - uD a
  | .neumann i n t elim => fun a => subTraction R G i n elim a - t a

/-- `(u, G)` satisfies every row of the local system -/
def Solves (R : Region d) (u : Nat → Vec d) (G : Nat → Mat d) : Prop :=
  ∀ r ∈ R.rows, ∀ a : Fin d, r.residual R u G a = 0

/-- the same, executable -/
def checkSolves (R : Region d) (u : Nat → Vec d) (G : Nat → Mat d) : Bool :=
  R.rows.all (fun r => allFin d (fun a => r.residual R u G a == 0))

/-- the data of a row are those of the affine field `A x + b` (Dirichlet value at the continuity
    point, Neumann value `σ(A) n`), and the row is admissible: a Neumann row whose averaged part
    was eliminated is consistent only if that part vanishes -/
def Row.linData (lam mu : Rat) (A : Mat d) (b : Vec d) : Row d → Prop
  | .tractionCont _ _ _ => True
  | .dispCont _ _ _ => True
  | .dirichlet _ xs uD => ∀ a, uD a = affine A b xs a
  | .neumann _ n t elim =>
      (∀ a, t a = mulVec (hooke lam mu A) n a) ∧ (elim = true → ∀ a, mulVec (casym mu A) n a = 0)

def LinearData (R : Region d) (A : Mat d) (b : Vec d) : Prop :=
  ∀ r ∈ R.rows, r.linData R.lam R.mu A b

/-- the local system determines the sub-cell gradients (what the inversion of the local
    matrix in `_inverse_gradient` presupposes) -/
def Unisolvent (R : Region d) : Prop :=
  ∀ (u : Nat → Vec d) (G₁ G₂ : Nat → Mat d), Solves R u G₁ → Solves R u G₂ →
    ∀ k, k < R.m → G₁ k = G₂ k

/-- cell-centre values of the affine field -/
def affineCells (R : Region d) (A : Mat d) (b : Vec d) : Nat → Vec d := fun k => affine A b (R.xc k)

/-! ### driver helpers -/

def vecOfList (l : List Rat) : Vec d := fun i => l.getD i.val 0
def matOfLists (l : List (List Rat)) : Mat d := fun i j => (l.getD i.val []).getD j.val 0
def vecToList (v : Vec d) : List Rat := (List.finRange d).map v

/-- rewrite the data of a row to those of the affine field (used by the driver to build the
    linear-data variant of a region from the same geometry) -/
def Row.withLinData (lam mu : Rat) (A : Mat d) (b : Vec d) : Row d → Row d
  | .dirichlet i xs _ => .dirichlet i xs (affine A b xs)
  | .neumann i n _ elim => .neumann i n (mulVec (hooke lam mu A) n) elim
  | r => r

def Row.isElim : Row d → Bool
  | .neumann _ _ _ e => e
  | _ => false

/-! ## `mpsa2d`: the whole 2-D discretisation

Analogue of C11's `mpfa2d` for vector unknowns.  The grid as the real code sees it (`face_nodes`,
`cell_faces` given per face as its cells with orientation sign, ascending in the cell index; the
geometry arrays; `cell_volumes / num_cell_nodes`; boundary type per face; η, λ, μ).  Per node `v` the
model builds the interaction region itself (faces containing `v`, cells of those faces, local
numbering = ascending global index, the `_eliminate_ncasym` flag from the counts), assembles the
local matrix in the unknowns `(G k 0 0, G k 0 1, G k 1 0, G k 1 1)_k`, solves it with a left inverse
obtained by exact Gauss–Jordan elimination (C11's `leftInverse`) that is NOT trusted but re-checked
(`L·A = I`, C11's `leftInvOK`), and adds the sub-face results up per face (`hf2f`; mean for the
displacement reconstruction). -/

/-- coefficients of one sub-cell block `(G 0 0, G 0 1, G 1 0, G 1 1)` -/
structure Blk where
  a : Rat
  b : Rat
  c : Rat
  e : Rat

namespace Blk
def toList (x : Blk) : List Rat := [x.a, x.b, x.c, x.e]
def dot (x y : Blk) : Rat := x.a * y.a + x.b * y.b + x.c * y.c + x.e * y.e
def smul (s : Rat) (x : Blk) : Blk := ⟨s * x.a, s * x.b, s * x.c, s * x.e⟩
def add (x y : Blk) : Blk := ⟨x.a + y.a, x.b + y.b, x.c + y.c, x.e + y.e⟩
end Blk

def blkOf (G : Mat 2) : Blk := ⟨G 0 0, G 0 1, G 1 0, G 1 1⟩

def ind (k i : Nat) : Rat := if k = i then 1 else 0

/-- `(csym G n)_a` as a linear form in the block of `G` -/
def csymB (lam mu : Rat) (n : Vec 2) (a : Fin 2) : Blk :=
  if a = 0 then ⟨(lam + 2 * mu) * n 0, mu * n 1, 0, lam * n 0⟩
  else ⟨lam * n 1, 0, mu * n 0, (lam + 2 * mu) * n 1⟩

/-- `(casym G n)_a` as a linear form in the block of `G` -/
def casymB (mu : Rat) (n : Vec 2) (a : Fin 2) : Blk :=
  if a = 0 then ⟨0, 0, mu * n 1, 0⟩ else ⟨0, mu * n 0, 0, 0⟩

/-- `(G x)_a` as a linear form in the block of `G` -/
def distB (x : Vec 2) (a : Fin 2) : Blk :=
  if a = 0 then ⟨x 0, x 1, 0, 0⟩ else ⟨0, 0, x 0, x 1⟩

/-- coefficient block of sub-cell `k` in component `a` of a row -/
def Row.coefs (R : Region 2) (a : Fin 2) : Row 2 → Nat → Blk
  | .tractionCont i j n => fun k =>
      Blk.add (Blk.smul (ind k i) (csymB R.lam R.mu n a)) (Blk.smul (-(ind k j)) (csymB R.lam R.mu n a))
  | .dispCont i j xs => fun k =>
      Blk.add (Blk.smul (ind k i) (distB (vsub xs (R.xc i)) a)) (Blk.smul (-(ind k j)) (distB (vsub xs (R.xc j)) a))
  | .dirichlet i xs _ => fun k => Blk.smul (ind k i) (distB (vsub xs (R.xc i)) a)
  | .neumann i n _ elim => fun k =>
      Blk.add (Blk.smul (ind k i) (csymB R.lam R.mu n a))
        (Blk.smul (if elim then 0 else R.vol k / sumTo R.vol R.m) (casymB R.mu n a))

/-- right-hand side of component `a` of a row (everything that does not multiply a gradient) -/
def Row.rhsAt (u : Nat → Vec 2) (a : Fin 2) : Row 2 → Rat
  | .tractionCont _ _ _ => 0
  | .dispCont i j _ => u j a - u i a
  | .dirichlet i _ uD => uD a - u i a
  | .neumann _ _ t _ => t a

/-- blocks `0 … m-1` laid out one after the other -/
def flatB (c : Nat → Blk) (m : Nat) : List Rat := (List.range m).flatMap (fun k => (c k).toList)

def Region.matrix2 (R : Region 2) : C11.Mat :=
  R.rows.flatMap (fun r => [flatB (r.coefs R 0) R.m, flatB (r.coefs R 1) R.m])

def Region.rhs2 (R : Region 2) (u : Nat → Vec 2) : C11.Vec :=
  R.rows.flatMap (fun r => [r.rhsAt u 0, r.rhsAt u 1])

/-- `L` certifies that the local system of `R` has at most one solution: `L · A = I` -/
def certOK2 (R : Region 2) (L : C11.Mat) : Bool := C11.leftInvOK (4 * R.m) L R.matrix2

/-- read the sub-cell gradients back from the solution vector -/
def unflat (y : List Rat) : Nat → Mat 2 := fun k p q => y.getD (4 * k + 2 * p.val + q.val) 0

/-- indices of a row are those of sub-cells of the region -/
def Row.idxOK (m : Nat) : Row 2 → Prop
  | .tractionCont i j _ => i < m ∧ j < m
  | .dispCont i j _ => i < m ∧ j < m
  | .dirichlet i _ _ => i < m
  | .neumann i _ _ _ => i < m

structure GridS where
  nodes : List (List Rat)
  faceNodes : List (List Nat)
  /-- per face: its cells with the orientation sign (`cell_faces`), ascending in the cell index -/
  faceCells : List (List (Nat × Rat))
  cellCenters : List (List Rat)
  faceCenters : List (List Rat)
  faceNormals : List (List Rat)
  /-- `cell_volumes / num_cell_nodes` per cell -/
  volShare : List Rat
  isDir : List Bool
  eta : Rat
  lam : Rat
  mu : Rat

namespace GridS
variable (G : GridS)

def numNodes : Nat := G.nodes.length
def numFaces : Nat := G.faceNodes.length
def numCells : Nat := G.cellCenters.length
def nodeAt (v : Nat) : Vec 2 := vecOfList (G.nodes.getD v [])
def ccAt (c : Nat) : Vec 2 := vecOfList (G.cellCenters.getD c [])
def fcAt (f : Nat) : Vec 2 := vecOfList (G.faceCenters.getD f [])
def fnAt (f : Nat) : Vec 2 := vecOfList (G.faceNormals.getD f [])
def fnodes (f : Nat) : List Nat := G.faceNodes.getD f []
def fcells (f : Nat) : List (Nat × Rat) := G.faceCells.getD f []
def dirAt (f : Nat) : Bool := G.isDir.getD f false
def isBoundary (f : Nat) : Bool := (G.fcells f).length == 1
def isNeu (f : Nat) : Bool := G.isBoundary f && !G.dirAt f
/-- number of nodes (= sub-faces) of a face -/
def nN (f : Nat) : Rat := ((G.fnodes f).length : Nat)

/-- faces that contain node `v`, ascending -/
def facesOf (v : Nat) : List Nat := (List.range G.numFaces).filter (fun f => (G.fnodes f).contains v)

/-- cells of the faces around `v`, ascending and without repetition -/
def cellsOf (v : Nat) : List Nat :=
  (List.range G.numCells).filter (fun c => ((G.facesOf v).flatMap (fun f => (G.fcells f).map (·.1))).contains c)

def loc (v c : Nat) : Nat := (G.cellsOf v).idxOf c

/-- `_eliminate_ncasym`: more Neumann sub-faces than sub-cells at the node -/
def elimAt (v : Nat) : Bool :=
  decide ((G.cellsOf v).length < ((G.facesOf v).filter G.isNeu).length)

/-- normal of a sub-face: `n_f / num_nodes(f)` -/
def subNormal (f : Nat) : Vec 2 := fun a => (1 / G.nN f) * G.fnAt f a

/-- continuity point of the sub-face of an interior face `f` at node `v` -/
def contPt (v f : Nat) : Vec 2 := fun a => G.fcAt f a + G.eta * (G.nodeAt v a - G.fcAt f a)

/-- rows contributed by the sub-face of face `f` at node `v`; `bc f` = Dirichlet value, resp. the
    Neumann traction w.r.t. the outward normal integrated over the WHOLE face -/
def mkRows (bc : Nat → Vec 2) (v f : Nat) : List (Row 2) :=
  match G.fcells f with
  | [(c, s)] =>
      if G.dirAt f then [.dirichlet (G.loc v c) (G.fcAt f) (bc f)]
      else [.neumann (G.loc v c) (G.subNormal f) (fun a => s * bc f a / G.nN f) (G.elimAt v)]
  | [(c1, _), (c2, _)] =>
      [.tractionCont (G.loc v c1) (G.loc v c2) (G.subNormal f),
       .dispCont (G.loc v c1) (G.loc v c2) (G.contPt v f)]
  | _ => []

/-- the interaction region of node `v` -/
def region (bc : Nat → Vec 2) (v : Nat) : Region 2 :=
  let cs := G.cellsOf v
  { lam := G.lam, mu := G.mu, m := cs.length,
    vol := fun k => G.volShare.getD (cs.getD k 0) 0,
    xc := fun k => G.ccAt (cs.getD k 0),
    rows := (G.facesOf v).flatMap (G.mkRows bc v) }

/-- cell-centre data of the sub-cells of node `v` -/
def uLoc (u : Nat → Vec 2) (v : Nat) : Nat → Vec 2 :=
  let cs := G.cellsOf v
  fun k => u (cs.getD k 0)

def zeroData : Nat → Vec 2 := fun _ _ => 0

/-- certified left inverse of the local matrix of node `v` (the matrix does not depend on the data) -/
def certAt (v : Nat) : Option C11.Mat :=
  let R := G.region zeroData v
  match C11.leftInverse R.matrix2 with
  | none => none
  | some L => if certOK2 R L then some L else none

/-- certificates of all nodes; `none` = some interaction region is singular -/
def certs : Option (List C11.Mat) := C11.Grid2.allSome ((List.range G.numNodes).map G.certAt)

/-- per node: region with data and sub-cell gradients `unflat (L_v · rhs_v)` -/
structure NodeSol where
  R : Region 2
  u : Nat → Vec 2
  Gs : Nat → Mat 2

def nodeSol (Ls : List C11.Mat) (u bc : Nat → Vec 2) (v : Nat) : NodeSol :=
  let R := G.region bc v
  let cs := G.cellsOf v
  let ul : Nat → Vec 2 := fun k => u (cs.getD k 0)   -- = `G.uLoc u v`, with `cellsOf` evaluated once
  let y := C11.mulVec (Ls.getD v []) (R.rhs2 ul)
  ⟨R, ul, unflat y⟩

def firstCell (f : Nat) : Nat :=
  match G.fcells f with
  | (c, _) :: _ => c
  | [] => 0

/-- traction of the sub-face of `f` at `v` (discrete Hooke's law of the first side) -/
def subTr (s : NodeSol) (v f : Nat) : Vec 2 :=
  subTraction s.R s.Gs (G.loc v (G.firstCell f)) (G.subNormal f) (G.elimAt v && G.isNeu f)

/-- reconstructed displacement on the sub-face of `f` at `v` (mean of the two sides inside) -/
def subU (s : NodeSol) (v f : Nat) : Vec 2 :=
  match G.fcells f with
  | [(c, _)] => subDisp s.R s.u s.Gs (G.loc v c) (G.fcAt f)
  | [(c1, _), (c2, _)] => fun a =>
      (subDisp s.R s.u s.Gs (G.loc v c1) (G.contPt v f) a
        + subDisp s.R s.u s.Gs (G.loc v c2) (G.contPt v f) a) / 2
  | _ => fun _ => 0

def sumList : List Rat → Rat
  | [] => 0
  | x :: xs => x + sumList xs

/-- traction on face `f`: sum of its sub-face tractions (`hf2f`) -/
def faceTraction (sol : Nat → NodeSol) (f : Nat) : Vec 2 :=
  fun a => sumList ((G.fnodes f).map (fun v => G.subTr (sol v) v f a))

/-- reconstructed displacement on face `f`: mean of its sub-face values -/
def faceDisp (sol : Nat → NodeSol) (f : Nat) : Vec 2 :=
  fun a => sumList ((G.fnodes f).map (fun v => G.subU (sol v) v f a)) / G.nN f

/-- look a node solution up in a table computed once (execution detail: a definition returning a
    function would be re-evaluated on every call) -/
def solOf (tab : List NodeSol) (dflt : Nat → NodeSol) : Nat → NodeSol :=
  fun v => match tab[v]? with
    | some s => s
    | none => dflt v

/-- `stress·u + bound_stress·bc` and `bound_displacement_cell·u + bound_displacement_face·bc`,
    per face as `[t_x, t_y]`, `[u_x, u_y]` -/
def apply (Ls : List C11.Mat) (u bc : Nat → Vec 2) : List (List Rat) × List (List Rat) :=
  let tab := (List.range G.numNodes).map (G.nodeSol Ls u bc)
  let sol := solOf tab (G.nodeSol Ls u bc)
  ((List.range G.numFaces).map (fun f => vecToList (G.faceTraction sol f)),
   (List.range G.numFaces).map (fun f => vecToList (G.faceDisp sol f)))

def unitData (k : Nat) (i : Fin 2) : Nat → Vec 2 := fun j a => if j = k ∧ a = i then 1 else 0

/-- the four matrices column by column (cell columns `2c+i`: `stress`, `bound_displacement_cell`;
    face columns `2f+i`: `bound_stress`, `bound_displacement_face`) -/
def matrices (Ls : List C11.Mat) :
    List (List (List Rat) × List (List Rat)) × List (List (List Rat) × List (List Rat)) :=
  ((List.range G.numCells).flatMap (fun c => [G.apply Ls (unitData c 0) zeroData, G.apply Ls (unitData c 1) zeroData]),
   (List.range G.numFaces).flatMap (fun f => [G.apply Ls zeroData (unitData f 0), G.apply Ls zeroData (unitData f 1)]))

/-- data of the affine field `A x + b`: cell values, Dirichlet values at the face centres, Neumann
    values = traction w.r.t. the outward normal, `sgn · σ(A) n_f` -/
def affineBc (A : Mat 2) (b : Vec 2) (f : Nat) : Vec 2 :=
  match G.fcells f with
  | [(_, s)] => if G.dirAt f then affine A b (G.fcAt f) else fun a => s * mulVec (hooke G.lam G.mu A) (G.fnAt f) a
  | _ => fun _ => 0

def affineU (A : Mat 2) (b : Vec 2) : Nat → Vec 2 := fun c => affine A b (G.ccAt c)

/-- well-formedness of the topology arrays (decidable) -/
def fcOK (nc : Nat) : List (Nat × Rat) → Prop
  | [(c, s)] => c < nc ∧ s * s = 1
  | [(c1, _), (c2, _)] => c1 < nc ∧ c2 < nc ∧ c1 ≠ c2
  | _ => False

instance (nc : Nat) (l : List (Nat × Rat)) : Decidable (fcOK nc l) := by
  unfold fcOK; split <;> infer_instance

def WF : Prop :=
  G.faceCells.length = G.numFaces ∧
  (∀ l ∈ G.faceNodes, l ≠ [] ∧ ∀ v ∈ l, v < G.numNodes) ∧
  (∀ l ∈ G.faceCells, fcOK G.numCells l) ∧
  (∀ v < G.numNodes, sumTo (G.region zeroData v).vol (G.region zeroData v).m ≠ 0)

instance : Decidable G.WF := by unfold WF; infer_instance

/-- the Neumann faces are admissible for the claim on face `f`: no node of `f` has the averaged
    part eliminated (in genuine 2-D grids elimination happens only at a corner whose two faces
    are both Neumann, so every non-Neumann face qualifies) -/
def noElimFace (f : Nat) : Bool := (G.fnodes f).all (fun v => !G.elimAt v)

def admissible : Bool := (List.range G.numFaces).all (fun f => G.isNeu f || G.noElimFace f)

/-- 2-D manifold condition on the topology arrays (decidable input condition, evaluated by the
    driver): a node has at most one more face than cells (interior node: equal; boundary node: one
    more).  It makes EVERY Dirichlet/Neumann assignment admissible (`admissible_of_manifold`). -/
def manifold : Bool :=
  (List.range G.numNodes).all (fun v => decide ((G.facesOf v).length ≤ (G.cellsOf v).length + 1))

/-- momentum balance of cell `c` for face tractions `T`: `Σ_f sgn(f,c) T_f` (what
    `assemble_matrix_rhs` forms with the divergence `div = cell_facesᵀ`) -/
def cellBalance (T : Nat → Vec 2) (c : Nat) : Vec 2 := fun a =>
  sumList ((List.range G.numFaces).map (fun f =>
    sumList (((G.fcells f).filter (fun p => p.1 == c)).map (fun p => p.2 * T f a))))

/-- the cell is closed: `Σ_f sgn(f,c) n_f = 0` -/
def cellClosed (c : Nat) : Prop := ∀ a, G.cellBalance G.fnAt c a = 0

end GridS

end PorepyVerif.C13
