/-
C13 — executable model of ONE interaction region (the local system around one grid node) of
`porepy.numerics.fv.mpsa.Mpsa._stress_discretization` (core Lean only, any dimension `d`).

What the code does around a node `v` (facts read off `_create_inverse_gradient_matrix`,
`_tensor_vector_prod`, `_split_stiffness_matrix`, `_eliminate_ncasym`, `_unique_hooks_law`,
`_get_displacement_submatrices`, `_create_rhs_cell_center`, `_create_bound_rhs`,
`_fvutils.compute_dist_face_cell`):

* unknowns: one displacement gradient `G k` (`d×d`, `G k i l = ∂u_i/∂x_l`) per sub-cell `k`
  (pair cell/node); the cell-centre displacements `u k` go to the right-hand side;
* the stiffness tensor is split, `C = csym + casym`; for an isotropic medium
  `csym G = λ tr(G) I + μ G + μ diag(G)` and `casym G = μ (Gᵀ − diag G)`, so that
  `csym G + casym G = μ (G + Gᵀ) + λ tr(G) I` (Hooke's law);
* weak symmetry: the `casym` part of the stress is replaced by its volume weighted average over
  all sub-cells around the node (`average * casym_mat`, weights `cell_vol/node_vol`);
  the traction of sub-cell `k` on a sub-face with normal `n = n_f / #nodes(f)` is
  `(csym (G k) + avg) n`;
* rows of the local system:
  - internal sub-face: traction continuity.  The code pairs only the `csym` part
    (`ncsym = pair_over_subfaces_nd(ncsym_all)`): the averaged part is the same on both sides;
  - internal sub-face: displacement continuity at `x_s = x_f + η (x_v − x_f)`;
  - Dirichlet sub-face: `u_k + G_k (x_s − x_k) = u_D` (`η = 0` on the boundary);
  - Neumann sub-face: `(csym (G k) + avg) n = t`; at nodes that have more Neumann sub-faces than
    sub-cells `_eliminate_ncasym` drops `avg` from the row and from the discrete Hooke's law
    (flag `elim`);
* output: the discrete Hooke's law of the first side of every sub-face applied to the solution
  (`hook @ igrad @ rhs`), summed over the sub-faces of a face (`hf2f`).

Numbers are rationals; every binary64 value is one.  Sub-cells are indexed `0 … m-1`.
-/
namespace PorepyVerif.C13

abbrev Vec (d : Nat) := Fin d → Rat
abbrev Mat (d : Nat) := Fin d → Fin d → Rat

/-- `Σ_{i<n} f i` by structural recursion (reduces on concrete data) -/
def sumFin : (n : Nat) → (Fin n → Rat) → Rat
  | 0, _ => 0
  | n + 1, f => f 0 + sumFin n (fun i => f i.succ)

/-- `∀ i<n, p i` as a Bool -/
def allFin : (n : Nat) → (Fin n → Bool) → Bool
  | 0, _ => true
  | n + 1, p => p 0 && allFin n (fun i => p i.succ)

/-- `Σ_{k<m} f k` -/
def sumTo (f : Nat → Rat) : Nat → Rat
  | 0 => 0
  | m + 1 => sumTo f m + f m

variable {d : Nat}

def mulVec (M : Mat d) (v : Vec d) : Vec d := fun i => sumFin d (fun j => M i j * v j)
def tr (M : Mat d) : Rat := sumFin d (fun i => M i i)
def vsub (x y : Vec d) : Vec d := fun i => x i - y i

/-- the part of the isotropic stiffness tensor kept in `csym` by `_split_stiffness_matrix`
    (entries `C_ijij` and `C_iijj`), applied to a gradient -/
def csym (lam mu : Rat) (G : Mat d) : Mat d :=
  fun i j => if i = j then lam * tr G + 2 * mu * G i i else mu * G i j

/-- the rest (`C_ijji`, `i ≠ j`), applied to a gradient -/
def casym (mu : Rat) (G : Mat d) : Mat d :=
  fun i j => if i = j then 0 else mu * G j i

/-- Hooke's law `σ(G) = μ (G + Gᵀ) + λ tr(G) I` -/
def hooke (lam mu : Rat) (G : Mat d) : Mat d :=
  fun i j => mu * (G i j + G j i) + (if i = j then lam * tr G else 0)

/-- the affine displacement field `u(x) = A x + b` -/
def affine (A : Mat d) (b : Vec d) (x : Vec d) : Vec d := fun i => mulVec A x i + b i

/-- one row (a `d`-vector equation) of the local system; `i`, `j` index sub-cells -/
inductive Row (d : Nat) where
  /-- internal sub-face, normal `n` (pointing from `i` to `j`): traction continuity -/
  | tractionCont (i j : Nat) (n : Vec d)
  /-- internal sub-face: displacement continuity at the point `xs` -/
  | dispCont (i j : Nat) (xs : Vec d)
  /-- Dirichlet sub-face of sub-cell `i`: prescribed displacement `uD` at `xs` -/
  | dirichlet (i : Nat) (xs : Vec d) (uD : Vec d)
  /-- Neumann sub-face of sub-cell `i` with normal `n`: prescribed traction `t` (w.r.t. `n`);
      `elim`: the averaged part was removed by `_eliminate_ncasym` -/
  | neumann (i : Nat) (n : Vec d) (t : Vec d) (elim : Bool)

/-- an interaction region: material, sub-cells (volume shares and cell centres), rows -/
structure Region (d : Nat) where
  lam : Rat
  mu : Rat
  /-- number of sub-cells around the node -/
  m : Nat
  /-- `cell_volume / num_cell_nodes` of the cell of sub-cell `k` -/
  vol : Nat → Rat
  /-- cell centre of sub-cell `k` -/
  xc : Nat → Vec d
  rows : List (Row d)

/-- weak symmetry: volume weighted average of `casym (G k)` over the sub-cells of the region -/
def avgAsym (R : Region d) (G : Nat → Mat d) : Mat d :=
  fun a b => sumTo (fun k => R.vol k * casym R.mu (G k) a b) R.m / sumTo R.vol R.m

/-- stress tensor used for sub-cell `i` (discrete Hooke's law of the code) -/
def subStress (R : Region d) (G : Nat → Mat d) (i : Nat) (elim : Bool) : Mat d :=
  fun a b => csym R.lam R.mu (G i) a b + (if elim then 0 else avgAsym R G a b)

/-- traction of sub-cell `i` on a sub-face with normal `n` -/
def subTraction (R : Region d) (G : Nat → Mat d) (i : Nat) (n : Vec d) (elim : Bool) : Vec d :=
  mulVec (subStress R G i elim) n

/-- displacement of sub-cell `i` evaluated at the point `x` -/
def subDisp (R : Region d) (u : Nat → Vec d) (G : Nat → Mat d) (i : Nat) (x : Vec d) : Vec d :=
  fun a => u i a + mulVec (G i) (vsub x (R.xc i)) a

/-- left-hand side minus right-hand side of a row -/
def Row.residual (R : Region d) (u : Nat → Vec d) (G : Nat → Mat d) : Row d → Vec d
  | .tractionCont i j n => fun a =>
      mulVec (csym R.lam R.mu (G i)) n a - mulVec (csym R.lam R.mu (G j)) n a
  | .dispCont i j xs => fun a => subDisp R u G i xs a - subDisp R u G j xs a
  | .dirichlet i xs uD => fun a => subDisp R u G i xs a - uD a
  | .neumann i n t elim => fun a => subTraction R G i n elim a - t a

/-- `(u, G)` satisfies every row of the local system -/
def Solves (R : Region d) (u : Nat → Vec d) (G : Nat → Mat d) : Prop :=
  ∀ r ∈ R.rows, ∀ a : Fin d, r.residual R u G a = 0

/-- the same, executable -/
def checkSolves (R : Region d) (u : Nat → Vec d) (G : Nat → Mat d) : Bool :=
  R.rows.all (fun r => allFin d (fun a => r.residual R u G a == 0))

/-- the data of a row are those of the affine field `A x + b` (Dirichlet value at the continuity
    point, Neumann value `σ(A) n`), and the row is admissible: a Neumann row whose averaged part
    was eliminated is consistent only if that part vanishes -/
def Row.linData (lam mu : Rat) (A : Mat d) (b : Vec d) : Row d → Prop
  | .tractionCont _ _ _ => True
  | .dispCont _ _ _ => True
  | .dirichlet _ xs uD => ∀ a, uD a = affine A b xs a
  | .neumann _ n t elim =>
      (∀ a, t a = mulVec (hooke lam mu A) n a) ∧ (elim = true → ∀ a, mulVec (casym mu A) n a = 0)

def LinearData (R : Region d) (A : Mat d) (b : Vec d) : Prop :=
  ∀ r ∈ R.rows, r.linData R.lam R.mu A b

/-- the local system determines the sub-cell gradients (what the inversion of the local
    matrix in `_inverse_gradient` presupposes) -/
def Unisolvent (R : Region d) : Prop :=
  ∀ (u : Nat → Vec d) (G₁ G₂ : Nat → Mat d), Solves R u G₁ → Solves R u G₂ →
    ∀ k, k < R.m → G₁ k = G₂ k

/-- cell-centre values of the affine field -/
def affineCells (R : Region d) (A : Mat d) (b : Vec d) : Nat → Vec d := fun k => affine A b (R.xc k)

/-! ### driver helpers -/

def vecOfList (l : List Rat) : Vec d := fun i => l.getD i.val 0
def matOfLists (l : List (List Rat)) : Mat d := fun i j => (l.getD i.val []).getD j.val 0
def vecToList (v : Vec d) : List Rat := (List.finRange d).map v

/-- rewrite the data of a row to those of the affine field (used by the driver to build the
    linear-data variant of a region from the same geometry) -/
def Row.withLinData (lam mu : Rat) (A : Mat d) (b : Vec d) : Row d → Row d
  | .dirichlet i xs _ => .dirichlet i xs (affine A b xs)
  | .neumann i n _ elim => .neumann i n (mulVec (hooke lam mu A) n) elim
  | r => r

def Row.isElim : Row d → Bool
  | .neumann _ _ _ e => e
  | _ => false

end PorepyVerif.C13
