/-
C13 — helper lemmas: finite sums, matrix-vector algebra, the weak-symmetry average.
-/
import PorepyVerif.C13.Model
import PorepyVerif.C11.Lemmas
import Mathlib.Algebra.Order.Field.Rat
import Mathlib.Tactic.Ring
import Mathlib.Tactic.Linarith
import Mathlib.Tactic.FieldSimp
import Mathlib.Tactic.LinearCombination
import Mathlib.Data.Finset.Card
import Mathlib.Data.List.Nodup

namespace PorepyVerif.C13

variable {d : Nat}

/-! ### `sumFin` -/

theorem sumFin_congr {n : Nat} {f g : Fin n → Rat} (h : ∀ i, f i = g i) :
    sumFin n f = sumFin n g := by
  have : f = g := funext h
  rw [this]

theorem sumFin_zero : ∀ (n : Nat), sumFin n (fun _ => 0) = 0 := by
  intro n
  induction n with
  | zero => rfl
  | succ n ih => simp only [sumFin]; rw [ih]; ring

theorem sumFin_add : ∀ (n : Nat) (f g : Fin n → Rat),
    sumFin n (fun i => f i + g i) = sumFin n f + sumFin n g := by
  intro n
  induction n with
  | zero => intro f g; simp [sumFin]
  | succ n ih => intro f g; simp only [sumFin]; rw [ih]; ring

theorem sumFin_sub : ∀ (n : Nat) (f g : Fin n → Rat),
    sumFin n (fun i => f i - g i) = sumFin n f - sumFin n g := by
  intro n
  induction n with
  | zero => intro f g; simp [sumFin]
  | succ n ih => intro f g; simp only [sumFin]; rw [ih]; ring

theorem sumFin_mul_left : ∀ (n : Nat) (c : Rat) (f : Fin n → Rat),
    sumFin n (fun i => c * f i) = c * sumFin n f := by
  intro n
  induction n with
  | zero => intro c f; simp [sumFin]
  | succ n ih => intro c f; simp only [sumFin]; rw [ih]; ring

theorem sumFin_eq_zero {n : Nat} {f : Fin n → Rat} (h : ∀ i, f i = 0) : sumFin n f = 0 := by
  rw [sumFin_congr h, sumFin_zero]

/-! ### `allFin` -/

theorem allFin_iff : ∀ (n : Nat) (p : Fin n → Bool), allFin n p = true ↔ ∀ i, p i = true := by
  intro n
  induction n with
  | zero => intro p; simp [allFin]
  | succ n ih =>
    intro p
    simp only [allFin, Bool.and_eq_true, ih]
    constructor
    · rintro ⟨h0, hs⟩ i
      refine Fin.cases h0 hs i
    · intro h
      exact ⟨h 0, fun i => h i.succ⟩

/-! ### `sumTo` -/

theorem sumTo_mul_const (v f : Nat → Rat) (c : Rat) :
    ∀ m, (∀ k, k < m → f k = v k * c) → sumTo f m = sumTo v m * c := by
  intro m
  induction m with
  | zero => intro _; simp [sumTo]
  | succ m ih =>
    intro h
    simp only [sumTo]
    rw [ih (fun k hk => h k (Nat.lt_succ_of_lt hk)), h m (Nat.lt_succ_self m)]
    ring

/-! ### matrix-vector algebra (pointwise) -/

theorem mulVec_congr {M N : Mat d} (h : ∀ i j, M i j = N i j) (v : Vec d) (a : Fin d) :
    mulVec M v a = mulVec N v a := by
  unfold mulVec
  exact sumFin_congr (fun j => by rw [h])

theorem mulVec_zero_mat {M : Mat d} (h : ∀ i j, M i j = 0) (v : Vec d) (a : Fin d) :
    mulVec M v a = 0 := by
  unfold mulVec
  exact sumFin_eq_zero (fun j => by rw [h]; ring)

theorem mulVec_add_mat (M N : Mat d) (v : Vec d) (a : Fin d) :
    mulVec (fun i j => M i j + N i j) v a = mulVec M v a + mulVec N v a := by
  unfold mulVec
  rw [← sumFin_add]
  exact sumFin_congr (fun j => by ring)

theorem mulVec_vsub (M : Mat d) (x y : Vec d) (a : Fin d) :
    mulVec M (vsub x y) a = mulVec M x a - mulVec M y a := by
  unfold mulVec vsub
  rw [← sumFin_sub]
  exact sumFin_congr (fun j => by ring)

theorem mulVec_scale (M : Mat d) (c : Rat) (v : Vec d) (a : Fin d) :
    mulVec M (fun j => c * v j) a = c * mulVec M v a := by
  unfold mulVec
  rw [← sumFin_mul_left]
  exact sumFin_congr (fun j => by ring)

/-! ### Hooke's law and its split -/

theorem csym_add_casym (lam mu : Rat) (G : Mat d) (i j : Fin d) :
    csym lam mu G i j + casym mu G i j = hooke lam mu G i j := by
  unfold csym casym hooke
  by_cases h : i = j
  · subst h; simp only [if_true]; ring
  · simp only [if_neg h]; ring

theorem tr_skew {A : Mat d} (h : ∀ i j, A i j = -A j i) : tr A = 0 := by
  unfold tr
  apply sumFin_eq_zero
  intro i
  have := h i i
  linarith

theorem hooke_skew (lam mu : Rat) {A : Mat d} (h : ∀ i j, A i j = -A j i) (i j : Fin d) :
    hooke lam mu A i j = 0 := by
  unfold hooke
  rw [tr_skew h, h i j]
  by_cases hij : i = j
  · simp only [if_pos hij]; ring
  · simp only [if_neg hij]; ring

theorem hooke_zero (lam mu : Rat) (i j : Fin d) :
    hooke lam mu (fun _ _ => (0 : Rat)) i j = 0 :=
  hooke_skew lam mu (A := fun _ _ => (0 : Rat)) (fun _ _ => by ring) i j

/-! ### the weak-symmetry average -/

theorem avgAsym_of_equal (R : Region d) (G : Nat → Mat d) (A : Mat d)
    (hvol : sumTo R.vol R.m ≠ 0) (hG : ∀ k, k < R.m → G k = A) (a b : Fin d) :
    avgAsym R G a b = casym R.mu A a b := by
  unfold avgAsym
  rw [sumTo_mul_const R.vol _ (casym R.mu A a b) R.m (fun k hk => by rw [hG k hk])]
  field_simp

theorem subStress_of_equal (R : Region d) (G : Nat → Mat d) (A : Mat d)
    (hvol : sumTo R.vol R.m ≠ 0) (hG : ∀ k, k < R.m → G k = A) (i : Nat) (hi : i < R.m)
    (a b : Fin d) : subStress R G i false a b = hooke R.lam R.mu A a b := by
  unfold subStress
  rw [avgAsym_of_equal R G A hvol hG, hG i hi]
  simp only [Bool.false_eq_true, if_false]
  exact csym_add_casym _ _ _ _ _

theorem subStress_const (R : Region d) (A : Mat d) (hvol : sumTo R.vol R.m ≠ 0) (i : Nat)
    (a b : Fin d) : subStress R (fun _ => A) i false a b = hooke R.lam R.mu A a b := by
  unfold subStress
  rw [avgAsym_of_equal R (fun _ => A) A hvol (fun _ _ => rfl)]
  simp only [Bool.false_eq_true, if_false]
  exact csym_add_casym _ _ _ _ _

/-- displacement of a sub-cell carrying the exact gradient and the exact centre value -/
theorem subDisp_affine (R : Region d) (A : Mat d) (b : Vec d) (G : Nat → Mat d) (i : Nat)
    (hG : G i = A) (x : Vec d) (a : Fin d) :
    subDisp R (affineCells R A b) G i x a = affine A b x a := by
  unfold subDisp affineCells affine
  rw [hG, mulVec_vsub]
  ring

/-! ## `mpsa2d`: local matrix, certificate -/

theorem fin2_cases (i : Fin 2) : i = 0 ∨ i = 1 := by
  rcases i with ⟨_ | _ | n, h⟩
  · left; rfl
  · right; rfl
  · omega

theorem sumFin_two (f : Fin 2 → Rat) : sumFin 2 f = f 0 + (f 1 + 0) := rfl

theorem Blk.dot_add (x y z : Blk) : Blk.dot (Blk.add x y) z = Blk.dot x z + Blk.dot y z := by
  unfold Blk.dot Blk.add; ring

theorem Blk.dot_smul (s : Rat) (x z : Blk) : Blk.dot (Blk.smul s x) z = s * Blk.dot x z := by
  unfold Blk.dot Blk.smul; ring

theorem csymB_dot (lam mu : Rat) (n : Vec 2) (a : Fin 2) (G : Mat 2) :
    Blk.dot (csymB lam mu n a) (blkOf G) = mulVec (csym lam mu G) n a := by
  rcases fin2_cases a with rfl | rfl <;>
    simp [csymB, Blk.dot, blkOf, mulVec, csym, tr, sumFin_two] <;> ring

theorem casymB_dot (mu : Rat) (n : Vec 2) (a : Fin 2) (G : Mat 2) :
    Blk.dot (casymB mu n a) (blkOf G) = mulVec (casym mu G) n a := by
  rcases fin2_cases a with rfl | rfl <;>
    simp [casymB, Blk.dot, blkOf, mulVec, casym, sumFin_two] <;> ring

theorem distB_dot (x : Vec 2) (a : Fin 2) (G : Mat 2) :
    Blk.dot (distB x a) (blkOf G) = mulVec G x a := by
  rcases fin2_cases a with rfl | rfl <;>
    simp [distB, Blk.dot, blkOf, mulVec, sumFin_two] <;> ring

/-! ### `sumTo` -/

theorem sumTo_congr {f g : Nat → Rat} (m : Nat) (h : ∀ k, k < m → f k = g k) :
    sumTo f m = sumTo g m := by
  induction m with
  | zero => rfl
  | succ m ih =>
    simp only [sumTo]
    rw [ih (fun k hk => h k (Nat.lt_succ_of_lt hk)), h m (Nat.lt_succ_self m)]

theorem sumTo_zero (m : Nat) : sumTo (fun _ => 0) m = 0 := by
  induction m with
  | zero => rfl
  | succ m ih => simp only [sumTo]; rw [ih]; ring

theorem sumTo_lin2 (c0 c1 : Rat) (f0 f1 : Nat → Rat) (m : Nat) :
    sumTo (fun k => c0 * f0 k + c1 * f1 k) m = c0 * sumTo f0 m + c1 * sumTo f1 m := by
  induction m with
  | zero => simp [sumTo]
  | succ m ih => simp only [sumTo]; rw [ih]; ring

theorem sumTo_add (f g : Nat → Rat) (m : Nat) :
    sumTo (fun k => f k + g k) m = sumTo f m + sumTo g m := by
  have := sumTo_lin2 1 1 f g m
  simpa using this

theorem sumTo_ind (f : Nat → Rat) (i m : Nat) (hi : i < m) :
    sumTo (fun k => ind k i * f k) m = f i := by
  induction m with
  | zero => omega
  | succ m ih =>
    simp only [sumTo]
    by_cases h : i = m
    · subst h
      rw [sumTo_congr (g := fun _ => 0) i (fun k hk => by simp [ind, Nat.ne_of_lt hk]), sumTo_zero]
      simp [ind]
    · rw [ih (by omega)]
      have : m ≠ i := fun e => h e.symm
      simp [ind, this]

/-! ### flattening -/

theorem length_flatB (c : Nat → Blk) (m : Nat) : (flatB c m).length = 4 * m := by
  induction m with
  | zero => rfl
  | succ m ih =>
    unfold flatB at *
    rw [List.range_succ, List.flatMap_append, List.length_append, ih]
    simp [Blk.toList]; omega

theorem flatB_succ (c : Nat → Blk) (m : Nat) : flatB c (m + 1) = flatB c m ++ (c m).toList := by
  unfold flatB
  rw [List.range_succ, List.flatMap_append]
  simp

theorem dot_flatB (c g : Nat → Blk) (m : Nat) :
    C11.dot (flatB c m) (flatB g m) = sumTo (fun k => Blk.dot (c k) (g k)) m := by
  induction m with
  | zero => rfl
  | succ m ih =>
    rw [flatB_succ, flatB_succ, C11.dot_append _ _ _ _ (by rw [length_flatB, length_flatB]), ih]
    simp [sumTo, Blk.toList, Blk.dot, C11.dot]
    ring

theorem getD_append_block (l r : List Rat) (n t : Nat) (hl : l.length = n) :
    (l ++ r).getD (n + t) 0 = r.getD t 0 := by
  subst hl
  simp [List.getD_eq_getElem?_getD, List.getElem?_append_right]

theorem getD_append_left' (l r : List Rat) (i : Nat) (h : i < l.length) :
    (l ++ r).getD i 0 = l.getD i 0 := by
  simp [List.getD_eq_getElem?_getD, List.getElem?_append_left h]

theorem getD_flatB (g : Nat → Blk) (m k : Nat) (hk : k < m) :
    (flatB g m).getD (4 * k) 0 = (g k).a ∧ (flatB g m).getD (4 * k + 1) 0 = (g k).b ∧
    (flatB g m).getD (4 * k + 2) 0 = (g k).c ∧ (flatB g m).getD (4 * k + 3) 0 = (g k).e := by
  induction m with
  | zero => omega
  | succ m ih =>
    rw [flatB_succ]
    by_cases h : k = m
    · subst h
      have hl := length_flatB g k
      have e0 := getD_append_block _ (g k).toList (4 * k) 0 hl
      have e1 := getD_append_block _ (g k).toList (4 * k) 1 hl
      have e2 := getD_append_block _ (g k).toList (4 * k) 2 hl
      have e3 := getD_append_block _ (g k).toList (4 * k) 3 hl
      refine ⟨?_, ?_, ?_, ?_⟩
      · simpa [Blk.toList] using e0
      · simpa [Blk.toList] using e1
      · simpa [Blk.toList] using e2
      · simpa [Blk.toList] using e3
    · have hl := length_flatB g m
      obtain ⟨h0, h1, h2, h3⟩ := ih (by omega)
      refine ⟨?_, ?_, ?_, ?_⟩
      · rw [getD_append_left' _ _ _ (by omega)]; exact h0
      · rw [getD_append_left' _ _ _ (by omega)]; exact h1
      · rw [getD_append_left' _ _ _ (by omega)]; exact h2
      · rw [getD_append_left' _ _ _ (by omega)]; exact h3

theorem unflat_flatB (G : Nat → Mat 2) (m k : Nat) (hk : k < m) :
    unflat (flatB (fun k => blkOf (G k)) m) k = G k := by
  obtain ⟨h0, h1, h2, h3⟩ := getD_flatB (fun k => blkOf (G k)) m k hk
  funext p q
  unfold unflat
  rcases fin2_cases p with rfl | rfl <;> rcases fin2_cases q with rfl | rfl
  · simpa [blkOf] using h0
  · simpa [blkOf] using h1
  · simpa [blkOf] using h2
  · simpa [blkOf] using h3

/-! ### a row of the matrix is the linear part of the residual -/

theorem avg_lin (R : Region 2) (G : Nat → Mat 2) (n : Vec 2) (a : Fin 2) :
    sumTo (fun k => R.vol k / sumTo R.vol R.m * mulVec (casym R.mu (G k)) n a) R.m
      = mulVec (avgAsym R G) n a := by
  have h := sumTo_lin2 (n 0 / sumTo R.vol R.m) (n 1 / sumTo R.vol R.m)
    (fun k => R.vol k * casym R.mu (G k) a 0) (fun k => R.vol k * casym R.mu (G k) a 1) R.m
  simp only [mulVec, sumFin_two, avgAsym]
  rw [sumTo_congr (g := fun k => n 0 / sumTo R.vol R.m * (R.vol k * casym R.mu (G k) a 0)
      + n 1 / sumTo R.vol R.m * (R.vol k * casym R.mu (G k) a 1)) R.m (fun k _ => by ring), h]
  ring

theorem row_lin (R : Region 2) (u : Nat → Vec 2) (G : Nat → Mat 2) (r : Row 2)
    (hidx : r.idxOK R.m) (a : Fin 2) :
    sumTo (fun k => Blk.dot (r.coefs R a k) (blkOf (G k))) R.m - r.rhsAt u a
      = r.residual R u G a := by
  cases r with
  | tractionCont i j n =>
    obtain ⟨hi, hj⟩ := hidx
    simp only [Row.coefs, Row.rhsAt, Row.residual]
    rw [sumTo_congr (g := fun k => ind k i * mulVec (csym R.lam R.mu (G k)) n a
        + ind k j * (-(mulVec (csym R.lam R.mu (G k)) n a))) R.m
      (fun k _ => by rw [Blk.dot_add, Blk.dot_smul, Blk.dot_smul, csymB_dot]; ring),
      sumTo_add, sumTo_ind _ i _ hi, sumTo_ind _ j _ hj]
    ring
  | dispCont i j xs =>
    obtain ⟨hi, hj⟩ := hidx
    simp only [Row.coefs, Row.rhsAt, Row.residual, subDisp]
    rw [sumTo_congr (g := fun k => ind k i * mulVec (G k) (vsub xs (R.xc i)) a
        + ind k j * (-(mulVec (G k) (vsub xs (R.xc j)) a))) R.m
      (fun k _ => by rw [Blk.dot_add, Blk.dot_smul, Blk.dot_smul, distB_dot, distB_dot]; ring),
      sumTo_add, sumTo_ind _ i _ hi, sumTo_ind _ j _ hj]
    ring
  | dirichlet i xs uD =>
    simp only [Row.coefs, Row.rhsAt, Row.residual, subDisp]
    rw [sumTo_congr (g := fun k => ind k i * mulVec (G k) (vsub xs (R.xc i)) a) R.m
      (fun k _ => by rw [Blk.dot_smul, distB_dot]), sumTo_ind _ i _ hidx]
    ring
  | neumann i n t elim =>
    simp only [Row.coefs, Row.rhsAt, Row.residual, subTraction]
    rw [sumTo_congr (g := fun k => ind k i * mulVec (csym R.lam R.mu (G k)) n a
        + (if elim then 0 else R.vol k / sumTo R.vol R.m) * mulVec (casym R.mu (G k)) n a) R.m
      (fun k _ => by rw [Blk.dot_add, Blk.dot_smul, Blk.dot_smul, csymB_dot, casymB_dot]),
      sumTo_add, sumTo_ind _ i _ hidx]
    have hsplit : mulVec (subStress R G i elim) n a
        = mulVec (csym R.lam R.mu (G i)) n a
          + mulVec (fun x y => if elim then 0 else avgAsym R G x y) n a := by
      rw [← mulVec_add_mat]; rfl
    rw [hsplit]
    cases elim with
    | true =>
      simp only [if_true]
      rw [sumTo_congr (g := fun _ => 0) R.m (fun k _ => by ring), sumTo_zero,
        mulVec_zero_mat (fun _ _ => rfl)]
    | false =>
      simp only [Bool.false_eq_true, if_false]
      rw [avg_lin]

/-! ### matrix form of `Solves`, certificate -/

def RowsOK (R : Region 2) : Prop := ∀ r ∈ R.rows, r.idxOK R.m

theorem mulVec_matrix2_aux (R : Region 2) (u : Nat → Vec 2) (G : Nat → Mat 2) (rows : List (Row 2))
    (hidx : ∀ r ∈ rows, r.idxOK R.m) (hsol : ∀ r ∈ rows, ∀ a, r.residual R u G a = 0) :
    C11.mulVec (rows.flatMap (fun r => [flatB (r.coefs R 0) R.m, flatB (r.coefs R 1) R.m]))
        (flatB (fun k => blkOf (G k)) R.m)
      = rows.flatMap (fun r => [r.rhsAt u 0, r.rhsAt u 1]) := by
  induction rows with
  | nil => rfl
  | cons r rows ih =>
    have h0 := row_lin R u G r (hidx r (List.mem_cons_self ..)) 0
    have h1 := row_lin R u G r (hidx r (List.mem_cons_self ..)) 1
    rw [hsol r (List.mem_cons_self ..) 0] at h0
    rw [hsol r (List.mem_cons_self ..) 1] at h1
    have ih' := ih (fun r hr => hidx r (List.mem_cons_of_mem _ hr))
      (fun r hr => hsol r (List.mem_cons_of_mem _ hr))
    simp only [List.flatMap_cons, C11.mulVec, List.map_cons, List.cons_append,
      List.nil_append] at ih' ⊢
    rw [dot_flatB, dot_flatB, ih']
    congr 1
    · linarith
    · congr 1; linarith

theorem mulVec_matrix2 (R : Region 2) (u : Nat → Vec 2) (G : Nat → Mat 2) (hidx : RowsOK R)
    (hsol : Solves R u G) :
    C11.mulVec R.matrix2 (flatB (fun k => blkOf (G k)) R.m) = R.rhs2 u :=
  mulVec_matrix2_aux R u G R.rows hidx hsol

/-- A passing certificate and any solution: the solver's output `L · rhs` IS that solution. -/
theorem cert_solution2 (R : Region 2) (L : C11.Mat) (u : Nat → Vec 2) (G : Nat → Mat 2)
    (hidx : RowsOK R) (hcert : certOK2 R L = true) (hsol : Solves R u G) (k : Nat) (hk : k < R.m) :
    unflat (C11.mulVec L (R.rhs2 u)) k = G k := by
  rw [← mulVec_matrix2 R u G hidx hsol,
    C11.leftInvOK_apply (4 * R.m) L R.matrix2 hcert _ (length_flatB _ _)]
  exact unflat_flatB G R.m k hk

/-- A passing certificate discharges the hypothesis `Unisolvent`. -/
theorem cert_unisolvent (R : Region 2) (L : C11.Mat) (hidx : RowsOK R)
    (hcert : certOK2 R L = true) : Unisolvent R := by
  intro u G₁ G₂ h₁ h₂ k hk
  rw [← cert_solution2 R L u G₁ hidx hcert h₁ k hk, ← cert_solution2 R L u G₂ hidx hcert h₂ k hk]

/-! ## `mpsa2d`: the grid model -/

theorem sumList_const {α : Type} (l : List α) (g : α → Rat) (c : Rat) (h : ∀ x ∈ l, g x = c) :
    GridS.sumList (l.map g) = (l.length : Rat) * c := by
  induction l with
  | nil => simp [GridS.sumList]
  | cons x l ih =>
    simp only [List.map_cons, GridS.sumList, List.length_cons]
    rw [h x (List.mem_cons_self ..), ih (fun y hy => h y (List.mem_cons_of_mem _ hy))]
    push_cast; ring

theorem all_of_filter_length {α : Type} (p : α → Bool) :
    ∀ (l : List α), l.length ≤ (l.filter p).length → ∀ x ∈ l, p x = true := by
  intro l
  induction l with
  | nil => intro _ x hx; cases hx
  | cons y l ih =>
    intro h x hx
    by_cases hy : p y = true
    · have h' : l.length ≤ (l.filter p).length := by
        simp only [List.filter_cons, hy, if_true, List.length_cons] at h; omega
      rcases List.mem_cons.mp hx with rfl | hx
      · exact hy
      · exact ih h' x hx
    · have := List.length_filter_le p l
      simp only [List.filter_cons, hy, List.length_cons] at h
      simp at h; omega

theorem sumList_append (l r : List Rat) : GridS.sumList (l ++ r) = GridS.sumList l + GridS.sumList r := by
  induction l with
  | nil => simp [GridS.sumList]
  | cons x l ih => simp only [List.cons_append, GridS.sumList, ih]; ring

theorem sumList_map_lin {α : Type} (l : List α) (g0 g1 : α → Rat) (c0 c1 : Rat) :
    GridS.sumList (l.map (fun x => c0 * g0 x + c1 * g1 x))
      = c0 * GridS.sumList (l.map g0) + c1 * GridS.sumList (l.map g1) := by
  induction l with
  | nil => simp [GridS.sumList]
  | cons x l ih => simp only [List.map_cons, GridS.sumList, ih]; ring

theorem sumList_map_congr {α : Type} (l : List α) (g h : α → Rat) (e : ∀ x ∈ l, g x = h x) :
    GridS.sumList (l.map g) = GridS.sumList (l.map h) := by
  induction l with
  | nil => rfl
  | cons x l ih =>
    simp only [List.map_cons, GridS.sumList]
    rw [e x (List.mem_cons_self ..), ih (fun y hy => e y (List.mem_cons_of_mem _ hy))]

namespace GridS
variable (G : GridS)

theorem mem_facesOf (v f : Nat) : f ∈ G.facesOf v ↔ f < G.numFaces ∧ v ∈ G.fnodes f := by
  simp [facesOf, List.mem_filter]

theorem mem_cellsOf (v c : Nat) :
    c ∈ G.cellsOf v ↔ c < G.numCells ∧ ∃ f ∈ G.facesOf v, ∃ s, (c, s) ∈ G.fcells f := by
  simp [cellsOf, List.mem_filter]

theorem loc_lt (v c : Nat) (h : c ∈ G.cellsOf v) : G.loc v c < (G.cellsOf v).length :=
  List.idxOf_lt_length_of_mem h

/-- shape of the cell list of a face in a well-formed grid -/
theorem fcells_cases (hwf : G.WF) (f : Nat) (hf : f < G.numFaces) :
    (∃ c s, G.fcells f = [(c, s)] ∧ c < G.numCells ∧ s * s = 1) ∨
    (∃ c1 s1 c2 s2, G.fcells f = [(c1, s1), (c2, s2)] ∧ c1 < G.numCells ∧ c2 < G.numCells) := by
  obtain ⟨hfc, _, hfcells, _⟩ := hwf
  have h := hfcells _ (C11.getD_mem' G.faceCells f [] (by rw [hfc]; exact hf))
  change fcOK G.numCells (G.fcells f) at h
  rcases hl : G.fcells f with _ | ⟨⟨c, s⟩, _ | ⟨⟨c2, s2⟩, _ | ⟨x, rest⟩⟩⟩
  · rw [hl] at h; simp [fcOK] at h
  · rw [hl] at h; left; exact ⟨c, s, rfl, by simpa [fcOK] using h⟩
  · rw [hl] at h; right
    have h' : c < G.numCells ∧ c2 < G.numCells ∧ c ≠ c2 := by simpa [fcOK] using h
    exact ⟨c, s, c2, s2, rfl, h'.1, h'.2.1⟩
  · rw [hl] at h; simp [fcOK] at h

theorem fnodes_ok (hwf : G.WF) (f : Nat) (hf : f < G.numFaces) :
    G.fnodes f ≠ [] ∧ ∀ v ∈ G.fnodes f, v < G.numNodes :=
  hwf.2.1 _ (C11.getD_mem' G.faceNodes f [] hf)

theorem cell_mem (v f c : Nat) (s : Rat) (hc : c < G.numCells) (hf : f ∈ G.facesOf v)
    (hm : (c, s) ∈ G.fcells f) : c ∈ G.cellsOf v :=
  (G.mem_cellsOf v c).mpr ⟨hc, f, hf, s, hm⟩

/-- the rows the model builds refer to sub-cells of the region -/
theorem region_rowsOK (hwf : G.WF) (bc : Nat → Vec 2) (v : Nat) : RowsOK (G.region bc v) := by
  intro r hr
  simp only [region, List.mem_flatMap] at hr
  obtain ⟨f, hf, hr⟩ := hr
  have hfl := ((G.mem_facesOf v f).mp hf).1
  show r.idxOK (G.cellsOf v).length
  rcases G.fcells_cases hwf f hfl with ⟨c, s, hl, hc, _⟩ | ⟨c1, s1, c2, s2, hl, hc1, hc2⟩
  · have hmem := G.cell_mem v f c s hc hf (by rw [hl]; simp)
    unfold mkRows at hr
    rw [hl] at hr
    by_cases hd : G.dirAt f = true
    · simp only [hd, if_true, List.mem_singleton] at hr
      subst hr; exact G.loc_lt v c hmem
    · simp only [hd, Bool.false_eq_true, if_false, List.mem_singleton] at hr
      subst hr; exact G.loc_lt v c hmem
  · have hm1 := G.cell_mem v f c1 s1 hc1 hf (by rw [hl]; simp)
    have hm2 := G.cell_mem v f c2 s2 hc2 hf (by rw [hl]; simp)
    unfold mkRows at hr
    rw [hl] at hr
    simp only [List.mem_cons, List.not_mem_nil, or_false] at hr
    rcases hr with rfl | rfl
    · exact ⟨G.loc_lt v c1 hm1, G.loc_lt v c2 hm2⟩
    · exact ⟨G.loc_lt v c1 hm1, G.loc_lt v c2 hm2⟩

/-- the local matrix does not depend on the data -/
theorem coefs_region (bc : Nat → Vec 2) (v : Nat) (a : Fin 2) (r : Row 2) :
    Row.coefs (G.region bc v) a r = Row.coefs (G.region zeroData v) a r := by
  cases r <;> rfl

theorem mkRows_matrix (bc : Nat → Vec 2) (v f : Nat) (R : Region 2) :
    (G.mkRows bc v f).flatMap (fun r => [flatB (r.coefs R 0) R.m, flatB (r.coefs R 1) R.m])
      = (G.mkRows zeroData v f).flatMap (fun r => [flatB (r.coefs R 0) R.m, flatB (r.coefs R 1) R.m]) := by
  unfold mkRows
  split
  · split <;> rfl
  · rfl
  · rfl

theorem matrix_region (bc : Nat → Vec 2) (v : Nat) :
    (G.region bc v).matrix2 = (G.region zeroData v).matrix2 := by
  unfold Region.matrix2
  have e : ∀ r : Row 2, [flatB (r.coefs (G.region bc v) 0) (G.region bc v).m,
      flatB (r.coefs (G.region bc v) 1) (G.region bc v).m]
      = [flatB (r.coefs (G.region zeroData v) 0) (G.region zeroData v).m,
         flatB (r.coefs (G.region zeroData v) 1) (G.region zeroData v).m] := by
    intro r
    rw [G.coefs_region bc v 0 r, G.coefs_region bc v 1 r]; rfl
  simp only [e]
  show ((G.facesOf v).flatMap (G.mkRows bc v)).flatMap _ = ((G.facesOf v).flatMap (G.mkRows zeroData v)).flatMap _
  rw [List.flatMap_assoc, List.flatMap_assoc]
  congr 1
  funext f
  exact G.mkRows_matrix bc v f (G.region zeroData v)

/-- every certificate of `certs` passes the check for the region WITH data -/
theorem certs_ok (Ls : List C11.Mat) (h : G.certs = some Ls) (bc : Nat → Vec 2) (v : Nat)
    (hv : v < G.numNodes) : certOK2 (G.region bc v) (Ls.getD v []) = true := by
  unfold certs at h
  have h1 := C11.Grid2.allSome_getD _ Ls h v (by simpa using hv) []
  rw [C11.getD_map_range G.certAt G.numNodes v none hv] at h1
  unfold certAt at h1
  have hm : certOK2 (G.region bc v) (Ls.getD v []) = certOK2 (G.region zeroData v) (Ls.getD v []) := by
    unfold certOK2; rw [G.matrix_region bc v]; rfl
  rw [hm]
  cases hL : C11.leftInverse (G.region zeroData v).matrix2 with
  | none => simp only [hL] at h1; simp at h1
  | some L =>
    simp only [hL] at h1
    by_cases hc : certOK2 (G.region zeroData v) L = true
    · simp only [hc, if_true, Option.some.injEq] at h1
      rw [← h1]; exact hc
    · simp [hc] at h1

/-- affine data of the grid are affine data of every region without eliminated rows -/
theorem region_linear (hwf : G.WF) (A : Mat 2) (b : Vec 2) (v : Nat) (hel : G.elimAt v = false) :
    LinearData (G.region (G.affineBc A b) v) A b := by
  intro r hr
  simp only [region, List.mem_flatMap] at hr
  obtain ⟨f, hf, hr⟩ := hr
  have hfl := ((G.mem_facesOf v f).mp hf).1
  have hnn : G.nN f ≠ 0 := by
    have := (G.fnodes_ok hwf f hfl).1
    unfold nN
    intro h0
    have : (G.fnodes f).length = 0 := by exact_mod_cast h0
    exact (G.fnodes_ok hwf f hfl).1 (List.length_eq_zero_iff.mp this)
  rcases G.fcells_cases hwf f hfl with ⟨c, s, hl, _, hs⟩ | ⟨c1, s1, c2, s2, hl, _, _⟩
  · unfold mkRows at hr
    rw [hl] at hr
    by_cases hd : G.dirAt f = true
    · simp only [hd, if_true, List.mem_singleton] at hr
      subst hr
      intro a
      simp [affineBc, hl, hd]
    · simp only [hd, Bool.false_eq_true, if_false, List.mem_singleton] at hr
      subst hr
      refine ⟨fun a => ?_, fun h => by rw [hel] at h; cases h⟩
      have hb : G.affineBc A b f = fun a => s * mulVec (hooke G.lam G.mu A) (G.fnAt f) a := by
        simp [affineBc, hl, hd]
      show s * G.affineBc A b f a / G.nN f = mulVec (hooke G.lam G.mu A) (G.subNormal f) a
      rw [hb]
      unfold subNormal
      rw [mulVec_scale]
      field_simp
      linear_combination (mulVec (hooke G.lam G.mu A) (G.fnAt f) a) * hs
  · unfold mkRows at hr
    rw [hl] at hr
    simp only [List.mem_cons, List.not_mem_nil, or_false] at hr
    rcases hr with rfl | rfl <;> trivial

theorem firstCell_mem (hwf : G.WF) (v f : Nat) (hf : f ∈ G.facesOf v) :
    G.firstCell f ∈ G.cellsOf v := by
  have hfl := ((G.mem_facesOf v f).mp hf).1
  rcases G.fcells_cases hwf f hfl with ⟨c, s, hl, hc, _⟩ | ⟨c1, s1, c2, s2, hl, hc1, _⟩
  · have : G.firstCell f = c := by simp [firstCell, hl]
    rw [this]; exact G.cell_mem v f c s hc hf (by rw [hl]; simp)
  · have : G.firstCell f = c1 := by simp [firstCell, hl]
    rw [this]; exact G.cell_mem v f c1 s1 hc1 hf (by rw [hl]; simp)

theorem solOf_tab (n : Nat) (d : Nat → NodeSol) : solOf ((List.range n).map d) d = d := by
  funext v
  unfold solOf
  by_cases hv : v < n
  · simp [hv]
  · simp [hv]

end GridS

end PorepyVerif.C13
