/-
C13 — helper lemmas: finite sums, matrix-vector algebra, the weak-symmetry average.
-/
import PorepyVerif.C13.Model
import Mathlib.Algebra.Order.Field.Rat
import Mathlib.Tactic.Ring
import Mathlib.Tactic.Linarith
import Mathlib.Tactic.FieldSimp
import Mathlib.Data.Finset.Card
import Mathlib.Data.List.Nodup

namespace PorepyVerif.C13

variable {d : Nat}

/-! ### `sumFin` -/

theorem sumFin_congr {n : Nat} {f g : Fin n → Rat} (h : ∀ i, f i = g i) :
    sumFin n f = sumFin n g := by
  have : f = g := funext h
  rw [this]

theorem sumFin_zero : ∀ (n : Nat), sumFin n (fun _ => 0) = 0 := by
  intro n
  induction n with
  | zero => rfl
  | succ n ih => simp only [sumFin]; rw [ih]; ring

theorem sumFin_add : ∀ (n : Nat) (f g : Fin n → Rat),
    sumFin n (fun i => f i + g i) = sumFin n f + sumFin n g := by
  intro n
  induction n with
  | zero => intro f g; simp [sumFin]
  | succ n ih => intro f g; simp only [sumFin]; rw [ih]; ring

theorem sumFin_sub : ∀ (n : Nat) (f g : Fin n → Rat),
    sumFin n (fun i => f i - g i) = sumFin n f - sumFin n g := by
  intro n
  induction n with
  | zero => intro f g; simp [sumFin]
  | succ n ih => intro f g; simp only [sumFin]; rw [ih]; ring

theorem sumFin_mul_left : ∀ (n : Nat) (c : Rat) (f : Fin n → Rat),
    sumFin n (fun i => c * f i) = c * sumFin n f := by
  intro n
  induction n with
  | zero => intro c f; simp [sumFin]
  | succ n ih => intro c f; simp only [sumFin]; rw [ih]; ring

theorem sumFin_eq_zero {n : Nat} {f : Fin n → Rat} (h : ∀ i, f i = 0) : sumFin n f = 0 := by
  rw [sumFin_congr h, sumFin_zero]

/-! ### `allFin` -/

theorem allFin_iff : ∀ (n : Nat) (p : Fin n → Bool), allFin n p = true ↔ ∀ i, p i = true := by
  intro n
  induction n with
  | zero => intro p; simp [allFin]
  | succ n ih =>
    intro p
    simp only [allFin, Bool.and_eq_true, ih]
    constructor
    · rintro ⟨h0, hs⟩ i
      refine Fin.cases h0 hs i
    · intro h
      exact ⟨h 0, fun i => h i.succ⟩

/-! ### `sumTo` -/

theorem sumTo_mul_const (v f : Nat → Rat) (c : Rat) :
    ∀ m, (∀ k, k < m → f k = v k * c) → sumTo f m = sumTo v m * c := by
  intro m
  induction m with
  | zero => intro _; simp [sumTo]
  | succ m ih =>
    intro h
    simp only [sumTo]
    rw [ih (fun k hk => h k (Nat.lt_succ_of_lt hk)), h m (Nat.lt_succ_self m)]
    ring

/-! ### matrix-vector algebra (pointwise) -/

theorem mulVec_congr {M N : Mat d} (h : ∀ i j, M i j = N i j) (v : Vec d) (a : Fin d) :
    mulVec M v a = mulVec N v a := by
  unfold mulVec
  exact sumFin_congr (fun j => by rw [h])

theorem mulVec_zero_mat {M : Mat d} (h : ∀ i j, M i j = 0) (v : Vec d) (a : Fin d) :
    mulVec M v a = 0 := by
  unfold mulVec
  exact sumFin_eq_zero (fun j => by rw [h]; ring)

theorem mulVec_add_mat (M N : Mat d) (v : Vec d) (a : Fin d) :
    mulVec (fun i j => M i j + N i j) v a = mulVec M v a + mulVec N v a := by
  unfold mulVec
  rw [← sumFin_add]
  exact sumFin_congr (fun j => by ring)

theorem mulVec_vsub (M : Mat d) (x y : Vec d) (a : Fin d) :
    mulVec M (vsub x y) a = mulVec M x a - mulVec M y a := by
  unfold mulVec vsub
  rw [← sumFin_sub]
  exact sumFin_congr (fun j => by ring)

theorem mulVec_scale (M : Mat d) (c : Rat) (v : Vec d) (a : Fin d) :
    mulVec M (fun j => c * v j) a = c * mulVec M v a := by
  unfold mulVec
  rw [← sumFin_mul_left]
  exact sumFin_congr (fun j => by ring)

/-! ### Hooke's law and its split -/

theorem csym_add_casym (lam mu : Rat) (G : Mat d) (i j : Fin d) :
    csym lam mu G i j + casym mu G i j = hooke lam mu G i j := by
  unfold csym casym hooke
  by_cases h : i = j
  · subst h; simp only [if_true]; ring
  · simp only [if_neg h]; ring

theorem tr_skew {A : Mat d} (h : ∀ i j, A i j = -A j i) : tr A = 0 := by
  unfold tr
  apply sumFin_eq_zero
  intro i
  have := h i i
  linarith

theorem hooke_skew (lam mu : Rat) {A : Mat d} (h : ∀ i j, A i j = -A j i) (i j : Fin d) :
    hooke lam mu A i j = 0 := by
  unfold hooke
  rw [tr_skew h, h i j]
  by_cases hij : i = j
  · simp only [if_pos hij]; ring
  · simp only [if_neg hij]; ring

theorem hooke_zero (lam mu : Rat) (i j : Fin d) :
    hooke lam mu (fun _ _ => (0 : Rat)) i j = 0 :=
  hooke_skew lam mu (A := fun _ _ => (0 : Rat)) (fun _ _ => by ring) i j

/-! ### the weak-symmetry average -/

theorem avgAsym_of_equal (R : Region d) (G : Nat → Mat d) (A : Mat d)
    (hvol : sumTo R.vol R.m ≠ 0) (hG : ∀ k, k < R.m → G k = A) (a b : Fin d) :
    avgAsym R G a b = casym R.mu A a b := by
  unfold avgAsym
  rw [sumTo_mul_const R.vol _ (casym R.mu A a b) R.m (fun k hk => by rw [hG k hk])]
  field_simp

theorem subStress_of_equal (R : Region d) (G : Nat → Mat d) (A : Mat d)
    (hvol : sumTo R.vol R.m ≠ 0) (hG : ∀ k, k < R.m → G k = A) (i : Nat) (hi : i < R.m)
    (a b : Fin d) : subStress R G i false a b = hooke R.lam R.mu A a b := by
  unfold subStress
  rw [avgAsym_of_equal R G A hvol hG, hG i hi]
  simp only [Bool.false_eq_true, if_false]
  exact csym_add_casym _ _ _ _ _

theorem subStress_const (R : Region d) (A : Mat d) (hvol : sumTo R.vol R.m ≠ 0) (i : Nat)
    (a b : Fin d) : subStress R (fun _ => A) i false a b = hooke R.lam R.mu A a b := by
  unfold subStress
  rw [avgAsym_of_equal R (fun _ => A) A hvol (fun _ _ => rfl)]
  simp only [Bool.false_eq_true, if_false]
  exact csym_add_casym _ _ _ _ _

/-- displacement of a sub-cell carrying the exact gradient and the exact centre value -/
theorem subDisp_affine (R : Region d) (A : Mat d) (b : Vec d) (G : Nat → Mat d) (i : Nat)
    (hG : G i = A) (x : Vec d) (a : Fin d) :
    subDisp R (affineCells R A b) G i x a = affine A b x a := by
  unfold subDisp affineCells affine
  rw [hG, mulVec_vsub]
  ring

end PorepyVerif.C13
