import PorepyVerif.C13.Props
#print axioms PorepyVerif.C13.hooke_split
#print axioms PorepyVerif.C13.avg_of_equal
#print axioms PorepyVerif.C13.traction_row_iff
#print axioms PorepyVerif.C13.local_consistency_vec
#print axioms PorepyVerif.C13.subface_traction_exact
#print axioms PorepyVerif.C13.gradient_exact
#print axioms PorepyVerif.C13.neumann_traction_prescribed
#print axioms PorepyVerif.C13.face_traction_exact
#print axioms PorepyVerif.C13.rigid_translation_zero_traction
#print axioms PorepyVerif.C13.rigid_rotation_zero_traction
#print axioms PorepyVerif.C13.dirichlet_reconstruction_exact
#print axioms PorepyVerif.C13.elim_row_iff
#print axioms PorepyVerif.C13.checkSolves_iff
#print axioms PorepyVerif.C13.driver_lin_ok
#print axioms PorepyVerif.C13.admissible_no_elimination
