/-
C13 — MPSA reproduces linear displacement fields exactly: property theorems.

Setting (Model.lean): one interaction region `R` around a node, in any dimension `d`; sub-cell
gradients `G k`, cell-centre displacements `u k`; Hooke's law with constant isotropic stiffness,
split as in the code into `csym` and the volume-averaged `casym` part (weak symmetry); rows =
traction continuity, displacement continuity, Dirichlet, Neumann (with the `_eliminate_ncasym` flag).

For `u(x) = A x + b`:
* `local_consistency_vec`  — `G ≡ A` satisfies every row (all sub-cell gradients coincide, so the
  weak-symmetry average is the gradient itself: `avg_of_equal`);
* `subface_traction_exact` — if the local system is uniquely solvable, the discrete Hooke's law
  applied to its solution is the exact traction `σ(A) n` on every sub-face; `face_traction_exact`
  sums the sub-faces of a face; `neumann_traction_prescribed` covers Neumann sub-faces (also the
  eliminated ones); `rigid_translation_zero_traction`, `rigid_rotation_zero_traction`;
* `dirichlet_reconstruction_exact` — the reconstructed boundary displacement is `A x + b`;
* `elim_row_iff` — why the property restricts the Neumann sets: an eliminated Neumann row is
  consistent with `G ≡ A` iff the dropped term `casym(A) n` vanishes.

Outside these theorems (bridged by the correspondence check and the oracle): that the matrices
assembled by the vectorised code are these rows for every node, the inversion of the local
matrices, floating point rounding.
-/
import PorepyVerif.C13.Lemmas

namespace PorepyVerif.C13

variable {d : Nat}

/-- The code's split of the isotropic stiffness tensor is a split of Hooke's law. -/
theorem hooke_split (lam mu : Rat) (G : Mat d) (i j : Fin d) :
    csym lam mu G i j + casym mu G i j = hooke lam mu G i j :=
  csym_add_casym lam mu G i j

/-- Weak symmetry: if all sub-cell gradients around the node coincide, the volume weighted
    average of the `casym` parts is the `casym` part of that gradient (weights sum to one as soon
    as the total volume is non-zero). -/
theorem avg_of_equal (R : Region d) (G : Nat → Mat d) (A : Mat d)
    (hvol : sumTo R.vol R.m ≠ 0) (hG : ∀ k, k < R.m → G k = A) (a b : Fin d) :
    avgAsym R G a b = casym R.mu A a b :=
  avgAsym_of_equal R G A hvol hG a b

/-- The row the code assembles for an internal sub-face (only `csym` is paired) is continuity of
    the full weakly-symmetric traction. -/
theorem traction_row_iff (R : Region d) (u : Nat → Vec d) (G : Nat → Mat d) (i j : Nat) (n : Vec d) :
    (∀ a, (Row.tractionCont i j n).residual R u G a = 0) ↔
      (∀ a, subTraction R G i n false a = subTraction R G j n false a) := by
  have key : ∀ k a, subTraction R G k n false a
      = mulVec (csym R.lam R.mu (G k)) n a + mulVec (avgAsym R G) n a := by
    intro k a
    unfold subTraction
    rw [← mulVec_add_mat]
    exact mulVec_congr (fun _ _ => by simp [subStress]) n a
  constructor
  · intro h a
    have := h a
    simp only [Row.residual] at this
    rw [key, key]; linarith
  · intro h a
    have := h a
    rw [key, key] at this
    simp only [Row.residual]; linarith

/-- **Local consistency.**  For the affine field `u(x) = A x + b` (cell-centre values `A x_k + b`,
    Dirichlet data `A x_s + b`, Neumann data `σ(A) n`) the assignment `G_k ≡ A` satisfies every row
    of the local system: traction continuity, displacement continuity, Dirichlet and Neumann. -/
theorem local_consistency_vec (R : Region d) (A : Mat d) (b : Vec d)
    (hvol : sumTo R.vol R.m ≠ 0) (hlin : LinearData R A b) :
    Solves R (affineCells R A b) (fun _ => A) := by
  intro r hr a
  have hl := hlin r hr
  cases r with
  | tractionCont i j n => simp only [Row.residual]; ring
  | dispCont i j xs =>
    simp only [Row.residual]
    rw [subDisp_affine R A b _ i rfl, subDisp_affine R A b _ j rfl]; ring
  | dirichlet i xs uD =>
    simp only [Row.residual]
    rw [subDisp_affine R A b _ i rfl, hl a]; ring
  | neumann i n t elim =>
    obtain ⟨ht, he⟩ := hl
    simp only [Row.residual]
    rw [ht a]
    cases elim with
    | false =>
      unfold subTraction
      rw [mulVec_congr (subStress_const R A hvol i) n a]; ring
    | true =>
      have h0 := he rfl a
      have hs : ∀ x y, subStress R (fun _ => A) i true x y
          = hooke R.lam R.mu A x y + (-1) * casym R.mu A x y := by
        intro x y
        unfold subStress
        rw [← csym_add_casym]; simp
      unfold subTraction
      rw [mulVec_congr hs n a, mulVec_add_mat]
      have : mulVec (fun x y => (-1) * casym R.mu A x y) n a = (-1) * mulVec (casym R.mu A) n a := by
        unfold mulVec
        rw [← sumFin_mul_left]
        exact sumFin_congr (fun j => by ring)
      rw [this, h0]; ring

/-- **Exact sub-face traction.**  If the local system determines the gradients (the matrix the code
    inverts is nonsingular) then for affine data its solution is `G_k = A` on every sub-cell, and the
    discrete Hooke's law (`csym` of the own gradient plus the averaged `casym` part) gives the exact
    traction `σ(A) n` on every sub-face, whatever the grid geometry. -/
theorem subface_traction_exact (R : Region d) (A : Mat d) (b : Vec d) (G : Nat → Mat d)
    (hvol : sumTo R.vol R.m ≠ 0) (hlin : LinearData R A b) (huniq : Unisolvent R)
    (hsol : Solves R (affineCells R A b) G) (i : Nat) (hi : i < R.m) (n : Vec d) (a : Fin d) :
    subTraction R G i n false a = mulVec (hooke R.lam R.mu A) n a := by
  have hG : ∀ k, k < R.m → G k = A :=
    fun k hk => huniq _ G (fun _ => A) hsol (local_consistency_vec R A b hvol hlin) k hk
  unfold subTraction
  exact mulVec_congr (subStress_of_equal R G A hvol hG i hi) n a

/-- … and the solution itself is the exact gradient. -/
theorem gradient_exact (R : Region d) (A : Mat d) (b : Vec d) (G : Nat → Mat d)
    (hvol : sumTo R.vol R.m ≠ 0) (hlin : LinearData R A b) (huniq : Unisolvent R)
    (hsol : Solves R (affineCells R A b) G) (k : Nat) (hk : k < R.m) : G k = A :=
  huniq _ G (fun _ => A) hsol (local_consistency_vec R A b hvol hlin) k hk

/-- On a Neumann sub-face the discrete traction of ANY solution is the prescribed one — also where
    `_eliminate_ncasym` removed the averaged part (the same flag is used in row and Hooke's law). -/
theorem neumann_traction_prescribed (R : Region d) (u : Nat → Vec d) (G : Nat → Mat d)
    (hsol : Solves R u G) (i : Nat) (n t : Vec d) (elim : Bool)
    (hrow : Row.neumann i n t elim ∈ R.rows) (a : Fin d) :
    subTraction R G i n elim a = t a := by
  have := hsol _ hrow a
  simp only [Row.residual] at this
  linarith

/-- The traction on a face is the sum over its `nn` sub-faces, each with normal `n_f / nn`. -/
theorem face_traction_exact (S : Mat d) (n : Vec d) (nn : Rat) (hnn : nn ≠ 0) (a : Fin d) :
    nn * mulVec S (fun j => (1 / nn) * n j) a = mulVec S n a := by
  rw [mulVec_scale]
  field_simp

/-- **Rigid translations** (`A = 0`, all cell-centre and Dirichlet values equal `b`, zero Neumann
    data) produce zero traction on every sub-face. -/
theorem rigid_translation_zero_traction (R : Region d) (b : Vec d) (G : Nat → Mat d)
    (hvol : sumTo R.vol R.m ≠ 0) (hlin : LinearData R (fun _ _ => 0) b) (huniq : Unisolvent R)
    (hsol : Solves R (fun _ => b) G) (i : Nat) (hi : i < R.m) (n : Vec d) (a : Fin d) :
    subTraction R G i n false a = 0 := by
  have hu : affineCells R (fun _ _ => 0) b = fun _ => b := by
    funext k c
    unfold affineCells affine
    rw [mulVec_zero_mat (fun _ _ => rfl)]; ring
  rw [subface_traction_exact R _ b G hvol hlin huniq (hu ▸ hsol) i hi n a]
  exact mulVec_zero_mat (hooke_zero _ _) n a

/-- **Rigid rotations** (`A` skew-symmetric): `σ(A) = 0`, hence zero traction on every sub-face. -/
theorem rigid_rotation_zero_traction (R : Region d) (A : Mat d) (b : Vec d) (G : Nat → Mat d)
    (hskew : ∀ i j, A i j = -A j i)
    (hvol : sumTo R.vol R.m ≠ 0) (hlin : LinearData R A b) (huniq : Unisolvent R)
    (hsol : Solves R (affineCells R A b) G) (i : Nat) (hi : i < R.m) (n : Vec d) (a : Fin d) :
    subTraction R G i n false a = 0 := by
  rw [subface_traction_exact R A b G hvol hlin huniq hsol i hi n a]
  exact mulVec_zero_mat (hooke_skew _ _ hskew) n a

/-- **Boundary displacement reconstruction.**  With the solution of a uniquely solvable local
    system for affine data, the displacement reconstructed at any point `x` of a sub-face (the code
    uses the continuity point, the face centre on the boundary) from the adjacent sub-cell is the
    exact displacement `A x + b`. -/
theorem dirichlet_reconstruction_exact (R : Region d) (A : Mat d) (b : Vec d) (G : Nat → Mat d)
    (hvol : sumTo R.vol R.m ≠ 0) (hlin : LinearData R A b) (huniq : Unisolvent R)
    (hsol : Solves R (affineCells R A b) G) (i : Nat) (hi : i < R.m) (x : Vec d) (a : Fin d) :
    subDisp R (affineCells R A b) G i x a = affine A b x a :=
  subDisp_affine R A b G i (gradient_exact R A b G hvol hlin huniq hsol i hi) x a

/-- The admissibility condition is sharp: a Neumann row whose averaged part was eliminated, with
    exact data `t = σ(A) n`, is satisfied by `G ≡ A` iff the dropped term `casym(A) n` vanishes. -/
theorem elim_row_iff (R : Region d) (A : Mat d) (u : Nat → Vec d) (i : Nat) (n : Vec d) :
    (∀ a, (Row.neumann i n (mulVec (hooke R.lam R.mu A) n) true).residual R u (fun _ => A) a = 0) ↔
      (∀ a, mulVec (casym R.mu A) n a = 0) := by
  have key : ∀ a, mulVec (hooke R.lam R.mu A) n a
      = subTraction R (fun _ => A) i n true a + mulVec (casym R.mu A) n a := by
    intro a
    unfold subTraction
    rw [← mulVec_add_mat]
    exact mulVec_congr (fun x y => by unfold subStress; rw [← csym_add_casym]; simp) n a
  constructor
  · intro h a
    have := h a
    simp only [Row.residual] at this
    rw [key a] at this; linarith
  · intro h a
    simp only [Row.residual]
    rw [key a, h a]; ring

/-- Why the admissible boundary sets of the property never trigger `_eliminate_ncasym` in 3-D:
    the rule fires iff a node has more Neumann sub-faces than sub-cells (`#sub-cells − #Neumann < 0`).
    If distinct Neumann sub-faces at the node lie in distinct sub-cells — two boundary faces of one
    cell that meet at a node share an edge, which "no two Neumann faces share an edge" excludes —
    the rule does not fire (pigeonhole).  In 2-D it fires only at a corner with one sub-cell and two
    Neumann sub-faces, where no other sub-face is involved. -/
theorem admissible_no_elimination (m : Nat) (neu : List Nat) (cellOf : Nat → Nat)
    (hnd : neu.Nodup) (hr : ∀ s ∈ neu, cellOf s < m)
    (hinj : ∀ s ∈ neu, ∀ s' ∈ neu, cellOf s = cellOf s' → s = s') :
    ¬ (m < neu.length) := by
  have h1 : (neu.map cellOf).Nodup := List.Nodup.map_on hinj hnd
  have h2 : (neu.map cellOf).toFinset ⊆ Finset.range m := by
    intro x hx
    rw [List.mem_toFinset, List.mem_map] at hx
    obtain ⟨s, hs, rfl⟩ := hx
    exact Finset.mem_range.mpr (hr s hs)
  have h3 := Finset.card_le_card h2
  rw [List.toFinset_card_of_nodup h1, List.length_map, Finset.card_range] at h3
  omega

/-- The executable row check of the driver decides `Solves`. -/
theorem checkSolves_iff (R : Region d) (u : Nat → Vec d) (G : Nat → Mat d) :
    checkSolves R u G = true ↔ Solves R u G := by
  unfold checkSolves Solves
  rw [List.all_eq_true]
  constructor
  · intro h r hr a
    have := (allFin_iff d _).mp (h r hr) a
    exact beq_iff_eq.mp this
  · intro h r hr
    exact (allFin_iff d _).mpr (fun a => beq_iff_eq.mpr (h r hr a))

/-- What the driver answers as `lin_ok` is an instance of `local_consistency_vec`: for ANY region
    geometry sent by the harness, once the row data are rewritten to those of the affine field and
    the eliminated Neumann rows are set aside, the executable check succeeds (total volume ≠ 0). -/
theorem driver_lin_ok (R : Region d) (A : Mat d) (b : Vec d) (rows : List (Row d))
    (hrows : R.rows = (rows.map (Row.withLinData R.lam R.mu A b)).filter (fun r => !r.isElim))
    (hvol : sumTo R.vol R.m ≠ 0) :
    checkSolves R (affineCells R A b) (fun _ => A) = true := by
  apply (checkSolves_iff R _ _).mpr
  apply local_consistency_vec R A b hvol
  intro r hr
  rw [hrows, List.mem_filter, List.mem_map] at hr
  obtain ⟨⟨r0, _, rfl⟩, he⟩ := hr
  cases r0 with
  | tractionCont i j n => trivial
  | dispCont i j xs => trivial
  | dirichlet i xs uD => intro a; rfl
  | neumann i n t elim =>
    refine ⟨fun a => rfl, fun h => ?_⟩
    simp [Row.withLinData, Row.isElim, h] at he

/-! ### Non-vacuity: concrete regions in the plane -/

section examples

def v2 (x y : Rat) : Vec 2 := fun i => if i.val = 0 then x else y
def m2 (a b c e : Rat) : Mat 2 := fun i j =>
  if i.val = 0 then (if j.val = 0 then a else b) else (if j.val = 0 then c else e)

/-- a non-symmetric gradient with rotation part -/
def exA : Mat 2 := m2 2 (-3) 5 (1/2)
def exb : Vec 2 := v2 (1/3) (-7)

/-- Boundary node of a skewed grid with two sub-cells: one internal sub-face (traction and
    displacement continuity), a Dirichlet sub-face on sub-cell 0, a Neumann sub-face on
    sub-cell 1; the data are those of `exA x + exb`. -/
def exRegion : Region 2 :=
  let lam : Rat := 3 / 2
  let mu : Rat := 3 / 4
  { lam := lam, mu := mu, m := 2
    vol := fun k => if k = 0 then 1 / 4 else 3 / 8
    xc := fun k => if k = 0 then v2 (1/2) (1/2) else v2 (7/4) (5/8)
    rows := [ .tractionCont 0 1 (v2 (1/2) (-1/8)),
              .dispCont 0 1 (v2 1 (1/3)),
              .dirichlet 0 (v2 (1/2) 0) (affine exA exb (v2 (1/2) 0)),
              .neumann 1 (v2 0 (-3/4)) (mulVec (hooke lam mu exA) (v2 0 (-3/4))) false ] }

theorem exRegion_vol : sumTo exRegion.vol exRegion.m ≠ 0 := by decide +kernel

theorem exRegion_lin : LinearData exRegion exA exb := by
  intro r hr
  simp only [exRegion, List.mem_cons, List.not_mem_nil, or_false] at hr
  rcases hr with rfl | rfl | rfl | rfl
  · trivial
  · trivial
  · intro a; rfl
  · exact ⟨fun a => rfl, fun h => by cases h⟩

/-- hypotheses of `local_consistency_vec` are satisfiable, with a gradient that is neither symmetric
    nor skew and a non-trivial weak-symmetry average -/
example : Solves exRegion (affineCells exRegion exA exb) (fun _ => exA) :=
  local_consistency_vec exRegion exA exb exRegion_vol exRegion_lin

/-- the executable check agrees on this instance, and detects a wrong gradient -/
example : checkSolves exRegion (affineCells exRegion exA exb) (fun _ => exA) = true := by
  decide +kernel
example : checkSolves exRegion (affineCells exRegion exA exb) (fun _ => m2 2 (-3) 5 1) = false := by
  decide +kernel
example : avgAsym exRegion (fun _ => exA) 0 1 = 3 / 4 * 5 := by decide +kernel

/-- Corner node with one sub-cell and two Dirichlet sub-faces: uniquely solvable. -/
def exCorner : Region 2 :=
  { lam := 1, mu := 2, m := 1
    vol := fun _ => 1 / 4
    xc := fun _ => v2 (1/2) (1/2)
    rows := [ .dirichlet 0 (v2 0 (1/2)) (affine exA exb (v2 0 (1/2))),
              .dirichlet 0 (v2 (1/2) 0) (affine exA exb (v2 (1/2) 0)) ] }

theorem exCorner_lin : LinearData exCorner exA exb := by
  intro r hr
  simp only [exCorner, List.mem_cons, List.not_mem_nil, or_false] at hr
  rcases hr with rfl | rfl
  · intro a; rfl
  · intro a; rfl

theorem fin2_cases (i : Fin 2) : i = 0 ∨ i = 1 := by
  rcases i with ⟨_ | _ | n, h⟩
  · left; rfl
  · right; rfl
  · omega

theorem exCorner_unisolvent : Unisolvent exCorner := by
  intro u G₁ G₂ h₁ h₂ k hk
  have hk0 : k = 0 := by simp only [exCorner] at hk; omega
  subst hk0
  have e1 := fun a => h₁ _ (List.mem_cons_self ..) a
  have e2 := fun a => h₁ _ (List.mem_cons_of_mem _ (List.mem_cons_self ..)) a
  have f1 := fun a => h₂ _ (List.mem_cons_self ..) a
  have f2 := fun a => h₂ _ (List.mem_cons_of_mem _ (List.mem_cons_self ..)) a
  funext i j
  simp only [Row.residual, subDisp, mulVec, sumFin, vsub, exCorner, v2] at e1 e2 f1 f2
  have a1 := e1 i; have a2 := e2 i; have b1 := f1 i; have b2 := f2 i
  norm_num at a1 a2 b1 b2
  rcases fin2_cases j with rfl | rfl
  · linarith
  · linarith

/-- hypotheses of the exactness theorems are jointly satisfiable -/
example (G : Nat → Mat 2) (hsol : Solves exCorner (affineCells exCorner exA exb) G) (n : Vec 2)
    (a : Fin 2) : subTraction exCorner G 0 n false a = mulVec (hooke 1 2 exA) n a :=
  subface_traction_exact exCorner exA exb G (by decide +kernel) exCorner_lin exCorner_unisolvent
    hsol 0 (by decide) n a

/-- three Neumann sub-faces in three different sub-cells of a node with four sub-cells -/
example : ¬ (4 < [10, 11, 12].length) :=
  admissible_no_elimination 4 [10, 11, 12] (fun s => s - 10) (by decide) (by decide) (by decide)

/-- a rotation: `σ(A) = 0` -/
example : ∀ i j : Fin 2, hooke (5/3) (7/2) (m2 0 (-4) 4 0) i j = 0 := by decide +kernel

/-- an eliminated Neumann row is NOT consistent for a general gradient (here `casym(A) n ≠ 0`) -/
example : mulVec (casym (3/4) exA) (v2 0 (-3/4)) 0 ≠ 0 := by decide +kernel

end examples

end PorepyVerif.C13
