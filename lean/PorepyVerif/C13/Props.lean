/-
C13 — MPSA reproduces linear displacement fields exactly: property theorems.

Setting (Model.lean): one interaction region `R` around a node, in any dimension `d`; sub-cell
gradients `G k`, cell-centre displacements `u k`; Hooke's law with constant isotropic stiffness,
split as in the code into `csym` and the volume-averaged `casym` part (weak symmetry); rows =
traction continuity, displacement continuity, Dirichlet, Neumann (with the `_eliminate_ncasym` flag).

For `u(x) = A x + b`:
* `local_consistency_vec`  — `G ≡ A` satisfies every row (all sub-cell gradients coincide, so the
  weak-symmetry average is the gradient itself: `avg_of_equal`);
* `subface_traction_exact` — if the local system is uniquely solvable, the discrete Hooke's law
  applied to its solution is the exact traction `σ(A) n` on every sub-face; `face_traction_exact`
  sums the sub-faces of a face; `neumann_traction_prescribed` covers Neumann sub-faces (also the
  eliminated ones); `rigid_translation_zero_traction`, `rigid_rotation_zero_traction`;
* `dirichlet_reconstruction_exact` — the reconstructed boundary displacement is `A x + b`;
* `elim_row_iff` — why the property restricts the Neumann sets: an eliminated Neumann row is
  consistent with `G ≡ A` iff the dropped term `casym(A) n` vanishes.

Outside these theorems (bridged by the correspondence check and the oracle): that the matrices
assembled by the vectorised code are these rows for every node, the inversion of the local
matrices, floating point rounding.
-/
import PorepyVerif.C13.Lemmas

namespace PorepyVerif.C13

variable {d : Nat}

/-- The code's split of the isotropic stiffness tensor is a split of Hooke's law. -/
theorem hooke_split (lam mu : Rat) (G : Mat d) (i j : Fin d) :
    csym lam mu G i j + casym mu G i j = hooke lam mu G i j :=
  csym_add_casym lam mu G i j

/-- Weak symmetry: if all sub-cell gradients around the node coincide, the volume weighted
    average of the `casym` parts is the `casym` part of that gradient (weights sum to one as soon
    as the total volume is non-zero). -/
theorem avg_of_equal (R : Region d) (G : Nat → Mat d) (A : Mat d)
    (hvol : sumTo R.vol R.m ≠ 0) (hG : ∀ k, k < R.m → G k = A) (a b : Fin d) :
    avgAsym R G a b = casym R.mu A a b :=
  avgAsym_of_equal R G A hvol hG a b

/-- The row the code assembles for an internal sub-face (only `csym` is paired) is continuity of
    the full weakly-symmetric traction. -/
theorem traction_row_iff (R : Region d) (u : Nat → Vec d) (G : Nat → Mat d) (i j : Nat) (n : Vec d) :
    (∀ a, (Row.tractionCont i j n).residual R u G a = 0) ↔
      (∀ a, subTraction R G i n false a = subTraction R G j n false a) := by
  have key : ∀ k a, subTraction R G k n false a
      = mulVec (csym R.lam R.mu (G k)) n a + mulVec (avgAsym R G) n a := by
    intro k a
    unfold subTraction
    rw [← mulVec_add_mat]
    exact mulVec_congr (fun _ _ => by simp [subStress]) n a
  constructor
  · intro h a
    have := h a
    simp only [Row.residual] at this
    rw [key, key]; linarith
  · intro h a
    have := h a
    rw [key, key] at this
    simp only [Row.residual]; linarith

/-- **Local consistency.**  For the affine field `u(x) = A x + b` (cell-centre values `A x_k + b`,
    Dirichlet data `A x_s + b`, Neumann data `σ(A) n`) the assignment `G_k ≡ A` satisfies every row
    of the local system: traction continuity, displacement continuity, Dirichlet and Neumann. -/
theorem local_consistency_vec (R : Region d) (A : Mat d) (b : Vec d)
    (hvol : sumTo R.vol R.m ≠ 0) (hlin : LinearData R A b) :
    Solves R (affineCells R A b) (fun _ => A) := by
  intro r hr a
  have hl := hlin r hr
  cases r with
  | tractionCont i j n => simp only [Row.residual]; ring
  | dispCont i j xs =>
    simp only [Row.residual]
    rw [subDisp_affine R A b _ i rfl, subDisp_affine R A b _ j rfl]; ring
  | dirichlet i xs uD =>
    simp only [Row.residual]
    rw [subDisp_affine R A b _ i rfl, hl a]; ring
  | neumann i n t elim =>
    obtain ⟨ht, he⟩ := hl
    simp only [Row.residual]
    rw [ht a]
    cases elim with
    | false =>
      unfold subTraction
      rw [mulVec_congr (subStress_const R A hvol i) n a]; ring
    | true =>
      have h0 := he rfl a
      have hs : ∀ x y, subStress R (fun _ => A) i true x y
          = hooke R.lam R.mu A x y + (-1) * casym R.mu A x y := by
        intro x y
        unfold subStress
        rw [← csym_add_casym]; simp
      unfold subTraction
      rw [mulVec_congr hs n a, mulVec_add_mat]
      have : mulVec (fun x y => (-1) * casym R.mu A x y) n a = (-1) * mulVec (casym R.mu A) n a := by
        unfold mulVec
        rw [← sumFin_mul_left]
        exact sumFin_congr (fun j => by ring)
      rw [this, h0]; ring

/-- **Exact sub-face traction.**  If the local system determines the gradients (the matrix the code
    inverts is nonsingular) then for affine data its solution is `G_k = A` on every sub-cell, and the
    discrete Hooke's law (`csym` of the own gradient plus the averaged `casym` part) gives the exact
    traction `σ(A) n` on every sub-face, whatever the grid geometry. -/
theorem subface_traction_exact (R : Region d) (A : Mat d) (b : Vec d) (G : Nat → Mat d)
    (hvol : sumTo R.vol R.m ≠ 0) (hlin : LinearData R A b) (huniq : Unisolvent R)
    (hsol : Solves R (affineCells R A b) G) (i : Nat) (hi : i < R.m) (n : Vec d) (a : Fin d) :
    subTraction R G i n false a = mulVec (hooke R.lam R.mu A) n a := by
  have hG : ∀ k, k < R.m → G k = A :=
    fun k hk => huniq _ G (fun _ => A) hsol (local_consistency_vec R A b hvol hlin) k hk
  unfold subTraction
  exact mulVec_congr (subStress_of_equal R G A hvol hG i hi) n a

/-- … and the solution itself is the exact gradient. -/
theorem gradient_exact (R : Region d) (A : Mat d) (b : Vec d) (G : Nat → Mat d)
    (hvol : sumTo R.vol R.m ≠ 0) (hlin : LinearData R A b) (huniq : Unisolvent R)
    (hsol : Solves R (affineCells R A b) G) (k : Nat) (hk : k < R.m) : G k = A :=
  huniq _ G (fun _ => A) hsol (local_consistency_vec R A b hvol hlin) k hk

/-- On a Neumann sub-face the discrete traction of ANY solution is the prescribed one — also where
    `_eliminate_ncasym` removed the averaged part (the same flag is used in row and Hooke's law). -/
theorem neumann_traction_prescribed (R : Region d) (u : Nat → Vec d) (G : Nat → Mat d)
    (hsol : Solves R u G) (i : Nat) (n t : Vec d) (elim : Bool)
    (hrow : Row.neumann i n t elim ∈ R.rows) (a : Fin d) :
    subTraction R G i n elim a = t a := by
  have := hsol _ hrow a
  simp only [Row.residual] at this
  linarith

/-- The traction on a face is the sum over its `nn` sub-faces, each with normal `n_f / nn`. -/
theorem face_traction_exact (S : Mat d) (n : Vec d) (nn : Rat) (hnn : nn ≠ 0) (a : Fin d) :
    nn * mulVec S (fun j => (1 / nn) * n j) a = mulVec S n a := by
  rw [mulVec_scale]
  field_simp

/-- **Rigid translations** (`A = 0`, all cell-centre and Dirichlet values equal `b`, zero Neumann
    data) produce zero traction on every sub-face. -/
theorem rigid_translation_zero_traction (R : Region d) (b : Vec d) (G : Nat → Mat d)
    (hvol : sumTo R.vol R.m ≠ 0) (hlin : LinearData R (fun _ _ => 0) b) (huniq : Unisolvent R)
    (hsol : Solves R (fun _ => b) G) (i : Nat) (hi : i < R.m) (n : Vec d) (a : Fin d) :
    subTraction R G i n false a = 0 := by
  have hu : affineCells R (fun _ _ => 0) b = fun _ => b := by
    funext k c
    unfold affineCells affine
    rw [mulVec_zero_mat (fun _ _ => rfl)]; ring
  rw [subface_traction_exact R _ b G hvol hlin huniq (hu ▸ hsol) i hi n a]
  exact mulVec_zero_mat (hooke_zero _ _) n a

/-- **Rigid rotations** (`A` skew-symmetric): `σ(A) = 0`, hence zero traction on every sub-face. -/
theorem rigid_rotation_zero_traction (R : Region d) (A : Mat d) (b : Vec d) (G : Nat → Mat d)
    (hskew : ∀ i j, A i j = -A j i)
    (hvol : sumTo R.vol R.m ≠ 0) (hlin : LinearData R A b) (huniq : Unisolvent R)
    (hsol : Solves R (affineCells R A b) G) (i : Nat) (hi : i < R.m) (n : Vec d) (a : Fin d) :
    subTraction R G i n false a = 0 := by
  rw [subface_traction_exact R A b G hvol hlin huniq hsol i hi n a]
  exact mulVec_zero_mat (hooke_skew _ _ hskew) n a

/-- **Boundary displacement reconstruction.**  With the solution of a uniquely solvable local
    system for affine data, the displacement reconstructed at any point `x` of a sub-face (the code
    uses the continuity point, the face centre on the boundary) from the adjacent sub-cell is the
    exact displacement `A x + b`. -/
theorem dirichlet_reconstruction_exact (R : Region d) (A : Mat d) (b : Vec d) (G : Nat → Mat d)
    (hvol : sumTo R.vol R.m ≠ 0) (hlin : LinearData R A b) (huniq : Unisolvent R)
    (hsol : Solves R (affineCells R A b) G) (i : Nat) (hi : i < R.m) (x : Vec d) (a : Fin d) :
    subDisp R (affineCells R A b) G i x a = affine A b x a :=
  subDisp_affine R A b G i (gradient_exact R A b G hvol hlin huniq hsol i hi) x a

/-- The admissibility condition is sharp: a Neumann row whose averaged part was eliminated, with
    exact data `t = σ(A) n`, is satisfied by `G ≡ A` iff the dropped term `casym(A) n` vanishes. -/
theorem elim_row_iff (R : Region d) (A : Mat d) (u : Nat → Vec d) (i : Nat) (n : Vec d) :
    (∀ a, (Row.neumann i n (mulVec (hooke R.lam R.mu A) n) true).residual R u (fun _ => A) a = 0) ↔
      (∀ a, mulVec (casym R.mu A) n a = 0) := by
  have key : ∀ a, mulVec (hooke R.lam R.mu A) n a
      = subTraction R (fun _ => A) i n true a + mulVec (casym R.mu A) n a := by
    intro a
    unfold subTraction
    rw [← mulVec_add_mat]
    exact mulVec_congr (fun x y => by unfold subStress; rw [← csym_add_casym]; simp) n a
  constructor
  · intro h a
    have := h a
    simp only [Row.residual] at this
    rw [key a] at this; linarith
  · intro h a
    simp only [Row.residual]
    rw [key a, h a]; ring

/-- Why the admissible boundary sets of the property never trigger `_eliminate_ncasym` in 3-D:
    the rule fires iff a node has more Neumann sub-faces than sub-cells (`#sub-cells − #Neumann < 0`).
    If distinct Neumann sub-faces at the node lie in distinct sub-cells — two boundary faces of one
    cell that meet at a node share an edge, which "no two Neumann faces share an edge" excludes —
    the rule does not fire (pigeonhole).  In 2-D it fires only at a corner with one sub-cell and two
    Neumann sub-faces, where no other sub-face is involved. -/
theorem admissible_no_elimination (m : Nat) (neu : List Nat) (cellOf : Nat → Nat)
    (hnd : neu.Nodup) (hr : ∀ s ∈ neu, cellOf s < m)
    (hinj : ∀ s ∈ neu, ∀ s' ∈ neu, cellOf s = cellOf s' → s = s') :
    ¬ (m < neu.length) := by
  have h1 : (neu.map cellOf).Nodup := List.Nodup.map_on hinj hnd
  have h2 : (neu.map cellOf).toFinset ⊆ Finset.range m := by
    intro x hx
    rw [List.mem_toFinset, List.mem_map] at hx
    obtain ⟨s, hs, rfl⟩ := hx
    exact Finset.mem_range.mpr (hr s hs)
  have h3 := Finset.card_le_card h2
  rw [List.toFinset_card_of_nodup h1, List.length_map, Finset.card_range] at h3
  omega

/-- The executable row check of the driver decides `Solves`. -/
theorem checkSolves_iff (R : Region d) (u : Nat → Vec d) (G : Nat → Mat d) :
    checkSolves R u G = true ↔ Solves R u G := by
  unfold checkSolves Solves
  rw [List.all_eq_true]
  constructor
  · intro h r hr a
    have := (allFin_iff d _).mp (h r hr) a
    exact beq_iff_eq.mp this
  · intro h r hr
    exact (allFin_iff d _).mpr (fun a => beq_iff_eq.mpr (h r hr a))

/-- What the driver answers as `lin_ok` is an instance of `local_consistency_vec`: for ANY region
    geometry sent by the harness, once the row data are rewritten to those of the affine field and
    the eliminated Neumann rows are set aside, the executable check succeeds (total volume ≠ 0). -/
theorem driver_lin_ok (R : Region d) (A : Mat d) (b : Vec d) (rows : List (Row d))
    (hrows : R.rows = (rows.map (Row.withLinData R.lam R.mu A b)).filter (fun r => !r.isElim))
    (hvol : sumTo R.vol R.m ≠ 0) :
    checkSolves R (affineCells R A b) (fun _ => A) = true := by
  apply (checkSolves_iff R _ _).mpr
  apply local_consistency_vec R A b hvol
  intro r hr
  rw [hrows, List.mem_filter, List.mem_map] at hr
  obtain ⟨⟨r0, _, rfl⟩, he⟩ := hr
  cases r0 with
  | tractionCont i j n => trivial
  | dispCont i j xs => trivial
  | dirichlet i xs uD => intro a; rfl
  | neumann i n t elim =>
    refine ⟨fun a => rfl, fun h => ?_⟩
    simp [Row.withLinData, Row.isElim, h] at he

/-! ### `mpsa2d`: the assembled 2-D discretisation -/

namespace GridS
variable (G : GridS)

/-- In a certified grid every interaction region is uniquely solvable: the hypothesis `Unisolvent`
    of the region theorems is discharged per instance by the checked left inverse. -/
theorem mpsa2d_regions_unisolvent (Ls : List C11.Mat) (hwf : G.WF) (hcert : G.certs = some Ls)
    (bc : Nat → Vec 2) (v : Nat) (hv : v < G.numNodes) : Unisolvent (G.region bc v) :=
  cert_unisolvent _ _ (G.region_rowsOK hwf bc v) (G.certs_ok Ls hcert bc v hv)

theorem nodeSol_R (Ls : List C11.Mat) (u bc : Nat → Vec 2) (v : Nat) :
    (G.nodeSol Ls u bc v).R = G.region bc v := rfl

theorem nodeSol_u (Ls : List C11.Mat) (u bc : Nat → Vec 2) (v : Nat) :
    (G.nodeSol Ls u bc v).u = G.uLoc u v := rfl

/-- per node without eliminated rows: the solver's gradients for affine data are all `A` -/
theorem node_gradient_exact (A : Mat 2) (b : Vec 2) (Ls : List C11.Mat) (hwf : G.WF)
    (hcert : G.certs = some Ls) (v : Nat) (hv : v < G.numNodes) (hel : G.elimAt v = false)
    (k : Nat) (hk : k < (G.cellsOf v).length) :
    (G.nodeSol Ls (G.affineU A b) (G.affineBc A b) v).Gs k = A := by
  have hvol : sumTo (G.region (G.affineBc A b) v).vol (G.region (G.affineBc A b) v).m ≠ 0 :=
    hwf.2.2.2 v hv
  exact cert_solution2 (G.region (G.affineBc A b) v) (Ls.getD v [])
    (affineCells (G.region (G.affineBc A b) v) A b) (fun _ => A)
    (G.region_rowsOK hwf _ v) (G.certs_ok Ls hcert _ v hv)
    (local_consistency_vec _ A b hvol (G.region_linear hwf A b v hel)) k hk

/-- **`mpsa2d_linear_exact`.**  For EVERY well-formed 2-D grid (any topology given by
    `face_nodes` / `cell_faces`, any geometry arrays, any η, λ, μ, any Dirichlet/Neumann assignment)
    all of whose interaction regions are certified nonsingular (`G.certs = some Ls`), the assembled
    scheme — per node the region the model builds itself, gradients `L_v · rhs_v`, discrete Hooke's
    law with weak-symmetry averaging, sub-face tractions summed per face, sub-face displacements
    averaged per face — applied to the data of `u(x) = A x + b` (cell values `u(x_c)`, Dirichlet
    values `u(x_f)`, Neumann values `sgn · σ(A) n_f`) gives the exact traction `σ(A) n_f` on every
    face none of whose nodes had the averaged part eliminated, and the exact displacement `u(x_f)`
    on every such boundary face. -/
theorem mpsa2d_linear_exact (A : Mat 2) (b : Vec 2) (Ls : List C11.Mat) (hwf : G.WF)
    (hcert : G.certs = some Ls) (f : Nat) (hf : f < G.numFaces) (hne : G.noElimFace f = true) :
    (∀ a, G.faceTraction (G.nodeSol Ls (G.affineU A b) (G.affineBc A b)) f a
        = mulVec (hooke G.lam G.mu A) (G.fnAt f) a) ∧
    (G.isBoundary f = true →
      ∀ a, G.faceDisp (G.nodeSol Ls (G.affineU A b) (G.affineBc A b)) f a = affine A b (G.fcAt f) a) := by
  obtain ⟨hnonempty, hnodes⟩ := G.fnodes_ok hwf f hf
  have hN : G.nN f ≠ 0 := by
    unfold nN
    intro h0
    have : (G.fnodes f).length = 0 := by exact_mod_cast h0
    exact hnonempty (List.length_eq_zero_iff.mp this)
  have hel : ∀ v ∈ G.fnodes f, G.elimAt v = false := by
    intro v hv
    have := (List.all_eq_true.mp hne) v hv
    simpa using this
  constructor
  · intro a
    unfold faceTraction
    rw [sumList_const _ _ ((1 / G.nN f) * mulVec (hooke G.lam G.mu A) (G.fnAt f) a)]
    · show G.nN f * _ = _
      field_simp
    · intro v hv
      have hvn := hnodes v hv
      have hfv : f ∈ G.facesOf v := (G.mem_facesOf v f).mpr ⟨hf, hv⟩
      have hi := G.loc_lt v _ (G.firstCell_mem hwf v f hfv)
      have hG : ∀ k, k < (G.region (G.affineBc A b) v).m →
          (G.nodeSol Ls (G.affineU A b) (G.affineBc A b) v).Gs k = A :=
        fun k hk => G.node_gradient_exact A b Ls hwf hcert v hvn (hel v hv) k hk
      unfold subTr
      rw [hel v hv, Bool.false_and]
      unfold subTraction
      rw [G.nodeSol_R, mulVec_congr (subStress_of_equal (G.region (G.affineBc A b) v) _ A (hwf.2.2.2 v hvn) hG _ hi)]
      unfold subNormal
      exact mulVec_scale _ _ _ _
  · intro hb a
    unfold faceDisp
    rw [sumList_const _ _ (affine A b (G.fcAt f) a)]
    · show G.nN f * _ / G.nN f = _
      field_simp
    · intro v hv
      have hvn := hnodes v hv
      have hfv : f ∈ G.facesOf v := (G.mem_facesOf v f).mpr ⟨hf, hv⟩
      rcases G.fcells_cases hwf f hf with ⟨c, s, hl, hc, _⟩ | ⟨c1, s1, c2, s2, hl, _, _⟩
      · have hmem := G.cell_mem v f c s hc hfv (by rw [hl]; simp)
        have hG := G.node_gradient_exact A b Ls hwf hcert v hvn (hel v hv) _ (G.loc_lt v c hmem)
        unfold subU
        rw [hl, G.nodeSol_R, G.nodeSol_u]
        exact subDisp_affine (G.region (G.affineBc A b) v) A b _ _ hG _ a
      · simp [isBoundary, hl] at hb

/-- … in particular (the property's wording) on every non-Neumann face of a grid whose boundary
    set is admissible: elimination only at nodes all of whose faces are Neumann.  In genuine 2-D
    grids every Dirichlet/Neumann assignment is admissible (`elimAt` fires only at a corner with
    one cell and two Neumann faces). -/
theorem mpsa2d_nonneumann_exact (A : Mat 2) (b : Vec 2) (Ls : List C11.Mat) (hwf : G.WF)
    (hcert : G.certs = some Ls) (hadm : G.admissible = true) (f : Nat) (hf : f < G.numFaces)
    (hnn : G.isNeu f = false) :
    (∀ a, G.faceTraction (G.nodeSol Ls (G.affineU A b) (G.affineBc A b)) f a
        = mulVec (hooke G.lam G.mu A) (G.fnAt f) a) ∧
    (G.isBoundary f = true →
      ∀ a, G.faceDisp (G.nodeSol Ls (G.affineU A b) (G.affineBc A b)) f a = affine A b (G.fcAt f) a) := by
  apply G.mpsa2d_linear_exact A b Ls hwf hcert f hf
  have := (List.all_eq_true.mp hadm) f (List.mem_range.mpr hf)
  simpa [hnn] using this

/-- The hypothesis `admissible` is discharged by a decidable condition on the topology arrays: on a
    2-D manifold grid (a node has at most one more face than cells) EVERY Dirichlet/Neumann
    assignment is admissible — `_eliminate_ncasym` can fire only at a node all of whose faces are
    Neumann.  This is the property's clause "in 2D with any Dirichlet/Neumann mix". -/
theorem admissible_of_manifold (hwf : G.WF) (hman : G.manifold = true) : G.admissible = true := by
  unfold admissible
  rw [List.all_eq_true]
  intro f hf
  have hfl : f < G.numFaces := List.mem_range.mp hf
  by_cases hn : G.isNeu f = true
  · simp [hn]
  · have hn' : G.isNeu f = false := by simpa using hn
    simp only [hn', Bool.false_or]
    unfold noElimFace
    rw [List.all_eq_true]
    intro v hv
    have hvn := (G.fnodes_ok hwf f hfl).2 v hv
    by_contra hel
    have hel' : G.elimAt v = true := by simpa using hel
    unfold elimAt at hel'
    have hlt := of_decide_eq_true hel'
    have hm := of_decide_eq_true ((List.all_eq_true.mp hman) v (List.mem_range.mpr hvn))
    have hall := all_of_filter_length G.isNeu (G.facesOf v) (by omega)
    have := hall f ((G.mem_facesOf v f).mpr ⟨hfl, hv⟩)
    rw [hn'] at this; cases this

/-- the property's first clause: all boundary faces Dirichlet ⇒ exact on EVERY face -/
theorem mpsa2d_all_dirichlet_exact (A : Mat 2) (b : Vec 2) (Ls : List C11.Mat) (hwf : G.WF)
    (hcert : G.certs = some Ls) (hdir : ∀ f < G.numFaces, G.isNeu f = false) (f : Nat) (hf : f < G.numFaces) :
    (∀ a, G.faceTraction (G.nodeSol Ls (G.affineU A b) (G.affineBc A b)) f a
        = mulVec (hooke G.lam G.mu A) (G.fnAt f) a) ∧
    (G.isBoundary f = true →
      ∀ a, G.faceDisp (G.nodeSol Ls (G.affineU A b) (G.affineBc A b)) f a = affine A b (G.fcAt f) a) := by
  apply G.mpsa2d_linear_exact A b Ls hwf hcert f hf
  unfold noElimFace
  rw [List.all_eq_true]
  intro v _
  have h0 : (G.facesOf v).filter G.isNeu = [] := by
    rw [List.filter_eq_nil_iff]; intro x hx; simp [hdir x ((G.mem_facesOf v x).mp hx).1]
  simp [elimAt, h0]

/-- the neighbouring entry point `assemble_matrix_rhs` (`div·stress`, `−div·bound_stress·bc`): if
    the face tractions of a closed cell are all exact, the momentum balance of the cell vanishes, i.e.
    the cell-centre values of the affine field solve the assembled system with zero source. -/
theorem cell_balance_zero (S : Mat 2) (T : Nat → Vec 2) (c : Nat)
    (hT : ∀ f < G.numFaces, ∀ a, T f a = mulVec S (G.fnAt f) a) (hclosed : G.cellClosed c) (a : Fin 2) :
    G.cellBalance T c a = 0 := by
  have h0 := hclosed 0
  have h1 := hclosed 1
  unfold cellBalance at *
  have e : ∀ f ∈ List.range G.numFaces,
      sumList (((G.fcells f).filter (fun p => p.1 == c)).map (fun p => p.2 * T f a))
        = S a 0 * sumList (((G.fcells f).filter (fun p => p.1 == c)).map (fun p => p.2 * G.fnAt f 0))
          + S a 1 * sumList (((G.fcells f).filter (fun p => p.1 == c)).map (fun p => p.2 * G.fnAt f 1)) := by
    intro f hf
    rw [← sumList_map_lin]
    apply sumList_map_congr
    intro p _
    rw [hT f (List.mem_range.mp hf) a]
    simp only [mulVec, sumFin_two]; ring
  rw [sumList_map_congr _ _ _ e, sumList_map_lin, h0, h1]; ring

/-- rigid motions (`A` skew, in particular `A = 0`): zero traction on those faces -/
theorem mpsa2d_rigid_motion_zero_traction (A : Mat 2) (b : Vec 2) (hskew : ∀ i j, A i j = -A j i)
    (Ls : List C11.Mat) (hwf : G.WF) (hcert : G.certs = some Ls) (f : Nat) (hf : f < G.numFaces)
    (hne : G.noElimFace f = true) (a : Fin 2) :
    G.faceTraction (G.nodeSol Ls (G.affineU A b) (G.affineBc A b)) f a = 0 := by
  rw [(G.mpsa2d_linear_exact A b Ls hwf hcert f hf hne).1 a]
  exact mulVec_zero_mat (hooke_skew _ _ hskew) _ a

/-- what the driver executes (`apply`, with the node solutions tabulated once) is the scheme the
    theorems talk about -/
theorem apply_eq (Ls : List C11.Mat) (u bc : Nat → Vec 2) :
    G.apply Ls u bc =
      ((List.range G.numFaces).map (fun f => vecToList (G.faceTraction (G.nodeSol Ls u bc) f)),
       (List.range G.numFaces).map (fun f => vecToList (G.faceDisp (G.nodeSol Ls u bc) f))) := by
  unfold apply
  simp only [solOf_tab]

end GridS

/-! ### Non-vacuity: concrete regions in the plane -/

section examples

def v2 (x y : Rat) : Vec 2 := fun i => if i.val = 0 then x else y
def m2 (a b c e : Rat) : Mat 2 := fun i j =>
  if i.val = 0 then (if j.val = 0 then a else b) else (if j.val = 0 then c else e)

/-- a non-symmetric gradient with rotation part -/
def exA : Mat 2 := m2 2 (-3) 5 (1/2)
def exb : Vec 2 := v2 (1/3) (-7)

/-- Boundary node of a skewed grid with two sub-cells: one internal sub-face (traction and
    displacement continuity), a Dirichlet sub-face on sub-cell 0, a Neumann sub-face on
    sub-cell 1; the data are those of `exA x + exb`. -/
def exRegion : Region 2 :=
  let lam : Rat := 3 / 2
  let mu : Rat := 3 / 4
  { lam := lam, mu := mu, m := 2
    vol := fun k => if k = 0 then 1 / 4 else 3 / 8
    xc := fun k => if k = 0 then v2 (1/2) (1/2) else v2 (7/4) (5/8)
    rows := [ .tractionCont 0 1 (v2 (1/2) (-1/8)),
              .dispCont 0 1 (v2 1 (1/3)),
              .dirichlet 0 (v2 (1/2) 0) (affine exA exb (v2 (1/2) 0)),
              .neumann 1 (v2 0 (-3/4)) (mulVec (hooke lam mu exA) (v2 0 (-3/4))) false ] }

theorem exRegion_vol : sumTo exRegion.vol exRegion.m ≠ 0 := by decide +kernel

theorem exRegion_lin : LinearData exRegion exA exb := by
  intro r hr
  simp only [exRegion, List.mem_cons, List.not_mem_nil, or_false] at hr
  rcases hr with rfl | rfl | rfl | rfl
  · trivial
  · trivial
  · intro a; rfl
  · exact ⟨fun a => rfl, fun h => by cases h⟩

/-- hypotheses of `local_consistency_vec` are satisfiable, with a gradient that is neither symmetric
    nor skew and a non-trivial weak-symmetry average -/
example : Solves exRegion (affineCells exRegion exA exb) (fun _ => exA) :=
  local_consistency_vec exRegion exA exb exRegion_vol exRegion_lin

/-- the executable check agrees on this instance, and detects a wrong gradient -/
example : checkSolves exRegion (affineCells exRegion exA exb) (fun _ => exA) = true := by
  decide +kernel
example : checkSolves exRegion (affineCells exRegion exA exb) (fun _ => m2 2 (-3) 5 1) = false := by
  decide +kernel
example : avgAsym exRegion (fun _ => exA) 0 1 = 3 / 4 * 5 := by decide +kernel

/-- Corner node with one sub-cell and two Dirichlet sub-faces: uniquely solvable. -/
def exCorner : Region 2 :=
  { lam := 1, mu := 2, m := 1
    vol := fun _ => 1 / 4
    xc := fun _ => v2 (1/2) (1/2)
    rows := [ .dirichlet 0 (v2 0 (1/2)) (affine exA exb (v2 0 (1/2))),
              .dirichlet 0 (v2 (1/2) 0) (affine exA exb (v2 (1/2) 0)) ] }

theorem exCorner_lin : LinearData exCorner exA exb := by
  intro r hr
  simp only [exCorner, List.mem_cons, List.not_mem_nil, or_false] at hr
  rcases hr with rfl | rfl
  · intro a; rfl
  · intro a; rfl

theorem exCorner_unisolvent : Unisolvent exCorner := by
  intro u G₁ G₂ h₁ h₂ k hk
  have hk0 : k = 0 := by simp only [exCorner] at hk; omega
  subst hk0
  have e1 := fun a => h₁ _ (List.mem_cons_self ..) a
  have e2 := fun a => h₁ _ (List.mem_cons_of_mem _ (List.mem_cons_self ..)) a
  have f1 := fun a => h₂ _ (List.mem_cons_self ..) a
  have f2 := fun a => h₂ _ (List.mem_cons_of_mem _ (List.mem_cons_self ..)) a
  funext i j
  simp only [Row.residual, subDisp, mulVec, sumFin, vsub, exCorner, v2] at e1 e2 f1 f2
  have a1 := e1 i; have a2 := e2 i; have b1 := f1 i; have b2 := f2 i
  norm_num at a1 a2 b1 b2
  rcases fin2_cases j with rfl | rfl
  · linarith
  · linarith

/-- hypotheses of the exactness theorems are jointly satisfiable -/
example (G : Nat → Mat 2) (hsol : Solves exCorner (affineCells exCorner exA exb) G) (n : Vec 2)
    (a : Fin 2) : subTraction exCorner G 0 n false a = mulVec (hooke 1 2 exA) n a :=
  subface_traction_exact exCorner exA exb G (by decide +kernel) exCorner_lin exCorner_unisolvent
    hsol 0 (by decide) n a

/-- three Neumann sub-faces in three different sub-cells of a node with four sub-cells -/
example : ¬ (4 < [10, 11, 12].length) :=
  admissible_no_elimination 4 [10, 11, 12] (fun s => s - 10) (by decide) (by decide) (by decide)

/-- a concrete grid for `mpsa2d_linear_exact`: two unit squares side by side; Dirichlet on the left
    and top-right faces, Neumann elsewhere, so that the corner node 2 has two Neumann faces and one
    cell (`_eliminate_ncasym` fires there) -/
def exGridS : GridS :=
  { nodes := [[0, 0], [1, 0], [2, 0], [0, 1], [1, 1], [2, 1]],
    faceNodes := [[0, 3], [1, 4], [2, 5], [0, 1], [1, 2], [3, 4], [4, 5]],
    faceCells := [[(0, -1)], [(0, 1), (1, -1)], [(1, 1)], [(0, -1)], [(1, -1)], [(0, 1)], [(1, 1)]],
    cellCenters := [[1/2, 1/2], [3/2, 1/2]],
    faceCenters := [[0, 1/2], [1, 1/2], [2, 1/2], [1/2, 0], [3/2, 0], [1/2, 1], [3/2, 1]],
    faceNormals := [[1, 0], [1, 0], [1, 0], [0, 1], [0, 1], [0, 1], [0, 1]],
    volShare := [1/4, 1/4],
    isDir := [true, false, false, false, false, false, true],
    eta := 0, lam := 3/2, mu := 3/4 }

/-- hypotheses of `mpsa2d_linear_exact` / `mpsa2d_nonneumann_exact` are satisfiable (well-formed,
    admissible, all six regions certified, elimination does occur at node 2), and the conclusion is
    what the model computes: for `u = exA x + exb` the assembled scheme returns `σ(A) n_f` on all
    seven faces and `u(x_f)` on the two Dirichlet faces -/
example :
    exGridS.WF ∧ exGridS.admissible = true ∧ exGridS.elimAt 2 = true ∧ exGridS.noElimFace 1 = true ∧
    (exGridS.certs).isSome = true ∧
    (exGridS.certs).map (fun Ls => (exGridS.apply Ls (exGridS.affineU exA exb) (exGridS.affineBc exA exb)).1)
      = some [[27/4, 3/2], [27/4, 3/2], [27/4, 3/2], [3/2, 9/2], [3/2, 9/2], [3/2, 9/2], [3/2, 9/2]] ∧
    (exGridS.certs).map (fun Ls =>
        ((exGridS.apply Ls (exGridS.affineU exA exb) (exGridS.affineBc exA exb)).2.getD 0 [],
         (exGridS.apply Ls (exGridS.affineU exA exb) (exGridS.affineBc exA exb)).2.getD 6 []))
      = some (vecToList (affine exA exb (exGridS.fcAt 0)), vecToList (affine exA exb (exGridS.fcAt 6))) := by
  decide +kernel

/-- `manifold` holds for the example grid (so every boundary assignment on it is admissible), all
    its cells are closed, and the all-Dirichlet variant has no Neumann face -/
example : exGridS.manifold = true ∧ exGridS.admissible = true := by decide +kernel
example : exGridS.admissible = true := exGridS.admissible_of_manifold (by decide +kernel) (by decide +kernel)
example : ∀ a, exGridS.cellBalance exGridS.fnAt 1 a = 0 := by decide +kernel
def exGridDir : GridS := { exGridS with isDir := [true, true, true, true, true, true, true] }
example : exGridDir.WF ∧ (∀ f < exGridDir.numFaces, exGridDir.isNeu f = false) ∧ exGridDir.certs.isSome = true := by
  decide +kernel

/-- the certificate is not vacuous: with both cell centres of the corner node 0 moved onto the line
    through the two boundary face centres the local system is singular and `certs` refuses the grid
    (the degenerate configuration of corpus/C13/07) -/
example :
    ({ nodes := [[0, 0], [1, 0], [0, 1], [1, 1]],
       faceNodes := [[0, 1], [0, 2], [0, 3], [1, 3], [2, 3]],
       faceCells := [[(0, -1)], [(1, -1)], [(0, 1), (1, -1)], [(0, 1)], [(1, 1)]],
       cellCenters := [[3/8, 1/8], [1/8, 3/8]],
       faceCenters := [[1/2, 0], [0, 1/2], [1/2, 1/2], [1, 1/2], [1/2, 1]],
       faceNormals := [[0, 1], [1, 0], [1, -1], [1, 0], [0, 1]],
       volShare := [1/6, 1/6], isDir := [true, true, false, true, true],
       eta := 1/3, lam := 1, mu := 1 } : GridS).certs = none := by
  decide +kernel

/-- a rotation: `σ(A) = 0` -/
example : ∀ i j : Fin 2, hooke (5/3) (7/2) (m2 0 (-4) 4 0) i j = 0 := by decide +kernel

/-- an eliminated Neumann row is NOT consistent for a general gradient (here `casym(A) n ≠ 0`) -/
example : mulVec (casym (3/4) exA) (v2 0 (-3/4)) 0 ≠ 0 := by decide +kernel

end examples

end PorepyVerif.C13
