/- C13 line-protocol driver: `lake env lean --run PorepyVerif/C13/Driver.lean`

op "region": one interaction region of the real grid (geometry as exact rationals of the binary64
values), the affine field `A x + b`, and the real code's solution of its local system for
arbitrary data (`u`, `G`, Dirichlet / Neumann values in the rows).  Answers
  lin_ok   G ≡ A with cell values A x_k + b satisfies every non-eliminated row built from the
           geometry with the affine data (exactly, over ℚ)  — the instance of `local_consistency_vec`
  n_elim   number of rows flagged as eliminated
  lin_tr   per hook: traction of the model for the affine field (sub-face traction of G ≡ A; on an
           eliminated Neumann sub-face the prescribed value, `neumann_traction_prescribed`)
  res      per row: residual of the model's row at the real code's (u, G) and data
  tr       per hook: the model's discrete Hooke's law at the real code's G -/
import PorepyVerif.Common.Wire
import PorepyVerif.C13.Model
open Lean PV PorepyVerif.C13

def parseRow (d : Nat) (j : Json) : R (Row d) := do
  let t ← fStr j "t"
  match t with
  | "tc" => pure (.tractionCont (← fNat j "i") (← fNat j "j") (vecOfList (← fRats j "n")))
  | "dc" => pure (.dispCont (← fNat j "i") (← fNat j "j") (vecOfList (← fRats j "xs")))
  | "dir" => pure (.dirichlet (← fNat j "i") (vecOfList (← fRats j "xs")) (vecOfList (← fRats j "val")))
  | "neu" => pure (.neumann (← fNat j "i") (vecOfList (← fRats j "n")) (vecOfList (← fRats j "val"))
                    (← fBool j "elim"))
  | _ => throw s!"unknown row type {t}"

def parseFC (j : Json) : R (Nat × Rat) := do
  match j with
  | .arr a =>
    if a.size != 2 then throw "face-cell pair expected" else
    pure ((← jNat a[0]!), (← jRat a[1]!))
  | _ => throw "face-cell pair expected"

def ofVecss (l : List (List Rat)) : Json := ofList ofRats l

/-- op "grid": a whole 2-D grid.  Answers
  wf, admissible   decidable side conditions of `mpsa2d_linear_exact`
  certified        all interaction regions have a verified left inverse (`certs = some _`)
  cellcols / facecols   the four matrices, column by column: per column `[traction per face, displacement per face]`
  lin              the scheme applied to the data of the affine field `A x + b` -/
def handleGrid (j : Json) : R Json := do
  let G : GridS :=
    { nodes := (← fRatss j "nodes"), faceNodes := (← fNatss j "face_nodes"),
      faceCells := (← (field j "face_cells" >>= jList (jList parseFC))),
      cellCenters := (← fRatss j "cell_centers"), faceCenters := (← fRatss j "face_centers"),
      faceNormals := (← fRatss j "face_normals"), volShare := (← fRats j "vol_share"),
      isDir := (← (field j "is_dir" >>= jList jBool)), eta := (← fRat j "eta"),
      lam := (← fRat j "lam"), mu := (← fRat j "mu") }
  let A : Mat 2 := matOfLists (← fRatss j "A")
  let b : Vec 2 := vecOfList (← fRats j "b")
  let wf := decide G.WF
  match G.certs with
  | none => pure (obj [("wf", Json.bool wf), ("admissible", Json.bool G.admissible), ("certified", Json.bool false)])
  | some Ls =>
    let (cc, fc) := G.matrices Ls
    let col (x : List (List Rat) × List (List Rat)) : Json := Json.arr #[ofVecss x.1, ofVecss x.2]
    let lin := G.apply Ls (G.affineU A b) (G.affineBc A b)
    pure (obj [("wf", Json.bool wf), ("admissible", Json.bool G.admissible), ("certified", Json.bool true),
               ("manifold", Json.bool G.manifold),
               ("cellcols", ofList col cc), ("facecols", ofList col fc), ("lin", col lin)])

def handle (j : Json) : R Json := do
  let op ← fStr j "op"
  if op == "grid" then handleGrid j else
  if op != "region" then throw s!"unknown op {op}" else
  let d ← fNat j "d"
  let lam ← fRat j "lam"
  let mu ← fRat j "mu"
  let vol ← fRats j "vol"
  let xc ← fRatss j "xc"
  if xc.length != vol.length then throw "xc/vol length mismatch" else
  let rows ← (field j "rows" >>= jList (parseRow d))
  let A : Mat d := matOfLists (← fRatss j "A")
  let b : Vec d := vecOfList (← fRats j "b")
  let us ← fRatss j "u"
  let Gs ← (field j "G" >>= jList (jList (jList jRat)))
  if us.length != vol.length || Gs.length != vol.length then throw "u/G length mismatch" else
  let hooks ← (field j "hooks" >>= jList (fun h => do
      pure ((← fNat h "i"), (vecOfList (← fRats h "n") : Vec d), (← fBool h "elim"))))
  let m := vol.length
  if rows.any (fun r => match r with
      | .tractionCont i k _ => i ≥ m || k ≥ m
      | .dispCont i k _ => i ≥ m || k ≥ m
      | .dirichlet i _ _ => i ≥ m
      | .neumann i _ _ _ => i ≥ m) || hooks.any (fun h => h.1 ≥ m) then throw "sub-cell index out of range" else
  let mk (rs : List (Row d)) : Region d :=
    { lam := lam, mu := mu, m := m, vol := fun k => vol.getD k 0,
      xc := fun k => vecOfList (xc.getD k []), rows := rs }
  let linRows := rows.map (Row.withLinData lam mu A b)
  let Rlin := mk (linRows.filter (fun r => !r.isElim))
  let Rreal := mk rows
  let GA : Nat → Mat d := fun _ => A
  let u : Nat → Vec d := fun k => vecOfList (us.getD k [])
  let G : Nat → Mat d := fun k => matOfLists (Gs.getD k [])
  let linOk := checkSolves Rlin (affineCells Rlin A b) GA
  let linTr := hooks.map (fun (i, n, e) =>
    if e then vecToList (mulVec (hooke lam mu A) n) else vecToList (subTraction Rlin GA i n false))
  let res := rows.map (fun r => vecToList (r.residual Rreal u G))
  let tr := hooks.map (fun (i, n, e) => vecToList (subTraction Rreal G i n e))
  pure (obj [("lin_ok", Json.bool linOk), ("n_elim", ofNat (rows.filter (·.isElim)).length),
             ("lin_tr", ofList ofRats linTr), ("res", ofList ofRats res), ("tr", ofList ofRats tr)])

def main : IO Unit := runPure handle
