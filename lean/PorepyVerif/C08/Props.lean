/-
C08 — property theorems (statements depend on Model.lean only; helper lemmas in Lemmas.lean).

Property: over any sequence of value writes (overwrite or additive) and shifts with a maximum
depth, the value stored at index i is the i-th most recent value written at index 0, for every
index below the depth; additive writes to an empty slot are rejected.  (The clause "reads return
copies that later writes do not alter" is about run-time aliasing; values of the model are
immutable, so that clause is tested by the harness oracle, not proved here.)
-/
import PorepyVerif.C08.Lemmas

namespace PorepyVerif.C08

/-! ### refinement of the dict-of-indices store to a plain list window, call by call -/

/-- overwrite at an index inside the window or directly behind it -/
theorem set_refines {s : Store} {w : Window} (h : Repr s w) (i : Nat) (v : Val) (hi : i ≤ w.length) :
    Repr (insert s i v) (wset w i v) := by
  refine ⟨nodup_insert s i v h.1, fun j => ?_⟩
  rw [lookup_insert, getElem?_wset w i j v hi, h.2 j]

/-- additive write: rejected on both sides, or accepted on both sides with related results -/
theorem add_refines {s : Store} {w : Window} (h : Repr s w) (i : Nat) (v : Val) :
    (addAt s i v = none ∧ wadd w i v = none) ∨
      (∃ s' w', addAt s i v = some s' ∧ wadd w i v = some w' ∧ Repr s' w') := by
  unfold addAt
  rw [wadd_eq, h.2 i]
  cases hw : w[i]? with
  | none => left; exact ⟨rfl, rfl⟩
  | some a =>
    right
    have hi : i < w.length := by
      rcases List.getElem?_eq_some_iff.mp hw with ⟨hlt, _⟩
      exact hlt
    exact ⟨_, _, rfl, rfl, set_refines h i _ (Nat.le_of_lt hi)⟩

/-- `shift_solution_values` on a hole-free store never raises and is the window shift:
    `w ↦ take m (w₀ :: w) ++ drop m w` (`w₀ :: w` without a depth). -/
theorem shift_refines {s : Store} {w : Window} (h : Repr s w) (m : Option Nat) :
    (shift s (m.map Int.ofNat)).2 = none ∧ Repr (shift s (m.map Int.ofNat)).1 (wshift w m) := by
  have hlen := repr_length h
  -- the start of the range, in all three branches, is at most the number of stored values
  obtain ⟨top, htop, hle, hval⟩ : ∃ top, shiftStart s.length (m.map Int.ofNat) = some top ∧ top ≤ w.length ∧
      top = (match m with | none => w.length | some m => if w.length < m then w.length else m - 1) := by
    cases m with
    | none => exact ⟨s.length, rfl, by omega, by simpa using hlen⟩
    | some m =>
      refine ⟨_, shiftStart_nat s.length m, ?_, ?_⟩
      · split <;> omega
      · simp only [hlen]
  have hl := repr_shiftLoop h top hle
  unfold shift
  rw [htop]
  simp only [hl.1, if_true, true_and]
  refine ⟨shiftLoop_nodup top s h.1, fun j => ?_⟩
  rw [hl.2 j]
  cases w with
  | nil =>
    have : top = 0 := by simpa using hle
    subst this
    simp [wshift]
  | cons a w =>
    cases m with
    | none =>
      rw [getElem?_wshift_none]
      simp only [List.length_cons] at hval
      subst hval
      by_cases hj0 : j = 0
      · subst hj0; simp
      · by_cases hj : j ≤ w.length + 1
        · have : 1 ≤ j ∧ j ≤ w.length + 1 := by omega
          simp [this, hj0]
        · have h1 : ¬ (1 ≤ j ∧ j ≤ w.length + 1) := by omega
          have h2 : (a :: w)[j]? = none := by
            rw [List.getElem?_eq_none_iff]; simp only [List.length_cons]; omega
          have h3 : (a :: w)[j - 1]? = none := by
            rw [List.getElem?_eq_none_iff]; simp only [List.length_cons]; omega
          simp [h1, hj0, h2, h3]
    | some m =>
      rw [getElem?_wshift_some]
      simp only [List.length_cons] at hval
      by_cases hj0 : j = 0
      · subst hj0; simp
      · rw [if_neg hj0]
        by_cases hnm : w.length + 1 < m
        · rw [if_pos hnm] at hval
          subst hval
          by_cases hj : j ≤ w.length + 1
          · have h1 : 1 ≤ j ∧ j ≤ w.length + 1 := by omega
            have h2 : j < m := by omega
            rw [if_pos h1, if_pos h2]
          · have h1 : ¬ (1 ≤ j ∧ j ≤ w.length + 1) := by omega
            have h2 : (a :: w)[j]? = none := by
              rw [List.getElem?_eq_none_iff]; simp only [List.length_cons]; omega
            have h3 : (a :: w)[j - 1]? = none := by
              rw [List.getElem?_eq_none_iff]; simp only [List.length_cons]; omega
            rw [if_neg h1, h2, h3]
            split <;> rfl
        · rw [if_neg hnm] at hval
          subst hval
          by_cases hjm : j < m
          · have h1 : 1 ≤ j ∧ j ≤ m - 1 := by omega
            rw [if_pos h1, if_pos hjm]
          · have h1 : ¬ (1 ≤ j ∧ j ≤ m - 1) := by omega
            rw [if_neg h1, if_neg hjm]

/-- the deque reading of `shift_refines`: as long as no more than `m` values are stored, a shift with
    depth `m` is `appendleft(current)` on a deque of maximal length `m`. -/
theorem shift_refines_deque {s : Store} {w : Window} (h : Repr s w) (m : Nat) (hm : w.length ≤ m)
    (a : Val) (w' : Window) (hw : w = a :: w') :
    Repr (shift s (some (m : Int))).1 ((a :: w).take m) := by
  have := (shift_refines h (some m)).2
  have hd : w.drop m = [] := List.drop_eq_nil_of_le hm
  subst hw
  simpa [wshift, hd] using this

/-- one call: same observable output, related states -/
theorem step_refines {s : Store} {w : Window} (h : Repr s w) (op : Op)
    (hreg : ∀ i v, op = .set i v → i ≤ w.length) :
    (step s op).2 = (wstep w op).2 ∧ Repr (step s op).1 (wstep w op).1 := by
  cases op with
  | set i v => exact ⟨rfl, set_refines h i v (hreg i v rfl)⟩
  | add i v =>
    rcases add_refines h i v with ⟨h1, h2⟩ | ⟨s', w', h1, h2, h3⟩
    · simp only [step, wstep, h1, h2]; exact ⟨trivial, h⟩
    · simp only [step, wstep, h1, h2]; exact ⟨trivial, h3⟩
  | get i =>
    simp only [step, wstep, h.2 i]
    cases w[i]? with
    | none => exact ⟨rfl, h⟩
    | some v => exact ⟨rfl, h⟩
  | shift m =>
    cases m with
    | none =>
      have := shift_refines h none
      simp only [Option.map_none] at this
      simp only [step, wstep, this.1]
      exact ⟨trivial, this.2⟩
    | some m =>
      by_cases hm : m < 0
      · have hs : shift s (some m) = (s, some .valueError) := by
          simp [shift, shiftStart_neg s.length m hm]
        simp only [step, wstep, hs, if_pos hm]
        exact ⟨trivial, h⟩
      · have hmm : (m.toNat : Int) = m := Int.toNat_of_nonneg (by omega)
        have := shift_refines h (some m.toNat)
        simp only [Option.map_some, Int.ofNat_eq_natCast, hmm] at this
        simp only [step, wstep, this.1, if_neg hm]
        exact ⟨trivial, this.2⟩

/-- **Refinement theorem.** For EVERY history of set / additive set / get / shift calls (any indices,
    any depths incl. none, negative ones raising `ValueError`) that never writes beyond the end of
    what is stored (`regular`, i.e. creates no holes), started from a hole-free store: all outputs
    (values read, error kinds) are those of the plain list window, and the final store is again the
    window. -/
theorem store_refines_window (ops : List Op) {s : Store} {w : Window} (h : Repr s w)
    (hreg : regular w ops = true) :
    run s ops = wrun w ops ∧ Repr (exec s ops) (wexec w ops) := by
  induction ops generalizing s w with
  | nil => exact ⟨rfl, h⟩
  | cons op ops ih =>
    simp only [regular, Bool.and_eq_true] at hreg
    have hop : ∀ i v, op = .set i v → i ≤ w.length := by
      intro i v e
      subst e
      simpa using hreg.1
    have hs := step_refines h op hop
    have := ih hs.2 hreg.2
    simp only [run, wrun, exec, wexec, hs.1, this.1]
    exact ⟨trivial, this.2⟩

/-- … in particular from the empty storage: slot `i` of the dict is entry `i` of the window. -/
theorem store_refines_window_from_empty (ops : List Op) (hreg : regular [] ops = true) :
    run [] ops = wrun [] ops ∧ ∀ i, lookup (exec [] ops) i = (wexec [] ops)[i]? := by
  have := store_refines_window ops repr_nil hreg
  exact ⟨this.1, this.2.2⟩

/-! ### the sliding-window statement -/

/-- **Sliding window, varying depths.** After the rounds `(shift(max_index = mₖ); set index 0 := vₖ)`
    for `k = 0..K` on an empty storage, index `i` holds `v_{K-i}` whenever `i ≤ K` and the depth of
    the `j`-th most recent shift exceeded `i - j` for all `j < i`. -/
theorem window_ith_varying (hist : List (Nat × Val)) (i : Nat) (hi : i < hist.length)
    (ht : Travels hist.reverse i) :
    lookup (exec [] (alternation hist)) i = (hist.reverse[i]?).map (·.2) := by
  rw [(store_refines_window_from_empty _ (regular_alternation hist)).2 i]
  exact window_alternation hist i hi ht

/-- **Sliding window (the property).** After any alternation `(shift(max_index = m); set index 0 := vₖ)`,
    `k = 0..K`, the value stored at index `i` is `v_{K-i}`, the `i`-th most recent value written at
    index 0, for every `i < min(m, K+1)`. -/
theorem window_ith (m : Nat) (vs : List Val) (i : Nat) (him : i < m) (hik : i < vs.length) :
    lookup (exec [] (alternation (vs.map (fun v => (m, v))))) i = vs.reverse[i]? := by
  have hlen : i < (vs.map (fun v => (m, v))).length := by simpa using hik
  have ht : Travels (vs.map (fun v => (m, v))).reverse i := by
    intro j hj
    have hj' : j < (vs.map (fun v => (m, v))).reverse.length := by simp; omega
    refine ⟨_, List.getElem?_eq_getElem hj', ?_⟩
    simp only [← List.map_reverse, List.getElem_map]
    omega
  rw [window_ith_varying _ i hlen ht]
  simp only [← List.map_reverse, List.getElem?_map, Option.map_map]
  cases vs.reverse[i]? <;> rfl

/-! ### the Newton pattern: additive increments at index 0 -/

/-- **Sliding window, additive writes** (the pattern of `after_nonlinear_iteration`): after
    `set index 0 := v₀` and the rounds `(shift(max_index = m); index 0 += dₖ)`, `k = 1..K`, index `i`
    holds `v₀ + d₁ + … + d_{K-i}`, the iterate `i` rounds back, for every `i < min(m, K+1)`. -/
theorem window_additive (m : Nat) (v0 : Val) (ds : List Val) (i : Nat) (him : i < m)
    (hik : i ≤ ds.length) :
    lookup (exec [] (.set 0 v0 :: alternationAdd m ds)) i
      = some ((ds.take (ds.length - i)).foldl vadd v0) := by
  have hreg : regular [] (.set 0 v0 :: alternationAdd m ds) = true := by
    simp only [regular, wstep, wset, List.length_nil, Nat.le_refl, decide_true, Bool.true_and]
    exact regular_alternationAdd [v0] m ds
  rw [(store_refines_window_from_empty _ hreg).2 i]
  simp only [wexec, wstep, wset]
  exact window_additive_aux m (by omega) v0 ds i him hik

/-! ### errors -/

/-- Additive writes to an empty slot are rejected (`ValueError`) and leave the store as it is —
    for every store, with or without holes. -/
theorem add_empty_rejected (s : Store) (i : Nat) (v : Val) (h : lookup s i = none) :
    step s (.add i v) = (s, .err .valueError) := by
  simp [step, addAt, h]

/-- … and an additive write to a filled slot is accepted and adds to exactly that slot. -/
theorem add_present (s : Store) (i : Nat) (v old : Val) (h : lookup s i = some old) (j : Nat) :
    (step s (.add i v)).2 = .ok ∧
      lookup (step s (.add i v)).1 j = if j = i then some (vadd old v) else lookup s j := by
  simp only [step, addAt, h]
  exact ⟨trivial, lookup_insert s i j _⟩

/-- Reading never modifies the store (values are immutable in the model; that the arrays handed out
    are copies is tested by the harness). -/
theorem get_does_not_modify (s : Store) (i : Nat) : (step s (.get i)).1 = s := by
  simp only [step]
  cases lookup s i <;> rfl

/-- What was read earlier is not altered by later calls: the outputs of a history are a prefix of the
    outputs of every extension (a triviality for immutable values; the run-time counterpart — the
    arrays handed out are copies — is what the harness oracle tests). -/
theorem get_set_independent (s : Store) (a b : List Op) :
    run s (a ++ b) = run s a ++ run (exec s a) b := by
  induction a generalizing s with
  | nil => rfl
  | cons op a ih => simp only [List.cons_append, run, exec, ih]

/-- reading an empty slot is a `KeyError` -/
theorem get_empty_errors (s : Store) (i : Nat) (h : lookup s i = none) :
    (step s (.get i)).2 = .err .keyError := by
  simp [step, h]

/-- **Stores with holes.** For any store whatsoever, a shift whose range starts at `top` raises
    `KeyError` exactly if one of the slots `0 .. top-1` of the store is empty … -/
theorem shift_keyError_iff (s : Store) (m : Option Int) (top : Nat)
    (htop : shiftStart s.length m = some top) :
    (shift s m).2 = some .keyError ↔ ∃ j, j < top ∧ lookup s j = none := by
  unfold shift
  rw [htop]
  simp only
  constructor
  · intro h
    have hb : (shiftLoop top s).2 = false := by
      cases hb : (shiftLoop top s).2 with
      | false => rfl
      | true => simp [hb] at h
    have hnot : ¬ ∀ j, j < top → (lookup s j).isSome = true := by
      intro hall
      have := (shiftLoop_ok_iff top s).mpr hall
      rw [hb] at this
      cases this
    apply Classical.byContradiction
    intro hne
    apply hnot
    intro j hj
    cases hl : lookup s j with
    | none => exact absurd ⟨j, hj, hl⟩ hne
    | some v => rfl
  · rintro ⟨j, hj, hl⟩
    have : (shiftLoop top s).2 = false := by
      cases hb : (shiftLoop top s).2 with
      | false => rfl
      | true =>
        have := (shiftLoop_ok_iff top s).mp hb j hj
        simp [hl] at this
    simp [this]

/-- … index 0 is never written by a shift, failing or not … -/
theorem shift_keeps_index_zero (s : Store) (m : Option Int) : lookup (shift s m).1 0 = lookup s 0 := by
  unfold shift
  cases shiftStart s.length m with
  | none => rfl
  | some top => exact shiftLoop_zero top s

/-- … and in particular: a dict that has a hole (some key is ≥ the number of keys) makes every
    shift without `max_index` raise `KeyError`. -/
theorem noncontiguous_shift_errors (s : Store) (i : Nat)
    (hi : (lookup s i).isSome = true) (hbig : s.length ≤ i) :
    (shift s none).2 = some .keyError := by
  rw [shift_keyError_iff s none s.length rfl]
  apply Classical.byContradiction
  intro hne
  have hall : ∀ j, j < s.length → j ∈ s.map (·.1) := by
    intro j hj
    rw [mem_keys_iff]
    cases hl : alookup s j with
    | none => exact absurd ⟨j, hj, hl⟩ hne
    | some v => rfl
  have hsub : (i :: List.range s.length) ⊆ s.map (·.1) := by
    intro x hx
    rcases List.mem_cons.mp hx with rfl | hx
    · exact (mem_keys_iff s x).mpr hi
    · exact hall x (List.mem_range.mp hx)
  have hnd' : (i :: List.range s.length).Nodup := by
    refine List.nodup_cons.mpr ⟨?_, List.nodup_range⟩
    rw [List.mem_range]; omega
  have := hnd'.length_le_of_subset hsub
  simp only [List.length_cons, List.length_range, List.length_map] at this
  omega

/-! ### the data dictionary: each helper acts on `data[loc][name]` only, as the store-level call -/

/-- frame: writing one `data[loc][name]` leaves every other (location, name) untouched -/
theorem dget_dput (d : Data) (k k' : Key) (s : Store) :
    dget (dput d k s) k' = if k' = k then some s else dget d k' :=
  alookup_ainsert d k k' s

/-- `set_solution_values` with one non-negative index is `set` / `add` on that history -/
theorem data_set_is_store_step (d : Data) (name : String) (v : Val) (i : Nat) (loc : Loc) (additive : Bool) :
    setSolutionValues d name v (if loc = .timeStep then some (i : Int) else none)
        (if loc = .iterate then some (i : Int) else none) additive
      = (dput d (loc, name) (step ((dget d (loc, name)).getD []) (if additive then .add i v else .set i v)).1,
         (step ((dget d (loc, name)).getD []) (if additive then .add i v else .set i v)).2) := by
  have hi : ((i : Int) ≥ 0) := by omega
  cases loc <;> cases additive <;>
    simp [setSolutionValues, validateIndices, idxPart, setLoop, step, addAt] <;>
    (try cases lookup ((dget d _).getD []) i <;> rfl)

/-- `get_solution_values` with one non-negative index is `get` on that history (absent name = empty) -/
theorem data_get_is_store_step (d : Data) (name : String) (i : Nat) (loc : Loc) :
    getSolutionValues d name (if loc = .timeStep then some (i : Int) else none)
        (if loc = .iterate then some (i : Int) else none)
      = (step ((dget d (loc, name)).getD []) (.get i)).2 := by
  have hi : ((i : Int) ≥ 0) := by omega
  cases loc <;>
    simp only [getSolutionValues, validateIndices, idxPart, hi, if_true, Int.toNat_natCast, List.nil_append,
      List.append_nil, step, reduceCtorEq, if_false, Option.isNone_none, Option.isNone_some, Bool.and_false,
      Bool.false_and, Bool.false_eq_true] <;>
    (cases dget d _ with
     | none => simp [lookup, alookup]
     | some s => simp only [Option.getD_some]; cases lookup s i <;> rfl)

/-- `shift_solution_values` on a registered name is `shift` on that history; an unregistered name
    is left alone (even for a negative `max_index`) -/
theorem data_shift_is_store_step (d : Data) (name : String) (loc : Loc) (m : Option Int) :
    shiftSolutionValues d name (some loc) m =
      match dget d (loc, name) with
      | none => (d, .ok)
      | some s => (dput d (loc, name) (step s (.shift m)).1, (step s (.shift m)).2) := by
  simp only [shiftSolutionValues, step]
  cases dget d (loc, name) <;> rfl

/-! ### non-vacuity: concrete histories -/

/-- the abstraction relation does not depend on the storage order of the dict -/
example : Repr [(1, [2, 2]), (0, [1, 1])] [[1, 1], [2, 2]] :=
  ⟨by decide, fun i => by
    match i with
    | 0 => rfl
    | 1 => rfl
    | n + 2 => simp [lookup, alookup]⟩

/-- depth 2, three rounds: [v₂, v₁]; index 2 is empty -/
example : run [] (alternation [(2, [1, 10]), (2, [2, 20]), (2, [3, 30])] ++ [.get 0, .get 1, .get 2])
    = [.ok, .ok, .ok, .ok, .ok, .ok, .val [3, 30], .val [2, 20], .err .keyError] := by decide +kernel

example : regular [] (alternation [(2, [1, 10]), (2, [2, 20]), (2, [3, 30])] ++ [.get 0, .get 1, .get 2]) = true := by
  decide +kernel

/-- `window_ith` instance: m = 3, four values, i = 2 -/
example : lookup (exec [] (alternation ([[1, 1], [2, 2], [3, 3], [4, 4]].map (fun v => (3, v))))) 2 = some [2, 2] := by
  decide +kernel

/-- depth reduced to 1 and raised again: the stale value [1] resurfaces at index 2 (not claimed by
    `window_ith_varying`: `Travels` fails for i = 2) -/
example : exec [] (alternation [(3, [1]), (3, [2]), (1, [3]), (3, [4])]) = [(0, [4]), (1, [3]), (2, [1])] := by
  decide +kernel

example : Travels [(3, [4]), (1, [3]), (3, [2]), (3, [1])] 1 := by
  intro j hj
  have : j = 0 := by omega
  subst this
  exact ⟨_, rfl, by decide⟩

/-- Newton pattern: depth 2, v₀ = [1, 1], increments [1/2, 0], [1/4, 1] -/
example : run [] (.set 0 [1, 1] :: alternationAdd 2 [[1/2, 0], [1/4, 1]] ++ [.get 0, .get 1, .add 2 [0, 0]])
    = [.ok, .ok, .ok, .ok, .ok, .val [7/4, 2], .val [3/2, 1], .err .valueError] := by decide +kernel

/-- a store with a hole: shift without depth raises `KeyError` after having copied slot 1 to 2 -/
example : step [(1, [5]), (2, [6])] (.shift none) = ([(1, [5]), (2, [5])], .err .keyError) := by
  decide +kernel

example : (shift [(0, [5]), (2, [6])] none).2 = some .keyError :=
  noncontiguous_shift_errors _ 2 (by decide) (by decide)

/-- … but a bounded shift may repair the hole without an error -/
example : step [(0, [5]), (2, [6])] (.shift (some 2)) = ([(0, [5]), (2, [6]), (1, [5])], .ok) := by
  decide +kernel

/-- data dictionary: both locations written by one call, additive write to the empty time-step slot
    of a second name is rejected but registers the name, negative depth on an unregistered name passes -/
example :
    (cmdSeq [] [.set "p" [1, 2] (some 0) (some 0) false, .shift "p" (some .timeStep) (some 2),
                .set "p" [1, 1] (some 0) none true, .get "p" (some 1) none, .get "p" (some 0) none,
                .shift "q" (some .iterate) (some (-1)), .set "q" [1] (some 0) none true]).2
      = [.ok, .ok, .ok, .val [1, 2], .val [2, 3], .ok, .err .valueError] := by decide +kernel

end PorepyVerif.C08
