/-
C08 — property theorems (statements depend on Model.lean only; helper lemmas in Lemmas.lean).

Property: over any sequence of value writes (overwrite or additive) and shifts with a maximum
depth, the value stored at index i is the i-th most recent value written at index 0, for every
index below the depth; additive writes to an empty slot are rejected.  (The clause "reads return
copies that later writes do not alter" is about run-time aliasing; values of the model are
immutable, so that clause is tested by the harness oracle, not proved here.)
-/
import PorepyVerif.C08.Lemmas

namespace PorepyVerif.C08

/-! ### refinement of the dict-of-indices store to a plain list window, call by call -/

/-- overwrite at an index inside the window or directly behind it -/
theorem set_refines {s : Store} {w : Window} (h : Repr s w) (i : Nat) (v : Val) (hi : i ≤ w.length) :
    Repr (insert s i v) (wset w i v) := by
  refine ⟨nodup_insert s i v h.1, fun j => ?_⟩
  rw [lookup_insert, getElem?_wset w i j v hi, h.2 j]

/-- additive write: rejected on both sides, or accepted on both sides with related results -/
theorem add_refines {s : Store} {w : Window} (h : Repr s w) (i : Nat) (v : Val) :
    (addAt s i v = none ∧ wadd w i v = none) ∨
      (∃ s' w', addAt s i v = some s' ∧ wadd w i v = some w' ∧ Repr s' w') := by
  unfold addAt
  rw [wadd_eq, h.2 i]
  cases hw : w[i]? with
  | none => left; exact ⟨rfl, rfl⟩
  | some a =>
    right
    have hi : i < w.length := by
      rcases List.getElem?_eq_some_iff.mp hw with ⟨hlt, _⟩
      exact hlt
    exact ⟨_, _, rfl, rfl, set_refines h i _ (Nat.le_of_lt hi)⟩

/-- `shift_solution_values` on a hole-free store never raises and is the window shift:
    `w ↦ take m (w₀ :: w) ++ drop m w` (`w₀ :: w` without a depth). -/
theorem shift_refines {s : Store} {w : Window} (h : Repr s w) (m : Option Nat) :
    (shift s (m.map Int.ofNat)).2 = none ∧ Repr (shift s (m.map Int.ofNat)).1 (wshift w m) := by
  have hlen := repr_length h
  -- the start of the range, in all three branches, is at most the number of stored values
  obtain ⟨top, htop, hle, hval⟩ : ∃ top, shiftStart s.length (m.map Int.ofNat) = some top ∧ top ≤ w.length ∧
      top = (match m with | none => w.length | some m => if w.length < m then w.length else m - 1) := by
    cases m with
    | none => exact ⟨s.length, rfl, by omega, by simpa using hlen⟩
    | some m =>
      refine ⟨_, shiftStart_nat s.length m, ?_, ?_⟩
      · split <;> omega
      · simp only [hlen]
  have hl := repr_shiftLoop h top hle
  unfold shift
  rw [htop]
  simp only [hl.1, if_true, true_and]
  refine ⟨shiftLoop_nodup top s h.1, fun j => ?_⟩
  rw [hl.2 j]
  cases w with
  | nil =>
    have : top = 0 := by simpa using hle
    subst this
    simp [wshift]
  | cons a w =>
    cases m with
    | none =>
      rw [getElem?_wshift_none]
      simp only [List.length_cons] at hval
      subst hval
      by_cases hj0 : j = 0
      · subst hj0; simp
      · by_cases hj : j ≤ w.length + 1
        · have : 1 ≤ j ∧ j ≤ w.length + 1 := by omega
          simp [this, hj0]
        · have h1 : ¬ (1 ≤ j ∧ j ≤ w.length + 1) := by omega
          have h2 : (a :: w)[j]? = none := by
            rw [List.getElem?_eq_none_iff]; simp only [List.length_cons]; omega
          have h3 : (a :: w)[j - 1]? = none := by
            rw [List.getElem?_eq_none_iff]; simp only [List.length_cons]; omega
          simp [h1, hj0, h2, h3]
    | some m =>
      rw [getElem?_wshift_some]
      simp only [List.length_cons] at hval
      by_cases hj0 : j = 0
      · subst hj0; simp
      · rw [if_neg hj0]
        by_cases hnm : w.length + 1 < m
        · rw [if_pos hnm] at hval
          subst hval
          by_cases hj : j ≤ w.length + 1
          · have h1 : 1 ≤ j ∧ j ≤ w.length + 1 := by omega
            have h2 : j < m := by omega
            rw [if_pos h1, if_pos h2]
          · have h1 : ¬ (1 ≤ j ∧ j ≤ w.length + 1) := by omega
            have h2 : (a :: w)[j]? = none := by
              rw [List.getElem?_eq_none_iff]; simp only [List.length_cons]; omega
            have h3 : (a :: w)[j - 1]? = none := by
              rw [List.getElem?_eq_none_iff]; simp only [List.length_cons]; omega
            rw [if_neg h1, h2, h3]
            split <;> rfl
        · rw [if_neg hnm] at hval
          subst hval
          by_cases hjm : j < m
          · have h1 : 1 ≤ j ∧ j ≤ m - 1 := by omega
            rw [if_pos h1, if_pos hjm]
          · have h1 : ¬ (1 ≤ j ∧ j ≤ m - 1) := by omega
            rw [if_neg h1, if_neg hjm]

/-- the deque reading of `shift_refines`: as long as no more than `m` values are stored, a shift with
    depth `m` is `appendleft(current)` on a deque of maximal length `m`. -/
theorem shift_refines_deque {s : Store} {w : Window} (h : Repr s w) (m : Nat) (hm : w.length ≤ m)
    (a : Val) (w' : Window) (hw : w = a :: w') :
    Repr (shift s (some (m : Int))).1 ((a :: w).take m) := by
  have := (shift_refines h (some m)).2
  have hd : w.drop m = [] := List.drop_eq_nil_of_le hm
  subst hw
  simpa [wshift, hd] using this

/-- one call: same observable output, related states -/
theorem step_refines {s : Store} {w : Window} (h : Repr s w) (op : Op)
    (hreg : ∀ i v, op = .set i v → i ≤ w.length) :
    (step s op).2 = (wstep w op).2 ∧ Repr (step s op).1 (wstep w op).1 := by
  cases op with
  | set i v => exact ⟨rfl, set_refines h i v (hreg i v rfl)⟩
  | add i v =>
    rcases add_refines h i v with ⟨h1, h2⟩ | ⟨s', w', h1, h2, h3⟩
    · simp only [step, wstep, h1, h2]; exact ⟨trivial, h⟩
    · simp only [step, wstep, h1, h2]; exact ⟨trivial, h3⟩
  | get i =>
    simp only [step, wstep, h.2 i]
    cases w[i]? with
    | none => exact ⟨rfl, h⟩
    | some v => exact ⟨rfl, h⟩
  | shift m =>
    cases m with
    | none =>
      have := shift_refines h none
      simp only [Option.map_none] at this
      simp only [step, wstep, this.1]
      exact ⟨trivial, this.2⟩
    | some m =>
      by_cases hm : m < 0
      · have hs : shift s (some m) = (s, some .valueError) := by
          simp [shift, shiftStart_neg s.length m hm]
        simp only [step, wstep, hs, if_pos hm]
        exact ⟨trivial, h⟩
      · have hmm : (m.toNat : Int) = m := Int.toNat_of_nonneg (by omega)
        have := shift_refines h (some m.toNat)
        simp only [Option.map_some, Int.ofNat_eq_natCast, hmm] at this
        simp only [step, wstep, this.1, if_neg hm]
        exact ⟨trivial, this.2⟩

/-- **Refinement theorem.** For EVERY history of set / additive set / get / shift calls (any indices,
    any depths incl. none, negative ones raising `ValueError`) that never writes beyond the end of
    what is stored (`regular`, i.e. creates no holes), started from a hole-free store: all outputs
    (values read, error kinds) are those of the plain list window, and the final store is again the
    window. -/
theorem store_refines_window (ops : List Op) {s : Store} {w : Window} (h : Repr s w)
    (hreg : regular w ops = true) :
    run s ops = wrun w ops ∧ Repr (exec s ops) (wexec w ops) := by
  induction ops generalizing s w with
  | nil => exact ⟨rfl, h⟩
  | cons op ops ih =>
    simp only [regular, Bool.and_eq_true] at hreg
    have hop : ∀ i v, op = .set i v → i ≤ w.length := by
      intro i v e
      subst e
      simpa using hreg.1
    have hs := step_refines h op hop
    have := ih hs.2 hreg.2
    simp only [run, wrun, exec, wexec, hs.1, this.1]
    exact ⟨trivial, this.2⟩

/-- … in particular from the empty storage: slot `i` of the dict is entry `i` of the window. -/
theorem store_refines_window_from_empty (ops : List Op) (hreg : regular [] ops = true) :
    run [] ops = wrun [] ops ∧ ∀ i, lookup (exec [] ops) i = (wexec [] ops)[i]? := by
  have := store_refines_window ops repr_nil hreg
  exact ⟨this.1, this.2.2⟩

/-! ### the sliding-window statement -/

/-- **Sliding window, varying depths.** After the rounds `(shift(max_index = mₖ); set index 0 := vₖ)`
    for `k = 0..K` on an empty storage, index `i` holds `v_{K-i}` whenever `i ≤ K` and the depth of
    the `j`-th most recent shift exceeded `i - j` for all `j < i`. -/
theorem window_ith_varying (hist : List (Nat × Val)) (i : Nat) (hi : i < hist.length)
    (ht : Travels hist.reverse i) :
    lookup (exec [] (alternation hist)) i = (hist.reverse[i]?).map (·.2) := by
  rw [(store_refines_window_from_empty _ (regular_alternation hist)).2 i]
  exact window_alternation hist i hi ht

/-- **Sliding window (the property).** After any alternation `(shift(max_index = m); set index 0 := vₖ)`,
    `k = 0..K`, the value stored at index `i` is `v_{K-i}`, the `i`-th most recent value written at
    index 0, for every `i < min(m, K+1)`. -/
theorem window_ith (m : Nat) (vs : List Val) (i : Nat) (him : i < m) (hik : i < vs.length) :
    lookup (exec [] (alternation (vs.map (fun v => (m, v))))) i = vs.reverse[i]? := by
  have hlen : i < (vs.map (fun v => (m, v))).length := by simpa using hik
  have ht : Travels (vs.map (fun v => (m, v))).reverse i := by
    intro j hj
    have hj' : j < (vs.map (fun v => (m, v))).reverse.length := by simp; omega
    refine ⟨_, List.getElem?_eq_getElem hj', ?_⟩
    simp only [← List.map_reverse, List.getElem_map]
    omega
  rw [window_ith_varying _ i hlen ht]
  simp only [← List.map_reverse, List.getElem?_map, Option.map_map]
  cases vs.reverse[i]? <;> rfl

/-- **The property, for any sequence.** Over ANY sequence of writes at index 0 (overwrite or additive,
    any number between two shifts, rejected ones included), reads, and shifts with a maximum depth
    `m ≥ 1`, started on an empty storage: for every index `i < m` the slot `i` holds entry `i` of the
    unbounded history of index 0 (`ghost`: the value index 0 had when the `i`-th most recent shift
    happened; entry 0 = the latest write) — and is empty exactly if that history is shorter. -/
theorem window_any_sequence (m : Nat) (hm : 0 < m) (ops : List Op) (hfix : ops.all (fixedOp m) = true)
    (i : Nat) (hi : i < m) : lookup (exec [] ops) i = (ghost [] ops)[i]? := by
  rw [(store_refines_window_from_empty ops (regular_fixed m ops hfix [])).2 i]
  have := wexec_fixed m hm ops hfix []
  simp only [List.take_nil] at this
  rw [this, List.getElem?_take_of_lt hi]

/-- … and nothing is ever stored at or beyond the depth. -/
theorem window_any_sequence_depth (m : Nat) (hm : 0 < m) (ops : List Op) (hfix : ops.all (fixedOp m) = true)
    (i : Nat) (hi : m ≤ i) : lookup (exec [] ops) i = none := by
  rw [(store_refines_window_from_empty ops (regular_fixed m ops hfix [])).2 i]
  have := wexec_fixed m hm ops hfix []
  simp only [List.take_nil] at this
  rw [this, List.getElem?_eq_none_iff]
  simp only [List.length_take]
  omega

/-- several writes per epoch, a rejected additive write first, two shifts in a row: depth 2 -/
example :
    let ops : List Op := [.add 0 [1], .set 0 [1], .set 0 [2], .shift (some 2), .add 0 [10], .add 0 [10], .shift (some 2),
                          .shift (some 2), .set 0 [5]]
    ops.all (fixedOp 2) = true ∧ ghost [] ops = [[5], [22], [22], [2]] ∧
      exec [] ops = [(0, [5]), (1, [22])] := by decide +kernel

/-! ### the Newton pattern: additive increments at index 0 -/

/-- **Sliding window, additive writes** (the pattern of `after_nonlinear_iteration`): after
    `set index 0 := v₀` and the rounds `(shift(max_index = m); index 0 += dₖ)`, `k = 1..K`, index `i`
    holds `v₀ + d₁ + … + d_{K-i}`, the iterate `i` rounds back, for every `i < min(m, K+1)`. -/
theorem window_additive (m : Nat) (v0 : Val) (ds : List Val) (i : Nat) (him : i < m)
    (hik : i ≤ ds.length) :
    lookup (exec [] (.set 0 v0 :: alternationAdd m ds)) i
      = some ((ds.take (ds.length - i)).foldl vadd v0) := by
  have hreg : regular [] (.set 0 v0 :: alternationAdd m ds) = true := by
    simp only [regular, wstep, wset, List.length_nil, Nat.le_refl, decide_true, Bool.true_and]
    exact regular_alternationAdd [v0] m ds
  rw [(store_refines_window_from_empty _ hreg).2 i]
  simp only [wexec, wstep, wset]
  exact window_additive_aux m (by omega) v0 ds i him hik

/-! ### errors -/

/-- Additive writes to an empty slot are rejected (`ValueError`) and leave the store as it is —
    for every store, with or without holes. -/
theorem add_empty_rejected (s : Store) (i : Nat) (v : Val) (h : lookup s i = none) :
    step s (.add i v) = (s, .err .valueError) := by
  simp [step, addAt, h]

/-- … and an additive write to a filled slot is accepted and adds to exactly that slot. -/
theorem add_present (s : Store) (i : Nat) (v old : Val) (h : lookup s i = some old) (j : Nat) :
    (step s (.add i v)).2 = .ok ∧
      lookup (step s (.add i v)).1 j = if j = i then some (vadd old v) else lookup s j := by
  simp only [step, addAt, h]
  exact ⟨trivial, lookup_insert s i j _⟩

/-- Reading never modifies the store (values are immutable in the model; that the arrays handed out
    are copies is tested by the harness). -/
theorem get_does_not_modify (s : Store) (i : Nat) : (step s (.get i)).1 = s := by
  simp only [step]
  cases lookup s i <;> rfl

/-- What was read earlier is not altered by later calls: the outputs of a history are a prefix of the
    outputs of every extension (a triviality for immutable values; the run-time counterpart — the
    arrays handed out are copies — is what the harness oracle tests). -/
theorem get_set_independent (s : Store) (a b : List Op) :
    run s (a ++ b) = run s a ++ run (exec s a) b := by
  induction a generalizing s with
  | nil => rfl
  | cons op a ih => simp only [List.cons_append, run, exec, ih]

/-- reading an empty slot is a `KeyError` -/
theorem get_empty_errors (s : Store) (i : Nat) (h : lookup s i = none) :
    (step s (.get i)).2 = .err .keyError := by
  simp [step, h]

/-- **Stores with holes.** For any store whatsoever, a shift whose range starts at `top` raises
    `KeyError` exactly if one of the slots `0 .. top-1` of the store is empty … -/
theorem shift_keyError_iff (s : Store) (m : Option Int) (top : Nat)
    (htop : shiftStart s.length m = some top) :
    (shift s m).2 = some .keyError ↔ ∃ j, j < top ∧ lookup s j = none := by
  unfold shift
  rw [htop]
  simp only
  constructor
  · intro h
    have hb : (shiftLoop top s).2 = false := by
      cases hb : (shiftLoop top s).2 with
      | false => rfl
      | true => simp [hb] at h
    have hnot : ¬ ∀ j, j < top → (lookup s j).isSome = true := by
      intro hall
      have := (shiftLoop_ok_iff top s).mpr hall
      rw [hb] at this
      cases this
    apply Classical.byContradiction
    intro hne
    apply hnot
    intro j hj
    cases hl : lookup s j with
    | none => exact absurd ⟨j, hj, hl⟩ hne
    | some v => rfl
  · rintro ⟨j, hj, hl⟩
    have : (shiftLoop top s).2 = false := by
      cases hb : (shiftLoop top s).2 with
      | false => rfl
      | true =>
        have := (shiftLoop_ok_iff top s).mp hb j hj
        simp [hl] at this
    simp [this]

/-- … index 0 is never written by a shift, failing or not … -/
theorem shift_keeps_index_zero (s : Store) (m : Option Int) : lookup (shift s m).1 0 = lookup s 0 := by
  unfold shift
  cases shiftStart s.length m with
  | none => rfl
  | some top => exact shiftLoop_zero top s

/-- … and in particular: a dict that has a hole (some key is ≥ the number of keys) makes every
    shift without `max_index` raise `KeyError`. -/
theorem noncontiguous_shift_errors (s : Store) (i : Nat)
    (hi : (lookup s i).isSome = true) (hbig : s.length ≤ i) :
    (shift s none).2 = some .keyError := by
  rw [shift_keyError_iff s none s.length rfl]
  apply Classical.byContradiction
  intro hne
  have hall : ∀ j, j < s.length → j ∈ s.map (·.1) := by
    intro j hj
    rw [mem_keys_iff]
    cases hl : alookup s j with
    | none => exact absurd ⟨j, hj, hl⟩ hne
    | some v => rfl
  have hsub : (i :: List.range s.length) ⊆ s.map (·.1) := by
    intro x hx
    rcases List.mem_cons.mp hx with rfl | hx
    · exact (mem_keys_iff s x).mpr hi
    · exact hall x (List.mem_range.mp hx)
  have hnd' : (i :: List.range s.length).Nodup := by
    refine List.nodup_cons.mpr ⟨?_, List.nodup_range⟩
    rw [List.mem_range]; omega
  have := hnd'.length_le_of_subset hsub
  simp only [List.length_cons, List.length_range, List.length_map] at this
  omega

/-! ### the data dictionary: each helper acts on `data[loc][name]` only, as the store-level call -/

/-- frame: writing one `data[loc][name]` leaves every other (location, name) untouched -/
theorem dget_dput (d : Data) (k k' : Key) (s : Store) :
    dget (dput d k s) k' = if k' = k then some s else dget d k' :=
  alookup_ainsert d k k' s

/-- `set_solution_values` with one non-negative index is `set` / `add` on that history -/
theorem data_set_is_store_step (d : Data) (name : String) (v : Val) (i : Nat) (loc : Loc) (additive : Bool) :
    setSolutionValues d name v (if loc = .timeStep then some (i : Int) else none)
        (if loc = .iterate then some (i : Int) else none) additive
      = (dput d (loc, name) (step ((dget d (loc, name)).getD []) (if additive then .add i v else .set i v)).1,
         (step ((dget d (loc, name)).getD []) (if additive then .add i v else .set i v)).2) := by
  have hi : ((i : Int) ≥ 0) := by omega
  cases loc <;> cases additive <;>
    simp [setSolutionValues, validateIndices, idxPart, setLoop, step, addAt] <;>
    (try cases lookup ((dget d _).getD []) i <;> rfl)

/-- `get_solution_values` with one non-negative index is `get` on that history (absent name = empty) -/
theorem data_get_is_store_step (d : Data) (name : String) (i : Nat) (loc : Loc) :
    getSolutionValues d name (if loc = .timeStep then some (i : Int) else none)
        (if loc = .iterate then some (i : Int) else none)
      = (step ((dget d (loc, name)).getD []) (.get i)).2 := by
  have hi : ((i : Int) ≥ 0) := by omega
  cases loc <;>
    simp only [getSolutionValues, validateIndices, idxPart, hi, if_true, Int.toNat_natCast, List.nil_append,
      List.append_nil, step, reduceCtorEq, if_false, Option.isNone_none, Option.isNone_some, Bool.and_false,
      Bool.false_and, Bool.false_eq_true] <;>
    (cases dget d _ with
     | none => simp [lookup, alookup]
     | some s => simp only [Option.getD_some]; cases lookup s i <;> rfl)

/-- `shift_solution_values` on a registered name is `shift` on that history; an unregistered name
    is left alone (even for a negative `max_index`) -/
theorem data_shift_is_store_step (d : Data) (name : String) (loc : Loc) (m : Option Int) :
    shiftSolutionValues d name (some loc) m =
      match dget d (loc, name) with
      | none => (d, .ok)
      | some s => (dput d (loc, name) (step s (.shift m)).1, (step s (.shift m)).2) := by
  simp only [shiftSolutionValues, step]
  cases dget d (loc, name) <;> rfl

/-! ### the equation-system wrappers -/

/-- **set then get.** `set_variable_values(v, variables, index)` followed by
    `get_variable_values(variables, index)` at the same location and index returns `v`, for any
    layout with distinct storage names, any selection and any previous contents, provided `v` has the
    size of the selected blocks (otherwise see `es_set_wrong_size`). -/
theorem es_set_get_roundtrip (lay : Layout) (hnd : (lay.map (·.1)).Nodup) (d : Data) (values : Val)
    (sel : List String) (loc : Loc) (i : Nat) (hlen : values.length = selSize sel lay) :
    (esSet lay d values sel (tsArg loc i) (itArg loc i) false).2 = .ok ∧
      esGet lay (esSet lay d values sel (tsArg loc i) (itArg loc i) false).1 sel (tsArg loc i) (itArg loc i)
        = .val values := by
  have hok := esSetLoop_ok sel loc i values lay d 0
  have hget := esGetLoop_esSetLoop sel loc i values lay hnd d 0
  simp only [esSet, esGet, hok.1, hok.2, Nat.zero_add, hlen, if_true]
  refine ⟨trivial, ?_⟩
  rw [hget, ← hlen]
  simp

/-- **block by block.** After `set_variable_values`, the slot of every selected variable holds its
    own slice `v[off : off + n]` of the vector (`off` = sum of the sizes of the selected blocks
    before it in global order), whatever the order of the argument list. -/
theorem es_set_blocks (lay : Layout) (hnd : (lay.map (·.1)).Nodup) (d : Data) (values : Val)
    (sel : List String) (loc : Loc) (i : Nat) (name : String) (n off : Nat)
    (hb : (name, n) ∈ lay) (hoff : blockOffset sel name lay = some off) :
    slotOf (esSet lay d values sel (tsArg loc i) (itArg loc i) false).1 loc name i
      = some ((values.drop off).take n) := by
  have hok := esSetLoop_ok sel loc i values lay d 0
  have := esSetLoop_block sel loc i values lay hnd d 0 name n off hb hoff
  simp only [Nat.zero_add] at this
  simp only [esSet, hok.1]
  exact this

/-- a vector of the wrong size trips the final assertion (after the writes were made) -/
theorem es_set_wrong_size (lay : Layout) (d : Data) (values : Val) (sel : List String) (loc : Loc)
    (i : Nat) (hlen : values.length ≠ selSize sel lay) :
    (esSet lay d values sel (tsArg loc i) (itArg loc i) false).2 = .err .assertionError := by
  have hok := esSetLoop_ok sel loc i values lay d 0
  have hne : ¬ (selSize sel lay = values.length) := fun e => hlen e.symm
  simp only [esSet, hok.1, hok.2, Nat.zero_add, if_neg hne]

/-- **shift on every variable simultaneously.** `shift_time_step_values` / `shift_iterate_values` on
    distinct variables whose individual shifts do not raise: every selected variable's history at that
    location is replaced by its store-level shift, everything else is untouched. -/
theorem es_shift_simultaneous (sel : List String) (hnd : sel.Nodup) (loc : Loc) (m : Option Int) (d : Data)
    (hok : ∀ n ∈ sel, ∀ s, dget d (loc, n) = some s → (shift s m).2 = none) :
    (esShift d loc m sel).2 = .ok ∧
      ∀ k : Key, dget (esShift d loc m sel).1 k
        = if k.1 = loc ∧ k.2 ∈ sel then (dget d k).map (fun s => (shift s m).1) else dget d k := by
  induction sel generalizing d with
  | nil => exact ⟨rfl, fun k => by simp [esShift]⟩
  | cons n rest ih =>
    have hn := List.nodup_cons.mp hnd
    unfold esShift
    cases hs : dget d (loc, n) with
    | none =>
      have h1 : shiftSolutionValues d n (some loc) m = (d, .ok) := by simp [shiftSolutionValues, hs]
      rw [h1]
      simp only
      have := ih hn.2 d (fun n' hn' => hok n' (List.mem_cons_of_mem _ hn'))
      refine ⟨this.1, fun k => ?_⟩
      rw [this.2 k]
      by_cases hk : k = (loc, n)
      · subst hk
        simp [hn.1, hs]
      · have : (k.1 = loc ∧ k.2 ∈ n :: rest) ↔ (k.1 = loc ∧ k.2 ∈ rest) := by
          constructor
          · rintro ⟨h1, h2⟩
            rcases List.mem_cons.mp h2 with e | e
            · exact absurd (Prod.ext h1 e) hk
            · exact ⟨h1, e⟩
          · rintro ⟨h1, h2⟩; exact ⟨h1, List.mem_cons_of_mem _ h2⟩
        simp only [this]
    | some s =>
      have hsok := hok n (List.mem_cons_self) s hs
      have h1 : shiftSolutionValues d n (some loc) m = (dput d (loc, n) (shift s m).1, .ok) := by
        simp [shiftSolutionValues, hs, hsok]
      rw [h1]
      simp only
      have hok' : ∀ n' ∈ rest, ∀ s', dget (dput d (loc, n) (shift s m).1) (loc, n') = some s' →
          (shift s' m).2 = none := by
        intro n' hn' s' hs'
        have hne : (loc, n') ≠ (loc, n) := fun e => hn.1 ((Prod.mk.inj e).2 ▸ hn')
        rw [dget_dput', if_neg hne] at hs'
        exact hok n' (List.mem_cons_of_mem _ hn') s' hs'
      have := ih hn.2 _ hok'
      refine ⟨this.1, fun k => ?_⟩
      rw [this.2 k, dget_dput']
      by_cases hk : k = (loc, n)
      · subst hk
        simp [hn.1, hs]
      · have : (k.1 = loc ∧ k.2 ∈ n :: rest) ↔ (k.1 = loc ∧ k.2 ∈ rest) := by
          constructor
          · rintro ⟨h1, h2⟩
            rcases List.mem_cons.mp h2 with e | e
            · exact absurd (Prod.ext h1 e) hk
            · exact ⟨h1, e⟩
          · rintro ⟨h1, h2⟩; exact ⟨h1, List.mem_cons_of_mem _ h2⟩
        simp only [this, if_neg hk]

/-- … in window terms: if every selected variable's history is a (hole-free) window, the wrapper
    shifts all these windows by one, never raising. -/
theorem es_shift_windows (sel : List String) (hnd : sel.Nodup) (loc : Loc) (m : Option Nat) (d : Data)
    (w : String → Window) (hrep : ∀ n ∈ sel, ∃ s, dget d (loc, n) = some s ∧ Repr s (w n)) :
    (esShift d loc (m.map Int.ofNat) sel).2 = .ok ∧
      ∀ n ∈ sel, ∃ s', dget (esShift d loc (m.map Int.ofNat) sel).1 (loc, n) = some s' ∧
        Repr s' (wshift (w n) m) := by
  have hok : ∀ n ∈ sel, ∀ s, dget d (loc, n) = some s → (shift s (m.map Int.ofNat)).2 = none := by
    intro n hn s hs
    obtain ⟨s0, hs0, hr⟩ := hrep n hn
    rw [hs] at hs0
    cases hs0
    exact (shift_refines hr m).1
  have := es_shift_simultaneous sel hnd loc (m.map Int.ofNat) d hok
  refine ⟨this.1, fun n hn => ?_⟩
  obtain ⟨s0, hs0, hr⟩ := hrep n hn
  refine ⟨(shift s0 (m.map Int.ofNat)).1, ?_, (shift_refines hr m).2⟩
  rw [this.2 (loc, n)]
  simp [hn, hs0]

/-- the same for a layout read off a state of the C05 model of `EquationSystem` -/
theorem es_set_get_roundtrip_c05 (s : C05.State) (hnd : ((layoutOf s).map (·.1)).Nodup) (d : Data)
    (values : Val) (sel : List String) (loc : Loc) (i : Nat)
    (hlen : values.length = selSize sel (layoutOf s)) :
    esGet (layoutOf s) (esSet (layoutOf s) d values sel (tsArg loc i) (itArg loc i) false).1 sel
        (tsArg loc i) (itArg loc i) = .val values :=
  (es_set_get_roundtrip (layoutOf s) hnd d values sel loc i hlen).2

/-! ### the un-shift of `_revert_time_dependent_boundary_values` (repaired behaviour) -/

/-- **Un-shift on ANY store, holes included**: afterwards index `j` holds what index `j + 1` held, for
    every `j` (what index 0 held is dropped), nothing raises, and distinct keys stay distinct. -/
theorem unshift_spec (s : Store) (hnd : (s.map (·.1)).Nodup) :
    ((unshift s).map (·.1)).Nodup ∧ ∀ j, lookup (unshift s) j = lookup s (j + 1) :=
  ⟨nodup_keys_unshift s hnd, lookup_unshift s⟩

/-- in window terms: the head of the window is dropped -/
theorem unshift_refines {s : Store} {w : Window} (h : Repr s w) : Repr (unshift s) w.tail := by
  refine ⟨nodup_keys_unshift s h.1, fun j => ?_⟩
  rw [lookup_unshift, h.2]
  cases w <;> simp

/-- un-shift is the inverse of a shift that did not push a value out of the window … -/
theorem unshift_after_shift {s : Store} {w : Window} (h : Repr s w) (hw : w ≠ []) :
    Repr (unshift (shift s none).1) w := by
  have hs := (shift_refines h none).2
  simp only [Option.map_none] at hs
  obtain ⟨a, t, rfl⟩ : ∃ a t, w = a :: t := by
    cases w with
    | nil => exact absurd rfl hw
    | cons a t => exact ⟨a, t, rfl⟩
  have := unshift_refines hs
  simpa [wshift] using this

/-- … on the index set of ANY store: after a successful shift without depth, the un-shift gives back
    every slot the store had (holes stay holes). -/
theorem unshift_after_shift_any (s : Store) (hok : (shift s none).2 = none) (j : Nat) :
    lookup (unshift (shift s none).1) j = lookup s j := by
  rw [lookup_unshift]
  have hb : (shiftLoop s.length s).2 = true := by
    cases hb : (shiftLoop s.length s).2 with
    | true => rfl
    | false => simp [shift, shiftStart, hb] at hok
  have hall := (shiftLoop_ok_iff s.length s).mp hb
  have hl := shiftLoop_lookup s.length s hall (j + 1)
  simp only [shift, shiftStart]
  rw [hl]
  by_cases hj : j + 1 ≤ s.length
  · have : 1 ≤ j + 1 ∧ j + 1 ≤ s.length := by omega
    rw [if_pos this]; rfl
  · have : ¬ (1 ≤ j + 1 ∧ j + 1 ≤ s.length) := by omega
    rw [if_neg this]
    -- beyond the number of keys: slot j is empty as well (all of 0..n-1 are present, so no key ≥ n)
    have hnone : ∀ i, s.length ≤ i → lookup s i = none := by
      intro i hi
      cases hli : lookup s i with
      | none => rfl
      | some v =>
        exfalso
        have hsub : (i :: List.range s.length) ⊆ s.map (·.1) := by
          intro x hx
          rcases List.mem_cons.mp hx with rfl | hx
          · exact (mem_keys_iff s x).mpr (by unfold lookup at hli; rw [hli]; rfl)
          · exact (mem_keys_iff s x).mpr (hall x (List.mem_range.mp hx))
        have hnd' : (i :: List.range s.length).Nodup := by
          refine List.nodup_cons.mpr ⟨?_, List.nodup_range⟩
          rw [List.mem_range]; omega
        have := hnd'.length_le_of_subset hsub
        simp only [List.length_cons, List.length_range, List.length_map] at this
        omega
    rw [hnone (j + 1) (by omega), hnone j (by omega)]

/-- holes are no obstacle: keys {0, 1, 3} become {0, 2}; nothing is shared, nothing raises -/
example : unshift [(0, [1]), (1, [2]), (3, [4])] = [(0, [2]), (2, [4])] := by decide +kernel
example : unshift [(0, [1]), (1, [2]), (2, [3])] = [(0, [2]), (1, [3])] := by decide +kernel

/-- boundary values: update at depth 2 twice, revert, update again reproduces the accepted history -/
example :
    let d1 := (bcUpdate [] "u" [1] 2).1
    let d2 := (bcUpdate d1 "u" [2] 2).1
    let d3 := (bcUpdate d2 "u" [3] 2).1
    let d4 := (bcUpdate (bcRevert d3).1 "u" [4] 2).1
    (dget d3 (.timeStep, "u") = some [(0, [2]), (1, [1])]) ∧ (bcRevert d3).2 = .ok ∧
      dget (bcRevert d3).1 (.timeStep, "u") = some [(0, [1])] ∧
      getSolutionValues (bcRevert d3).1 "u" none (some 0) = .val [2] ∧
      dget d4 (.timeStep, "u") = some [(0, [2]), (1, [1])] ∧ getSolutionValues d4 "u" none (some 0) = .val [4] := by
  decide +kernel

/-! ### aliasing: the model with references -/

/-- every call of the code as it is keeps the slots separated from each other and from the caller -/
theorem sep_step (st : HState) (op : HOp) (h : Sep st) : Sep (hstep codePolicy st op).1 := by
  cases op with
  | new v => exact (sep_alloc_held st v h).1
  | mutate k v =>
    simp only [hstep]
    cases st.held[k]? <;> exact h
  | set i k =>
    simp only [hstep]
    cases st.held[k]? with
    | none => exact h
    | some r => exact (sep_alloc_store st (deref st r) i h).1
  | add i k =>
    simp only [hstep]
    cases st.held[k]? with
    | none => exact h
    | some r => cases alookup st.store i <;> exact h
  | get i =>
    simp only [hstep]
    cases alookup st.store i with
    | none => exact h
    | some q => exact (sep_alloc_held st (deref st q) h).1
  | shift m =>
    simp only [hstep]
    cases shiftStart st.store.length m with
    | none => exact h
    | some top =>
      have hc : (if top = st.store.length then codePolicy.copyShiftOldest else codePolicy.copyShift) = true := by
        split <;> rfl
      simp only [hc]
      exact (hshiftLoop_spec top st h).1

/-- **No sharing, ever.** After any history of caller actions (creating arrays, overwriting them in
    place) and storage calls (set / additive set / get / shift, any indices and depths), no two slots
    share a reference and no slot shares a reference with an array the caller holds. -/
theorem sep_reachable (ops : List HOp) : Sep (hexec codePolicy HState.empty ops) := by
  suffices ∀ st, Sep st → Sep (hexec codePolicy st ops) from
    this _ ⟨by simp [HState.empty], by simp [HState.empty], by simp [HState.empty], by simp [HState.empty]⟩
  induction ops with
  | nil => exact fun _ h => h
  | cons op ops ih => exact fun st h => ih _ (sep_step st op h)

/-- one call on the heap model is the value-level call on the denoted store (array arguments read at
    call time); what the caller does with its own arrays is invisible to the store -/
theorem heap_step_refines (st : HState) (op : HOp) (h : Sep st) :
    match valueOp st op with
    | none => view (hstep codePolicy st op).1 = view st ∧ (hstep codePolicy st op).2 = .ok
    | some vop => view (hstep codePolicy st op).1 = (step (view st) vop).1 ∧
        (hstep codePolicy st op).2 = (step (view st) vop).2 := by
  cases op with
  | new v => exact ⟨(sep_alloc_held st v h).2, rfl⟩
  | mutate k v =>
    simp only [valueOp, hstep]
    cases hk : st.held[k]? with
    | none => exact ⟨rfl, rfl⟩
    | some r =>
      refine ⟨view_congr st _ rfl (fun q hq => ?_), rfl⟩
      have hr : r ∈ st.held := List.mem_of_getElem? hk
      have hne : q ≠ r := fun e => h.2.1 q hq (e ▸ hr)
      simp only [deref, alookup_ainsert, if_neg hne]
  | set i k =>
    simp only [valueOp, hstep]
    cases st.held[k]? with
    | none => exact ⟨rfl, rfl⟩
    | some r => exact ⟨(sep_alloc_store st (deref st r) i h).2, rfl⟩
  | add i k =>
    simp only [valueOp, hstep]
    cases st.held[k]? with
    | none => exact ⟨rfl, rfl⟩
    | some r =>
      simp only [Option.map_some, step, addAt, lookup_view]
      cases hq : alookup st.store i with
      | none => exact ⟨rfl, rfl⟩
      | some q =>
        simp only [Option.map_some]
        refine ⟨?_, trivial⟩
        have := map_update_eq_ainsert (deref st) (vadd (deref st q) (deref st r)) st.store i q h.1 hq
        unfold view insert
        rw [← this]
        apply List.map_congr_left
        intro p _
        simp only [deref, alookup_ainsert]
        split <;> rfl
  | get i =>
    simp only [valueOp, hstep, step, lookup_view]
    cases hq : alookup st.store i with
    | none => exact ⟨rfl, rfl⟩
    | some q => exact ⟨(sep_alloc_held st (deref st q) h).2, rfl⟩
  | shift m =>
    simp only [valueOp, hstep, step, shift, length_view]
    cases shiftStart st.store.length m with
    | none => exact ⟨rfl, rfl⟩
    | some top =>
      have hc : (if top = st.store.length then codePolicy.copyShiftOldest else codePolicy.copyShift) = true := by
        split <;> rfl
      simp only [hc]
      have hl := hshiftLoop_spec top st h
      refine ⟨hl.2.1, ?_⟩
      rw [hl.2.2.1]
      cases (shiftLoop top (view st)).2 <;> rfl

/-- **The value-level model is a faithful abstraction of the code with sharing.** For every history
    on the heap model — including the caller overwriting, at any time, any array it passed in or got
    back — the outputs are those of the immutable model replayed with the array contents at call
    time.  (So the refinement and sliding-window theorems above apply to the model with sharing.) -/
theorem heap_run_refines (ops : List HOp) (st : HState) (h : Sep st) :
    hrun codePolicy st ops = vrun st (view st) ops := by
  induction ops generalizing st with
  | nil => rfl
  | cons op ops ih =>
    have hs := heap_step_refines st op h
    have hsep := sep_step st op h
    simp only [hrun, vrun]
    cases hv : valueOp st op with
    | none =>
      rw [hv] at hs
      simp only [hs.2, ih _ hsep, hs.1]
    | some vop =>
      rw [hv] at hs
      simp only [hs.2, ih _ hsep, hs.1]

/-- no storage call alters an array the caller holds, and the caller keeps what it holds -/
theorem held_stable_step (st : HState) (op : HOp) (h : Sep st) (hm : isMutate op = false) :
    (∀ r ∈ st.held, deref (hstep codePolicy st op).1 r = deref st r) ∧
      (∀ r ∈ st.held, r ∈ (hstep codePolicy st op).1.held) := by
  cases op with
  | new v =>
    refine ⟨fun r hr => deref_alloc_lt st v r (h.2.2.2 r hr), fun r hr => ?_⟩
    simp only [hstep, alloc]
    exact List.mem_append_left _ hr
  | mutate k v => cases hm
  | set i k =>
    simp only [hstep]
    cases st.held[k]? with
    | none => exact ⟨fun _ _ => rfl, fun _ hr => hr⟩
    | some r0 => exact ⟨fun r hr => deref_alloc_lt st _ r (h.2.2.2 r hr), fun _ hr => hr⟩
  | add i k =>
    simp only [hstep]
    cases st.held[k]? with
    | none => exact ⟨fun _ _ => rfl, fun _ hr => hr⟩
    | some r0 =>
      cases hq : alookup st.store i with
      | none => exact ⟨fun _ _ => rfl, fun _ hr => hr⟩
      | some q =>
        refine ⟨fun r hr => ?_, fun _ hr => hr⟩
        have hqs := alookup_mem_vals st.store i q hq
        have hne : r ≠ q := fun e => h.2.1 q hqs (e ▸ hr)
        simp only [deref, alookup_ainsert, if_neg hne]
  | get i =>
    simp only [hstep]
    cases alookup st.store i with
    | none => exact ⟨fun _ _ => rfl, fun _ hr => hr⟩
    | some q =>
      refine ⟨fun r hr => deref_alloc_lt st _ r (h.2.2.2 r hr), fun r hr => ?_⟩
      simp only [copyIf, codePolicy, if_true, alloc]
      exact List.mem_append_left _ hr
  | shift m =>
    simp only [hstep]
    cases shiftStart st.store.length m with
    | none => exact ⟨fun _ _ => rfl, fun _ hr => hr⟩
    | some top =>
      have hc : (if top = st.store.length then codePolicy.copyShiftOldest else codePolicy.copyShift) = true := by
        split <;> rfl
      simp only [hc]
      have hl := hshiftLoop_spec top st h
      exact ⟨fun r hr => hl.2.2.2.2.2 r (h.2.2.2 r hr), fun r hr => by rw [hl.2.2.2.1]; exact hr⟩

/-- **Later writes do not alter what the caller holds**: over any history of storage calls and array
    creations (the caller not overwriting its arrays itself), the contents of every array the caller
    holds — passed in or returned by a read — stay what they were. -/
theorem held_stable (ops : List HOp) (st : HState) (h : Sep st) (hm : ops.all (fun op => !isMutate op) = true)
    (r : Nat) (hr : r ∈ st.held) : deref (hexec codePolicy st ops) r = deref st r := by
  induction ops generalizing st with
  | nil => rfl
  | cons op ops ih =>
    simp only [List.all_cons, Bool.and_eq_true, Bool.not_eq_eq_eq_not, Bool.not_true] at hm
    have hs := held_stable_step st op h hm.1
    simp only [hexec]
    rw [ih _ (sep_step st op h) (by simpa using hm.2) (hs.2 r hr), hs.1 r hr]

/-- **Reads return copies.** `get_solution_values` hands out a fresh reference with the stored
    contents, and no later storage call changes what it contains. -/
theorem get_returns_stable_copy (st : HState) (h : Sep st) (i q : Nat) (hq : alookup st.store i = some q)
    (ops : List HOp) (hm : ops.all (fun op => !isMutate op) = true) :
    (hstep codePolicy st (.get i)).2 = .val (deref st q) ∧
      st.next ∈ (hstep codePolicy st (.get i)).1.held ∧
      st.next ∉ (hstep codePolicy st (.get i)).1.store.map (·.2) ∧
      deref (hexec codePolicy (hstep codePolicy st (.get i)).1 ops) st.next = deref st q := by
  have hsep := sep_step st (.get i) h
  have hmem : st.next ∈ (hstep codePolicy st (.get i)).1.held := by
    simp [hstep, hq, copyIf, codePolicy, alloc]
  refine ⟨by simp [hstep, hq], hmem, fun e => hsep.2.1 _ e hmem, ?_⟩
  rw [held_stable ops _ hsep hm st.next hmem]
  simp only [hstep, hq, copyIf, codePolicy, if_true]
  exact deref_alloc_new st (deref st q)

/-! ### non-vacuity: concrete histories -/

/-- the abstraction relation does not depend on the storage order of the dict -/
example : Repr [(1, [2, 2]), (0, [1, 1])] [[1, 1], [2, 2]] :=
  ⟨by decide, fun i => by
    match i with
    | 0 => rfl
    | 1 => rfl
    | n + 2 => simp [lookup, alookup]⟩

/-- depth 2, three rounds: [v₂, v₁]; index 2 is empty -/
example : run [] (alternation [(2, [1, 10]), (2, [2, 20]), (2, [3, 30])] ++ [.get 0, .get 1, .get 2])
    = [.ok, .ok, .ok, .ok, .ok, .ok, .val [3, 30], .val [2, 20], .err .keyError] := by decide +kernel

example : regular [] (alternation [(2, [1, 10]), (2, [2, 20]), (2, [3, 30])] ++ [.get 0, .get 1, .get 2]) = true := by
  decide +kernel

/-- `window_ith` instance: m = 3, four values, i = 2 -/
example : lookup (exec [] (alternation ([[1, 1], [2, 2], [3, 3], [4, 4]].map (fun v => (3, v))))) 2 = some [2, 2] := by
  decide +kernel

/-- depth reduced to 1 and raised again: the stale value [1] resurfaces at index 2 (not claimed by
    `window_ith_varying`: `Travels` fails for i = 2) -/
example : exec [] (alternation [(3, [1]), (3, [2]), (1, [3]), (3, [4])]) = [(0, [4]), (1, [3]), (2, [1])] := by
  decide +kernel

example : Travels [(3, [4]), (1, [3]), (3, [2]), (3, [1])] 1 := by
  intro j hj
  have : j = 0 := by omega
  subst this
  exact ⟨_, rfl, by decide⟩

/-- Newton pattern: depth 2, v₀ = [1, 1], increments [1/2, 0], [1/4, 1] -/
example : run [] (.set 0 [1, 1] :: alternationAdd 2 [[1/2, 0], [1/4, 1]] ++ [.get 0, .get 1, .add 2 [0, 0]])
    = [.ok, .ok, .ok, .ok, .ok, .val [7/4, 2], .val [3/2, 1], .err .valueError] := by decide +kernel

/-- a store with a hole: shift without depth raises `KeyError` after having copied slot 1 to 2 -/
example : step [(1, [5]), (2, [6])] (.shift none) = ([(1, [5]), (2, [5])], .err .keyError) := by
  decide +kernel

example : (shift [(0, [5]), (2, [6])] none).2 = some .keyError :=
  noncontiguous_shift_errors _ 2 (by decide) (by decide)

/-- … but a bounded shift may repair the hole without an error -/
example : step [(0, [5]), (2, [6])] (.shift (some 2)) = ([(0, [5]), (2, [6]), (1, [5])], .ok) := by
  decide +kernel

/-- data dictionary: both locations written by one call, additive write to the empty time-step slot
    of a second name is rejected but registers the name, negative depth on an unregistered name passes -/
example :
    (cmdSeq [] [.set "p" [1, 2] (some 0) (some 0) false, .shift "p" (some .timeStep) (some 2),
                .set "p" [1, 1] (some 0) none true, .get "p" (some 1) none, .get "p" (some 0) none,
                .shift "q" (some .iterate) (some (-1)), .set "q" [1] (some 0) none true]).2
      = [.ok, .ok, .ok, .val [1, 2], .val [2, 3], .ok, .err .valueError] := by decide +kernel

/-- equation-system wrappers: argument order and duplicates do not matter for set/get; the blocks are
    cut in global order; shifting a variable twice in one call shifts it twice -/
example :
    let lay : Layout := [("a", 2), ("b", 3)]
    let d := touch (touch [] "a") "b"
    let r := esSet lay d [1, 2, 3, 4, 5] ["b", "a", "b"] (some 0) none false
    r.2 = .ok ∧ esGet lay r.1 ["a"] (some 0) none = .val [1, 2] ∧ esGet lay r.1 ["b"] (some 0) none = .val [3, 4, 5] ∧
      esGet lay (esShift r.1 .timeStep none ["a", "a"]).1 ["a", "b"] (some 2) none = .err .keyError ∧
      esGet lay (esShift r.1 .timeStep none ["a", "a"]).1 ["a"] (some 2) none = .val [1, 2] ∧
      (esSet lay d [1, 2, 3, 4] ["a", "b"] (some 0) none false).2 = .err .assertionError := by decide +kernel

/-- a layout read off a C05 state: two variables on one grid with two cells -/
example :
    let e : C05.Env := ⟨[0], [], fun _ => 2, fun _ => 7, fun _ => 6⟩
    let s := C05.run e C05.init [.create 0 [(0, 1)] (some [0]) none, .create 1 [(0, 2)] (some [0]) none]
    layoutOf s = [("0:0", 2), ("0:1", 4)] ∧ ((layoutOf s).map (·.1)).Nodup := by decide +kernel

/-! #### the model with sharing: the code as it is, and the seeded no-copy variants -/

/-- the code as it is: overwrite passed-in and returned arrays, additive write after a growing shift
    on a single stored value — nothing leaks -/
example : hrun codePolicy .empty
    [.new [1, 1], .set 0 0, .mutate 0 [9, 9], .shift (some 2), .new [1/2, 0], .add 0 1, .get 1, .get 0,
     .mutate 2 [7, 7], .mutate 3 [7, 7], .get 1, .get 0]
    = [.ok, .ok, .ok, .ok, .ok, .ok, .val [1, 1], .val [3/2, 1], .ok, .ok, .val [1, 1], .val [3/2, 1]] := by
  decide +kernel

/-- `set` without copy: the slot shares its array with the caller -/
example : ¬ Sep (hexec ⟨false, true, true, true⟩ .empty [.new [1, 1], .set 0 0]) := by decide +kernel
example : hrun ⟨false, true, true, true⟩ .empty [.new [1, 1], .set 0 0, .mutate 0 [9, 9], .get 0]
    = [.ok, .ok, .ok, .val [9, 9]] := by decide +kernel

/-- `get` without copy: the caller can overwrite the store through the array it got back -/
example : ¬ Sep (hexec ⟨true, false, true, true⟩ .empty [.new [1, 1], .set 0 0, .get 0]) := by decide +kernel
example : hrun ⟨true, false, true, true⟩ .empty [.new [1, 1], .set 0 0, .get 0, .mutate 1 [9, 9], .get 0]
    = [.ok, .ok, .val [1, 1], .ok, .val [9, 9]] := by decide +kernel

/-- `shift` without copy: an additive write to index 0 also changes index 1 -/
example : hrun ⟨true, true, false, false⟩ .empty
    [.new [1, 1], .set 0 0, .shift none, .new [1/2, 0], .add 0 1, .get 1]
    = [.ok, .ok, .ok, .ok, .ok, .val [3/2, 1]] := by decide +kernel

/-- the seeded variant (only the oldest array of a growing history is moved by reference): slots 0
    and 1 alias exactly when one value is stored … -/
example : ¬ Sep (hexec ⟨true, true, true, false⟩ .empty [.new [1, 1], .set 0 0, .shift (some 2)]) := by
  decide +kernel
example : hrun ⟨true, true, true, false⟩ .empty
    [.new [1, 1], .set 0 0, .shift (some 2), .new [1/2, 0], .add 0 1, .get 1]
    = [.ok, .ok, .ok, .ok, .ok, .val [3/2, 1]] := by decide +kernel

/-- … with two values stored the next pass of the loop overwrites the shared slot with a copy -/
example : Sep (hexec ⟨true, true, true, false⟩ .empty [.new [1, 1], .set 0 0, .set 1 0, .shift (some 3)]) := by
  decide +kernel

end PorepyVerif.C08
