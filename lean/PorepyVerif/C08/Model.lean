import PorepyVerif.C05.Model
/-
C08 — executable model of the time-step / iterate storage helpers of
`porepy.numerics.ad.ad_utils` (`set_solution_values`, `get_solution_values`,
`shift_solution_values`), core Lean only.

`data[loc][name]` is a Python dict `index ↦ ndarray`.  It is modelled as an association list
`Store = List (Nat × Val)` with first-match lookup and replace-or-append insertion, so that
`len(dict)` (which `shift_solution_values` branches on) is the list length.  A value is a vector
of rationals (every binary64 is a rational).  The data dictionary of a grid is an association list
`(location, name) ↦ Store`; *presence* of a key models `name in data[location]` (the code
distinguishes an absent name from a name with an empty dict in `shift_solution_values`).

The specification side is a plain list (`Window`): slot `i` = the value `i` steps back.
-/
namespace PorepyVerif.C08

abbrev Val := List Rat

/-- `a += b` / `a + b` on equally sized arrays -/
def vadd (a b : Val) : Val := List.zipWith (· + ·) a b

/-! ### association lists = Python dicts -/

/-- `d[k]` (first match); `none` = `KeyError` -/
def alookup [DecidableEq κ] : List (κ × α) → κ → Option α
  | [], _ => none
  | p :: s, k => if p.1 = k then some p.2 else alookup s k

/-- `d[k] = v`: replace in place if present, else append -/
def ainsert [DecidableEq κ] : List (κ × α) → κ → α → List (κ × α)
  | [], k, v => [(k, v)]
  | p :: s, k, v => if p.1 = k then (k, v) :: s else p :: ainsert s k v

abbrev Store := List (Nat × Val)

def lookup (s : Store) (i : Nat) : Option Val := alookup s i
def insert (s : Store) (i : Nat) (v : Val) : Store := ainsert s i v

inductive Err where
  | valueError
  | keyError
  | assertionError
  deriving DecidableEq

/-- observable result of one call -/
inductive Out where
  | ok
  | val (v : Val)
  | err (e : Err)
  deriving DecidableEq

/-! ### one stored history `data[loc][name]` -/

/-- additive write `data[loc][name][i] += v`; `none` = the `ValueError` "No values stored to add to" -/
def addAt (s : Store) (i : Nat) (v : Val) : Option Store :=
  match lookup s i with
  | none => none
  | some old => some (insert s i (vadd old v))

/-- The loop `for i in range(top, 0, -1): d[i] = d[i-1].copy()`.
    Returns the store and `false` if `d[i-1]` raised `KeyError` (the writes made before stay). -/
def shiftLoop : Nat → Store → Store × Bool
  | 0, s => (s, true)
  | i + 1, s =>
    match lookup s i with
    | none => (s, false)
    | some v => shiftLoop i (insert s (i + 1) v)

/-- start of the range chosen by `shift_solution_values` (`none` = `ValueError`, negative `max_index`):
    `max_index is None` → `range(num_stored, 0, -1)`;
    `max_index > num_stored` → `range(num_stored, 0, -1)`; else `range(max_index - 1, 0, -1)`. -/
def shiftStart (numStored : Nat) : Option Int → Option Nat
  | none => some numStored
  | some m =>
    if m < 0 then none
    else if m > (numStored : Int) then some numStored
    else some (m - 1).toNat

/-- `shift_solution_values` on a present `data[loc][name]` -/
def shift (s : Store) (m : Option Int) : Store × Option Err :=
  match shiftStart s.length m with
  | none => (s, some .valueError)
  | some top =>
    let r := shiftLoop top s
    (r.1, if r.2 then none else some .keyError)

inductive Op where
  | set (i : Nat) (v : Val)
  | add (i : Nat) (v : Val)
  | get (i : Nat)
  | shift (m : Option Int)

def step (s : Store) : Op → Store × Out
  | .set i v => (insert s i v, .ok)
  | .add i v =>
    match addAt s i v with
    | none => (s, .err .valueError)
    | some s' => (s', .ok)
  | .get i =>
    match lookup s i with
    | none => (s, .err .keyError)
    | some v => (s, .val v)
  | .shift m =>
    let r := shift s m
    (r.1, match r.2 with | none => .ok | some e => .err e)

/-- final store of a history -/
def exec (s : Store) : List Op → Store
  | [] => s
  | op :: ops => exec (step s op).1 ops

/-- outputs of a history -/
def run (s : Store) : List Op → List Out
  | [] => []
  | op :: ops => (step s op).2 :: run (step s op).1 ops

/-! ### specification: a sliding window (plain list, slot `i` = value `i` steps back) -/

abbrev Window := List Val

/-- write slot `i` (`i ≤ length`; `i = length` appends) -/
def wset : Window → Nat → Val → Window
  | [], _, v => [v]
  | _ :: w, 0, v => v :: w
  | a :: w, i + 1, v => a :: wset w i v

def wadd : Window → Nat → Val → Option Window
  | [], _, _ => none
  | a :: w, 0, v => some (vadd a v :: w)
  | a :: w, i + 1, v => (wadd w i v).map (a :: ·)

/-- shift with depth `m` (`none` = unbounded): the head is duplicated, the first `m` slots are the
    window, slots from `m` on (if any were stored before) stay what they were. -/
def wshift (w : Window) (m : Option Nat) : Window :=
  match w with
  | [] => []
  | a :: _ =>
    match m with
    | none => a :: w
    | some m => (a :: w).take m ++ w.drop m

def wstep (w : Window) : Op → Window × Out
  | .set i v => (wset w i v, .ok)
  | .add i v =>
    match wadd w i v with
    | none => (w, .err .valueError)
    | some w' => (w', .ok)
  | .get i =>
    match w[i]? with
    | none => (w, .err .keyError)
    | some v => (w, .val v)
  | .shift none => (wshift w none, .ok)
  | .shift (some m) => if m < 0 then (w, .err .valueError) else (wshift w (some m.toNat), .ok)

def wexec (w : Window) : List Op → Window
  | [] => w
  | op :: ops => wexec (wstep w op).1 ops

def wrun (w : Window) : List Op → List Out
  | [] => []
  | op :: ops => (wstep w op).2 :: wrun (wstep w op).1 ops

/-- a history never writes beyond the end of the window (no holes are created) -/
def regular : Window → List Op → Bool
  | _, [] => true
  | w, op :: ops =>
    (match op with
     | .set i _ => decide (i ≤ w.length)
     | _ => true) && regular (wstep w op).1 ops

/-- abstraction relation: the dict has distinct keys and holds exactly the window -/
def Repr (s : Store) (w : Window) : Prop :=
  (s.map (·.1)).Nodup ∧ ∀ i, lookup s i = w[i]?

/-- the usage pattern of the models: `shift(max_index = m)` then overwrite index 0 -/
def alternation (hist : List (Nat × Val)) : List Op :=
  hist.flatMap (fun p => [.shift (some (p.1 : Int)), .set 0 p.2])

/-- Slot `i` can only carry the value of round `k - i` if it was never pushed out of the window on
    the way: the `j`-th most recent shift (`j < i`) must have had depth `> i - j`.
    `rev` = the rounds `(depth, value)`, most recent first. -/
def Travels (rev : List (Nat × Val)) (i : Nat) : Prop :=
  ∀ j, j < i → ∃ p, rev[j]? = some p ∧ i - j < p.1

/-- the Newton pattern: `shift(max_index = m)` then additive write at index 0 -/
def alternationAdd (m : Nat) (incs : List Val) : List Op :=
  incs.flatMap (fun d => [.shift (some (m : Int)), .add 0 d])

/-! ### "the i-th most recent value written at index 0", for ANY sequence of calls

`ghost` is the unbounded history of index 0, most recent first: one entry per epoch (an epoch ends
with a shift); overwriting replaces the head, an additive write adds to it, a shift duplicates it.
It does not know about depths. -/

def ghostStep (h : Window) : Op → Window
  | .set i v => if i = 0 then wset h 0 v else h
  | .add i v => if i = 0 then (wadd h 0 v).getD h else h
  | .get _ => h
  | .shift _ => wshift h none

def ghost (h : Window) : List Op → Window
  | [] => h
  | op :: ops => ghost (ghostStep h op) ops

/-- the calls the property speaks of: writes (overwrite or additive) at index 0, reads anywhere,
    shifts with the maximum depth `m` -/
def fixedOp (m : Nat) : Op → Bool
  | .set i _ => i == 0
  | .add i _ => i == 0
  | .get _ => true
  | .shift (some k) => k == (m : Int)
  | .shift none => false

/-! ### the data dictionary: `data[loc][name]`, and the three functions as coded -/

inductive Loc where
  | iterate
  | timeStep
  deriving DecidableEq

abbrev Key := Loc × String
abbrev Data := List (Key × Store)

def dget (d : Data) (k : Key) : Option Store := alookup d k
def dput (d : Data) (k : Key) (s : Store) : Data := ainsert d k s

/-- one index argument of `_validate_indices`: absent, valid (non-negative) or `ValueError` (`none`) -/
def idxPart (loc : Loc) : Option Int → Option (List (Loc × Nat))
  | none => some []
  | some i => if i ≥ 0 then some [(loc, i.toNat)] else none

/-- `_validate_indices`; `none` = `ValueError`. Iterate entry first, then time step entry. -/
def validateIndices (ts it : Option Int) : Option (List (Loc × Nat)) :=
  if ts.isNone && it.isNone then none
  else
    match idxPart .iterate it, idxPart .timeStep ts with
    | some a, some b => some (a ++ b)
    | some _, none => none
    | none, _ => none

/-- loop body of `set_solution_values` over the validated (location, index) pairs.
    `data[loc][name] = {}` is created before the additive check, so it stays after the error. -/
def setLoop (name : String) (v : Val) (additive : Bool) : Data → List (Loc × Nat) → Data × Out
  | d, [] => (d, .ok)
  | d, (loc, i) :: rest =>
    let s := (dget d (loc, name)).getD []
    if additive then
      match lookup s i with
      | none => (dput d (loc, name) s, .err .valueError)
      | some old => setLoop name v additive (dput d (loc, name) (insert s i (vadd old v))) rest
    else setLoop name v additive (dput d (loc, name) (insert s i v)) rest

def setSolutionValues (d : Data) (name : String) (v : Val) (ts it : Option Int) (additive : Bool) :
    Data × Out :=
  match validateIndices ts it with
  | none => (d, .err .valueError)
  | some li => setLoop name v additive d li

def getSolutionValues (d : Data) (name : String) (ts it : Option Int) : Out :=
  match validateIndices ts it with
  | none => .err .valueError
  | some [(loc, i)] =>
    match dget d (loc, name) with
    | none => .err .keyError
    | some s =>
      match lookup s i with
      | none => .err .keyError
      | some v => .val v
  | some _ => .err .valueError

/-- `loc = none` models a location other than the two supported ones (`ValueError`).
    An absent name returns before `max_index` is looked at. -/
def shiftSolutionValues (d : Data) (name : String) (loc : Option Loc) (m : Option Int) : Data × Out :=
  match loc with
  | none => (d, .err .valueError)
  | some loc =>
    match dget d (loc, name) with
    | none => (d, .ok)
    | some s =>
      let r := shift s m
      (dput d (loc, name) r.1, match r.2 with | none => .ok | some e => .err e)

/-- `EquationSystem.create_variables` registers `data[loc][name] = {}` for both locations -/
def touch (d : Data) (name : String) : Data :=
  let d1 := dput d (Loc.timeStep, name) ((dget d (Loc.timeStep, name)).getD [])
  dput d1 (Loc.iterate, name) ((dget d1 (Loc.iterate, name)).getD [])

/-- one call on the data dictionary -/
inductive Cmd where
  | set (name : String) (v : Val) (ts it : Option Int) (additive : Bool)
  | get (name : String) (ts it : Option Int)
  | shift (name : String) (loc : Option Loc) (m : Option Int)

def cmdStep (d : Data) : Cmd → Data × Out
  | .set n v ts it a => setSolutionValues d n v ts it a
  | .get n ts it => (d, getSolutionValues d n ts it)
  | .shift n loc m => shiftSolutionValues d n loc m

/-- The equation-system wrappers loop over variables and call the helpers one after the other;
    an exception ends the loop, the calls already made stay.  Returns the outputs up to and
    including the first error. -/
def cmdSeq : Data → List Cmd → Data × List Out
  | d, [] => (d, [])
  | d, c :: cs =>
    let r := cmdStep d c
    match r.2 with
    | .err e => (r.1, [.err e])
    | o =>
      let r' := cmdSeq r.1 cs
      (r'.1, o :: r'.2)

/-! ### neighbouring entry points on the same storage: time-dependent boundary values

`BoundaryConditionMixin.update_boundary_condition` (models/boundary_condition.py) pushes the current
iterate value into the time-step history of a quantity stored on a boundary grid;
`SolutionStrategy._revert_time_dependent_boundary_values` (models/solution_strategy.py) undoes that
push for a rejected time step: an *un-shift* written directly on the dict.  The model follows the
REPAIRED un-shift (known finding `revert-unshift-with-holes`): the entry-by-entry loop of the
current code raises `KeyError` half-way on a store with holes and leaves two slots sharing an array. -/

/-- the un-shift `{i - 1: val for i, val in stored.items() if i > 0}` (the dict is rebuilt, see
    fixes/C08-revert-unshift-with-holes.diff): every index moves down by one, index 0 is dropped.
    Total: no contiguity is needed and nothing raises. -/
def unshift : Store → Store
  | [] => []
  | p :: s => if 0 < p.1 then (p.1 - 1, p.2) :: unshift s else unshift s

/-- body of the loop of `_revert_time_dependent_boundary_values` for one stored quantity -/
def revertOne (d : Data) (name : String) : Data × Out :=
  match dget d (Loc.iterate, name), dget d (Loc.timeStep, name) with
  | some _, some s =>
    match lookup s 0 with
    | none => (d, .ok)
    | some v0 =>
      let r1 := setSolutionValues d name v0 none (some 0) false
      (dput r1.1 (Loc.timeStep, name) (unshift s), .ok)
  | _, _ => (d, .ok)

def revertLoop : Data → List String → Data × Out
  | d, [] => (d, .ok)
  | d, n :: rest =>
    let r := revertOne d n
    match r.2 with
    | .err e => (r.1, .err e)
    | _ => revertLoop r.1 rest

/-- `_revert_time_dependent_boundary_values` on one boundary data dictionary: all quantities with
    time-step storage, in dict order -/
def bcRevert (d : Data) : Data × Out :=
  revertLoop d (d.filterMap (fun p => if p.1.1 = Loc.timeStep then some p.1.2 else none))

/-- `update_boundary_condition` on one boundary data dictionary; `vals` = `function(bg)`,
    `m` = `len(self.time_step_indices)` -/
def bcUpdate (d : Data) (name : String) (vals : Val) (m : Nat) : Data × Out :=
  let cur : Out :=
    match dget d (Loc.iterate, name) with
    | some _ => getSolutionValues d name none (some 0)
    | none => .val vals
  match cur with
  | .val v0 =>
    let r1 := shiftSolutionValues d name (some Loc.timeStep) (some (m : Int))
    match r1.2 with
    | .err e => (r1.1, .err e)
    | _ =>
      let r2 := setSolutionValues r1.1 name v0 (some 0) none false
      match r2.2 with
      | .err e => (r2.1, .err e)
      | _ => setSolutionValues r2.1 name vals none (some 0) false
  | .err e => (d, .err e)
  | .ok => (d, .ok)

/-! ### the equation-system wrappers (`set_variable_values`, `get_variable_values`,
`shift_time_step_values`, `shift_iterate_values`)

The wrappers see the degrees of freedom as the blocks of `_variable_numbers` in dict order; a block is
(storage name of the variable, number of dofs).  `layoutOf` reads this list off a state of the C05
model of the same class (C05 proves what that layout is); the definitions and theorems below hold
for any layout.  `sel` = the names `_parse_variable_type` produced. -/

abbrev Layout := List (String × Nat)

/-- the loop of `set_variable_values`: `local_vec = values[dof_start:dof_end]` for every selected block
    in global order (python slices truncate silently); an exception of the helper ends the loop.
    Returns the data, the outcome and the final `dof_end`. -/
def esSetLoop (sel : List String) (ts it : Option Int) (additive : Bool) (values : Val) :
    Data → Nat → Layout → Data × Out × Nat
  | d, start, [] => (d, .ok, start)
  | d, start, b :: rest =>
    if b.1 ∈ sel then
      let r := setSolutionValues d b.1 ((values.drop start).take b.2) ts it additive
      match r.2 with
      | .err e => (r.1, .err e, start + b.2)
      | _ => esSetLoop sel ts it additive values r.1 (start + b.2) rest
    else esSetLoop sel ts it additive values d start rest

/-- `set_variable_values`, incl. the final `assert dof_end == values.size` (after the writes) -/
def esSet (lay : Layout) (d : Data) (values : Val) (sel : List String) (ts it : Option Int)
    (additive : Bool) : Data × Out :=
  let r := esSetLoop sel ts it additive values d 0 lay
  match r.2.1 with
  | .err e => (r.1, .err e)
  | _ => (r.1, if r.2.2 = values.length then .ok else .err .assertionError)

/-- `get_variable_values`: concatenation of the selected blocks in global order; the first failing
    helper call decides the exception -/
def esGetLoop (sel : List String) (ts it : Option Int) (d : Data) : Layout → Out
  | [] => .val []
  | b :: rest =>
    if b.1 ∈ sel then
      match getSolutionValues d b.1 ts it with
      | .val x =>
        match esGetLoop sel ts it d rest with
        | .val l => .val (x ++ l)
        | o => o
      | o => o
    else esGetLoop sel ts it d rest

def esGet (lay : Layout) (d : Data) (sel : List String) (ts it : Option Int) : Out :=
  esGetLoop sel ts it d lay

/-- `shift_time_step_values` / `shift_iterate_values`: one helper call per parsed variable, in
    argument order, duplicates included -/
def esShift (d : Data) (loc : Loc) (m : Option Int) : List String → Data × Out
  | [] => (d, .ok)
  | n :: rest =>
    let r := shiftSolutionValues d n (some loc) m
    match r.2 with
    | .err e => (r.1, .err e)
    | _ => esShift r.1 loc m rest

/-- total size of the selected blocks -/
def selSize (sel : List String) : Layout → Nat
  | [] => 0
  | b :: rest => (if b.1 ∈ sel then b.2 else 0) + selSize sel rest

/-- offset of the block of `name` inside the vector of the selected blocks (`none`: not selected) -/
def blockOffset (sel : List String) (name : String) : Layout → Option Nat
  | [] => none
  | b :: rest =>
    if b.1 ∈ sel then
      if b.1 = name then some 0 else (blockOffset sel name rest).map (· + b.2)
    else blockOffset sel name rest

/-- one stored slot of the data dictionary -/
def slotOf (d : Data) (loc : Loc) (name : String) (i : Nat) : Option Val :=
  (dget d (loc, name)).bind (fun s => lookup s i)

/-- the two index arguments that address index `i` of location `loc` -/
def tsArg (loc : Loc) (i : Nat) : Option Int := if loc = .timeStep then some (i : Int) else none
def itArg (loc : Loc) (i : Nat) : Option Int := if loc = .iterate then some (i : Int) else none

/-- storage name of a C05 variable: one data dictionary per grid, one entry per variable name -/
def c05Name (v : C05.Var) : String := toString v.grid ++ ":" ++ toString v.name

/-- the blocks of a C05 equation-system state, in the dict order of `_variable_numbers` -/
def layoutOf (s : C05.State) : Layout :=
  s.numbers.filterMap (fun p => (C05.findVar s.vars p.1).map (fun v => (c05Name v, s.sizes.getD p.2 0)))

/-! ### a model WITH sharing: references, a heap, and the code's copy decisions made explicit

The value-level model above cannot express aliasing.  Here `data[loc][name]` maps an index to a
*reference*; array contents live in a heap; the caller holds references too (arrays it passed in
or got back) and may overwrite them in place.  `Policy` records, statement by statement, whether the
code copies (`codePolicy` = the code as it is; other policies are the seeded no-copy variants). -/

structure Policy where
  /-- `data[loc][name][index] = values.copy()` -/
  copySet : Bool
  /-- `value = data[loc][name][index].copy()` -/
  copyGet : Bool
  /-- `data[location][name][i] = data[location][name][i - 1].copy()` -/
  copyShift : Bool
  /-- the same statement in the first pass of the loop when the history grows (oldest array) -/
  copyShiftOldest : Bool

def codePolicy : Policy := ⟨true, true, true, true⟩

structure HState where
  /-- heap: reference ↦ array contents -/
  cells : List (Nat × Val)
  /-- next fresh reference -/
  next : Nat
  /-- `data[loc][name]`: index ↦ reference -/
  store : List (Nat × Nat)
  /-- references the caller holds, in the order it obtained them -/
  held : List Nat

def HState.empty : HState := ⟨[], 0, [], []⟩

def deref (st : HState) (r : Nat) : Val := (alookup st.cells r).getD []

def alloc (st : HState) (v : Val) : HState × Nat :=
  ({ st with cells := ainsert st.cells st.next v, next := st.next + 1 }, st.next)

/-- `x.copy()` if the code copies at this place, `x` itself otherwise -/
def copyIf (c : Bool) (st : HState) (r : Nat) : HState × Nat :=
  if c then alloc st (deref st r) else (st, r)

inductive HOp where
  /-- the caller creates an array -/
  | new (v : Val)
  /-- the caller overwrites the `k`-th array it holds in place (`arr[...] = v`) -/
  | mutate (k : Nat) (v : Val)
  /-- `set_solution_values(values = k-th held array, index i)` -/
  | set (i k : Nat)
  /-- the same with `additive=True` (`+=` in place) -/
  | add (i k : Nat)
  /-- `get_solution_values(index i)`; the caller holds the result afterwards -/
  | get (i : Nat)
  | shift (m : Option Int)

/-- the loop of `shift_solution_values` on references; `c` = copy decision of the current pass -/
def hshiftLoop (pol : Policy) : Bool → Nat → HState → HState × Bool
  | _, 0, st => (st, true)
  | c, i + 1, st =>
    match alookup st.store i with
    | none => (st, false)
    | some q =>
      let r := copyIf c st q
      hshiftLoop pol pol.copyShift i { r.1 with store := ainsert r.1.store (i + 1) r.2 }

def hstep (pol : Policy) (st : HState) : HOp → HState × Out
  | .new v =>
    let r := alloc st v
    ({ r.1 with held := r.1.held ++ [r.2] }, .ok)
  | .mutate k v =>
    match st.held[k]? with
    | none => (st, .ok)
    | some r => ({ st with cells := ainsert st.cells r v }, .ok)
  | .set i k =>
    match st.held[k]? with
    | none => (st, .ok)
    | some r =>
      let c := copyIf pol.copySet st r
      ({ c.1 with store := ainsert c.1.store i c.2 }, .ok)
  | .add i k =>
    match st.held[k]? with
    | none => (st, .ok)
    | some r =>
      match alookup st.store i with
      | none => (st, .err .valueError)
      | some q => ({ st with cells := ainsert st.cells q (vadd (deref st q) (deref st r)) }, .ok)
  | .get i =>
    match alookup st.store i with
    | none => (st, .err .keyError)
    | some q =>
      let c := copyIf pol.copyGet st q
      ({ c.1 with held := c.1.held ++ [c.2] }, .val (deref st q))
  | .shift m =>
    match shiftStart st.store.length m with
    | none => (st, .err .valueError)
    | some top =>
      let r := hshiftLoop pol (if top = st.store.length then pol.copyShiftOldest else pol.copyShift) top st
      (r.1, if r.2 then .ok else .err .keyError)

def hexec (pol : Policy) : HState → List HOp → HState
  | st, [] => st
  | st, op :: ops => hexec pol (hstep pol st op).1 ops

def hrun (pol : Policy) : HState → List HOp → List Out
  | _, [] => []
  | st, op :: ops => (hstep pol st op).2 :: hrun pol (hstep pol st op).1 ops

/-- **Separation**: no two slots share a reference, no slot shares a reference with an array the
    caller holds, and every reference in use has been allocated. -/
def Sep (st : HState) : Prop :=
  (st.store.map (·.2)).Nodup ∧ (∀ r ∈ st.store.map (·.2), r ∉ st.held) ∧
    (∀ r ∈ st.store.map (·.2), r < st.next) ∧ (∀ r ∈ st.held, r < st.next)

instance (st : HState) : Decidable (Sep st) := by unfold Sep; infer_instance

/-- the value-level store a heap state denotes -/
def view (st : HState) : Store := st.store.map (fun p => (p.1, deref st p.2))

/-- the value-level call a heap-level call amounts to (array contents taken at call time);
    `none`: the caller's own business (`new`, `mutate`, or an array it does not hold) -/
def valueOp (st : HState) : HOp → Option Op
  | .new _ => none
  | .mutate _ _ => none
  | .set i k => (st.held[k]?).map (fun r => .set i (deref st r))
  | .add i k => (st.held[k]?).map (fun r => .add i (deref st r))
  | .get i => some (.get i)
  | .shift m => some (.shift m)

/-- replay of a heap-level history on the value-level model -/
def vrun : HState → Store → List HOp → List Out
  | _, _, [] => []
  | st, s, op :: ops =>
    match valueOp st op with
    | none => .ok :: vrun (hstep codePolicy st op).1 s ops
    | some vop => (step s vop).2 :: vrun (hstep codePolicy st op).1 (step s vop).1 ops

def isMutate : HOp → Bool
  | .mutate _ _ => true
  | _ => false

end PorepyVerif.C08
