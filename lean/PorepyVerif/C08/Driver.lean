/- C08 line-protocol driver: `lake env lean --run PorepyVerif/C08/Driver.lean`

state: one data dictionary (`Data`).  Ops
  {"op":"set","name":s,"values":[q..],"ts":int|null,"it":int|null,"additive":bool}  → "ok" | {"err":k}
  {"op":"get","name":s,"ts":..,"it":..}                                             → {"val":[q..]} | {"err":k}
  {"op":"shift","name":s,"loc":s,"max":int|null}                                    → "ok" | {"err":k}
  {"op":"touch","name":s}     (create_variables registers empty dicts)              → "ok"
  {"op":"seq","ops":[set/get/shift ...]}  (equation-system wrapper: stop at first error) → {"outs":[...]}
  {"op":"dump"}               → [{"loc":s,"name":s,"entries":[[i,[q..]],..]},..]  (storage order; the harness sorts)
-/
import PorepyVerif.Common.Wire
import PorepyVerif.C08.Model
open Lean PV PorepyVerif.C08

def fOptInt (j : Json) (k : String) : R (Option Int) := jOpt jInt (fieldD j k Json.null)

def locOfString (s : String) : Option Loc :=
  if s == "time_step_solutions" then some .timeStep
  else if s == "iterate_solutions" then some .iterate
  else none

def locToString : Loc → String
  | .timeStep => "time_step_solutions"
  | .iterate => "iterate_solutions"

def errToString : Err → String
  | .valueError => "ValueError"
  | .keyError => "KeyError"

def outToJson : Out → Json
  | .ok => Json.str "ok"
  | .val v => obj [("val", ofRats v)]
  | .err e => err (errToString e)

def parseCmd (j : Json) : R Cmd := do
  let op ← fStr j "op"
  let name ← fStr j "name"
  match op with
  | "set" =>
    let v ← fRats j "values"
    let ts ← fOptInt j "ts"
    let it ← fOptInt j "it"
    let a ← fBool j "additive"
    pure (.set name v ts it a)
  | "get" =>
    let ts ← fOptInt j "ts"
    let it ← fOptInt j "it"
    pure (.get name ts it)
  | "shift" =>
    let loc ← fStr j "loc"
    let m ← fOptInt j "max"
    pure (.shift name (locOfString loc) m)
  | _ => throw s!"unknown command {op}"

def dumpJson (d : Data) : Json :=
  ofList (fun (p : Key × Store) =>
    obj [("loc", Json.str (locToString p.1.1)), ("name", Json.str p.1.2),
         ("entries", ofList (fun (e : Nat × Val) => Json.arr #[ofNat e.1, ofRats e.2]) p.2)]) d

def stepD (d : Data) (j : Json) : R (Data × Json) := do
  let op ← fStr j "op"
  match op with
  | "touch" =>
    let name ← fStr j "name"
    pure (touch d name, Json.str "ok")
  | "seq" =>
    let cs ← (field j "ops" >>= jList parseCmd)
    let r := cmdSeq d cs
    pure (r.1, obj [("outs", ofList outToJson r.2)])
  | "dump" => pure (d, dumpJson d)
  | _ =>
    let c ← parseCmd j
    let r := cmdStep d c
    pure (r.1, outToJson r.2)

def main : IO Unit := runDriver ([] : Data) stepD
