/- C08 line-protocol driver: `lake env lean --run PorepyVerif/C08/Driver.lean`

state: one data dictionary (`Data`).  Ops
  {"op":"set","name":s,"values":[q..],"ts":int|null,"it":int|null,"additive":bool}  → "ok" | {"err":k}
  {"op":"get","name":s,"ts":..,"it":..}                                             → {"val":[q..]} | {"err":k}
  {"op":"shift","name":s,"loc":s,"max":int|null}                                    → "ok" | {"err":k}
  {"op":"touch","name":s}     (create_variables registers empty dicts)              → "ok"
  {"op":"seq","ops":[set/get/shift ...]}  (equation-system wrapper: stop at first error) → {"outs":[...]}
  {"op":"layout","blocks":[[name,size],..]}  blocks of `_variable_numbers` in global order; registers the names → "ok"
  {"op":"es_set","sel":[names],"values":[q..],"ts":..,"it":..,"additive":bool}  set_variable_values → "ok" | {"err":k}
  {"op":"es_get","sel":[names],"ts":..,"it":..}                                 get_variable_values → {"val":[q..]} | {"err":k}
  {"op":"es_shift","sel":[names in argument order],"loc":s,"max":int|null}      shift_*_values      → "ok" | {"err":k}
  {"op":"bc_update","name":s,"values":[q..],"depth":n}  update_boundary_condition on the boundary data → "ok" | {"err":k}
  {"op":"bc_revert"}                                   _revert_time_dependent_boundary_values         → "ok" | {"err":k}
  set/get/shift with "bd":true act on the boundary data dictionary
  {"op":"dump"}               → {"main":[..],"bd":[..]} with entries [{"loc":s,"name":s,"entries":[[i,[q..]],..]},..]  (storage order; the harness sorts)
-/
import PorepyVerif.Common.Wire
import PorepyVerif.C08.Model
open Lean PV PorepyVerif.C08

def fOptInt (j : Json) (k : String) : R (Option Int) := jOpt jInt (fieldD j k Json.null)

def locOfString (s : String) : Option Loc :=
  if s == "time_step_solutions" then some .timeStep
  else if s == "iterate_solutions" then some .iterate
  else none

def locToString : Loc → String
  | .timeStep => "time_step_solutions"
  | .iterate => "iterate_solutions"

def errToString : Err → String
  | .valueError => "ValueError"
  | .keyError => "KeyError"
  | .assertionError => "AssertionError"

def outToJson : Out → Json
  | .ok => Json.str "ok"
  | .val v => obj [("val", ofRats v)]
  | .err e => err (errToString e)

def parseCmd (j : Json) : R Cmd := do
  let op ← fStr j "op"
  let name ← fStr j "name"
  match op with
  | "set" =>
    let v ← fRats j "values"
    let ts ← fOptInt j "ts"
    let it ← fOptInt j "it"
    let a ← fBool j "additive"
    pure (.set name v ts it a)
  | "get" =>
    let ts ← fOptInt j "ts"
    let it ← fOptInt j "it"
    pure (.get name ts it)
  | "shift" =>
    let loc ← fStr j "loc"
    let m ← fOptInt j "max"
    pure (.shift name (locOfString loc) m)
  | _ => throw s!"unknown command {op}"

def dumpJson (d : Data) : Json :=
  ofList (fun (p : Key × Store) =>
    obj [("loc", Json.str (locToString p.1.1)), ("name", Json.str p.1.2),
         ("entries", ofList (fun (e : Nat × Val) => Json.arr #[ofNat e.1, ofRats e.2]) p.2)]) d

def jBlock (j : Json) : R (String × Nat) :=
  match j with
  | .arr #[a, b] => do
    let n ← jStr a
    let k ← jNat b
    pure (n, k)
  | _ => throw s!"not a block: {j.compress}"

/-- state: data dictionary of the subdomain, layout of the equation system, data dictionary of the
    boundary grid (ops with `"bd":true`, `bc_update`, `bc_revert` act on the latter) -/
structure St where
  d : Data
  lay : Layout
  bd : Data

def onBd (j : Json) : Bool :=
  match fieldD j "bd" (Json.bool false) with
  | .bool b => b
  | _ => false

def stepD (st : St) (j : Json) : R (St × Json) := do
  let d := st.d
  let lay := st.lay
  let op ← fStr j "op"
  match op with
  | "touch" =>
    let name ← fStr j "name"
    pure ({ st with d := touch d name }, Json.str "ok")
  | "layout" =>
    let bs ← (field j "blocks" >>= jList jBlock)
    pure ({ st with d := bs.foldl (fun acc b => touch acc b.1) d, lay := bs }, Json.str "ok")
  | "es_set" =>
    let sel ← (field j "sel" >>= jList jStr)
    let v ← fRats j "values"
    let ts ← fOptInt j "ts"
    let it ← fOptInt j "it"
    let a ← fBool j "additive"
    let r := esSet lay d v sel ts it a
    pure ({ st with d := r.1 }, outToJson r.2)
  | "es_get" =>
    let sel ← (field j "sel" >>= jList jStr)
    let ts ← fOptInt j "ts"
    let it ← fOptInt j "it"
    pure (st, outToJson (esGet lay d sel ts it))
  | "es_shift" =>
    let sel ← (field j "sel" >>= jList jStr)
    let loc ← fStr j "loc"
    let m ← fOptInt j "max"
    match locOfString loc with
    | none => throw s!"es_shift: location {loc}"
    | some l =>
      let r := esShift d l m sel
      pure ({ st with d := r.1 }, outToJson r.2)
  | "bc_update" =>
    let name ← fStr j "name"
    let v ← fRats j "values"
    let m ← fNat j "depth"
    let r := bcUpdate st.bd name v m
    pure ({ st with bd := r.1 }, outToJson r.2)
  | "bc_revert" =>
    let r := bcRevert st.bd
    pure ({ st with bd := r.1 }, outToJson r.2)
  | "seq" =>
    let cs ← (field j "ops" >>= jList parseCmd)
    let r := cmdSeq d cs
    pure ({ st with d := r.1 }, obj [("outs", ofList outToJson r.2)])
  | "dump" => pure (st, obj [("main", dumpJson d), ("bd", dumpJson st.bd)])
  | _ =>
    let c ← parseCmd j
    if onBd j then
      let r := cmdStep st.bd c
      pure ({ st with bd := r.1 }, outToJson r.2)
    else
      let r := cmdStep d c
      pure ({ st with d := r.1 }, outToJson r.2)

def main : IO Unit := runDriver (⟨[], [], []⟩ : St) stepD
