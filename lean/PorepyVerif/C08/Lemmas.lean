/-
C08 — helper lemmas (property theorems are in Props.lean).
-/
import PorepyVerif.C08.Model

namespace PorepyVerif.C08

/-! ### association lists -/

section assoc
variable {κ : Type} {α : Type} [DecidableEq κ]

theorem alookup_ainsert (s : List (κ × α)) (k j : κ) (v : α) :
    alookup (ainsert s k v) j = if j = k then some v else alookup s j := by
  induction s with
  | nil =>
    by_cases h : j = k
    · subst h; simp [ainsert, alookup]
    · have h' : ¬ k = j := fun e => h e.symm
      simp [ainsert, alookup, h, h']
  | cons p s ih =>
    unfold ainsert
    by_cases hp : p.1 = k
    · rw [if_pos hp]
      by_cases h : j = k
      · subst h; simp [alookup]
      · have h' : ¬ k = j := fun e => h e.symm
        have h'' : ¬ p.1 = j := fun e => h (e.symm.trans hp)
        simp [alookup, h, h', h'']
    · rw [if_neg hp]
      by_cases hj : p.1 = j
      · have h : ¬ j = k := fun e => hp (hj.trans e)
        simp [alookup, hj, h]
      · simp only [alookup, if_neg hj, ih]

theorem mem_keys_ainsert (s : List (κ × α)) (k j : κ) (v : α) :
    j ∈ (ainsert s k v).map (·.1) ↔ j = k ∨ j ∈ s.map (·.1) := by
  induction s with
  | nil => simp [ainsert]
  | cons p s ih =>
    unfold ainsert
    by_cases hp : p.1 = k
    · rw [if_pos hp]
      simp only [List.map_cons, List.mem_cons]
      constructor
      · rintro (h | h)
        · exact Or.inl h
        · exact Or.inr (Or.inr h)
      · rintro (h | h | h)
        · exact Or.inl h
        · exact Or.inl (h.trans hp)
        · exact Or.inr h
    · rw [if_neg hp]
      simp only [List.map_cons, List.mem_cons, ih]
      constructor
      · rintro (h | h | h)
        · exact Or.inr (Or.inl h)
        · exact Or.inl h
        · exact Or.inr (Or.inr h)
      · rintro (h | h | h)
        · exact Or.inr (Or.inl h)
        · exact Or.inl h
        · exact Or.inr (Or.inr h)

theorem nodup_keys_ainsert (s : List (κ × α)) (k : κ) (v : α) (h : (s.map (·.1)).Nodup) :
    ((ainsert s k v).map (·.1)).Nodup := by
  induction s with
  | nil => simp [ainsert]
  | cons p s ih =>
    have hn := List.nodup_cons.mp h
    unfold ainsert
    by_cases hp : p.1 = k
    · rw [if_pos hp]
      simp only [List.map_cons]
      refine List.nodup_cons.mpr ⟨?_, hn.2⟩
      rw [← hp]; exact hn.1
    · rw [if_neg hp]
      simp only [List.map_cons]
      refine List.nodup_cons.mpr ⟨?_, ih hn.2⟩
      rw [mem_keys_ainsert]
      rintro (h' | h')
      · exact hp h'
      · exact hn.1 h'

theorem mem_keys_iff (s : List (κ × α)) (k : κ) :
    k ∈ s.map (·.1) ↔ (alookup s k).isSome = true := by
  induction s with
  | nil => simp [alookup]
  | cons p s ih =>
    by_cases hp : p.1 = k
    · simp [alookup, hp]
    · have hp' : ¬ k = p.1 := fun e => hp e.symm
      simp only [List.map_cons, List.mem_cons, alookup, if_neg hp, ← ih]
      constructor
      · rintro (h | h)
        · exact absurd h hp'
        · exact h
      · exact Or.inr

theorem length_ainsert (s : List (κ × α)) (k : κ) (v : α) :
    (ainsert s k v).length = if (alookup s k).isSome then s.length else s.length + 1 := by
  induction s with
  | nil => simp [ainsert, alookup]
  | cons p s ih =>
    unfold ainsert
    by_cases hp : p.1 = k
    · simp [alookup, hp]
    · simp only [if_neg hp, List.length_cons, ih, alookup]
      split <;> rfl

end assoc

/-- induction from the end of a list (histories grow at the end) -/
theorem list_reverse_induction {α : Type} {motive : List α → Prop} (nil : motive [])
    (snoc : ∀ l a, motive l → motive (l ++ [a])) : ∀ l, motive l := by
  intro l
  have h : ∀ r : List α, motive r.reverse := by
    intro r
    induction r with
    | nil => exact nil
    | cons a r ih => simpa using snoc _ a ih
  simpa using h l.reverse

/-! ### stores -/

theorem lookup_insert (s : Store) (i j : Nat) (v : Val) :
    lookup (insert s i v) j = if j = i then some v else lookup s j :=
  alookup_ainsert s i j v

theorem lookup_insert_self (s : Store) (i : Nat) (v : Val) : lookup (insert s i v) i = some v := by
  rw [lookup_insert, if_pos rfl]

theorem lookup_insert_ne (s : Store) (i j : Nat) (v : Val) (h : j ≠ i) :
    lookup (insert s i v) j = lookup s j := by
  rw [lookup_insert, if_neg h]

theorem nodup_insert (s : Store) (i : Nat) (v : Val) (h : (s.map (·.1)).Nodup) :
    ((insert s i v).map (·.1)).Nodup := nodup_keys_ainsert s i v h

/-- pigeonhole: a dict whose keys are exactly `0 .. n-1` has `n` entries -/
theorem length_of_keys (s : Store) (n : Nat) (hnd : (s.map (·.1)).Nodup)
    (hk : ∀ i, (lookup s i).isSome = true ↔ i < n) : s.length = n := by
  have hperm : (s.map (·.1)).Perm (List.range n) := by
    rw [List.perm_ext_iff_of_nodup hnd List.nodup_range]
    intro a
    rw [mem_keys_iff, List.mem_range]
    exact hk a
  have := hperm.length_eq
  simpa using this

theorem repr_length {s : Store} {w : Window} (h : Repr s w) : s.length = w.length := by
  refine length_of_keys s w.length h.1 (fun i => ?_)
  rw [h.2 i]
  by_cases hi : i < w.length
  · simp [hi]
  · simp [hi]

theorem repr_nil : Repr [] [] := by
  refine ⟨by simp, fun i => ?_⟩
  simp [lookup, alookup]

/-! ### window operations, index-wise -/

theorem getElem?_wset (w : Window) (i j : Nat) (v : Val) (hi : i ≤ w.length) :
    (wset w i v)[j]? = if j = i then some v else w[j]? := by
  induction w generalizing i j with
  | nil =>
    have : i = 0 := by simpa using hi
    subst this
    cases j <;> simp [wset]
  | cons a w ih =>
    cases i with
    | zero => cases j <;> simp [wset]
    | succ i =>
      cases j with
      | zero => simp [wset]
      | succ j =>
        have := ih i j (by simpa using hi)
        simp only [wset, List.getElem?_cons_succ, this]
        by_cases h : j = i
        · simp [h]
        · simp [h]

theorem length_wset (w : Window) (i : Nat) (v : Val) (hi : i ≤ w.length) :
    (wset w i v).length = if i < w.length then w.length else w.length + 1 := by
  induction w generalizing i with
  | nil => simp [wset]
  | cons a w ih =>
    cases i with
    | zero => simp [wset]
    | succ i =>
      have := ih i (by simpa using hi)
      simp only [wset, List.length_cons, this]
      by_cases h : i < w.length
      · simp [h]
      · simp [h]

theorem wadd_eq (w : Window) (i : Nat) (v : Val) :
    wadd w i v = (w[i]?).map (fun a => wset w i (vadd a v)) := by
  induction w generalizing i with
  | nil => simp [wadd]
  | cons a w ih =>
    cases i with
    | zero => simp [wadd, wset]
    | succ i =>
      simp only [wadd, ih, List.getElem?_cons_succ, Option.map_map]
      cases w[i]? <;> simp [wset]

theorem getElem?_wshift_none (a : Val) (w : Window) (j : Nat) :
    (wshift (a :: w) none)[j]? = if j = 0 then some a else (a :: w)[j - 1]? := by
  cases j <;> simp [wshift]

/-- index-wise description of a bounded shift of a non-empty window -/
theorem getElem?_wshift_some (a : Val) (w : Window) (m j : Nat) :
    (wshift (a :: w) (some m))[j]? =
      if j = 0 then some a else if j < m then (a :: w)[j - 1]? else (a :: w)[j]? := by
  simp only [wshift]
  by_cases hjm : j < m
  · by_cases hlen : j < (a :: a :: w).length
    · have hlen' : j < w.length + 1 + 1 := by simpa using hlen
      rw [List.getElem?_append_left (by simp only [List.length_take, List.length_cons]; omega)]
      rw [List.getElem?_take_of_lt hjm]
      cases j with
      | zero => simp
      | succ j => simp [hjm]
    · -- beyond everything
      have h1 : ((a :: a :: w).take m ++ (a :: w).drop m)[j]? = none := by
        rw [List.getElem?_eq_none_iff]
        simp only [List.length_append, List.length_take, List.length_drop, List.length_cons] at *
        omega
      rw [h1]
      cases j with
      | zero => simp at hlen
      | succ j =>
        simp only [List.length_cons] at hlen
        have : (a :: w)[j]? = none := by
          rw [List.getElem?_eq_none_iff]; simp only [List.length_cons]; omega
        simp [hjm, this]
  · have hmj : m ≤ j := Nat.le_of_not_lt hjm
    by_cases hmlen : m ≤ (a :: w).length
    · have hl : ((a :: a :: w).take m).length = m := by
        simp only [List.length_take, List.length_cons] at *; omega
      rw [List.getElem?_append_right (by omega), hl, List.getElem?_drop]
      have : m + (j - m) = j := by omega
      rw [this]
      cases j with
      | zero =>
        have : m = 0 := by omega
        subst this; simp
      | succ j => simp [hjm]
    · -- m > length: everything is taken, nothing dropped, and j ≥ m is out of range
      have h1 : ((a :: a :: w).take m ++ (a :: w).drop m)[j]? = none := by
        rw [List.getElem?_eq_none_iff]
        simp only [List.length_append, List.length_take, List.length_drop, List.length_cons] at *
        omega
      have h2 : (a :: w)[j]? = none := by
        rw [List.getElem?_eq_none_iff]; simp only [List.length_cons] at *; omega
      rw [h1, h2]
      cases j with
      | zero => simp only [List.length_cons] at hmlen; omega
      | succ j => simp [hjm]

/-! ### the shift loop -/

theorem shiftLoop_nodup (top : Nat) (s : Store) (h : (s.map (·.1)).Nodup) :
    (((shiftLoop top s).1).map (·.1)).Nodup := by
  induction top generalizing s with
  | zero => exact h
  | succ i ih =>
    unfold shiftLoop
    cases hl : lookup s i with
    | none => exact h
    | some v => exact ih _ (nodup_insert s (i + 1) v h)

/-- the loop succeeds iff every slot it reads is present in the ORIGINAL store -/
theorem shiftLoop_ok_iff (top : Nat) (s : Store) :
    (shiftLoop top s).2 = true ↔ ∀ j, j < top → (lookup s j).isSome = true := by
  induction top generalizing s with
  | zero => simp [shiftLoop]
  | succ i ih =>
    unfold shiftLoop
    cases hl : lookup s i with
    | none =>
      simp only [Bool.false_eq_true, false_iff]
      intro hall
      have := hall i (Nat.lt_succ_self i)
      simp [hl] at this
    | some v =>
      simp only [ih]
      constructor
      · intro hall j hj
        by_cases hji : j = i
        · subst hji; simp [hl]
        · have := hall j (by omega)
          rwa [lookup_insert_ne _ _ _ _ (by omega)] at this
      · intro hall j hj
        rw [lookup_insert_ne _ _ _ _ (by omega)]
        exact hall j (by omega)

/-- result of a successful loop: slots `1..top` receive their lower neighbour, the rest is untouched -/
theorem shiftLoop_lookup (top : Nat) (s : Store) (hall : ∀ j, j < top → (lookup s j).isSome = true) (j : Nat) :
    lookup (shiftLoop top s).1 j = if 1 ≤ j ∧ j ≤ top then lookup s (j - 1) else lookup s j := by
  induction top generalizing s with
  | zero =>
    have : ¬ (1 ≤ j ∧ j ≤ 0) := by omega
    rw [if_neg this]
    rfl
  | succ i ih =>
    unfold shiftLoop
    cases hl : lookup s i with
    | none =>
      have := hall i (Nat.lt_succ_self i)
      simp [hl] at this
    | some v =>
      simp only
      have hall' : ∀ j, j < i → (lookup (insert s (i + 1) v) j).isSome = true := by
        intro j hj
        rw [lookup_insert_ne _ _ _ _ (by omega)]
        exact hall j (by omega)
      rw [ih _ hall']
      by_cases h1 : 1 ≤ j ∧ j ≤ i
      · have h2 : 1 ≤ j ∧ j ≤ i + 1 := by omega
        rw [if_pos h1, if_pos h2, lookup_insert_ne _ _ _ _ (by omega)]
      · rw [if_neg h1]
        by_cases hj : j = i + 1
        · subst hj
          have h2 : 1 ≤ i + 1 ∧ i + 1 ≤ i + 1 := by omega
          rw [if_pos h2, lookup_insert_self]
          simp [hl]
        · have h2 : ¬ (1 ≤ j ∧ j ≤ i + 1) := by omega
          rw [if_neg h2, lookup_insert_ne _ _ _ _ hj]

/-- a failing loop never touches index 0 and keeps the keys distinct; what it has already written stays -/
theorem shiftLoop_zero (top : Nat) (s : Store) : lookup (shiftLoop top s).1 0 = lookup s 0 := by
  induction top generalizing s with
  | zero => rfl
  | succ i ih =>
    unfold shiftLoop
    cases hl : lookup s i with
    | none => rfl
    | some v =>
      simp only
      rw [ih, lookup_insert_ne _ _ _ _ (by omega)]

/-! ### `shiftStart` on a store of known size -/

theorem shiftStart_none (n : Nat) : shiftStart n none = some n := rfl

theorem shiftStart_neg (n : Nat) (m : Int) (h : m < 0) : shiftStart n (some m) = none := by
  simp [shiftStart, h]

theorem shiftStart_nat (n m : Nat) :
    shiftStart n (some (m : Int)) = some (if n < m then n else m - 1) := by
  simp only [shiftStart]
  have h0 : ¬ ((m : Int) < 0) := by omega
  rw [if_neg h0]
  by_cases h : n < m
  · have : (m : Int) > (n : Int) := by omega
    simp [this, h]
  · have : ¬ ((m : Int) > (n : Int)) := by omega
    rw [if_neg this, if_neg h]
    congr 1
    omega

/-! ### refinement helpers -/

theorem repr_shiftLoop {s : Store} {w : Window} (h : Repr s w) (top : Nat) (ht : top ≤ w.length) :
    (shiftLoop top s).2 = true ∧
      ∀ j, lookup (shiftLoop top s).1 j = if 1 ≤ j ∧ j ≤ top then w[j - 1]? else w[j]? := by
  have hall : ∀ j, j < top → (lookup s j).isSome = true := by
    intro j hj
    rw [h.2 j]
    have : j < w.length := by omega
    simp [this]
  refine ⟨(shiftLoop_ok_iff top s).mpr hall, fun j => ?_⟩
  rw [shiftLoop_lookup top s hall j, h.2, h.2]

theorem wexec_append (w : Window) (a b : List Op) : wexec w (a ++ b) = wexec (wexec w a) b := by
  induction a generalizing w with
  | nil => rfl
  | cons op a ih => simp only [List.cons_append, wexec, ih]

theorem regular_append (w : Window) (a b : List Op) :
    regular w (a ++ b) = (regular w a && regular (wexec w a) b) := by
  induction a generalizing w with
  | nil => simp [regular, wexec]
  | cons op a ih => simp only [List.cons_append, regular, wexec, ih, Bool.and_assoc]

theorem alternation_append (h : List (Nat × Val)) (p : Nat × Val) :
    alternation (h ++ [p]) = alternation h ++ [.shift (some (p.1 : Int)), .set 0 p.2] := by
  simp [alternation, List.flatMap_append]

theorem wexec_round (w : Window) (m : Nat) (v : Val) :
    wexec w [.shift (some (m : Int)), .set 0 v] = wset (wshift w (some m)) 0 v := by
  have : ¬ ((m : Int) < 0) := by omega
  simp [wexec, wstep, this]

theorem regular_alternation (hist : List (Nat × Val)) : regular [] (alternation hist) = true := by
  induction hist using list_reverse_induction with
  | nil => rfl
  | snoc h p ih =>
    rw [alternation_append, regular_append, ih]
    have : ¬ ((p.1 : Int) < 0) := by omega
    simp [regular, wstep, this]

theorem window_alternation (hist : List (Nat × Val)) (i : Nat) (hi : i < hist.length)
    (ht : Travels hist.reverse i) :
    (wexec [] (alternation hist))[i]? = (hist.reverse[i]?).map (·.2) := by
  induction hist using list_reverse_induction generalizing i with
  | nil => simp at hi
  | snoc h p ih =>
    rw [alternation_append, wexec_append, wexec_round]
    rw [getElem?_wset _ 0 i p.2 (Nat.zero_le _)]
    simp only [List.reverse_append, List.reverse_cons, List.reverse_nil, List.nil_append,
      List.singleton_append] at ht ⊢
    cases i with
    | zero => simp
    | succ i =>
      have hi' : i < h.length := by simpa using hi
      have ht' : Travels h.reverse i := by
        intro j hj
        obtain ⟨q, hq, hlt⟩ := ht (j + 1) (by omega)
        refine ⟨q, by simpa using hq, by omega⟩
      have hdepth : i + 1 < p.1 := by
        obtain ⟨q, hq, hlt⟩ := ht 0 (by omega)
        simp only [List.getElem?_cons_zero, Option.some.injEq] at hq
        subst hq
        omega
      have ihi := ih i hi' ht'
      have hsome : ∃ x, (wexec [] (alternation h))[i]? = some x := by
        rw [ihi]
        have : i < h.reverse.length := by simpa using hi'
        rw [List.getElem?_eq_getElem this]
        exact ⟨_, rfl⟩
      have hne : Nat.succ i ≠ 0 := Nat.succ_ne_zero i
      rw [if_neg hne]
      cases hW : wexec [] (alternation h) with
      | nil => rw [hW] at hsome; simp at hsome
      | cons a W =>
        rw [getElem?_wshift_some, if_neg hne, if_pos hdepth]
        simp only [Nat.succ_sub_one, List.getElem?_cons_succ]
        rw [← hW, ihi]

theorem alternationAdd_append (m : Nat) (ds : List Val) (d : Val) :
    alternationAdd m (ds ++ [d]) = alternationAdd m ds ++ [.shift (some (m : Int)), .add 0 d] := by
  simp [alternationAdd, List.flatMap_append]

theorem exec_append (s : Store) (a b : List Op) : exec s (a ++ b) = exec (exec s a) b := by
  induction a generalizing s with
  | nil => rfl
  | cons op a ih => simp only [List.cons_append, exec, ih]

theorem regular_alternationAdd (w : Window) (m : Nat) (ds : List Val) :
    regular w (alternationAdd m ds) = true := by
  induction ds using list_reverse_induction with
  | nil => rfl
  | snoc ds d ih =>
    rw [alternationAdd_append, regular_append, ih]
    have : ¬ ((m : Int) < 0) := by omega
    simp [regular]

theorem window_additive_aux (m : Nat) (hm : 0 < m) (v0 : Val) (ds : List Val) (i : Nat) (him : i < m)
    (hik : i ≤ ds.length) :
    (wexec [v0] (alternationAdd m ds))[i]? = some ((ds.take (ds.length - i)).foldl vadd v0) := by
  induction ds using list_reverse_induction generalizing i with
  | nil =>
    have : i = 0 := by simpa using hik
    subst this
    simp [alternationAdd, wexec]
  | snoc ds d ih =>
    rw [alternationAdd_append, wexec_append]
    have h0 := ih 0 hm (Nat.zero_le _)
    simp only [Nat.sub_zero, List.take_length] at h0
    cases hW : wexec [v0] (alternationAdd m ds) with
    | nil => rw [hW] at h0; simp at h0
    | cons a W =>
      rw [hW] at h0
      simp only [List.getElem?_cons_zero, Option.some.injEq] at h0
      have hneg : ¬ ((m : Int) < 0) := by omega
      have hstep : wexec (a :: W) [.shift (some (m : Int)), .add 0 d]
          = wset (wshift (a :: W) (some m)) 0 (vadd a d) := by
        have hhead : (wshift (a :: W) (some m))[0]? = some a := by
          rw [getElem?_wshift_some]; simp
        simp only [wexec, wstep, if_neg hneg, Int.toNat_natCast, wadd_eq, hhead, Option.map_some]
      rw [hstep, getElem?_wset _ 0 i _ (Nat.zero_le _)]
      cases i with
      | zero =>
        simp only [if_true, Nat.sub_zero, List.length_append, List.length_singleton]
        rw [List.take_of_length_le (by simp), List.foldl_append, h0]
        rfl
      | succ i =>
        have hne : Nat.succ i ≠ 0 := Nat.succ_ne_zero i
        have hik' : i ≤ ds.length := by simpa using hik
        rw [if_neg hne, getElem?_wshift_some, if_neg hne, if_pos him]
        simp only [Nat.succ_sub_one]
        rw [← hW, ih i (by omega) hik']
        congr 2
        simp only [List.length_append, List.length_singleton]
        have : ds.length + 1 - (i + 1) = ds.length - i := by omega
        rw [this, List.take_append_of_le_length (by omega)]

/-! ### equation-system wrappers -/

theorem nodup_map_cons {α β : Type} {f : α → β} {a : α} {l : List α} (h : ((a :: l).map f).Nodup) :
    f a ∉ l.map f ∧ (l.map f).Nodup := List.nodup_cons.mp h

theorem blockOffset_none (sel : List String) (name : String) (lay : Layout)
    (h : name ∉ lay.map (·.1)) : blockOffset sel name lay = none := by
  induction lay with
  | nil => rfl
  | cons c rest ih =>
    have hc : c.1 ≠ name := fun e => h (by simp [e])
    have hr : name ∉ rest.map (·.1) := fun e => h (by simp only [List.map_cons, List.mem_cons]; exact Or.inr e)
    by_cases hs : c.1 ∈ sel
    · simp [blockOffset, hs, hc, ih hr]
    · simp [blockOffset, hs, ih hr]

theorem dget_dput' (d : Data) (k k' : Key) (s : Store) :
    dget (dput d k s) k' = if k' = k then some s else dget d k' :=
  alookup_ainsert d k k' s

theorem getSolutionValues_slot (d : Data) (name : String) (loc : Loc) (i : Nat) :
    getSolutionValues d name (tsArg loc i) (itArg loc i)
      = match slotOf d loc name i with
        | none => .err .keyError
        | some v => .val v := by
  have hi : ((i : Int) ≥ 0) := by omega
  cases loc <;>
    simp only [getSolutionValues, validateIndices, idxPart, tsArg, itArg, slotOf, hi, if_true,
      Int.toNat_natCast, List.nil_append, List.append_nil, reduceCtorEq, if_false, Option.isNone_none,
      Option.isNone_some, Bool.and_false, Bool.false_and, Bool.false_eq_true] <;>
    (cases dget d _ with
     | none => rfl
     | some s => simp only [Option.bind_some]; cases lookup s i <;> rfl)

/-- non-additive write with one index: never raises, changes exactly that slot -/
theorem setSolutionValues_slot (d : Data) (name : String) (v : Val) (loc : Loc) (i : Nat) :
    (setSolutionValues d name v (tsArg loc i) (itArg loc i) false).2 = .ok ∧
      ∀ loc' name' j, slotOf (setSolutionValues d name v (tsArg loc i) (itArg loc i) false).1 loc' name' j
        = if loc' = loc ∧ name' = name ∧ j = i then some v else slotOf d loc' name' j := by
  have hi : ((i : Int) ≥ 0) := by omega
  have key : setSolutionValues d name v (tsArg loc i) (itArg loc i) false
      = (dput d (loc, name) (insert ((dget d (loc, name)).getD []) i v), .ok) := by
    cases loc <;>
      simp [setSolutionValues, validateIndices, idxPart, setLoop, tsArg, itArg]
  rw [key]
  refine ⟨rfl, fun loc' name' j => ?_⟩
  simp only [slotOf, dget_dput']
  by_cases hk : (loc', name') = (loc, name)
  · rw [if_pos hk]
    obtain ⟨h1, h2⟩ := Prod.mk.inj hk
    subst h1; subst h2
    simp only [Option.bind_some, lookup_insert, true_and]
    by_cases hj : j = i
    · simp [hj]
    · simp only [if_neg hj]
      cases dget d (loc', name') <;> simp [lookup, alookup]
  · rw [if_neg hk]
    have : ¬ (loc' = loc ∧ name' = name ∧ j = i) := by
      rintro ⟨h1, h2, _⟩; exact hk (by rw [h1, h2])
    rw [if_neg this]

/-- frame of the setter loop: variables outside the layout keep every slot -/
theorem esSetLoop_frame (sel : List String) (loc : Loc) (i : Nat) (values : Val) (lay : Layout)
    (d : Data) (start : Nat) (loc' : Loc) (name' : String) (j : Nat)
    (h : name' ∉ lay.map (·.1)) :
    slotOf (esSetLoop sel (tsArg loc i) (itArg loc i) false values d start lay).1 loc' name' j
      = slotOf d loc' name' j := by
  induction lay generalizing d start with
  | nil => rfl
  | cons b rest ih =>
    have hb : name' ≠ b.1 := fun e => h (by simp [e])
    have hr : name' ∉ rest.map (·.1) := fun e => h (by simp only [List.map_cons, List.mem_cons]; exact Or.inr e)
    unfold esSetLoop
    by_cases hs : b.1 ∈ sel
    · rw [if_pos hs]
      have hset := setSolutionValues_slot d b.1 ((values.drop start).take b.2) loc i
      simp only [hset.1]
      rw [ih _ _ hr, hset.2]
      have : ¬ (loc' = loc ∧ name' = b.1 ∧ j = i) := fun e => hb e.2.1
      rw [if_neg this]
    · rw [if_neg hs]
      exact ih _ _ hr

theorem esSetLoop_ok (sel : List String) (loc : Loc) (i : Nat) (values : Val) (lay : Layout)
    (d : Data) (start : Nat) :
    (esSetLoop sel (tsArg loc i) (itArg loc i) false values d start lay).2.1 = .ok ∧
      (esSetLoop sel (tsArg loc i) (itArg loc i) false values d start lay).2.2 = start + selSize sel lay := by
  induction lay generalizing d start with
  | nil => exact ⟨rfl, rfl⟩
  | cons b rest ih =>
    unfold esSetLoop
    by_cases hs : b.1 ∈ sel
    · rw [if_pos hs]
      have hset := setSolutionValues_slot d b.1 ((values.drop start).take b.2) loc i
      simp only [hset.1]
      have := ih (setSolutionValues d b.1 ((values.drop start).take b.2) (tsArg loc i) (itArg loc i) false).1 (start + b.2)
      refine ⟨this.1, ?_⟩
      rw [this.2]
      simp only [selSize, if_pos hs]
      omega
    · rw [if_neg hs]
      have := ih d start
      refine ⟨this.1, ?_⟩
      rw [this.2]
      simp [selSize, hs]

theorem take_drop_add (l : List Rat) (s n m : Nat) :
    (l.drop s).take (n + m) = (l.drop s).take n ++ (l.drop (s + n)).take m := by
  rw [List.take_add, List.drop_drop]

/-- what the getter loop reads back after the setter loop -/
theorem esGetLoop_esSetLoop (sel : List String) (loc : Loc) (i : Nat) (values : Val) (lay : Layout)
    (hnd : (lay.map (·.1)).Nodup) (d : Data) (start : Nat) :
    esGetLoop sel (tsArg loc i) (itArg loc i)
        (esSetLoop sel (tsArg loc i) (itArg loc i) false values d start lay).1 lay
      = .val ((values.drop start).take (selSize sel lay)) := by
  induction lay generalizing d start with
  | nil => simp [esGetLoop, selSize]
  | cons b rest ih =>
    have hn := nodup_map_cons hnd
    unfold esSetLoop
    by_cases hs : b.1 ∈ sel
    · rw [if_pos hs]
      have hset := setSolutionValues_slot d b.1 ((values.drop start).take b.2) loc i
      simp only [hset.1]
      unfold esGetLoop
      rw [if_pos hs, getSolutionValues_slot, esSetLoop_frame _ _ _ _ _ _ _ _ _ _ hn.1, hset.2]
      simp only [and_self, if_true]
      rw [ih hn.2]
      simp only [selSize, if_pos hs]
      rw [take_drop_add]
    · rw [if_neg hs]
      unfold esGetLoop
      rw [if_neg hs, ih hn.2]
      simp [selSize, hs]

/-- block by block: the slot of every selected variable holds its slice of the vector -/
theorem esSetLoop_block (sel : List String) (loc : Loc) (i : Nat) (values : Val) (lay : Layout)
    (hnd : (lay.map (·.1)).Nodup) (d : Data) (start : Nat) (name : String) (n off : Nat)
    (hb : (name, n) ∈ lay) (hoff : blockOffset sel name lay = some off) :
    slotOf (esSetLoop sel (tsArg loc i) (itArg loc i) false values d start lay).1 loc name i
      = some ((values.drop (start + off)).take n) := by
  induction lay generalizing d start off with
  | nil => cases hb
  | cons b rest ih =>
    have hn := nodup_map_cons hnd
    unfold esSetLoop
    unfold blockOffset at hoff
    by_cases hs : b.1 ∈ sel
    · rw [if_pos hs] at hoff ⊢
      have hset := setSolutionValues_slot d b.1 ((values.drop start).take b.2) loc i
      simp only [hset.1]
      by_cases hname : b.1 = name
      · rw [if_pos hname] at hoff
        have hoff0 : off = 0 := by simpa using hoff.symm
        subst hoff0
        have hbn : b = (name, n) := by
          rcases List.mem_cons.mp hb with h | h
          · exact h.symm
          · exfalso; apply hn.1; rw [hname]
            exact List.mem_map.mpr ⟨(name, n), h, rfl⟩
        subst hbn
        rw [esSetLoop_frame _ _ _ _ _ _ _ _ _ _ hn.1, hset.2]
        simp
      · rw [if_neg hname] at hoff
        cases hoff' : blockOffset sel name rest with
        | none => rw [hoff'] at hoff; simp at hoff
        | some off' =>
          rw [hoff'] at hoff
          have : off = off' + b.2 := by simpa using hoff.symm
          subst this
          have hb' : (name, n) ∈ rest := by
            rcases List.mem_cons.mp hb with h | h
            · exact absurd (by rw [← h]) hname
            · exact h
          rw [ih hn.2 _ _ _ hb' hoff']
          have : start + b.2 + off' = start + (off' + b.2) := by omega
          rw [this]
    · rw [if_neg hs] at hoff ⊢
      have hb' : (name, n) ∈ rest := by
        rcases List.mem_cons.mp hb with h | h
        · exfalso
          have hbn : b.1 = name := by rw [← h]
          have hnotin : name ∉ rest.map (·.1) := by rw [← hbn]; exact hn.1
          have := blockOffset_none sel name rest hnotin
          rw [this] at hoff; cases hoff
        · exact h
      exact ih hn.2 _ _ _ hb' hoff

/-! ### the heap model -/

section heap
variable {κ : Type} [DecidableEq κ] {α β : Type}

theorem alookup_map_snd (g : α → β) (s : List (κ × α)) (i : κ) :
    alookup (s.map (fun p => (p.1, g p.2))) i = (alookup s i).map g := by
  induction s with
  | nil => rfl
  | cons p s ih =>
    simp only [List.map_cons, alookup]
    split <;> simp [ih]

theorem map_ainsert_snd (g : α → β) (s : List (κ × α)) (k : κ) (a : α) :
    (ainsert s k a).map (fun p => (p.1, g p.2)) = ainsert (s.map (fun p => (p.1, g p.2))) k (g a) := by
  induction s with
  | nil => rfl
  | cons p s ih =>
    simp only [List.map_cons, ainsert]
    split
    · rfl
    · simp [ih]

theorem mem_vals_ainsert (s : List (κ × α)) (k : κ) (a r : α) (h : r ∈ (ainsert s k a).map (·.2)) :
    r = a ∨ r ∈ s.map (·.2) := by
  induction s with
  | nil => simpa [ainsert] using h
  | cons p s ih =>
    unfold ainsert at h
    split at h
    · simp only [List.map_cons, List.mem_cons] at h ⊢
      rcases h with h | h
      · exact Or.inl h
      · exact Or.inr (Or.inr h)
    · simp only [List.map_cons, List.mem_cons] at h ⊢
      rcases h with h | h
      · exact Or.inr (Or.inl h)
      · rcases ih h with h | h
        · exact Or.inl h
        · exact Or.inr (Or.inr h)

theorem nodup_vals_ainsert (s : List (κ × α)) (k : κ) (a : α) (hnd : (s.map (·.2)).Nodup)
    (ha : a ∉ s.map (·.2)) : ((ainsert s k a).map (·.2)).Nodup := by
  induction s with
  | nil => simp [ainsert]
  | cons p s ih =>
    have hn := nodup_map_cons hnd
    have ha' : a ∉ s.map (·.2) := fun e => ha (by simp only [List.map_cons, List.mem_cons]; exact Or.inr e)
    have hap : a ≠ p.2 := fun e => ha (by simp [e])
    unfold ainsert
    split
    · simp only [List.map_cons]
      exact List.nodup_cons.mpr ⟨ha', hn.2⟩
    · simp only [List.map_cons]
      refine List.nodup_cons.mpr ⟨?_, ih hn.2 ha'⟩
      intro hmem
      rcases mem_vals_ainsert s k a p.2 hmem with h | h
      · exact hap h.symm
      · exact hn.1 h

theorem alookup_mem_vals (s : List (κ × α)) (i : κ) (q : α) (h : alookup s i = some q) :
    q ∈ s.map (·.2) := by
  induction s with
  | nil => cases h
  | cons p s ih =>
    unfold alookup at h
    split at h
    · simp only [Option.some.injEq] at h; simp [h]
    · simp only [List.map_cons, List.mem_cons]; exact Or.inr (ih h)

theorem map_update_eq_ainsert [DecidableEq α] (g : α → β) (x : β) (s : List (κ × α)) (i : κ) (q : α)
    (hnd : (s.map (·.2)).Nodup) (hq : alookup s i = some q) :
    s.map (fun p => (p.1, if p.2 = q then x else g p.2))
      = ainsert (s.map (fun p => (p.1, g p.2))) i x := by
  induction s with
  | nil => cases hq
  | cons p s ih =>
    have hn := nodup_map_cons hnd
    unfold alookup at hq
    by_cases hp : p.1 = i
    · rw [if_pos hp] at hq
      have hpq : p.2 = q := by simpa using hq
      simp only [List.map_cons, ainsert, hp, if_true, hpq]
      congr 1
      apply List.map_congr_left
      intro c hc
      have : c.2 ≠ q := by
        intro e; apply hn.1; rw [hpq, ← e]; exact List.mem_map.mpr ⟨c, hc, rfl⟩
      simp [this]
    · rw [if_neg hp] at hq
      have hqs := alookup_mem_vals s i q hq
      have hpq : p.2 ≠ q := fun e => hn.1 (e ▸ hqs)
      simp only [List.map_cons, ainsert, if_neg hp, if_neg hpq]
      rw [ih hn.2 hq]

end heap

theorem deref_alloc_lt (st : HState) (v : Val) (r : Nat) (h : r < st.next) :
    deref (alloc st v).1 r = deref st r := by
  simp only [deref, alloc, alookup_ainsert]
  rw [if_neg (by omega)]

theorem deref_alloc_new (st : HState) (v : Val) : deref (alloc st v).1 st.next = v := by
  simp [deref, alloc, alookup_ainsert]

theorem view_congr (st st' : HState) (hs : st'.store = st.store)
    (hd : ∀ r ∈ st.store.map (·.2), deref st' r = deref st r) : view st' = view st := by
  unfold view
  rw [hs]
  apply List.map_congr_left
  intro p hp
  rw [hd p.2 (List.mem_map.mpr ⟨p, hp, rfl⟩)]

theorem lookup_view (st : HState) (i : Nat) : lookup (view st) i = (alookup st.store i).map (deref st) :=
  alookup_map_snd (deref st) st.store i

theorem length_view (st : HState) : (view st).length = st.store.length := by simp [view]

/-- allocate a copy of contents `v` and bind it to index `i`: separation is kept, the denoted store
    is the value-level `insert` -/
theorem sep_alloc_store (st : HState) (v : Val) (i : Nat) (h : Sep st) :
    Sep { (alloc st v).1 with store := ainsert st.store i st.next } ∧
      view { (alloc st v).1 with store := ainsert st.store i st.next } = insert (view st) i v := by
  obtain ⟨h1, h2, h3, h4⟩ := h
  have hfresh : st.next ∉ st.store.map (·.2) := fun e => Nat.lt_irrefl _ (h3 _ e)
  refine ⟨⟨nodup_vals_ainsert _ _ _ h1 hfresh, ?_, ?_, ?_⟩, ?_⟩
  · intro r hr
    rcases mem_vals_ainsert _ _ _ _ hr with e | e
    · subst e; exact fun hh => Nat.lt_irrefl _ (h4 _ hh)
    · exact h2 r e
  · intro r hr
    rcases mem_vals_ainsert _ _ _ _ hr with e | e
    · subst e; simp [alloc]
    · have := h3 r e; simp only [alloc]; omega
  · intro r hr
    have := h4 r hr; simp only [alloc]; omega
  · unfold view insert
    simp only
    rw [map_ainsert_snd]
    have hnew : deref { (alloc st v).1 with store := ainsert st.store i st.next } st.next = v :=
      deref_alloc_new st v
    rw [hnew]
    congr 1
    apply List.map_congr_left
    intro p hp
    have hlt := h3 p.2 (List.mem_map.mpr ⟨p, hp, rfl⟩)
    have : deref { (alloc st v).1 with store := ainsert st.store i st.next } p.2 = deref st p.2 :=
      deref_alloc_lt st v p.2 hlt
    rw [this]

/-- allocate a copy and hand it to the caller -/
theorem sep_alloc_held (st : HState) (v : Val) (h : Sep st) :
    Sep { (alloc st v).1 with held := st.held ++ [st.next] } ∧
      view { (alloc st v).1 with held := st.held ++ [st.next] } = view st := by
  obtain ⟨h1, h2, h3, h4⟩ := h
  refine ⟨⟨h1, ?_, ?_, ?_⟩, ?_⟩
  · intro r hr hh
    rcases List.mem_append.mp hh with e | e
    · exact h2 r hr e
    · have : r = st.next := by simpa using e
      subst this
      exact Nat.lt_irrefl _ (h3 _ hr)
  · intro r hr
    have := h3 r hr; simp only [alloc]; omega
  · intro r hr
    rcases List.mem_append.mp hr with e | e
    · have := h4 r e; simp only [alloc]; omega
    · have : r = st.next := by simpa using e
      subst this; simp [alloc]
  · exact view_congr st _ rfl (fun r hr => deref_alloc_lt st v r (h3 r hr))

/-- the shift loop of the code as it is (every pass copies) -/
theorem hshiftLoop_spec (top : Nat) (st : HState) (h : Sep st) :
    Sep (hshiftLoop codePolicy true top st).1 ∧
      view (hshiftLoop codePolicy true top st).1 = (shiftLoop top (view st)).1 ∧
      (hshiftLoop codePolicy true top st).2 = (shiftLoop top (view st)).2 ∧
      (hshiftLoop codePolicy true top st).1.held = st.held ∧
      st.next ≤ (hshiftLoop codePolicy true top st).1.next ∧
      (∀ r, r < st.next → deref (hshiftLoop codePolicy true top st).1 r = deref st r) := by
  induction top generalizing st with
  | zero => exact ⟨h, rfl, rfl, rfl, Nat.le_refl _, fun _ _ => rfl⟩
  | succ i ih =>
    cases hq : alookup st.store i with
    | none =>
      have h1 : hshiftLoop codePolicy true (i + 1) st = (st, false) := by
        unfold hshiftLoop; rw [hq]
      have h2 : shiftLoop (i + 1) (view st) = (view st, false) := by
        unfold shiftLoop; rw [lookup_view, hq]; rfl
      rw [h1, h2]
      exact ⟨h, rfl, rfl, rfl, Nat.le_refl _, fun _ _ => rfl⟩
    | some q =>
      have hs := sep_alloc_store st (deref st q) (i + 1) h
      have hih := ih _ hs.1
      rw [hs.2] at hih
      have h1 : hshiftLoop codePolicy true (i + 1) st
          = hshiftLoop codePolicy true i
              { (alloc st (deref st q)).1 with store := ainsert st.store (i + 1) st.next } := by
        conv => lhs; unfold hshiftLoop
        rw [hq]
        rfl
      have h2 : shiftLoop (i + 1) (view st) = shiftLoop i (insert (view st) (i + 1) (deref st q)) := by
        conv => lhs; unfold shiftLoop
        rw [lookup_view, hq]
        rfl
      rw [h1, h2]
      have hnext : ({ (alloc st (deref st q)).1 with store := ainsert st.store (i + 1) st.next } : HState).next
          = st.next + 1 := rfl
      refine ⟨hih.1, hih.2.1, hih.2.2.1, hih.2.2.2.1, ?_, ?_⟩
      · have h5 := hih.2.2.2.2.1; rw [hnext] at h5; omega
      · intro r hr
        rw [hih.2.2.2.2.2 r (by rw [hnext]; omega)]
        exact deref_alloc_lt st _ r hr

/-! ### any sequence of index-0 writes and shifts with a fixed depth -/

theorem take_take_succ (k : Nat) (a : Val) (t : Window) :
    (a :: t.take k).take k = (a :: t).take k := by
  cases k with
  | zero => rfl
  | succ j => simp [List.take_take]

theorem wstep_take (m : Nat) (hm : 0 < m) (op : Op) (hop : fixedOp m op = true) (h : Window) :
    (wstep (h.take m) op).1 = (ghostStep h op).take m := by
  obtain ⟨k, rfl⟩ : ∃ k, m = k + 1 := ⟨m - 1, by omega⟩
  cases op with
  | set i v =>
    have hi : i = 0 := by simpa [fixedOp] using hop
    subst hi
    cases h <;> simp [wstep, ghostStep, wset]
  | add i v =>
    have hi : i = 0 := by simpa [fixedOp] using hop
    subst hi
    cases h <;> simp [wstep, ghostStep, wadd]
  | get i =>
    simp only [wstep, ghostStep]
    cases (List.take (k + 1) h)[i]? <;> rfl
  | shift mm =>
    cases mm with
    | none => simp [fixedOp] at hop
    | some q =>
      have hq : q = ((k + 1 : Nat) : Int) := by simpa [fixedOp] using hop
      subst hq
      have hneg : ¬ (((k + 1 : Nat) : Int) < 0) := by omega
      simp only [wstep, if_neg hneg, Int.toNat_natCast, ghostStep]
      cases h with
      | nil => rfl
      | cons a t =>
        have hd : (a :: t.take k).drop (k + 1) = [] :=
          List.drop_eq_nil_of_le (by simp only [List.length_cons, List.length_take]; omega)
        simp only [wshift, List.take_succ_cons, hd, List.append_nil, take_take_succ]

theorem regular_fixed (m : Nat) (ops : List Op) (hfix : ops.all (fixedOp m) = true) (w : Window) :
    regular w ops = true := by
  induction ops generalizing w with
  | nil => rfl
  | cons op ops ih =>
    simp only [List.all_cons, Bool.and_eq_true] at hfix
    simp only [regular, Bool.and_eq_true]
    refine ⟨?_, ih hfix.2 _⟩
    cases op with
    | set i v =>
      have hi : i = 0 := by simpa [fixedOp] using hfix.1
      subst hi; simp
    | _ => rfl

theorem wexec_fixed (m : Nat) (hm : 0 < m) (ops : List Op) (hfix : ops.all (fixedOp m) = true) (h : Window) :
    wexec (h.take m) ops = (ghost h ops).take m := by
  induction ops generalizing h with
  | nil => rfl
  | cons op ops ih =>
    simp only [List.all_cons, Bool.and_eq_true] at hfix
    simp only [wexec, ghost]
    rw [wstep_take m hm op hfix.1 h, ih hfix.2]

/-! ### un-shift -/

theorem lookup_unshift (s : Store) (j : Nat) : lookup (unshift s) j = lookup s (j + 1) := by
  induction s with
  | nil => rfl
  | cons p s ih =>
    unfold unshift
    by_cases hp : 0 < p.1
    · rw [if_pos hp]
      show alookup _ j = alookup _ (j + 1)
      simp only [alookup]
      by_cases hj : p.1 = j + 1
      · have : p.1 - 1 = j := by omega
        simp [hj]
      · have : ¬ p.1 - 1 = j := by omega
        rw [if_neg this, if_neg hj]
        exact ih
    · rw [if_neg hp]
      have : ¬ p.1 = j + 1 := by omega
      show lookup _ j = alookup _ (j + 1)
      simp only [alookup, if_neg this]
      exact ih

theorem mem_keys_unshift (s : Store) (j : Nat) (h : j ∈ (unshift s).map (·.1)) : j + 1 ∈ s.map (·.1) := by
  rw [mem_keys_iff] at h ⊢
  have := lookup_unshift s j
  unfold lookup at this
  rw [← this]; exact h

theorem nodup_keys_unshift (s : Store) (hnd : (s.map (·.1)).Nodup) : ((unshift s).map (·.1)).Nodup := by
  induction s with
  | nil => simp [unshift]
  | cons p s ih =>
    have hn := nodup_map_cons hnd
    unfold unshift
    split
    · simp only [List.map_cons]
      refine List.nodup_cons.mpr ⟨fun e => ?_, ih hn.2⟩
      have := mem_keys_unshift s _ e
      have h1 : p.1 - 1 + 1 = p.1 := by omega
      rw [h1] at this
      exact hn.1 this
    · exact ih hn.2

end PorepyVerif.C08
