/-
C21 — property theorems (statements only depend on Model.lean; helper lemmas in Lemmas.lean).

Property: for any grid, the dense face-cell array, the cell-connection map, the boundary-face tags,
the signs and cells of boundary faces, the cell-node map and the vector divergence operator are all
consistent with the signed cell-face incidence: boundary faces are exactly those with one adjacent
cell, the connection map is symmetric, and the vector divergence equals the scalar one expanded per
component.

All theorems quantify over EVERY topology `t` (any number of faces, cells, nodes, any storage
order); those that need it assume `WF t` (Model.lean), whose meaning is spelled out by
`wf_face_has_at_most_two_cells`.
-/
import PorepyVerif.C21.Lemmas

namespace PorepyVerif.C21

/-! ### what well-formedness means -/

/-- In a well-formed topology every face has at most two stored entries, and when it has two they
    carry opposite signs and belong to different cells. -/
theorem wf_face_has_at_most_two_cells (t : Topo) (h : WF t) (f : Nat) :
    count t f ≤ 2 ∧ ∀ a b, entriesOf t.cf f = [a, b] → a.sign = -b.sign ∧ a.cell ≠ b.cell :=
  ⟨h.count_le_two f, fun _ _ hab => h.pair_opposite hab⟩

/-! ### boundary tags -/

/-- `update_boundary_face_tag` tags exactly the faces with exactly one adjacent cell
    (grids of dimension > 0). -/
theorem boundary_iff_one_cell (t : Topo) (h : WF t) (hd : 0 < t.dim) (f : Nat) (hf : f < t.nf) :
    f ∈ boundaryFaces t ↔
      ∃ c, (∃ s, (⟨f, c, s⟩ : Inc) ∈ t.cf) ∧ ∀ c', (∃ s, (⟨f, c', s⟩ : Inc) ∈ t.cf) → c' = c := by
  unfold boundaryFaces isBoundary
  simp only [List.mem_filter, List.mem_range, hf, true_and, hd, decide_true, Bool.true_and, beq_iff_eq]
  exact count_eq_one_iff h f

/-- … and nothing on a 0-d grid (as coded: "by default no 0d grid at the boundary"). -/
theorem boundary_tag_zero_dim (t : Topo) (hd : t.dim = 0) : boundaryFaces t = [] := by
  unfold boundaryFaces isBoundary
  simp [hd]

/-- `get_internal_faces` is the complement of the tagged faces … -/
theorem internal_iff_not_boundary (t : Topo) (f : Nat) (hf : f < t.nf) :
    f ∈ internalFaces t ↔ f ∉ boundaryFaces t := by
  unfold internalFaces boundaryFaces
  simp [hf]

/-- … and, when every face has a cell, consists exactly of the faces with two adjacent cells, one on
    the positive and one on the negative side. -/
theorem internal_iff_two_cells (t : Topo) (h : WF t) (hno : NoOrphan t) (hd : 0 < t.dim) (f : Nat)
    (hf : f < t.nf) :
    f ∈ internalFaces t ↔
      ∃ c₁ c₂, c₁ ≠ c₂ ∧ (⟨f, c₁, 1⟩ : Inc) ∈ t.cf ∧ (⟨f, c₂, -1⟩ : Inc) ∈ t.cf := by
  rw [internal_iff_not_boundary t f hf, boundary_iff_one_cell t h hd f hf, ← count_eq_one_iff h f]
  constructor
  · intro hne
    have h1 : 1 ≤ count t f := hno f (List.mem_range.mpr hf)
    have h2 : count t f ≤ 2 := h.count_le_two f
    have h3 : count t f = 2 := by omega
    unfold count at h3
    match hl : entriesOf t.cf f, h3 with
    | [a, b], _ =>
      obtain ⟨hs, hc⟩ := h.pair_opposite hl
      have ha : a ∈ entriesOf t.cf f := by rw [hl]; simp
      have hb : b ∈ entriesOf t.cf f := by rw [hl]; simp
      rw [mem_entriesOf] at ha hb
      have ea : (⟨f, a.cell, a.sign⟩ : Inc) = a := by cases a; simp_all
      have eb : (⟨f, b.cell, b.sign⟩ : Inc) = b := by cases b; simp_all
      rcases h.sign ha.1 with h1 | h1
      · have h2 : b.sign = -1 := by omega
        refine ⟨a.cell, b.cell, hc, ?_, ?_⟩
        · rw [← h1, ea]; exact ha.1
        · rw [← h2, eb]; exact hb.1
      · have h2 : b.sign = 1 := by omega
        refine ⟨b.cell, a.cell, fun e => hc e.symm, ?_, ?_⟩
        · rw [← h2, eb]; exact hb.1
        · rw [← h1, ea]; exact ha.1
  · rintro ⟨c₁, c₂, hne, h1, h2⟩ hone
    obtain ⟨c, _, huniq⟩ := (count_eq_one_iff h f).mp hone
    exact hne ((huniq c₁ ⟨1, h1⟩).trans (huniq c₂ ⟨-1, h2⟩).symm)

/-- the domain-boundary tag as the fracture meshing leaves it: one-cell faces that are neither
    fracture nor tip faces -/
theorem domain_boundary_spec (t : Topo) (frac tip : List Nat) (f : Nat) :
    f ∈ domainBoundaryFaces t frac tip ↔ f ∈ boundaryFaces t ∧ f ∉ frac ∧ f ∉ tip := by
  unfold domainBoundaryFaces
  simp [List.mem_filter]

/-! ### dense face-cell array -/

/-- `cell_faces_as_dense` has one column per face … -/
theorem dense_shape (t : Topo) :
    (cellFacesAsDense t).1.length = t.nf ∧ (cellFacesAsDense t).2.length = t.nf := by
  simp [cellFacesAsDense, denseRow]

/-- … and agrees with the incidence in both directions: row 0 holds cell `c` at face `f` iff
    `(f, c, +1)` is stored, and −1 iff the face has no cell on its positive side; row 1 likewise
    for the negative side. -/
theorem dense_matches_incidence (t : Topo) (h : WF t) (f : Nat) (hf : f < t.nf) :
    (∀ c : Nat, (cellFacesAsDense t).1[f]? = some (c : Int) ↔ (⟨f, c, 1⟩ : Inc) ∈ t.cf) ∧
    ((cellFacesAsDense t).1[f]? = some (-1) ↔ ∀ c, (⟨f, c, 1⟩ : Inc) ∉ t.cf) ∧
    (∀ c : Nat, (cellFacesAsDense t).2[f]? = some (c : Int) ↔ (⟨f, c, -1⟩ : Inc) ∈ t.cf) ∧
    ((cellFacesAsDense t).2[f]? = some (-1) ↔ ∀ c, (⟨f, c, -1⟩ : Inc) ∉ t.cf) := by
  have gen : ∀ (p : Int → Bool) (s : Int), (∀ x : Int, (x = 1 ∨ x = -1) → (p x = true ↔ x = s)) →
      (∀ c : Nat, (denseRow p t)[f]? = some (c : Int) ↔ (⟨f, c, s⟩ : Inc) ∈ t.cf) ∧
      ((denseRow p t)[f]? = some (-1) ↔ ∀ c, (⟨f, c, s⟩ : Inc) ∉ t.cf) := by
    intro p s hp
    rw [denseRow_get p t hf]
    constructor
    · intro c
      rw [← lastCell_eq_some_iff h hp f c]
      cases lastCell p t.cf f with
      | none => simp
      | some c' => simp only [Option.some.injEq]; exact Int.natCast_inj
    · rw [← lastCell_eq_none_iff h hp f]
      cases lastCell p t.cf f with
      | none => simp
      | some c' => simp
  obtain ⟨a, b⟩ := gen (fun s => decide (s > 0)) 1 posTest
  obtain ⟨c, d⟩ := gen (fun s => decide (s < 0)) (-1) negTest
  exact ⟨a, b, c, d⟩

/-! ### cell-connection map -/

/-- `cell_connection_map[i, j]` is True iff cells i and j are adjacent to a common face. -/
theorem connection_spec (t : Topo) (i j : Nat) :
    (i, j) ∈ connPairs t ↔ ∃ f, Incident t f i ∧ Incident t f j := by
  rw [mem_connPairs]
  constructor
  · rintro ⟨e, he, e', he', hf, hs, hs', rfl, rfl⟩
    refine ⟨e.face, ⟨e.sign, hs, he⟩, ⟨e'.sign, hs', ?_⟩⟩
    rw [← hf]; exact he'
  · rintro ⟨f, ⟨s, hs, he⟩, ⟨s', hs', he'⟩⟩
    exact ⟨_, he, _, he', rfl, hs, hs', rfl, rfl⟩

/-- The connection map is symmetric (for every topology, well-formed or not). -/
theorem connection_symmetric (t : Topo) (i j : Nat) :
    (i, j) ∈ connPairs t ↔ (j, i) ∈ connPairs t := by
  rw [connection_spec, connection_spec]
  constructor <;> rintro ⟨f, h1, h2⟩ <;> exact ⟨f, h2, h1⟩

/-- As coded the map is reflexive on every cell that has a face. -/
theorem connection_diag (t : Topo) (i : Nat) : (i, i) ∈ connPairs t ↔ ∃ f, Incident t f i := by
  rw [connection_spec]
  constructor
  · rintro ⟨f, h, _⟩; exact ⟨f, h⟩
  · rintro ⟨f, h⟩; exact ⟨f, h, h⟩

/-! ### signs and cells of boundary faces -/

/-- On boundary faces (in any order, repetitions allowed) `signs_and_cells_of_boundary_faces`
    succeeds and returns, position by position, the sign and the cell of the stored entry of the
    face (which is unique, `boundary_iff_one_cell`). -/
theorem signs_cells_boundary_spec (t : Topo) (faces : List Nat)
    (hb : ∀ f ∈ faces, f ∈ boundaryFaces t) :
    ∃ r, signsAndCells t faces = some r ∧ r.length = faces.length ∧
      ∀ (i f : Nat) (sc : Int × Nat), faces[i]? = some f → r[i]? = some sc →
        (⟨f, sc.2, sc.1⟩ : Inc) ∈ t.cf := by
  have hc : ∀ f ∈ faces, count t f = 1 := by
    intro f hf
    have := hb f hf
    unfold boundaryFaces isBoundary at this
    simp only [List.mem_filter, Bool.and_eq_true, beq_iff_eq] at this
    exact this.2.2
  have hsum : (faces.map (count t)).sum = faces.length := by
    clear hb
    induction faces with
    | nil => rfl
    | cons a l ih =>
      simp only [List.map_cons, List.sum_cons, List.length_cons]
      rw [ih (fun f hf => hc f (List.mem_cons_of_mem _ hf)), hc a (by simp)]; omega
  unfold signsAndCells
  rw [if_pos hsum]
  refine ⟨_, rfl, by simp, ?_⟩
  intro i a sc hi hr
  rw [List.getElem?_map, hi] at hr
  simp only [Option.map_some, Option.some.injEq] at hr
  subst hr
  have h1 := hc a (List.mem_of_getElem? hi)
  cases hfind : t.cf.find? (fun e => e.face == a) with
  | none =>
    have : entriesOf t.cf a = [] := by
      unfold entriesOf
      rw [List.filter_eq_nil_iff]
      intro e he
      exact List.find?_eq_none.mp hfind e he
    unfold count at h1
    rw [this] at h1
    cases h1
  | some e =>
    have hmem := List.mem_of_find?_eq_some hfind
    have hface := List.find?_some hfind
    simp only [beq_iff_eq] at hface
    have : (⟨a, e.cell, e.sign⟩ : Inc) = e := by cases e; simp_all
    simp only [this]
    exact hmem

/-- A query that contains an internal face raises ValueError (on grids where every face has a
    cell, which is every grid porepy builds). -/
theorem signs_cells_internal_errors (t : Topo) (hno : NoOrphan t) (faces : List Nat)
    (hr : ∀ f ∈ faces, f < t.nf) (hint : ∃ f ∈ faces, 2 ≤ count t f) :
    signsAndCells t faces = none := by
  have hge : ∀ l : List Nat, (∀ f ∈ l, 1 ≤ count t f) → l.length ≤ (l.map (count t)).sum := by
    intro l hl
    induction l with
    | nil => simp
    | cons a l ih =>
      have := ih (fun f hf => hl f (List.mem_cons_of_mem _ hf))
      have := hl a (by simp)
      simp only [List.map_cons, List.sum_cons, List.length_cons]; omega
  have hgt : ∀ l : List Nat, (∀ f ∈ l, 1 ≤ count t f) → (∃ f ∈ l, 2 ≤ count t f) →
      l.length < (l.map (count t)).sum := by
    intro l hl hex
    induction l with
    | nil => obtain ⟨f, hf, _⟩ := hex; cases hf
    | cons a l ih =>
      simp only [List.map_cons, List.sum_cons, List.length_cons]
      have hl' : ∀ f ∈ l, 1 ≤ count t f := fun f hf => hl f (List.mem_cons_of_mem _ hf)
      obtain ⟨f, hf, h2⟩ := hex
      rcases List.mem_cons.mp hf with rfl | hf
      · have := hge l hl'; omega
      · have := ih hl' ⟨f, hf, h2⟩
        have := hl a (by simp); omega
  have h1 : ∀ f ∈ faces, 1 ≤ count t f := fun f hf => hno f (List.mem_range.mpr (hr f hf))
  have := hgt faces h1 hint
  unfold signsAndCells
  rw [if_neg (by omega)]

/-! ### cell-node map -/

/-- `cell_nodes[n, c]` is True iff node n belongs to a face adjacent to cell c. -/
theorem cell_nodes_spec (t : Topo) (c n : Nat) :
    n ∈ cellNodes t c ↔ ∃ f, Incident t f c ∧ n ∈ t.fn.getD f [] := by
  unfold cellNodes Incident
  simp only [List.mem_flatMap, List.mem_filter, Bool.and_eq_true, beq_iff_eq, bne_iff_ne, ne_eq]
  constructor
  · rintro ⟨e, ⟨he, hc, hs⟩, hn⟩
    refine ⟨e.face, ⟨e.sign, hs, ?_⟩, hn⟩
    have : (⟨e.face, c, e.sign⟩ : Inc) = e := by cases e; simp_all
    rw [this]; exact he
  · rintro ⟨f, ⟨s, hs, he⟩, hn⟩
    exact ⟨_, ⟨he, rfl, hs⟩, hn⟩

/-- `num_cell_nodes[c]` is the number of distinct such nodes. -/
theorem num_cell_nodes_spec (t : Topo) (c : Nat) :
    ∃ l : List Nat, l.Nodup ∧ (∀ n, n ∈ l ↔ ∃ f, Incident t f c ∧ n ∈ t.fn.getD f []) ∧
      numCellNodes t c = l.length :=
  ⟨dedup (cellNodes t c), nodup_dedup _,
    fun n => by rw [mem_dedup, cell_nodes_spec], rfl⟩

/-! ### divergence -/

/-- The scalar divergence is the transposed incidence: entry (c, f) is the stored sign of (f, c),
    and 0 where nothing is stored. -/
theorem scalar_div_matches_incidence (t : Topo) (h : WF t) :
    ∃ ts, divergence t 1 = some ts ∧
      (∀ f c s, (⟨f, c, s⟩ : Inc) ∈ t.cf → entry ts c f = s) ∧
      (∀ f c, (∀ s, (⟨f, c, s⟩ : Inc) ∉ t.cf) → entry ts c f = 0) := by
  refine ⟨t.cf.map (fun e => (e.cell, e.face, e.sign)), by simp [divergence], ?_, ?_⟩
  · intro f c s hmem
    rw [entry_scalar]
    have hl : t.cf.filter (fun e => e.cell == c && e.face == f) = [⟨f, c, s⟩] := by
      have hin : (⟨f, c, s⟩ : Inc) ∈ t.cf.filter (fun e => e.cell == c && e.face == f) := by
        simp [List.mem_filter, hmem]
      have hle : (t.cf.filter (fun e => e.cell == c && e.face == f)).length ≤ 1 := by
        apply length_le_one_of_all_eq (List.Nodup.sublist List.filter_sublist h.nodup)
        intro a ha b hb
        simp only [List.mem_filter, Bool.and_eq_true, beq_iff_eq] at ha hb
        exact h.uniq ha.1 hb.1 (ha.2.2.trans hb.2.2.symm) (Or.inr (ha.2.1.trans hb.2.1.symm))
      exact eq_singleton_of_mem_of_length_le_one hin hle
    rw [hl]; simp
  · intro f c hnone
    rw [entry_scalar]
    have hl : t.cf.filter (fun e => e.cell == c && e.face == f) = [] := by
      rw [List.filter_eq_nil_iff]
      intro e he hcond
      simp only [Bool.and_eq_true, beq_iff_eq] at hcond
      apply hnone e.sign
      have : (⟨f, c, e.sign⟩ : Inc) = e := by cases e; simp_all
      rw [this]; exact he
    rw [hl]; rfl

/-- The vector divergence equals the scalar one expanded per component (Kronecker product with
    the identity), for EVERY topology and every dim ≥ 1:
    `div_dim[c·dim + k, f·dim + l] = δ_{kl} · div_1[c, f]`. -/
theorem vector_div_is_kron (t : Topo) (d : Nat) (hd : 1 ≤ d) :
    ∃ tv ts, divergence t (d : Int) = some tv ∧ divergence t 1 = some ts ∧
      ∀ r c, entry tv r c = if r % d = c % d then entry ts (r / d) (c / d) else 0 := by
  by_cases h1 : d = 1
  · subst h1
    refine ⟨t.cf.map (fun e => (e.cell, e.face, e.sign)), t.cf.map (fun e => (e.cell, e.face, e.sign)),
      by simp [divergence], by simp [divergence], ?_⟩
    intro r c
    simp [Nat.mod_one]
  · have hgt : (d : Int) > 1 := by omega
    have hne : (d : Int) ≠ 1 := by omega
    refine ⟨t.cf.flatMap (fun e => (List.range d).map (fun k => (e.cell * d + k, e.face * d + k, e.sign))),
      t.cf.map (fun e => (e.cell, e.face, e.sign)), ?_, by simp [divergence], ?_⟩
    · simp only [divergence, if_neg hne, if_pos hgt, Int.toNat_natCast]
    · intro r c
      exact entry_vector t.cf d (by omega) r c

/-- `divergence(dim)` with dim ≤ 0 raises ValueError. -/
theorem divergence_nonpositive_errors (t : Topo) (d : Int) (hd : d ≤ 0) : divergence t d = none := by
  unfold divergence
  rw [if_neg (by omega), if_neg (by omega)]

/-! ### divergence applied to a flux vector -/

/-- Matrix-vector form of `vector_div_is_kron`: the vector divergence acts component by component,
    `(div_d u)[c·d + k] = (div_1 u_k)[c]` with `u_k[f] = u[f·d + k]`, for every topology, every
    d ≥ 1, every flux vector `u` and every component k < d. -/
theorem vector_div_acts_componentwise (t : Topo) (d : Nat) (hd : 1 ≤ d) (u : Nat → Rat)
    (c k : Nat) (hk : k < d) :
    ∃ tv ts, divergence t (d : Int) = some tv ∧ divergence t 1 = some ts ∧
      applyTrip tv u (c * d + k) = applyTrip ts (fun f => u (f * d + k)) c := by
  by_cases h1 : d = 1
  · subst h1
    have hk0 : k = 0 := by omega
    subst hk0
    refine ⟨t.cf.map (fun e => (e.cell, e.face, e.sign)), t.cf.map (fun e => (e.cell, e.face, e.sign)),
      by simp [divergence], by simp [divergence], ?_⟩
    simp
  · have hgt : (d : Int) > 1 := by omega
    have hne : (d : Int) ≠ 1 := by omega
    refine ⟨t.cf.flatMap (fun e => (List.range d).map (fun k => (e.cell * d + k, e.face * d + k, e.sign))),
      t.cf.map (fun e => (e.cell, e.face, e.sign)), ?_, by simp [divergence], ?_⟩
    · simp only [divergence, if_neg hne, if_pos hgt, Int.toNat_natCast]
    · exact applyTrip_vector t.cf d u c k hk

/-! ### tag arithmetic (utils/tags.py) -/

/-- `add_tags`: keys of the new dictionary win, all other keys keep their old value. -/
theorem add_tags_lookup (old new : Tags) (hn : (new.map (·.1)).Nodup) (k : String) :
    (addTags old new).get k = match new.get k with
      | some v => some v
      | none => old.get k :=
  get_addTags old new hn k

/-- `all_tags`: the result is the element-wise union of the three tag arrays. -/
theorem all_tags_is_union (tg : Tags) (a b c : String) (x y z : List Bool) (n : Nat)
    (ha : tg.get a = some x) (hb : tg.get b = some y) (hc : tg.get c = some z)
    (hx : x.length = n) (hy : y.length = n) (hz : z.length = n) :
    ∃ r : List Bool, allTags tg [a, b, c] = some r ∧ r.length = n ∧
      ∀ i : Nat, r[i]? = some true ↔ x[i]? = some true ∨ y[i]? = some true ∨ z[i]? = some true := by
  refine ⟨orArr (orArr x y) z, by simp [allTags, ha, hb, hc], ?_, ?_⟩
  · rw [orArr_length _ _ (by rw [orArr_length _ _ (by omega)]; omega), orArr_length _ _ (by omega), hx]
  · intro i
    rw [orArr_get _ _ (by rw [orArr_length _ _ (by omega)]; omega), orArr_get _ _ (by omega), or_assoc]

/-- `get_all_boundary_faces` (= indices where `all_face_tags` is True): a face is listed iff it is
    a fracture, tip or domain-boundary face. -/
theorem all_boundary_faces_is_union (tg : Tags) (fr tp db : List Bool) (n : Nat)
    (h1 : tg.get "fracture_faces" = some fr) (h2 : tg.get "tip_faces" = some tp)
    (h3 : tg.get "domain_boundary_faces" = some db)
    (l1 : fr.length = n) (l2 : tp.length = n) (l3 : db.length = n) :
    ∃ r : List Bool, allFaceTags tg = some r ∧
      ∀ f : Nat, f ∈ indicesOf r ↔ fr[f]? = some true ∨ tp[f]? = some true ∨ db[f]? = some true := by
  obtain ⟨r, hr, hlen, hspec⟩ := all_tags_is_union tg _ _ _ fr tp db n h1 h2 h3 l1 l2 l3
  refine ⟨r, hr, ?_⟩
  intro f
  rw [← hspec f]
  unfold indicesOf
  simp only [List.mem_filter, List.mem_range]
  constructor
  · rintro ⟨hf, hv⟩
    rw [List.getElem?_eq_getElem hf]
    simp [List.getD, List.getElem?_eq_getElem hf] at hv
    rw [hv]
  · intro hv
    have hf : f < r.length := by
      rcases Nat.lt_or_ge f r.length with h | h
      · exact h
      · rw [List.getElem?_eq_none h] at hv; cases hv
    exact ⟨hf, by simp [List.getD, hv]⟩

/-- node tags derived from face tags (`update_boundary_node_tag`, `add_node_tags_from_face_tags`):
    a node is tagged iff it belongs to a tagged face. -/
theorem node_tag_spec (t : Topo) (ft : List Bool) (n : Nat) (hn : n < t.nn) :
    (nodeTagFromFaces t ft)[n]? = some true ↔
      ∃ f, f < t.nf ∧ ft[f]? = some true ∧ n ∈ t.fn.getD f [] :=
  nodeTagFromFaces_get t ft n hn

/-- The tags a grid constructor leaves: domain boundary = faces tagged by
    `update_boundary_face_tag`, no fracture or tip faces, node tags derived from them. -/
theorem fresh_tags_spec (t : Topo) :
    ∃ tg, freshTags t = some tg ∧
      tg.get "domain_boundary_faces" = some ((List.range t.nf).map (isBoundary t)) ∧
      tg.get "fracture_faces" = some (List.replicate t.nf false) ∧
      tg.get "tip_faces" = some (List.replicate t.nf false) ∧
      tg.get "domain_boundary_nodes" = some (nodeTagFromFaces t ((List.range t.nf).map (isBoundary t))) ∧
      tg.get "fracture_nodes" = some (nodeTagFromFaces t (List.replicate t.nf false)) ∧
      tg.get "tip_nodes" = some (nodeTagFromFaces t (List.replicate t.nf false)) := by
  simp [freshTags, updateBoundaryNodeTag, initiateTags, updateBoundaryFaceTag, addTags,
    standardFaceTags, standardNodeTags, Tags.get, Tags.set]

/-- On a freshly constructed grid `get_all_boundary_faces` returns exactly the faces tagged by
    `update_boundary_face_tag`, i.e. (by `boundary_iff_one_cell`) the faces with one adjacent cell. -/
theorem fresh_all_boundary_faces (t : Topo) :
    ∃ tg r, freshTags t = some tg ∧ allFaceTags tg = some r ∧ indicesOf r = boundaryFaces t := by
  obtain ⟨tg, htg, h1, h2, h3, _⟩ := fresh_tags_spec t
  refine ⟨tg, (List.range t.nf).map (isBoundary t), htg, ?_, ?_⟩
  · simp only [allFaceTags, allTags, standardFaceTags, h1, h2, h3]
    rw [orArr_false_left _ _ (by simp), orArr_false_left _ _ (by simp)]
  · rw [indicesOf_map_range]; rfl

/-- … and a node is a domain-boundary node iff it belongs to a boundary face. -/
theorem fresh_boundary_node_iff (t : Topo) (n : Nat) (hn : n < t.nn) :
    ∃ tg nt, freshTags t = some tg ∧ tg.get "domain_boundary_nodes" = some nt ∧
      (nt[n]? = some true ↔ ∃ f ∈ boundaryFaces t, n ∈ t.fn.getD f []) := by
  obtain ⟨tg, htg, _, _, _, h4, _⟩ := fresh_tags_spec t
  refine ⟨tg, _, htg, h4, ?_⟩
  rw [nodeTagFromFaces_get t _ n hn]
  unfold boundaryFaces
  simp only [List.mem_filter, List.mem_range]
  constructor
  · rintro ⟨f, hf, hft, hmem⟩
    rw [List.getElem?_map, List.getElem?_range hf] at hft
    simp only [Option.map_some, Option.some.injEq] at hft
    exact ⟨f, ⟨hf, hft⟩, hmem⟩
  · rintro ⟨f, ⟨hf, hb⟩, hmem⟩
    refine ⟨f, hf, ?_, hmem⟩
    rw [List.getElem?_map, List.getElem?_range hf]
    simp [hb]

/-! ### subgrids and split faces stay well-formed -/

/-- Restricting a well-formed incidence to a set of cells (with the renumbering of cells, faces and
    nodes performed by `extract_subgrid`) gives a well-formed incidence: subgrids of well-formed
    grids are well-formed, so every theorem above applies to them. -/
theorem extract_subgrid_wf (t : Topo) (h : WF t) (cells : List Nat) (hc : cells.Nodup) :
    WF (extractSubgrid t cells).1 :=
  wf_extractSubgrid t h cells hc

/-- Every entry of the subgrid incidence is an entry of the parent, under the returned face map and
    the sorted cell list. -/
theorem extract_subgrid_entries_from_parent (t : Topo) (cells : List Nat) (e' : Inc)
    (he : e' ∈ (extractSubgrid t cells).1.cf) :
    ∃ f c, (extractSubgrid t cells).2.1[e'.face]? = some f ∧ (isort cells)[e'.cell]? = some c ∧
      (⟨f, c, e'.sign⟩ : Inc) ∈ t.cf := by
  simp only [extractSubgrid] at he ⊢
  obtain ⟨x, hx, rfl⟩ := List.mem_map.mp he
  obtain ⟨i, c, e, hi, hecf, hcell, rfl⟩ := (mem_subEntries _ _ _ x).mp hx
  have hmem : e.face ∈ uniqueSorted ((subEntries t.cf 0 (isort cells)).map (·.face)) := by
    rw [mem_uniqueSorted]
    exact List.mem_map.mpr ⟨_, hx, rfl⟩
  have hlt := List.idxOf_lt_length_iff.mpr hmem
  refine ⟨e.face, c, ?_, by simpa using hi, ?_⟩
  · simp only
    rw [List.getElem?_eq_getElem hlt, List.getElem_idxOf hlt]
  · have : (⟨e.face, c, e.sign⟩ : Inc) = e := by cases e; simp_all
    simp only [this]; exact hecf

/-- … and in a subgrid every face has a cell, for ANY parent and cell list (the face map keeps only
    faces touched by the cells): the hypothesis `NoOrphan` is discharged for extracted grids. -/
theorem extract_subgrid_no_orphan (t : Topo) (cells : List Nat) : NoOrphan (extractSubgrid t cells).1 := by
  intro f' hf'
  simp only [extractSubgrid, List.mem_range] at hf'
  have hnd := nodup_uniqueSorted ((subEntries t.cf 0 (isort cells)).map (·.face))
  have hmem : (uniqueSorted ((subEntries t.cf 0 (isort cells)).map (·.face)))[f'] ∈
      uniqueSorted ((subEntries t.cf 0 (isort cells)).map (·.face)) := List.getElem_mem hf'
  have hidx := idxOf_getElem_of_nodup hnd f' hf'
  rw [mem_uniqueSorted] at hmem
  obtain ⟨x, hx, hxf⟩ := List.mem_map.mp hmem
  unfold count
  apply List.length_pos_of_mem (a := ⟨f', x.cell, x.sign⟩)
  rw [mem_entriesOf]
  refine ⟨?_, rfl⟩
  simp only [extractSubgrid]
  refine List.mem_map.mpr ⟨x, hx, ?_⟩
  simp only [Inc.mk.injEq, and_true]
  rw [hxf]; exact hidx

/-- Splitting a face along a fracture keeps the incidence well-formed … -/
theorem split_face_wf (t : Topo) (h : WF t) (f c : Nat) : WF (splitFace t f c) :=
  wf_splitFace t h f c

/-- … and both copies of a split internal face have exactly one adjacent cell: they are tagged by
    `update_boundary_face_tag`, and the two cells no longer share that face. -/
theorem split_faces_become_boundary (t : Topo) (h : WF t) (hd : 0 < t.dim) (f c c₂ : Nat) (s s₂ : Int)
    (h1 : (⟨f, c, s⟩ : Inc) ∈ t.cf) (h2 : (⟨f, c₂, s₂⟩ : Inc) ∈ t.cf) (hne : c ≠ c₂) :
    f ∈ boundaryFaces (splitFace t f c) ∧ t.nf ∈ boundaryFaces (splitFace t f c) := by
  have hw := wf_splitFace t h f c
  have hfr : f < t.nf := (h.1 _ h1).2.1
  have hdim : 0 < (splitFace t f c).dim := hd
  have hmem : ∀ x : Inc, x ∈ (splitFace t f c).cf ↔
      ∃ e ∈ t.cf, (if e.face = f ∧ e.cell = c then (⟨t.nf, e.cell, e.sign⟩ : Inc) else e) = x := by
    intro x; simp [splitFace, List.mem_map]
  constructor
  · rw [boundary_iff_one_cell _ hw hdim f (show f < t.nf + 1 by omega)]
    have hne' : ¬ c₂ = c := fun e => hne e.symm
    refine ⟨c₂, ⟨s₂, (hmem _).mpr ⟨_, h2, by simp [hne']⟩⟩, ?_⟩
    rintro c' ⟨s', hx⟩
    obtain ⟨e, he, hex⟩ := (hmem _).mp hx
    by_cases m : e.face = f ∧ e.cell = c
    · rw [if_pos m] at hex
      simp only [Inc.mk.injEq] at hex
      omega
    · rw [if_neg m] at hex
      subst hex
      have hc' : c' ≠ c := fun e => m ⟨rfl, e⟩
      by_cases hs : s' = s
      · exact absurd (by have := h.uniq he h1 rfl (Or.inl hs); simp only [Inc.mk.injEq] at this; exact this.2.1) hc'
      · have hs2 : s' = s₂ := by
          have a1 := h.sign he
          have a2 := h.sign h1
          have a3 := h.sign h2
          have : s ≠ s₂ := fun e => hne (by have := h.uniq h1 h2 rfl (Or.inl e); simp only [Inc.mk.injEq] at this; exact this.2.1)
          simp only at a1 a2 a3
          omega
        have := h.uniq he h2 rfl (Or.inl hs2)
        simp only [Inc.mk.injEq] at this
        exact this.2.1
  · rw [boundary_iff_one_cell _ hw hdim t.nf (show t.nf < t.nf + 1 by omega)]
    refine ⟨c, ⟨s, (hmem _).mpr ⟨_, h1, by simp⟩⟩, ?_⟩
    rintro c' ⟨s', hx⟩
    obtain ⟨e, he, hex⟩ := (hmem _).mp hx
    by_cases m : e.face = f ∧ e.cell = c
    · rw [if_pos m] at hex
      simp only [Inc.mk.injEq] at hex
      omega
    · rw [if_neg m] at hex
      have := (h.1 e he).2.1
      rw [hex] at this
      simp only at this
      omega

/-! ### neighbouring entry points: trace operator, node queries, the 1-d constructor -/

/-- `Grid.trace(dim)` (dim ≥ 1) on a list of boundary faces: it succeeds, every stored entry is a
    unit entry `(f·dim + k, c·dim + k)` for a listed face f, its adjacent cell c and a component k,
    and every such position is present. -/
theorem trace_spec (t : Topo) (bf : List Nat) (d : Nat) (hb : ∀ f ∈ bf, f ∈ boundaryFaces t) :
    ∃ tr, trace t bf d = some tr ∧
      (∀ x ∈ tr, ∃ f c s k, f ∈ bf ∧ k < d ∧ (⟨f, c, s⟩ : Inc) ∈ t.cf ∧ x = (f * d + k, c * d + k, 1)) ∧
      (∀ f ∈ bf, ∀ k, k < d → ∃ c s, (⟨f, c, s⟩ : Inc) ∈ t.cf ∧ (f * d + k, c * d + k, 1) ∈ tr) := by
  obtain ⟨r, hr, hlen, hspec⟩ := signs_cells_boundary_spec t bf hb
  refine ⟨(bf.zip r).flatMap (fun p => (List.range d).map (fun k => (p.1 * d + k, p.2.2 * d + k, (1 : Int)))),
    by simp only [trace, hr], ?_, ?_⟩
  · intro x hx
    simp only [List.mem_flatMap] at hx
    obtain ⟨p, hp, hx⟩ := hx
    obtain ⟨k, hk, rfl⟩ := (mem_trace_block _ _ _ x).mp hx
    obtain ⟨i, hi⟩ := List.mem_iff_getElem?.mp hp
    rw [List.getElem?_zip_eq_some] at hi
    exact ⟨p.1, p.2.2, p.2.1, k, List.mem_of_getElem? hi.1, hk, hspec i p.1 p.2 hi.1 hi.2, rfl⟩
  · intro f hf k hk
    obtain ⟨i, hi⟩ := List.mem_iff_getElem?.mp hf
    have hlt : i < r.length := by
      rw [hlen]
      rcases Nat.lt_or_ge i bf.length with h | h
      · exact h
      · rw [List.getElem?_eq_none h] at hi; cases hi
    have hri : r[i]? = some r[i] := List.getElem?_eq_getElem hlt
    refine ⟨r[i].2, r[i].1, hspec i f r[i] hi hri, ?_⟩
    simp only [List.mem_flatMap]
    refine ⟨(f, r[i]), ?_, (mem_trace_block _ _ _ _).mpr ⟨k, hk, rfl⟩⟩
    exact List.mem_iff_getElem?.mpr ⟨i, List.getElem?_zip_eq_some.mpr ⟨hi, hri⟩⟩

/-- `trace` raises ValueError when the tagged faces contain an internal face. -/
theorem trace_internal_errors (t : Topo) (hno : NoOrphan t) (bf : List Nat) (d : Nat)
    (hr : ∀ f ∈ bf, f < t.nf) (hint : ∃ f ∈ bf, 2 ≤ count t f) : trace t bf d = none := by
  simp only [trace, signs_cells_internal_errors t hno bf hr hint]

/-- `get_internal_nodes` = the nodes that are not domain-boundary nodes. -/
theorem internal_nodes_spec (t : Topo) (tg : Tags) (b : List Bool)
    (hb : tg.get "domain_boundary_nodes" = some b) :
    ∃ l, getInternalNodes t tg = some l ∧ ∀ n, n ∈ l ↔ n < t.nn ∧ b[n]? ≠ some true := by
  refine ⟨(List.range t.nn).filter (fun n => !(indicesOf b).contains n),
    by simp only [getInternalNodes, getTagged, hb, Option.map_some], ?_⟩
  intro n
  simp only [List.mem_filter, List.mem_range, Bool.not_eq_true']
  rw [ne_eq, ← mem_indicesOf]
  constructor
  · rintro ⟨h1, h2⟩
    refine ⟨h1, fun hm => ?_⟩
    have := List.contains_iff_mem.mpr hm
    rw [h2] at this; cases this
  · rintro ⟨h1, h2⟩
    refine ⟨h1, ?_⟩
    cases hc : (indicesOf b).contains n with
    | false => rfl
    | true => exact absurd (List.contains_iff_mem.mp hc) h2

/-- The 1-d constructor (`TensorGrid._create_1d_grid`, hence `CartGrid(n)`) builds a well-formed
    incidence for EVERY number of cells: the hypothesis `WF` of the theorems above is discharged for
    this family of grids … -/
theorem line1d_wf (n : Nat) : WF (line1d n) := wf_line1d n

/-- … and every face has a cell as soon as there is one cell. -/
theorem line1d_no_orphan (n : Nat) (hn : 1 ≤ n) : NoOrphan (line1d n) := noOrphan_line1d n hn

/-! ### non-vacuity: concrete grids satisfy the hypotheses, and the queries give what porepy gives -/

/-- `pp.CartGrid([2, 1])`: 2 cells, 7 faces, 6 nodes (incidence in csc storage order) -/
def exCart : Topo :=
  { dim := 2, nf := 7, nc := 2, nn := 6,
    cf := [⟨0, 0, -1⟩, ⟨1, 0, 1⟩, ⟨3, 0, -1⟩, ⟨5, 0, 1⟩, ⟨1, 1, -1⟩, ⟨2, 1, 1⟩, ⟨4, 1, -1⟩, ⟨6, 1, 1⟩],
    fn := [[0, 3], [1, 4], [2, 5], [0, 1], [1, 2], [3, 4], [4, 5]] }

/-- the same grid after splitting face 1 along a fracture: cell 1 now owns the new face 7 -/
def exSplit : Topo :=
  { dim := 2, nf := 8, nc := 2, nn := 8,
    cf := [⟨0, 0, -1⟩, ⟨1, 0, 1⟩, ⟨3, 0, -1⟩, ⟨5, 0, 1⟩, ⟨2, 1, 1⟩, ⟨4, 1, -1⟩, ⟨6, 1, 1⟩, ⟨7, 1, -1⟩],
    fn := [[0, 3], [1, 4], [2, 5], [0, 1], [6, 2], [3, 4], [7, 5], [6, 7]] }

example : WF exCart ∧ NoOrphan exCart ∧ WF exSplit ∧ NoOrphan exSplit := by decide +kernel

example : cellFacesAsDense exCart = ([-1, 0, 1, -1, -1, 0, 1], [0, 1, -1, 0, 1, -1, -1]) := by decide +kernel
example : boundaryFaces exCart = [0, 2, 3, 4, 5, 6] ∧ internalFaces exCart = [1] := by decide +kernel
example : boundaryFaces exSplit = [0, 1, 2, 3, 4, 5, 6, 7] ∧ internalFaces exSplit = [] := by decide +kernel
example : domainBoundaryFaces exSplit [1, 7] [] = [0, 2, 3, 4, 5, 6] := by decide +kernel
example : (0, 1) ∈ connPairs exCart ∧ (1, 0) ∈ connPairs exCart ∧ (0, 1) ∉ connPairs exSplit := by decide +kernel
example : signsAndCells exCart [6, 0, 3, 6] = some [(1, 1), (-1, 0), (-1, 0), (1, 1)] := by decide +kernel
example : signsAndCells exCart [0, 1] = none := by decide +kernel
example : cellNodes exCart 1 = [1, 4, 2, 5, 1, 2, 4, 5] ∧ numCellNodes exCart 1 = 4 := by decide +kernel
example : divergence exCart 1 = some [(0, 0, -1), (0, 1, 1), (0, 3, -1), (0, 5, 1), (1, 1, -1), (1, 2, 1), (1, 4, -1), (1, 6, 1)] := by
  decide +kernel
example : (divergence exCart 2).map (fun tr => (entry tr 1 3, entry tr 1 2, entry tr 2 2, entry tr 3 13)) = some (1, 0, -1, 1) := by
  decide +kernel
example : divergence exCart 0 = none ∧ divergence exCart (-2) = none := by decide +kernel

/-- flux u = (1, 2, …, 14) on the 7 faces × 2 components: row c·2+k of div₂ u equals div₁ of component k -/
example : (divergence exCart 2).map (fun tr => (List.range 4).map (applyTrip tr (fun j => (j : Rat) + 1)))
    = some [-1 + 3 - 7 + 11, -2 + 4 - 8 + 12, -3 + 5 - 9 + 13, -4 + 6 - 10 + 14] := by decide +kernel

example : (freshTags exCart).map (fun tg => (tg.get "domain_boundary_faces", tg.get "fracture_faces",
      tg.get "domain_boundary_nodes", (allFaceTags tg).map indicesOf)) =
    some (some [true, false, true, true, true, true, true], some (List.replicate 7 false),
      some (List.replicate 6 true), some [0, 2, 3, 4, 5, 6]) := by decide +kernel

/-- 1-d grid with 3 cells: only the end faces and end nodes are boundary -/
def exLine : Topo :=
  { dim := 1, nf := 4, nc := 3, nn := 4,
    cf := [⟨0, 0, -1⟩, ⟨1, 0, 1⟩, ⟨1, 1, -1⟩, ⟨2, 1, 1⟩, ⟨2, 2, -1⟩, ⟨3, 2, 1⟩], fn := [[0], [1], [2], [3]] }

example : WF exLine ∧
    (freshTags exLine).map (·.get "domain_boundary_nodes") = some (some [true, false, false, true]) := by
  decide +kernel

example : (addTags [("a", [true]), ("b", [false])] [("b", [true, true]), ("c", [])]).get "b" = some [true, true] ∧
    allTags [("x", [true, false, false]), ("y", [false, false, true]), ("z", [false, false, false])] ["x", "y", "z"]
      = some [true, false, true] := by decide +kernel

/-- `extract_subgrid(CartGrid([2,1]), [1])`: faces 1,2,4,6 and nodes 1,2,4,5 survive, renumbered -/
example : extractSubgrid exCart [1] =
    ({ dim := 2, nf := 4, nc := 1, nn := 4, cf := [⟨0, 0, -1⟩, ⟨1, 0, 1⟩, ⟨2, 0, -1⟩, ⟨3, 0, 1⟩],
       fn := [[0, 2], [1, 3], [0, 1], [2, 3]] }, [1, 2, 4, 6], [1, 2, 4, 5]) ∧
    WF (extractSubgrid exCart [1]).1 ∧ NoOrphan (extractSubgrid exCart [1]).1 ∧ boundaryFaces (extractSubgrid exCart [1]).1 = [0, 1, 2, 3] := by
  decide +kernel

example : WF (splitFace exCart 1 1) ∧ boundaryFaces (splitFace exCart 1 1) = [0, 1, 2, 3, 4, 5, 6, 7] ∧
    (0, 1) ∉ connPairs (splitFace exCart 1 1) := by decide +kernel

example : line1d 3 = exLine ∧ boundaryFaces (line1d 5) = [0, 5] ∧ ¬ NoOrphan (line1d 0) := by decide +kernel

example : trace exCart (boundaryFaces exCart) 1 = some [(0, 0, 1), (2, 1, 1), (3, 0, 1), (4, 1, 1), (5, 0, 1), (6, 1, 1)] ∧
    trace exCart [1] 2 = none ∧
    trace exLine [3, 0] 2 = some [(6, 4, 1), (7, 5, 1), (0, 0, 1), (1, 1, 1)] := by decide +kernel

example : (freshTags exLine).bind (getInternalNodes exLine) = some [1, 2] ∧
    (freshTags exLine).bind getAllBoundaryNodes = some [0, 3] := by decide +kernel

/-- the well-formedness hypothesis is needed: on a face with three cells (+, −, +), which the
    orientation check of the `Grid` constructor accepts, the dense array forgets cell 0 -/
example :
    let t : Topo := { dim := 1, nf := 1, nc := 3, nn := 1, cf := [⟨0, 0, 1⟩, ⟨0, 1, -1⟩, ⟨0, 2, 1⟩], fn := [[0]] }
    ¬ WF t ∧ (⟨0, 0, 1⟩ : Inc) ∈ t.cf ∧ (cellFacesAsDense t).1[0]? = some 2 := by decide +kernel

end PorepyVerif.C21
