/-
C21 — property theorems (statements only depend on Model.lean; helper lemmas in Lemmas.lean).

Property: for any grid, the dense face-cell array, the cell-connection map, the boundary-face tags,
the signs and cells of boundary faces, the cell-node map and the vector divergence operator are all
consistent with the signed cell-face incidence: boundary faces are exactly those with one adjacent
cell, the connection map is symmetric, and the vector divergence equals the scalar one expanded per
component.

All theorems quantify over EVERY topology `t` (any number of faces, cells, nodes, any storage
order); those that need it assume `WF t` (Model.lean), whose meaning is spelled out by
`wf_face_has_at_most_two_cells`.
-/
import PorepyVerif.C21.Lemmas

namespace PorepyVerif.C21

/-! ### what well-formedness means -/

/-- In a well-formed topology every face has at most two stored entries, and when it has two they
    carry opposite signs and belong to different cells. -/
theorem wf_face_has_at_most_two_cells (t : Topo) (h : WF t) (f : Nat) :
    count t f ≤ 2 ∧ ∀ a b, entriesOf t.cf f = [a, b] → a.sign = -b.sign ∧ a.cell ≠ b.cell :=
  ⟨h.count_le_two f, fun _ _ hab => h.pair_opposite hab⟩

/-! ### boundary tags -/

/-- `update_boundary_face_tag` tags exactly the faces with exactly one adjacent cell
    (grids of dimension > 0). -/
theorem boundary_iff_one_cell (t : Topo) (h : WF t) (hd : 0 < t.dim) (f : Nat) (hf : f < t.nf) :
    f ∈ boundaryFaces t ↔
      ∃ c, (∃ s, (⟨f, c, s⟩ : Inc) ∈ t.cf) ∧ ∀ c', (∃ s, (⟨f, c', s⟩ : Inc) ∈ t.cf) → c' = c := by
  unfold boundaryFaces isBoundary
  simp only [List.mem_filter, List.mem_range, hf, true_and, hd, decide_true, Bool.true_and, beq_iff_eq]
  exact count_eq_one_iff h f

/-- … and nothing on a 0-d grid (as coded: "by default no 0d grid at the boundary"). -/
theorem boundary_tag_zero_dim (t : Topo) (hd : t.dim = 0) : boundaryFaces t = [] := by
  unfold boundaryFaces isBoundary
  simp [hd]

/-- `get_internal_faces` is the complement of the tagged faces … -/
theorem internal_iff_not_boundary (t : Topo) (f : Nat) (hf : f < t.nf) :
    f ∈ internalFaces t ↔ f ∉ boundaryFaces t := by
  unfold internalFaces boundaryFaces
  simp [hf]

/-- … and, when every face has a cell, consists exactly of the faces with two adjacent cells, one on
    the positive and one on the negative side. -/
theorem internal_iff_two_cells (t : Topo) (h : WF t) (hno : NoOrphan t) (hd : 0 < t.dim) (f : Nat)
    (hf : f < t.nf) :
    f ∈ internalFaces t ↔
      ∃ c₁ c₂, c₁ ≠ c₂ ∧ (⟨f, c₁, 1⟩ : Inc) ∈ t.cf ∧ (⟨f, c₂, -1⟩ : Inc) ∈ t.cf := by
  rw [internal_iff_not_boundary t f hf, boundary_iff_one_cell t h hd f hf, ← count_eq_one_iff h f]
  constructor
  · intro hne
    have h1 : 1 ≤ count t f := hno f (List.mem_range.mpr hf)
    have h2 : count t f ≤ 2 := h.count_le_two f
    have h3 : count t f = 2 := by omega
    unfold count at h3
    match hl : entriesOf t.cf f, h3 with
    | [a, b], _ =>
      obtain ⟨hs, hc⟩ := h.pair_opposite hl
      have ha : a ∈ entriesOf t.cf f := by rw [hl]; simp
      have hb : b ∈ entriesOf t.cf f := by rw [hl]; simp
      rw [mem_entriesOf] at ha hb
      have ea : (⟨f, a.cell, a.sign⟩ : Inc) = a := by cases a; simp_all
      have eb : (⟨f, b.cell, b.sign⟩ : Inc) = b := by cases b; simp_all
      rcases h.sign ha.1 with h1 | h1
      · have h2 : b.sign = -1 := by omega
        refine ⟨a.cell, b.cell, hc, ?_, ?_⟩
        · rw [← h1, ea]; exact ha.1
        · rw [← h2, eb]; exact hb.1
      · have h2 : b.sign = 1 := by omega
        refine ⟨b.cell, a.cell, fun e => hc e.symm, ?_, ?_⟩
        · rw [← h2, eb]; exact hb.1
        · rw [← h1, ea]; exact ha.1
  · rintro ⟨c₁, c₂, hne, h1, h2⟩ hone
    obtain ⟨c, _, huniq⟩ := (count_eq_one_iff h f).mp hone
    exact hne ((huniq c₁ ⟨1, h1⟩).trans (huniq c₂ ⟨-1, h2⟩).symm)

/-- the domain-boundary tag as the fracture meshing leaves it: one-cell faces that are neither
    fracture nor tip faces -/
theorem domain_boundary_spec (t : Topo) (frac tip : List Nat) (f : Nat) :
    f ∈ domainBoundaryFaces t frac tip ↔ f ∈ boundaryFaces t ∧ f ∉ frac ∧ f ∉ tip := by
  unfold domainBoundaryFaces
  simp [List.mem_filter]

/-! ### dense face-cell array -/

/-- `cell_faces_as_dense` has one column per face … -/
theorem dense_shape (t : Topo) :
    (cellFacesAsDense t).1.length = t.nf ∧ (cellFacesAsDense t).2.length = t.nf := by
  simp [cellFacesAsDense, denseRow]

/-- … and agrees with the incidence in both directions: row 0 holds cell `c` at face `f` iff
    `(f, c, +1)` is stored, and −1 iff the face has no cell on its positive side; row 1 likewise
    for the negative side. -/
theorem dense_matches_incidence (t : Topo) (h : WF t) (f : Nat) (hf : f < t.nf) :
    (∀ c : Nat, (cellFacesAsDense t).1[f]? = some (c : Int) ↔ (⟨f, c, 1⟩ : Inc) ∈ t.cf) ∧
    ((cellFacesAsDense t).1[f]? = some (-1) ↔ ∀ c, (⟨f, c, 1⟩ : Inc) ∉ t.cf) ∧
    (∀ c : Nat, (cellFacesAsDense t).2[f]? = some (c : Int) ↔ (⟨f, c, -1⟩ : Inc) ∈ t.cf) ∧
    ((cellFacesAsDense t).2[f]? = some (-1) ↔ ∀ c, (⟨f, c, -1⟩ : Inc) ∉ t.cf) := by
  have gen : ∀ (p : Int → Bool) (s : Int), (∀ x : Int, (x = 1 ∨ x = -1) → (p x = true ↔ x = s)) →
      (∀ c : Nat, (denseRow p t)[f]? = some (c : Int) ↔ (⟨f, c, s⟩ : Inc) ∈ t.cf) ∧
      ((denseRow p t)[f]? = some (-1) ↔ ∀ c, (⟨f, c, s⟩ : Inc) ∉ t.cf) := by
    intro p s hp
    rw [denseRow_get p t hf]
    constructor
    · intro c
      rw [← lastCell_eq_some_iff h hp f c]
      cases lastCell p t.cf f with
      | none => simp
      | some c' => simp only [Option.some.injEq]; exact Int.natCast_inj
    · rw [← lastCell_eq_none_iff h hp f]
      cases lastCell p t.cf f with
      | none => simp
      | some c' => simp
  obtain ⟨a, b⟩ := gen (fun s => decide (s > 0)) 1 posTest
  obtain ⟨c, d⟩ := gen (fun s => decide (s < 0)) (-1) negTest
  exact ⟨a, b, c, d⟩

/-! ### cell-connection map -/

/-- `cell_connection_map[i, j]` is True iff cells i and j are adjacent to a common face. -/
theorem connection_spec (t : Topo) (i j : Nat) :
    (i, j) ∈ connPairs t ↔ ∃ f, Incident t f i ∧ Incident t f j := by
  rw [mem_connPairs]
  constructor
  · rintro ⟨e, he, e', he', hf, hs, hs', rfl, rfl⟩
    refine ⟨e.face, ⟨e.sign, hs, he⟩, ⟨e'.sign, hs', ?_⟩⟩
    rw [← hf]; exact he'
  · rintro ⟨f, ⟨s, hs, he⟩, ⟨s', hs', he'⟩⟩
    exact ⟨_, he, _, he', rfl, hs, hs', rfl, rfl⟩

/-- The connection map is symmetric (for every topology, well-formed or not). -/
theorem connection_symmetric (t : Topo) (i j : Nat) :
    (i, j) ∈ connPairs t ↔ (j, i) ∈ connPairs t := by
  rw [connection_spec, connection_spec]
  constructor <;> rintro ⟨f, h1, h2⟩ <;> exact ⟨f, h2, h1⟩

/-- As coded the map is reflexive on every cell that has a face. -/
theorem connection_diag (t : Topo) (i : Nat) : (i, i) ∈ connPairs t ↔ ∃ f, Incident t f i := by
  rw [connection_spec]
  constructor
  · rintro ⟨f, h, _⟩; exact ⟨f, h⟩
  · rintro ⟨f, h⟩; exact ⟨f, h, h⟩

/-! ### signs and cells of boundary faces -/

/-- On boundary faces (in any order, repetitions allowed) `signs_and_cells_of_boundary_faces`
    succeeds and returns, position by position, the sign and the cell of the stored entry of the
    face (which is unique, `boundary_iff_one_cell`). -/
theorem signs_cells_boundary_spec (t : Topo) (faces : List Nat)
    (hb : ∀ f ∈ faces, f ∈ boundaryFaces t) :
    ∃ r, signsAndCells t faces = some r ∧ r.length = faces.length ∧
      ∀ (i f : Nat) (sc : Int × Nat), faces[i]? = some f → r[i]? = some sc →
        (⟨f, sc.2, sc.1⟩ : Inc) ∈ t.cf := by
  have hc : ∀ f ∈ faces, count t f = 1 := by
    intro f hf
    have := hb f hf
    unfold boundaryFaces isBoundary at this
    simp only [List.mem_filter, Bool.and_eq_true, beq_iff_eq] at this
    exact this.2.2
  have hsum : (faces.map (count t)).sum = faces.length := by
    clear hb
    induction faces with
    | nil => rfl
    | cons a l ih =>
      simp only [List.map_cons, List.sum_cons, List.length_cons]
      rw [ih (fun f hf => hc f (List.mem_cons_of_mem _ hf)), hc a (by simp)]; omega
  unfold signsAndCells
  rw [if_pos hsum]
  refine ⟨_, rfl, by simp, ?_⟩
  intro i a sc hi hr
  rw [List.getElem?_map, hi] at hr
  simp only [Option.map_some, Option.some.injEq] at hr
  subst hr
  have h1 := hc a (List.mem_of_getElem? hi)
  cases hfind : t.cf.find? (fun e => e.face == a) with
  | none =>
    have : entriesOf t.cf a = [] := by
      unfold entriesOf
      rw [List.filter_eq_nil_iff]
      intro e he
      exact List.find?_eq_none.mp hfind e he
    unfold count at h1
    rw [this] at h1
    cases h1
  | some e =>
    have hmem := List.mem_of_find?_eq_some hfind
    have hface := List.find?_some hfind
    simp only [beq_iff_eq] at hface
    have : (⟨a, e.cell, e.sign⟩ : Inc) = e := by cases e; simp_all
    simp only [this]
    exact hmem

/-- A query that contains an internal face raises ValueError (on grids where every face has a
    cell, which is every grid porepy builds). -/
theorem signs_cells_internal_errors (t : Topo) (hno : NoOrphan t) (faces : List Nat)
    (hr : ∀ f ∈ faces, f < t.nf) (hint : ∃ f ∈ faces, 2 ≤ count t f) :
    signsAndCells t faces = none := by
  have hge : ∀ l : List Nat, (∀ f ∈ l, 1 ≤ count t f) → l.length ≤ (l.map (count t)).sum := by
    intro l hl
    induction l with
    | nil => simp
    | cons a l ih =>
      have := ih (fun f hf => hl f (List.mem_cons_of_mem _ hf))
      have := hl a (by simp)
      simp only [List.map_cons, List.sum_cons, List.length_cons]; omega
  have hgt : ∀ l : List Nat, (∀ f ∈ l, 1 ≤ count t f) → (∃ f ∈ l, 2 ≤ count t f) →
      l.length < (l.map (count t)).sum := by
    intro l hl hex
    induction l with
    | nil => obtain ⟨f, hf, _⟩ := hex; cases hf
    | cons a l ih =>
      simp only [List.map_cons, List.sum_cons, List.length_cons]
      have hl' : ∀ f ∈ l, 1 ≤ count t f := fun f hf => hl f (List.mem_cons_of_mem _ hf)
      obtain ⟨f, hf, h2⟩ := hex
      rcases List.mem_cons.mp hf with rfl | hf
      · have := hge l hl'; omega
      · have := ih hl' ⟨f, hf, h2⟩
        have := hl a (by simp); omega
  have h1 : ∀ f ∈ faces, 1 ≤ count t f := fun f hf => hno f (List.mem_range.mpr (hr f hf))
  have := hgt faces h1 hint
  unfold signsAndCells
  rw [if_neg (by omega)]

/-! ### cell-node map -/

/-- `cell_nodes[n, c]` is True iff node n belongs to a face adjacent to cell c. -/
theorem cell_nodes_spec (t : Topo) (c n : Nat) :
    n ∈ cellNodes t c ↔ ∃ f, Incident t f c ∧ n ∈ t.fn.getD f [] := by
  unfold cellNodes Incident
  simp only [List.mem_flatMap, List.mem_filter, Bool.and_eq_true, beq_iff_eq, bne_iff_ne, ne_eq]
  constructor
  · rintro ⟨e, ⟨he, hc, hs⟩, hn⟩
    refine ⟨e.face, ⟨e.sign, hs, ?_⟩, hn⟩
    have : (⟨e.face, c, e.sign⟩ : Inc) = e := by cases e; simp_all
    rw [this]; exact he
  · rintro ⟨f, ⟨s, hs, he⟩, hn⟩
    exact ⟨_, ⟨he, rfl, hs⟩, hn⟩

/-- `num_cell_nodes[c]` is the number of distinct such nodes. -/
theorem num_cell_nodes_spec (t : Topo) (c : Nat) :
    ∃ l : List Nat, l.Nodup ∧ (∀ n, n ∈ l ↔ ∃ f, Incident t f c ∧ n ∈ t.fn.getD f []) ∧
      numCellNodes t c = l.length :=
  ⟨dedup (cellNodes t c), nodup_dedup _,
    fun n => by rw [mem_dedup, cell_nodes_spec], rfl⟩

/-! ### divergence -/

/-- The scalar divergence is the transposed incidence: entry (c, f) is the stored sign of (f, c),
    and 0 where nothing is stored. -/
theorem scalar_div_matches_incidence (t : Topo) (h : WF t) :
    ∃ ts, divergence t 1 = some ts ∧
      (∀ f c s, (⟨f, c, s⟩ : Inc) ∈ t.cf → entry ts c f = s) ∧
      (∀ f c, (∀ s, (⟨f, c, s⟩ : Inc) ∉ t.cf) → entry ts c f = 0) := by
  refine ⟨t.cf.map (fun e => (e.cell, e.face, e.sign)), by simp [divergence], ?_, ?_⟩
  · intro f c s hmem
    rw [entry_scalar]
    have hl : t.cf.filter (fun e => e.cell == c && e.face == f) = [⟨f, c, s⟩] := by
      have hin : (⟨f, c, s⟩ : Inc) ∈ t.cf.filter (fun e => e.cell == c && e.face == f) := by
        simp [List.mem_filter, hmem]
      have hle : (t.cf.filter (fun e => e.cell == c && e.face == f)).length ≤ 1 := by
        apply length_le_one_of_all_eq (List.Nodup.sublist List.filter_sublist h.nodup)
        intro a ha b hb
        simp only [List.mem_filter, Bool.and_eq_true, beq_iff_eq] at ha hb
        exact h.uniq ha.1 hb.1 (ha.2.2.trans hb.2.2.symm) (Or.inr (ha.2.1.trans hb.2.1.symm))
      exact eq_singleton_of_mem_of_length_le_one hin hle
    rw [hl]; simp
  · intro f c hnone
    rw [entry_scalar]
    have hl : t.cf.filter (fun e => e.cell == c && e.face == f) = [] := by
      rw [List.filter_eq_nil_iff]
      intro e he hcond
      simp only [Bool.and_eq_true, beq_iff_eq] at hcond
      apply hnone e.sign
      have : (⟨f, c, e.sign⟩ : Inc) = e := by cases e; simp_all
      rw [this]; exact he
    rw [hl]; rfl

/-- The vector divergence equals the scalar one expanded per component (Kronecker product with
    the identity), for EVERY topology and every dim ≥ 1:
    `div_dim[c·dim + k, f·dim + l] = δ_{kl} · div_1[c, f]`. -/
theorem vector_div_is_kron (t : Topo) (d : Nat) (hd : 1 ≤ d) :
    ∃ tv ts, divergence t (d : Int) = some tv ∧ divergence t 1 = some ts ∧
      ∀ r c, entry tv r c = if r % d = c % d then entry ts (r / d) (c / d) else 0 := by
  by_cases h1 : d = 1
  · subst h1
    refine ⟨t.cf.map (fun e => (e.cell, e.face, e.sign)), t.cf.map (fun e => (e.cell, e.face, e.sign)),
      by simp [divergence], by simp [divergence], ?_⟩
    intro r c
    simp [Nat.mod_one]
  · have hgt : (d : Int) > 1 := by omega
    have hne : (d : Int) ≠ 1 := by omega
    refine ⟨t.cf.flatMap (fun e => (List.range d).map (fun k => (e.cell * d + k, e.face * d + k, e.sign))),
      t.cf.map (fun e => (e.cell, e.face, e.sign)), ?_, by simp [divergence], ?_⟩
    · simp only [divergence, if_neg hne, if_pos hgt, Int.toNat_natCast]
    · intro r c
      exact entry_vector t.cf d (by omega) r c

/-- `divergence(dim)` with dim ≤ 0 raises ValueError. -/
theorem divergence_nonpositive_errors (t : Topo) (d : Int) (hd : d ≤ 0) : divergence t d = none := by
  unfold divergence
  rw [if_neg (by omega), if_neg (by omega)]

/-! ### non-vacuity: concrete grids satisfy the hypotheses, and the queries give what porepy gives -/

/-- `pp.CartGrid([2, 1])`: 2 cells, 7 faces, 6 nodes (incidence in csc storage order) -/
def exCart : Topo :=
  { dim := 2, nf := 7, nc := 2, nn := 6,
    cf := [⟨0, 0, -1⟩, ⟨1, 0, 1⟩, ⟨3, 0, -1⟩, ⟨5, 0, 1⟩, ⟨1, 1, -1⟩, ⟨2, 1, 1⟩, ⟨4, 1, -1⟩, ⟨6, 1, 1⟩],
    fn := [[0, 3], [1, 4], [2, 5], [0, 1], [1, 2], [3, 4], [4, 5]] }

/-- the same grid after splitting face 1 along a fracture: cell 1 now owns the new face 7 -/
def exSplit : Topo :=
  { dim := 2, nf := 8, nc := 2, nn := 8,
    cf := [⟨0, 0, -1⟩, ⟨1, 0, 1⟩, ⟨3, 0, -1⟩, ⟨5, 0, 1⟩, ⟨2, 1, 1⟩, ⟨4, 1, -1⟩, ⟨6, 1, 1⟩, ⟨7, 1, -1⟩],
    fn := [[0, 3], [1, 4], [2, 5], [0, 1], [6, 2], [3, 4], [7, 5], [6, 7]] }

example : WF exCart ∧ NoOrphan exCart ∧ WF exSplit ∧ NoOrphan exSplit := by decide +kernel

example : cellFacesAsDense exCart = ([-1, 0, 1, -1, -1, 0, 1], [0, 1, -1, 0, 1, -1, -1]) := by decide +kernel
example : boundaryFaces exCart = [0, 2, 3, 4, 5, 6] ∧ internalFaces exCart = [1] := by decide +kernel
example : boundaryFaces exSplit = [0, 1, 2, 3, 4, 5, 6, 7] ∧ internalFaces exSplit = [] := by decide +kernel
example : domainBoundaryFaces exSplit [1, 7] [] = [0, 2, 3, 4, 5, 6] := by decide +kernel
example : (0, 1) ∈ connPairs exCart ∧ (1, 0) ∈ connPairs exCart ∧ (0, 1) ∉ connPairs exSplit := by decide +kernel
example : signsAndCells exCart [6, 0, 3, 6] = some [(1, 1), (-1, 0), (-1, 0), (1, 1)] := by decide +kernel
example : signsAndCells exCart [0, 1] = none := by decide +kernel
example : cellNodes exCart 1 = [1, 4, 2, 5, 1, 2, 4, 5] ∧ numCellNodes exCart 1 = 4 := by decide +kernel
example : divergence exCart 1 = some [(0, 0, -1), (0, 1, 1), (0, 3, -1), (0, 5, 1), (1, 1, -1), (1, 2, 1), (1, 4, -1), (1, 6, 1)] := by
  decide +kernel
example : (divergence exCart 2).map (fun tr => (entry tr 1 3, entry tr 1 2, entry tr 2 2, entry tr 3 13)) = some (1, 0, -1, 1) := by
  decide +kernel
example : divergence exCart 0 = none ∧ divergence exCart (-2) = none := by decide +kernel

/-- the well-formedness hypothesis is needed: on a face with three cells (+, −, +), which the
    orientation check of the `Grid` constructor accepts, the dense array forgets cell 0 -/
example :
    let t : Topo := { dim := 1, nf := 1, nc := 3, nn := 1, cf := [⟨0, 0, 1⟩, ⟨0, 1, -1⟩, ⟨0, 2, 1⟩], fn := [[0]] }
    ¬ WF t ∧ (⟨0, 0, 1⟩ : Inc) ∈ t.cf ∧ (cellFacesAsDense t).1[0]? = some 2 := by decide +kernel

end PorepyVerif.C21
