/- C21 line-protocol driver: `lake env lean --run PorepyVerif/C21/Driver.lean`

one op per case:
{"op":"grid","dim":2,"nf":..,"nc":..,"nn":..,"cf_indptr":[..],"cf_indices":[..],"cf_data":[..],
 "fn_indptr":[..],"fn_indices":[..],"frac":[..],"tip":[..],"sc":[[faces],..],"div":[dims]}
-/
import PorepyVerif.Common.Wire
import PorepyVerif.C21.Model
open Lean PV PorepyVerif.C21

def ofPair (p : Nat × Nat) : Json := ofNats [p.1, p.2]

def ofTrip (x : Nat × Nat × Int) : Json := ofInts [(x.1 : Int), (x.2.1 : Int), x.2.2]

def scJson (r : Option (List (Int × Nat))) : Json :=
  match r with
  | none => err "ValueError"
  | some l => obj [("sgn", ofInts (l.map (·.1))), ("ci", ofNats (l.map (·.2)))]

def divJson (r : Option Triplets) : Json :=
  match r with
  | none => err "ValueError"
  | some tr => ofList ofTrip tr

def run (j : Json) : R Json := do
  let op ← fStr j "op"
  if op != "grid" then throw s!"unknown op {op}" else
  let dim ← fNat j "dim"
  let nf ← fNat j "nf"
  let nc ← fNat j "nc"
  let nn ← fNat j "nn"
  let cp ← fNats j "cf_indptr"
  let ci ← fNats j "cf_indices"
  let cd ← fInts j "cf_data"
  let fp ← fNats j "fn_indptr"
  let fi ← fNats j "fn_indices"
  let frac ← fNats j "frac"
  let tip ← fNats j "tip"
  let sc ← fNatss j "sc"
  let dv ← fInts j "div"
  if cp.length != nc + 1 then throw "cf_indptr length" else
  if fp.length != nf + 1 then throw "fn_indptr length" else
  if ci.length != cd.length then throw "cf data length" else
  let t : Topo := { dim := dim, nf := nf, nc := nc, nn := nn, cf := fromCsc cp ci cd,
                    fn := faceNodesFromCsc fp fi }
  if t.cf.length != ci.length then throw "cf_indptr does not cover the entries" else
  let d := cellFacesAsDense t
  pure (obj [
    ("wf", Json.bool (decide (WF t))),
    ("noorphan", Json.bool (decide (NoOrphan t))),
    ("dense", ofList ofInts [d.1, d.2]),
    ("conn", ofList ofPair (connPairs t)),
    ("bnd", ofNats (boundaryFaces t)),
    ("internal", ofNats (internalFaces t)),
    ("dom", ofNats (domainBoundaryFaces t frac tip)),
    ("sc", ofList scJson (sc.map (signsAndCells t))),
    ("cn", ofList ofNats ((List.range nc).map (cellNodes t))),
    ("ncn", ofNats ((List.range nc).map (numCellNodes t))),
    ("div", ofList divJson (dv.map (divergence t)))])

def main : IO Unit := runPure run
