/- C21 line-protocol driver: `lake env lean --run PorepyVerif/C21/Driver.lean`

one op per case:
{"op":"grid","dim":2,"nf":..,"nc":..,"nn":..,"cf_indptr":[..],"cf_indices":[..],"cf_data":[..],
 "fn_indptr":[..],"fn_indices":[..],"frac":[..],"tip":[..],"sc":[[faces],..],"div":[dims]}
-/
import PorepyVerif.Common.Wire
import PorepyVerif.C21.Model
open Lean PV PorepyVerif.C21

def ofPair (p : Nat × Nat) : Json := ofNats [p.1, p.2]

def ofTrip (x : Nat × Nat × Int) : Json := ofInts [(x.1 : Int), (x.2.1 : Int), x.2.2]

def scJson (r : Option (List (Int × Nat))) : Json :=
  match r with
  | none => err "ValueError"
  | some l => obj [("sgn", ofInts (l.map (·.1))), ("ci", ofNats (l.map (·.2)))]

def divJson (r : Option Triplets) : Json :=
  match r with
  | none => err "ValueError"
  | some tr => ofList ofTrip tr

def jBools (j : Json) : R (List Bool) := jList jBool j
def fBools (j : Json) (k : String) : R (List Bool) := field j k >>= jBools
def ofBools (l : List Bool) : Json := ofList Json.bool l

def jTags (j : Json) : R Tags :=
  jList (fun kv => do
    let k ← fStr kv "k"
    let v ← fBools kv "v"
    pure (k, v)) j

def ofTags (tg : Tags) : Json := ofList (fun kv => obj [("k", Json.str kv.1), ("v", ofBools kv.2)]) tg

def ofOptTags (r : Option Tags) : Json :=
  match r with
  | none => err "KeyError"
  | some tg => ofTags tg

def readTopo (j : Json) : R Topo := do
  let dim ← fNat j "dim"
  let nf ← fNat j "nf"
  let nc ← fNat j "nc"
  let nn ← fNat j "nn"
  let cp ← fNats j "cf_indptr"
  let ci ← fNats j "cf_indices"
  let cd ← fInts j "cf_data"
  let fp ← fNats j "fn_indptr"
  let fi ← fNats j "fn_indices"
  if cp.length != nc + 1 then throw "cf_indptr length" else
  if fp.length != nf + 1 then throw "fn_indptr length" else
  if ci.length != cd.length then throw "cf data length" else
  let t : Topo := { dim := dim, nf := nf, nc := nc, nn := nn, cf := fromCsc cp ci cd,
                    fn := faceNodesFromCsc fp fi }
  if t.cf.length != ci.length then throw "cf_indptr does not cover the entries" else
  pure t


def ofInc (e : Inc) : Json := ofInts [(e.face : Int), (e.cell : Int), e.sign]

/-- tag arithmetic on the tags of the grid and on a free-standing dictionary -/
def runTags (j : Json) : R Json := do
  let t ← readTopo j
  let tg ← field j "tags" >>= jTags
  let fresh ← fBool j "fresh"
  let d ← field j "dict" >>= jTags
  let nw ← field j "new" >>= jTags
  let idx ← fNats j "idx"
  let keys ← field j "keys" >>= jList jStr
  let app ← field j "app" >>= jTags
  let nodeUpd := updateBoundaryNodeTag t tg
  let tdims ← fNats j "trace_dims"
  let bf := ((allFaceTags tg).map indicesOf).getD []
  let line := fieldD j "line" Json.null
  let lineJ ← (match line with
    | Json.null => pure Json.null
    | v => do
      let n ← jNat v
      let l := line1d n
      pure (obj [("nf", ofNat l.nf), ("nc", ofNat l.nc), ("nn", ofNat l.nn), ("cf", ofList ofInc l.cf),
                 ("fn", ofList ofNats l.fn), ("same", Json.bool (decide (l.cf = t.cf ∧ l.fn = t.fn ∧ l.nf = t.nf ∧ l.nc = t.nc)))]))
  pure (obj [
    ("all_bnd_nodes", ofOpt ofNats (getAllBoundaryNodes tg)),
    ("bnd_nodes", ofOpt ofNats (getTagged tg "domain_boundary_nodes")),
    ("bnd_faces", ofOpt ofNats (getTagged tg "domain_boundary_faces")),
    ("internal_nodes", ofOpt ofNats (getInternalNodes t tg)),
    ("trace", ofList (fun d => divJson (trace t bf d)) tdims),
    ("line", lineJ),
    ("all_face", ofOpt ofNats ((allFaceTags tg).map indicesOf)),
    ("all_node", ofOpt ofNats ((allNodeTags tg).map indicesOf)),
    ("node_upd", ofOptTags (nodeUpd.map (fun r => r.filter (fun kv => standardNodeTags.contains kv.1)))),
    ("dom_nodes", ofOpt ofBools ((tg.get "domain_boundary_faces").map (nodeTagFromFaces t))),
    ("fresh", if fresh then ofOptTags (freshTags t) else Json.null),
    ("add", ofTags (addTags d nw)),
    ("extract", ofOptTags (extractTags d idx keys)),
    ("append", ofOptTags (appendTags d app))])

def runExtract (j : Json) : R Json := do
  let t ← readTopo j
  let cells ← fNats j "cells"
  let r := extractSubgrid t cells
  pure (obj [
    ("nf", ofNat r.1.nf), ("nc", ofNat r.1.nc), ("nn", ofNat r.1.nn),
    ("cf", ofList ofInc r.1.cf), ("fn", ofList ofNats r.1.fn),
    ("faces", ofNats r.2.1), ("nodes", ofNats r.2.2),
    ("wf", Json.bool (decide (WF r.1)))])

def run (j : Json) : R Json := do
  let op ← fStr j "op"
  if op == "tags" then runTags j else
  if op == "extract" then runExtract j else
  if op != "grid" then throw s!"unknown op {op}" else
  let dim ← fNat j "dim"
  let nf ← fNat j "nf"
  let nc ← fNat j "nc"
  let nn ← fNat j "nn"
  let cp ← fNats j "cf_indptr"
  let ci ← fNats j "cf_indices"
  let cd ← fInts j "cf_data"
  let fp ← fNats j "fn_indptr"
  let fi ← fNats j "fn_indices"
  let frac ← fNats j "frac"
  let tip ← fNats j "tip"
  let sc ← fNatss j "sc"
  let dv ← fInts j "div"
  let flux ← fRatss j "flux"
  if cp.length != nc + 1 then throw "cf_indptr length" else
  if fp.length != nf + 1 then throw "fn_indptr length" else
  if ci.length != cd.length then throw "cf data length" else
  let t : Topo := { dim := dim, nf := nf, nc := nc, nn := nn, cf := fromCsc cp ci cd,
                    fn := faceNodesFromCsc fp fi }
  if t.cf.length != ci.length then throw "cf_indptr does not cover the entries" else
  let d := cellFacesAsDense t
  pure (obj [
    ("wf", Json.bool (decide (WF t))),
    ("noorphan", Json.bool (decide (NoOrphan t))),
    ("dense", ofList ofInts [d.1, d.2]),
    ("conn", ofList ofPair (connPairs t)),
    ("bnd", ofNats (boundaryFaces t)),
    ("internal", ofNats (internalFaces t)),
    ("dom", ofNats (domainBoundaryFaces t frac tip)),
    ("sc", ofList scJson (sc.map (signsAndCells t))),
    ("cn", ofList ofNats ((List.range nc).map (cellNodes t))),
    ("ncn", ofNats ((List.range nc).map (numCellNodes t))),
    ("div", ofList divJson (dv.map (divergence t))),
    ("divu", ofList (fun (p : Int × List Rat) =>
        match divergence t p.1 with
        | none => err "ValueError"
        | some tr => ofRats ((List.range (nc * p.1.toNat)).map (applyTrip tr (fun i => p.2.getD i 0))))
      (dv.zip flux))])

def main : IO Unit := runPure run
