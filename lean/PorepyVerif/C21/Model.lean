/-
C21 — executable model of the connectivity queries of `porepy.grids.grid.Grid` (core Lean only).

A grid topology is what the implementation stores: the signed cell-face incidence
(`cell_faces`, a csc matrix `num_faces × num_cells` with entries ±1) as the list of its stored
entries `(face, cell, sign)` IN STORAGE ORDER (column = cell major, as in `indices`/`data`), and
the face-node relation (`face_nodes`, csc `num_nodes × num_faces`) as the list of node lists of
the faces.  Every query below is written branch for branch as in `grid.py`:

  cell_faces_as_dense, cell_connection_map, update_boundary_face_tag / get_all_boundary_faces /
  get_internal_faces, signs_and_cells_of_boundary_faces, cell_nodes, num_cell_nodes, divergence.
-/
namespace PorepyVerif.C21

/-- one stored entry of `cell_faces` -/
structure Inc where
  face : Nat
  cell : Nat
  sign : Int
deriving DecidableEq, Repr

structure Topo where
  dim : Nat
  nf : Nat            -- num_faces
  nc : Nat            -- num_cells
  nn : Nat            -- num_nodes
  cf : List Inc       -- stored entries of cell_faces, storage (csc) order
  fn : List (List Nat) -- nodes of face 0, 1, ... (columns of face_nodes)
deriving DecidableEq, Repr

/-! ### reading the compressed arrays (what the harness sends) -/

/-- entries `lo ≤ k < hi` of a list -/
def slice (l : List α) (lo hi : Nat) : List α := (l.drop lo).take (hi - lo)

/-- column pointers `p₀ p₁ …` → list of (column, lo, hi) -/
def columns : Nat → List Nat → List (Nat × Nat × Nat)
  | j, a :: b :: rest => (j, a, b) :: columns (j + 1) (b :: rest)
  | _, _ => []

/-- `csc_matrix((data, indices, indptr))` of `cell_faces` → stored entries in storage order -/
def fromCsc (indptr indices : List Nat) (data : List Int) : List Inc :=
  (columns 0 indptr).flatMap (fun (c, lo, hi) =>
    (slice (indices.zip data) lo hi).map (fun (f, s) => ⟨f, c, s⟩))

/-- `face_nodes` (csc) → node list per face -/
def faceNodesFromCsc (indptr indices : List Nat) : List (List Nat) :=
  (columns 0 indptr).map (fun (_, lo, hi) => slice indices lo hi)

/-! ### queries -/

/-- stored entries in the row of face `f` -/
def entriesOf (cf : List Inc) (f : Nat) : List Inc := cf.filter (fun e => e.face == f)

/-- `np.diff(cell_faces.tocsr().indptr)[f]`: number of stored entries in row `f` -/
def count (t : Topo) (f : Nat) : Nat := (entriesOf t.cf f).length

/-- `cf_dense[row, fi[mask]] = ci[mask]`: numpy fancy assignment, the LAST stored entry of face `f`
    whose sign satisfies `p` wins (`sps.find` enumerates column-major = storage order per face). -/
def lastCell (p : Int → Bool) : List Inc → Nat → Option Nat
  | [], _ => none
  | e :: l, f =>
    match lastCell p l f with
    | some c => some c
    | none => if e.face == f && p e.sign then some e.cell else none

def denseRow (p : Int → Bool) (t : Topo) : List Int :=
  (List.range t.nf).map (fun f =>
    match lastCell p t.cf f with
    | some c => (c : Int)
    | none => -1)

/-- `Grid.cell_faces_as_dense`: (row 0, row 1); row 0 = cell with positive sign, row 1 = cell with
    negative sign, −1 = no such cell.  (`num_faces == 0` gives two empty rows.) -/
def cellFacesAsDense (t : Topo) : List Int × List Int :=
  (denseRow (fun s => decide (s > 0)) t, denseRow (fun s => decide (s < 0)) t)

/-- `Grid.cell_connection_map`: the (i, j) with `(|cf|ᵀ |cf|)[i, j] > 0`, as a list that may repeat
    pairs (a set; the harness sorts and removes repetitions on both sides). -/
def connPairs (t : Topo) : List (Nat × Nat) :=
  t.cf.flatMap (fun e =>
    ((entriesOf t.cf e.face).filter (fun e' => e.sign != 0 && e'.sign != 0)).map
      (fun e' => (e.cell, e'.cell)))

/-- `Grid.update_boundary_face_tag`: tag of face `f` -/
def isBoundary (t : Topo) (f : Nat) : Bool := decide (0 < t.dim) && count t f == 1

/-- faces tagged by `update_boundary_face_tag` (= `get_all_boundary_faces` of a fresh grid) -/
def boundaryFaces (t : Topo) : List Nat := (List.range t.nf).filter (isBoundary t)

/-- `Grid.get_internal_faces`: `setdiff1d(arange(num_faces), get_all_boundary_faces())` -/
def internalFaces (t : Topo) : List Nat := (List.range t.nf).filter (fun f => !isBoundary t f)

/-- `domain_boundary_faces` as the meshing code leaves it: boundary faces that are tagged neither
    fracture nor tip (`frac`, `tip` = indices of faces carrying those tags). -/
def domainBoundaryFaces (t : Topo) (frac tip : List Nat) : List Nat :=
  (boundaryFaces t).filter (fun f => !frac.contains f && !tip.contains f)

/-- `Grid.signs_and_cells_of_boundary_faces(faces)`: `none` = ValueError (number of stored entries
    in the selected rows differs from the number of faces); otherwise (sign, cell) of the entry of
    each face, in the order the faces were given. -/
def signsAndCells (t : Topo) (faces : List Nat) : Option (List (Int × Nat)) :=
  if (faces.map (count t)).sum = faces.length then
    some (faces.map (fun f =>
      match t.cf.find? (fun e => e.face == f) with
      | some e => (e.sign, e.cell)
      | none => (0, 0)))
  else none

/-- `Grid.cell_nodes`, column of cell `c`: nodes of the faces of `c` (with repetitions; a set). -/
def cellNodes (t : Topo) (c : Nat) : List Nat :=
  (t.cf.filter (fun e => e.cell == c && e.sign != 0)).flatMap (fun e => t.fn.getD e.face [])

/-- remove repetitions -/
def dedup : List Nat → List Nat
  | [] => []
  | a :: l => if a ∈ l then dedup l else a :: dedup l

/-- `Grid.num_cell_nodes`: number of distinct nodes of cell `c` -/
def numCellNodes (t : Topo) (c : Nat) : Nat := (dedup (cellNodes t c)).length

/-- sparse matrix as (row, column, value) triplets -/
abbrev Triplets := List (Nat × Nat × Int)

/-- `Grid.divergence(dim)`: `none` = ValueError.
    dim = 1: `cell_faces.T`; dim > 1: `kron(cell_faces, eye(dim)).T`, whose entries are
    `(c·dim + k, f·dim + k) ↦ sign` for every stored entry and every `k < dim`. -/
def divergence (t : Topo) (dim : Int) : Option Triplets :=
  if dim = 1 then some (t.cf.map (fun e => (e.cell, e.face, e.sign)))
  else if dim > 1 then
    some (t.cf.flatMap (fun e =>
      (List.range dim.toNat).map (fun k => (e.cell * dim.toNat + k, e.face * dim.toNat + k, e.sign))))
  else none

/-- value of the matrix represented by triplets at (r, c): repeated positions add up -/
def entry (tr : Triplets) (r c : Nat) : Int :=
  ((tr.filter (fun x => x.1 == r && x.2.1 == c)).map (fun x => x.2.2)).sum

/-! ### matrix-vector product (divergence applied to a flux vector) -/

/-- `(M @ u)[r]` for `M` given by triplets -/
def applyTrip : Triplets → (Nat → Rat) → Nat → Rat
  | [], _, _ => 0
  | x :: tr, u, r => (if x.1 = r then (x.2.2 : Rat) * u x.2.1 else 0) + applyTrip tr u r

/-! ### tag arithmetic (`porepy/utils/tags.py` and the tag helpers of `Grid`) -/

/-- a tag dictionary: key ↦ boolean array, in insertion order (python `dict`) -/
abbrev Tags := List (String × List Bool)

/-- `tags[key]` (`none` = KeyError) -/
def Tags.get : Tags → String → Option (List Bool)
  | [], _ => none
  | kv :: tg, key => if kv.1 = key then some kv.2 else Tags.get tg key

/-- `tags[key] = v` -/
def Tags.set : Tags → String → List Bool → Tags
  | [], key, v => [(key, v)]
  | kv :: tg, key, v => if kv.1 = key then (kv.1, v) :: tg else kv :: Tags.set tg key v

/-- `tags.standard_face_tags()` -/
def standardFaceTags : List String := ["fracture_faces", "tip_faces", "domain_boundary_faces"]

/-- `tags.standard_node_tags()` -/
def standardNodeTags : List String := ["fracture_nodes", "tip_nodes", "domain_boundary_nodes"]

/-- `np.logical_or` of two arrays of the same length -/
def orArr : List Bool → List Bool → List Bool
  | a :: as, b :: bs => (a || b) :: orArr as bs
  | _, _ => []

/-- `tags.all_tags(parent, ft)`: `logical_or(logical_or(parent[ft[0]], parent[ft[1]]), parent[ft[2]])` -/
def allTags (tg : Tags) (ft : List String) : Option (List Bool) :=
  match ft with
  | a :: b :: c :: _ =>
    match tg.get a, tg.get b, tg.get c with
    | some x, some y, some z => some (orArr (orArr x y) z)
    | _, _, _ => none
  | _ => none

def allFaceTags (tg : Tags) : Option (List Bool) := allTags tg standardFaceTags
def allNodeTags (tg : Tags) : Option (List Bool) := allTags tg standardNodeTags

/-- `tags.add_tags(parent, new_tags)`: `nt = dict(old); nt.update(new_tags)` -/
def addTags (old new : Tags) : Tags := new.foldl (fun acc kv => acc.set kv.1 kv.2) old

/-- `arr[indices]` (fancy indexing; `none` = IndexError) -/
def takeIdx (arr : List Bool) (idx : List Nat) : Option (List Bool) := idx.mapM (fun i => arr[i]?)

/-- `tags.extract(all_tags, indices, keys)`: the listed keys are re-indexed, the others untouched -/
def extractTags : Tags → List Nat → List String → Option Tags
  | tg, _, [] => some tg
  | tg, idx, k :: ks =>
    match tg.get k with
    | none => none
    | some v =>
      match takeIdx v idx, extractTags tg idx ks with
      | some w, some tg' => some (tg'.set k w)
      | _, _ => none

/-- `tags.append_tags(tags, keys, appendices)` -/
def appendTags : Tags → List (String × List Bool) → Option Tags
  | tg, [] => some tg
  | tg, (k, a) :: rest =>
    match tg.get k with
    | none => none
    | some v => appendTags (tg.set k (v ++ a)) rest

/-- `Grid._indices(true_false)` = `np.argwhere(...).ravel()` -/
def indicesOf (l : List Bool) : List Nat := (List.range l.length).filter (fun i => l.getD i false)

/-- node tag derived from a face tag (`Grid.update_boundary_node_tag`, one loop iteration; also
    `tags.add_node_tags_from_face_tags`): a node is tagged iff it belongs to a tagged face -/
def nodeTagFromFaces (t : Topo) (ft : List Bool) : List Bool :=
  (List.range t.nn).map (fun n =>
    (List.range t.nf).any (fun f => ft.getD f false && (t.fn.getD f []).contains n))

/-- `Grid.initiate_face_tags` / `initiate_node_tags`: zero arrays for the standard keys via `add_tags` -/
def initiateTags (keys : List String) (n : Nat) (tg : Tags) : Tags :=
  addTags tg (keys.map (fun k => (k, List.replicate n false)))

/-- `Grid.update_boundary_face_tag` on the dictionary -/
def updateBoundaryFaceTag (t : Topo) (tg : Tags) : Tags :=
  tg.set "domain_boundary_faces" ((List.range t.nf).map (isBoundary t))

/-- `Grid.update_boundary_node_tag` (the three node keys are distinct from the face keys, so reading
    the face tags first is the same as the loop of the code) -/
def updateBoundaryNodeTag (t : Topo) (tg : Tags) : Option Tags :=
  match tg.get "domain_boundary_faces", tg.get "fracture_faces", tg.get "tip_faces" with
  | some d, some f, some p =>
    some (((tg.set "domain_boundary_nodes" (nodeTagFromFaces t d)).set "fracture_nodes"
      (nodeTagFromFaces t f)).set "tip_nodes" (nodeTagFromFaces t p))
  | _, _, _ => none

/-- the tags of a grid as the constructor leaves them (`external_tags is None`) -/
def freshTags (t : Topo) : Option Tags :=
  updateBoundaryNodeTag t
    (initiateTags standardNodeTags t.nn (updateBoundaryFaceTag t (initiateTags standardFaceTags t.nf [])))

/-! ### subgrid extraction (`partition.extract_subgrid`, topology part) and face splitting -/

def insertSorted (a : Nat) : List Nat → List Nat
  | [] => [a]
  | b :: l => if a ≤ b then a :: b :: l else b :: insertSorted a l

/-- `np.sort` -/
def isort : List Nat → List Nat
  | [] => []
  | a :: l => insertSorted a (isort l)

/-- `np.unique` -/
def uniqueSorted (l : List Nat) : List Nat := dedup (isort l)

/-- columns `cs` of the incidence, renumbered `j, j+1, …` (rows not yet renumbered):
    `slice_sparse_matrix(cell_faces, c)` -/
def subEntries (cf : List Inc) : Nat → List Nat → List Inc
  | _, [] => []
  | j, c :: cs =>
    (cf.filter (fun e => e.cell == c)).map (fun e => ⟨e.face, j, e.sign⟩) ++ subEntries cf (j + 1) cs

/-- `extract_subgrid(g, c, sort=True)`: (subgrid topology, unique_faces, unique_nodes) -/
def extractSubgrid (t : Topo) (cells : List Nat) : Topo × List Nat × List Nat :=
  let cs := isort cells
  let sub := subEntries t.cf 0 cs
  let uf := uniqueSorted (sub.map (·.face))
  let fsel := uf.map (fun f => t.fn.getD f [])
  let un := uniqueSorted fsel.flatten
  ({ dim := t.dim, nf := uf.length, nc := cs.length, nn := un.length,
     cf := sub.map (fun e => ⟨uf.idxOf e.face, e.cell, e.sign⟩),
     fn := fsel.map (fun ns => ns.map (fun n => un.idxOf n)) }, uf, un)

/-- splitting face `f` along a fracture (`split_grid`): the entry of cell `c` on `f` moves to a new
    face (index `nf`) that copies the nodes of `f` -/
def splitFace (t : Topo) (f c : Nat) : Topo :=
  { t with nf := t.nf + 1,
           cf := t.cf.map (fun e => if e.face = f ∧ e.cell = c then ⟨t.nf, e.cell, e.sign⟩ else e),
           fn := t.fn ++ [t.fn.getD f []] }

/-! ### neighbouring entry points: node queries, trace operator, 1-d constructor -/

/-- `Grid.get_all_boundary_nodes` / `get_boundary_nodes` / `get_boundary_faces`: `_indices(tag)` -/
def getAllBoundaryNodes (tg : Tags) : Option (List Nat) := (allNodeTags tg).map indicesOf
def getTagged (tg : Tags) (key : String) : Option (List Nat) := (tg.get key).map indicesOf

/-- `Grid.get_internal_nodes`: `setdiff1d(arange(num_nodes), get_boundary_nodes())` -/
def getInternalNodes (t : Topo) (tg : Tags) : Option (List Nat) :=
  (getTagged tg "domain_boundary_nodes").map (fun b => (List.range t.nn).filter (fun n => !b.contains n))

/-- `Grid.trace(dim)` for dim ≥ 1, given `bf = get_all_boundary_faces()`: one unit entry
    `(f·dim + k, c·dim + k)` per boundary face f (with its cell c) and component k;
    `none` = ValueError raised by `signs_and_cells_of_boundary_faces`. -/
def trace (t : Topo) (bf : List Nat) (dim : Nat) : Option Triplets :=
  match signsAndCells t bf with
  | none => none
  | some sc =>
    some ((bf.zip sc).flatMap (fun p =>
      (List.range dim).map (fun k => (p.1 * dim + k, p.2.2 * dim + k, (1 : Int)))))

/-- `TensorGrid._create_1d_grid`: cell c has faces c (sign −1) and c+1 (sign +1), stored cell by cell -/
def lineCf : Nat → List Inc
  | 0 => []
  | n + 1 => lineCf n ++ [⟨n, n, -1⟩, ⟨n + 1, n, 1⟩]

/-- topology of `TensorGrid(x)` / `CartGrid(n)` in 1-d with n cells -/
def line1d (n : Nat) : Topo :=
  { dim := 1, nf := n + 1, nc := n, nn := n + 1, cf := lineCf n, fn := (List.range (n + 1)).map (fun i => [i]) }

/-! ### specification vocabulary and well-formed topologies (hypothesis of the theorems) -/

/-- cell `c` is adjacent to face `f`: the incidence stores a non-zero entry at (f, c) -/
def Incident (t : Topo) (f c : Nat) : Prop := ∃ s : Int, s ≠ 0 ∧ (⟨f, c, s⟩ : Inc) ∈ t.cf

/-- Every stored sign is ±1 and indices are in range; two stored entries of the same face with the
    same sign, or with the same cell, are the same entry; no entry is stored twice; one node list
    per face.  Consequently (`Props.wf_face_has_at_most_two_cells`) every face has 0, 1 or 2
    incident cells, with opposite signs when 2. -/
def WF (t : Topo) : Prop :=
  (∀ e ∈ t.cf, (e.sign = 1 ∨ e.sign = -1) ∧ e.face < t.nf ∧ e.cell < t.nc) ∧
  (∀ e ∈ t.cf, ∀ e' ∈ t.cf, e.face = e'.face → (e.sign = e'.sign ∨ e.cell = e'.cell) → e = e') ∧
  t.cf.Nodup ∧ t.fn.length = t.nf

instance (t : Topo) : Decidable (WF t) := by unfold WF; infer_instance

/-- every face has at least one cell (true of every grid porepy builds) -/
def NoOrphan (t : Topo) : Prop := ∀ f ∈ List.range t.nf, 1 ≤ count t f

instance (t : Topo) : Decidable (NoOrphan t) := by unfold NoOrphan; infer_instance

end PorepyVerif.C21
