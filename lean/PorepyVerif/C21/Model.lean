/-
C21 — executable model of the connectivity queries of `porepy.grids.grid.Grid` (core Lean only).

A grid topology is what the implementation stores: the signed cell-face incidence
(`cell_faces`, a csc matrix `num_faces × num_cells` with entries ±1) as the list of its stored
entries `(face, cell, sign)` IN STORAGE ORDER (column = cell major, as in `indices`/`data`), and
the face-node relation (`face_nodes`, csc `num_nodes × num_faces`) as the list of node lists of
the faces.  Every query below is written branch for branch as in `grid.py`:

  cell_faces_as_dense, cell_connection_map, update_boundary_face_tag / get_all_boundary_faces /
  get_internal_faces, signs_and_cells_of_boundary_faces, cell_nodes, num_cell_nodes, divergence.
-/
namespace PorepyVerif.C21

/-- one stored entry of `cell_faces` -/
structure Inc where
  face : Nat
  cell : Nat
  sign : Int
deriving DecidableEq, Repr

structure Topo where
  dim : Nat
  nf : Nat            -- num_faces
  nc : Nat            -- num_cells
  nn : Nat            -- num_nodes
  cf : List Inc       -- stored entries of cell_faces, storage (csc) order
  fn : List (List Nat) -- nodes of face 0, 1, ... (columns of face_nodes)
deriving Repr

/-! ### reading the compressed arrays (what the harness sends) -/

/-- entries `lo ≤ k < hi` of a list -/
def slice (l : List α) (lo hi : Nat) : List α := (l.drop lo).take (hi - lo)

/-- column pointers `p₀ p₁ …` → list of (column, lo, hi) -/
def columns : Nat → List Nat → List (Nat × Nat × Nat)
  | j, a :: b :: rest => (j, a, b) :: columns (j + 1) (b :: rest)
  | _, _ => []

/-- `csc_matrix((data, indices, indptr))` of `cell_faces` → stored entries in storage order -/
def fromCsc (indptr indices : List Nat) (data : List Int) : List Inc :=
  (columns 0 indptr).flatMap (fun (c, lo, hi) =>
    (slice (indices.zip data) lo hi).map (fun (f, s) => ⟨f, c, s⟩))

/-- `face_nodes` (csc) → node list per face -/
def faceNodesFromCsc (indptr indices : List Nat) : List (List Nat) :=
  (columns 0 indptr).map (fun (_, lo, hi) => slice indices lo hi)

/-! ### queries -/

/-- stored entries in the row of face `f` -/
def entriesOf (cf : List Inc) (f : Nat) : List Inc := cf.filter (fun e => e.face == f)

/-- `np.diff(cell_faces.tocsr().indptr)[f]`: number of stored entries in row `f` -/
def count (t : Topo) (f : Nat) : Nat := (entriesOf t.cf f).length

/-- `cf_dense[row, fi[mask]] = ci[mask]`: numpy fancy assignment, the LAST stored entry of face `f`
    whose sign satisfies `p` wins (`sps.find` enumerates column-major = storage order per face). -/
def lastCell (p : Int → Bool) : List Inc → Nat → Option Nat
  | [], _ => none
  | e :: l, f =>
    match lastCell p l f with
    | some c => some c
    | none => if e.face == f && p e.sign then some e.cell else none

def denseRow (p : Int → Bool) (t : Topo) : List Int :=
  (List.range t.nf).map (fun f =>
    match lastCell p t.cf f with
    | some c => (c : Int)
    | none => -1)

/-- `Grid.cell_faces_as_dense`: (row 0, row 1); row 0 = cell with positive sign, row 1 = cell with
    negative sign, −1 = no such cell.  (`num_faces == 0` gives two empty rows.) -/
def cellFacesAsDense (t : Topo) : List Int × List Int :=
  (denseRow (fun s => decide (s > 0)) t, denseRow (fun s => decide (s < 0)) t)

/-- `Grid.cell_connection_map`: the (i, j) with `(|cf|ᵀ |cf|)[i, j] > 0`, as a list that may repeat
    pairs (a set; the harness sorts and removes repetitions on both sides). -/
def connPairs (t : Topo) : List (Nat × Nat) :=
  t.cf.flatMap (fun e =>
    ((entriesOf t.cf e.face).filter (fun e' => e.sign != 0 && e'.sign != 0)).map
      (fun e' => (e.cell, e'.cell)))

/-- `Grid.update_boundary_face_tag`: tag of face `f` -/
def isBoundary (t : Topo) (f : Nat) : Bool := decide (0 < t.dim) && count t f == 1

/-- faces tagged by `update_boundary_face_tag` (= `get_all_boundary_faces` of a fresh grid) -/
def boundaryFaces (t : Topo) : List Nat := (List.range t.nf).filter (isBoundary t)

/-- `Grid.get_internal_faces`: `setdiff1d(arange(num_faces), get_all_boundary_faces())` -/
def internalFaces (t : Topo) : List Nat := (List.range t.nf).filter (fun f => !isBoundary t f)

/-- `domain_boundary_faces` as the meshing code leaves it: boundary faces that are tagged neither
    fracture nor tip (`frac`, `tip` = indices of faces carrying those tags). -/
def domainBoundaryFaces (t : Topo) (frac tip : List Nat) : List Nat :=
  (boundaryFaces t).filter (fun f => !frac.contains f && !tip.contains f)

/-- `Grid.signs_and_cells_of_boundary_faces(faces)`: `none` = ValueError (number of stored entries
    in the selected rows differs from the number of faces); otherwise (sign, cell) of the entry of
    each face, in the order the faces were given. -/
def signsAndCells (t : Topo) (faces : List Nat) : Option (List (Int × Nat)) :=
  if (faces.map (count t)).sum = faces.length then
    some (faces.map (fun f =>
      match t.cf.find? (fun e => e.face == f) with
      | some e => (e.sign, e.cell)
      | none => (0, 0)))
  else none

/-- `Grid.cell_nodes`, column of cell `c`: nodes of the faces of `c` (with repetitions; a set). -/
def cellNodes (t : Topo) (c : Nat) : List Nat :=
  (t.cf.filter (fun e => e.cell == c && e.sign != 0)).flatMap (fun e => t.fn.getD e.face [])

/-- remove repetitions -/
def dedup : List Nat → List Nat
  | [] => []
  | a :: l => if a ∈ l then dedup l else a :: dedup l

/-- `Grid.num_cell_nodes`: number of distinct nodes of cell `c` -/
def numCellNodes (t : Topo) (c : Nat) : Nat := (dedup (cellNodes t c)).length

/-- sparse matrix as (row, column, value) triplets -/
abbrev Triplets := List (Nat × Nat × Int)

/-- `Grid.divergence(dim)`: `none` = ValueError.
    dim = 1: `cell_faces.T`; dim > 1: `kron(cell_faces, eye(dim)).T`, whose entries are
    `(c·dim + k, f·dim + k) ↦ sign` for every stored entry and every `k < dim`. -/
def divergence (t : Topo) (dim : Int) : Option Triplets :=
  if dim = 1 then some (t.cf.map (fun e => (e.cell, e.face, e.sign)))
  else if dim > 1 then
    some (t.cf.flatMap (fun e =>
      (List.range dim.toNat).map (fun k => (e.cell * dim.toNat + k, e.face * dim.toNat + k, e.sign))))
  else none

/-- value of the matrix represented by triplets at (r, c): repeated positions add up -/
def entry (tr : Triplets) (r c : Nat) : Int :=
  ((tr.filter (fun x => x.1 == r && x.2.1 == c)).map (fun x => x.2.2)).sum

/-! ### specification vocabulary and well-formed topologies (hypothesis of the theorems) -/

/-- cell `c` is adjacent to face `f`: the incidence stores a non-zero entry at (f, c) -/
def Incident (t : Topo) (f c : Nat) : Prop := ∃ s : Int, s ≠ 0 ∧ (⟨f, c, s⟩ : Inc) ∈ t.cf

/-- Every stored sign is ±1 and indices are in range; two stored entries of the same face with the
    same sign, or with the same cell, are the same entry; no entry is stored twice; one node list
    per face.  Consequently (`Props.wf_face_has_at_most_two_cells`) every face has 0, 1 or 2
    incident cells, with opposite signs when 2. -/
def WF (t : Topo) : Prop :=
  (∀ e ∈ t.cf, (e.sign = 1 ∨ e.sign = -1) ∧ e.face < t.nf ∧ e.cell < t.nc) ∧
  (∀ e ∈ t.cf, ∀ e' ∈ t.cf, e.face = e'.face → (e.sign = e'.sign ∨ e.cell = e'.cell) → e = e') ∧
  t.cf.Nodup ∧ t.fn.length = t.nf

instance (t : Topo) : Decidable (WF t) := by unfold WF; infer_instance

/-- every face has at least one cell (true of every grid porepy builds) -/
def NoOrphan (t : Topo) : Prop := ∀ f ∈ List.range t.nf, 1 ≤ count t f

instance (t : Topo) : Decidable (NoOrphan t) := by unfold NoOrphan; infer_instance

end PorepyVerif.C21
