/-
C21 — helper lemmas (property theorems are in Props.lean).
-/
import PorepyVerif.C21.Model

namespace PorepyVerif.C21

/-! ### rows of the incidence -/

theorem mem_entriesOf {cf : List Inc} {f : Nat} {e : Inc} :
    e ∈ entriesOf cf f ↔ e ∈ cf ∧ e.face = f := by
  simp [entriesOf]

theorem nodup_entriesOf {cf : List Inc} (h : cf.Nodup) (f : Nat) : (entriesOf cf f).Nodup :=
  List.Nodup.sublist List.filter_sublist h

theorem WF.sign {t : Topo} (h : WF t) {e : Inc} (he : e ∈ t.cf) : e.sign = 1 ∨ e.sign = -1 :=
  (h.1 e he).1

theorem WF.uniq {t : Topo} (h : WF t) {e e' : Inc} (he : e ∈ t.cf) (he' : e' ∈ t.cf)
    (hf : e.face = e'.face) (hs : e.sign = e'.sign ∨ e.cell = e'.cell) : e = e' :=
  h.2.1 e he e' he' hf hs

theorem WF.nodup {t : Topo} (h : WF t) : t.cf.Nodup := h.2.2.1

/-- a duplicate-free list whose elements are pairwise equal has at most one element -/
theorem length_le_one_of_all_eq {α : Type} {l : List α} (hn : l.Nodup)
    (h : ∀ a ∈ l, ∀ b ∈ l, a = b) : l.length ≤ 1 := by
  match l, hn, h with
  | [], _, _ => simp
  | [_], _, _ => simp
  | a :: b :: _, hn, h =>
    have hab : a = b := h a (by simp) b (by simp)
    rw [List.nodup_cons] at hn
    exact absurd (by rw [hab]; simp) hn.1

theorem eq_singleton_of_mem_of_length_le_one {α : Type} {l : List α} {x : α} (hx : x ∈ l)
    (hl : l.length ≤ 1) : l = [x] := by
  match l, hx, hl with
  | [], hx, _ => cases hx
  | [y], hx, _ =>
    simp only [List.mem_singleton] at hx
    rw [hx]
  | _ :: _ :: _, _, hl =>
    simp only [List.length_cons] at hl
    omega

/-- the stored entries of one face, split by sign, in a well-formed topology -/
theorem WF.length_sign {t : Topo} (h : WF t) (f : Nat) (s : Int) :
    ((entriesOf t.cf f).filter (fun e => e.sign == s)).length ≤ 1 := by
  apply length_le_one_of_all_eq (List.Nodup.sublist List.filter_sublist (nodup_entriesOf h.nodup f))
  intro a ha b hb
  simp only [List.mem_filter, mem_entriesOf, beq_iff_eq] at ha hb
  exact h.uniq ha.1.1 hb.1.1 (ha.1.2.trans hb.1.2.symm) (Or.inl (ha.2.trans hb.2.symm))

theorem WF.count_le_two {t : Topo} (h : WF t) (f : Nat) : count t f ≤ 2 := by
  have h1 := h.length_sign f 1
  have h2 := h.length_sign f (-1)
  have hsplit : ∀ l : List Inc, (∀ e ∈ l, e.sign = 1 ∨ e.sign = -1) →
      l.length = (l.filter (fun e => e.sign == 1)).length + (l.filter (fun e => e.sign == -1)).length := by
    intro l
    induction l with
    | nil => intro _; rfl
    | cons a l ih =>
      intro hl
      have iha := ih (fun e he => hl e (List.mem_cons_of_mem _ he))
      rcases hl a (by simp) with ha | ha
      · simp [ha, iha]; omega
      · simp [ha, iha]; omega
  have := hsplit (entriesOf t.cf f) (fun e he => h.sign (mem_entriesOf.mp he).1)
  unfold count
  omega

theorem WF.pair_opposite {t : Topo} (h : WF t) {f : Nat} {a b : Inc}
    (hab : entriesOf t.cf f = [a, b]) : a.sign = -b.sign ∧ a.cell ≠ b.cell := by
  have ha : a ∈ entriesOf t.cf f := by rw [hab]; simp
  have hb : b ∈ entriesOf t.cf f := by rw [hab]; simp
  have hne : a ≠ b := by
    have := nodup_entriesOf h.nodup f
    rw [hab] at this
    simpa using this
  rw [mem_entriesOf] at ha hb
  have hf : a.face = b.face := ha.2.trans hb.2.symm
  constructor
  · rcases h.sign ha.1 with h1 | h1 <;> rcases h.sign hb.1 with h2 | h2
    · exact absurd (h.uniq ha.1 hb.1 hf (Or.inl (h1.trans h2.symm))) hne
    · rw [h1, h2]; rfl
    · rw [h1, h2]
    · exact absurd (h.uniq ha.1 hb.1 hf (Or.inl (h1.trans h2.symm))) hne
  · intro hc
    exact hne (h.uniq ha.1 hb.1 hf (Or.inr hc))

/-! ### exactly one stored entry ⇔ exactly one adjacent cell -/

theorem count_eq_one_iff {t : Topo} (h : WF t) (f : Nat) :
    count t f = 1 ↔ ∃ c, (∃ s, (⟨f, c, s⟩ : Inc) ∈ t.cf) ∧ ∀ c', (∃ s, (⟨f, c', s⟩ : Inc) ∈ t.cf) → c' = c := by
  unfold count
  constructor
  · intro h1
    match hl : entriesOf t.cf f, h1 with
    | [e], _ =>
      have he : e ∈ entriesOf t.cf f := by rw [hl]; simp
      rw [mem_entriesOf] at he
      refine ⟨e.cell, ⟨e.sign, ?_⟩, ?_⟩
      · have : (⟨f, e.cell, e.sign⟩ : Inc) = e := by cases e; simp_all
        rw [this]; exact he.1
      · rintro c' ⟨s, hs⟩
        have : (⟨f, c', s⟩ : Inc) ∈ entriesOf t.cf f := mem_entriesOf.mpr ⟨hs, rfl⟩
        rw [hl] at this
        simp only [List.mem_singleton] at this
        rw [← this]
  · rintro ⟨c, ⟨s, hs⟩, huniq⟩
    have hmem : (⟨f, c, s⟩ : Inc) ∈ entriesOf t.cf f := mem_entriesOf.mpr ⟨hs, rfl⟩
    have hle : (entriesOf t.cf f).length ≤ 1 := by
      apply length_le_one_of_all_eq (nodup_entriesOf h.nodup f)
      intro a ha b hb
      rw [mem_entriesOf] at ha hb
      have hca : a.cell = c := huniq a.cell ⟨a.sign, by
        have : (⟨f, a.cell, a.sign⟩ : Inc) = a := by cases a; simp_all
        rw [this]; exact ha.1⟩
      have hcb : b.cell = c := huniq b.cell ⟨b.sign, by
        have : (⟨f, b.cell, b.sign⟩ : Inc) = b := by cases b; simp_all
        rw [this]; exact hb.1⟩
      exact h.uniq ha.1 hb.1 (ha.2.trans hb.2.symm) (Or.inr (hca.trans hcb.symm))
    have hpos : 0 < (entriesOf t.cf f).length := List.length_pos_of_mem hmem
    omega

/-! ### the dense face-cell array -/

theorem lastCell_some {p : Int → Bool} {cf : List Inc} {f c : Nat} (h : lastCell p cf f = some c) :
    ∃ e ∈ cf, e.face = f ∧ p e.sign = true ∧ e.cell = c := by
  induction cf with
  | nil => simp [lastCell] at h
  | cons a l ih =>
    unfold lastCell at h
    split at h
    · rename_i c' hc'
      cases h
      obtain ⟨e, he, h1⟩ := ih hc'
      exact ⟨e, List.mem_cons_of_mem _ he, h1⟩
    · split at h
      · rename_i hcond
        cases h
        simp only [Bool.and_eq_true, beq_iff_eq] at hcond
        exact ⟨a, by simp, hcond.1, hcond.2, rfl⟩
      · cases h

theorem lastCell_none {p : Int → Bool} {cf : List Inc} {f : Nat} :
    lastCell p cf f = none ↔ ∀ e ∈ cf, e.face = f → p e.sign = false := by
  induction cf with
  | nil => simp [lastCell]
  | cons a l ih =>
    unfold lastCell
    constructor
    · intro h
      split at h
      · cases h
      · rename_i hnone
        split at h
        · cases h
        · rename_i hcond
          intro e he hf
          rcases List.mem_cons.mp he with rfl | he
          · simp only [Bool.and_eq_true, beq_iff_eq, not_and, Bool.not_eq_true] at hcond
            exact hcond hf
          · exact ih.mp hnone e he hf
    · intro h
      have hl : lastCell p l f = none := ih.mpr (fun e he => h e (List.mem_cons_of_mem _ he))
      rw [hl]
      have := h a (by simp)
      by_cases hf : a.face = f
      · simp [hf, this hf]
      · simp [hf]

/-- in a well-formed topology the dense row built with a sign test that singles out `s ∈ {1,-1}`
    holds cell `c` at face `f` exactly when `(f, c, s)` is a stored entry -/
theorem lastCell_eq_some_iff {t : Topo} (h : WF t) {p : Int → Bool} {s : Int}
    (hp : ∀ x : Int, (x = 1 ∨ x = -1) → (p x = true ↔ x = s)) (f c : Nat) :
    lastCell p t.cf f = some c ↔ (⟨f, c, s⟩ : Inc) ∈ t.cf := by
  have fwd : ∀ c, lastCell p t.cf f = some c → (⟨f, c, s⟩ : Inc) ∈ t.cf := by
    intro c hc
    obtain ⟨e, he, hf, hps, hcell⟩ := lastCell_some hc
    have hs : e.sign = s := (hp e.sign (h.sign he)).mp hps
    have : (⟨f, c, s⟩ : Inc) = e := by cases e; simp_all
    rw [this]; exact he
  constructor
  · exact fwd c
  · intro hmem
    have hs : p s = true := (hp s (h.sign hmem)).mpr rfl
    cases hl : lastCell p t.cf f with
    | none =>
      have := lastCell_none.mp hl _ hmem rfl
      simp only at this
      rw [hs] at this
      cases this
    | some c' =>
      have h' := fwd c' hl
      have := h.uniq h' hmem rfl (Or.inl rfl)
      simp only [Inc.mk.injEq, true_and, and_true] at this
      rw [this]

theorem lastCell_eq_none_iff {t : Topo} (h : WF t) {p : Int → Bool} {s : Int}
    (hp : ∀ x : Int, (x = 1 ∨ x = -1) → (p x = true ↔ x = s)) (f : Nat) :
    lastCell p t.cf f = none ↔ ∀ c, (⟨f, c, s⟩ : Inc) ∉ t.cf := by
  constructor
  · intro hn c hmem
    have := (lastCell_eq_some_iff h hp f c).mpr hmem
    rw [hn] at this
    cases this
  · intro hall
    cases hl : lastCell p t.cf f with
    | none => rfl
    | some c => exact absurd ((lastCell_eq_some_iff h hp f c).mp hl) (hall c)

theorem denseRow_get (p : Int → Bool) (t : Topo) {f : Nat} (hf : f < t.nf) :
    (denseRow p t)[f]? = some (match lastCell p t.cf f with
      | some c => (c : Int)
      | none => -1) := by
  unfold denseRow
  rw [List.getElem?_map, List.getElem?_range hf]
  rfl

theorem posTest (x : Int) (hx : x = 1 ∨ x = -1) : (decide (x > 0) = true ↔ x = 1) := by
  rcases hx with rfl | rfl <;> decide

theorem negTest (x : Int) (hx : x = 1 ∨ x = -1) : (decide (x < 0) = true ↔ x = -1) := by
  rcases hx with rfl | rfl <;> decide

/-! ### connection map -/

theorem mem_connPairs {t : Topo} {i j : Nat} :
    (i, j) ∈ connPairs t ↔
      ∃ e ∈ t.cf, ∃ e' ∈ t.cf, e'.face = e.face ∧ e.sign ≠ 0 ∧ e'.sign ≠ 0 ∧ e.cell = i ∧ e'.cell = j := by
  unfold connPairs
  simp only [List.mem_flatMap, List.mem_map, List.mem_filter, mem_entriesOf, Prod.mk.injEq,
    Bool.and_eq_true, bne_iff_ne, ne_eq]
  constructor
  · rintro ⟨e, he, e', ⟨⟨he', hf⟩, hs, hs'⟩, hi, hj⟩
    exact ⟨e, he, e', he', hf, hs, hs', hi, hj⟩
  · rintro ⟨e, he, e', he', hf, hs, hs', hi, hj⟩
    exact ⟨e, he, e', ⟨⟨he', hf⟩, hs, hs'⟩, hi, hj⟩

/-! ### removing repetitions -/

theorem mem_dedup (a : Nat) (l : List Nat) : a ∈ dedup l ↔ a ∈ l := by
  induction l with
  | nil => simp [dedup]
  | cons b l ih =>
    unfold dedup
    by_cases h : b ∈ l
    · simp only [h, if_true, ih, List.mem_cons]
      constructor
      · intro hc; exact Or.inr hc
      · rintro (rfl | hc)
        · exact h
        · exact hc
    · simp only [h, if_false, List.mem_cons, ih]

theorem nodup_dedup (l : List Nat) : (dedup l).Nodup := by
  induction l with
  | nil => simp [dedup]
  | cons b l ih =>
    unfold dedup
    by_cases h : b ∈ l
    · simp only [h, if_true]; exact ih
    · simp only [h, if_false, List.nodup_cons]
      exact ⟨fun hb => h ((mem_dedup b l).mp hb), ih⟩

/-! ### triplets -/

theorem entry_nil (r c : Nat) : entry [] r c = 0 := rfl

theorem entry_cons (x : Nat × Nat × Int) (tr : Triplets) (r c : Nat) :
    entry (x :: tr) r c = (if x.1 = r ∧ x.2.1 = c then x.2.2 else 0) + entry tr r c := by
  unfold entry
  by_cases h : x.1 = r ∧ x.2.1 = c
  · simp [h]
  · rw [if_neg h]
    have : (x.1 == r && x.2.1 == c) = false := by
      simp only [Bool.and_eq_false_iff, beq_eq_false_iff_ne, ne_eq]
      by_cases h1 : x.1 = r
      · exact Or.inr (fun h2 => h ⟨h1, h2⟩)
      · exact Or.inl h1
    simp [this]

theorem entry_append (a b : Triplets) (r c : Nat) : entry (a ++ b) r c = entry a r c + entry b r c := by
  induction a with
  | nil => simp [entry_nil]
  | cons x a ih => rw [List.cons_append, entry_cons, entry_cons, ih]; omega

/-- the `dim` copies of one incidence entry contribute its sign at (r, c) exactly when r and c
    name the same component of that cell and that face -/
theorem entry_block (e : Inc) (d : Nat) (hd : 0 < d) (r c : Nat) (n : Nat) (hn : n ≤ d) :
    entry ((List.range n).map (fun k => (e.cell * d + k, e.face * d + k, e.sign))) r c
      = if r % d = c % d ∧ r % d < n ∧ e.cell = r / d ∧ e.face = c / d then e.sign else 0 := by
  induction n with
  | zero => simp [entry_nil]
  | succ n ih =>
    rw [List.range_succ, List.map_append, entry_append, ih (by omega)]
    simp only [List.map_cons, List.map_nil, entry_cons, entry_nil, Int.add_zero]
    have key : ∀ (a x : Nat), x < d → (a * d + x = r ↔ a = r / d ∧ x = r % d) := by
      intro a x hx
      constructor
      · intro h
        subst h
        constructor
        · rw [Nat.add_comm, Nat.add_mul_div_right _ _ hd, Nat.div_eq_of_lt hx]; omega
        · rw [Nat.add_comm, Nat.add_mul_mod_self_right, Nat.mod_eq_of_lt hx]
      · rintro ⟨rfl, rfl⟩
        rw [Nat.mul_comm]; exact Nat.div_add_mod r d
    have key2 : ∀ (a x : Nat), x < d → (a * d + x = c ↔ a = c / d ∧ x = c % d) := by
      intro a x hx
      constructor
      · intro h
        subst h
        constructor
        · rw [Nat.add_comm, Nat.add_mul_div_right _ _ hd, Nat.div_eq_of_lt hx]; omega
        · rw [Nat.add_comm, Nat.add_mul_mod_self_right, Nat.mod_eq_of_lt hx]
      · rintro ⟨rfl, rfl⟩
        rw [Nat.mul_comm]; exact Nat.div_add_mod c d
    have hnd : n < d := by omega
    have k1 := key e.cell n hnd
    have k2 := key2 e.face n hnd
    split <;> split <;> split <;> omega

/-- entry of the scalar divergence = sum of the signs stored for (face, cell) -/
theorem entry_scalar (cf : List Inc) (r c : Nat) :
    entry (cf.map (fun e => (e.cell, e.face, e.sign))) r c
      = ((cf.filter (fun e => e.cell == r && e.face == c)).map (·.sign)).sum := by
  induction cf with
  | nil => rfl
  | cons e l ih =>
    rw [List.map_cons, entry_cons, ih]
    by_cases h : e.cell = r ∧ e.face = c
    · simp [h]
    · rw [if_neg h]
      have : (e.cell == r && e.face == c) = false := by
        simp only [Bool.and_eq_false_iff, beq_eq_false_iff_ne, ne_eq]
        by_cases h1 : e.cell = r
        · exact Or.inr (fun h2 => h ⟨h1, h2⟩)
        · exact Or.inl h1
      simp [this]

theorem entry_vector (cf : List Inc) (d : Nat) (hd : 0 < d) (r c : Nat) :
    entry (cf.flatMap (fun e => (List.range d).map (fun k => (e.cell * d + k, e.face * d + k, e.sign)))) r c
      = if r % d = c % d then entry (cf.map (fun e => (e.cell, e.face, e.sign))) (r / d) (c / d) else 0 := by
  induction cf with
  | nil => simp [entry_nil]
  | cons e l ih =>
    rw [List.flatMap_cons, entry_append, ih, entry_block e d hd r c d (Nat.le_refl d), List.map_cons, entry_cons]
    have hlt : r % d < d := Nat.mod_lt _ hd
    dsimp only
    by_cases h : r % d = c % d
    · rw [if_pos h, if_pos h]
      by_cases h2 : e.cell = r / d ∧ e.face = c / d
      · rw [if_pos ⟨h, hlt, h2⟩, if_pos h2]
      · rw [if_neg (fun hh => h2 hh.2.2), if_neg h2]
    · rw [if_neg (fun hh => h hh.1), if_neg h, if_neg h]; rfl

end PorepyVerif.C21
