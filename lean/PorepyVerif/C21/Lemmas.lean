/-
C21 — helper lemmas (property theorems are in Props.lean).
-/
import PorepyVerif.C21.Model

namespace PorepyVerif.C21

/-! ### rows of the incidence -/

theorem mem_entriesOf {cf : List Inc} {f : Nat} {e : Inc} :
    e ∈ entriesOf cf f ↔ e ∈ cf ∧ e.face = f := by
  simp [entriesOf]

theorem nodup_entriesOf {cf : List Inc} (h : cf.Nodup) (f : Nat) : (entriesOf cf f).Nodup :=
  List.Nodup.sublist List.filter_sublist h

theorem WF.sign {t : Topo} (h : WF t) {e : Inc} (he : e ∈ t.cf) : e.sign = 1 ∨ e.sign = -1 :=
  (h.1 e he).1

theorem WF.uniq {t : Topo} (h : WF t) {e e' : Inc} (he : e ∈ t.cf) (he' : e' ∈ t.cf)
    (hf : e.face = e'.face) (hs : e.sign = e'.sign ∨ e.cell = e'.cell) : e = e' :=
  h.2.1 e he e' he' hf hs

theorem WF.nodup {t : Topo} (h : WF t) : t.cf.Nodup := h.2.2.1

/-- a duplicate-free list whose elements are pairwise equal has at most one element -/
theorem length_le_one_of_all_eq {α : Type} {l : List α} (hn : l.Nodup)
    (h : ∀ a ∈ l, ∀ b ∈ l, a = b) : l.length ≤ 1 := by
  match l, hn, h with
  | [], _, _ => simp
  | [_], _, _ => simp
  | a :: b :: _, hn, h =>
    have hab : a = b := h a (by simp) b (by simp)
    rw [List.nodup_cons] at hn
    exact absurd (by rw [hab]; simp) hn.1

theorem eq_singleton_of_mem_of_length_le_one {α : Type} {l : List α} {x : α} (hx : x ∈ l)
    (hl : l.length ≤ 1) : l = [x] := by
  match l, hx, hl with
  | [], hx, _ => cases hx
  | [y], hx, _ =>
    simp only [List.mem_singleton] at hx
    rw [hx]
  | _ :: _ :: _, _, hl =>
    simp only [List.length_cons] at hl
    omega

/-- the stored entries of one face, split by sign, in a well-formed topology -/
theorem WF.length_sign {t : Topo} (h : WF t) (f : Nat) (s : Int) :
    ((entriesOf t.cf f).filter (fun e => e.sign == s)).length ≤ 1 := by
  apply length_le_one_of_all_eq (List.Nodup.sublist List.filter_sublist (nodup_entriesOf h.nodup f))
  intro a ha b hb
  simp only [List.mem_filter, mem_entriesOf, beq_iff_eq] at ha hb
  exact h.uniq ha.1.1 hb.1.1 (ha.1.2.trans hb.1.2.symm) (Or.inl (ha.2.trans hb.2.symm))

theorem WF.count_le_two {t : Topo} (h : WF t) (f : Nat) : count t f ≤ 2 := by
  have h1 := h.length_sign f 1
  have h2 := h.length_sign f (-1)
  have hsplit : ∀ l : List Inc, (∀ e ∈ l, e.sign = 1 ∨ e.sign = -1) →
      l.length = (l.filter (fun e => e.sign == 1)).length + (l.filter (fun e => e.sign == -1)).length := by
    intro l
    induction l with
    | nil => intro _; rfl
    | cons a l ih =>
      intro hl
      have iha := ih (fun e he => hl e (List.mem_cons_of_mem _ he))
      rcases hl a (by simp) with ha | ha
      · simp [ha, iha]; omega
      · simp [ha, iha]; omega
  have := hsplit (entriesOf t.cf f) (fun e he => h.sign (mem_entriesOf.mp he).1)
  unfold count
  omega

theorem WF.pair_opposite {t : Topo} (h : WF t) {f : Nat} {a b : Inc}
    (hab : entriesOf t.cf f = [a, b]) : a.sign = -b.sign ∧ a.cell ≠ b.cell := by
  have ha : a ∈ entriesOf t.cf f := by rw [hab]; simp
  have hb : b ∈ entriesOf t.cf f := by rw [hab]; simp
  have hne : a ≠ b := by
    have := nodup_entriesOf h.nodup f
    rw [hab] at this
    simpa using this
  rw [mem_entriesOf] at ha hb
  have hf : a.face = b.face := ha.2.trans hb.2.symm
  constructor
  · rcases h.sign ha.1 with h1 | h1 <;> rcases h.sign hb.1 with h2 | h2
    · exact absurd (h.uniq ha.1 hb.1 hf (Or.inl (h1.trans h2.symm))) hne
    · rw [h1, h2]; rfl
    · rw [h1, h2]
    · exact absurd (h.uniq ha.1 hb.1 hf (Or.inl (h1.trans h2.symm))) hne
  · intro hc
    exact hne (h.uniq ha.1 hb.1 hf (Or.inr hc))

/-! ### exactly one stored entry ⇔ exactly one adjacent cell -/

theorem count_eq_one_iff {t : Topo} (h : WF t) (f : Nat) :
    count t f = 1 ↔ ∃ c, (∃ s, (⟨f, c, s⟩ : Inc) ∈ t.cf) ∧ ∀ c', (∃ s, (⟨f, c', s⟩ : Inc) ∈ t.cf) → c' = c := by
  unfold count
  constructor
  · intro h1
    match hl : entriesOf t.cf f, h1 with
    | [e], _ =>
      have he : e ∈ entriesOf t.cf f := by rw [hl]; simp
      rw [mem_entriesOf] at he
      refine ⟨e.cell, ⟨e.sign, ?_⟩, ?_⟩
      · have : (⟨f, e.cell, e.sign⟩ : Inc) = e := by cases e; simp_all
        rw [this]; exact he.1
      · rintro c' ⟨s, hs⟩
        have : (⟨f, c', s⟩ : Inc) ∈ entriesOf t.cf f := mem_entriesOf.mpr ⟨hs, rfl⟩
        rw [hl] at this
        simp only [List.mem_singleton] at this
        rw [← this]
  · rintro ⟨c, ⟨s, hs⟩, huniq⟩
    have hmem : (⟨f, c, s⟩ : Inc) ∈ entriesOf t.cf f := mem_entriesOf.mpr ⟨hs, rfl⟩
    have hle : (entriesOf t.cf f).length ≤ 1 := by
      apply length_le_one_of_all_eq (nodup_entriesOf h.nodup f)
      intro a ha b hb
      rw [mem_entriesOf] at ha hb
      have hca : a.cell = c := huniq a.cell ⟨a.sign, by
        have : (⟨f, a.cell, a.sign⟩ : Inc) = a := by cases a; simp_all
        rw [this]; exact ha.1⟩
      have hcb : b.cell = c := huniq b.cell ⟨b.sign, by
        have : (⟨f, b.cell, b.sign⟩ : Inc) = b := by cases b; simp_all
        rw [this]; exact hb.1⟩
      exact h.uniq ha.1 hb.1 (ha.2.trans hb.2.symm) (Or.inr (hca.trans hcb.symm))
    have hpos : 0 < (entriesOf t.cf f).length := List.length_pos_of_mem hmem
    omega

/-! ### the dense face-cell array -/

theorem lastCell_some {p : Int → Bool} {cf : List Inc} {f c : Nat} (h : lastCell p cf f = some c) :
    ∃ e ∈ cf, e.face = f ∧ p e.sign = true ∧ e.cell = c := by
  induction cf with
  | nil => simp [lastCell] at h
  | cons a l ih =>
    unfold lastCell at h
    split at h
    · rename_i c' hc'
      cases h
      obtain ⟨e, he, h1⟩ := ih hc'
      exact ⟨e, List.mem_cons_of_mem _ he, h1⟩
    · split at h
      · rename_i hcond
        cases h
        simp only [Bool.and_eq_true, beq_iff_eq] at hcond
        exact ⟨a, by simp, hcond.1, hcond.2, rfl⟩
      · cases h

theorem lastCell_none {p : Int → Bool} {cf : List Inc} {f : Nat} :
    lastCell p cf f = none ↔ ∀ e ∈ cf, e.face = f → p e.sign = false := by
  induction cf with
  | nil => simp [lastCell]
  | cons a l ih =>
    unfold lastCell
    constructor
    · intro h
      split at h
      · cases h
      · rename_i hnone
        split at h
        · cases h
        · rename_i hcond
          intro e he hf
          rcases List.mem_cons.mp he with rfl | he
          · simp only [Bool.and_eq_true, beq_iff_eq, not_and, Bool.not_eq_true] at hcond
            exact hcond hf
          · exact ih.mp hnone e he hf
    · intro h
      have hl : lastCell p l f = none := ih.mpr (fun e he => h e (List.mem_cons_of_mem _ he))
      rw [hl]
      have := h a (by simp)
      by_cases hf : a.face = f
      · simp [hf, this hf]
      · simp [hf]

/-- in a well-formed topology the dense row built with a sign test that singles out `s ∈ {1,-1}`
    holds cell `c` at face `f` exactly when `(f, c, s)` is a stored entry -/
theorem lastCell_eq_some_iff {t : Topo} (h : WF t) {p : Int → Bool} {s : Int}
    (hp : ∀ x : Int, (x = 1 ∨ x = -1) → (p x = true ↔ x = s)) (f c : Nat) :
    lastCell p t.cf f = some c ↔ (⟨f, c, s⟩ : Inc) ∈ t.cf := by
  have fwd : ∀ c, lastCell p t.cf f = some c → (⟨f, c, s⟩ : Inc) ∈ t.cf := by
    intro c hc
    obtain ⟨e, he, hf, hps, hcell⟩ := lastCell_some hc
    have hs : e.sign = s := (hp e.sign (h.sign he)).mp hps
    have : (⟨f, c, s⟩ : Inc) = e := by cases e; simp_all
    rw [this]; exact he
  constructor
  · exact fwd c
  · intro hmem
    have hs : p s = true := (hp s (h.sign hmem)).mpr rfl
    cases hl : lastCell p t.cf f with
    | none =>
      have := lastCell_none.mp hl _ hmem rfl
      simp only at this
      rw [hs] at this
      cases this
    | some c' =>
      have h' := fwd c' hl
      have := h.uniq h' hmem rfl (Or.inl rfl)
      simp only [Inc.mk.injEq, true_and, and_true] at this
      rw [this]

theorem lastCell_eq_none_iff {t : Topo} (h : WF t) {p : Int → Bool} {s : Int}
    (hp : ∀ x : Int, (x = 1 ∨ x = -1) → (p x = true ↔ x = s)) (f : Nat) :
    lastCell p t.cf f = none ↔ ∀ c, (⟨f, c, s⟩ : Inc) ∉ t.cf := by
  constructor
  · intro hn c hmem
    have := (lastCell_eq_some_iff h hp f c).mpr hmem
    rw [hn] at this
    cases this
  · intro hall
    cases hl : lastCell p t.cf f with
    | none => rfl
    | some c => exact absurd ((lastCell_eq_some_iff h hp f c).mp hl) (hall c)

theorem denseRow_get (p : Int → Bool) (t : Topo) {f : Nat} (hf : f < t.nf) :
    (denseRow p t)[f]? = some (match lastCell p t.cf f with
      | some c => (c : Int)
      | none => -1) := by
  unfold denseRow
  rw [List.getElem?_map, List.getElem?_range hf]
  rfl

theorem posTest (x : Int) (hx : x = 1 ∨ x = -1) : (decide (x > 0) = true ↔ x = 1) := by
  rcases hx with rfl | rfl <;> decide

theorem negTest (x : Int) (hx : x = 1 ∨ x = -1) : (decide (x < 0) = true ↔ x = -1) := by
  rcases hx with rfl | rfl <;> decide

/-! ### connection map -/

theorem mem_connPairs {t : Topo} {i j : Nat} :
    (i, j) ∈ connPairs t ↔
      ∃ e ∈ t.cf, ∃ e' ∈ t.cf, e'.face = e.face ∧ e.sign ≠ 0 ∧ e'.sign ≠ 0 ∧ e.cell = i ∧ e'.cell = j := by
  unfold connPairs
  simp only [List.mem_flatMap, List.mem_map, List.mem_filter, mem_entriesOf, Prod.mk.injEq,
    Bool.and_eq_true, bne_iff_ne, ne_eq]
  constructor
  · rintro ⟨e, he, e', ⟨⟨he', hf⟩, hs, hs'⟩, hi, hj⟩
    exact ⟨e, he, e', he', hf, hs, hs', hi, hj⟩
  · rintro ⟨e, he, e', he', hf, hs, hs', hi, hj⟩
    exact ⟨e, he, e', ⟨⟨he', hf⟩, hs, hs'⟩, hi, hj⟩

/-! ### removing repetitions -/

theorem mem_dedup (a : Nat) (l : List Nat) : a ∈ dedup l ↔ a ∈ l := by
  induction l with
  | nil => simp [dedup]
  | cons b l ih =>
    unfold dedup
    by_cases h : b ∈ l
    · simp only [h, if_true, ih, List.mem_cons]
      constructor
      · intro hc; exact Or.inr hc
      · rintro (rfl | hc)
        · exact h
        · exact hc
    · simp only [h, if_false, List.mem_cons, ih]

theorem nodup_dedup (l : List Nat) : (dedup l).Nodup := by
  induction l with
  | nil => simp [dedup]
  | cons b l ih =>
    unfold dedup
    by_cases h : b ∈ l
    · simp only [h, if_true]; exact ih
    · simp only [h, if_false, List.nodup_cons]
      exact ⟨fun hb => h ((mem_dedup b l).mp hb), ih⟩

/-! ### triplets -/

theorem entry_nil (r c : Nat) : entry [] r c = 0 := rfl

theorem entry_cons (x : Nat × Nat × Int) (tr : Triplets) (r c : Nat) :
    entry (x :: tr) r c = (if x.1 = r ∧ x.2.1 = c then x.2.2 else 0) + entry tr r c := by
  unfold entry
  by_cases h : x.1 = r ∧ x.2.1 = c
  · simp [h]
  · rw [if_neg h]
    have : (x.1 == r && x.2.1 == c) = false := by
      simp only [Bool.and_eq_false_iff, beq_eq_false_iff_ne, ne_eq]
      by_cases h1 : x.1 = r
      · exact Or.inr (fun h2 => h ⟨h1, h2⟩)
      · exact Or.inl h1
    simp [this]

theorem entry_append (a b : Triplets) (r c : Nat) : entry (a ++ b) r c = entry a r c + entry b r c := by
  induction a with
  | nil => simp [entry_nil]
  | cons x a ih => rw [List.cons_append, entry_cons, entry_cons, ih]; omega

/-- the `dim` copies of one incidence entry contribute its sign at (r, c) exactly when r and c
    name the same component of that cell and that face -/
theorem entry_block (e : Inc) (d : Nat) (hd : 0 < d) (r c : Nat) (n : Nat) (hn : n ≤ d) :
    entry ((List.range n).map (fun k => (e.cell * d + k, e.face * d + k, e.sign))) r c
      = if r % d = c % d ∧ r % d < n ∧ e.cell = r / d ∧ e.face = c / d then e.sign else 0 := by
  induction n with
  | zero => simp [entry_nil]
  | succ n ih =>
    rw [List.range_succ, List.map_append, entry_append, ih (by omega)]
    simp only [List.map_cons, List.map_nil, entry_cons, entry_nil, Int.add_zero]
    have key : ∀ (a x : Nat), x < d → (a * d + x = r ↔ a = r / d ∧ x = r % d) := by
      intro a x hx
      constructor
      · intro h
        subst h
        constructor
        · rw [Nat.add_comm, Nat.add_mul_div_right _ _ hd, Nat.div_eq_of_lt hx]; omega
        · rw [Nat.add_comm, Nat.add_mul_mod_self_right, Nat.mod_eq_of_lt hx]
      · rintro ⟨rfl, rfl⟩
        rw [Nat.mul_comm]; exact Nat.div_add_mod r d
    have key2 : ∀ (a x : Nat), x < d → (a * d + x = c ↔ a = c / d ∧ x = c % d) := by
      intro a x hx
      constructor
      · intro h
        subst h
        constructor
        · rw [Nat.add_comm, Nat.add_mul_div_right _ _ hd, Nat.div_eq_of_lt hx]; omega
        · rw [Nat.add_comm, Nat.add_mul_mod_self_right, Nat.mod_eq_of_lt hx]
      · rintro ⟨rfl, rfl⟩
        rw [Nat.mul_comm]; exact Nat.div_add_mod c d
    have hnd : n < d := by omega
    have k1 := key e.cell n hnd
    have k2 := key2 e.face n hnd
    split <;> split <;> split <;> omega

/-- entry of the scalar divergence = sum of the signs stored for (face, cell) -/
theorem entry_scalar (cf : List Inc) (r c : Nat) :
    entry (cf.map (fun e => (e.cell, e.face, e.sign))) r c
      = ((cf.filter (fun e => e.cell == r && e.face == c)).map (·.sign)).sum := by
  induction cf with
  | nil => rfl
  | cons e l ih =>
    rw [List.map_cons, entry_cons, ih]
    by_cases h : e.cell = r ∧ e.face = c
    · simp [h]
    · rw [if_neg h]
      have : (e.cell == r && e.face == c) = false := by
        simp only [Bool.and_eq_false_iff, beq_eq_false_iff_ne, ne_eq]
        by_cases h1 : e.cell = r
        · exact Or.inr (fun h2 => h ⟨h1, h2⟩)
        · exact Or.inl h1
      simp [this]

theorem entry_vector (cf : List Inc) (d : Nat) (hd : 0 < d) (r c : Nat) :
    entry (cf.flatMap (fun e => (List.range d).map (fun k => (e.cell * d + k, e.face * d + k, e.sign)))) r c
      = if r % d = c % d then entry (cf.map (fun e => (e.cell, e.face, e.sign))) (r / d) (c / d) else 0 := by
  induction cf with
  | nil => simp [entry_nil]
  | cons e l ih =>
    rw [List.flatMap_cons, entry_append, ih, entry_block e d hd r c d (Nat.le_refl d), List.map_cons, entry_cons]
    have hlt : r % d < d := Nat.mod_lt _ hd
    dsimp only
    by_cases h : r % d = c % d
    · rw [if_pos h, if_pos h]
      by_cases h2 : e.cell = r / d ∧ e.face = c / d
      · rw [if_pos ⟨h, hlt, h2⟩, if_pos h2]
      · rw [if_neg (fun hh => h2 hh.2.2), if_neg h2]
    · rw [if_neg (fun hh => h hh.1), if_neg h, if_neg h]; rfl


/-! ### matrix-vector product -/

theorem applyTrip_append (a b : Triplets) (u : Nat → Rat) (r : Nat) :
    applyTrip (a ++ b) u r = applyTrip a u r + applyTrip b u r := by
  induction a with
  | nil => simp [applyTrip, Rat.zero_add]
  | cons x a ih => simp only [List.cons_append, applyTrip, ih, Rat.add_assoc]

theorem mul_add_eq_iff (d : Nat) (a x c k : Nat) (hx : x < d) (hk : k < d) :
    a * d + x = c * d + k ↔ a = c ∧ x = k := by
  constructor
  · intro h
    have h1 : (a * d + x) / d = (c * d + k) / d := by rw [h]
    have h2 : (a * d + x) % d = (c * d + k) % d := by rw [h]
    have hd : 0 < d := by omega
    rw [Nat.add_comm, Nat.add_mul_div_right _ _ hd, Nat.div_eq_of_lt hx,
        Nat.add_comm (c * d), Nat.add_mul_div_right _ _ hd, Nat.div_eq_of_lt hk] at h1
    rw [Nat.add_comm, Nat.add_mul_mod_self_right, Nat.mod_eq_of_lt hx,
        Nat.add_comm (c * d), Nat.add_mul_mod_self_right, Nat.mod_eq_of_lt hk] at h2
    omega
  · rintro ⟨rfl, rfl⟩; rfl

theorem applyTrip_block (e : Inc) (d : Nat) (u : Nat → Rat) (c k : Nat) (hk : k < d) (n : Nat) (hn : n ≤ d) :
    applyTrip ((List.range n).map (fun k' => (e.cell * d + k', e.face * d + k', e.sign))) u (c * d + k)
      = if e.cell = c ∧ k < n then (e.sign : Rat) * u (e.face * d + k) else 0 := by
  induction n with
  | zero => simp [applyTrip]
  | succ n ih =>
    rw [List.range_succ, List.map_append, applyTrip_append, ih (by omega)]
    simp only [List.map_cons, List.map_nil, applyTrip, Rat.add_zero]
    have key := mul_add_eq_iff d e.cell n c k (by omega) hk
    by_cases h1 : e.cell = c ∧ k < n
    · have h2 : ¬ (e.cell * d + n = c * d + k) := by omega
      have h3 : e.cell = c ∧ k < n + 1 := by omega
      rw [if_pos h1, if_neg h2, if_pos h3, Rat.add_zero]
    · by_cases h2 : e.cell * d + n = c * d + k
      · have h3 : e.cell = c ∧ k < n + 1 := by omega
        have h4 : n = k := by omega
        rw [if_neg h1, if_pos h2, if_pos h3, Rat.zero_add, h4]
      · have h3 : ¬ (e.cell = c ∧ k < n + 1) := by omega
        rw [if_neg h1, if_neg h2, if_neg h3, Rat.add_zero]

theorem applyTrip_vector (cf : List Inc) (d : Nat) (u : Nat → Rat) (c k : Nat) (hk : k < d) :
    applyTrip (cf.flatMap (fun e => (List.range d).map (fun k' => (e.cell * d + k', e.face * d + k', e.sign)))) u (c * d + k)
      = applyTrip (cf.map (fun e => (e.cell, e.face, e.sign))) (fun f => u (f * d + k)) c := by
  induction cf with
  | nil => rfl
  | cons e l ih =>
    rw [List.flatMap_cons, applyTrip_append, ih, applyTrip_block e d u c k hk d (Nat.le_refl d), List.map_cons]
    simp only [applyTrip]
    by_cases h : e.cell = c
    · rw [if_pos ⟨h, hk⟩, if_pos h]
    · rw [if_neg (fun hh => h hh.1), if_neg h]

/-! ### tag dictionaries -/

theorem Tags.get_set (tg : Tags) (k k' : String) (v : List Bool) :
    (tg.set k v).get k' = if k = k' then some v else tg.get k' := by
  induction tg with
  | nil => simp [Tags.set, Tags.get]
  | cons kv tg ih =>
    unfold Tags.set
    by_cases h : kv.1 = k
    · by_cases h' : k = k'
      · simp [Tags.get, h, h']
      · have : ¬ kv.1 = k' := fun e => h' (h.symm.trans e)
        simp [Tags.get, h, h']
    · rw [if_neg h]
      by_cases h' : k = k'
      · subst h'
        simp only [Tags.get, h, if_false]
        rw [ih]; simp
      · simp [Tags.get, ih, h']

theorem Tags.get_eq_none_of_not_mem (tg : Tags) (k : String) (h : k ∉ tg.map (·.1)) : tg.get k = none := by
  induction tg with
  | nil => rfl
  | cons kv tg ih =>
    simp only [List.map_cons, List.mem_cons, not_or] at h
    have hne : ¬ kv.1 = k := fun e => h.1 e.symm
    simp only [Tags.get, hne, if_false, ih h.2]

theorem get_addTags (old new : Tags) (hn : (new.map (·.1)).Nodup) (k : String) :
    (addTags old new).get k = match new.get k with
      | some v => some v
      | none => old.get k := by
  unfold addTags
  induction new generalizing old with
  | nil => rfl
  | cons kv new ih =>
    simp only [List.map_cons, List.nodup_cons] at hn
    rw [List.foldl_cons, ih _ hn.2]
    by_cases h : kv.1 = k
    · subst h
      rw [Tags.get_eq_none_of_not_mem new _ hn.1]
      simp [Tags.get, Tags.get_set]
    · simp only [Tags.get, h, if_false, Tags.get_set]

theorem orArr_length (a b : List Bool) (h : a.length = b.length) : (orArr a b).length = a.length := by
  induction a generalizing b with
  | nil => cases b <;> simp [orArr]
  | cons x a ih =>
    cases b with
    | nil => simp at h
    | cons y b => simp only [List.length_cons] at h; simp [orArr, ih b (by omega)]

theorem orArr_get (a b : List Bool) (h : a.length = b.length) (i : Nat) :
    (orArr a b)[i]? = some true ↔ a[i]? = some true ∨ b[i]? = some true := by
  induction a generalizing b i with
  | nil => cases b <;> simp [orArr] at h ⊢
  | cons x a ih =>
    cases b with
    | nil => simp at h
    | cons y b =>
      simp only [List.length_cons] at h
      cases i with
      | zero => simp [orArr]
      | succ i => simp only [orArr, List.getElem?_cons_succ]; exact ih b (by omega) i

theorem orArr_false_left (n : Nat) (b : List Bool) (h : b.length = n) : orArr (List.replicate n false) b = b := by
  induction n generalizing b with
  | zero => cases b <;> simp_all [orArr]
  | succ n ih =>
    cases b with
    | nil => simp at h
    | cons y b => simp only [List.length_cons] at h; simp [List.replicate_succ, orArr, ih b (by omega)]

theorem indicesOf_map_range (p : Nat → Bool) (n : Nat) :
    indicesOf ((List.range n).map p) = (List.range n).filter p := by
  unfold indicesOf
  simp only [List.length_map, List.length_range]
  apply List.filter_congr
  intro i hi
  have hi' : i < n := List.mem_range.mp hi
  simp [List.getD, hi']

/-! ### node tags from face tags -/

theorem nodeTagFromFaces_get (t : Topo) (ft : List Bool) (n : Nat) (hn : n < t.nn) :
    (nodeTagFromFaces t ft)[n]? = some true ↔
      ∃ f, f < t.nf ∧ ft[f]? = some true ∧ n ∈ t.fn.getD f [] := by
  unfold nodeTagFromFaces
  rw [List.getElem?_map, List.getElem?_range hn]
  simp only [Option.map_some, Option.some.injEq, List.any_eq_true, List.mem_range, Bool.and_eq_true,
    List.contains_iff_mem]
  constructor
  · rintro ⟨f, hf, hft, hmem⟩
    refine ⟨f, hf, ?_, hmem⟩
    cases hq : ft[f]? with
    | none => simp [List.getD, hq] at hft
    | some b => simp [List.getD, hq] at hft; rw [hft]
  · rintro ⟨f, hf, hft, hmem⟩
    exact ⟨f, hf, by simp [List.getD, hft], hmem⟩

theorem nodeTagFromFaces_length (t : Topo) (ft : List Bool) : (nodeTagFromFaces t ft).length = t.nn := by
  simp [nodeTagFromFaces]

/-! ### sorting, unique, relabelling -/

theorem mem_insertSorted (a x : Nat) (l : List Nat) : x ∈ insertSorted a l ↔ x = a ∨ x ∈ l := by
  induction l with
  | nil => simp [insertSorted]
  | cons b l ih =>
    unfold insertSorted
    by_cases h : a ≤ b
    · simp [h]
    · simp only [h, if_false, List.mem_cons, ih]
      constructor
      · rintro (h1 | h1 | h1)
        · exact Or.inr (Or.inl h1)
        · exact Or.inl h1
        · exact Or.inr (Or.inr h1)
      · rintro (h1 | h1 | h1)
        · exact Or.inr (Or.inl h1)
        · exact Or.inl h1
        · exact Or.inr (Or.inr h1)

theorem mem_isort (x : Nat) (l : List Nat) : x ∈ isort l ↔ x ∈ l := by
  induction l with
  | nil => simp [isort]
  | cons a l ih => simp [isort, mem_insertSorted, ih]

theorem nodup_insertSorted (a : Nat) (l : List Nat) (ha : a ∉ l) (hl : l.Nodup) : (insertSorted a l).Nodup := by
  induction l with
  | nil => simp [insertSorted]
  | cons b l ih =>
    unfold insertSorted
    by_cases h : a ≤ b
    · simp only [h, if_true]
      exact List.nodup_cons.mpr ⟨ha, hl⟩
    · simp only [h, if_false]
      rw [List.nodup_cons] at hl ⊢
      simp only [List.mem_cons, not_or] at ha
      refine ⟨?_, ih ha.2 hl.2⟩
      rw [mem_insertSorted]
      rintro (h1 | h1)
      · exact ha.1 h1.symm
      · exact hl.1 h1

theorem nodup_isort (l : List Nat) (hl : l.Nodup) : (isort l).Nodup := by
  induction l with
  | nil => simp [isort]
  | cons a l ih =>
    rw [List.nodup_cons] at hl
    exact nodup_insertSorted a _ (fun h => hl.1 ((mem_isort a l).mp h)) (ih hl.2)

theorem mem_uniqueSorted (x : Nat) (l : List Nat) : x ∈ uniqueSorted l ↔ x ∈ l := by
  unfold uniqueSorted; rw [mem_dedup, mem_isort]

theorem nodup_uniqueSorted (l : List Nat) : (uniqueSorted l).Nodup := nodup_dedup _

theorem idxOf_inj_of_mem {l : List Nat} {a b : Nat} (ha : a ∈ l) (h : l.idxOf a = l.idxOf b) : a = b := by
  have h1 : l.idxOf a < l.length := List.idxOf_lt_length_iff.mpr ha
  have h2 : l.idxOf b < l.length := h ▸ h1
  have e1 := List.getElem_idxOf h1
  have e2 := List.getElem_idxOf h2
  rw [← e1, ← e2]
  congr 1

theorem nodup_map_of_inj_on {α β : Type} (f : α → β) (l : List α)
    (hf : ∀ a ∈ l, ∀ b ∈ l, f a = f b → a = b) (hl : l.Nodup) : (l.map f).Nodup := by
  induction l with
  | nil => simp
  | cons a l ih =>
    rw [List.nodup_cons] at hl
    rw [List.map_cons, List.nodup_cons]
    constructor
    · intro hmem
      obtain ⟨b, hb, hfb⟩ := List.mem_map.mp hmem
      have : a = b := hf a (by simp) b (List.mem_cons_of_mem _ hb) hfb.symm
      exact hl.1 (this ▸ hb)
    · exact ih (fun x hx y hy => hf x (List.mem_cons_of_mem _ hx) y (List.mem_cons_of_mem _ hy)) hl.2

/-! ### subgrid extraction -/

theorem mem_subEntries (cf : List Inc) (j : Nat) (cs : List Nat) (x : Inc) :
    x ∈ subEntries cf j cs ↔ ∃ i c e, cs[i]? = some c ∧ e ∈ cf ∧ e.cell = c ∧ x = ⟨e.face, j + i, e.sign⟩ := by
  induction cs generalizing j with
  | nil => simp [subEntries]
  | cons c cs ih =>
    unfold subEntries
    rw [List.mem_append, ih]
    constructor
    · rintro (h | ⟨i, c', e, hi, he, hc, hx⟩)
      · obtain ⟨e, he, hx⟩ := List.mem_map.mp h
        simp only [List.mem_filter, beq_iff_eq] at he
        exact ⟨0, c, e, by simp, he.1, he.2, by simp [← hx]⟩
      · exact ⟨i + 1, c', e, by simpa using hi, he, hc, by rw [hx]; congr 1; omega⟩
    · rintro ⟨i, c', e, hi, he, hc, hx⟩
      cases i with
      | zero =>
        left
        simp only [List.getElem?_cons_zero, Option.some.injEq] at hi
        refine List.mem_map.mpr ⟨e, ?_, by simp [hx]⟩
        simp [List.mem_filter, he, hc, hi]
      | succ i =>
        right
        exact ⟨i, c', e, by simpa using hi, he, hc, by rw [hx]; congr 1; omega⟩

theorem nodup_subEntries (cf : List Inc) (hcf : cf.Nodup) (j : Nat) (cs : List Nat) :
    (subEntries cf j cs).Nodup := by
  induction cs generalizing j with
  | nil => simp [subEntries]
  | cons c cs ih =>
    unfold subEntries
    rw [List.nodup_append]
    refine ⟨?_, ih (j + 1), ?_⟩
    · apply nodup_map_of_inj_on _ _ _ (List.Nodup.sublist List.filter_sublist hcf)
      intro a ha b hb hab
      simp only [List.mem_filter, beq_iff_eq] at ha hb
      simp only [Inc.mk.injEq, true_and] at hab
      cases a; cases b; simp_all
    · intro a ha b hb hab
      obtain ⟨e, _, hx⟩ := List.mem_map.mp ha
      obtain ⟨i, c', e', _, _, _, hy⟩ := (mem_subEntries cf (j + 1) cs b).mp hb
      have h1 : a.cell = j := by rw [← hx]
      have h2 : b.cell = j + 1 + i := by rw [hy]
      rw [hab] at h1; omega

/-- relabelling faces by a map that is injective on the faces present keeps the pairwise
    uniqueness and duplicate-freeness of a list of entries -/
theorem relabel_props (l : List Inc) (φ : Nat → Nat)
    (hφ : ∀ e ∈ l, ∀ e' ∈ l, φ e.face = φ e'.face → e.face = e'.face)
    (hu : ∀ e ∈ l, ∀ e' ∈ l, e.face = e'.face → (e.sign = e'.sign ∨ e.cell = e'.cell) → e = e')
    (hn : l.Nodup) :
    (∀ a ∈ l.map (fun e => (⟨φ e.face, e.cell, e.sign⟩ : Inc)),
      ∀ b ∈ l.map (fun e => (⟨φ e.face, e.cell, e.sign⟩ : Inc)),
        a.face = b.face → (a.sign = b.sign ∨ a.cell = b.cell) → a = b) ∧
    (l.map (fun e => (⟨φ e.face, e.cell, e.sign⟩ : Inc))).Nodup := by
  constructor
  · intro a ha b hb hf hsc
    obtain ⟨e1, h1, rfl⟩ := List.mem_map.mp ha
    obtain ⟨e2, h2, rfl⟩ := List.mem_map.mp hb
    have := hu e1 h1 e2 h2 (hφ e1 h1 e2 h2 hf) hsc
    rw [this]
  · apply nodup_map_of_inj_on _ _ _ hn
    intro a ha b hb hab
    simp only [Inc.mk.injEq] at hab
    have hf := hφ a ha b hb hab.1
    cases a; cases b; simp_all

theorem wf_extractSubgrid (t : Topo) (h : WF t) (cells : List Nat) (hc : cells.Nodup) :
    WF (extractSubgrid t cells).1 := by
  have hcs : (isort cells).Nodup := nodup_isort cells hc
  -- properties of the column selection
  have hsub_sign : ∀ x ∈ subEntries t.cf 0 (isort cells), (x.sign = 1 ∨ x.sign = -1) ∧ x.cell < (isort cells).length := by
    intro x hx
    obtain ⟨i, c, e, hi, he, _, rfl⟩ := (mem_subEntries _ _ _ x).mp hx
    refine ⟨(h.1 e he).1, ?_⟩
    have : i < (isort cells).length := by
      rcases Nat.lt_or_ge i (isort cells).length with hlt | hge
      · exact hlt
      · rw [List.getElem?_eq_none hge] at hi; cases hi
    simpa using this
  have hsub_uniq : ∀ a ∈ subEntries t.cf 0 (isort cells), ∀ b ∈ subEntries t.cf 0 (isort cells),
      a.face = b.face → (a.sign = b.sign ∨ a.cell = b.cell) → a = b := by
    intro a ha b hb hf hsc
    obtain ⟨i1, c1, e1, hi1, he1, hc1, rfl⟩ := (mem_subEntries _ _ _ a).mp ha
    obtain ⟨i2, c2, e2, hi2, he2, hc2, rfl⟩ := (mem_subEntries _ _ _ b).mp hb
    simp only at hf hsc
    have hlt : i1 < (isort cells).length := by
      rcases Nat.lt_or_ge i1 (isort cells).length with hlt | hge
      · exact hlt
      · rw [List.getElem?_eq_none hge] at hi1; cases hi1
    rcases hsc with hs | hcell
    · have := h.uniq he1 he2 hf (Or.inl hs)
      subst this
      have : i1 = i2 := (List.getElem?_inj hlt hcs).mp (by rw [hi1, hi2, ← hc1, ← hc2])
      rw [this]
    · have hi : i1 = i2 := by omega
      subst hi
      have hcc : e1.cell = e2.cell := by
        rw [hc1, hc2]
        rw [hi1] at hi2
        exact Option.some.inj hi2
      have := h.uniq he1 he2 hf (Or.inr hcc)
      rw [this]
  have hsub_nodup := nodup_subEntries t.cf h.nodup 0 (isort cells)
  have hmemuf : ∀ x ∈ subEntries t.cf 0 (isort cells),
      x.face ∈ uniqueSorted ((subEntries t.cf 0 (isort cells)).map (·.face)) := by
    intro x hx
    rw [mem_uniqueSorted]
    exact List.mem_map.mpr ⟨x, hx, rfl⟩
  obtain ⟨hu, hn⟩ := relabel_props (subEntries t.cf 0 (isort cells))
    (fun f => (uniqueSorted ((subEntries t.cf 0 (isort cells)).map (·.face))).idxOf f)
    (fun e he e' _ hidx => idxOf_inj_of_mem (hmemuf e he) hidx) hsub_uniq hsub_nodup
  refine ⟨?_, hu, hn, ?_⟩
  · intro a ha
    obtain ⟨x, hx, rfl⟩ := List.mem_map.mp ha
    refine ⟨(hsub_sign x hx).1, ?_, (hsub_sign x hx).2⟩
    exact List.idxOf_lt_length_iff.mpr (hmemuf x hx)
  · simp [extractSubgrid]

/-! ### splitting a face -/

theorem wf_splitFace (t : Topo) (h : WF t) (f c : Nat) : WF (splitFace t f c) := by
  have hrange : ∀ e ∈ t.cf, e.face < t.nf := fun e he => (h.1 e he).2.1
  -- the relabelling `g` and what it does to an entry
  have key : ∀ e1 ∈ t.cf, ∀ e2 ∈ t.cf,
      (if e1.face = f ∧ e1.cell = c then (⟨t.nf, e1.cell, e1.sign⟩ : Inc) else e1).face
        = (if e2.face = f ∧ e2.cell = c then (⟨t.nf, e2.cell, e2.sign⟩ : Inc) else e2).face →
      (e1.sign = e2.sign ∨ e1.cell = e2.cell) → e1 = e2 := by
    intro e1 h1 e2 h2 hf hsc
    by_cases m1 : e1.face = f ∧ e1.cell = c <;> by_cases m2 : e2.face = f ∧ e2.cell = c
    · exact h.uniq h1 h2 (m1.1.trans m2.1.symm) (Or.inr (m1.2.trans m2.2.symm))
    · rw [if_pos m1, if_neg m2] at hf
      have := hrange e2 h2
      simp only at hf
      omega
    · rw [if_neg m1, if_pos m2] at hf
      have := hrange e1 h1
      simp only at hf
      omega
    · rw [if_neg m1, if_neg m2] at hf
      exact h.uniq h1 h2 hf hsc
  have hsign : ∀ e : Inc, (if e.face = f ∧ e.cell = c then (⟨t.nf, e.cell, e.sign⟩ : Inc) else e).sign = e.sign := by
    intro e; split <;> rfl
  have hcell : ∀ e : Inc, (if e.face = f ∧ e.cell = c then (⟨t.nf, e.cell, e.sign⟩ : Inc) else e).cell = e.cell := by
    intro e; split <;> rfl
  refine ⟨?_, ?_, ?_, ?_⟩
  · intro a ha
    obtain ⟨e, he, rfl⟩ := List.mem_map.mp ha
    have := h.1 e he
    rw [hsign, hcell]
    refine ⟨this.1, ?_, this.2.2⟩
    show _ < t.nf + 1
    split
    · simp
    · omega
  · intro a ha b hb hf hsc
    obtain ⟨e1, h1, rfl⟩ := List.mem_map.mp ha
    obtain ⟨e2, h2, rfl⟩ := List.mem_map.mp hb
    rw [hsign, hsign, hcell, hcell] at hsc
    rw [key e1 h1 e2 h2 hf hsc]
  · apply nodup_map_of_inj_on _ _ _ h.nodup
    intro a ha b hb hab
    exact key a ha b hb (by rw [hab]) (Or.inl (by rw [← hsign a, ← hsign b, hab]))
  · show (t.fn ++ [t.fn.getD f []]).length = t.nf + 1
    rw [List.length_append, h.2.2.2]; rfl


/-! ### the 1-d constructor -/

theorem mem_lineCf (n : Nat) (e : Inc) :
    e ∈ lineCf n ↔ e.cell < n ∧ ((e.face = e.cell ∧ e.sign = -1) ∨ (e.face = e.cell + 1 ∧ e.sign = 1)) := by
  induction n with
  | zero => simp [lineCf]
  | succ n ih =>
    unfold lineCf
    rw [List.mem_append, ih]
    constructor
    · rintro (⟨h1, h2⟩ | h)
      · exact ⟨by omega, h2⟩
      · simp only [List.mem_cons, List.not_mem_nil, or_false] at h
        rcases h with rfl | rfl
        · exact ⟨by simp, Or.inl ⟨rfl, rfl⟩⟩
        · exact ⟨by simp, Or.inr ⟨rfl, rfl⟩⟩
    · rintro ⟨h1, h2⟩
      by_cases hc : e.cell < n
      · exact Or.inl ⟨hc, h2⟩
      · right
        have hc' : e.cell = n := by omega
        simp only [List.mem_cons, List.not_mem_nil, or_false]
        rcases h2 with ⟨hf, hs⟩ | ⟨hf, hs⟩
        · left; cases e; simp_all
        · right; cases e; simp_all

theorem nodup_lineCf (n : Nat) : (lineCf n).Nodup := by
  induction n with
  | zero => simp [lineCf]
  | succ n ih =>
    unfold lineCf
    rw [List.nodup_append]
    refine ⟨ih, by simp, ?_⟩
    intro a ha b hb hab
    have h1 := ((mem_lineCf n a).mp ha).1
    simp only [List.mem_cons, List.not_mem_nil, or_false] at hb
    rcases hb with rfl | rfl <;> (rw [hab] at h1; simp at h1)

theorem wf_line1d (n : Nat) : WF (line1d n) := by
  refine ⟨?_, ?_, nodup_lineCf n, by simp [line1d]⟩
  · intro e he
    have := (mem_lineCf n e).mp he
    show _ ∧ e.face < n + 1 ∧ e.cell < n
    omega
  · intro a ha b hb hf hsc
    have h1 := (mem_lineCf n a).mp ha
    have h2 := (mem_lineCf n b).mp hb
    have : a.face = b.face ∧ a.cell = b.cell ∧ a.sign = b.sign := by omega
    cases a; cases b; simp_all

theorem noOrphan_line1d (n : Nat) (hn : 1 ≤ n) : NoOrphan (line1d n) := by
  intro f hf
  have hf' : f < n + 1 := List.mem_range.mp hf
  unfold count
  apply List.length_pos_of_mem (a := if f < n then (⟨f, f, -1⟩ : Inc) else ⟨f, f - 1, 1⟩)
  rw [mem_entriesOf]
  by_cases h : f < n
  · rw [if_pos h]
    exact ⟨(mem_lineCf n _).mpr ⟨h, Or.inl ⟨rfl, rfl⟩⟩, rfl⟩
  · rw [if_neg h]
    refine ⟨(mem_lineCf n _).mpr ⟨by simp; omega, Or.inr ⟨by simp; omega, rfl⟩⟩, rfl⟩

/-! ### trace operator -/

theorem mem_trace_block (f c d : Nat) (x : Nat × Nat × Int) :
    x ∈ (List.range d).map (fun k => (f * d + k, c * d + k, (1 : Int))) ↔
      ∃ k, k < d ∧ x = (f * d + k, c * d + k, 1) := by
  simp only [List.mem_map, List.mem_range]
  constructor
  · rintro ⟨k, hk, rfl⟩; exact ⟨k, hk, rfl⟩
  · rintro ⟨k, hk, rfl⟩; exact ⟨k, hk, rfl⟩


theorem mem_indicesOf (l : List Bool) (i : Nat) : i ∈ indicesOf l ↔ l[i]? = some true := by
  unfold indicesOf
  simp only [List.mem_filter, List.mem_range]
  constructor
  · rintro ⟨hf, hv⟩
    rw [List.getElem?_eq_getElem hf]
    simp [List.getD, List.getElem?_eq_getElem hf] at hv
    rw [hv]
  · intro hv
    have hf : i < l.length := by
      rcases Nat.lt_or_ge i l.length with h | h
      · exact h
      · rw [List.getElem?_eq_none h] at hv; cases hv
    exact ⟨hf, by simp [List.getD, hv]⟩

theorem idxOf_getElem_of_nodup {l : List Nat} (hn : l.Nodup) (i : Nat) (hi : i < l.length) :
    l.idxOf l[i] = i := by
  have hlt := List.idxOf_lt_length_iff.mpr (List.getElem_mem hi)
  have e := List.getElem_idxOf hlt
  exact (List.getElem?_inj hlt hn).mp (by rw [List.getElem?_eq_getElem hlt, e, List.getElem?_eq_getElem hi])

end PorepyVerif.C21
