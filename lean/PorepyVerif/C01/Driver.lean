/- C01 line-protocol driver: `lake env lean --run PorepyVerif/C01/Driver.lean`
   One op: {"op":"eval","vars":[[rat..]..],"tree":<tree>}  →  {"val":[bits..],"jac":[[bits..]..]} | {"err":kind}
   Floats are answered as their IEEE-754 bit patterns (exact transport). -/
import PorepyVerif.Common.Wire
import PorepyVerif.C01.Model
import PorepyVerif.C01.Generated
open Lean PV PorepyVerif.C01

/-- generated rules by name; `safe_power` is the repaired rule (the model follows the property) -/
def findRule (name : String) : Option Rule :=
  if name == "safe_power" then some safePowerFixed
  else (Gen.arith ++ Gen.lib ++ Gen.maxrules).find? (fun r => r.name == name)

def jF (j : Json) : R Float := do pure (ratToFloat (← jRat j))
def fF (j : Json) (k : String) : R Float := field j k >>= jF
def fFs (j : Json) (k : String) : R (List Float) := field j k >>= jList jF
def fFss (j : Json) (k : String) : R (List (List Float)) := field j k >>= jList (jList jF)

partial def parseTree (j : Json) : R Tree := do
  let k ← fStr j "k"
  match k with
  | "var" => pure (.var (← fNat j "i"))
  | "fn" =>
    let f ← fStr j "f"
    let a ← field j "a" >>= parseTree
    let ps ← fFs j "p"
    match findRule f with
    | some r => pure (.fn r ps a)
    | none => throw s!"no rule {f}"
  | "op" =>
    let op ← fStr j "op"
    let kind ← fStr j "kind"
    let a ← field j "a" >>= parseTree
    let name := s!"{op}_{kind}"
    match Gen.raising.find? (fun p => p.1 == name) with
    | some (_, exc) => pure (.raises exc a)
    | none =>
      if name == "rmatmul_Sp" then
        pure (.matmul (← fFss j "m") (← fNat j "cols") a)
      else
      match findRule name with
      | none => throw s!"no rule {name}"
      | some r =>
        match kind with
        | "S" => pure (.opS r a (← fF j "c"))
        | "A" => pure (.opA r a (← fFs j "c"))
        | "Ad" => pure (.opAd r a (← field j "b" >>= parseTree))
        | _ => throw s!"bad kind {kind}"
  | "slice" => pure (.slice (← fNats j "idx") (← field j "a" >>= parseTree))
  -- `AdArray.copy()` is the identity of the (immutable) model; `r = a.copy(); r[key] = b`
  | "copy" => field j "a" >>= parseTree
  | "setitem" => pure (.setrows (← fNats j "idx") (← field j "a" >>= parseTree) (← field j "b" >>= parseTree))
  | "l2" =>
    let dim ← fNat j "dim"
    let a ← field j "a" >>= parseTree
    -- `if dim == 1: return pp.ad.functions.abs(var)`
    if dim == 1 then pure (.fn Gen.l2_norm_dim1 [] a)
    else pure (.l2norm Gen.l2_norm dim a)
  -- maximum(var_0, var_1): one generated rule per operand kinds; `a` is always the AdArray the rule calls `self`
  | "max" => pure (.opAd Gen.maximum_AdAd (← field j "a" >>= parseTree) (← field j "b" >>= parseTree))
  | "maxR" =>
    let a ← field j "a" >>= parseTree
    match j.getObjVal? "s" with
    | .ok sv => pure (.opS Gen.maximum_AdS a (← jF sv))
    | .error _ => pure (.opA Gen.maximum_AdA a (← fFs j "c"))
  | "maxL" =>
    let a ← field j "a" >>= parseTree
    match j.getObjVal? "s" with
    | .ok sv => pure (.opS Gen.maximum_SAd a (← jF sv))
    | .error _ => pure (.opA Gen.maximum_AAd a (← fFs j "c"))
  | _ => throw s!"unknown node {k}"

def bits (x : Float) : Json := ofNat x.toBits.toNat

def run (j : Json) : R Json := do
  let op ← fStr j "op"
  if op != "eval" then throw s!"unknown op {op}" else
  let vars ← fFss j "vars"
  let t ← field j "tree" >>= parseTree
  let n := (vars.map List.length).sum
  match t.evalF (initAd vars) n with
  | .ok r =>
    let dom := match t.domF (initAd vars) n with
      | .ok b => b
      | .error _ => false
    pure (obj [("val", ofList bits r.val), ("jac", ofList (ofList bits) r.jac), ("dom", Json.bool dom)])
  | .error e => pure (err e)

def main : IO Unit := runPure run
