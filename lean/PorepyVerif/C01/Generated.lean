/-
GENERATED on every run by harness/props/c01_translate.py from
  src/porepy/numerics/ad/forward_mode.py and src/porepy/numerics/ad/functions.py  — do not edit.
One `Rule` per (method, operand kind) / library function:  val = f(self.val, other),
jac = diag(dself) @ self.jac + diag(dother) @ other.jac.   var 0 = self.val, var 1 = other / first parameter.
-/
import PorepyVerif.C01.Model
namespace PorepyVerif.C01.Gen

/-- forward_mode.py:160 AdArray.__add__, other = S -/
def add_S : Rule :=
  { name := "add_S",
    val := (.add (.var 0) (.var 1)),
    dself := (.const (1 : Rat)),
    dother := none,
    plain := none }

/-- forward_mode.py:160 AdArray.__add__, other = A -/
def add_A : Rule :=
  { name := "add_A",
    val := (.add (.var 0) (.var 1)),
    dself := (.const (1 : Rat)),
    dother := none,
    plain := none }

/-- forward_mode.py:160 AdArray.__add__, other = Ad -/
def add_Ad : Rule :=
  { name := "add_Ad",
    val := (.add (.var 0) (.var 1)),
    dself := (.const (1 : Rat)),
    dother := some (.const (1 : Rat)),
    plain := none }

/-- forward_mode.py:197 AdArray.__radd__, other = S -/
def radd_S : Rule :=
  { name := "radd_S",
    val := (.add (.var 0) (.var 1)),
    dself := (.const (1 : Rat)),
    dother := none,
    plain := none }

/-- forward_mode.py:197 AdArray.__radd__, other = A -/
def radd_A : Rule :=
  { name := "radd_A",
    val := (.add (.var 0) (.var 1)),
    dself := (.const (1 : Rat)),
    dother := none,
    plain := none }

/-- forward_mode.py:197 AdArray.__radd__, other = Ad -/
def radd_Ad : Rule :=
  { name := "radd_Ad",
    val := (.add (.var 0) (.var 1)),
    dself := (.const (1 : Rat)),
    dother := some (.const (1 : Rat)),
    plain := none }

/-- forward_mode.py:213 AdArray.__sub__, other = S -/
def sub_S : Rule :=
  { name := "sub_S",
    val := (.add (.var 0) (.neg (.var 1))),
    dself := (.const (1 : Rat)),
    dother := none,
    plain := none }

/-- forward_mode.py:213 AdArray.__sub__, other = A -/
def sub_A : Rule :=
  { name := "sub_A",
    val := (.add (.var 0) (.neg (.var 1))),
    dself := (.const (1 : Rat)),
    dother := none,
    plain := none }

/-- forward_mode.py:213 AdArray.__sub__, other = Ad -/
def sub_Ad : Rule :=
  { name := "sub_Ad",
    val := (.add (.var 0) (.neg (.var 1))),
    dself := (.const (1 : Rat)),
    dother := some (.neg (.const (1 : Rat))),
    plain := none }

/-- forward_mode.py:229 AdArray.__rsub__, other = S -/
def rsub_S : Rule :=
  { name := "rsub_S",
    val := (.neg (.add (.var 0) (.neg (.var 1)))),
    dself := (.neg (.const (1 : Rat))),
    dother := none,
    plain := none }

/-- forward_mode.py:229 AdArray.__rsub__, other = A -/
def rsub_A : Rule :=
  { name := "rsub_A",
    val := (.neg (.add (.var 0) (.neg (.var 1)))),
    dself := (.neg (.const (1 : Rat))),
    dother := none,
    plain := none }

/-- forward_mode.py:229 AdArray.__rsub__, other = Ad -/
def rsub_Ad : Rule :=
  { name := "rsub_Ad",
    val := (.neg (.add (.var 0) (.neg (.var 1)))),
    dself := (.neg (.const (1 : Rat))),
    dother := some (.neg (.neg (.const (1 : Rat)))),
    plain := none }

/-- forward_mode.py:246 AdArray.__mul__, other = S -/
def mul_S : Rule :=
  { name := "mul_S",
    val := (.mul (.var 0) (.var 1)),
    dself := (.mul (.const (1 : Rat)) (.var 1)),
    dother := none,
    plain := none }

/-- forward_mode.py:246 AdArray.__mul__, other = A -/
def mul_A : Rule :=
  { name := "mul_A",
    val := (.mul (.var 0) (.var 1)),
    dself := (.var 1),
    dother := none,
    plain := none }

/-- forward_mode.py:246 AdArray.__mul__, other = Ad -/
def mul_Ad : Rule :=
  { name := "mul_Ad",
    val := (.mul (.var 0) (.var 1)),
    dself := (.var 1),
    dother := some (.var 0),
    plain := none }

/-- forward_mode.py:311 AdArray.__rmul__, other = S -/
def rmul_S : Rule :=
  { name := "rmul_S",
    val := (.mul (.var 0) (.var 1)),
    dself := (.mul (.const (1 : Rat)) (.var 1)),
    dother := none,
    plain := none }

/-- forward_mode.py:311 AdArray.__rmul__, other = A -/
def rmul_A : Rule :=
  { name := "rmul_A",
    val := (.mul (.var 0) (.var 1)),
    dself := (.var 1),
    dother := none,
    plain := none }

/-- forward_mode.py:343 AdArray.__pow__, other = S -/
def pow_S : Rule :=
  { name := "pow_S",
    val := (.pow (.var 0) (.var 1)),
    dself := (.mul (.var 1) (.pow (.var 0) (.sub (.var 1) (.const (1 : Rat))))),
    dother := none,
    plain := none }

/-- forward_mode.py:343 AdArray.__pow__, other = A -/
def pow_A : Rule :=
  { name := "pow_A",
    val := (.pow (.var 0) (.var 1)),
    dself := (.mul (.var 1) (.pow (.var 0) (.sub (.var 1) (.const (1 : Rat))))),
    dother := none,
    plain := none }

/-- forward_mode.py:343 AdArray.__pow__, other = Ad -/
def pow_Ad : Rule :=
  { name := "pow_Ad",
    val := (.pow (.var 0) (.var 1)),
    dself := (.mul (.var 1) (.pow (.var 0) (.sub (.var 1) (.const (1 : Rat))))),
    dother := some (.mul (.pow (.var 0) (.var 1)) (.un .log (.var 0))),
    plain := none }

/-- forward_mode.py:410 AdArray.__rpow__, other = S -/
def rpow_S : Rule :=
  { name := "rpow_S",
    val := (.pow (.var 1) (.var 0)),
    dself := (.mul (.pow (.var 1) (.var 0)) (.un .log (.var 1))),
    dother := none,
    plain := none }

/-- forward_mode.py:410 AdArray.__rpow__, other = A -/
def rpow_A : Rule :=
  { name := "rpow_A",
    val := (.pow (.var 1) (.var 0)),
    dself := (.mul (.pow (.var 1) (.var 0)) (.un .log (.var 1))),
    dother := none,
    plain := none }

/-- forward_mode.py:410 AdArray.__rpow__, other = Ad -/
def rpow_Ad : Rule :=
  { name := "rpow_Ad",
    val := (.pow (.var 1) (.var 0)),
    dself := (.mul (.pow (.var 1) (.var 0)) (.un .log (.var 1))),
    dother := some (.mul (.var 0) (.pow (.var 1) (.sub (.var 0) (.const (1 : Rat))))),
    plain := none }

/-- forward_mode.py:463 AdArray.__truediv__, other = S -/
def truediv_S : Rule :=
  { name := "truediv_S",
    val := (.div (.var 0) (.var 1)),
    dself := (.div (.const (1 : Rat)) (.var 1)),
    dother := none,
    plain := none }

/-- forward_mode.py:463 AdArray.__truediv__, other = A -/
def truediv_A : Rule :=
  { name := "truediv_A",
    val := (.mul (.var 0) (.pow (.var 1) (.const (-1 : Rat)))),
    dself := (.pow (.var 1) (.const (-1 : Rat))),
    dother := none,
    plain := none }

/-- forward_mode.py:463 AdArray.__truediv__, other = Ad -/
def truediv_Ad : Rule :=
  { name := "truediv_Ad",
    val := (.mul (.var 0) (.pow (.var 1) (.const (-1 : Rat)))),
    dself := (.pow (.var 1) (.const (-1 : Rat))),
    dother := some (.mul (.var 0) (.mul (.const (-1 : Rat)) (.pow (.var 1) (.sub (.const (-1 : Rat)) (.const (1 : Rat)))))),
    plain := none }

/-- forward_mode.py:508 AdArray.__rtruediv__, other = S -/
def rtruediv_S : Rule :=
  { name := "rtruediv_S",
    val := (.mul (.pow (.var 0) (.const (-1 : Rat))) (.var 1)),
    dself := (.mul (.mul (.const (-1 : Rat)) (.pow (.var 0) (.sub (.const (-1 : Rat)) (.const (1 : Rat))))) (.var 1)),
    dother := none,
    plain := none }

/-- forward_mode.py:508 AdArray.__rtruediv__, other = A -/
def rtruediv_A : Rule :=
  { name := "rtruediv_A",
    val := (.mul (.pow (.var 0) (.const (-1 : Rat))) (.var 1)),
    dself := (.mul (.var 1) (.mul (.const (-1 : Rat)) (.pow (.var 0) (.sub (.const (-1 : Rat)) (.const (1 : Rat)))))),
    dother := none,
    plain := none }

/-- forward_mode.py:508 AdArray.__rtruediv__, other = Ad -/
def rtruediv_Ad : Rule :=
  { name := "rtruediv_Ad",
    val := (.mul (.var 1) (.pow (.var 0) (.const (-1 : Rat)))),
    dself := (.mul (.var 1) (.mul (.const (-1 : Rat)) (.pow (.var 0) (.sub (.const (-1 : Rat)) (.const (1 : Rat)))))),
    dother := some (.pow (.var 0) (.const (-1 : Rat))),
    plain := none }

/-- forward_mode.py:599 AdArray.__neg__ -/
def neg : Rule :=
  { name := "neg",
    val := (.neg (.var 0)),
    dself := (.neg (.const (1 : Rat))),
    dother := none,
    plain := none }

/-- functions.py:60 exp(var) -/
def exp : Rule :=
  { name := "exp",
    val := (.un .exp (.var 0)),
    dself := (.un .exp (.var 0)),
    dother := none,
    plain := some (.un .exp (.var 0)) }

/-- functions.py:69 log(var) -/
def log : Rule :=
  { name := "log",
    val := (.un .log (.var 0)),
    dself := (.div (.const (1 : Rat)) (.var 0)),
    dother := none,
    plain := some (.un .log (.var 0)) }

/-- functions.py:81 abs(var) -/
def abs : Rule :=
  { name := "abs",
    val := (.un .abs (.var 0)),
    dself := (.un .sign (.var 0)),
    dother := none,
    plain := some (.un .abs (.var 0)) }

/-- functions.py:90 l2_norm(dim, var) with dim == 1 -/
def l2_norm_dim1 : Rule :=
  { name := "l2_norm_dim1",
    val := (.un .abs (.var 0)),
    dself := (.un .sign (.var 0)),
    dother := none,
    plain := none }

/-- functions.py:145 safe_power(power, zero_val, tol, var) -/
def safe_power : Rule :=
  { name := "safe_power",
    val := (.ifgt (.un .abs (.var 0)) (.var 3) (.pow (.var 0) (.var 1)) (.mul (.const (1 : Rat)) (.var 2))),
    dself := (.ifgt (.un .abs (.var 0)) (.var 3) (.mul (.var 1) (.pow (.var 0) (.sub (.var 1) (.const (1 : Rat))))) (.const (0 : Rat))),
    dother := none,
    plain := some (.ifgt (.un .abs (.var 0)) (.var 3) (.pow (.var 0) (.var 1)) (.mul (.const (1 : Rat)) (.var 2))) }

/-- functions.py:181 sin(var) -/
def sin : Rule :=
  { name := "sin",
    val := (.un .sin (.var 0)),
    dself := (.un .cos (.var 0)),
    dother := none,
    plain := some (.un .sin (.var 0)) }

/-- functions.py:190 cos(var) -/
def cos : Rule :=
  { name := "cos",
    val := (.un .cos (.var 0)),
    dself := (.neg (.un .sin (.var 0))),
    dother := none,
    plain := some (.un .cos (.var 0)) }

/-- functions.py:199 tan(var) -/
def tan : Rule :=
  { name := "tan",
    val := (.un .tan (.var 0)),
    dself := (.pow (.pow (.un .cos (.var 0)) (.const (2 : Rat))) (.const (-1 : Rat))),
    dother := none,
    plain := some (.un .tan (.var 0)) }

/-- functions.py:208 arcsin(var) -/
def arcsin : Rule :=
  { name := "arcsin",
    val := (.un .arcsin (.var 0)),
    dself := (.pow (.sub (.const (1 : Rat)) (.pow (.var 0) (.const (2 : Rat)))) (.const ((-1 : Rat) / 2))),
    dother := none,
    plain := some (.un .arcsin (.var 0)) }

/-- functions.py:217 arccos(var) -/
def arccos : Rule :=
  { name := "arccos",
    val := (.un .arccos (.var 0)),
    dself := (.neg (.pow (.sub (.const (1 : Rat)) (.pow (.var 0) (.const (2 : Rat)))) (.const ((-1 : Rat) / 2)))),
    dother := none,
    plain := some (.un .arccos (.var 0)) }

/-- functions.py:226 arctan(var) -/
def arctan : Rule :=
  { name := "arctan",
    val := (.un .arctan (.var 0)),
    dself := (.pow (.add (.pow (.var 0) (.const (2 : Rat))) (.const (1 : Rat))) (.const (-1 : Rat))),
    dother := none,
    plain := some (.un .arctan (.var 0)) }

/-- functions.py:236 sinh(var) -/
def sinh : Rule :=
  { name := "sinh",
    val := (.un .sinh (.var 0)),
    dself := (.un .cosh (.var 0)),
    dother := none,
    plain := some (.un .sinh (.var 0)) }

/-- functions.py:245 cosh(var) -/
def cosh : Rule :=
  { name := "cosh",
    val := (.un .cosh (.var 0)),
    dself := (.un .sinh (.var 0)),
    dother := none,
    plain := some (.un .cosh (.var 0)) }

/-- functions.py:254 tanh(var) -/
def tanh : Rule :=
  { name := "tanh",
    val := (.un .tanh (.var 0)),
    dself := (.pow (.un .cosh (.var 0)) (.const (-2 : Rat))),
    dother := none,
    plain := some (.un .tanh (.var 0)) }

/-- functions.py:263 arcsinh(var) -/
def arcsinh : Rule :=
  { name := "arcsinh",
    val := (.un .arcsinh (.var 0)),
    dself := (.pow (.add (.pow (.var 0) (.const (2 : Rat))) (.const (1 : Rat))) (.const ((-1 : Rat) / 2))),
    dother := none,
    plain := some (.un .arcsinh (.var 0)) }

/-- functions.py:272 arccosh(var) -/
def arccosh : Rule :=
  { name := "arccosh",
    val := (.un .arccosh (.var 0)),
    dself := (.mul (.pow (.sub (.var 0) (.const (1 : Rat))) (.const ((-1 : Rat) / 2))) (.pow (.add (.var 0) (.const (1 : Rat))) (.const ((-1 : Rat) / 2)))),
    dother := none,
    plain := some (.un .arccosh (.var 0)) }

/-- functions.py:283 arctanh(var) -/
def arctanh : Rule :=
  { name := "arctanh",
    val := (.un .arctanh (.var 0)),
    dself := (.pow (.sub (.const (1 : Rat)) (.pow (.var 0) (.const (2 : Rat)))) (.const (-1 : Rat))),
    dother := none,
    plain := some (.un .arctanh (.var 0)) }

/-- functions.py:293 heaviside(zerovalue, var) -/
def heaviside : Rule :=
  { name := "heaviside",
    val := (.heaviside (.var 0) (.var 1)),
    dself := (.const (0 : Rat)),
    dother := none,
    plain := some (.heaviside (.var 0) (.var 1)) }

/-- functions.py:321 heaviside_smooth(var, eps) -/
def heaviside_smooth : Rule :=
  { name := "heaviside_smooth",
    val := (.mul (.const ((1 : Rat) / 2)) (.add (.const (1 : Rat)) (.mul (.mul (.const (2 : Rat)) (.pow .pi (.const (-1 : Rat)))) (.un .arctan (.mul (.var 0) (.pow (.var 1) (.const (-1 : Rat)))))))),
    dself := (.mul (.mul (.pow .pi (.const (-1 : Rat))) (.var 1)) (.pow (.add (.pow (.var 1) (.const (2 : Rat))) (.pow (.var 0) (.const (2 : Rat)))) (.const (-1 : Rat)))),
    dother := none,
    plain := some (.mul (.const ((1 : Rat) / 2)) (.add (.const (1 : Rat)) (.mul (.mul (.const (2 : Rat)) (.pow .pi (.const (-1 : Rat)))) (.un .arctan (.mul (.var 0) (.pow (.var 1) (.const (-1 : Rat)))))))) }

/-- functions.py:354 RegularizedHeaviside(partial(heaviside_smooth, eps=eps)).__call__(var, zerovalue) -/
def regularized_heaviside : Rule :=
  { name := "regularized_heaviside",
    val := (.heaviside (.var 0) (.const (0 : Rat))),
    dself := (.mul (.mul (.pow .pi (.const (-1 : Rat))) (.var 1)) (.pow (.add (.pow (.var 1) (.const (2 : Rat))) (.pow (.var 0) (.const (2 : Rat)))) (.const (-1 : Rat)))),
    dother := none,
    plain := some (.heaviside (.var 0) (.const (0 : Rat))) }

/-- functions.py:468 characteristic_function(tol, var) -/
def characteristic_function : Rule :=
  { name := "characteristic_function",
    val := (.ifgt (.un .abs (.var 0)) (.var 1) (.const (0 : Rat)) (.const (1 : Rat))),
    dself := (.const (0 : Rat)),
    dother := none,
    plain := some (.ifgt (.un .abs (.var 0)) (.var 1) (.const (0 : Rat)) (.const (1 : Rat))) }

/-- functions.py:365 maximum(var_0, var_1), operands AdAd -/
def maximum_AdAd : Rule :=
  { name := "maximum_AdAd",
    val := (.ifgt (.var 1) (.var 0) (.var 1) (.var 0)),
    dself := (.ifgt (.var 1) (.var 0) (.const (0 : Rat)) (.const (1 : Rat))),
    dother := some (.ifgt (.var 1) (.var 0) (.const (1 : Rat)) (.const (0 : Rat))),
    plain := some (.ifgt (.var 1) (.var 0) (.var 1) (.var 0)) }

/-- functions.py:365 maximum(var_0, var_1), operands AdA -/
def maximum_AdA : Rule :=
  { name := "maximum_AdA",
    val := (.ifgt (.var 1) (.var 0) (.var 1) (.var 0)),
    dself := (.ifgt (.var 1) (.var 0) (.const (0 : Rat)) (.const (1 : Rat))),
    dother := none,
    plain := some (.ifgt (.var 1) (.var 0) (.var 1) (.var 0)) }

/-- functions.py:365 maximum(var_0, var_1), operands AdS -/
def maximum_AdS : Rule :=
  { name := "maximum_AdS",
    val := (.ifgt (.mul (.const (1 : Rat)) (.var 1)) (.var 0) (.mul (.const (1 : Rat)) (.var 1)) (.var 0)),
    dself := (.ifgt (.mul (.const (1 : Rat)) (.var 1)) (.var 0) (.const (0 : Rat)) (.const (1 : Rat))),
    dother := none,
    plain := some (.ifgt (.mul (.const (1 : Rat)) (.var 1)) (.var 0) (.mul (.const (1 : Rat)) (.var 1)) (.var 0)) }

/-- functions.py:365 maximum(var_0, var_1), operands AAd -/
def maximum_AAd : Rule :=
  { name := "maximum_AAd",
    val := (.ifgt (.var 0) (.var 1) (.var 0) (.var 1)),
    dself := (.ifgt (.var 0) (.var 1) (.const (1 : Rat)) (.const (0 : Rat))),
    dother := none,
    plain := some (.ifgt (.var 0) (.var 1) (.var 0) (.var 1)) }

/-- functions.py:365 maximum(var_0, var_1), operands SAd -/
def maximum_SAd : Rule :=
  { name := "maximum_SAd",
    val := (.ifgt (.var 0) (.mul (.const (1 : Rat)) (.var 1)) (.var 0) (.mul (.const (1 : Rat)) (.var 1))),
    dself := (.ifgt (.var 0) (.mul (.const (1 : Rat)) (.var 1)) (.const (1 : Rat)) (.const (0 : Rat))),
    dother := none,
    plain := some (.ifgt (.var 0) (.mul (.const (1 : Rat)) (.var 1)) (.var 0) (.mul (.const (1 : Rat)) (.var 1))) }

/-- functions.py:90 l2_norm(dim, var), dim >= 2: var 0 = one entry of a group, var 1 = the group's sum of squares -/
def l2_norm : NormRule :=
  { name := "l2_norm",
    val := (.un .sqrt (.var 1)),
    coef := (.ifgt (.un .sqrt (.var 1)) (.const ((4951760157141521 : Rat) / 4951760157141521099596496896)) (.div (.var 0) (.un .sqrt (.var 1))) (.const (1 : Rat))),
    plain := some (.un .sqrt (.var 1)) }

/-- arithmetic rules, in source order -/
def arith : List Rule := [add_S, add_A, add_Ad, radd_S, radd_A, radd_Ad, sub_S, sub_A, sub_Ad, rsub_S, rsub_A, rsub_Ad, mul_S, mul_A, mul_Ad, rmul_S, rmul_A, pow_S, pow_A, pow_Ad, rpow_S, rpow_A, rpow_Ad, truediv_S, truediv_A, truediv_Ad, rtruediv_S, rtruediv_A, rtruediv_Ad, neg]
/-- library functions, in source order -/
def lib : List Rule := [exp, log, abs, l2_norm_dim1, safe_power, sin, cos, tan, arcsin, arccos, arctan, sinh, cosh, tanh, arcsinh, arccosh, arctanh, heaviside, heaviside_smooth, regularized_heaviside, characteristic_function]
/-- maximum(var_0, var_1) per operand kinds (AdArray / numpy array / python scalar) -/
def maxrules : List Rule := [maximum_AdAd, maximum_AdA, maximum_AdS, maximum_AAd, maximum_SAd]
/-- every function / class defined at the top level of functions.py, in source order (each has a rule above) -/
def functions_found : List String := ["exp", "log", "abs", "l2_norm", "safe_power", "sin", "cos", "tan", "arcsin", "arccos", "arctan", "sinh", "cosh", "tanh", "arcsinh", "arccosh", "arctanh", "heaviside", "heaviside_smooth", "RegularizedHeaviside", "maximum", "characteristic_function"]
/-- library functions whose numpy-array branch raises -/
def plain_raising : List (String × String) := []
/-- operand combinations that raise -/
def raising : List (String × String) := [("add_Sp", "ValueError"), ("radd_Sp", "ValueError"), ("sub_Sp", "ValueError"), ("rsub_Sp", "ValueError"), ("mul_Sp", "ValueError"), ("rmul_Ad", "RuntimeError"), ("rmul_Sp", "ValueError"), ("pow_Sp", "ValueError"), ("rpow_Sp", "ValueError"), ("truediv_Sp", "ValueError"), ("rtruediv_Sp", "ValueError"), ("matmul_S", "ValueError"), ("matmul_A", "ValueError"), ("matmul_Ad", "ValueError"), ("matmul_Sp", "ValueError"), ("rmatmul_S", "ValueError"), ("rmatmul_A", "ValueError"), ("rmatmul_Ad", "ValueError")]
/-- `M @ AdArray` for sparse `M` is `AdArray(M @ val, M @ jac)`; `__getitem__` and `initAdArrays` have the text the hand-written model mirrors -/
def structural : List String := ["rmatmul_Sp", "getitem", "initAdArrays"]

end PorepyVerif.C01.Gen
