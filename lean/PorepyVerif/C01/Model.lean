/-
C01 — forward-mode AD (`porepy.numerics.ad.forward_mode.AdArray`, `porepy.numerics.ad.functions`), core Lean only.

Two layers.

1. `SExpr` — a small language of scalar expressions.  Every differentiation rule of the code has the
   shape  `val = f(x.val, c)`,  `jac = diag(g(x.val, c)) @ x.jac (+ diag(h(..)) @ other.jac)`;
   a `Rule` is the triple (f, g, h) of `SExpr`s.  The rules themselves are NOT written here: they are
   regenerated from the Python sources on every run (`Generated.lean`, translator
   `harness/props/c01_translate.py`).  `SExpr` has two interpretations:
     * `SExpr.evalF : SExpr → List Float → Float`   (here; executed by the driver)
     * `SExpr.evalR : SExpr → List ℝ → ℝ`           (Lemmas.lean; what the theorems talk about)
   Variable convention: `var 0` = `self.val` (one entry), `var 1` = the other operand (python scalar,
   one entry of the numpy array, one entry of `other.val`) or the first parameter of a library
   function (`eps`, `zerovalue`, `tol`, `power`), `var 2`, `var 3` = further parameters.

2. `Tree` — AD programs on vectors, evaluated over `Float` exactly as the code does it: row-wise rules
   (`_diagvec_mul_jac` scales ROW i of the Jacobian by entry i; `maximum` is such a rule too: its factors are 0/1
   indicator expressions), left sparse products, row slicing, `l2_norm` (generated `NormRule`), `initAdArrays`.
   Jacobians are dense lists of rows.
-/
namespace PorepyVerif.C01

/-- numpy's unary functions that occur in the rules -/
inductive UFun where
  | exp | log | sin | cos | tan | arcsin | arccos | arctan | sinh | cosh | tanh
  | arcsinh | arccosh | arctanh | abs | sign | sqrt
  deriving Repr, DecidableEq, Inhabited

inductive SExpr where
  | var (i : Nat)
  | const (q : Rat)
  | pi
  | add (a b : SExpr)
  | sub (a b : SExpr)
  | mul (a b : SExpr)
  | div (a b : SExpr)
  | neg (a : SExpr)
  /-- `a ** b` (numpy / C `pow`) -/
  | pow (a b : SExpr)
  | un (f : UFun) (a : SExpr)
  /-- `np.heaviside(x, z)`: 0 for x<0, z for x=0, 1 for x>0 -/
  | heaviside (x z : SExpr)
  /-- `np.where(a > b, t, e)` (masked assignment `v[a > b] = t`) -/
  | ifgt (a b t e : SExpr)
  deriving Repr, DecidableEq, Inhabited

/-- One differentiation rule as coded: value, factor of `self.jac`, factor of `other.jac` (AdArray∘AdArray only).
    `plain` = the value the same library function computes for a plain numpy array (its non-AD branch). -/
structure Rule where
  name : String
  val : SExpr
  dself : SExpr
  dother : Option SExpr := none
  plain : Option SExpr := none
  deriving Repr, DecidableEq, Inhabited

/-- `l2_norm` (dim ≥ 2) as coded: consecutive groups of `dim` rows are contracted to one row.
    `val`: the value of the row, an expression in `var 1` = Σ_k x_k² of the group;
    `coef`: the factor of row k of the group in the new Jacobian row, `var 0` = x_k, `var 1` = Σ_k x_k². -/
structure NormRule where
  name : String
  val : SExpr
  coef : SExpr
  plain : Option SExpr := none
  deriving Repr, DecidableEq, Inhabited

def ratToFloat (q : Rat) : Float := Float.ofInt q.num / Float.ofNat q.den

def UFun.evalF : UFun → Float → Float
  | .exp, x => Float.exp x
  | .log, x => Float.log x
  | .sin, x => Float.sin x
  | .cos, x => Float.cos x
  | .tan, x => Float.tan x
  | .arcsin, x => Float.asin x
  | .arccos, x => Float.acos x
  | .arctan, x => Float.atan x
  | .sinh, x => Float.sinh x
  | .cosh, x => Float.cosh x
  | .tanh, x => Float.tanh x
  | .arcsinh, x => Float.asinh x
  | .arccosh, x => Float.acosh x
  | .arctanh, x => Float.atanh x
  | .abs, x => Float.abs x
  | .sign, x => if x < 0 then -1 else if 0 < x then 1 else 0
  | .sqrt, x => Float.sqrt x

def piF : Float := 3.141592653589793

def SExpr.evalF : SExpr → List Float → Float
  | .var i, ρ => ρ.getD i (0.0 / 0.0)
  | .const q, _ => ratToFloat q
  | .pi, _ => piF
  | .add a b, ρ => a.evalF ρ + b.evalF ρ
  | .sub a b, ρ => a.evalF ρ - b.evalF ρ
  | .mul a b, ρ => a.evalF ρ * b.evalF ρ
  | .div a b, ρ => a.evalF ρ / b.evalF ρ
  | .neg a, ρ => - a.evalF ρ
  | .pow a b, ρ => Float.pow (a.evalF ρ) (b.evalF ρ)
  | .un f a, ρ => f.evalF (a.evalF ρ)
  | .heaviside x z, ρ =>
      let v := x.evalF ρ
      if v < 0 then 0 else if v == 0 then z.evalF ρ else 1
  | .ifgt a b t e, ρ => if a.evalF ρ > b.evalF ρ then t.evalF ρ else e.evalF ρ


/-! ## `safe_power` (finding C01-safe_power-jacobian)

`functions.safe_power(power, zero_val, tol, var)` (var 1 = power, var 2 = zero_val, var 3 = tol).  At the pinned
commit the Jacobian factor is computed from the already powered values, `power * (x**power)**(power-1)`, which is
the derivative only for power = 1.  The property needs `power * x**(power-1)` where the power is taken and 0
where the constant `zero_val` is assigned; that rule (what the translator produces from the repaired source,
`fixes/C01-safe-power-jacobian.diff`) is what the theorems and the driver use.  `Props.safe_power_generated_known`
checks that the rule generated from the current source is one of the two. -/

def safePowerVal : SExpr :=
  (.ifgt (.un .abs (.var 0)) (.var 3) (.pow (.var 0) (.var 1)) (.mul (.const (1 : Rat)) (.var 2)))

def safePowerFixed : Rule :=
  { name := "safe_power",
    val := safePowerVal,
    dself := (.ifgt (.un .abs (.var 0)) (.var 3) (.mul (.var 1) (.pow (.var 0) (.sub (.var 1) (.const (1 : Rat))))) (.const (0 : Rat))),
    dother := none,
    plain := some safePowerVal }

def safePowerAsFound : Rule :=
  { name := "safe_power",
    val := safePowerVal,
    dself := (.mul (.var 1) (.pow safePowerVal (.sub (.var 1) (.const (1 : Rat))))),
    dother := none,
    plain := some safePowerVal }


/-! ## smooth-domain conditions

The side condition under which a rule's Jacobian factors are the derivative (Props: `table1_sound`, `table2_sound`), as data, so
that the driver can evaluate it at every node of every case (`Tree.domF`): first argument = the AdArray entry `x`, second = the
other operand / first parameter `c`. -/
inductive Dom where
  | all        -- no condition
  | pos        -- 0 < x
  | xne0       -- x ≠ 0
  | cne0       -- c ≠ 0
  | cpos       -- 0 < c
  | absLt1     -- -1 < x < 1
  | gt1        -- 1 < x
  | cosNe0     -- cos x ≠ 0
  | powC       -- x ≠ 0 ∨ 1 ≤ c
  | absNeC     -- |x| ≠ c
  | neC        -- x ≠ c
  | safePow    -- parameters (power, zero_val, tol): |x| ≠ tol ∧ (x ≠ 0 ∨ 1 ≤ power)
  | never      -- not a derivative anywhere (RegularizedHeaviside)
  deriving Repr, DecidableEq, Inhabited

def Dom.holdsF : Dom → Float → List Float → Bool
  | .all, _, _ => true
  | .pos, x, _ => 0 < x
  | .xne0, x, _ => x != 0
  | .cne0, _, ps => ps.headD 0 != 0
  | .cpos, _, ps => 0 < ps.headD 0
  | .absLt1, x, _ => -1 < x && x < 1
  | .gt1, x, _ => 1 < x
  | .cosNe0, x, _ => Float.cos x != 0
  | .powC, x, ps => x != 0 || 1 ≤ ps.headD 0
  | .absNeC, x, ps => Float.abs x != ps.headD 0
  | .neC, x, ps => x != ps.headD 0
  | .safePow, x, ps => Float.abs x != ps.getD 2 0 && (x != 0 || 1 ≤ ps.headD 0)
  | .never, _, _ => false

/-- rule name ↦ its domain condition (Props.dom_table_agrees: the same conditions the soundness theorems are proved under) -/
def domTable : List (String × Dom) :=
  [("exp", .all), ("log", .pos), ("abs", .xne0), ("sin", .all), ("cos", .all), ("tan", .cosNe0), ("arcsin", .absLt1), ("arccos", .absLt1),
   ("arctan", .all), ("sinh", .all), ("cosh", .all), ("tanh", .all), ("arcsinh", .all), ("arccosh", .gt1), ("arctanh", .absLt1),
   ("heaviside", .xne0), ("heaviside_smooth", .cne0), ("characteristic_function", .absNeC), ("add_S", .all), ("sub_S", .all), ("rsub_S", .all),
   ("mul_S", .all), ("pow_S", .powC), ("rpow_S", .cpos), ("truediv_S", .cne0), ("truediv_A", .cne0), ("rtruediv_S", .xne0), ("add_A", .all),
   ("radd_S", .all), ("radd_A", .all), ("sub_A", .all), ("rsub_A", .all), ("mul_A", .all), ("rmul_S", .all), ("rmul_A", .all), ("pow_A", .powC),
   ("rpow_A", .cpos), ("rtruediv_A", .xne0), ("neg", .all), ("maximum_AdA", .neC), ("maximum_AdS", .neC), ("maximum_AAd", .neC),
   ("maximum_SAd", .neC), ("l2_norm_dim1", .xne0), ("add_Ad", .all), ("mul_Ad", .all), ("pow_Ad", .pos), ("rpow_Ad", .cpos), ("truediv_Ad", .cne0),
   ("rtruediv_Ad", .xne0), ("radd_Ad", .all), ("sub_Ad", .all), ("rsub_Ad", .all), ("maximum_AdAd", .neC), ("safe_power", .safePow),
   ("regularized_heaviside", .never)]

def domOf (name : String) : Dom :=
  match domTable.find? (fun p => p.1 == name) with
  | some p => p.2
  | none => .never

/-! ## AD programs over Float -/

/-- value vector and dense Jacobian (one row per value) -/
structure AdF where
  val : List Float
  jac : List (List Float)
  deriving Inhabited

inductive Tree where
  /-- k-th AdArray returned by `initAdArrays` -/
  | var (k : Nat)
  /-- library function / `__neg__`: rule applied row-wise, parameters `ps` (`var 1`, `var 2`, …) -/
  | fn (r : Rule) (ps : List Float) (a : Tree)
  /-- arithmetic with a python scalar -/
  | opS (r : Rule) (a : Tree) (c : Float)
  /-- arithmetic with a 1-d numpy array -/
  | opA (r : Rule) (a : Tree) (c : List Float)
  /-- arithmetic with another AdArray (`a` is `self`) -/
  | opAd (r : Rule) (a b : Tree)
  /-- `M @ a` for a sparse matrix `M` (dense rows here) with `cols` columns -/
  | matmul (m : List (List Float)) (cols : Nat) (a : Tree)
  /-- `a[key]`, `idx` = the rows `key` selects -/
  | slice (idx : List Nat) (a : Tree)
  /-- `l2_norm(dim, a)`, dim ≥ 2, with the generated rule -/
  | l2norm (r : NormRule) (dim : Nat) (a : Tree)
  /-- `r = a.copy(); r[key] = b` (`AdArray.__setitem__` with an AdArray value): rows `idx` of `a` replaced by the rows of `b` -/
  | setrows (idx : List Nat) (a b : Tree)
  /-- a generated table entry says this operand combination raises -/
  | raises (kind : String) (a : Tree)
  deriving Inhabited

abbrev Res := Except String

def scaleRow (c : Float) (g : List Float) : List Float := g.map (c * ·)
def addRow (g h : List Float) : List Float := List.zipWith (· + ·) g h
def zeroRow (n : Nat) : List Float := List.replicate n 0
def dotF : List Float → List Float → Float
  | a :: as, b :: bs => a * b + dotF as bs
  | _, _ => 0
/-- Σ_k m_k • rows_k -/
def combRows (n : Nat) : List Float → List (List Float) → List Float
  | m :: ms, r :: rs => addRow (scaleRow m r) (combRows n ms rs)
  | _, _ => zeroRow n

/-- `initAdArrays`: block k has the identity in its own columns, zero elsewhere. -/
def initAd (vars : List (List Float)) : List AdF :=
  let n := (vars.map List.length).sum
  let rec go (off : Nat) : List (List Float) → List AdF
    | [] => []
    | v :: rest =>
      { val := v, jac := (List.range v.length).map (fun i => (List.range n).map (fun j => if j == off + i then 1 else 0)) }
        :: go (off + v.length) rest
  go 0 vars

/-- row-wise rule with per-row environment tail `envs i` (other operand / parameters) -/
def mapRule (r : Rule) (x : AdF) (envs : List (List Float)) : AdF :=
  let rows := (x.val.zip x.jac).zip envs
  { val := rows.map (fun ((v, _), e) => r.val.evalF (v :: e)),
    jac := rows.map (fun ((v, g), e) => scaleRow (r.dself.evalF (v :: e)) g) }

def mapRule2 (r : Rule) (x y : AdF) : AdF :=
  let d2 := r.dother.getD (.const 0)
  let rows := (x.val.zip x.jac).zip (y.val.zip y.jac)
  { val := rows.map (fun ((v, _), (w, _)) => r.val.evalF [v, w]),
    jac := rows.map (fun ((v, g), (w, h)) => addRow (scaleRow (r.dself.evalF [v, w]) g) (scaleRow (d2.evalF [v, w]) h)) }

def ncols (x : AdF) (dflt : Nat) : Nat := match x.jac with
  | g :: _ => g.length
  | [] => dflt

/-- consecutive groups of `dim` rows contracted with the generated `NormRule`
    (row g of the result = Σ_k coef(x_k, S_g) • row (dim*g+k), S_g = Σ_k x_k²) -/
def l2F (r : NormRule) (dim n : Nat) (x : AdF) : AdF :=
  let groups := (List.range (x.val.length / dim)).map (fun i => ((x.val.drop (dim * i)).take dim, (x.jac.drop (dim * i)).take dim))
  { val := groups.map (fun (vs, _) => r.val.evalF [0, vs.foldl (fun s v => s + v * v) 0]),
    jac := groups.map (fun (vs, gs) =>
      let sq := vs.foldl (fun s v => s + v * v) 0
      combRows n (vs.map (fun v => r.coef.evalF [v, sq])) gs) }

/-- Evaluate a tree; `n` = total number of independent variables (Jacobian columns). -/
def Tree.evalF (vars : List AdF) (n : Nat) : Tree → Res AdF
  | .var k => match vars[k]? with
    | some a => pure a
    | none => throw "bad-var"
  | .fn r ps a => do
    let x ← a.evalF vars n
    pure (mapRule r x (x.val.map (fun _ => ps)))
  | .opS r a c => do
    let x ← a.evalF vars n
    pure (mapRule r x (x.val.map (fun _ => [c])))
  | .opA r a c => do
    let x ← a.evalF vars n
    if c.length != x.val.length then throw "ValueError" else
    pure (mapRule r x (c.map (fun ci => [ci])))
  | .opAd r a b => do
    let x ← a.evalF vars n
    let y ← b.evalF vars n
    if x.val.length != y.val.length then throw "ValueError" else
    pure (mapRule2 r x y)
  | .matmul m cols a => do
    let x ← a.evalF vars n
    if x.val.length != cols then throw "ValueError" else
    pure { val := m.map (fun row => dotF row x.val), jac := m.map (fun row => combRows n row x.jac) }
  | .slice idx a => do
    let x ← a.evalF vars n
    if idx.any (fun i => i ≥ x.val.length) then throw "IndexError" else
    pure { val := idx.map (fun i => x.val.getD i 0), jac := idx.map (fun i => x.jac.getD i []) }
  | .l2norm r dim a => do
    let x ← a.evalF vars n
    if dim == 0 then throw "bad-dim" else
    -- `np.reshape(var.val, (dim, -1))` raises before the `assert dim_size % dim == 0` is reached
    if x.val.length % dim != 0 then throw "ValueError" else
    pure (l2F r dim n x)
  | .setrows idx a b => do
    let x ← a.evalF vars n
    let y ← b.evalF vars n
    if idx.any (fun i => i ≥ x.val.length) then throw "IndexError" else
    if y.val.length != idx.length then throw "ValueError" else
    let upd := idx.zip (y.val.zip y.jac)
    pure { val := (List.range x.val.length).map (fun i => match upd.reverse.find? (fun p => p.1 == i) with
                    | some p => p.2.1
                    | none => x.val.getD i 0),
           jac := (List.range x.val.length).map (fun i => match upd.reverse.find? (fun p => p.1 == i) with
                    | some p => p.2.2
                    | none => x.jac.getD i []) }
  | .raises kind a => do
    let _ ← a.evalF vars n
    throw kind

/-- every rule application of the tree happens inside the rule's smooth domain, every `l2_norm` group is above the
    tolerance: the Float reading of `Expr.InDom` (Lemmas), evaluated by the driver on every case -/
def Tree.domF (vars : List AdF) (n : Nat) : Tree → Res Bool
  | .var _ => pure true
  | .fn r ps a => do
    let x ← a.evalF vars n
    pure ((← a.domF vars n) && x.val.all (fun v => (domOf r.name).holdsF v ps))
  | .opS r a c => do
    let x ← a.evalF vars n
    pure ((← a.domF vars n) && x.val.all (fun v => (domOf r.name).holdsF v [c]))
  | .opA r a c => do
    let x ← a.evalF vars n
    pure ((← a.domF vars n) && (x.val.zip c).all (fun (v, ci) => (domOf r.name).holdsF v [ci]))
  | .opAd r a b => do
    let x ← a.evalF vars n
    let y ← b.evalF vars n
    pure ((← a.domF vars n) && (← b.domF vars n) && (x.val.zip y.val).all (fun (v, w) => (domOf r.name).holdsF v [w]))
  | .matmul _ _ a => a.domF vars n
  | .slice _ a => a.domF vars n
  | .l2norm _ dim a => do
    let x ← a.evalF vars n
    let tol : Float := 1e-12
    pure ((← a.domF vars n) && (List.range (x.val.length / dim)).all (fun i =>
      Float.sqrt (((x.val.drop (dim * i)).take dim).foldl (fun s v => s + v * v) 0) > tol))
  | .setrows _ a b => do pure ((← a.domF vars n) && (← b.domF vars n))
  | .raises _ _ => pure false

end PorepyVerif.C01
