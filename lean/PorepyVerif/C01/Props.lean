/-
C01 — property theorems.

Property: for any expression built from AD arrays with the supported arithmetic and the AD function library, the value
equals the plain numpy evaluation of the same expression and the Jacobian equals the true derivative wherever the
expression is differentiable.

* `rule_sound_<name>` — one theorem per rule GENERATED from the current Python source (Generated.lean): the rule's value
  expression is the operation on real numbers it stands for, everywhere, and on the stated (satisfiable, decidable-looking)
  domain its Jacobian factor(s) are the derivative (`HasDerivAt` / joint `HasFDerivAt` for AdArray∘AdArray).
  A flipped sign, swapped factor or dropped chain-rule factor in the source changes the generated term and the
  corresponding theorem stops compiling.
* `rules_covered`, `raising_table`, `lib_plain_eq_val`, `safe_power_generated_known` — the generated tables are exactly
  the ones the theorems below speak about.
* `ad_val`, `ad_jac` — for EVERY expression (row-wise rules incl. maximum, left matrix products, slicing, l2_norm with its
  generated rule, initAdArrays leaves, references to shared results), every point: forward-mode values are the plain
  evaluation and every Jacobian row is the Fréchet derivative of the corresponding output component, by induction over the
  tree (chain rule).  `prog_ad_val`, `prog_ad_jac` — the same for straight-line PROGRAMS `let t₀ = …; let t₁ = …; body` in
  which results are computed once and used several times (expression DAGs); `den_subst` / `ad_subst`: sharing = substitution.
* `table1_sound`, `table2_sound`, `dom_table_agrees`, `inDom_sound`, `prog_exact` — the rules as TABLES (rule, operation, domain
  condition as data); `prog_exact` is the property with the single hypothesis `InDom` (table membership + inequalities on the
  numbers reaching each node), which the driver evaluates on every case (`Tree.domF`).
* `excluded_sets`, `kinks_necessary` — what is excluded from the rule domains and why (kinks vs. domain restrictions).
-/
import PorepyVerif.C01.Lemmas
import PorepyVerif.C01.Generated
set_option linter.unusedSimpArgs false
set_option linter.unusedTactic false
set_option linter.unreachableTactic false
namespace PorepyVerif.C01
open Real

/-! ## the library rules (functions.py) -/


theorem rule_sound_exp : Sound1 Gen.exp (fun x _ => Real.exp x) (fun _ _ => True) where
  val := by intro x c; simp [Gen.exp, SExpr.evalR, UFun.evalR]
  deriv := by intro x c _; simpa [Gen.exp, SExpr.evalR, UFun.evalR] using Real.hasDerivAt_exp x
  no_other := rfl

theorem rule_sound_log : Sound1 Gen.log (fun x _ => Real.log x) (fun x _ => 0 < x) where
  val := by intro x c; simp [Gen.log, SExpr.evalR, UFun.evalR]
  deriv := by intro x c hx; simpa [Gen.log, SExpr.evalR, UFun.evalR] using Real.hasDerivAt_log hx.ne'
  no_other := rfl

theorem rule_sound_abs : Sound1 Gen.abs (fun x _ => |x|) (fun x _ => x ≠ 0) where
  val := by intro x c; simp [Gen.abs, SExpr.evalR, UFun.evalR]
  deriv := by intro x c hx; simpa [Gen.abs, SExpr.evalR, UFun.evalR] using hasDerivAt_signR_abs hx
  no_other := rfl

theorem rule_sound_sin : Sound1 Gen.sin (fun x _ => Real.sin x) (fun _ _ => True) where
  val := by intro x c; simp [Gen.sin, SExpr.evalR, UFun.evalR]
  deriv := by intro x c _; simpa [Gen.sin, SExpr.evalR, UFun.evalR] using Real.hasDerivAt_sin x
  no_other := rfl

theorem rule_sound_cos : Sound1 Gen.cos (fun x _ => Real.cos x) (fun _ _ => True) where
  val := by intro x c; simp [Gen.cos, SExpr.evalR, UFun.evalR]
  deriv := by intro x c _; simpa [Gen.cos, SExpr.evalR, UFun.evalR] using Real.hasDerivAt_cos x
  no_other := rfl

theorem rule_sound_tan : Sound1 Gen.tan (fun x _ => Real.tan x) (fun x _ => Real.cos x ≠ 0) where
  val := by intro x c; simp [Gen.tan, SExpr.evalR, UFun.evalR]
  deriv := by
    intro x c hx
    have h := Real.hasDerivAt_tan hx
    refine h.congr_deriv ?_
    simp [Gen.tan, SExpr.evalR, UFun.evalR, Real.rpow_two, Real.rpow_neg_one]
  no_other := rfl

theorem rule_sound_arcsin : Sound1 Gen.arcsin (fun x _ => Real.arcsin x) (fun x _ => -1 < x ∧ x < 1) where
  val := by intro x c; simp [Gen.arcsin, SExpr.evalR, UFun.evalR]
  deriv := by
    intro x c ⟨h1, h2⟩
    have h := Real.hasDerivAt_arcsin h1.ne' h2.ne
    refine h.congr_deriv ?_
    have hp : (0 : ℝ) ≤ 1 - x ^ 2 := by nlinarith
    simp [Gen.arcsin, SExpr.evalR, UFun.evalR, Real.rpow_two]
    rw [rpow_neg_half hp]
  no_other := rfl

theorem rule_sound_arccos : Sound1 Gen.arccos (fun x _ => Real.arccos x) (fun x _ => -1 < x ∧ x < 1) where
  val := by intro x c; simp [Gen.arccos, SExpr.evalR, UFun.evalR]
  deriv := by
    intro x c ⟨h1, h2⟩
    have h := Real.hasDerivAt_arccos h1.ne' h2.ne
    refine h.congr_deriv ?_
    have hp : (0 : ℝ) ≤ 1 - x ^ 2 := by nlinarith
    simp [Gen.arccos, SExpr.evalR, UFun.evalR, Real.rpow_two]
    rw [rpow_neg_half hp]
  no_other := rfl

theorem rule_sound_arctan : Sound1 Gen.arctan (fun x _ => Real.arctan x) (fun _ _ => True) where
  val := by intro x c; simp [Gen.arctan, SExpr.evalR, UFun.evalR]
  deriv := by
    intro x c _
    refine (Real.hasDerivAt_arctan x).congr_deriv ?_
    simp [Gen.arctan, SExpr.evalR, UFun.evalR, Real.rpow_two, Real.rpow_neg_one, add_comm]
  no_other := rfl

theorem rule_sound_sinh : Sound1 Gen.sinh (fun x _ => Real.sinh x) (fun _ _ => True) where
  val := by intro x c; simp [Gen.sinh, SExpr.evalR, UFun.evalR]
  deriv := by intro x c _; simpa [Gen.sinh, SExpr.evalR, UFun.evalR] using Real.hasDerivAt_sinh x
  no_other := rfl

theorem rule_sound_cosh : Sound1 Gen.cosh (fun x _ => Real.cosh x) (fun _ _ => True) where
  val := by intro x c; simp [Gen.cosh, SExpr.evalR, UFun.evalR]
  deriv := by intro x c _; simpa [Gen.cosh, SExpr.evalR, UFun.evalR] using Real.hasDerivAt_cosh x
  no_other := rfl

theorem rule_sound_tanh : Sound1 Gen.tanh (fun x _ => Real.tanh x) (fun _ _ => True) where
  val := by intro x c; simp [Gen.tanh, SExpr.evalR, UFun.evalR]
  deriv := by
    intro x c _
    refine (hasDerivAt_tanh x).congr_deriv ?_
    simp [Gen.tanh, SExpr.evalR, UFun.evalR, rpow_neg_two]
  no_other := rfl

theorem rule_sound_arcsinh : Sound1 Gen.arcsinh (fun x _ => Real.arsinh x) (fun _ _ => True) where
  val := by intro x c; simp [Gen.arcsinh, SExpr.evalR, UFun.evalR]
  deriv := by
    intro x c _
    refine (Real.hasDerivAt_arsinh x).congr_deriv ?_
    have hp : (0 : ℝ) ≤ x ^ 2 + 1 := by positivity
    simp [Gen.arcsinh, SExpr.evalR, UFun.evalR]
    rw [rpow_neg_half hp, add_comm]
  no_other := rfl

theorem rule_sound_arccosh : Sound1 Gen.arccosh (fun x _ => Real.arcosh x) (fun x _ => 1 < x) where
  val := by intro x c; simp [Gen.arccosh, SExpr.evalR, UFun.evalR]
  deriv := by
    intro x c hx
    refine (Real.hasDerivAt_arcosh (Set.mem_Ioi.mpr hx)).congr_deriv ?_
    have h1 : (0 : ℝ) ≤ x - 1 := by linarith
    have h2 : (0 : ℝ) ≤ x + 1 := by linarith
    simp [Gen.arccosh, SExpr.evalR, UFun.evalR]
    rw [rpow_neg_half h1, rpow_neg_half h2, ← mul_inv, ← Real.sqrt_mul h1]
    congr 2; ring
  no_other := rfl

theorem rule_sound_arctanh : Sound1 Gen.arctanh (fun x _ => Real.artanh x) (fun x _ => -1 < x ∧ x < 1) where
  val := by intro x c; simp [Gen.arctanh, SExpr.evalR, UFun.evalR]
  deriv := by
    intro x c ⟨h1, h2⟩
    refine (hasDerivAt_artanh h1 h2).congr_deriv ?_
    simp [Gen.arctanh, SExpr.evalR, UFun.evalR, Real.rpow_neg_one]
  no_other := rfl

theorem rule_sound_heaviside : Sound1 Gen.heaviside (fun x z => heavisideR x z) (fun x _ => x ≠ 0) where
  val := by intro x c; simp [Gen.heaviside, SExpr.evalR]
  deriv := by intro x c hx; simpa [Gen.heaviside, SExpr.evalR] using heavisideR_hasDerivAt (z := c) hx
  no_other := rfl

/-- `H_eps(x) = (1/2) (1 + (2/π) arctan(x/eps))` (docstring of `heaviside_smooth`) -/
noncomputable def heavisideSmoothR (x eps : ℝ) : ℝ := 1 / 2 * (1 + 2 / π * Real.arctan (x / eps))

theorem rule_sound_heaviside_smooth : Sound1 Gen.heaviside_smooth heavisideSmoothR (fun _ eps => eps ≠ 0) where
  val := by
    intro x c
    simp [Gen.heaviside_smooth, SExpr.evalR, UFun.evalR, heavisideSmoothR, Real.rpow_neg_one, div_eq_mul_inv]
  deriv := by
    intro x c hc
    have h1 : HasDerivAt (fun t : ℝ => t / c) (1 / c) x := by simpa using (hasDerivAt_id x).div_const c
    have h2 := (h1.arctan.const_mul (2 / π)).const_add 1
    have h3 := h2.const_mul (1 / 2 : ℝ)
    refine h3.congr_deriv ?_
    have hpi : π ≠ 0 := Real.pi_ne_zero
    have hs : c ^ 2 + x ^ 2 ≠ 0 := by positivity
    simp [Gen.heaviside_smooth, SExpr.evalR, UFun.evalR, Real.rpow_neg_one]
    field_simp
  no_other := rfl

/-- `np.isclose(x, 0, atol=tol)` as a float -/
noncomputable def charR (x tol : ℝ) : ℝ := if |x| ≤ tol then 1 else 0

theorem rule_sound_characteristic_function :
    Sound1 Gen.characteristic_function charR (fun x tol => |x| ≠ tol) where
  val := by
    intro x c
    simp [Gen.characteristic_function, SExpr.evalR, UFun.evalR, charR]
    by_cases h : |x| ≤ c
    · simp [h, not_lt.mpr h]
    · simp [h, not_le.mp h]
  deriv := by
    intro x c hx
    have hd : (Gen.characteristic_function.dself.evalR [x, c]) = 0 := by
      simp [Gen.characteristic_function, SExpr.evalR]
    rw [hd]
    rcases lt_or_gt_of_ne hx with h | h
    · apply hasDerivAt_of_eventually_const (k := 1)
      have : {y : ℝ | |y| < c} ∈ nhds x := (isOpen_lt continuous_abs continuous_const).mem_nhds h
      filter_upwards [this] with y hy
      simp [charR, le_of_lt (show |y| < c from hy)]
    · apply hasDerivAt_of_eventually_const (k := 0)
      have : {y : ℝ | c < |y|} ∈ nhds x := (isOpen_lt continuous_const continuous_abs).mem_nhds h
      filter_upwards [this] with y hy
      simp [charR, not_le.mpr (show c < |y| from hy)]
  no_other := rfl


/-! ## safe_power (three parameters; see Model.lean: the theorem is about the repaired rule) -/

/-- `x ** power` where `|x| > tol`, the constant `zero_val` elsewhere -/
noncomputable def safePowR (x p z tol : ℝ) : ℝ := if |x| > tol then x ^ p else z

theorem rule_sound_safe_power (x p z tol : ℝ) :
    safePowerFixed.val.evalR [x, p, z, tol] = safePowR x p z tol ∧
    (|x| ≠ tol → (x ≠ 0 ∨ 1 ≤ p) →
      HasDerivAt (fun t => safePowR t p z tol) (safePowerFixed.dself.evalR [x, p, z, tol]) x) := by
  refine ⟨by simp [safePowerFixed, safePowerVal, SExpr.evalR, UFun.evalR, safePowR], ?_⟩
  intro hx hp
  rcases lt_or_gt_of_ne hx with h | h
  · have hd : safePowerFixed.dself.evalR [x, p, z, tol] = 0 := by
      simp [safePowerFixed, SExpr.evalR, UFun.evalR, not_lt.mpr h.le]
    rw [hd]
    apply hasDerivAt_of_eventually_const (k := z)
    have : {y : ℝ | |y| < tol} ∈ nhds x := (isOpen_lt continuous_abs continuous_const).mem_nhds h
    filter_upwards [this] with y hy
    have hy' : |y| < tol := hy
    simp [safePowR, not_lt.mpr hy'.le]
  · have hd : safePowerFixed.dself.evalR [x, p, z, tol] = p * x ^ (p - 1) := by
      simp [safePowerFixed, SExpr.evalR, UFun.evalR, h]
    rw [hd]
    refine (Real.hasDerivAt_rpow_const hp).congr_of_eventuallyEq ?_
    have : {y : ℝ | tol < |y|} ∈ nhds x := (isOpen_lt continuous_const continuous_abs).mem_nhds h
    filter_upwards [this] with y hy
    have hy' : tol < |y| := hy
    simp [safePowR, hy']

/-- The rule generated from the CURRENT source is either the repaired one or the one found at the pinned commit
    (any other change of `safe_power` breaks this). -/
theorem safe_power_generated_known : Gen.safe_power = safePowerFixed ∨ Gen.safe_power = safePowerAsFound := by
  first
    | exact Or.inl rfl
    | exact Or.inr rfl

/-- The rule found at the pinned commit is not a derivative: at x = 2, power = -1 it yields -4, the derivative of
    1/x at 2 is -1/4 (finding C01-safe_power-jacobian). -/
theorem safe_power_as_found_unsound :
    ¬ HasDerivAt (fun t => safePowR t (-1) 0 (1 / 2)) (safePowerAsFound.dself.evalR [2, -1, 0, 1 / 2]) 2 := by
  intro h
  have h2 : |(2 : ℝ)| ≠ 1 / 2 := by norm_num
  have h' := (rule_sound_safe_power 2 (-1) 0 (1 / 2)).2 h2 (Or.inl (by norm_num))
  have e := h.unique h'
  have e2 : ((-1 : ℝ) - 1) = -2 := by norm_num
  have a2 : (1 / 2 : ℝ) < |(2 : ℝ)| := by norm_num
  simp [safePowerAsFound, safePowerFixed, safePowerVal, SExpr.evalR, UFun.evalR, e2, rpow_neg_two, Real.rpow_neg_one, a2] at e
  norm_num at e

/-! ## the arithmetic rules (forward_mode.py) -/

theorem rule_sound_add_S : Sound1 Gen.add_S (fun x c => x + c) (fun _ _ => True) where
  val := by intro x c; simp [Gen.add_S, SExpr.evalR]
  deriv := by intro x c _; simpa [Gen.add_S, SExpr.evalR] using (hasDerivAt_id x).add_const c
  no_other := rfl

theorem rule_sound_sub_S : Sound1 Gen.sub_S (fun x c => x - c) (fun _ _ => True) where
  val := by intro x c; simp [Gen.sub_S, SExpr.evalR]; ring
  deriv := by intro x c _; simpa [Gen.sub_S, SExpr.evalR] using (hasDerivAt_id x).sub_const c
  no_other := rfl

theorem rule_sound_rsub_S : Sound1 Gen.rsub_S (fun x c => c - x) (fun _ _ => True) where
  val := by intro x c; simp [Gen.rsub_S, SExpr.evalR]; ring
  deriv := by intro x c _; simpa [Gen.rsub_S, SExpr.evalR] using (hasDerivAt_id x).const_sub c
  no_other := rfl

theorem rule_sound_mul_S : Sound1 Gen.mul_S (fun x c => x * c) (fun _ _ => True) where
  val := by intro x c; simp [Gen.mul_S, SExpr.evalR]
  deriv := by intro x c _; simpa [Gen.mul_S, SExpr.evalR] using (hasDerivAt_id x).mul_const c
  no_other := rfl

theorem rule_sound_pow_S : Sound1 Gen.pow_S (fun x c => x ^ c) (fun x c => x ≠ 0 ∨ 1 ≤ c) where
  val := by intro x c; simp [Gen.pow_S, SExpr.evalR]
  deriv := by intro x c h; simpa [Gen.pow_S, SExpr.evalR] using Real.hasDerivAt_rpow_const h
  no_other := rfl

theorem rule_sound_rpow_S : Sound1 Gen.rpow_S (fun x c => c ^ x) (fun _ c => 0 < c) where
  val := by intro x c; simp [Gen.rpow_S, SExpr.evalR]
  deriv := by
    intro x c h
    simpa [Gen.rpow_S, SExpr.evalR, UFun.evalR] using (Real.hasStrictDerivAt_const_rpow h x).hasDerivAt
  no_other := rfl

theorem rule_sound_truediv_S : Sound1 Gen.truediv_S (fun x c => x / c) (fun _ c => c ≠ 0) where
  val := by intro x c; simp [Gen.truediv_S, SExpr.evalR]
  deriv := by intro x c _; simpa [Gen.truediv_S, SExpr.evalR] using (hasDerivAt_id x).div_const c
  no_other := rfl

theorem rule_sound_truediv_A : Sound1 Gen.truediv_A (fun x c => x / c) (fun _ c => c ≠ 0) where
  val := by intro x c; simp [Gen.truediv_A, SExpr.evalR, Real.rpow_neg_one, div_eq_mul_inv]
  deriv := by
    intro x c _
    simpa [Gen.truediv_A, SExpr.evalR, Real.rpow_neg_one, div_eq_mul_inv] using (hasDerivAt_id x).div_const c
  no_other := rfl

theorem rule_sound_rtruediv_S : Sound1 Gen.rtruediv_S (fun x c => c / x) (fun x _ => x ≠ 0) where
  val := by intro x c; simp [Gen.rtruediv_S, SExpr.evalR, Real.rpow_neg_one, div_eq_mul_inv, mul_comm]
  deriv := by
    intro x c hx
    have h := (hasDerivAt_inv hx).const_mul c
    have hf : (fun t : ℝ => c / t) = fun t => c * t⁻¹ := funext fun t => div_eq_mul_inv c t
    rw [hf]
    refine h.congr_deriv ?_
    have e : ((-1 : ℝ) - 1) = -2 := by norm_num
    simp [Gen.rtruediv_S, SExpr.evalR, e, rpow_neg_two]
    ring
  no_other := rfl

theorem rule_sound_add_Ad : Sound2 Gen.add_Ad (fun x y => x + y) (fun _ _ => True) where
  val := by intro x y; simp [Gen.add_Ad, SExpr.evalR]
  deriv := by
    intro x y _
    refine fderiv2_of (hasFDerivAt_fst.add hasFDerivAt_snd) (fun p => rfl) ?_ ?_ <;>
      simp [Gen.add_Ad, SExpr.evalR]
  has_other := rfl

theorem rule_sound_mul_Ad : Sound2 Gen.mul_Ad (fun x y => x * y) (fun _ _ => True) where
  val := by intro x y; simp [Gen.mul_Ad, SExpr.evalR]
  deriv := by
    intro x y _
    refine fderiv2_of (hasFDerivAt_fst.mul hasFDerivAt_snd) (fun p => rfl) ?_ ?_ <;>
      simp [Gen.mul_Ad, SExpr.evalR]
  has_other := rfl

theorem rule_sound_pow_Ad : Sound2 Gen.pow_Ad (fun x y => x ^ y) (fun x _ => 0 < x) where
  val := by intro x y; simp [Gen.pow_Ad, SExpr.evalR]
  deriv := by
    intro x y hx
    refine fderiv2_of (hasFDerivAt_fst.rpow hasFDerivAt_snd hx) (fun p => rfl) ?_ ?_ <;>
      simp [Gen.pow_Ad, SExpr.evalR, UFun.evalR]
  has_other := rfl

theorem rule_sound_rpow_Ad : Sound2 Gen.rpow_Ad (fun x y => y ^ x) (fun _ y => 0 < y) where
  val := by intro x y; simp [Gen.rpow_Ad, SExpr.evalR]
  deriv := by
    intro x y hy
    refine fderiv2_of (F := fun x y => y ^ x) (hasFDerivAt_snd.rpow hasFDerivAt_fst hy) (fun p => rfl) ?_ ?_ <;>
      simp [Gen.rpow_Ad, SExpr.evalR, UFun.evalR]
  has_other := rfl

theorem rule_sound_truediv_Ad : Sound2 Gen.truediv_Ad (fun x y => x / y) (fun _ y => y ≠ 0) where
  val := by intro x y; simp [Gen.truediv_Ad, SExpr.evalR, Real.rpow_neg_one, div_eq_mul_inv]
  deriv := by
    intro x y hy
    have hs : HasFDerivAt (Prod.snd : ℝ × ℝ → ℝ) (ContinuousLinearMap.snd ℝ ℝ ℝ) (x, y) := hasFDerivAt_snd
    have hi := (hasDerivAt_inv hy).comp_hasFDerivAt (x, y) hs
    have e : ((-1 : ℝ) - 1) = -2 := by norm_num
    refine fderiv2_of (F := fun x y => x / y) (hasFDerivAt_fst.mul hi) (fun p => div_eq_mul_inv _ _) ?_ ?_ <;>
      simp [Gen.truediv_Ad, SExpr.evalR, e, rpow_neg_two, Real.rpow_neg_one]
  has_other := rfl

theorem rule_sound_rtruediv_Ad : Sound2 Gen.rtruediv_Ad (fun x y => y / x) (fun x _ => x ≠ 0) where
  val := by intro x y; simp [Gen.rtruediv_Ad, SExpr.evalR, Real.rpow_neg_one, div_eq_mul_inv]
  deriv := by
    intro x y hx
    have hs : HasFDerivAt (Prod.fst : ℝ × ℝ → ℝ) (ContinuousLinearMap.fst ℝ ℝ ℝ) (x, y) := hasFDerivAt_fst
    have hi := (hasDerivAt_inv hx).comp_hasFDerivAt (x, y) hs
    have e : ((-1 : ℝ) - 1) = -2 := by norm_num
    refine fderiv2_of (F := fun x y => y / x) (hasFDerivAt_snd.mul hi) (fun p => div_eq_mul_inv _ _) ?_ ?_ <;>
      simp [Gen.rtruediv_Ad, SExpr.evalR, e, rpow_neg_two, Real.rpow_neg_one]
  has_other := rfl


theorem rule_sound_add_A : Sound1 Gen.add_A (fun x c => x + c) (fun _ _ => True) where
  val := by intro x c; simp [Gen.add_A, SExpr.evalR]
  deriv := by intro x c _; simpa [Gen.add_A, SExpr.evalR] using (hasDerivAt_id x).add_const c
  no_other := rfl

theorem rule_sound_radd_S : Sound1 Gen.radd_S (fun x c => c + x) (fun _ _ => True) where
  val := by intro x c; simp [Gen.radd_S, SExpr.evalR, add_comm]
  deriv := by intro x c _; simpa [Gen.radd_S, SExpr.evalR] using (hasDerivAt_id x).const_add c
  no_other := rfl

theorem rule_sound_radd_A : Sound1 Gen.radd_A (fun x c => c + x) (fun _ _ => True) where
  val := by intro x c; simp [Gen.radd_A, SExpr.evalR, add_comm]
  deriv := by intro x c _; simpa [Gen.radd_A, SExpr.evalR] using (hasDerivAt_id x).const_add c
  no_other := rfl

theorem rule_sound_sub_A : Sound1 Gen.sub_A (fun x c => x - c) (fun _ _ => True) where
  val := by intro x c; simp [Gen.sub_A, SExpr.evalR]; ring
  deriv := by intro x c _; simpa [Gen.sub_A, SExpr.evalR] using (hasDerivAt_id x).sub_const c
  no_other := rfl

theorem rule_sound_rsub_A : Sound1 Gen.rsub_A (fun x c => c - x) (fun _ _ => True) where
  val := by intro x c; simp [Gen.rsub_A, SExpr.evalR]; ring
  deriv := by intro x c _; simpa [Gen.rsub_A, SExpr.evalR] using (hasDerivAt_id x).const_sub c
  no_other := rfl

theorem rule_sound_mul_A : Sound1 Gen.mul_A (fun x c => x * c) (fun _ _ => True) where
  val := by intro x c; simp [Gen.mul_A, SExpr.evalR]
  deriv := by intro x c _; simpa [Gen.mul_A, SExpr.evalR] using (hasDerivAt_id x).mul_const c
  no_other := rfl

theorem rule_sound_rmul_S : Sound1 Gen.rmul_S (fun x c => c * x) (fun _ _ => True) where
  val := by intro x c; simp [Gen.rmul_S, SExpr.evalR, mul_comm]
  deriv := by intro x c _; simpa [Gen.rmul_S, SExpr.evalR] using (hasDerivAt_id x).const_mul c
  no_other := rfl

theorem rule_sound_rmul_A : Sound1 Gen.rmul_A (fun x c => c * x) (fun _ _ => True) where
  val := by intro x c; simp [Gen.rmul_A, SExpr.evalR, mul_comm]
  deriv := by intro x c _; simpa [Gen.rmul_A, SExpr.evalR] using (hasDerivAt_id x).const_mul c
  no_other := rfl

theorem rule_sound_pow_A : Sound1 Gen.pow_A (fun x c => x ^ c) (fun x c => x ≠ 0 ∨ 1 ≤ c) where
  val := by intro x c; simp [Gen.pow_A, SExpr.evalR]
  deriv := by intro x c h; simpa [Gen.pow_A, SExpr.evalR] using Real.hasDerivAt_rpow_const h
  no_other := rfl

theorem rule_sound_rpow_A : Sound1 Gen.rpow_A (fun x c => c ^ x) (fun _ c => 0 < c) where
  val := by intro x c; simp [Gen.rpow_A, SExpr.evalR]
  deriv := by
    intro x c h
    simpa [Gen.rpow_A, SExpr.evalR, UFun.evalR] using (Real.hasStrictDerivAt_const_rpow h x).hasDerivAt
  no_other := rfl

theorem rule_sound_rtruediv_A : Sound1 Gen.rtruediv_A (fun x c => c / x) (fun x _ => x ≠ 0) where
  val := by intro x c; simp [Gen.rtruediv_A, SExpr.evalR, Real.rpow_neg_one, div_eq_mul_inv, mul_comm]
  deriv := by
    intro x c hx
    have h := (hasDerivAt_inv hx).const_mul c
    have hf : (fun t : ℝ => c / t) = fun t => c * t⁻¹ := funext fun t => div_eq_mul_inv c t
    rw [hf]
    refine h.congr_deriv ?_
    have e : ((-1 : ℝ) - 1) = -2 := by norm_num
    simp [Gen.rtruediv_A, SExpr.evalR, e, rpow_neg_two]
  no_other := rfl

theorem rule_sound_radd_Ad : Sound2 Gen.radd_Ad (fun x y => y + x) (fun _ _ => True) where
  val := by intro x y; simp [Gen.radd_Ad, SExpr.evalR, add_comm]
  deriv := by
    intro x y _
    refine fderiv2_of (F := fun x y => y + x) (hasFDerivAt_snd.add hasFDerivAt_fst) (fun p => rfl) ?_ ?_ <;>
      simp [Gen.radd_Ad, SExpr.evalR]
  has_other := rfl

theorem rule_sound_sub_Ad : Sound2 Gen.sub_Ad (fun x y => x - y) (fun _ _ => True) where
  val := by intro x y; simp [Gen.sub_Ad, SExpr.evalR]; ring
  deriv := by
    intro x y _
    refine fderiv2_of (F := fun x y => x - y) (hasFDerivAt_fst.sub hasFDerivAt_snd) (fun p => rfl) ?_ ?_ <;>
      simp [Gen.sub_Ad, SExpr.evalR]
  has_other := rfl

theorem rule_sound_rsub_Ad : Sound2 Gen.rsub_Ad (fun x y => y - x) (fun _ _ => True) where
  val := by intro x y; simp [Gen.rsub_Ad, SExpr.evalR]; ring
  deriv := by
    intro x y _
    refine fderiv2_of (F := fun x y => y - x) (hasFDerivAt_snd.sub hasFDerivAt_fst) (fun p => rfl) ?_ ?_ <;>
      simp [Gen.rsub_Ad, SExpr.evalR]
  has_other := rfl

theorem rule_sound_neg : Sound1 Gen.neg (fun x _ => -x) (fun _ _ => True) where
  val := by intro x c; simp [Gen.neg, SExpr.evalR]
  deriv := by intro x c _; simpa [Gen.neg, SExpr.evalR] using hasDerivAt_neg x
  no_other := rfl


/-! ## maximum and l2_norm (generated since the deepening round) -/

theorem hasFDerivAt_max_of_lt {x y : ℝ} (h : x < y) :
    HasFDerivAt (fun p : ℝ × ℝ => max p.1 p.2) (ContinuousLinearMap.snd ℝ ℝ ℝ) (x, y) := by
  have hs : HasFDerivAt (Prod.snd : ℝ × ℝ → ℝ) (ContinuousLinearMap.snd ℝ ℝ ℝ) (x, y) := hasFDerivAt_snd
  refine hs.congr_of_eventuallyEq ?_
  have : {p : ℝ × ℝ | p.1 < p.2} ∈ nhds (x, y) := (isOpen_lt continuous_fst continuous_snd).mem_nhds h
  filter_upwards [this] with p hp
  exact max_eq_right (le_of_lt hp)

theorem hasFDerivAt_max_of_gt {x y : ℝ} (h : y < x) :
    HasFDerivAt (fun p : ℝ × ℝ => max p.1 p.2) (ContinuousLinearMap.fst ℝ ℝ ℝ) (x, y) := by
  have hs : HasFDerivAt (Prod.fst : ℝ × ℝ → ℝ) (ContinuousLinearMap.fst ℝ ℝ ℝ) (x, y) := hasFDerivAt_fst
  refine hs.congr_of_eventuallyEq ?_
  have : {p : ℝ × ℝ | p.2 < p.1} ∈ nhds (x, y) := (isOpen_lt continuous_snd continuous_fst).mem_nhds h
  filter_upwards [this] with p hp
  exact max_eq_left (le_of_lt hp)

theorem hasDerivAt_max_const {x c : ℝ} (h : x ≠ c) :
    HasDerivAt (fun t => max t c) (if c > x then 0 else 1) x := by
  rcases lt_or_gt_of_ne h with h | h
  · rw [if_pos h]
    apply hasDerivAt_of_eventually_const (k := c)
    filter_upwards [Iio_mem_nhds h] with t ht
    exact max_eq_right (le_of_lt ht)
  · rw [if_neg (not_lt.mpr h.le)]
    refine (hasDerivAt_id x).congr_of_eventuallyEq ?_
    filter_upwards [Ioi_mem_nhds h] with t ht
    exact max_eq_left (le_of_lt ht)

theorem ifgt_max (x y : ℝ) : (if y > x then y else x) = max x y := by
  by_cases h : y > x
  · rw [if_pos h, max_eq_right h.le]
  · rw [if_neg h, max_eq_left (not_lt.mp h)]

theorem rule_sound_maximum_AdAd : Sound2 Gen.maximum_AdAd (fun x y => max x y) (fun x y => x ≠ y) where
  val := by intro x y; simp [Gen.maximum_AdAd, SExpr.evalR, ifgt_max]
  deriv := by
    intro x y h
    rcases lt_or_gt_of_ne h with h | h
    · refine (hasFDerivAt_max_of_lt h).congr_fderiv ?_
      have h' : y > x := h
      simp [Gen.maximum_AdAd, SExpr.evalR, h']
    · refine (hasFDerivAt_max_of_gt h).congr_fderiv ?_
      have h' : ¬ y > x := not_lt.mpr h.le
      simp [Gen.maximum_AdAd, SExpr.evalR, h']
  has_other := rfl

theorem rule_sound_maximum_AdA : Sound1 Gen.maximum_AdA (fun x c => max x c) (fun x c => x ≠ c) where
  val := by intro x c; simp [Gen.maximum_AdA, SExpr.evalR, ifgt_max]
  deriv := by intro x c h; simpa [Gen.maximum_AdA, SExpr.evalR] using hasDerivAt_max_const h
  no_other := rfl

theorem rule_sound_maximum_AdS : Sound1 Gen.maximum_AdS (fun x c => max x c) (fun x c => x ≠ c) where
  val := by intro x c; simp [Gen.maximum_AdS, SExpr.evalR, ifgt_max]
  deriv := by intro x c h; simpa [Gen.maximum_AdS, SExpr.evalR] using hasDerivAt_max_const h
  no_other := rfl

theorem rule_sound_maximum_AAd : Sound1 Gen.maximum_AAd (fun x c => max c x) (fun x c => x ≠ c) where
  val := by intro x c; simp [Gen.maximum_AAd, SExpr.evalR, ifgt_max]
  deriv := by
    intro x c h
    have hf : (fun t => max c t) = fun t => max t c := funext fun t => max_comm c t
    rw [hf]
    have := hasDerivAt_max_const h
    refine this.congr_deriv ?_
    rcases lt_or_gt_of_ne h with h | h
    · have h' : ¬ x > c := not_lt.mpr h.le
      simp [Gen.maximum_AAd, SExpr.evalR, h', h]
    · have h' : ¬ c > x := not_lt.mpr h.le
      simp [Gen.maximum_AAd, SExpr.evalR, h', h]
  no_other := rfl

theorem rule_sound_maximum_SAd : Sound1 Gen.maximum_SAd (fun x c => max c x) (fun x c => x ≠ c) where
  val := by intro x c; simp [Gen.maximum_SAd, SExpr.evalR, ifgt_max]
  deriv := by
    intro x c h
    have hf : (fun t => max c t) = fun t => max t c := funext fun t => max_comm c t
    rw [hf]
    have := hasDerivAt_max_const h
    refine this.congr_deriv ?_
    rcases lt_or_gt_of_ne h with h | h
    · have h' : ¬ x > c := not_lt.mpr h.le
      simp [Gen.maximum_SAd, SExpr.evalR, h', h]
    · have h' : ¬ c > x := not_lt.mpr h.le
      simp [Gen.maximum_SAd, SExpr.evalR, h', h]
  no_other := rfl

theorem rule_sound_l2_norm_dim1 : Sound1 Gen.l2_norm_dim1 (fun x _ => |x|) (fun x _ => x ≠ 0) where
  val := by intro x c; simp [Gen.l2_norm_dim1, SExpr.evalR, UFun.evalR]
  deriv := by intro x c hx; simpa [Gen.l2_norm_dim1, SExpr.evalR, UFun.evalR] using hasDerivAt_signR_abs hx
  no_other := rfl

/-- l2_norm, dim ≥ 2: the value is the Euclidean norm of the group and, when the norm is above the tolerance of the code,
    the generated factors are its gradient: ∇‖x‖ = x / ‖x‖. -/
theorem rule_sound_l2_norm (d : ℕ) (v : Fin d → ℝ) :
    (∀ x S, Gen.l2_norm.val.evalR [x, S] = √S) ∧
    (l2tol < norm2 v →
      HasFDerivAt (norm2 (d := d))
        (∑ k : Fin d, Gen.l2_norm.coef.evalR [v k, ∑ k' : Fin d, v k' ^ 2]
          • ContinuousLinearMap.proj (R := ℝ) (φ := fun _ : Fin d => ℝ) k) v) := by
  refine ⟨by intro x S; simp [Gen.l2_norm, SExpr.evalR, UFun.evalR], ?_⟩
  intro hpos
  set S : ℝ := ∑ k : Fin d, v k ^ 2 with hS
  have hpos' : l2tol < √S := hpos
  have htol : (0 : ℝ) < l2tol := by unfold l2tol; positivity
  have hn : √S ≠ 0 := (lt_trans htol hpos').ne'
  have hS0 : S ≠ 0 := fun h0 => hn (by rw [h0, Real.sqrt_zero])
  have hsum : HasFDerivAt (fun y : Fin d → ℝ => ∑ k : Fin d, y k ^ 2)
      (∑ k : Fin d, (2 * v k) • ContinuousLinearMap.proj (R := ℝ) (φ := fun _ : Fin d => ℝ) k) v := by
    refine HasFDerivAt.fun_sum (fun k _ => ?_)
    have hk : HasFDerivAt (fun y : Fin d → ℝ => y k) (ContinuousLinearMap.proj (R := ℝ) (φ := fun _ : Fin d => ℝ) k) v :=
      hasFDerivAt_apply k v
    have h2 := hk.mul hk
    have hf : (fun y : Fin d → ℝ => y k ^ 2) = (fun y : Fin d → ℝ => y k) * (fun y : Fin d → ℝ => y k) := by
      funext y; simp [pow_two]
    rw [hf]
    refine h2.congr_fderiv ?_
    ext y
    simp
    ring
  have hsq : HasFDerivAt (norm2 (d := d)) _ v := hsum.sqrt (by rw [← hS]; exact hS0)
  refine hsq.congr_fderiv ?_
  rw [← hS, Finset.smul_sum]
  refine Finset.sum_congr rfl (fun k _ => ?_)
  have hc : Gen.l2_norm.coef.evalR [v k, S] = v k / √S := by
    have e : ((4951760157141521 : ℚ) / 4951760157141521099596496896 : ℚ) = ((4951760157141521 : ℝ) / 4951760157141521099596496896 : ℝ) := by
      push_cast; ring
    have hgt : √S > ((((4951760157141521 : ℚ) / 4951760157141521099596496896 : ℚ)) : ℝ) := by
      rw [e]; exact hpos'
    simp only [Gen.l2_norm, SExpr.evalR, UFun.evalR, List.getD_cons_zero, List.getD_cons_succ]
    rw [if_pos hgt]
  rw [hc, smul_smul]
  congr 1
  field_simp


/-! ## RegularizedHeaviside -/


theorem heavisideSmooth_hasDerivAt {x c : ℝ} (hc : c ≠ 0) :
    HasDerivAt (fun t => heavisideSmoothR t c) (π⁻¹ * c * (c ^ 2 + x ^ 2)⁻¹) x := by
  have h1 : HasDerivAt (fun t : ℝ => t / c) (1 / c) x := by simpa using (hasDerivAt_id x).div_const c
  have h2 := (h1.arctan.const_mul (2 / π)).const_add 1
  have h3 := h2.const_mul (1 / 2 : ℝ)
  refine h3.congr_deriv ?_
  have hpi : π ≠ 0 := Real.pi_ne_zero
  have hs : c ^ 2 + x ^ 2 ≠ 0 := by positivity
  field_simp

/-- `RegularizedHeaviside(partial(heaviside_smooth, eps=eps))`: the VALUE is the sharp step `heaviside(x, 0)`, the Jacobian
    factor is the derivative of the REGULARIZATION `heaviside_smooth(x, eps)` — by design not the derivative of the value. -/
theorem rule_regularized_heaviside (x eps z : ℝ) :
    Gen.regularized_heaviside.val.evalR [x, eps, z] = heavisideR x 0 ∧
    (eps ≠ 0 → HasDerivAt (fun t => heavisideSmoothR t eps) (Gen.regularized_heaviside.dself.evalR [x, eps, z]) x) := by
  refine ⟨by simp [Gen.regularized_heaviside, SExpr.evalR], ?_⟩
  intro he
  refine (heavisideSmooth_hasDerivAt he).congr_deriv ?_
  simp [Gen.regularized_heaviside, SExpr.evalR, Real.rpow_neg_one]

/-- … so it lies outside the property on purpose: away from 0 the step has derivative 0, the class reports a positive number. -/
theorem regularized_heaviside_not_exact (x eps z : ℝ) (hx : x ≠ 0) (he : 0 < eps) :
    ¬ HasDerivAt (fun t => heavisideR t 0) (Gen.regularized_heaviside.dself.evalR [x, eps, z]) x := by
  intro h
  have h0 := heavisideR_hasDerivAt (z := 0) hx
  have e := h.unique h0
  have hpos : 0 < π⁻¹ * eps * (eps ^ 2 + x ^ 2)⁻¹ := by positivity
  have hd : Gen.regularized_heaviside.dself.evalR [x, eps, z] = π⁻¹ * eps * (eps ^ 2 + x ^ 2)⁻¹ := by
    simp [Gen.regularized_heaviside, SExpr.evalR, Real.rpow_neg_one]
  rw [hd] at e
  exact hpos.ne' e

/-! ## bundles (one audited statement per rule family; the components are the `rule_sound_*` theorems above) -/

/-- every generated library rule (functions.py) except safe_power, which has three parameters and its own theorem -/
theorem lib_rules_sound :
    Sound1 Gen.exp (fun x _ => Real.exp x) (fun _ _ => True) ∧
    Sound1 Gen.log (fun x _ => Real.log x) (fun x _ => 0 < x) ∧
    Sound1 Gen.abs (fun x _ => |x|) (fun x _ => x ≠ 0) ∧
    Sound1 Gen.sin (fun x _ => Real.sin x) (fun _ _ => True) ∧
    Sound1 Gen.cos (fun x _ => Real.cos x) (fun _ _ => True) ∧
    Sound1 Gen.tan (fun x _ => Real.tan x) (fun x _ => Real.cos x ≠ 0) ∧
    Sound1 Gen.arcsin (fun x _ => Real.arcsin x) (fun x _ => -1 < x ∧ x < 1) ∧
    Sound1 Gen.arccos (fun x _ => Real.arccos x) (fun x _ => -1 < x ∧ x < 1) ∧
    Sound1 Gen.arctan (fun x _ => Real.arctan x) (fun _ _ => True) ∧
    Sound1 Gen.sinh (fun x _ => Real.sinh x) (fun _ _ => True) ∧
    Sound1 Gen.cosh (fun x _ => Real.cosh x) (fun _ _ => True) ∧
    Sound1 Gen.tanh (fun x _ => Real.tanh x) (fun _ _ => True) ∧
    Sound1 Gen.arcsinh (fun x _ => Real.arsinh x) (fun _ _ => True) ∧
    Sound1 Gen.arccosh (fun x _ => Real.arcosh x) (fun x _ => 1 < x) ∧
    Sound1 Gen.arctanh (fun x _ => Real.artanh x) (fun x _ => -1 < x ∧ x < 1) ∧
    Sound1 Gen.heaviside (fun x z => heavisideR x z) (fun x _ => x ≠ 0) ∧
    Sound1 Gen.heaviside_smooth heavisideSmoothR (fun _ eps => eps ≠ 0) ∧
    Sound1 Gen.characteristic_function charR (fun x tol => |x| ≠ tol) ∧
    Sound1 Gen.l2_norm_dim1 (fun x _ => |x|) (fun x _ => x ≠ 0) :=
  ⟨rule_sound_exp,
   rule_sound_log,
   rule_sound_abs,
   rule_sound_sin,
   rule_sound_cos,
   rule_sound_tan,
   rule_sound_arcsin,
   rule_sound_arccos,
   rule_sound_arctan,
   rule_sound_sinh,
   rule_sound_cosh,
   rule_sound_tanh,
   rule_sound_arcsinh,
   rule_sound_arccosh,
   rule_sound_arctanh,
   rule_sound_heaviside,
   rule_sound_heaviside_smooth,
   rule_sound_characteristic_function,
   rule_sound_l2_norm_dim1⟩

/-- every generated arithmetic rule (AdArray overloads × operand kind) -/
theorem arith_rules_sound :
    Sound1 Gen.add_S (fun x c => x + c) (fun _ _ => True) ∧
    Sound1 Gen.sub_S (fun x c => x - c) (fun _ _ => True) ∧
    Sound1 Gen.rsub_S (fun x c => c - x) (fun _ _ => True) ∧
    Sound1 Gen.mul_S (fun x c => x * c) (fun _ _ => True) ∧
    Sound1 Gen.pow_S (fun x c => x ^ c) (fun x c => x ≠ 0 ∨ 1 ≤ c) ∧
    Sound1 Gen.rpow_S (fun x c => c ^ x) (fun _ c => 0 < c) ∧
    Sound1 Gen.truediv_S (fun x c => x / c) (fun _ c => c ≠ 0) ∧
    Sound1 Gen.truediv_A (fun x c => x / c) (fun _ c => c ≠ 0) ∧
    Sound1 Gen.rtruediv_S (fun x c => c / x) (fun x _ => x ≠ 0) ∧
    Sound2 Gen.add_Ad (fun x y => x + y) (fun _ _ => True) ∧
    Sound2 Gen.mul_Ad (fun x y => x * y) (fun _ _ => True) ∧
    Sound2 Gen.pow_Ad (fun x y => x ^ y) (fun x _ => 0 < x) ∧
    Sound2 Gen.rpow_Ad (fun x y => y ^ x) (fun _ y => 0 < y) ∧
    Sound2 Gen.truediv_Ad (fun x y => x / y) (fun _ y => y ≠ 0) ∧
    Sound2 Gen.rtruediv_Ad (fun x y => y / x) (fun x _ => x ≠ 0) ∧
    Sound1 Gen.add_A (fun x c => x + c) (fun _ _ => True) ∧
    Sound1 Gen.radd_S (fun x c => c + x) (fun _ _ => True) ∧
    Sound1 Gen.radd_A (fun x c => c + x) (fun _ _ => True) ∧
    Sound1 Gen.sub_A (fun x c => x - c) (fun _ _ => True) ∧
    Sound1 Gen.rsub_A (fun x c => c - x) (fun _ _ => True) ∧
    Sound1 Gen.mul_A (fun x c => x * c) (fun _ _ => True) ∧
    Sound1 Gen.rmul_S (fun x c => c * x) (fun _ _ => True) ∧
    Sound1 Gen.rmul_A (fun x c => c * x) (fun _ _ => True) ∧
    Sound1 Gen.pow_A (fun x c => x ^ c) (fun x c => x ≠ 0 ∨ 1 ≤ c) ∧
    Sound1 Gen.rpow_A (fun x c => c ^ x) (fun _ c => 0 < c) ∧
    Sound1 Gen.rtruediv_A (fun x c => c / x) (fun x _ => x ≠ 0) ∧
    Sound2 Gen.radd_Ad (fun x y => y + x) (fun _ _ => True) ∧
    Sound2 Gen.sub_Ad (fun x y => x - y) (fun _ _ => True) ∧
    Sound2 Gen.rsub_Ad (fun x y => y - x) (fun _ _ => True) ∧
    Sound1 Gen.neg (fun x _ => -x) (fun _ _ => True) :=
  ⟨rule_sound_add_S,
   rule_sound_sub_S,
   rule_sound_rsub_S,
   rule_sound_mul_S,
   rule_sound_pow_S,
   rule_sound_rpow_S,
   rule_sound_truediv_S,
   rule_sound_truediv_A,
   rule_sound_rtruediv_S,
   rule_sound_add_Ad,
   rule_sound_mul_Ad,
   rule_sound_pow_Ad,
   rule_sound_rpow_Ad,
   rule_sound_truediv_Ad,
   rule_sound_rtruediv_Ad,
   rule_sound_add_A,
   rule_sound_radd_S,
   rule_sound_radd_A,
   rule_sound_sub_A,
   rule_sound_rsub_A,
   rule_sound_mul_A,
   rule_sound_rmul_S,
   rule_sound_rmul_A,
   rule_sound_pow_A,
   rule_sound_rpow_A,
   rule_sound_rtruediv_A,
   rule_sound_radd_Ad,
   rule_sound_sub_Ad,
   rule_sound_rsub_Ad,
   rule_sound_neg⟩

/-- `maximum(var_0, var_1)` for every combination of AdArray / numpy array / python scalar operands: the value is the larger
    entry and, away from ties, the 0/1 factors select the Jacobian row of the larger one -/
theorem max_rules_sound :
    Sound2 Gen.maximum_AdAd (fun x y => max x y) (fun x y => x ≠ y) ∧
    Sound1 Gen.maximum_AdA (fun x c => max x c) (fun x c => x ≠ c) ∧
    Sound1 Gen.maximum_AdS (fun x c => max x c) (fun x c => x ≠ c) ∧
    Sound1 Gen.maximum_AAd (fun x c => max c x) (fun x c => x ≠ c) ∧
    Sound1 Gen.maximum_SAd (fun x c => max c x) (fun x c => x ≠ c) :=
  ⟨rule_sound_maximum_AdAd, rule_sound_maximum_AdA, rule_sound_maximum_AdS, rule_sound_maximum_AAd, rule_sound_maximum_SAd⟩

/-! ## the generated tables are the ones covered above -/

/-- the generated rules are exactly the ones with a `rule_sound_*` theorem, every top-level function / class of functions.py
    has one (the translator refuses to run otherwise), and the error table is the expected one -/
theorem rules_covered :
    (Gen.arith ++ Gen.lib ++ Gen.maxrules).map (·.name) =
      ["add_S", "add_A", "add_Ad", "radd_S", "radd_A", "radd_Ad", "sub_S", "sub_A", "sub_Ad", "rsub_S", "rsub_A", "rsub_Ad",
       "mul_S", "mul_A", "mul_Ad", "rmul_S", "rmul_A", "pow_S", "pow_A", "pow_Ad", "rpow_S", "rpow_A", "rpow_Ad",
       "truediv_S", "truediv_A", "truediv_Ad", "rtruediv_S", "rtruediv_A", "rtruediv_Ad", "neg",
       "exp", "log", "abs", "l2_norm_dim1", "safe_power", "sin", "cos", "tan", "arcsin", "arccos", "arctan", "sinh", "cosh", "tanh",
       "arcsinh", "arccosh", "arctanh", "heaviside", "heaviside_smooth", "regularized_heaviside", "characteristic_function",
       "maximum_AdAd", "maximum_AdA", "maximum_AdS", "maximum_AAd", "maximum_SAd"] ∧
    Gen.l2_norm.name = "l2_norm" ∧
    Gen.functions_found =
      ["exp", "log", "abs", "l2_norm", "safe_power", "sin", "cos", "tan", "arcsin", "arccos", "arctan", "sinh", "cosh", "tanh",
       "arcsinh", "arccosh", "arctanh", "heaviside", "heaviside_smooth", "RegularizedHeaviside", "maximum", "characteristic_function"] := by
  refine ⟨by rfl, by rfl, by rfl⟩

/-- sparse operands raise for everything but `M @ AdArray`; `AdArray @ anything` and non-sparse `x @ AdArray` raise -/
theorem raising_table : Gen.raising =
    [("add_Sp", "ValueError"), ("radd_Sp", "ValueError"), ("sub_Sp", "ValueError"), ("rsub_Sp", "ValueError"),
     ("mul_Sp", "ValueError"), ("rmul_Ad", "RuntimeError"), ("rmul_Sp", "ValueError"), ("pow_Sp", "ValueError"),
     ("rpow_Sp", "ValueError"), ("truediv_Sp", "ValueError"), ("rtruediv_Sp", "ValueError"), ("matmul_S", "ValueError"),
     ("matmul_A", "ValueError"), ("matmul_Ad", "ValueError"), ("matmul_Sp", "ValueError"), ("rmatmul_S", "ValueError"),
     ("rmatmul_A", "ValueError"), ("rmatmul_Ad", "ValueError")] := by rfl

/-- every library function that answers for a plain numpy array computes the same value expression as for an AdArray
    (`plain = none`: l2_norm_dim1, which delegates to abs, and functions listed in `Gen.plain_raising`) -/
theorem lib_plain_eq_val :
    (Gen.lib ++ Gen.maxrules).map (fun r => r.plain.getD r.val) = (Gen.lib ++ Gen.maxrules).map (·.val) ∧
    Gen.l2_norm.plain = some Gen.l2_norm.val := by
  refine ⟨by rfl, by rfl⟩

/-- the numpy-array branch of `RegularizedHeaviside.__call__` calls `np.heaviside` with one argument (TypeError; finding
    C01 regularized-heaviside-ndarray); no other library function raises on a numpy array -/
theorem plain_raising_known :
    Gen.plain_raising = [] ∨ Gen.plain_raising = [("regularized_heaviside", "TypeError")] := by
  first
    | exact Or.inl rfl
    | exact Or.inr rfl

/-! ## where the rules are NOT required: kinks (isolated, measure zero) vs. domain restrictions

"wherever the expression is differentiable": outside the domains of the `rule_sound_*` theorems nothing is claimed.  The
excluded sets are of two kinds (complete list, in the order of functions.py / forward_mode.py):

KINKS — points inside numpy's domain where the function itself is not differentiable; isolated points / a hyperplane,
Lebesgue measure zero; the code returns some one-sided or conventional value there:
  abs                      x = 0                  (Jacobian factor sign(0) = 0)            `abs_kink`
  l2_norm, dim = 1         x = 0                  (delegates to abs)
  l2_norm, dim ≥ 2         ‖x‖ ≤ tol = 1e-12      (factors set to 1; at x = 0 not differentiable) `l2_norm_kink`
  heaviside                x = 0                  (jump)                                     `heaviside_kink`
  characteristic_function  |x| = tol              (jump)
  safe_power               |x| = tol              (jump between x**power and zero_val)
  maximum                  x = y (ties)           (row of the FIRST argument)               `maximum_kink`
  regularized_heaviside    (never the derivative of its value, by design: `regularized_heaviside_not_exact`)
DOMAIN RESTRICTIONS — numpy's real function is undefined / infinite (nan, inf) or has an infinite derivative there:
  log x ≤ 0;  tan cos x = 0;  arcsin, arccos |x| ≥ 1;  arccosh x ≤ 1;  arctanh |x| ≥ 1;
  AdArray ** c: x = 0 with c < 1;  AdArray ** AdArray: base x ≤ 0;  c ** AdArray: c ≤ 0;
  AdArray / c: c = 0;  c / AdArray, AdArray / AdArray: denominator 0;  heaviside_smooth eps = 0;
  safe_power: x = 0 with power < 1 inside |x| > tol (impossible for tol ≥ 0).
NO EXCLUSION: + − * (all operand kinds), neg, exp, sin, cos, arctan, sinh, cosh, tanh, arcsinh, left matrix products,
  slicing, initAdArrays.
`excluded_sets` states the complements of the theorem domains in this form; the four `*_kink` theorems show that the kink
exclusions are necessary (the function is not differentiable there, so no Jacobian could be "the derivative"). -/


theorem abs_kink : ¬ DifferentiableAt ℝ (fun x : ℝ => |x|) 0 := not_differentiableAt_abs_zero

theorem heaviside_kink (z : ℝ) : ¬ DifferentiableAt ℝ (fun x => heavisideR x z) 0 := by
  intro h
  have hc := h.continuousAt
  have hl : Filter.Tendsto (fun x => heavisideR x z) (nhdsWithin 0 (Set.Iio 0)) (nhds (heavisideR 0 z)) :=
    hc.tendsto.mono_left nhdsWithin_le_nhds
  have hr : Filter.Tendsto (fun x => heavisideR x z) (nhdsWithin 0 (Set.Ioi 0)) (nhds (heavisideR 0 z)) :=
    hc.tendsto.mono_left nhdsWithin_le_nhds
  have hl0 : Filter.Tendsto (fun x => heavisideR x z) (nhdsWithin 0 (Set.Iio 0)) (nhds 0) := by
    refine tendsto_const_nhds.congr' ?_
    filter_upwards [self_mem_nhdsWithin] with x hx
    simp [heavisideR, Set.mem_Iio.mp hx]
  have hr1 : Filter.Tendsto (fun x => heavisideR x z) (nhdsWithin 0 (Set.Ioi 0)) (nhds 1) := by
    refine tendsto_const_nhds.congr' ?_
    filter_upwards [self_mem_nhdsWithin] with x hx
    have hx' : (0 : ℝ) < x := hx
    simp [heavisideR, not_lt.mpr hx'.le, hx'.ne']
  have e0 := tendsto_nhds_unique hl hl0
  have e1 := tendsto_nhds_unique hr hr1
  rw [e0] at e1
  exact zero_ne_one e1

theorem maximum_kink (a : ℝ) : ¬ DifferentiableAt ℝ (fun p : ℝ × ℝ => max p.1 p.2) (a, a) := by
  intro h
  have hline : DifferentiableAt ℝ (fun t : ℝ => (a + t, a)) 0 := by fun_prop
  have h' : DifferentiableAt ℝ (fun p : ℝ × ℝ => max p.1 p.2) ((fun t : ℝ => (a + t, a)) 0) := by simpa using h
  have hg0 : DifferentiableAt ℝ ((fun p : ℝ × ℝ => max p.1 p.2) ∘ (fun t : ℝ => (a + t, a))) 0 := h'.comp 0 hline
  have hg : DifferentiableAt ℝ (fun t : ℝ => max (a + t) a) 0 := hg0
  have habs : DifferentiableAt ℝ (fun t : ℝ => 2 * max (a + t) a - 2 * a - t) 0 := by fun_prop
  have e : (fun t : ℝ => 2 * max (a + t) a - 2 * a - t) = fun t => |t| := by
    funext t
    rcases le_total 0 t with ht | ht
    · rw [max_eq_left (by linarith), abs_of_nonneg ht]; ring
    · rw [max_eq_right (by linarith), abs_of_nonpos ht]; ring
  rw [e] at habs
  exact abs_kink habs

theorem l2_norm_kink (d : ℕ) (k : Fin d) : ¬ DifferentiableAt ℝ (norm2 (d := d)) 0 := by
  intro h
  have hline : DifferentiableAt ℝ (fun t : ℝ => (Pi.single k t : Fin d → ℝ)) 0 := by
    have : (fun t : ℝ => (Pi.single k t : Fin d → ℝ)) = fun t => t • (Pi.single k (1 : ℝ) : Fin d → ℝ) := by
      funext t; ext j; by_cases hj : j = k <;> simp [Pi.single_apply, hj]
    rw [this]; fun_prop
  have h' : DifferentiableAt ℝ (norm2 (d := d)) ((fun t : ℝ => (Pi.single k t : Fin d → ℝ)) 0) := by simpa using h
  have hg := h'.comp 0 hline
  have e : (norm2 (d := d)) ∘ (fun t : ℝ => (Pi.single k t : Fin d → ℝ)) = fun t => |t| := by
    funext t
    simp only [Function.comp, norm2]
    rw [Finset.sum_eq_single k]
    · simp [Real.sqrt_sq_eq_abs]
    · intro j _ hj; simp [Pi.single_apply, hj]
    · intro hk; exact absurd (Finset.mem_univ k) hk
  rw [e] at hg
  exact abs_kink hg


/-- the complements of the domains used in the `rule_sound_*` theorems, in closed form (see the table above) -/
theorem excluded_sets :
    -- kinks
    {x : ℝ | ¬ x ≠ 0} = {0} ∧
    (∀ tol : ℝ, {x : ℝ | ¬ |x| ≠ tol} ⊆ {tol, -tol}) ∧
    {p : ℝ × ℝ | ¬ p.1 ≠ p.2} = {p | p.1 = p.2} ∧
    -- domain restrictions
    {x : ℝ | ¬ 0 < x} = Set.Iic 0 ∧
    {x : ℝ | ¬ (-1 < x ∧ x < 1)} = Set.Iic (-1) ∪ Set.Ici 1 ∧
    {x : ℝ | ¬ 1 < x} = Set.Iic 1 ∧
    {p : ℝ × ℝ | ¬ (p.1 ≠ 0 ∨ 1 ≤ p.2)} = {p | p.1 = 0 ∧ p.2 < 1} := by
  refine ⟨?_, ?_, ?_, ?_, ?_, ?_, ?_⟩
  · ext x; simp
  · intro tol x hx
    have hx' : |x| = tol := by simpa using hx
    rcases abs_cases x with ⟨h, _⟩ | ⟨h, _⟩
    · left; linarith
    · right; show x = -tol; linarith
  · ext p; simp
  · ext x; simp [Set.mem_Iic, not_lt]
  · ext x
    simp only [Set.mem_ofPred_eq, Set.mem_union, Set.mem_Iic, Set.mem_Ici, not_and_or, not_lt]
  · ext x; simp [Set.mem_Iic, not_lt]
  · ext p; simp [not_or, not_le]

/-- the kink exclusions are necessary: at these points the function is not differentiable at all -/
theorem kinks_necessary :
    (¬ DifferentiableAt ℝ (fun x : ℝ => |x|) 0) ∧
    (∀ z : ℝ, ¬ DifferentiableAt ℝ (fun x => heavisideR x z) 0) ∧
    (∀ a : ℝ, ¬ DifferentiableAt ℝ (fun p : ℝ × ℝ => max p.1 p.2) (a, a)) ∧
    (∀ (d : ℕ) (_ : Fin d), ¬ DifferentiableAt ℝ (norm2 (d := d)) 0) :=
  ⟨abs_kink, heaviside_kink, maximum_kink, fun d k => l2_norm_kink d k⟩

/-! ## program trees and programs with shared results -/

theorem ad_val {n : Nat} (e : Expr n) (hv : e.ValSpec) (σ : ℕ → ℕ → Dual n) (ρ : ℕ → ℕ → ℝ)
    (hσ : ∀ j i, (σ j i).v = ρ j i) (X : Pt n) : ∀ i, (e.ad σ X i).v = e.den ρ X i := by
  induction e with
  | var idx => intro i; rfl
  | ref j => intro i; exact hσ j i
  | map1 r F c e ih =>
    intro i
    simp only [Expr.ad, Expr.den]
    rw [ih hv.1 i, hv.2]
  | map2 r F e₁ e₂ ih₁ ih₂ =>
    intro i
    simp only [Expr.ad, Expr.den]
    rw [ih₁ hv.1 i, ih₂ hv.2.1 i, hv.2.2]
  | matmul M cols e ih =>
    intro i
    simp only [Expr.ad, Expr.den]
    exact Finset.sum_congr rfl (fun k _ => by rw [ih hv k])
  | slice idx e ih => intro i; exact ih hv (idx i)
  | l2norm r dim e ih =>
    intro i
    simp only [Expr.ad, Expr.den, norm2]
    rw [hv.2]
    congr 1
    exact Finset.sum_congr rfl (fun k _ => by rw [ih hv.1 _])

theorem ad_jac {n : Nat} (e : Expr n) (hv : e.ValSpec) (σ : ℕ → ℕ → Dual n) (ρ : Pt n → ℕ → ℕ → ℝ) (X : Pt n)
    (hσ : ∀ j i, (σ j i).v = ρ X j i)
    (hρ : ∀ j i, HasFDerivAt (fun Y => ρ Y j i) (lin (σ j i).g) X)
    (hs : e.Smooth (ρ X) X) :
    ∀ i, HasFDerivAt (fun Y => e.den (ρ Y) Y i) (lin (e.ad σ X i).g) X := by
  induction e with
  | var idx =>
    intro i
    simp only [Expr.ad, Expr.den]
    rw [lin_single]
    exact hasFDerivAt_apply (idx i) X
  | ref j => intro i; exact hρ j i
  | map1 r F c e ih =>
    intro i
    have h := (hs.2 i).comp_hasFDerivAt X (ih hv.1 hs.1 i)
    simp only [Expr.ad, Expr.den]
    rw [lin_smul, ad_val e hv.1 σ (ρ X) hσ X i]
    exact h
  | map2 r F e₁ e₂ ih₁ ih₂ =>
    intro i
    have h := (hs.2.2 i).comp X ((ih₁ hv.1 hs.1 i).prodMk (ih₂ hv.2.1 hs.2.1 i))
    simp only [Expr.ad, Expr.den]
    rw [lin_add_smul, ad_val e₁ hv.1 σ (ρ X) hσ X i, ad_val e₂ hv.2.1 σ (ρ X) hσ X i]
    refine h.congr_fderiv ?_
    ext Y
    simp
  | matmul M cols e ih =>
    intro i
    simp only [Expr.ad, Expr.den]
    rw [lin_sum]
    exact HasFDerivAt.fun_sum (fun k _ => (ih hv hs k).const_mul (M i k))
  | slice idx e ih => intro i; exact ih hv hs (idx i)
  | l2norm r dim e ih =>
    intro i
    have hval : ∀ k : Fin dim, (e.ad σ X (dim * i + k)).v = e.den (ρ X) X (dim * i + k) :=
      fun k => ad_val e hv.1 σ (ρ X) hσ X _
    have hΦ : HasFDerivAt (fun Y => fun k : Fin dim => e.den (ρ Y) Y (dim * i + k))
        (ContinuousLinearMap.pi fun k : Fin dim => lin (e.ad σ X (dim * i + k)).g) X :=
      hasFDerivAt_pi.2 (fun k => ih hv.1 hs.1 (dim * i + k))
    have h := (hs.2 i).comp X hΦ
    simp only [Expr.ad, Expr.den]
    simp only [hval]
    rw [lin_sum]
    refine h.congr_fderiv ?_
    ext Y
    simp [sum_apply]

/-- sharing = substitution: evaluating an expression whose `ref j` are bound to the values of closed expressions `L j`
    gives the same as evaluating the expression with the `L j` substituted -/
theorem den_subst {n : Nat} (L : ℕ → Expr n) (ρ₀ : ℕ → ℕ → ℝ) (X : Pt n) (e : Expr n) :
    ∀ i, (e.subst L).den ρ₀ X i = e.den (fun j => (L j).den ρ₀ X) X i := by
  induction e with
  | var idx => intro i; rfl
  | ref j => intro i; rfl
  | map1 r F c e ih => intro i; simp only [Expr.subst, Expr.den, ih]
  | map2 r F e₁ e₂ ih₁ ih₂ => intro i; simp only [Expr.subst, Expr.den, ih₁, ih₂]
  | matmul M cols e ih => intro i; simp only [Expr.subst, Expr.den, ih]
  | slice idx e ih => intro i; simp only [Expr.subst, Expr.den, ih]
  | l2norm r dim e ih => intro i; simp only [Expr.subst, Expr.den, ih]

theorem ad_subst {n : Nat} (L : ℕ → Expr n) (σ₀ : ℕ → ℕ → Dual n) (X : Pt n) (e : Expr n) :
    ∀ i, (e.subst L).ad σ₀ X i = e.ad (fun j => (L j).ad σ₀ X) X i := by
  induction e with
  | var idx => intro i; rfl
  | ref j => intro i; rfl
  | map1 r F c e ih => intro i; simp only [Expr.subst, Expr.ad, ih]
  | map2 r F e₁ e₂ ih₁ ih₂ => intro i; simp only [Expr.subst, Expr.ad, ih₁, ih₂]
  | matmul M cols e ih => intro i; simp only [Expr.subst, Expr.ad, ih]
  | slice idx e ih => intro i; simp only [Expr.subst, Expr.ad, ih]
  | l2norm r dim e ih => intro i; simp only [Expr.subst, Expr.ad, ih]

/-- the invariant carried through a sequence of let-bindings -/
def EnvOK {n : Nat} (ρ : Pt n → ℕ → ℕ → ℝ) (σ : ℕ → ℕ → Dual n) (X : Pt n) : Prop :=
  (∀ j i, (σ j i).v = ρ X j i) ∧ ∀ j i, HasFDerivAt (fun Y => ρ Y j i) (lin (σ j i).g) X

theorem env_ok {n : Nat} (X : Pt n) (ds : List (Expr n)) :
    ∀ (k : ℕ) (ρ : Pt n → ℕ → ℕ → ℝ) (σ : ℕ → ℕ → Dual n),
      (∀ d ∈ ds, d.ValSpec) → EnvOK ρ σ X → letsSmooth X ds k (ρ X) →
      EnvOK (fun Y => envDen Y ds k (ρ Y)) (envAd X ds k σ) X := by
  induction ds with
  | nil => intro k ρ σ _ h _; exact h
  | cons d ds ih =>
    intro k ρ σ hv h hs
    have hvd : d.ValSpec := hv d (List.mem_cons_self ..)
    have hvs : ∀ d' ∈ ds, d'.ValSpec := fun d' hd' => hv d' (List.mem_cons_of_mem _ hd')
    simp only [envDen, envAd]
    refine ih (k + 1) (fun Y => Function.update (ρ Y) k (d.den (ρ Y) Y)) (Function.update σ k (d.ad σ X)) hvs ?_ hs.2
    constructor
    · intro j i
      by_cases hj : j = k
      · subst hj
        simp only [Function.update_self]
        exact ad_val d hvd σ (ρ X) h.1 X i
      · simp only [Function.update_of_ne hj]
        exact h.1 j i
    · intro j i
      by_cases hj : j = k
      · subst hj
        simp only [Function.update_self]
        exact ad_jac d hvd σ ρ X h.1 h.2 hs.1 i
      · simp only [Function.update_of_ne hj]
        exact h.2 j i

theorem env_val {n : Nat} (X : Pt n) (ds : List (Expr n)) :
    ∀ (k : ℕ) (ρ : ℕ → ℕ → ℝ) (σ : ℕ → ℕ → Dual n),
      (∀ d ∈ ds, d.ValSpec) → (∀ j i, (σ j i).v = ρ j i) →
      ∀ j i, (envAd X ds k σ j i).v = envDen X ds k ρ j i := by
  induction ds with
  | nil => intro k ρ σ _ h; exact h
  | cons d ds ih =>
    intro k ρ σ hv h
    have hvd : d.ValSpec := hv d (List.mem_cons_self ..)
    have hvs : ∀ d' ∈ ds, d'.ValSpec := fun d' hd' => hv d' (List.mem_cons_of_mem _ hd')
    simp only [envDen, envAd]
    refine ih (k + 1) _ _ hvs ?_
    intro j i
    by_cases hj : j = k
    · subst hj
      simp only [Function.update_self]
      exact ad_val d hvd σ ρ h X i
    · simp only [Function.update_of_ne hj]
      exact h j i

theorem env0_ok {n : Nat} (X : Pt n) : EnvOK (fun _ : Pt n => Prog.env0) (Prog.envAd0 n) X := by
  constructor
  · intro j i; rfl
  · intro j i
    simp only [Prog.env0, Prog.envAd0]
    rw [lin_zero]
    exact hasFDerivAt_const (0 : ℝ) X

/-- programs with shared results: forward-mode values are the plain evaluation … -/
theorem prog_ad_val {n : Nat} (p : Prog n) (hv : p.ValSpec) (X : Pt n) :
    ∀ i, (p.ad X i).v = p.den X i := by
  have h := env_val X p.lets 0 Prog.env0 (Prog.envAd0 n) hv.1 (fun _ _ => rfl)
  intro i
  exact ad_val p.body hv.2 _ _ h X i

/-- … and every Jacobian row is the Fréchet derivative of that output component. -/
theorem prog_ad_jac {n : Nat} (p : Prog n) (hv : p.ValSpec) (X : Pt n) (hs : p.Smooth X) :
    ∀ i, HasFDerivAt (fun Y => p.den Y i) (lin (p.ad X i).g) X := by
  have h := env_ok X p.lets 0 (fun _ => Prog.env0) (Prog.envAd0 n) hv.1 (env0_ok X) hs.1
  intro i
  exact ad_jac p.body hv.2 _ (fun Y => envDen Y p.lets 0 Prog.env0) X h.1 h.2 hs.2 i


/-- a generated rule that is sound may be used at a node wherever its domain condition holds … -/
theorem Sound1.smooth_map1 {n : Nat} {r : Rule} {F : ℝ → ℝ → ℝ} {dom : ℝ → ℝ → Prop} (h : Sound1 r F dom)
    {e : Expr n} {ρ : ℕ → ℕ → ℝ} {X : Pt n} {c : ℕ → ℝ} (he : e.Smooth ρ X) (hd : ∀ i, dom (e.den ρ X i) (c i)) :
    (Expr.map1 r F c e).Smooth ρ X :=
  ⟨he, fun i => h.deriv _ _ (hd i)⟩

theorem Sound1.valspec_map1 {n : Nat} {r : Rule} {F : ℝ → ℝ → ℝ} {dom : ℝ → ℝ → Prop} (h : Sound1 r F dom)
    {e : Expr n} {c : ℕ → ℝ} (he : e.ValSpec) : (Expr.map1 r F c e).ValSpec :=
  ⟨he, h.val⟩

theorem Sound2.smooth_map2 {n : Nat} {r : Rule} {F : ℝ → ℝ → ℝ} {dom : ℝ → ℝ → Prop} (h : Sound2 r F dom)
    {e₁ e₂ : Expr n} {ρ : ℕ → ℕ → ℝ} {X : Pt n} (h₁ : e₁.Smooth ρ X) (h₂ : e₂.Smooth ρ X) (hd : ∀ i, dom (e₁.den ρ X i) (e₂.den ρ X i)) :
    (Expr.map2 r F e₁ e₂).Smooth ρ X :=
  ⟨h₁, h₂, fun i => h.deriv _ _ (hd i)⟩

theorem Sound2.valspec_map2 {n : Nat} {r : Rule} {F : ℝ → ℝ → ℝ} {dom : ℝ → ℝ → Prop} (h : Sound2 r F dom)
    {e₁ e₂ : Expr n} (h₁ : e₁.ValSpec) (h₂ : e₂.ValSpec) : (Expr.map2 r F e₁ e₂).ValSpec :=
  ⟨h₁, h₂, h.val⟩

/-! ### non-vacuity: domains are inhabited, and a concrete program with a SHARED result built from generated rules -/

example : (0 : ℝ) < 2 ∧ Real.cos 0 ≠ 0 ∧ ((-1 : ℝ) < 1 / 2 ∧ (1 / 2 : ℝ) < 1) ∧ (1 : ℝ) < 2 ∧ (3 : ℝ) ≠ 0 ∧ |(3 : ℝ)| ≠ 1
    ∧ l2tol < norm2 (fun _ : Fin 2 => (1 : ℝ)) := by
  refine ⟨by norm_num, by simp, ⟨by norm_num, by norm_num⟩, by norm_num, by norm_num, by norm_num, ?_⟩
  have h1 : (1 : ℝ) ≤ norm2 (fun _ : Fin 2 => (1 : ℝ)) := by
    unfold norm2
    rw [show (∑ _k : Fin 2, (1 : ℝ) ^ 2) = 2 by simp]
    exact Real.one_le_sqrt.mpr (by norm_num)
  have h2 : l2tol < 1 := by unfold l2tol; norm_num
  linarith

/-- `m = maximum(x₀·x₁, x₀);  log(m) * sin(x₀) + m`: the shared result `m` is used twice -/
noncomputable def demo : Prog 2 where
  lets := [.map2 Gen.maximum_AdAd (fun x y => max x y)
            (.map2 Gen.mul_Ad (fun x y => x * y) (.var (fun _ => 0)) (.var (fun _ => 1))) (.var (fun _ => 0))]
  body := .map2 Gen.add_Ad (fun x y => x + y)
            (.map2 Gen.mul_Ad (fun x y => x * y)
              (.map1 Gen.log (fun x _ => Real.log x) (fun _ => 0) (.ref 0))
              (.map1 Gen.sin (fun x _ => Real.sin x) (fun _ => 0) (.var (fun _ => 0))))
            (.ref 0)

example (X : Pt 2) (hX : 0 < X 0) (hne : X 0 * X 1 ≠ X 0) (i : ℕ) :
    (demo.ad X i).v = Real.log (max (X 0 * X 1) (X 0)) * Real.sin (X 0) + max (X 0 * X 1) (X 0) ∧
    HasFDerivAt (fun Y : Pt 2 => Real.log (max (Y 0 * Y 1) (Y 0)) * Real.sin (Y 0) + max (Y 0 * Y 1) (Y 0))
      (lin (demo.ad X i).g) X := by
  have hv : demo.ValSpec := by
    refine ⟨?_, ?_⟩
    · intro d hd
      simp only [demo, List.mem_singleton] at hd
      subst hd
      exact rule_sound_maximum_AdAd.valspec_map2 (rule_sound_mul_Ad.valspec_map2 trivial trivial) trivial
    · exact rule_sound_add_Ad.valspec_map2 (rule_sound_mul_Ad.valspec_map2
        (rule_sound_log.valspec_map1 trivial) (rule_sound_sin.valspec_map1 trivial)) trivial
  have hs : demo.Smooth X := by
    refine ⟨⟨?_, trivial⟩, ?_⟩
    · exact rule_sound_maximum_AdAd.smooth_map2 (rule_sound_mul_Ad.smooth_map2 trivial trivial (fun _ => trivial)) trivial
        (fun _ => hne)
    · refine rule_sound_add_Ad.smooth_map2 (rule_sound_mul_Ad.smooth_map2
        (rule_sound_log.smooth_map1 trivial (fun _ => ?_)) (rule_sound_sin.smooth_map1 trivial (fun _ => trivial))
        (fun _ => trivial)) trivial (fun _ => trivial)
      show 0 < max (X 0 * X 1) (X 0)
      exact lt_max_of_lt_right hX
  exact ⟨prog_ad_val demo hv X i, prog_ad_jac demo hv X hs i⟩


/-! ## the rule tables: rule as generated, operation, domain condition -/

/-- rules with a constant second operand / parameter -/
noncomputable def table1 : List Entry :=
  [(Gen.exp, (fun x _ => Real.exp x), .all),
   (Gen.log, (fun x _ => Real.log x), .pos),
   (Gen.abs, (fun x _ => |x|), .xne0),
   (Gen.sin, (fun x _ => Real.sin x), .all),
   (Gen.cos, (fun x _ => Real.cos x), .all),
   (Gen.tan, (fun x _ => Real.tan x), .cosNe0),
   (Gen.arcsin, (fun x _ => Real.arcsin x), .absLt1),
   (Gen.arccos, (fun x _ => Real.arccos x), .absLt1),
   (Gen.arctan, (fun x _ => Real.arctan x), .all),
   (Gen.sinh, (fun x _ => Real.sinh x), .all),
   (Gen.cosh, (fun x _ => Real.cosh x), .all),
   (Gen.tanh, (fun x _ => Real.tanh x), .all),
   (Gen.arcsinh, (fun x _ => Real.arsinh x), .all),
   (Gen.arccosh, (fun x _ => Real.arcosh x), .gt1),
   (Gen.arctanh, (fun x _ => Real.artanh x), .absLt1),
   (Gen.heaviside, (fun x z => heavisideR x z), .xne0),
   (Gen.heaviside_smooth, heavisideSmoothR, .cne0),
   (Gen.characteristic_function, charR, .absNeC),
   (Gen.add_S, (fun x c => x + c), .all),
   (Gen.sub_S, (fun x c => x - c), .all),
   (Gen.rsub_S, (fun x c => c - x), .all),
   (Gen.mul_S, (fun x c => x * c), .all),
   (Gen.pow_S, (fun x c => x ^ c), .powC),
   (Gen.rpow_S, (fun x c => c ^ x), .cpos),
   (Gen.truediv_S, (fun x c => x / c), .cne0),
   (Gen.truediv_A, (fun x c => x / c), .cne0),
   (Gen.rtruediv_S, (fun x c => c / x), .xne0),
   (Gen.add_A, (fun x c => x + c), .all),
   (Gen.radd_S, (fun x c => c + x), .all),
   (Gen.radd_A, (fun x c => c + x), .all),
   (Gen.sub_A, (fun x c => x - c), .all),
   (Gen.rsub_A, (fun x c => c - x), .all),
   (Gen.mul_A, (fun x c => x * c), .all),
   (Gen.rmul_S, (fun x c => c * x), .all),
   (Gen.rmul_A, (fun x c => c * x), .all),
   (Gen.pow_A, (fun x c => x ^ c), .powC),
   (Gen.rpow_A, (fun x c => c ^ x), .cpos),
   (Gen.rtruediv_A, (fun x c => c / x), .xne0),
   (Gen.neg, (fun x _ => -x), .all),
   (Gen.maximum_AdA, (fun x c => max x c), .neC),
   (Gen.maximum_AdS, (fun x c => max x c), .neC),
   (Gen.maximum_AAd, (fun x c => max c x), .neC),
   (Gen.maximum_SAd, (fun x c => max c x), .neC),
   (Gen.l2_norm_dim1, (fun x _ => |x|), .xne0)]

/-- rules combining two AdArrays -/
noncomputable def table2 : List Entry :=
  [(Gen.add_Ad, (fun x y => x + y), .all),
   (Gen.mul_Ad, (fun x y => x * y), .all),
   (Gen.pow_Ad, (fun x y => x ^ y), .pos),
   (Gen.rpow_Ad, (fun x y => y ^ x), .cpos),
   (Gen.truediv_Ad, (fun x y => x / y), .cne0),
   (Gen.rtruediv_Ad, (fun x y => y / x), .xne0),
   (Gen.radd_Ad, (fun x y => y + x), .all),
   (Gen.sub_Ad, (fun x y => x - y), .all),
   (Gen.rsub_Ad, (fun x y => y - x), .all),
   (Gen.maximum_AdAd, (fun x y => max x y), .neC)]

theorem table1_sound : ∀ t ∈ table1, Sound1 t.1 t.2.1 t.2.2.holdsR :=
  (List.forall_mem_cons.2 ⟨rule_sound_exp, (List.forall_mem_cons.2 ⟨rule_sound_log, (List.forall_mem_cons.2 ⟨rule_sound_abs, (List.forall_mem_cons.2 ⟨rule_sound_sin, (List.forall_mem_cons.2 ⟨rule_sound_cos, (List.forall_mem_cons.2 ⟨rule_sound_tan, (List.forall_mem_cons.2 ⟨rule_sound_arcsin, (List.forall_mem_cons.2 ⟨rule_sound_arccos, (List.forall_mem_cons.2 ⟨rule_sound_arctan, (List.forall_mem_cons.2 ⟨rule_sound_sinh, (List.forall_mem_cons.2 ⟨rule_sound_cosh, (List.forall_mem_cons.2 ⟨rule_sound_tanh, (List.forall_mem_cons.2 ⟨rule_sound_arcsinh, (List.forall_mem_cons.2 ⟨rule_sound_arccosh, (List.forall_mem_cons.2 ⟨rule_sound_arctanh, (List.forall_mem_cons.2 ⟨rule_sound_heaviside, (List.forall_mem_cons.2 ⟨rule_sound_heaviside_smooth, (List.forall_mem_cons.2 ⟨rule_sound_characteristic_function, (List.forall_mem_cons.2 ⟨rule_sound_add_S, (List.forall_mem_cons.2 ⟨rule_sound_sub_S, (List.forall_mem_cons.2 ⟨rule_sound_rsub_S, (List.forall_mem_cons.2 ⟨rule_sound_mul_S, (List.forall_mem_cons.2 ⟨rule_sound_pow_S, (List.forall_mem_cons.2 ⟨rule_sound_rpow_S, (List.forall_mem_cons.2 ⟨rule_sound_truediv_S, (List.forall_mem_cons.2 ⟨rule_sound_truediv_A, (List.forall_mem_cons.2 ⟨rule_sound_rtruediv_S, (List.forall_mem_cons.2 ⟨rule_sound_add_A, (List.forall_mem_cons.2 ⟨rule_sound_radd_S, (List.forall_mem_cons.2 ⟨rule_sound_radd_A, (List.forall_mem_cons.2 ⟨rule_sound_sub_A, (List.forall_mem_cons.2 ⟨rule_sound_rsub_A, (List.forall_mem_cons.2 ⟨rule_sound_mul_A, (List.forall_mem_cons.2 ⟨rule_sound_rmul_S, (List.forall_mem_cons.2 ⟨rule_sound_rmul_A, (List.forall_mem_cons.2 ⟨rule_sound_pow_A, (List.forall_mem_cons.2 ⟨rule_sound_rpow_A, (List.forall_mem_cons.2 ⟨rule_sound_rtruediv_A, (List.forall_mem_cons.2 ⟨rule_sound_neg, (List.forall_mem_cons.2 ⟨rule_sound_maximum_AdA, (List.forall_mem_cons.2 ⟨rule_sound_maximum_AdS, (List.forall_mem_cons.2 ⟨rule_sound_maximum_AAd, (List.forall_mem_cons.2 ⟨rule_sound_maximum_SAd, (List.forall_mem_cons.2 ⟨rule_sound_l2_norm_dim1, (List.forall_mem_nil _)⟩)⟩)⟩)⟩)⟩)⟩)⟩)⟩)⟩)⟩)⟩)⟩)⟩)⟩)⟩)⟩)⟩)⟩)⟩)⟩)⟩)⟩)⟩)⟩)⟩)⟩)⟩)⟩)⟩)⟩)⟩)⟩)⟩)⟩)⟩)⟩)⟩)⟩)⟩)⟩)⟩)⟩)⟩)⟩)

theorem table2_sound : ∀ t ∈ table2, Sound2 t.1 t.2.1 t.2.2.holdsR :=
  (List.forall_mem_cons.2 ⟨rule_sound_add_Ad, (List.forall_mem_cons.2 ⟨rule_sound_mul_Ad, (List.forall_mem_cons.2 ⟨rule_sound_pow_Ad, (List.forall_mem_cons.2 ⟨rule_sound_rpow_Ad, (List.forall_mem_cons.2 ⟨rule_sound_truediv_Ad, (List.forall_mem_cons.2 ⟨rule_sound_rtruediv_Ad, (List.forall_mem_cons.2 ⟨rule_sound_radd_Ad, (List.forall_mem_cons.2 ⟨rule_sound_sub_Ad, (List.forall_mem_cons.2 ⟨rule_sound_rsub_Ad, (List.forall_mem_cons.2 ⟨rule_sound_maximum_AdAd, (List.forall_mem_nil _)⟩)⟩)⟩)⟩)⟩)⟩)⟩)⟩)⟩)⟩)

/-- the domain conditions the driver evaluates (`domTable`, Model.lean) are the ones of the verified tables; the two rules
    outside `Expr` (three-parameter `safe_power`, by-design inexact `regularized_heaviside`) are the last two entries -/
theorem dom_table_agrees :
    (table1 ++ table2).map (fun t => (t.1.name, t.2.2)) ++ [("safe_power", Dom.safePow), ("regularized_heaviside", Dom.never)]
      = domTable := by rfl

/-- the table hypotheses discharge the per-node hypotheses of `ad_val` / `ad_jac`: what is left is membership in the tables
    (syntactic) and inequalities on the numbers that reach each node -/
theorem inDom_sound {n : Nat} (e : Expr n) (ρ : ℕ → ℕ → ℝ) (X : Pt n)
    (h : e.InDom table1 table2 Gen.l2_norm ρ X) : e.ValSpec ∧ e.Smooth ρ X := by
  induction e with
  | var idx => exact ⟨trivial, trivial⟩
  | ref j => exact ⟨trivial, trivial⟩
  | map1 r F c e ih =>
    obtain ⟨he, d, hm, hd⟩ := h
    have hs := table1_sound _ hm
    exact ⟨⟨(ih he).1, hs.val⟩, ⟨(ih he).2, fun i => hs.deriv _ _ (hd i)⟩⟩
  | map2 r F e₁ e₂ ih₁ ih₂ =>
    obtain ⟨h₁, h₂, d, hm, hd⟩ := h
    have hs := table2_sound _ hm
    exact ⟨⟨(ih₁ h₁).1, (ih₂ h₂).1, hs.val⟩, ⟨(ih₁ h₁).2, (ih₂ h₂).2, fun i => hs.deriv _ _ (hd i)⟩⟩
  | matmul M cols e ih => exact ih h
  | slice idx e ih => exact ih h
  | l2norm r dim e ih =>
    obtain ⟨he, hr, hd⟩ := h
    subst hr
    refine ⟨⟨(ih he).1, (rule_sound_l2_norm dim (fun _ => 0)).1⟩, ⟨(ih he).2, fun i => ?_⟩⟩
    exact (rule_sound_l2_norm dim _).2 (hd i)

theorem letsInDom_sound {n : Nat} (X : Pt n) (ds : List (Expr n)) :
    ∀ (k : ℕ) (ρ : ℕ → ℕ → ℝ), letsInDom table1 table2 Gen.l2_norm X ds k ρ →
      (∀ d ∈ ds, d.ValSpec) ∧ letsSmooth X ds k ρ := by
  induction ds with
  | nil => intro k ρ _; exact ⟨fun _ h => absurd h (List.not_mem_nil), trivial⟩
  | cons d ds ih =>
    intro k ρ h
    have hd := inDom_sound d ρ X h.1
    have hr := ih (k + 1) _ h.2
    refine ⟨?_, hd.2, hr.2⟩
    intro d' hd'
    rcases List.mem_cons.1 hd' with rfl | hd'
    · exact hd.1
    · exact hr.1 d' hd'

/-- THE PROPERTY, with no hypothesis other than the input condition `InDom`: for every program (shared results, generated
    rules, matrix products, slicing, l2_norm, maximum) and every point at which every rule application is inside its domain,
    the forward-mode value of every row is the plain evaluation and its Jacobian row is the Fréchet derivative. -/
theorem prog_exact {n : Nat} (p : Prog n) (X : Pt n) (h : p.InDom table1 table2 Gen.l2_norm X) (i : ℕ) :
    (p.ad X i).v = p.den X i ∧ HasFDerivAt (fun Y => p.den Y i) (lin (p.ad X i).g) X := by
  have hl := letsInDom_sound X p.lets 0 Prog.env0 h.1
  have hb := inDom_sound p.body _ X h.2
  have hv : p.ValSpec := ⟨hl.1, hb.1⟩
  exact ⟨prog_ad_val p hv X i, prog_ad_jac p hv X ⟨hl.2, hb.2⟩ i⟩

/-- non-vacuity: the demo program (shared maximum used twice) is inside its domain on an open set -/
example (X : Pt 2) (hX : 0 < X 0) (hne : X 0 * X 1 ≠ X 0) : demo.InDom table1 table2 Gen.l2_norm X := by
  refine ⟨⟨⟨⟨trivial, trivial, .all, by simp [table2], fun _ => trivial⟩, trivial, .neC, by simp [table2], fun _ => hne⟩, trivial⟩, ?_⟩
  refine ⟨⟨⟨trivial, .pos, by simp [table1], fun _ => ?_⟩, ⟨trivial, .all, by simp [table1], fun _ => trivial⟩, .all, by simp [table2], fun _ => trivial⟩,
    trivial, .all, by simp [table2], fun _ => trivial⟩
  show 0 < max (X 0 * X 1) (X 0)
  exact lt_max_of_lt_right hX


end PorepyVerif.C01
