/-
C01 — property theorems.

Property: for any expression built from AD arrays with the supported arithmetic and the AD function library, the value
equals the plain numpy evaluation of the same expression and the Jacobian equals the true derivative wherever the
expression is differentiable.

* `rule_sound_<name>` — one theorem per rule GENERATED from the current Python source (Generated.lean): the rule's value
  expression is the operation on real numbers it stands for, everywhere, and on the stated (satisfiable, decidable-looking)
  domain its Jacobian factor(s) are the derivative (`HasDerivAt` / joint `HasFDerivAt` for AdArray∘AdArray).
  A flipped sign, swapped factor or dropped chain-rule factor in the source changes the generated term and the
  corresponding theorem stops compiling.
* `rules_covered`, `raising_table`, `lib_plain_eq_val`, `safe_power_generated_known` — the generated tables are exactly
  the ones the theorems below speak about.
* `ad_val`, `ad_jac` — for EVERY program tree (row-wise rules, left matrix products, slicing, l2_norm, maximum,
  initAdArrays leaves), every point: forward-mode values are the plain evaluation and every Jacobian row is the Fréchet
  derivative of the corresponding output component, by induction over the tree (chain rule).
-/
import PorepyVerif.C01.Lemmas
import PorepyVerif.C01.Generated
set_option linter.unusedSimpArgs false
namespace PorepyVerif.C01
open Real

/-! ## the library rules (functions.py) -/


theorem rule_sound_exp : Sound1 Gen.exp (fun x _ => Real.exp x) (fun _ _ => True) where
  val := by intro x c; simp [Gen.exp, SExpr.evalR, UFun.evalR]
  deriv := by intro x c _; simpa [Gen.exp, SExpr.evalR, UFun.evalR] using Real.hasDerivAt_exp x
  no_other := rfl

theorem rule_sound_log : Sound1 Gen.log (fun x _ => Real.log x) (fun x _ => 0 < x) where
  val := by intro x c; simp [Gen.log, SExpr.evalR, UFun.evalR]
  deriv := by intro x c hx; simpa [Gen.log, SExpr.evalR, UFun.evalR] using Real.hasDerivAt_log hx.ne'
  no_other := rfl

theorem rule_sound_abs : Sound1 Gen.abs (fun x _ => |x|) (fun x _ => x ≠ 0) where
  val := by intro x c; simp [Gen.abs, SExpr.evalR, UFun.evalR]
  deriv := by intro x c hx; simpa [Gen.abs, SExpr.evalR, UFun.evalR] using hasDerivAt_signR_abs hx
  no_other := rfl

theorem rule_sound_sin : Sound1 Gen.sin (fun x _ => Real.sin x) (fun _ _ => True) where
  val := by intro x c; simp [Gen.sin, SExpr.evalR, UFun.evalR]
  deriv := by intro x c _; simpa [Gen.sin, SExpr.evalR, UFun.evalR] using Real.hasDerivAt_sin x
  no_other := rfl

theorem rule_sound_cos : Sound1 Gen.cos (fun x _ => Real.cos x) (fun _ _ => True) where
  val := by intro x c; simp [Gen.cos, SExpr.evalR, UFun.evalR]
  deriv := by intro x c _; simpa [Gen.cos, SExpr.evalR, UFun.evalR] using Real.hasDerivAt_cos x
  no_other := rfl

theorem rule_sound_tan : Sound1 Gen.tan (fun x _ => Real.tan x) (fun x _ => Real.cos x ≠ 0) where
  val := by intro x c; simp [Gen.tan, SExpr.evalR, UFun.evalR]
  deriv := by
    intro x c hx
    have h := Real.hasDerivAt_tan hx
    refine h.congr_deriv ?_
    simp [Gen.tan, SExpr.evalR, UFun.evalR, Real.rpow_two, Real.rpow_neg_one]
  no_other := rfl

theorem rule_sound_arcsin : Sound1 Gen.arcsin (fun x _ => Real.arcsin x) (fun x _ => -1 < x ∧ x < 1) where
  val := by intro x c; simp [Gen.arcsin, SExpr.evalR, UFun.evalR]
  deriv := by
    intro x c ⟨h1, h2⟩
    have h := Real.hasDerivAt_arcsin h1.ne' h2.ne
    refine h.congr_deriv ?_
    have hp : (0 : ℝ) ≤ 1 - x ^ 2 := by nlinarith
    simp [Gen.arcsin, SExpr.evalR, UFun.evalR, Real.rpow_two]
    rw [rpow_neg_half hp]
  no_other := rfl

theorem rule_sound_arccos : Sound1 Gen.arccos (fun x _ => Real.arccos x) (fun x _ => -1 < x ∧ x < 1) where
  val := by intro x c; simp [Gen.arccos, SExpr.evalR, UFun.evalR]
  deriv := by
    intro x c ⟨h1, h2⟩
    have h := Real.hasDerivAt_arccos h1.ne' h2.ne
    refine h.congr_deriv ?_
    have hp : (0 : ℝ) ≤ 1 - x ^ 2 := by nlinarith
    simp [Gen.arccos, SExpr.evalR, UFun.evalR, Real.rpow_two]
    rw [rpow_neg_half hp]
  no_other := rfl

theorem rule_sound_arctan : Sound1 Gen.arctan (fun x _ => Real.arctan x) (fun _ _ => True) where
  val := by intro x c; simp [Gen.arctan, SExpr.evalR, UFun.evalR]
  deriv := by
    intro x c _
    refine (Real.hasDerivAt_arctan x).congr_deriv ?_
    simp [Gen.arctan, SExpr.evalR, UFun.evalR, Real.rpow_two, Real.rpow_neg_one, add_comm]
  no_other := rfl

theorem rule_sound_sinh : Sound1 Gen.sinh (fun x _ => Real.sinh x) (fun _ _ => True) where
  val := by intro x c; simp [Gen.sinh, SExpr.evalR, UFun.evalR]
  deriv := by intro x c _; simpa [Gen.sinh, SExpr.evalR, UFun.evalR] using Real.hasDerivAt_sinh x
  no_other := rfl

theorem rule_sound_cosh : Sound1 Gen.cosh (fun x _ => Real.cosh x) (fun _ _ => True) where
  val := by intro x c; simp [Gen.cosh, SExpr.evalR, UFun.evalR]
  deriv := by intro x c _; simpa [Gen.cosh, SExpr.evalR, UFun.evalR] using Real.hasDerivAt_cosh x
  no_other := rfl

theorem rule_sound_tanh : Sound1 Gen.tanh (fun x _ => Real.tanh x) (fun _ _ => True) where
  val := by intro x c; simp [Gen.tanh, SExpr.evalR, UFun.evalR]
  deriv := by
    intro x c _
    refine (hasDerivAt_tanh x).congr_deriv ?_
    simp [Gen.tanh, SExpr.evalR, UFun.evalR, rpow_neg_two]
  no_other := rfl

theorem rule_sound_arcsinh : Sound1 Gen.arcsinh (fun x _ => Real.arsinh x) (fun _ _ => True) where
  val := by intro x c; simp [Gen.arcsinh, SExpr.evalR, UFun.evalR]
  deriv := by
    intro x c _
    refine (Real.hasDerivAt_arsinh x).congr_deriv ?_
    have hp : (0 : ℝ) ≤ x ^ 2 + 1 := by positivity
    simp [Gen.arcsinh, SExpr.evalR, UFun.evalR]
    rw [rpow_neg_half hp, add_comm]
  no_other := rfl

theorem rule_sound_arccosh : Sound1 Gen.arccosh (fun x _ => Real.arcosh x) (fun x _ => 1 < x) where
  val := by intro x c; simp [Gen.arccosh, SExpr.evalR, UFun.evalR]
  deriv := by
    intro x c hx
    refine (Real.hasDerivAt_arcosh (Set.mem_Ioi.mpr hx)).congr_deriv ?_
    have h1 : (0 : ℝ) ≤ x - 1 := by linarith
    have h2 : (0 : ℝ) ≤ x + 1 := by linarith
    simp [Gen.arccosh, SExpr.evalR, UFun.evalR]
    rw [rpow_neg_half h1, rpow_neg_half h2, ← mul_inv, ← Real.sqrt_mul h1]
    congr 2; ring
  no_other := rfl

theorem rule_sound_arctanh : Sound1 Gen.arctanh (fun x _ => Real.artanh x) (fun x _ => -1 < x ∧ x < 1) where
  val := by intro x c; simp [Gen.arctanh, SExpr.evalR, UFun.evalR]
  deriv := by
    intro x c ⟨h1, h2⟩
    refine (hasDerivAt_artanh h1 h2).congr_deriv ?_
    simp [Gen.arctanh, SExpr.evalR, UFun.evalR, Real.rpow_neg_one]
  no_other := rfl

theorem rule_sound_heaviside : Sound1 Gen.heaviside (fun x z => heavisideR x z) (fun x _ => x ≠ 0) where
  val := by intro x c; simp [Gen.heaviside, SExpr.evalR]
  deriv := by intro x c hx; simpa [Gen.heaviside, SExpr.evalR] using heavisideR_hasDerivAt (z := c) hx
  no_other := rfl

/-- `H_eps(x) = (1/2) (1 + (2/π) arctan(x/eps))` (docstring of `heaviside_smooth`) -/
noncomputable def heavisideSmoothR (x eps : ℝ) : ℝ := 1 / 2 * (1 + 2 / π * Real.arctan (x / eps))

theorem rule_sound_heaviside_smooth : Sound1 Gen.heaviside_smooth heavisideSmoothR (fun _ eps => eps ≠ 0) where
  val := by
    intro x c
    simp [Gen.heaviside_smooth, SExpr.evalR, UFun.evalR, heavisideSmoothR, Real.rpow_neg_one, div_eq_mul_inv]
  deriv := by
    intro x c hc
    have h1 : HasDerivAt (fun t : ℝ => t / c) (1 / c) x := by simpa using (hasDerivAt_id x).div_const c
    have h2 := (h1.arctan.const_mul (2 / π)).const_add 1
    have h3 := h2.const_mul (1 / 2 : ℝ)
    refine h3.congr_deriv ?_
    have hpi : π ≠ 0 := Real.pi_ne_zero
    have hs : c ^ 2 + x ^ 2 ≠ 0 := by positivity
    simp [Gen.heaviside_smooth, SExpr.evalR, UFun.evalR, Real.rpow_neg_one]
    field_simp
  no_other := rfl

/-- `np.isclose(x, 0, atol=tol)` as a float -/
noncomputable def charR (x tol : ℝ) : ℝ := if |x| ≤ tol then 1 else 0

theorem rule_sound_characteristic_function :
    Sound1 Gen.characteristic_function charR (fun x tol => |x| ≠ tol) where
  val := by
    intro x c
    simp [Gen.characteristic_function, SExpr.evalR, UFun.evalR, charR]
    by_cases h : |x| ≤ c
    · simp [h, not_lt.mpr h]
    · simp [h, not_le.mp h]
  deriv := by
    intro x c hx
    have hd : (Gen.characteristic_function.dself.evalR [x, c]) = 0 := by
      simp [Gen.characteristic_function, SExpr.evalR]
    rw [hd]
    rcases lt_or_gt_of_ne hx with h | h
    · apply hasDerivAt_of_eventually_const (k := 1)
      have : {y : ℝ | |y| < c} ∈ nhds x := (isOpen_lt continuous_abs continuous_const).mem_nhds h
      filter_upwards [this] with y hy
      simp [charR, le_of_lt (show |y| < c from hy)]
    · apply hasDerivAt_of_eventually_const (k := 0)
      have : {y : ℝ | c < |y|} ∈ nhds x := (isOpen_lt continuous_const continuous_abs).mem_nhds h
      filter_upwards [this] with y hy
      simp [charR, not_le.mpr (show c < |y| from hy)]
  no_other := rfl


/-! ## safe_power (three parameters; see Model.lean: the theorem is about the repaired rule) -/

/-- `x ** power` where `|x| > tol`, the constant `zero_val` elsewhere -/
noncomputable def safePowR (x p z tol : ℝ) : ℝ := if |x| > tol then x ^ p else z

theorem rule_sound_safe_power (x p z tol : ℝ) :
    safePowerFixed.val.evalR [x, p, z, tol] = safePowR x p z tol ∧
    (|x| ≠ tol → (x ≠ 0 ∨ 1 ≤ p) →
      HasDerivAt (fun t => safePowR t p z tol) (safePowerFixed.dself.evalR [x, p, z, tol]) x) := by
  refine ⟨by simp [safePowerFixed, safePowerVal, SExpr.evalR, UFun.evalR, safePowR], ?_⟩
  intro hx hp
  rcases lt_or_gt_of_ne hx with h | h
  · have hd : safePowerFixed.dself.evalR [x, p, z, tol] = 0 := by
      simp [safePowerFixed, SExpr.evalR, UFun.evalR, not_lt.mpr h.le]
    rw [hd]
    apply hasDerivAt_of_eventually_const (k := z)
    have : {y : ℝ | |y| < tol} ∈ nhds x := (isOpen_lt continuous_abs continuous_const).mem_nhds h
    filter_upwards [this] with y hy
    have hy' : |y| < tol := hy
    simp [safePowR, not_lt.mpr hy'.le]
  · have hd : safePowerFixed.dself.evalR [x, p, z, tol] = p * x ^ (p - 1) := by
      simp [safePowerFixed, SExpr.evalR, UFun.evalR, h]
    rw [hd]
    refine (Real.hasDerivAt_rpow_const hp).congr_of_eventuallyEq ?_
    have : {y : ℝ | tol < |y|} ∈ nhds x := (isOpen_lt continuous_const continuous_abs).mem_nhds h
    filter_upwards [this] with y hy
    have hy' : tol < |y| := hy
    simp [safePowR, hy']

/-- The rule generated from the CURRENT source is either the repaired one or the one found at the pinned commit
    (any other change of `safe_power` breaks this). -/
theorem safe_power_generated_known : Gen.safe_power = safePowerFixed ∨ Gen.safe_power = safePowerAsFound := by
  first
    | exact Or.inl rfl
    | exact Or.inr rfl

/-- The rule found at the pinned commit is not a derivative: at x = 2, power = -1 it yields -4, the derivative of
    1/x at 2 is -1/4 (finding C01-safe_power-jacobian). -/
theorem safe_power_as_found_unsound :
    ¬ HasDerivAt (fun t => safePowR t (-1) 0 (1 / 2)) (safePowerAsFound.dself.evalR [2, -1, 0, 1 / 2]) 2 := by
  intro h
  have h2 : |(2 : ℝ)| ≠ 1 / 2 := by norm_num
  have h' := (rule_sound_safe_power 2 (-1) 0 (1 / 2)).2 h2 (Or.inl (by norm_num))
  have e := h.unique h'
  have e2 : ((-1 : ℝ) - 1) = -2 := by norm_num
  have a2 : (1 / 2 : ℝ) < |(2 : ℝ)| := by norm_num
  simp [safePowerAsFound, safePowerFixed, safePowerVal, SExpr.evalR, UFun.evalR, e2, rpow_neg_two, Real.rpow_neg_one, a2] at e
  norm_num at e

/-! ## the arithmetic rules (forward_mode.py) -/

theorem rule_sound_add_S : Sound1 Gen.add_S (fun x c => x + c) (fun _ _ => True) where
  val := by intro x c; simp [Gen.add_S, SExpr.evalR]
  deriv := by intro x c _; simpa [Gen.add_S, SExpr.evalR] using (hasDerivAt_id x).add_const c
  no_other := rfl

theorem rule_sound_sub_S : Sound1 Gen.sub_S (fun x c => x - c) (fun _ _ => True) where
  val := by intro x c; simp [Gen.sub_S, SExpr.evalR]; ring
  deriv := by intro x c _; simpa [Gen.sub_S, SExpr.evalR] using (hasDerivAt_id x).sub_const c
  no_other := rfl

theorem rule_sound_rsub_S : Sound1 Gen.rsub_S (fun x c => c - x) (fun _ _ => True) where
  val := by intro x c; simp [Gen.rsub_S, SExpr.evalR]; ring
  deriv := by intro x c _; simpa [Gen.rsub_S, SExpr.evalR] using (hasDerivAt_id x).const_sub c
  no_other := rfl

theorem rule_sound_mul_S : Sound1 Gen.mul_S (fun x c => x * c) (fun _ _ => True) where
  val := by intro x c; simp [Gen.mul_S, SExpr.evalR]
  deriv := by intro x c _; simpa [Gen.mul_S, SExpr.evalR] using (hasDerivAt_id x).mul_const c
  no_other := rfl

theorem rule_sound_pow_S : Sound1 Gen.pow_S (fun x c => x ^ c) (fun x c => x ≠ 0 ∨ 1 ≤ c) where
  val := by intro x c; simp [Gen.pow_S, SExpr.evalR]
  deriv := by intro x c h; simpa [Gen.pow_S, SExpr.evalR] using Real.hasDerivAt_rpow_const h
  no_other := rfl

theorem rule_sound_rpow_S : Sound1 Gen.rpow_S (fun x c => c ^ x) (fun _ c => 0 < c) where
  val := by intro x c; simp [Gen.rpow_S, SExpr.evalR]
  deriv := by
    intro x c h
    simpa [Gen.rpow_S, SExpr.evalR, UFun.evalR] using (Real.hasStrictDerivAt_const_rpow h x).hasDerivAt
  no_other := rfl

theorem rule_sound_truediv_S : Sound1 Gen.truediv_S (fun x c => x / c) (fun _ c => c ≠ 0) where
  val := by intro x c; simp [Gen.truediv_S, SExpr.evalR]
  deriv := by intro x c _; simpa [Gen.truediv_S, SExpr.evalR] using (hasDerivAt_id x).div_const c
  no_other := rfl

theorem rule_sound_truediv_A : Sound1 Gen.truediv_A (fun x c => x / c) (fun _ c => c ≠ 0) where
  val := by intro x c; simp [Gen.truediv_A, SExpr.evalR, Real.rpow_neg_one, div_eq_mul_inv]
  deriv := by
    intro x c _
    simpa [Gen.truediv_A, SExpr.evalR, Real.rpow_neg_one, div_eq_mul_inv] using (hasDerivAt_id x).div_const c
  no_other := rfl

theorem rule_sound_rtruediv_S : Sound1 Gen.rtruediv_S (fun x c => c / x) (fun x _ => x ≠ 0) where
  val := by intro x c; simp [Gen.rtruediv_S, SExpr.evalR, Real.rpow_neg_one, div_eq_mul_inv, mul_comm]
  deriv := by
    intro x c hx
    have h := (hasDerivAt_inv hx).const_mul c
    have hf : (fun t : ℝ => c / t) = fun t => c * t⁻¹ := funext fun t => div_eq_mul_inv c t
    rw [hf]
    refine h.congr_deriv ?_
    have e : ((-1 : ℝ) - 1) = -2 := by norm_num
    simp [Gen.rtruediv_S, SExpr.evalR, e, rpow_neg_two]
    ring
  no_other := rfl

theorem rule_sound_add_Ad : Sound2 Gen.add_Ad (fun x y => x + y) (fun _ _ => True) where
  val := by intro x y; simp [Gen.add_Ad, SExpr.evalR]
  deriv := by
    intro x y _
    refine fderiv2_of (hasFDerivAt_fst.add hasFDerivAt_snd) (fun p => rfl) ?_ ?_ <;>
      simp [Gen.add_Ad, SExpr.evalR]
  has_other := rfl

theorem rule_sound_mul_Ad : Sound2 Gen.mul_Ad (fun x y => x * y) (fun _ _ => True) where
  val := by intro x y; simp [Gen.mul_Ad, SExpr.evalR]
  deriv := by
    intro x y _
    refine fderiv2_of (hasFDerivAt_fst.mul hasFDerivAt_snd) (fun p => rfl) ?_ ?_ <;>
      simp [Gen.mul_Ad, SExpr.evalR]
  has_other := rfl

theorem rule_sound_pow_Ad : Sound2 Gen.pow_Ad (fun x y => x ^ y) (fun x _ => 0 < x) where
  val := by intro x y; simp [Gen.pow_Ad, SExpr.evalR]
  deriv := by
    intro x y hx
    refine fderiv2_of (hasFDerivAt_fst.rpow hasFDerivAt_snd hx) (fun p => rfl) ?_ ?_ <;>
      simp [Gen.pow_Ad, SExpr.evalR, UFun.evalR]
  has_other := rfl

theorem rule_sound_rpow_Ad : Sound2 Gen.rpow_Ad (fun x y => y ^ x) (fun _ y => 0 < y) where
  val := by intro x y; simp [Gen.rpow_Ad, SExpr.evalR]
  deriv := by
    intro x y hy
    refine fderiv2_of (F := fun x y => y ^ x) (hasFDerivAt_snd.rpow hasFDerivAt_fst hy) (fun p => rfl) ?_ ?_ <;>
      simp [Gen.rpow_Ad, SExpr.evalR, UFun.evalR]
  has_other := rfl

theorem rule_sound_truediv_Ad : Sound2 Gen.truediv_Ad (fun x y => x / y) (fun _ y => y ≠ 0) where
  val := by intro x y; simp [Gen.truediv_Ad, SExpr.evalR, Real.rpow_neg_one, div_eq_mul_inv]
  deriv := by
    intro x y hy
    have hs : HasFDerivAt (Prod.snd : ℝ × ℝ → ℝ) (ContinuousLinearMap.snd ℝ ℝ ℝ) (x, y) := hasFDerivAt_snd
    have hi := (hasDerivAt_inv hy).comp_hasFDerivAt (x, y) hs
    have e : ((-1 : ℝ) - 1) = -2 := by norm_num
    refine fderiv2_of (F := fun x y => x / y) (hasFDerivAt_fst.mul hi) (fun p => div_eq_mul_inv _ _) ?_ ?_ <;>
      simp [Gen.truediv_Ad, SExpr.evalR, e, rpow_neg_two, Real.rpow_neg_one]
  has_other := rfl

theorem rule_sound_rtruediv_Ad : Sound2 Gen.rtruediv_Ad (fun x y => y / x) (fun x _ => x ≠ 0) where
  val := by intro x y; simp [Gen.rtruediv_Ad, SExpr.evalR, Real.rpow_neg_one, div_eq_mul_inv]
  deriv := by
    intro x y hx
    have hs : HasFDerivAt (Prod.fst : ℝ × ℝ → ℝ) (ContinuousLinearMap.fst ℝ ℝ ℝ) (x, y) := hasFDerivAt_fst
    have hi := (hasDerivAt_inv hx).comp_hasFDerivAt (x, y) hs
    have e : ((-1 : ℝ) - 1) = -2 := by norm_num
    refine fderiv2_of (F := fun x y => y / x) (hasFDerivAt_snd.mul hi) (fun p => div_eq_mul_inv _ _) ?_ ?_ <;>
      simp [Gen.rtruediv_Ad, SExpr.evalR, e, rpow_neg_two, Real.rpow_neg_one]
  has_other := rfl


theorem rule_sound_add_A : Sound1 Gen.add_A (fun x c => x + c) (fun _ _ => True) where
  val := by intro x c; simp [Gen.add_A, SExpr.evalR]
  deriv := by intro x c _; simpa [Gen.add_A, SExpr.evalR] using (hasDerivAt_id x).add_const c
  no_other := rfl

theorem rule_sound_radd_S : Sound1 Gen.radd_S (fun x c => c + x) (fun _ _ => True) where
  val := by intro x c; simp [Gen.radd_S, SExpr.evalR, add_comm]
  deriv := by intro x c _; simpa [Gen.radd_S, SExpr.evalR] using (hasDerivAt_id x).const_add c
  no_other := rfl

theorem rule_sound_radd_A : Sound1 Gen.radd_A (fun x c => c + x) (fun _ _ => True) where
  val := by intro x c; simp [Gen.radd_A, SExpr.evalR, add_comm]
  deriv := by intro x c _; simpa [Gen.radd_A, SExpr.evalR] using (hasDerivAt_id x).const_add c
  no_other := rfl

theorem rule_sound_sub_A : Sound1 Gen.sub_A (fun x c => x - c) (fun _ _ => True) where
  val := by intro x c; simp [Gen.sub_A, SExpr.evalR]; ring
  deriv := by intro x c _; simpa [Gen.sub_A, SExpr.evalR] using (hasDerivAt_id x).sub_const c
  no_other := rfl

theorem rule_sound_rsub_A : Sound1 Gen.rsub_A (fun x c => c - x) (fun _ _ => True) where
  val := by intro x c; simp [Gen.rsub_A, SExpr.evalR]; ring
  deriv := by intro x c _; simpa [Gen.rsub_A, SExpr.evalR] using (hasDerivAt_id x).const_sub c
  no_other := rfl

theorem rule_sound_mul_A : Sound1 Gen.mul_A (fun x c => x * c) (fun _ _ => True) where
  val := by intro x c; simp [Gen.mul_A, SExpr.evalR]
  deriv := by intro x c _; simpa [Gen.mul_A, SExpr.evalR] using (hasDerivAt_id x).mul_const c
  no_other := rfl

theorem rule_sound_rmul_S : Sound1 Gen.rmul_S (fun x c => c * x) (fun _ _ => True) where
  val := by intro x c; simp [Gen.rmul_S, SExpr.evalR, mul_comm]
  deriv := by intro x c _; simpa [Gen.rmul_S, SExpr.evalR] using (hasDerivAt_id x).const_mul c
  no_other := rfl

theorem rule_sound_rmul_A : Sound1 Gen.rmul_A (fun x c => c * x) (fun _ _ => True) where
  val := by intro x c; simp [Gen.rmul_A, SExpr.evalR, mul_comm]
  deriv := by intro x c _; simpa [Gen.rmul_A, SExpr.evalR] using (hasDerivAt_id x).const_mul c
  no_other := rfl

theorem rule_sound_pow_A : Sound1 Gen.pow_A (fun x c => x ^ c) (fun x c => x ≠ 0 ∨ 1 ≤ c) where
  val := by intro x c; simp [Gen.pow_A, SExpr.evalR]
  deriv := by intro x c h; simpa [Gen.pow_A, SExpr.evalR] using Real.hasDerivAt_rpow_const h
  no_other := rfl

theorem rule_sound_rpow_A : Sound1 Gen.rpow_A (fun x c => c ^ x) (fun _ c => 0 < c) where
  val := by intro x c; simp [Gen.rpow_A, SExpr.evalR]
  deriv := by
    intro x c h
    simpa [Gen.rpow_A, SExpr.evalR, UFun.evalR] using (Real.hasStrictDerivAt_const_rpow h x).hasDerivAt
  no_other := rfl

theorem rule_sound_rtruediv_A : Sound1 Gen.rtruediv_A (fun x c => c / x) (fun x _ => x ≠ 0) where
  val := by intro x c; simp [Gen.rtruediv_A, SExpr.evalR, Real.rpow_neg_one, div_eq_mul_inv, mul_comm]
  deriv := by
    intro x c hx
    have h := (hasDerivAt_inv hx).const_mul c
    have hf : (fun t : ℝ => c / t) = fun t => c * t⁻¹ := funext fun t => div_eq_mul_inv c t
    rw [hf]
    refine h.congr_deriv ?_
    have e : ((-1 : ℝ) - 1) = -2 := by norm_num
    simp [Gen.rtruediv_A, SExpr.evalR, e, rpow_neg_two]
  no_other := rfl

theorem rule_sound_radd_Ad : Sound2 Gen.radd_Ad (fun x y => y + x) (fun _ _ => True) where
  val := by intro x y; simp [Gen.radd_Ad, SExpr.evalR, add_comm]
  deriv := by
    intro x y _
    refine fderiv2_of (F := fun x y => y + x) (hasFDerivAt_snd.add hasFDerivAt_fst) (fun p => rfl) ?_ ?_ <;>
      simp [Gen.radd_Ad, SExpr.evalR]
  has_other := rfl

theorem rule_sound_sub_Ad : Sound2 Gen.sub_Ad (fun x y => x - y) (fun _ _ => True) where
  val := by intro x y; simp [Gen.sub_Ad, SExpr.evalR]; ring
  deriv := by
    intro x y _
    refine fderiv2_of (F := fun x y => x - y) (hasFDerivAt_fst.sub hasFDerivAt_snd) (fun p => rfl) ?_ ?_ <;>
      simp [Gen.sub_Ad, SExpr.evalR]
  has_other := rfl

theorem rule_sound_rsub_Ad : Sound2 Gen.rsub_Ad (fun x y => y - x) (fun _ _ => True) where
  val := by intro x y; simp [Gen.rsub_Ad, SExpr.evalR]; ring
  deriv := by
    intro x y _
    refine fderiv2_of (F := fun x y => y - x) (hasFDerivAt_snd.sub hasFDerivAt_fst) (fun p => rfl) ?_ ?_ <;>
      simp [Gen.rsub_Ad, SExpr.evalR]
  has_other := rfl

theorem rule_sound_neg : Sound1 Gen.neg (fun x _ => -x) (fun _ _ => True) where
  val := by intro x c; simp [Gen.neg, SExpr.evalR]
  deriv := by intro x c _; simpa [Gen.neg, SExpr.evalR] using hasDerivAt_neg x
  no_other := rfl

/-! ## bundles (one audited statement per rule family; the components are the `rule_sound_*` theorems above) -/

/-- every generated library rule (functions.py) except safe_power, which has three parameters and its own theorem -/
theorem lib_rules_sound :
    Sound1 Gen.exp (fun x _ => Real.exp x) (fun _ _ => True) ∧
    Sound1 Gen.log (fun x _ => Real.log x) (fun x _ => 0 < x) ∧
    Sound1 Gen.abs (fun x _ => |x|) (fun x _ => x ≠ 0) ∧
    Sound1 Gen.sin (fun x _ => Real.sin x) (fun _ _ => True) ∧
    Sound1 Gen.cos (fun x _ => Real.cos x) (fun _ _ => True) ∧
    Sound1 Gen.tan (fun x _ => Real.tan x) (fun x _ => Real.cos x ≠ 0) ∧
    Sound1 Gen.arcsin (fun x _ => Real.arcsin x) (fun x _ => -1 < x ∧ x < 1) ∧
    Sound1 Gen.arccos (fun x _ => Real.arccos x) (fun x _ => -1 < x ∧ x < 1) ∧
    Sound1 Gen.arctan (fun x _ => Real.arctan x) (fun _ _ => True) ∧
    Sound1 Gen.sinh (fun x _ => Real.sinh x) (fun _ _ => True) ∧
    Sound1 Gen.cosh (fun x _ => Real.cosh x) (fun _ _ => True) ∧
    Sound1 Gen.tanh (fun x _ => Real.tanh x) (fun _ _ => True) ∧
    Sound1 Gen.arcsinh (fun x _ => Real.arsinh x) (fun _ _ => True) ∧
    Sound1 Gen.arccosh (fun x _ => Real.arcosh x) (fun x _ => 1 < x) ∧
    Sound1 Gen.arctanh (fun x _ => Real.artanh x) (fun x _ => -1 < x ∧ x < 1) ∧
    Sound1 Gen.heaviside (fun x z => heavisideR x z) (fun x _ => x ≠ 0) ∧
    Sound1 Gen.heaviside_smooth heavisideSmoothR (fun _ eps => eps ≠ 0) ∧
    Sound1 Gen.characteristic_function charR (fun x tol => |x| ≠ tol) :=
  ⟨rule_sound_exp,
   rule_sound_log,
   rule_sound_abs,
   rule_sound_sin,
   rule_sound_cos,
   rule_sound_tan,
   rule_sound_arcsin,
   rule_sound_arccos,
   rule_sound_arctan,
   rule_sound_sinh,
   rule_sound_cosh,
   rule_sound_tanh,
   rule_sound_arcsinh,
   rule_sound_arccosh,
   rule_sound_arctanh,
   rule_sound_heaviside,
   rule_sound_heaviside_smooth,
   rule_sound_characteristic_function⟩

/-- every generated arithmetic rule (AdArray overloads × operand kind) -/
theorem arith_rules_sound :
    Sound1 Gen.add_S (fun x c => x + c) (fun _ _ => True) ∧
    Sound1 Gen.sub_S (fun x c => x - c) (fun _ _ => True) ∧
    Sound1 Gen.rsub_S (fun x c => c - x) (fun _ _ => True) ∧
    Sound1 Gen.mul_S (fun x c => x * c) (fun _ _ => True) ∧
    Sound1 Gen.pow_S (fun x c => x ^ c) (fun x c => x ≠ 0 ∨ 1 ≤ c) ∧
    Sound1 Gen.rpow_S (fun x c => c ^ x) (fun _ c => 0 < c) ∧
    Sound1 Gen.truediv_S (fun x c => x / c) (fun _ c => c ≠ 0) ∧
    Sound1 Gen.truediv_A (fun x c => x / c) (fun _ c => c ≠ 0) ∧
    Sound1 Gen.rtruediv_S (fun x c => c / x) (fun x _ => x ≠ 0) ∧
    Sound2 Gen.add_Ad (fun x y => x + y) (fun _ _ => True) ∧
    Sound2 Gen.mul_Ad (fun x y => x * y) (fun _ _ => True) ∧
    Sound2 Gen.pow_Ad (fun x y => x ^ y) (fun x _ => 0 < x) ∧
    Sound2 Gen.rpow_Ad (fun x y => y ^ x) (fun _ y => 0 < y) ∧
    Sound2 Gen.truediv_Ad (fun x y => x / y) (fun _ y => y ≠ 0) ∧
    Sound2 Gen.rtruediv_Ad (fun x y => y / x) (fun x _ => x ≠ 0) ∧
    Sound1 Gen.add_A (fun x c => x + c) (fun _ _ => True) ∧
    Sound1 Gen.radd_S (fun x c => c + x) (fun _ _ => True) ∧
    Sound1 Gen.radd_A (fun x c => c + x) (fun _ _ => True) ∧
    Sound1 Gen.sub_A (fun x c => x - c) (fun _ _ => True) ∧
    Sound1 Gen.rsub_A (fun x c => c - x) (fun _ _ => True) ∧
    Sound1 Gen.mul_A (fun x c => x * c) (fun _ _ => True) ∧
    Sound1 Gen.rmul_S (fun x c => c * x) (fun _ _ => True) ∧
    Sound1 Gen.rmul_A (fun x c => c * x) (fun _ _ => True) ∧
    Sound1 Gen.pow_A (fun x c => x ^ c) (fun x c => x ≠ 0 ∨ 1 ≤ c) ∧
    Sound1 Gen.rpow_A (fun x c => c ^ x) (fun _ c => 0 < c) ∧
    Sound1 Gen.rtruediv_A (fun x c => c / x) (fun x _ => x ≠ 0) ∧
    Sound2 Gen.radd_Ad (fun x y => y + x) (fun _ _ => True) ∧
    Sound2 Gen.sub_Ad (fun x y => x - y) (fun _ _ => True) ∧
    Sound2 Gen.rsub_Ad (fun x y => y - x) (fun _ _ => True) ∧
    Sound1 Gen.neg (fun x _ => -x) (fun _ _ => True) :=
  ⟨rule_sound_add_S,
   rule_sound_sub_S,
   rule_sound_rsub_S,
   rule_sound_mul_S,
   rule_sound_pow_S,
   rule_sound_rpow_S,
   rule_sound_truediv_S,
   rule_sound_truediv_A,
   rule_sound_rtruediv_S,
   rule_sound_add_Ad,
   rule_sound_mul_Ad,
   rule_sound_pow_Ad,
   rule_sound_rpow_Ad,
   rule_sound_truediv_Ad,
   rule_sound_rtruediv_Ad,
   rule_sound_add_A,
   rule_sound_radd_S,
   rule_sound_radd_A,
   rule_sound_sub_A,
   rule_sound_rsub_A,
   rule_sound_mul_A,
   rule_sound_rmul_S,
   rule_sound_rmul_A,
   rule_sound_pow_A,
   rule_sound_rpow_A,
   rule_sound_rtruediv_A,
   rule_sound_radd_Ad,
   rule_sound_sub_Ad,
   rule_sound_rsub_Ad,
   rule_sound_neg⟩

/-! ## the generated tables are the ones covered above -/

theorem rules_covered : (Gen.arith ++ Gen.lib).map (·.name) =
    ["add_S", "add_A", "add_Ad", "radd_S", "radd_A", "radd_Ad", "sub_S", "sub_A", "sub_Ad", "rsub_S", "rsub_A", "rsub_Ad",
     "mul_S", "mul_A", "mul_Ad", "rmul_S", "rmul_A", "pow_S", "pow_A", "pow_Ad", "rpow_S", "rpow_A", "rpow_Ad",
     "truediv_S", "truediv_A", "truediv_Ad", "rtruediv_S", "rtruediv_A", "rtruediv_Ad", "neg",
     "exp", "log", "abs", "safe_power", "sin", "cos", "tan", "arcsin", "arccos", "arctan", "sinh", "cosh", "tanh",
     "arcsinh", "arccosh", "arctanh", "heaviside", "heaviside_smooth", "characteristic_function"] := by rfl

/-- sparse operands raise for everything but `M @ AdArray`; `AdArray @ anything` and non-sparse `x @ AdArray` raise -/
theorem raising_table : Gen.raising =
    [("add_Sp", "ValueError"), ("radd_Sp", "ValueError"), ("sub_Sp", "ValueError"), ("rsub_Sp", "ValueError"),
     ("mul_Sp", "ValueError"), ("rmul_Ad", "RuntimeError"), ("rmul_Sp", "ValueError"), ("pow_Sp", "ValueError"),
     ("rpow_Sp", "ValueError"), ("truediv_Sp", "ValueError"), ("rtruediv_Sp", "ValueError"), ("matmul_S", "ValueError"),
     ("matmul_A", "ValueError"), ("matmul_Ad", "ValueError"), ("matmul_Sp", "ValueError"), ("rmatmul_S", "ValueError"),
     ("rmatmul_A", "ValueError"), ("rmatmul_Ad", "ValueError")] := by rfl

/-- every library function computes the same value expression for an AdArray as for a plain numpy array -/
theorem lib_plain_eq_val : Gen.lib.map (·.plain) = Gen.lib.map (fun r => some r.val) := by rfl

/-! ## program trees -/

theorem ad_val {n : Nat} (e : Expr n) (hv : e.ValSpec) (X : Pt n) : ∀ i, (e.ad X i).v = e.den X i := by
  induction e with
  | var idx => intro i; rfl
  | const c => intro i; rfl
  | map1 r F c e ih =>
    intro i
    simp only [Expr.ad, Expr.den]
    rw [ih hv.1 i, hv.2]
  | map2 r F e₁ e₂ ih₁ ih₂ =>
    intro i
    simp only [Expr.ad, Expr.den]
    rw [ih₁ hv.1 i, ih₂ hv.2.1 i, hv.2.2]
  | matmul M cols e ih =>
    intro i
    simp only [Expr.ad, Expr.den]
    exact Finset.sum_congr rfl (fun k _ => by rw [ih hv k])
  | slice idx e ih => intro i; exact ih hv (idx i)
  | l2norm dim e ih =>
    intro i
    simp only [Expr.ad, Expr.den]
    congr 1
    exact Finset.sum_congr rfl (fun k _ => by rw [ih hv _])
  | maximum e₁ e₂ ih₁ ih₂ =>
    intro i
    simp only [Expr.ad, Expr.den]
    have h1 := ih₁ hv.1 i
    have h2 := ih₂ hv.2 i
    by_cases h : (e₂.ad X i).v > (e₁.ad X i).v
    · rw [if_pos h, h2]
      rw [h1, h2] at h
      exact (max_eq_right h.le).symm
    · rw [if_neg h, h1]
      rw [h1, h2] at h
      exact (max_eq_left (not_lt.mp h)).symm

theorem ad_jac {n : Nat} (e : Expr n) (hv : e.ValSpec) (X : Pt n) (hs : e.Smooth X) :
    ∀ i, HasFDerivAt (fun Y => e.den Y i) (lin (e.ad X i).g) X := by
  induction e with
  | var idx =>
    intro i
    simp only [Expr.ad, Expr.den]
    rw [lin_single]
    exact hasFDerivAt_apply (idx i) X
  | const c =>
    intro i
    simp only [Expr.ad, Expr.den]
    rw [lin_zero]
    exact hasFDerivAt_const (c i) X
  | map1 r F c e ih =>
    intro i
    have h := (hs.2 i).comp_hasFDerivAt X (ih hv.1 hs.1 i)
    simp only [Expr.ad, Expr.den]
    rw [lin_smul, ad_val e hv.1 X i]
    exact h
  | map2 r F e₁ e₂ ih₁ ih₂ =>
    intro i
    have h := (hs.2.2 i).comp X ((ih₁ hv.1 hs.1 i).prodMk (ih₂ hv.2.1 hs.2.1 i))
    simp only [Expr.ad, Expr.den]
    rw [lin_add_smul, ad_val e₁ hv.1 X i, ad_val e₂ hv.2.1 X i]
    refine h.congr_fderiv ?_
    ext Y
    simp
  | matmul M cols e ih =>
    intro i
    simp only [Expr.ad, Expr.den]
    rw [lin_sum]
    exact HasFDerivAt.fun_sum (fun k _ => (ih hv hs k).const_mul (M i k))
  | slice idx e ih => intro i; exact ih hv hs (idx i)
  | l2norm dim e ih =>
    intro i
    simp only [Expr.ad, Expr.den]
    have hval : ∀ k, (e.ad X (dim * i + k)).v = e.den X (dim * i + k) := fun k => ad_val e hv X _
    simp only [hval]
    set S : ℝ := ∑ k ∈ Finset.range dim, (e.den X (dim * i + k)) ^ 2 with hS
    have hpos : l2tol < √S := hs.2 i
    have htol : (0 : ℝ) < l2tol := by unfold l2tol; positivity
    have hn : √S ≠ 0 := (lt_trans htol hpos).ne'
    have hS0 : S ≠ 0 := fun h0 => hn (by rw [h0, Real.sqrt_zero])
    have hsum : HasFDerivAt (fun Y => ∑ k ∈ Finset.range dim, (e.den Y (dim * i + k)) ^ 2)
        (∑ k ∈ Finset.range dim, (2 * e.den X (dim * i + k)) • lin (e.ad X (dim * i + k)).g) X := by
      refine HasFDerivAt.fun_sum (fun k _ => ?_)
      have hk := ih hv hs.1 (dim * i + k)
      have h2 := hk.mul hk
      have hf : (fun Y => (e.den Y (dim * i + k)) ^ 2) = (fun Y => e.den Y (dim * i + k)) * (fun Y => e.den Y (dim * i + k)) := by
        funext Y; simp [pow_two]
      rw [hf]
      refine h2.congr_fderiv ?_
      ext Y
      simp
      ring
    have hsq := hsum.sqrt hS0
    refine hsq.congr_fderiv ?_
    rw [← hS]
    have hpos' : √S > l2tol := hpos
    simp only [if_pos hpos']
    have := lin_sum (Finset.range dim) (fun k => e.den X (dim * i + k) / √S) (fun k => (e.ad X (dim * i + k)).g)
    rw [this, Finset.smul_sum]
    refine Finset.sum_congr rfl (fun k _ => ?_)
    rw [smul_smul]
    congr 1
    field_simp
  | maximum e₁ e₂ ih₁ ih₂ =>
    intro i
    have h1 := ih₁ hv.1 hs.1 i
    have h2 := ih₂ hv.2 hs.2.1 i
    simp only [Expr.ad, Expr.den]
    rw [ad_val e₁ hv.1 X i, ad_val e₂ hv.2 X i]
    rcases lt_or_gt_of_ne (hs.2.2 i) with h | h
    · rw [if_pos h]
      refine h2.congr_of_eventuallyEq ?_
      filter_upwards [h1.continuousAt.eventually_lt h2.continuousAt h] with Y hY
      exact max_eq_right hY.le
    · rw [if_neg (not_lt.mpr h.le)]
      refine h1.congr_of_eventuallyEq ?_
      filter_upwards [h2.continuousAt.eventually_lt h1.continuousAt h] with Y hY
      exact max_eq_left hY.le


/-- a generated rule that is sound may be used at a node wherever its domain condition holds … -/
theorem Sound1.smooth_map1 {n : Nat} {r : Rule} {F : ℝ → ℝ → ℝ} {dom : ℝ → ℝ → Prop} (h : Sound1 r F dom)
    {e : Expr n} {X : Pt n} {c : ℕ → ℝ} (he : e.Smooth X) (hd : ∀ i, dom (e.den X i) (c i)) :
    (Expr.map1 r F c e).Smooth X :=
  ⟨he, fun i => h.deriv _ _ (hd i)⟩

theorem Sound1.valspec_map1 {n : Nat} {r : Rule} {F : ℝ → ℝ → ℝ} {dom : ℝ → ℝ → Prop} (h : Sound1 r F dom)
    {e : Expr n} {c : ℕ → ℝ} (he : e.ValSpec) : (Expr.map1 r F c e).ValSpec :=
  ⟨he, h.val⟩

theorem Sound2.smooth_map2 {n : Nat} {r : Rule} {F : ℝ → ℝ → ℝ} {dom : ℝ → ℝ → Prop} (h : Sound2 r F dom)
    {e₁ e₂ : Expr n} {X : Pt n} (h₁ : e₁.Smooth X) (h₂ : e₂.Smooth X) (hd : ∀ i, dom (e₁.den X i) (e₂.den X i)) :
    (Expr.map2 r F e₁ e₂).Smooth X :=
  ⟨h₁, h₂, fun i => h.deriv _ _ (hd i)⟩

theorem Sound2.valspec_map2 {n : Nat} {r : Rule} {F : ℝ → ℝ → ℝ} {dom : ℝ → ℝ → Prop} (h : Sound2 r F dom)
    {e₁ e₂ : Expr n} (h₁ : e₁.ValSpec) (h₂ : e₂.ValSpec) : (Expr.map2 r F e₁ e₂).ValSpec :=
  ⟨h₁, h₂, h.val⟩

/-! ### non-vacuity: domains are inhabited, and a concrete program built from generated rules -/

example : (0 : ℝ) < 2 ∧ Real.cos 0 ≠ 0 ∧ ((-1 : ℝ) < 1 / 2 ∧ (1 / 2 : ℝ) < 1) ∧ (1 : ℝ) < 2 ∧ (3 : ℝ) ≠ 0 ∧ |(3 : ℝ)| ≠ 1 := by
  refine ⟨by norm_num, by simp, ⟨by norm_num, by norm_num⟩, by norm_num, by norm_num, by norm_num⟩

/-- `log(x₀ * x₁) * sin(x₀) + 3` with rows taken from the generated rules -/
noncomputable def demo : Expr 2 :=
  .map1 Gen.add_S (fun x c => x + c) (fun _ => 3)
    (.map2 Gen.mul_Ad (fun x y => x * y)
      (.map1 Gen.log (fun x _ => Real.log x) (fun _ => 0)
        (.map2 Gen.mul_Ad (fun x y => x * y) (.var (fun _ => 0)) (.var (fun _ => 1))))
      (.map1 Gen.sin (fun x _ => Real.sin x) (fun _ => 0) (.var (fun _ => 0))))

example (X : Pt 2) (hX : 0 < X 0 * X 1) (i : ℕ) :
    (demo.ad X i).v = Real.log (X 0 * X 1) * Real.sin (X 0) + 3 ∧
    HasFDerivAt (fun Y : Pt 2 => Real.log (Y 0 * Y 1) * Real.sin (Y 0) + 3) (lin (demo.ad X i).g) X := by
  have hv : demo.ValSpec :=
    rule_sound_add_S.valspec_map1 (rule_sound_mul_Ad.valspec_map2
      (rule_sound_log.valspec_map1 (rule_sound_mul_Ad.valspec_map2 trivial trivial))
      (rule_sound_sin.valspec_map1 trivial))
  have h01 : (Expr.map2 Gen.mul_Ad (fun x y => x * y) (.var (fun _ => (0 : Fin 2))) (.var (fun _ => 1))).Smooth X :=
    rule_sound_mul_Ad.smooth_map2 trivial trivial (fun _ => trivial)
  have hs : demo.Smooth X :=
    rule_sound_add_S.smooth_map1 (rule_sound_mul_Ad.smooth_map2
      (rule_sound_log.smooth_map1 h01 (fun _ => hX))
      (rule_sound_sin.smooth_map1 trivial (fun _ => trivial)) (fun _ => trivial)) (fun _ => trivial)
  exact ⟨ad_val demo hv X i, ad_jac demo hv X hs i⟩

end PorepyVerif.C01
