/-
C01 — real-number semantics of the rule language and calculus helper lemmas.

`SExpr.evalR` is the second interpretation of `SExpr` (the first, `evalF`, is in Model.lean and is what the
driver executes).  `a ** b` is read as `Real.rpow`, which agrees with C `pow` wherever `pow` is finite
(positive base: any exponent; any base: integer-valued exponent, `Real.rpow_intCast`).
-/
import Mathlib.Analysis.SpecialFunctions.ExpDeriv
import Mathlib.Analysis.SpecialFunctions.Log.Deriv
import Mathlib.Analysis.SpecialFunctions.Trigonometric.Deriv
import Mathlib.Analysis.SpecialFunctions.Trigonometric.DerivHyp
import Mathlib.Analysis.SpecialFunctions.Trigonometric.ArctanDeriv
import Mathlib.Analysis.SpecialFunctions.Trigonometric.InverseDeriv
import Mathlib.Analysis.SpecialFunctions.Arsinh
import Mathlib.Analysis.SpecialFunctions.Arcosh
import Mathlib.Analysis.SpecialFunctions.Artanh
import Mathlib.Analysis.SpecialFunctions.Pow.Deriv
import Mathlib.Analysis.SpecialFunctions.Sqrt
import Mathlib.Analysis.Calculus.Deriv.Abs
import PorepyVerif.C01.Generated

namespace PorepyVerif.C01
open Real

/-- `np.sign` -/
noncomputable def signR (x : ℝ) : ℝ := if x < 0 then -1 else if 0 < x then 1 else 0

/-- `np.heaviside(x, z)` -/
noncomputable def heavisideR (x z : ℝ) : ℝ := if x < 0 then 0 else if x = 0 then z else 1

noncomputable def UFun.evalR : UFun → ℝ → ℝ
  | .exp, x => Real.exp x
  | .log, x => Real.log x
  | .sin, x => Real.sin x
  | .cos, x => Real.cos x
  | .tan, x => Real.tan x
  | .arcsin, x => Real.arcsin x
  | .arccos, x => Real.arccos x
  | .arctan, x => Real.arctan x
  | .sinh, x => Real.sinh x
  | .cosh, x => Real.cosh x
  | .tanh, x => Real.tanh x
  | .arcsinh, x => Real.arsinh x
  | .arccosh, x => Real.arcosh x
  | .arctanh, x => Real.artanh x
  | .abs, x => |x|
  | .sign, x => signR x
  | .sqrt, x => Real.sqrt x

noncomputable def SExpr.evalR : SExpr → List ℝ → ℝ
  | .var i, ρ => ρ.getD i 0
  | .const q, _ => (q : ℝ)
  | .pi, _ => Real.pi
  | .add a b, ρ => a.evalR ρ + b.evalR ρ
  | .sub a b, ρ => a.evalR ρ - b.evalR ρ
  | .mul a b, ρ => a.evalR ρ * b.evalR ρ
  | .div a b, ρ => a.evalR ρ / b.evalR ρ
  | .neg a, ρ => - a.evalR ρ
  | .pow a b, ρ => (a.evalR ρ) ^ (b.evalR ρ)
  | .un f a, ρ => f.evalR (a.evalR ρ)
  | .heaviside x z, ρ => heavisideR (x.evalR ρ) (z.evalR ρ)
  | .ifgt a b t e, ρ => if a.evalR ρ > b.evalR ρ then t.evalR ρ else e.evalR ρ

/-! ### what it means for a rule to be right -/

/-- A rule with a constant second operand / parameter `c` (python scalar, entry of a numpy array, `eps`, …):
    its value expression denotes `F · c` everywhere, and on `dom` its Jacobian factor is the derivative. -/
structure Sound1 (r : Rule) (F : ℝ → ℝ → ℝ) (dom : ℝ → ℝ → Prop) : Prop where
  val : ∀ x c, r.val.evalR [x, c] = F x c
  deriv : ∀ x c, dom x c → HasDerivAt (fun t => F t c) (r.dself.evalR [x, c]) x
  no_other : r.dother = none

/-- A rule combining two AdArrays: the two Jacobian factors are the partial derivatives, jointly
    (Fréchet derivative of `(x, y) ↦ F x y`). -/
structure Sound2 (r : Rule) (F : ℝ → ℝ → ℝ) (dom : ℝ → ℝ → Prop) : Prop where
  val : ∀ x y, r.val.evalR [x, y] = F x y
  deriv : ∀ x y, dom x y → HasFDerivAt (fun p : ℝ × ℝ => F p.1 p.2)
      (r.dself.evalR [x, y] • ContinuousLinearMap.fst ℝ ℝ ℝ
        + (r.dother.getD (.const 0)).evalR [x, y] • ContinuousLinearMap.snd ℝ ℝ ℝ) (x, y)
  has_other : r.dother.isSome = true

/-! ### helpers -/

theorem rpow_neg_half {x : ℝ} (hx : 0 ≤ x) : x ^ ((-1 : ℝ) / 2) = (√x)⁻¹ := by
  rw [Real.sqrt_eq_rpow, ← Real.rpow_neg hx]; norm_num

theorem rpow_neg_two (x : ℝ) : x ^ (-2 : ℝ) = (x ^ 2)⁻¹ := by
  have : (-2 : ℝ) = ((-2 : ℤ) : ℝ) := by norm_num
  rw [this, Real.rpow_intCast]; simp [zpow_neg]

theorem hasDerivAt_tanh (x : ℝ) : HasDerivAt Real.tanh ((Real.cosh x ^ 2)⁻¹) x := by
  have hc : Real.cosh x ≠ 0 := (Real.cosh_pos x).ne'
  have h := (Real.hasDerivAt_sinh x).div (Real.hasDerivAt_cosh x) hc
  have hf : Real.tanh = fun y => Real.sinh y / Real.cosh y := funext Real.tanh_eq_sinh_div_cosh
  rw [hf]
  have e : Real.cosh x * Real.cosh x - Real.sinh x * Real.sinh x = 1 := by nlinarith [Real.cosh_sq x]
  refine (show HasDerivAt (fun y => Real.sinh y / Real.cosh y) _ x from h).congr_deriv ?_
  rw [e, one_div]

theorem hasDerivAt_artanh {x : ℝ} (h1 : -1 < x) (h2 : x < 1) :
    HasDerivAt Real.artanh ((1 - x ^ 2)⁻¹) x := by
  have hp : (0 : ℝ) < 1 + x := by linarith
  have hm : (0 : ℝ) < 1 - x := by linarith
  have hq : (1 + x) / (1 - x) ≠ 0 := (div_pos hp hm).ne'
  have hd : HasDerivAt (fun y : ℝ => (1 + y) / (1 - y)) (((1 : ℝ) * (1 - x) - (1 + x) * (-1)) / (1 - x) ^ 2) x :=
    (((hasDerivAt_id x).const_add 1).div ((hasDerivAt_id x).const_sub 1) hm.ne')
  have hl := (hd.log hq).const_mul (1 / 2 : ℝ)
  have he : Real.artanh =ᶠ[nhds x] fun y => 1 / 2 * Real.log ((1 + y) / (1 - y)) := by
    have : Set.Ioo (-1 : ℝ) 1 ∈ nhds x := Ioo_mem_nhds h1 h2
    filter_upwards [this] with y hy
    exact Real.artanh_eq_half_log ⟨hy.1.le, hy.2.le⟩
  refine (hl.congr_of_eventuallyEq he).congr_deriv ?_
  have : (1 - x ^ 2) = (1 - x) * (1 + x) := by ring
  rw [this]
  field_simp
  ring

theorem hasDerivAt_signR_abs {x : ℝ} (hx : x ≠ 0) : HasDerivAt (fun t => |t|) (signR x) x := by
  have h := hasDerivAt_abs hx
  refine h.congr_deriv ?_
  unfold signR
  rcases lt_or_gt_of_ne hx with h | h
  · simp [h]
  · simp [h, not_lt.mpr h.le]

/-- a function that is locally constant around `x` has derivative 0 there -/
theorem hasDerivAt_of_eventually_const {f : ℝ → ℝ} {x k : ℝ} (h : f =ᶠ[nhds x] fun _ => k) :
    HasDerivAt f 0 x :=
  (hasDerivAt_const x k).congr_of_eventuallyEq h

theorem heavisideR_hasDerivAt {x z : ℝ} (hx : x ≠ 0) : HasDerivAt (fun t => heavisideR t z) 0 x := by
  rcases lt_or_gt_of_ne hx with h | h
  · apply hasDerivAt_of_eventually_const (k := 0)
    filter_upwards [Iio_mem_nhds h] with y hy
    simp [heavisideR, Set.mem_Iio.mp hy]
  · apply hasDerivAt_of_eventually_const (k := 1)
    filter_upwards [Ioi_mem_nhds h] with y hy
    have hy' : 0 < y := hy
    simp [heavisideR, not_lt.mpr hy'.le, hy'.ne']

end PorepyVerif.C01
