/-
C01 — real-number semantics of the rule language and calculus helper lemmas.

`SExpr.evalR` is the second interpretation of `SExpr` (the first, `evalF`, is in Model.lean and is what the
driver executes).  `a ** b` is read as `Real.rpow`, which agrees with C `pow` wherever `pow` is finite
(positive base: any exponent; any base: integer-valued exponent, `Real.rpow_intCast`).
-/
import Mathlib.Analysis.SpecialFunctions.ExpDeriv
import Mathlib.Analysis.SpecialFunctions.Log.Deriv
import Mathlib.Analysis.SpecialFunctions.Trigonometric.Deriv
import Mathlib.Analysis.SpecialFunctions.Trigonometric.DerivHyp
import Mathlib.Analysis.SpecialFunctions.Trigonometric.ArctanDeriv
import Mathlib.Analysis.SpecialFunctions.Trigonometric.InverseDeriv
import Mathlib.Analysis.SpecialFunctions.Arsinh
import Mathlib.Analysis.SpecialFunctions.Arcosh
import Mathlib.Analysis.SpecialFunctions.Artanh
import Mathlib.Analysis.SpecialFunctions.Pow.Deriv
import Mathlib.Analysis.SpecialFunctions.Sqrt
import Mathlib.Analysis.Calculus.Deriv.Abs
import Mathlib.Analysis.Calculus.FDeriv.Pi
import PorepyVerif.C01.Model

set_option linter.unusedSimpArgs false
namespace PorepyVerif.C01
open Real

/-- `np.sign` -/
noncomputable def signR (x : ℝ) : ℝ := if x < 0 then -1 else if 0 < x then 1 else 0

/-- `np.heaviside(x, z)` -/
noncomputable def heavisideR (x z : ℝ) : ℝ := if x < 0 then 0 else if x = 0 then z else 1

noncomputable def UFun.evalR : UFun → ℝ → ℝ
  | .exp, x => Real.exp x
  | .log, x => Real.log x
  | .sin, x => Real.sin x
  | .cos, x => Real.cos x
  | .tan, x => Real.tan x
  | .arcsin, x => Real.arcsin x
  | .arccos, x => Real.arccos x
  | .arctan, x => Real.arctan x
  | .sinh, x => Real.sinh x
  | .cosh, x => Real.cosh x
  | .tanh, x => Real.tanh x
  | .arcsinh, x => Real.arsinh x
  | .arccosh, x => Real.arcosh x
  | .arctanh, x => Real.artanh x
  | .abs, x => |x|
  | .sign, x => signR x
  | .sqrt, x => Real.sqrt x

noncomputable def SExpr.evalR : SExpr → List ℝ → ℝ
  | .var i, ρ => ρ.getD i 0
  | .const q, _ => (q : ℝ)
  | .pi, _ => Real.pi
  | .add a b, ρ => a.evalR ρ + b.evalR ρ
  | .sub a b, ρ => a.evalR ρ - b.evalR ρ
  | .mul a b, ρ => a.evalR ρ * b.evalR ρ
  | .div a b, ρ => a.evalR ρ / b.evalR ρ
  | .neg a, ρ => - a.evalR ρ
  | .pow a b, ρ => (a.evalR ρ) ^ (b.evalR ρ)
  | .un f a, ρ => f.evalR (a.evalR ρ)
  | .heaviside x z, ρ => heavisideR (x.evalR ρ) (z.evalR ρ)
  | .ifgt a b t e, ρ => if a.evalR ρ > b.evalR ρ then t.evalR ρ else e.evalR ρ

/-! ### what it means for a rule to be right -/

/-- A rule with a constant second operand / parameter `c` (python scalar, entry of a numpy array, `eps`, …):
    its value expression denotes `F · c` everywhere, and on `dom` its Jacobian factor is the derivative. -/
structure Sound1 (r : Rule) (F : ℝ → ℝ → ℝ) (dom : ℝ → ℝ → Prop) : Prop where
  val : ∀ x c, r.val.evalR [x, c] = F x c
  deriv : ∀ x c, dom x c → HasDerivAt (fun t => F t c) (r.dself.evalR [x, c]) x
  no_other : r.dother = none

/-- A rule combining two AdArrays: the two Jacobian factors are the partial derivatives, jointly
    (Fréchet derivative of `(x, y) ↦ F x y`). -/
structure Sound2 (r : Rule) (F : ℝ → ℝ → ℝ) (dom : ℝ → ℝ → Prop) : Prop where
  val : ∀ x y, r.val.evalR [x, y] = F x y
  deriv : ∀ x y, dom x y → HasFDerivAt (fun p : ℝ × ℝ => F p.1 p.2)
      (r.dself.evalR [x, y] • ContinuousLinearMap.fst ℝ ℝ ℝ
        + (r.dother.getD (.const 0)).evalR [x, y] • ContinuousLinearMap.snd ℝ ℝ ℝ) (x, y)
  has_other : r.dother.isSome = true

/-! ### helpers -/

theorem rpow_neg_half {x : ℝ} (hx : 0 ≤ x) : x ^ ((-1 : ℝ) / 2) = (√x)⁻¹ := by
  rw [Real.sqrt_eq_rpow, ← Real.rpow_neg hx]; norm_num

theorem rpow_neg_two (x : ℝ) : x ^ (-2 : ℝ) = (x ^ 2)⁻¹ := by
  have : (-2 : ℝ) = ((-2 : ℤ) : ℝ) := by norm_num
  rw [this, Real.rpow_intCast]; simp [zpow_neg]

theorem hasDerivAt_tanh (x : ℝ) : HasDerivAt Real.tanh ((Real.cosh x ^ 2)⁻¹) x := by
  have hc : Real.cosh x ≠ 0 := (Real.cosh_pos x).ne'
  have h := (Real.hasDerivAt_sinh x).div (Real.hasDerivAt_cosh x) hc
  have hf : Real.tanh = fun y => Real.sinh y / Real.cosh y := funext Real.tanh_eq_sinh_div_cosh
  rw [hf]
  have e : Real.cosh x * Real.cosh x - Real.sinh x * Real.sinh x = 1 := by nlinarith [Real.cosh_sq x]
  refine (show HasDerivAt (fun y => Real.sinh y / Real.cosh y) _ x from h).congr_deriv ?_
  rw [e, one_div]

theorem hasDerivAt_artanh {x : ℝ} (h1 : -1 < x) (h2 : x < 1) :
    HasDerivAt Real.artanh ((1 - x ^ 2)⁻¹) x := by
  have hp : (0 : ℝ) < 1 + x := by linarith
  have hm : (0 : ℝ) < 1 - x := by linarith
  have hq : (1 + x) / (1 - x) ≠ 0 := (div_pos hp hm).ne'
  have hd : HasDerivAt (fun y : ℝ => (1 + y) / (1 - y)) (((1 : ℝ) * (1 - x) - (1 + x) * (-1)) / (1 - x) ^ 2) x :=
    (((hasDerivAt_id x).const_add 1).div ((hasDerivAt_id x).const_sub 1) hm.ne')
  have hl := (hd.log hq).const_mul (1 / 2 : ℝ)
  have he : Real.artanh =ᶠ[nhds x] fun y => 1 / 2 * Real.log ((1 + y) / (1 - y)) := by
    have : Set.Ioo (-1 : ℝ) 1 ∈ nhds x := Ioo_mem_nhds h1 h2
    filter_upwards [this] with y hy
    exact Real.artanh_eq_half_log ⟨hy.1.le, hy.2.le⟩
  refine (hl.congr_of_eventuallyEq he).congr_deriv ?_
  have : (1 - x ^ 2) = (1 - x) * (1 + x) := by ring
  rw [this]
  field_simp
  ring

theorem hasDerivAt_signR_abs {x : ℝ} (hx : x ≠ 0) : HasDerivAt (fun t => |t|) (signR x) x := by
  have h := hasDerivAt_abs hx
  refine h.congr_deriv ?_
  unfold signR
  rcases lt_or_gt_of_ne hx with h | h
  · simp [h]
  · simp [h, not_lt.mpr h.le]

/-- a function that is locally constant around `x` has derivative 0 there -/
theorem hasDerivAt_of_eventually_const {f : ℝ → ℝ} {x k : ℝ} (h : f =ᶠ[nhds x] fun _ => k) :
    HasDerivAt f 0 x :=
  (hasDerivAt_const x k).congr_of_eventuallyEq h

theorem heavisideR_hasDerivAt {x z : ℝ} (hx : x ≠ 0) : HasDerivAt (fun t => heavisideR t z) 0 x := by
  rcases lt_or_gt_of_ne hx with h | h
  · apply hasDerivAt_of_eventually_const (k := 0)
    filter_upwards [Iio_mem_nhds h] with y hy
    simp [heavisideR, Set.mem_Iio.mp hy]
  · apply hasDerivAt_of_eventually_const (k := 1)
    filter_upwards [Ioi_mem_nhds h] with y hy
    have hy' : 0 < y := hy
    simp [heavisideR, not_lt.mpr hy'.le, hy'.ne']

theorem fderiv2_of {F : ℝ → ℝ → ℝ} {G : ℝ × ℝ → ℝ} {L : ℝ × ℝ →L[ℝ] ℝ} {x y a b : ℝ}
    (h : HasFDerivAt G L (x, y)) (hG : ∀ p : ℝ × ℝ, F p.1 p.2 = G p) (ha : L (1, 0) = a) (hb : L (0, 1) = b) :
    HasFDerivAt (fun p : ℝ × ℝ => F p.1 p.2)
      (a • ContinuousLinearMap.fst ℝ ℝ ℝ + b • ContinuousLinearMap.snd ℝ ℝ ℝ) (x, y) := by
  have hf : (fun p : ℝ × ℝ => F p.1 p.2) = G := funext hG
  rw [hf]
  refine h.congr_fderiv ?_
  ext
  · simp [ha]
  · simp [hb]

/-! ### AD programs on vectors over ℝ

Rows are indexed by `ℕ` (an AdArray of size m uses rows 0..m-1; size bookkeeping and the size errors of the
code are part of the Float model `Tree.evalF`, not of the calculus statement).  The independent variables are
`X : Fin n → ℝ` (all variables of `initAdArrays` jointly).  Programs may SHARE results: `ref j` is the j-th
result computed before (let-binding, evaluated once); expressions are evaluated in an environment of such
results. -/

abbrev Pt (n : Nat) := Fin n → ℝ

/-- a Jacobian row read as a linear functional -/
noncomputable def lin {n : Nat} (g : Fin n → ℝ) : Pt n →L[ℝ] ℝ :=
  ∑ j, g j • ContinuousLinearMap.proj (R := ℝ) (φ := fun _ : Fin n => ℝ) j

theorem lin_apply {n : Nat} (g : Fin n → ℝ) (Y : Pt n) : lin g Y = ∑ j, g j * Y j := by
  simp [lin, sum_apply]

theorem lin_single {n : Nat} (k : Fin n) :
    lin (Pi.single k (1 : ℝ)) = ContinuousLinearMap.proj (R := ℝ) (φ := fun _ : Fin n => ℝ) k := by
  ext Y
  simp [lin_apply, Pi.single_apply]

theorem lin_zero {n : Nat} : lin (fun _ : Fin n => (0 : ℝ)) = 0 := by
  ext Y; simp [lin_apply]

theorem lin_smul {n : Nat} (d : ℝ) (g : Fin n → ℝ) : lin (fun j => d * g j) = d • lin g := by
  ext Y; simp [lin_apply, Finset.mul_sum, mul_assoc]

theorem lin_add_smul {n : Nat} (d₁ d₂ : ℝ) (g h : Fin n → ℝ) :
    lin (fun j => d₁ * g j + d₂ * h j) = d₁ • lin g + d₂ • lin h := by
  ext Y; simp [lin_apply, Finset.mul_sum, mul_assoc, add_mul, Finset.sum_add_distrib]

theorem lin_sum {n : Nat} {ι : Type} (s : Finset ι) (m : ι → ℝ) (g : ι → Fin n → ℝ) :
    lin (fun j => ∑ k ∈ s, m k * g k j) = ∑ k ∈ s, m k • lin (g k) := by
  ext Y
  simp [lin_apply, sum_apply, Finset.mul_sum, Finset.sum_mul, mul_assoc]
  rw [Finset.sum_comm]

/-- one row of an AdArray: value and gradient -/
structure Dual (n : Nat) where
  v : ℝ
  g : Fin n → ℝ

/-- `tol = 1e-12` of `l2_norm` (the binary64 number) -/
noncomputable def l2tol : ℝ := (4951760157141521 : ℝ) / 4951760157141521099596496896

/-- Euclidean norm of one group, as `np.linalg.norm` computes it -/
noncomputable def norm2 {d : ℕ} (y : Fin d → ℝ) : ℝ := √(∑ k, y k ^ 2)

inductive Expr (n : Nat) where
  /-- an AdArray of `initAdArrays` (or any row selection of the identity): row i is the variable `idx i` -/
  | var (idx : ℕ → Fin n)
  /-- the j-th shared result (the SAME AdArray object used again) -/
  | ref (j : ℕ)
  /-- row-wise rule `r` with constant operand or parameter `c i` (python scalar: `c` constant; numpy array: its
      entries); `F` = what the operation means on numbers.  Also `maximum` with a constant operand. -/
  | map1 (r : Rule) (F : ℝ → ℝ → ℝ) (c : ℕ → ℝ) (e : Expr n)
  /-- row-wise rule between two AdArrays (arithmetic, `maximum`) -/
  | map2 (r : Rule) (F : ℝ → ℝ → ℝ) (e₁ e₂ : Expr n)
  /-- `M @ e` for a (sparse) matrix with `cols` columns -/
  | matmul (M : ℕ → ℕ → ℝ) (cols : ℕ) (e : Expr n)
  /-- `e[key]`, `idx` = the rows selected -/
  | slice (idx : ℕ → ℕ) (e : Expr n)
  /-- `l2_norm(dim, e)`, dim ≥ 2 branch, with the generated rule -/
  | l2norm (r : NormRule) (dim : ℕ) (e : Expr n)

/-- plain evaluation (what numpy computes for the same expression); `ρ j` = value of the j-th shared result -/
noncomputable def Expr.den {n : Nat} : Expr n → (ℕ → ℕ → ℝ) → Pt n → ℕ → ℝ
  | .var idx, _, X, i => X (idx i)
  | .ref j, ρ, _, i => ρ j i
  | .map1 _ F c e, ρ, X, i => F (e.den ρ X i) (c i)
  | .map2 _ F e₁ e₂, ρ, X, i => F (e₁.den ρ X i) (e₂.den ρ X i)
  | .matmul M cols e, ρ, X, i => ∑ k ∈ Finset.range cols, M i k * e.den ρ X k
  | .slice idx e, ρ, X, i => e.den ρ X (idx i)
  | .l2norm _ dim e, ρ, X, i => norm2 (fun k : Fin dim => e.den ρ X (dim * i + k))

/-- forward-mode evaluation as the code does it: values by the rules' value expressions, Jacobian rows by
    `diag(dself) @ jac (+ diag(dother) @ other.jac)`, `M @ jac`, row selection, `norm_jac * jac`;
    `σ j` = the j-th shared AdArray. -/
noncomputable def Expr.ad {n : Nat} : Expr n → (ℕ → ℕ → Dual n) → Pt n → ℕ → Dual n
  | .var idx, _, X, i => ⟨X (idx i), Pi.single (idx i) 1⟩
  | .ref j, σ, _, i => σ j i
  | .map1 r _ c e, σ, X, i =>
      let d := e.ad σ X i
      ⟨r.val.evalR [d.v, c i], fun j => r.dself.evalR [d.v, c i] * d.g j⟩
  | .map2 r _ e₁ e₂, σ, X, i =>
      let a := e₁.ad σ X i
      let b := e₂.ad σ X i
      ⟨r.val.evalR [a.v, b.v],
       fun j => r.dself.evalR [a.v, b.v] * a.g j + (r.dother.getD (.const 0)).evalR [a.v, b.v] * b.g j⟩
  | .matmul M cols e, σ, X, i =>
      ⟨∑ k ∈ Finset.range cols, M i k * (e.ad σ X k).v, fun j => ∑ k ∈ Finset.range cols, M i k * (e.ad σ X k).g j⟩
  | .slice idx e, σ, X, i => e.ad σ X (idx i)
  | .l2norm r dim e, σ, X, i =>
      let S := ∑ k : Fin dim, ((e.ad σ X (dim * i + k)).v) ^ 2
      ⟨r.val.evalR [0, S], fun j => ∑ k : Fin dim, r.coef.evalR [(e.ad σ X (dim * i + k)).v, S] * (e.ad σ X (dim * i + k)).g j⟩

/-- every rule's value expression means the operation attached to the node (a property of the tree alone) -/
def Expr.ValSpec {n : Nat} : Expr n → Prop
  | .var _ => True
  | .ref _ => True
  | .map1 r F _ e => e.ValSpec ∧ ∀ x c, r.val.evalR [x, c] = F x c
  | .map2 r F e₁ e₂ => e₁.ValSpec ∧ e₂.ValSpec ∧ ∀ x y, r.val.evalR [x, y] = F x y
  | .matmul _ _ e => e.ValSpec
  | .slice _ e => e.ValSpec
  | .l2norm r _ e => e.ValSpec ∧ ∀ x S, r.val.evalR [x, S] = √S

/-- at the point `X` every rule application is at a point where its Jacobian factor(s) are the derivative of
    the node's operation (provided by the `rule_sound_*` theorems on the rule's domain) -/
def Expr.Smooth {n : Nat} : Expr n → (ℕ → ℕ → ℝ) → Pt n → Prop
  | .var _, _, _ => True
  | .ref _, _, _ => True
  | .map1 r F c e, ρ, X => e.Smooth ρ X ∧
      ∀ i, HasDerivAt (fun t => F t (c i)) (r.dself.evalR [e.den ρ X i, c i]) (e.den ρ X i)
  | .map2 r F e₁ e₂, ρ, X => e₁.Smooth ρ X ∧ e₂.Smooth ρ X ∧
      ∀ i, HasFDerivAt (fun p : ℝ × ℝ => F p.1 p.2)
        (r.dself.evalR [e₁.den ρ X i, e₂.den ρ X i] • ContinuousLinearMap.fst ℝ ℝ ℝ
          + (r.dother.getD (.const 0)).evalR [e₁.den ρ X i, e₂.den ρ X i] • ContinuousLinearMap.snd ℝ ℝ ℝ)
        (e₁.den ρ X i, e₂.den ρ X i)
  | .matmul _ _ e, ρ, X => e.Smooth ρ X
  | .slice _ e, ρ, X => e.Smooth ρ X
  | .l2norm r dim e, ρ, X => e.Smooth ρ X ∧
      ∀ i, HasFDerivAt (norm2 (d := dim))
        (∑ k : Fin dim, r.coef.evalR [e.den ρ X (dim * i + k), ∑ k' : Fin dim, (e.den ρ X (dim * i + k')) ^ 2]
          • ContinuousLinearMap.proj (R := ℝ) (φ := fun _ : Fin dim => ℝ) k)
        (fun k : Fin dim => e.den ρ X (dim * i + k))

/-! ### programs with shared results: `lets[0]; lets[1]; …; body`, every result computed once -/

structure Prog (n : Nat) where
  lets : List (Expr n)
  body : Expr n

/-- values of the shared results after running `ds` (the k-th result so far goes to slot k) -/
noncomputable def envDen {n : Nat} (X : Pt n) : List (Expr n) → ℕ → (ℕ → ℕ → ℝ) → (ℕ → ℕ → ℝ)
  | [], _, ρ => ρ
  | d :: ds, k, ρ => envDen X ds (k + 1) (Function.update ρ k (d.den ρ X))

noncomputable def envAd {n : Nat} (X : Pt n) : List (Expr n) → ℕ → (ℕ → ℕ → Dual n) → (ℕ → ℕ → Dual n)
  | [], _, σ => σ
  | d :: ds, k, σ => envAd X ds (k + 1) (Function.update σ k (d.ad σ X))

def letsSmooth {n : Nat} (X : Pt n) : List (Expr n) → ℕ → (ℕ → ℕ → ℝ) → Prop
  | [], _, _ => True
  | d :: ds, k, ρ => d.Smooth ρ X ∧ letsSmooth X ds (k + 1) (Function.update ρ k (d.den ρ X))

noncomputable def Prog.env0 : ℕ → ℕ → ℝ := fun _ _ => 0
noncomputable def Prog.envAd0 (n : Nat) : ℕ → ℕ → Dual n := fun _ _ => ⟨0, fun _ => 0⟩

noncomputable def Prog.den {n : Nat} (p : Prog n) (X : Pt n) (i : ℕ) : ℝ :=
  p.body.den (envDen X p.lets 0 Prog.env0) X i

noncomputable def Prog.ad {n : Nat} (p : Prog n) (X : Pt n) (i : ℕ) : Dual n :=
  p.body.ad (envAd X p.lets 0 (Prog.envAd0 n)) X i

def Prog.ValSpec {n : Nat} (p : Prog n) : Prop := (∀ d ∈ p.lets, d.ValSpec) ∧ p.body.ValSpec

def Prog.Smooth {n : Nat} (p : Prog n) (X : Pt n) : Prop :=
  letsSmooth X p.lets 0 Prog.env0 ∧ p.body.Smooth (envDen X p.lets 0 Prog.env0) X

/-- substitution of closed expressions for the shared results (what the Float model and the harness do) -/
def Expr.subst {n : Nat} (L : ℕ → Expr n) : Expr n → Expr n
  | .var idx => .var idx
  | .ref j => L j
  | .map1 r F c e => .map1 r F c (e.subst L)
  | .map2 r F e₁ e₂ => .map2 r F (e₁.subst L) (e₂.subst L)
  | .matmul M cols e => .matmul M cols (e.subst L)
  | .slice idx e => .slice idx (e.subst L)
  | .l2norm r dim e => .l2norm r dim (e.subst L)

/-! ### smooth-domain conditions as data (`Dom`, Model.lean), real reading -/

def Dom.holdsR : Dom → ℝ → ℝ → Prop
  | .all, _, _ => True
  | .pos, x, _ => 0 < x
  | .xne0, x, _ => x ≠ 0
  | .cne0, _, c => c ≠ 0
  | .cpos, _, c => 0 < c
  | .absLt1, x, _ => -1 < x ∧ x < 1
  | .gt1, x, _ => 1 < x
  | .cosNe0, x, _ => Real.cos x ≠ 0
  | .powC, x, c => x ≠ 0 ∨ 1 ≤ c
  | .absNeC, x, c => |x| ≠ c
  | .neC, x, c => x ≠ c
  | .safePow, _, _ => False   -- three parameters, see `rule_sound_safe_power`; not a node of `Expr`
  | .never, _, _ => False

/-- a table entry: rule as generated, the operation it stands for, its domain condition -/
abbrev Entry := Rule × (ℝ → ℝ → ℝ) × Dom

/-- Every rule node is an entry of the (verified) tables and the values arriving at it satisfy the entry's domain
    condition; every `l2_norm` group is above the tolerance.  Only inequalities between numbers computed from the
    input point — what `Tree.domF` evaluates in the driver. -/
def Expr.InDom {n : Nat} (T1 T2 : List Entry) (NR : NormRule) : Expr n → (ℕ → ℕ → ℝ) → Pt n → Prop
  | .var _, _, _ => True
  | .ref _, _, _ => True
  | .map1 r F c e, ρ, X => e.InDom T1 T2 NR ρ X ∧ ∃ d, (r, F, d) ∈ T1 ∧ ∀ i, d.holdsR (e.den ρ X i) (c i)
  | .map2 r F e₁ e₂, ρ, X => e₁.InDom T1 T2 NR ρ X ∧ e₂.InDom T1 T2 NR ρ X ∧
      ∃ d, (r, F, d) ∈ T2 ∧ ∀ i, d.holdsR (e₁.den ρ X i) (e₂.den ρ X i)
  | .matmul _ _ e, ρ, X => e.InDom T1 T2 NR ρ X
  | .slice _ e, ρ, X => e.InDom T1 T2 NR ρ X
  | .l2norm r dim e, ρ, X => e.InDom T1 T2 NR ρ X ∧ r = NR ∧
      ∀ i, l2tol < norm2 (fun k : Fin dim => e.den ρ X (dim * i + k))

def letsInDom {n : Nat} (T1 T2 : List Entry) (NR : NormRule) (X : Pt n) : List (Expr n) → ℕ → (ℕ → ℕ → ℝ) → Prop
  | [], _, _ => True
  | d :: ds, k, ρ => d.InDom T1 T2 NR ρ X ∧ letsInDom T1 T2 NR X ds (k + 1) (Function.update ρ k (d.den ρ X))

def Prog.InDom {n : Nat} (T1 T2 : List Entry) (NR : NormRule) (p : Prog n) (X : Pt n) : Prop :=
  letsInDom T1 T2 NR X p.lets 0 Prog.env0 ∧ p.body.InDom T1 T2 NR (envDen X p.lets 0 Prog.env0) X

end PorepyVerif.C01
