import PorepyVerif.C01.Props
#print axioms PorepyVerif.C01.lib_rules_sound
#print axioms PorepyVerif.C01.arith_rules_sound
#print axioms PorepyVerif.C01.rule_sound_safe_power
#print axioms PorepyVerif.C01.safe_power_generated_known
#print axioms PorepyVerif.C01.safe_power_as_found_unsound
#print axioms PorepyVerif.C01.rules_covered
#print axioms PorepyVerif.C01.raising_table
#print axioms PorepyVerif.C01.lib_plain_eq_val
#print axioms PorepyVerif.C01.ad_val
#print axioms PorepyVerif.C01.ad_jac
