/-
C47 — executable model of the RECORD layer of porepy's fracture-network csv files and txt data files
(core Lean only).

Anchors (in /repo/src/porepy):
  fracs/fracture_network_2d.py  FractureNetwork2d.__init__ (point/edge table), to_csv
  fracs/utils.py                linefractures_to_pts_edges, pts_edges_to_linefractures
  fracs/fracture_importer.py    network_2d_from_csv, network_3d_from_csv
  fracs/fracture_network_3d.py  FractureNetwork3d.to_csv
  utils/txt_io.py               export_data_to_txt, read_data_from_txt

The text layer (how one number becomes one token and back) is abstract: a codec `enc/dec` between
values `V` and tokens `T`.  A file is a list of lines; a line is a comment (starts with `#`) or a list
of tokens (the empty list is a blank line).  Geometric predicates that involve the tolerance
(`close`: np.allclose inside the point table of the network, `near`: uniquify_point_set,
`degen`: the LineFracture constructor's np.isclose test) and the PlaneFracture constructor (`norm`)
are parameters of the model; the driver instantiates them over `Rat`.
-/
namespace PorepyVerif.C47

/-- error kinds of the real code that the record layer can produce -/
inductive Err
  | value | index | stopIteration | decode
  deriving DecidableEq, Repr

inductive Line (T : Type) where
  | comment : String → Line T
  | data : List T → Line T

/-- token codec: `enc` numbers (str(float), or a `%`-format), `encIdx` the fracture id written by
    `to_csv` (str(int)), `dec` what the reader's float parser returns -/
structure Codec (V T : Type) where
  enc : V → T
  dec : T → Option V
  encIdx : Nat → T

/-- the few numeric operations the readers perform on values -/
structure Num (V : Type) where
  lt : V → V → Bool        -- order (np.unique of fracture ids, bounding box)
  toIdx : V → Int          -- `.astype(int)`
  ofIdx : Nat → V          -- the value a written index is read back as

/-- The codec hypothesis: decoding an encoded value gives the value back. -/
structure Faithful {V T : Type} (c : Codec V T) (n : Num V) : Prop where
  dec_enc : ∀ v, c.dec (c.enc v) = some v
  dec_encIdx : ∀ k, c.dec (c.encIdx k) = some (n.ofIdx k)
  toIdx_ofIdx : ∀ k, n.toIdx (n.ofIdx k) = (k : Int)

/-! ### small list helpers (explicit structural recursion; `Except` handled by explicit matches) -/

def mapE {α β : Type} (f : α → Except Err β) : List α → Except Err (List β)
  | [] => .ok []
  | a :: as =>
    match f a with
    | .error e => .error e
    | .ok b =>
      match mapE f as with
      | .error e => .error e
      | .ok bs => .ok (b :: bs)

/-- numpy fancy indexing with a non-negative index: out of range is `IndexError` -/
def getE {α : Type} (l : List α) (i : Nat) : Except Err α :=
  match l[i]? with
  | some x => .ok x
  | none => .error .index

def sameLen {α : Type} : List (List α) → Bool
  | [] => true
  | r :: rs => rs.all (fun s => s.length == r.length)

def decodeWith {V T : Type} (dec : T → Option V) (e : Err) (cs : List T) : Except Err (List V) :=
  mapE (fun t => match dec t with
    | some v => .ok v
    | none => .error e) cs

def decodeRow {V T : Type} (c : Codec V T) (e : Err) (cs : List T) : Except Err (List V) :=
  decodeWith c.dec e cs

/-- index of the first element satisfying `f` (`list.index(True)` / `np.argmax` of a mask) -/
def firstIdx {P : Type} (f : P → Bool) : List P → Option Nat
  | [] => none
  | x :: xs => if f x then some 0 else (firstIdx f xs).map (· + 1)

/-- Greedy point table: every point is mapped to the first table entry it is `rel`-related to, or
    appended.  This is `linefractures_to_pts_edges` (rel = allclose) and, for point sets on which
    `rel` is transitive, `uniquify_point_set` (first-encountered representatives, first-encountered
    order).  Returns the table and, per input point, its index in the table. -/
def greedy {P : Type} (rel : P → P → Bool) (reps : List P) : List P → List P × List Nat
  | [] => (reps, [])
  | p :: ps =>
    match firstIdx (fun x => rel x p) reps with
    | some i => ((greedy rel reps ps).1, i :: (greedy rel reps ps).2)
    | none => ((greedy rel (reps ++ [p]) ps).1, reps.length :: (greedy rel (reps ++ [p]) ps).2)

/-! ### 2-D networks -/

abbrev Pt2 (V : Type) := V × V

structure Frac2 (V : Type) where
  a : Pt2 V
  b : Pt2 V
  tags : List Int

structure Box2 (V : Type) where
  xmin : V
  xmax : V
  ymin : V
  ymax : V

structure Net2 (V : Type) where
  fracs : List (Frac2 V)
  domain : Option (Box2 V)
  fracIds : List Int

def endpoints {V : Type} : List (Frac2 V) → List (Pt2 V)
  | [] => []
  | f :: fs => f.a :: f.b :: endpoints fs

def pairIdx : List Nat → List (Nat × Nat)
  | i :: j :: r => (i, j) :: pairIdx r
  | _ => []

def header2 : String := "# FID,START_X,START_Y,END_X,END_Y"

/-- the row loop of `FractureNetwork2d.to_csv`: `[edge_id, *pts[:, e0], *pts[:, e1]]` -/
def rows2 {V T : Type} (c : Codec V T) (pts : List (Pt2 V)) : Nat → List (Nat × Nat) → Except Err (List (Line T))
  | _, [] => .ok []
  | k, e :: es =>
    match getE pts e.1 with
    | .error x => .error x
    | .ok p =>
      match getE pts e.2 with
      | .error x => .error x
      | .ok q =>
        match rows2 c pts (k + 1) es with
        | .error x => .error x
        | .ok rest => .ok (.data [c.encIdx k, c.enc p.1, c.enc p.2, c.enc q.1, c.enc q.2] :: rest)

/-- `FractureNetwork2d(fractures, tol)` followed by `to_csv(with_header)`: the network keeps a point
    table `_pts` and index pairs `_edges` built greedily with `close`; the file is written from
    that table. -/
def write2d {V T : Type} (c : Codec V T) (close : Pt2 V → Pt2 V → Bool) (fs : List (Frac2 V))
    (withHeader : Bool) : Except Err (List (Line T)) :=
  match rows2 c (greedy close [] (endpoints fs)).1 0 (pairIdx (greedy close [] (endpoints fs)).2) with
  | .error x => .error x
  | .ok rows => .ok (if withHeader then .comment header2 :: rows else rows)

/-- options of `network_2d_from_csv` (`return_frac_id` is always on in the model) -/
structure Opts2 (V : Type) where
  skipHeader : Nat
  tagcols : Option (List Nat)
  maxNumFracs : Option Nat
  polyline : Bool
  domain : Option (Box2 V)

/-- what `np.genfromtxt` keeps of a line: comments and blank lines are dropped -/
def cellsOf {T : Type} : Line T → Option (List T)
  | .comment _ => none
  | .data [] => none
  | .data cs => some cs

def pairUp {V : Type} : List V → Except Err (List (Pt2 V))
  | [] => .ok []
  | [_] => .error .value
  | x :: y :: r =>
    match pairUp r with
    | .error e => .error e
    | .ok ps => .ok ((x, y) :: ps)

/-- `np.setdiff1d(np.arange(1, num_data), tagcols)` -/
def ptCols (numData : Nat) (tagcols : Option (List Nat)) : List Nat :=
  (List.range numData).filter (fun j => decide (1 ≤ j) && match tagcols with
    | none => true
    | some tc => !(tc.contains j))

def minV {V : Type} (n : Num V) (a b : V) : V := if n.lt b a then b else a
def maxV {V : Type} (n : Num V) (a b : V) : V := if n.lt a b then b else a

/-- `bounding_box_of_point_cloud(pts, overlap = 0)`; `none` = ValueError on an empty cloud -/
def bbox2 {V : Type} (n : Num V) : List (Pt2 V) → Option (Box2 V)
  | [] => none
  | p :: ps => some (ps.foldl (fun b q =>
      { xmin := minV n b.xmin q.1, xmax := maxV n b.xmax q.1,
        ymin := minV n b.ymin q.2, ymax := maxV n b.ymax q.2 }) ⟨p.1, p.1, p.2, p.2⟩)

/-- edges `(2i, 2i+1)` plus the tag columns of row i (non-polyline branch) -/
def seqEdges : Nat → List (List Int) → List (Nat × Nat × List Int)
  | _, [] => []
  | k, t :: ts => (k, k + 1, t) :: seqEdges (k + 2) ts

/-- insertion of a value in an ascending duplicate-free list (np.unique) -/
def insertU {V : Type} [DecidableEq V] (n : Num V) (v : V) : List V → List V
  | [] => [v]
  | a :: l => if v = a then a :: l else if n.lt v a then v :: a :: l else a :: insertU n v l

def uniqueSorted {V : Type} [DecidableEq V] (n : Num V) : List V → List V
  | [] => []
  | v :: l => insertU n v (uniqueSorted n l)

def positions {V : Type} [DecidableEq V] (v : V) : List V → Nat → List Nat
  | [], _ => []
  | a :: l, k => if a = v then k :: positions v l (k + 1) else positions v l (k + 1)

/-- the per-fracture block of the polyline branch -/
def polyBlock {V : Type} (fi : V) (ind : List Nat) : Except Err (List ((Nat × Nat × List Int) × V)) :=
  match ind with
  | [] => .error .value
  | [_] => .error .value
  | [i, j] => .ok [((i, j, []), fi)]
  | i :: j :: rest =>
    let l := (j :: rest).getLast?.getD j
    -- start = pt_ind[ind[0] : ind[-1]], end = pt_ind[ind[1] : ind[-1] + 1]; vstack needs equal lengths
    if l - i = l + 1 - j then
      .ok ((List.range (l - i)).map (fun d => ((i + d, j + d, []), fi)))
    else .error .value

def polyEdges {V : Type} [DecidableEq V] (n : Num V) (ids : List V) :
    Except Err (List ((Nat × Nat × List Int) × V)) :=
  match mapE (fun fi => polyBlock fi (positions fi ids 0)) (uniqueSorted n ids) with
  | .error e => .error e
  | .ok bs => .ok bs.flatten

/-- `pts_edges_to_linefractures` for one edge; `degen` is the LineFracture constructor's check -/
def mkFrac {V : Type} (degen : Pt2 V → Pt2 V → Bool) (U : List (Pt2 V)) (e : Nat × Nat × List Int) :
    Except Err (Frac2 V) :=
  match getE U e.1 with
  | .error x => .error x
  | .ok p =>
    match getE U e.2.1 with
    | .error x => .error x
    | .ok q => if degen p q then .error .value else .ok ⟨p, q, e.2.2⟩

def lookupEdge (m : List Nat) (e : (Nat × Nat × List Int)) : Except Err (Nat × Nat × List Int) :=
  match getE m e.1 with
  | .error x => .error x
  | .ok i =>
    match getE m e.2.1 with
    | .error x => .error x
    | .ok j => .ok (i, j, e.2.2)

/-- the domain argument, or the bounding box of the point cloud (before uniquification) -/
def domOr {V : Type} (n : Num V) (dom : Option (Box2 V)) (pts : List (Pt2 V)) : Option (Box2 V) :=
  match dom with
  | some d => some d
  | none => bbox2 n pts

/-- uniquify, re-index, drop point edges, build fractures -/
def finishCore {V : Type} (n : Num V) (near degen : Pt2 V → Pt2 V → Bool) (d : Box2 V)
    (pts : List (Pt2 V)) (edges : List ((Nat × Nat × List Int) × V)) : Except Err (Net2 V) :=
  match mapE (lookupEdge (greedy near [] pts).2) (edges.map (·.1)) with
  | .error x => .error x
  | .ok es =>
    match mapE (mkFrac degen (greedy near [] pts).1)
        (((es.zip (edges.map (·.2))).filter (fun p => p.1.1 != p.1.2.1)).map (·.1)) with
    | .error x => .error x
    | .ok fr => .ok ⟨fr, some d,
        ((es.zip (edges.map (·.2))).filter (fun p => p.1.1 != p.1.2.1)).map (fun p => n.toIdx p.2)⟩

/-- from the selected point table and the edge list to the network (second half of
    `network_2d_from_csv`): bounding box (ValueError on an empty cloud), then `finishCore` -/
def finish2 {V : Type} (n : Num V) (near degen : Pt2 V → Pt2 V → Bool) (dom : Option (Box2 V))
    (pts : List (Pt2 V)) (edges : List ((Nat × Nat × List Int) × V)) : Except Err (Net2 V) :=
  match domOr n dom pts with
  | none => .error .value
  | some d => finishCore n near degen d pts edges

def tagsOfRow {V : Type} (n : Num V) (tagcols : Option (List Nat)) (r : List V) : Except Err (List Int) :=
  match tagcols with
  | none => .ok []
  | some tc => mapE (fun j => match getE r j with
      | .error x => .error x
      | .ok v => .ok (n.toIdx v)) tc

/-- `data[i, pt_cols]` -/
def selRow {V : Type} (cols : List Nat) (r : List V) : Except Err (List V) := mapE (getE r) cols

/-- the part of `network_2d_from_csv` after the data matrix is known to be non-empty -/
def read2dRows {V : Type} [DecidableEq V] (n : Num V) (near degen : Pt2 V → Pt2 V → Bool)
    (rows : List (List V)) (o : Opts2 V) : Except Err (Net2 V) :=
  match mapE (selRow (ptCols ((rows.head?.map List.length).getD 0) o.tagcols)) rows with
  | .error x => .error x
  | .ok sel =>
    match pairUp sel.flatten with
    | .error x => .error x
    | .ok pts =>
      if o.polyline then
        match polyEdges n (rows.map (fun r => r.headD (n.ofIdx 0))) with
        | .error x => .error x
        | .ok edges => finish2 n near degen o.domain pts edges
      else
        match mapE (tagsOfRow n o.tagcols) rows with
        | .error x => .error x
        | .ok tags =>
          finish2 n near degen o.domain pts
            ((seqEdges 0 tags).zip (rows.map (fun r => r.headD (n.ofIdx 0))))

/-- `np.atleast_2d(np.genfromtxt(...))`: a file with ONE column and several rows arrives as a 1-d
    array and is therefore treated as ONE row -/
def atleast2d {V : Type} (rows : List (List V)) : List (List V) :=
  match rows with
  | r :: _ :: _ => if r.length == 1 then [rows.flatten] else rows
  | _ => rows

/-- `network_2d_from_csv(f_name, tagcols, tol, max_num_fracs, polyline, return_frac_id=True, domain,
    skip_header=…)`.  An undecodable cell is reported as `Err.decode` (the real reader, genfromtxt,
    stores nan there; the model does not follow it further). -/
def read2d {V T : Type} [DecidableEq V] (c : Codec V T) (n : Num V) (near degen : Pt2 V → Pt2 V → Bool)
    (lines : List (Line T)) (o : Opts2 V) : Except Err (Net2 V) :=
  match mapE (decodeRow c .decode) ((lines.drop o.skipHeader).filterMap cellsOf) with
  | .error x => .error x
  | .ok rows =>
    if !(sameLen rows) then .error .value
    else if rows.isEmpty then .ok ⟨[], o.domain, []⟩
    else
      match o.maxNumFracs with
      | some 0 => .ok ⟨[], none, []⟩
      | some k => read2dRows n near degen ((atleast2d rows).take k) o
      | none => read2dRows n near degen (atleast2d rows) o

/-! ### 3-D networks -/

abbrev Pt3 (V : Type) := V × V × V

structure Box3 (V : Type) where
  xmin : V
  ymin : V
  zmin : V
  xmax : V
  ymax : V
  zmax : V

structure Net3 (V : Type) where
  fracs : List (List (Pt3 V))
  domain : Option (Box3 V)

/-- `f.pts.ravel(order="F")` -/
def flat3 {V : Type} : List (Pt3 V) → List V
  | [] => []
  | p :: ps => p.1 :: p.2.1 :: p.2.2 :: flat3 ps

/-- `pts.reshape((3, -1), order="F")` after the `size % 3` check -/
def triples {V : Type} : List V → Except Err (List (Pt3 V))
  | [] => .ok []
  | x :: y :: z :: r =>
    match triples r with
    | .error e => .error e
    | .ok ps => .ok ((x, y, z) :: ps)
  | _ => .error .value

/-- `FractureNetwork3d.to_csv(file_name, domain)` -/
def write3d {V T : Type} (c : Codec V T) (fracs : List (List (Pt3 V))) (dom : Option (Box3 V)) : List (Line T) :=
  (match dom with
    | some b => [Line.data [c.enc b.xmin, c.enc b.ymin, c.enc b.zmin, c.enc b.xmax, c.enc b.ymax, c.enc b.zmax]]
    | none => []) ++ fracs.map (fun f => Line.data ((flat3 f).map c.enc))

/-- the `while not read_domain` loop of `network_3d_from_csv` -/
def readDomain {V T : Type} (c : Codec V T) : List (Line T) → Except Err (Box3 V × List (Line T))
  | [] => .error .stopIteration
  | .comment _ :: rest => readDomain c rest
  | .data [] :: _ => .error .index
  | .data cs :: rest =>
    match decodeRow c .value cs with
    | .error e => .error e
    | .ok vs =>
      match vs with
      | x0 :: y0 :: z0 :: x1 :: y1 :: z1 :: _ => .ok (⟨x0, y0, z0, x1, y1, z1⟩, rest)
      | _ => .error .index

/-- the fracture loop; `norm` is the PlaneFracture constructor (vertex sorting, planarity and
    convexity assertions) -/
def readFracs {V T : Type} (c : Codec V T) (norm : List (Pt3 V) → Except Err (List (Pt3 V))) :
    List (Line T) → Except Err (List (List (Pt3 V)))
  | [] => .ok []
  | .comment _ :: rest => readFracs c norm rest
  | .data [] :: rest => readFracs c norm rest
  | .data cs :: rest =>
    match decodeRow c .value cs with
    | .error e => .error e
    | .ok vs =>
      match triples vs with
      | .error e => .error e
      | .ok ps =>
        match norm ps with
        | .error e => .error e
        | .ok f =>
          match readFracs c norm rest with
          | .error e => .error e
          | .ok fs => .ok (f :: fs)

/-- `network_3d_from_csv(file_name, has_domain)` -/
def read3d {V T : Type} (c : Codec V T) (norm : List (Pt3 V) → Except Err (List (Pt3 V)))
    (lines : List (Line T)) (hasDomain : Bool) : Except Err (Net3 V) :=
  if hasDomain then
    match readDomain c lines with
    | .error e => .error e
    | .ok (b, rest) =>
      match readFracs c norm rest with
      | .error e => .error e
      | .ok fs => .ok ⟨fs, some b⟩
  else
    match readFracs c norm lines with
    | .error e => .error e
    | .ok fs => if fs.isEmpty then .error .value else .ok ⟨fs, none⟩

/-! ### elliptic 3-D files (`elliptic_network_3d_from_csv`; reader only, porepy has no writer) -/

/-- the domain line: the first line of the file, whatever it is (a comment line is not skipped here:
    `np.asarray(next(spam_reader), dtype=float)` raises ValueError on it) -/
def readDomainE {V T : Type} (c : Codec V T) : List (Line T) → Except Err (Box3 V × List (Line T))
  | [] => .error .stopIteration
  | .comment _ :: _ => .error .value
  | .data [] :: _ => .error .index
  | .data cs :: rest =>
    match decodeRow c .value cs with
    | .error e => .error e
    | .ok vs =>
      match vs with
      | x0 :: y0 :: z0 :: x1 :: y1 :: z1 :: _ => .ok (⟨x0, y0, z0, x1, y1, z1⟩, rest)
      | _ => .error .index

/-- the fracture loop: `row[0][0]` fails on a blank line (IndexError), a row must hold a multiple of 9
    numbers, the first nine `center(3), major, minor, major_axis_angle, strike, dip, num_points` go to
    `mk` = `create_elliptic_fracture` after the angle scaling -/
def readFracsE {V T : Type} (c : Codec V T) (mk : List V → Except Err (List (Pt3 V))) :
    List (Line T) → Except Err (List (List (Pt3 V)))
  | [] => .ok []
  | .comment _ :: rest => readFracsE c mk rest
  | .data [] :: _ => .error .index
  | .data cs :: rest =>
    match decodeRow c .value cs with
    | .error e => .error e
    | .ok vs =>
      if vs.length % 9 != 0 then .error .value
      else
        match mk (vs.take 9) with
        | .error e => .error e
        | .ok f =>
          match readFracsE c mk rest with
          | .error e => .error e
          | .ok fs => .ok (f :: fs)

/-- `elliptic_network_3d_from_csv(file_name, has_domain)` -/
def readElliptic {V T : Type} (c : Codec V T) (mk : List V → Except Err (List (Pt3 V)))
    (lines : List (Line T)) (hasDomain : Bool) : Except Err (Net3 V) :=
  if hasDomain then
    match readDomainE c lines with
    | .error e => .error e
    | .ok (b, rest) =>
      match readFracsE c mk rest with
      | .error e => .error e
      | .ok fs => .ok ⟨fs, some b⟩
  else
    match readFracsE c mk lines with
    | .error e => .error e
    | .ok fs => if fs.isEmpty then .error .value else .ok ⟨fs, none⟩

/-- a file of ellipse parameter rows, with an optional domain line -/
def ellipticRows {V T : Type} (c : Codec V T) (params : List (List V)) (dom : Option (Box3 V)) : List (Line T) :=
  (match dom with
    | some b => [Line.data [c.enc b.xmin, c.enc b.ymin, c.enc b.zmin, c.enc b.xmax, c.enc b.ymax, c.enc b.zmax]]
    | none => []) ++ params.map (fun p => Line.data (p.map c.enc))

/-! ### txt data files -/

abbrev Name := List Char

structure TxtCol (V F : Type) where
  name : Name
  arr : List V
  fmt : F

/-- a txt file: the first line (without the newline) as characters, the data rows as tokens -/
structure TxtFile (T : Type) where
  header : List Char
  rows : List (List T)

/-- ASCII whitespace (what `str.split()` splits on, restricted to ASCII) -/
def isWs (c : Char) : Bool :=
  c == ' ' || c == '\t' || c == '\n' || c == '\r' || c == '\x0b' || c == '\x0c'

/-- `header += data.header + " "` -/
def joinNames : List Name → List Char
  | [] => []
  | w :: ws => w ++ ' ' :: joinNames ws

/-- np.savetxt prefixes the header with the comment string `"# "` -/
def headerLine (names : List Name) : List Char := '#' :: ' ' :: joinNames names

/-- `str.split()`: `cur` is the word being accumulated -/
def splitAux : List Char → List Char → List Name
  | [], cur => if cur.isEmpty then [] else [cur]
  | c :: cs, cur =>
    if isWs c then (if cur.isEmpty then splitAux cs [] else cur :: splitAux cs [])
    else splitAux cs (cur ++ [c])

/-- `header.lstrip("# ")` -/
def lstripHash : List Char → List Char
  | [] => []
  | c :: cs => if c == '#' || c == ' ' then lstripHash cs else c :: cs

def readNames (header : List Char) : List Name := splitAux (lstripHash header) []

/-- row `i` of the table = i-th entry of every column -/
def rowsOf {T : Type} : Nat → List (List T) → List (List T)
  | 0, _ => []
  | k + 1, cols => cols.filterMap List.head? :: rowsOf k (cols.map List.tail)

/-- `np.loadtxt(..., unpack=True)` on an `n`-column table: the columns -/
def transposeRows {V : Type} (n : Nat) : List (List V) → List (List V)
  | [] => List.replicate n []
  | r :: rs => List.zipWith (· :: ·) r (transposeRows n rs)

/-- `export_data_to_txt`; `enc f v` is `f % v` -/
def exportTxt {V F T : Type} (enc : F → V → T) (cols : List (TxtCol V F)) : Except Err (TxtFile T) :=
  match cols with
  | [] => .error .index
  | c0 :: _ =>
    if cols.all (fun c => c.arr.length == c0.arr.length) then
      .ok ⟨headerLine (cols.map (·.name)),
           rowsOf c0.arr.length (cols.map (fun c => c.arr.map (enc c.fmt)))⟩
    else .error .value

/-- the columns of a decoded table with `nNames` header names: `np.loadtxt(..., ndmin=2).T`, and
    `nNames` empty columns when the file has no data row -/
def columnsOf {V : Type} (nNames : Nat) (rows : List (List V)) : List (List V) :=
  match rows with
  | [] => List.replicate nNames []
  | r :: _ => transposeRows r.length rows

/-- `read_data_from_txt` as the property needs it (every column comes back as an array, whatever
    the number of rows and columns): the list of (name, column) pairs the dictionary is built from -/
def readTxt {V T : Type} (dec : T → Option V) (f : TxtFile T) : Except Err (List (Name × List V)) :=
  match mapE (decodeWith dec .value) f.rows with
  | .error e => .error e
  | .ok rows =>
    if !(sameLen rows) then .error .value
    else .ok ((readNames f.header).zip (columnsOf (readNames f.header).length rows))

/-- `dict(zip(names, values))[k]`: the value of the LAST pair with key `k` -/
def dictGet {V : Type} (l : List (Name × List V)) (k : Name) : Option (List V) :=
  l.foldl (fun acc p => if p.1 = k then some p.2 else acc) none

/-! ### specification-level definitions used in the statements of the theorems -/

/-- specification of the written rows: fracture k contributes `[k, a.x, a.y, b.x, b.y]` -/
def rowsSpec {V T : Type} (c : Codec V T) : Nat → List (Frac2 V) → List (Line T)
  | _, [] => []
  | k, f :: fs => .data [c.encIdx k, c.enc f.a.1, c.enc f.a.2, c.enc f.b.1, c.enc f.b.2] :: rowsSpec c (k + 1) fs

/-- a fracture as the reader without tag columns returns it -/
def strip {V : Type} (f : Frac2 V) : Frac2 V := ⟨f.a, f.b, []⟩

/-- two lists related element by element -/
inductive Pointwise {α β : Type} (R : α → β → Prop) : List α → List β → Prop
  | nil : Pointwise R [] []
  | cons {a b l m} : R a b → Pointwise R l m → Pointwise R (a :: l) (b :: m)

/-! ### the tolerance predicates of the real code over exact rationals (every binary64 is one) -/

def absQ (x : Rat) : Rat := if x < 0 then -x else x

/-- `np.allclose(point, x, rtol=0, atol=tol)`: the documented absolute tolerance -/
def closeQ (tol : Rat) (x p : Pt2 Rat) : Bool :=
  decide (absQ (p.1 - x.1) ≤ tol) && decide (absQ (p.2 - x.2) ≤ tol)

/-- `uniquify_point_set`: squared distance below tol² -/
def nearQ (tol : Rat) (x p : Pt2 Rat) : Bool :=
  decide ((p.1 - x.1) * (p.1 - x.1) + (p.2 - x.2) * (p.2 - x.2) < tol * tol)

/-- LineFracture._check_pts: `np.all(np.isclose(pts[:, 0], pts[:, 1]))` with numpy's defaults -/
def degenQ (p q : Pt2 Rat) : Bool :=
  decide (absQ (p.1 - q.1) ≤ (1 : Rat) / 100000000 + (1 : Rat) / 100000 * absQ q.1) &&
  decide (absQ (p.2 - q.2) ≤ (1 : Rat) / 100000000 + (1 : Rat) / 100000 * absQ q.2)

/-- decidable input condition "end points pairwise farther apart than tol": two different end points
    differ by more than tol in at least one coordinate -/
def Separated (tol : Rat) (fs : List (Frac2 Rat)) : Prop :=
  ∀ p ∈ endpoints fs, ∀ q ∈ endpoints fs, p ≠ q → tol < absQ (p.1 - q.1) ∨ tol < absQ (p.2 - q.2)

/-- decidable input condition "every fracture can be constructed": LineFracture accepts its end points -/
def Constructible (fs : List (Frac2 Rat)) : Prop := ∀ f ∈ fs, f.a ≠ f.b ∧ degenQ f.a f.b = false

instance (tol : Rat) (fs : List (Frac2 Rat)) : Decidable (Separated tol fs) := by
  unfold Separated; exact inferInstance

instance (fs : List (Frac2 Rat)) : Decidable (Constructible fs) := by
  unfold Constructible; exact inferInstance

/-! ### polyline files (format 2 of `network_2d_from_csv`): specification -/

/-- one polyline of a format-2 file: its id and its points in file order -/
structure Poly (V : Type) where
  id : V
  pts : List (Pt2 V)

def allPts {V : Type} : List (Poly V) → List (Pt2 V)
  | [] => []
  | P :: Ps => P.pts ++ allPts Ps

/-- consecutive points of a chain as fractures: neighbours share an end point -/
def segs {V : Type} : List (Pt2 V) → List (Frac2 V)
  | p :: q :: r => ⟨p, q, []⟩ :: segs (q :: r)
  | _ => []

def polySegs {V : Type} : List (Poly V) → List (Frac2 V)
  | [] => []
  | P :: Ps => segs P.pts ++ polySegs Ps

def polyIds {V : Type} (n : Num V) : List (Poly V) → List Int
  | [] => []
  | P :: Ps => List.replicate (P.pts.length - 1) (n.toIdx P.id) ++ polyIds n Ps

/-- an optional header comment line -/
def hdrLines {T : Type} : Option String → List (Line T)
  | some h => [Line.comment h]
  | none => []

/-- the rows `FID, PT_X, PT_Y` of a format-2 file -/
def polyRowsSpec {V T : Type} (c : Codec V T) : List (Poly V) → List (Line T)
  | [] => []
  | P :: Ps => P.pts.map (fun p => Line.data [c.enc P.id, c.enc p.1, c.enc p.2]) ++ polyRowsSpec c Ps

/-! ### PlaneFracture's vertex normalisation: angular sort, and the symmetry it leaves open -/

/-- insertion into a list ascending in the key `θ` (`θ` = the angle `arctan2` of the vertex in the
    fracture's local coordinates about the centroid; a binary64, hence a rational) -/
def insertBy {P : Type} (θ : P → Rat) (p : P) : List P → List P
  | [] => [p]
  | a :: l => if θ a < θ p then a :: insertBy θ p l else p :: a :: l

/-- `pts[:, np.argsort(theta)]` (keys pairwise different) -/
def angSort {P : Type} (θ : P → Rat) : List P → List P
  | [] => []
  | p :: l => insertBy θ p (angSort θ l)

/-- PlaneFracture's constructor as the 3-D reader uses it, record layer + vertex sorting: at least
    three vertices, then the angular sort with the key function the constructor derives from the
    vertex list it is given (`θof`) -/
def normSort {V : Type} (θof : List (Pt3 V) → Pt3 V → Rat) (f : List (Pt3 V)) : Except Err (List (Pt3 V)) :=
  if f.length < 3 then .error .value else .ok (angSort (θof f) f)

def StrictAsc {P : Type} (θ : P → Rat) (a : List P) : Prop := a.Pairwise (fun x y => θ x < θ y)

/-- cyclic rotation of a vertex list by `k` -/
def rot {α : Type} (k : Nat) (l : List α) : List α := l.drop (k % l.length) ++ l.take (k % l.length)

/-- the same vertex cycle: equal up to a rotation, possibly reversed (the dihedral group of the polygon) -/
def Dihedral {α : Type} (g f : List α) : Prop := ∃ k, g = rot k f ∨ g = (rot k f).reverse

/-- the vertices, in the order given, go once around the polygon as seen from the key `θ`: some
    rotation of the list, or of its reverse, is strictly ascending in `θ` (convex planar polygon in
    general position, given in cyclic order) -/
def CyclicMono {P : Type} (θ : P → Rat) (f : List P) : Prop := ∃ a, StrictAsc θ a ∧ Dihedral f a

end PorepyVerif.C47
