/-
C47 — helper lemmas for the round-trip theorems (core Lean only; no Mathlib needed).
-/
import PorepyVerif.C47.Model

namespace PorepyVerif.C47

/-! ### mapE / getE -/

theorem mapE_ok_of_forall {α β : Type} (f : α → Except Err β) (g : α → β) (l : List α)
    (h : ∀ a ∈ l, f a = .ok (g a)) : mapE f l = .ok (l.map g) := by
  induction l with
  | nil => rfl
  | cons a as ih =>
    have ha := h a (List.mem_cons_self)
    have := ih (fun x hx => h x (List.mem_cons_of_mem _ hx))
    simp only [mapE, ha, this, List.map_cons]

theorem getE_of_getElem? {α : Type} (l : List α) (i : Nat) (x : α) (h : l[i]? = some x) :
    getE l i = .ok x := by
  simp only [getE, h]

/-! ### the greedy point table -/

theorem firstIdx_some {P : Type} (f : P → Bool) (l : List P) (i : Nat) (h : firstIdx f l = some i) :
    ∃ x, l[i]? = some x ∧ f x = true := by
  induction l generalizing i with
  | nil => simp [firstIdx] at h
  | cons a as ih =>
    simp only [firstIdx] at h
    by_cases ha : f a = true
    · simp only [ha, if_true] at h
      cases h
      exact ⟨a, by simp, ha⟩
    · simp only [ha] at h
      cases hf : firstIdx f as with
      | none => simp [hf] at h
      | some j =>
        simp only [hf, Option.map_some] at h
        cases h
        obtain ⟨x, hx, hfx⟩ := ih j hf
        exact ⟨x, by simpa using hx, hfx⟩

theorem greedy_prefix {P : Type} (rel : P → P → Bool) (pts reps : List P) :
    ∃ t, (greedy rel reps pts).1 = reps ++ t := by
  induction pts generalizing reps with
  | nil => exact ⟨[], by simp [greedy]⟩
  | cons p ps ih =>
    simp only [greedy]
    cases firstIdx (fun x => rel x p) reps with
    | some i => exact ih reps
    | none =>
      obtain ⟨t, ht⟩ := ih (reps ++ [p])
      exact ⟨p :: t, by simp [ht]⟩

/-- If `rel` relates no two DISTINCT points among the table entries and the incoming points, every
    incoming point is mapped to a table slot that holds exactly that point. -/
theorem greedy_lookup {P : Type} (rel : P → P → Bool) (pts reps : List P)
    (hd : ∀ x, x ∈ reps ∨ x ∈ pts → ∀ p ∈ pts, rel x p = true → x = p) :
    (greedy rel reps pts).2.map (fun i => (greedy rel reps pts).1[i]?) = pts.map some := by
  induction pts generalizing reps with
  | nil => simp [greedy]
  | cons p ps ih =>
    simp only [greedy]
    cases hf : firstIdx (fun x => rel x p) reps with
    | some i =>
      simp only [List.map_cons]
      obtain ⟨x, hx, hr⟩ := firstIdx_some _ _ _ hf
      have hxr : x ∈ reps := List.mem_of_getElem? hx
      have hxp : x = p := hd x (Or.inl hxr) p (List.mem_cons_self) hr
      obtain ⟨t, ht⟩ := greedy_prefix rel ps reps
      have h1 : (greedy rel reps ps).1[i]? = some p := by
        rw [ht, List.getElem?_append_left (by
          have := List.getElem?_eq_some_iff.mp hx
          exact this.1), hx, hxp]
      rw [h1]
      congr 1
      exact ih reps (fun y hy q hq hrel => hd y (by
        rcases hy with h | h
        · exact Or.inl h
        · exact Or.inr (List.mem_cons_of_mem _ h)) q (List.mem_cons_of_mem _ hq) hrel)
    | none =>
      simp only [List.map_cons]
      obtain ⟨t, ht⟩ := greedy_prefix rel ps (reps ++ [p])
      have h1 : (greedy rel (reps ++ [p]) ps).1[reps.length]? = some p := by
        rw [ht, List.append_assoc]
        simp
      rw [h1]
      congr 1
      exact ih (reps ++ [p]) (fun y hy q hq hrel => hd y (by
        rcases hy with h | h
        · rcases List.mem_append.mp h with h' | h'
          · exact Or.inl h'
          · simp at h'; subst h'; exact Or.inr (List.mem_cons_self)
        · exact Or.inr (List.mem_cons_of_mem _ h)) q (List.mem_cons_of_mem _ hq) hrel)

/-! ### 2-D: what `to_csv` writes -/

theorem rows2_spec {V T : Type} (c : Codec V T) (U : List (Pt2 V)) (fs : List (Frac2 V)) (m : List Nat) (k : Nat)
    (hm : m.map (fun i => U[i]?) = (endpoints fs).map some) :
    rows2 c U k (pairIdx m) = .ok (rowsSpec c k fs) := by
  induction fs generalizing m k with
  | nil =>
    simp only [endpoints, List.map_nil, List.map_eq_nil_iff] at hm
    subst hm
    rfl
  | cons f fs ih =>
    match m, hm with
    | i :: j :: m', hm =>
      simp only [endpoints, List.map_cons, List.cons.injEq] at hm
      obtain ⟨hi, hj, hm'⟩ := hm
      simp only [pairIdx, rows2, getE, hi, hj, ih m' (k + 1) hm', rowsSpec]
    | [], hm => simp [endpoints] at hm
    | [_], hm => simp [endpoints] at hm

theorem write2d_spec {V T : Type} (c : Codec V T) (close : Pt2 V → Pt2 V → Bool) (fs : List (Frac2 V))
    (hdr : Bool)
    (hclose : ∀ p ∈ endpoints fs, ∀ q ∈ endpoints fs, close p q = true → p = q) :
    write2d c close fs hdr
      = .ok (if hdr then Line.comment header2 :: rowsSpec c 0 fs else rowsSpec c 0 fs) := by
  have hm := greedy_lookup close (endpoints fs) [] (fun x hx p hp h => by
    rcases hx with hx | hx
    · cases hx
    · exact hclose x hx p hp h)
  simp only [write2d, rows2_spec c _ fs _ 0 hm]

/-! ### 2-D: what `network_2d_from_csv` sees -/

def valsSpec {V : Type} (n : Num V) : Nat → List (Frac2 V) → List (List V)
  | _, [] => []
  | k, f :: fs => [n.ofIdx k, f.a.1, f.a.2, f.b.1, f.b.2] :: valsSpec n (k + 1) fs

def idVals {V : Type} (n : Num V) : Nat → List (Frac2 V) → List V
  | _, [] => []
  | k, _ :: fs => n.ofIdx k :: idVals n (k + 1) fs

theorem decode_rowsSpec {V T : Type} (c : Codec V T) (n : Num V) (hF : Faithful c n) (k : Nat)
    (fs : List (Frac2 V)) :
    mapE (decodeRow c .decode) ((rowsSpec c k fs).filterMap cellsOf) = .ok (valsSpec n k fs) := by
  induction fs generalizing k with
  | nil => rfl
  | cons f fs ih =>
    have h5 : decodeRow c .decode [c.encIdx k, c.enc f.a.1, c.enc f.a.2, c.enc f.b.1, c.enc f.b.2]
        = .ok [n.ofIdx k, f.a.1, f.a.2, f.b.1, f.b.2] := by
      simp only [decodeRow, decodeWith, mapE, hF.dec_enc, hF.dec_encIdx]
    simp only [rowsSpec, List.filterMap_cons, cellsOf, mapE, h5, ih (k + 1), valsSpec]

theorem valsSpec_length {V : Type} (n : Num V) (k : Nat) (fs : List (Frac2 V)) :
    ∀ r ∈ valsSpec n k fs, r.length = 5 := by
  induction fs generalizing k with
  | nil => intro r hr; cases hr
  | cons f fs ih =>
    intro r hr
    simp only [valsSpec, List.mem_cons] at hr
    rcases hr with rfl | hr
    · rfl
    · exact ih (k + 1) r hr

theorem sameLen_valsSpec {V : Type} (n : Num V) (k : Nat) (fs : List (Frac2 V)) :
    sameLen (valsSpec n k fs) = true := by
  cases fs with
  | nil => rfl
  | cons f fs =>
    simp only [valsSpec, sameLen, List.all_eq_true, beq_iff_eq]
    intro r hr
    exact valsSpec_length n (k + 1) fs r hr

theorem atleast2d_valsSpec {V : Type} (n : Num V) (k : Nat) (fs : List (Frac2 V)) :
    atleast2d (valsSpec n k fs) = valsSpec n k fs := by
  match fs with
  | [] => rfl
  | [_] => rfl
  | _ :: _ :: _ => rfl

theorem sel_valsSpec {V : Type} (n : Num V) (k : Nat) (fs : List (Frac2 V)) :
    mapE (selRow [1, 2, 3, 4]) (valsSpec n k fs)
      = .ok (fs.map (fun f => [f.a.1, f.a.2, f.b.1, f.b.2])) := by
  induction fs generalizing k with
  | nil => rfl
  | cons f fs ih =>
    have h5 : selRow [1, 2, 3, 4] [n.ofIdx k, f.a.1, f.a.2, f.b.1, f.b.2]
        = .ok [f.a.1, f.a.2, f.b.1, f.b.2] := rfl
    simp only [valsSpec, mapE, h5, ih (k + 1), List.map_cons]

theorem pairUp_sel {V : Type} (fs : List (Frac2 V)) :
    pairUp (fs.map (fun f => [f.a.1, f.a.2, f.b.1, f.b.2])).flatten = .ok (endpoints fs) := by
  induction fs with
  | nil => rfl
  | cons f fs ih =>
    simp only [List.map_cons, List.flatten_cons, List.cons_append, List.nil_append, pairUp, ih,
      endpoints]

theorem heads_valsSpec {V : Type} (n : Num V) (d : V) (k : Nat) (fs : List (Frac2 V)) :
    (valsSpec n k fs).map (fun r => r.headD d) = idVals n k fs := by
  induction fs generalizing k with
  | nil => rfl
  | cons f fs ih => simp only [valsSpec, List.map_cons, List.headD_cons, ih (k + 1), idVals]

theorem tags_valsSpec {V : Type} (n : Num V) (k : Nat) (fs : List (Frac2 V)) :
    mapE (tagsOfRow n none) (valsSpec n k fs) = .ok (List.replicate fs.length []) := by
  induction fs generalizing k with
  | nil => rfl
  | cons f fs ih => simp only [valsSpec, mapE, tagsOfRow, ih (k + 1), List.length_cons, List.replicate_succ]

theorem idVals_length {V : Type} (n : Num V) (k : Nat) (fs : List (Frac2 V)) :
    (idVals n k fs).length = fs.length := by
  induction fs generalizing k with
  | nil => rfl
  | cons f fs ih => simp only [idVals, List.length_cons, ih (k + 1)]

theorem idVals_toIdx {V T : Type} (c : Codec V T) (n : Num V) (hF : Faithful c n) (k : Nat)
    (fs : List (Frac2 V)) :
    (idVals n k fs).map n.toIdx = (List.range' k fs.length).map Int.ofNat := by
  induction fs generalizing k with
  | nil => rfl
  | cons f fs ih =>
    simp only [idVals, List.map_cons, hF.toIdx_ofIdx, ih (k + 1), List.length_cons, List.range'_succ]
    rfl

/-- index pairs of `m` together with the tags -/
def pairTag : List Nat → List (List Int) → List (Nat × Nat × List Int)
  | i :: j :: r, t :: ts => (i, j, t) :: pairTag r ts
  | _, _ => []

theorem seqEdges_lookup (ts : List (List Int)) (pre m' : List Nat) (h : m'.length = 2 * ts.length) :
    mapE (lookupEdge (pre ++ m')) (seqEdges pre.length ts) = .ok (pairTag m' ts) := by
  induction ts generalizing pre m' with
  | nil =>
    have : m' = [] := List.eq_nil_of_length_eq_zero (by simpa using h)
    subst this
    rfl
  | cons t ts ih =>
    match m', h with
    | i :: j :: m'', h =>
      have h1 : (pre ++ i :: j :: m'')[pre.length]? = some i := by simp
      have h2 : (pre ++ i :: j :: m'')[pre.length + 1]? = some j := by
        rw [List.getElem?_append_right (Nat.le_add_right _ _)]
        simp
      have h3 : pre ++ i :: j :: m'' = (pre ++ [i, j]) ++ m'' := by simp
      have h4 : pre.length + 2 = (pre ++ [i, j]).length := by simp
      have h5 : m''.length = 2 * ts.length := by
        simp only [List.length_cons] at h
        omega
      simp only [seqEdges, mapE, lookupEdge, getE, h1, h2, pairTag]
      rw [h3, h4, ih (pre ++ [i, j]) m'' h5]
    | [], h => simp at h
    | [_], h => simp only [List.length_cons, List.length_nil] at h; omega

theorem pairTag_length {V : Type} (U : List (Pt2 V)) (fs : List (Frac2 V)) (m : List Nat)
    (hm : m.map (fun i => U[i]?) = (endpoints fs).map some) :
    (pairTag m (List.replicate fs.length [])).length = fs.length := by
  induction fs generalizing m with
  | nil => 
    simp only [endpoints, List.map_nil, List.map_eq_nil_iff] at hm
    subst hm; rfl
  | cons f fs ih =>
    match m, hm with
    | i :: j :: m', hm =>
      simp only [endpoints, List.map_cons, List.cons.injEq] at hm
      simp only [List.length_cons, List.replicate_succ, pairTag, ih m' hm.2.2]
    | [], hm => simp [endpoints] at hm
    | [_], hm => simp [endpoints] at hm

theorem m_length {V : Type} (U : List (Pt2 V)) (fs : List (Frac2 V)) (m : List Nat)
    (hm : m.map (fun i => U[i]?) = (endpoints fs).map some) : m.length = 2 * fs.length := by
  have := congrArg List.length hm
  simp only [List.length_map] at this
  rw [this]
  clear hm this
  induction fs with
  | nil => rfl
  | cons f fs ih => simp only [endpoints, List.length_cons, ih]; omega

theorem pairTag_ne {V : Type} (U : List (Pt2 V)) (fs : List (Frac2 V)) (m : List Nat)
    (hm : m.map (fun i => U[i]?) = (endpoints fs).map some) (hlen : ∀ f ∈ fs, f.a ≠ f.b) :
    ∀ e ∈ pairTag m (List.replicate fs.length []), (e.1 != e.2.1) = true := by
  induction fs generalizing m with
  | nil =>
    simp only [endpoints, List.map_nil, List.map_eq_nil_iff] at hm
    subst hm; intro e he; cases he
  | cons f fs ih =>
    match m, hm with
    | i :: j :: m', hm =>
      simp only [endpoints, List.map_cons, List.cons.injEq] at hm
      obtain ⟨hi, hj, hm'⟩ := hm
      intro e he
      simp only [List.length_cons, List.replicate_succ, pairTag, List.mem_cons] at he
      rcases he with rfl | he
      · simp only [bne_iff_ne, ne_eq]
        intro hij
        subst hij
        rw [hi] at hj
        exact hlen f (List.mem_cons_self) (Option.some.inj hj)
      · exact ih m' hm' (fun g hg => hlen g (List.mem_cons_of_mem _ hg)) e he
    | [], hm => simp [endpoints] at hm
    | [_], hm => simp [endpoints] at hm

theorem mkFrac_pairTag {V : Type} (degen : Pt2 V → Pt2 V → Bool) (U : List (Pt2 V)) (fs : List (Frac2 V))
    (m : List Nat) (hm : m.map (fun i => U[i]?) = (endpoints fs).map some)
    (hdeg : ∀ f ∈ fs, degen f.a f.b = false) :
    mapE (mkFrac degen U) (pairTag m (List.replicate fs.length [])) = .ok (fs.map strip) := by
  induction fs generalizing m with
  | nil =>
    simp only [endpoints, List.map_nil, List.map_eq_nil_iff] at hm
    subst hm; rfl
  | cons f fs ih =>
    match m, hm with
    | i :: j :: m', hm =>
      simp only [endpoints, List.map_cons, List.cons.injEq] at hm
      obtain ⟨hi, hj, hm'⟩ := hm
      have hd := hdeg f (List.mem_cons_self)
      simp only [List.length_cons, List.replicate_succ, pairTag, mapE, mkFrac, getE, hi, hj, hd,
        ih m' hm' (fun g hg => hdeg g (List.mem_cons_of_mem _ hg)), List.map_cons, strip]
      rfl
    | [], hm => simp [endpoints] at hm
    | [_], hm => simp [endpoints] at hm

theorem seqEdges_length (k : Nat) (ts : List (List Int)) : (seqEdges k ts).length = ts.length := by
  induction ts generalizing k with
  | nil => rfl
  | cons t ts ih => simp only [seqEdges, List.length_cons, ih (k + 2)]

/-- second half of the reader on the point list of a network written by `to_csv` -/
theorem finishCore_spec {V : Type} (n : Num V) (near degen : Pt2 V → Pt2 V → Bool) (d : Box2 V)
    (fs : List (Frac2 V)) (ids : List V) (hids : ids.length = fs.length)
    (hnear : ∀ p ∈ endpoints fs, ∀ q ∈ endpoints fs, near p q = true → p = q)
    (hlen : ∀ f ∈ fs, f.a ≠ f.b) (hdeg : ∀ f ∈ fs, degen f.a f.b = false) :
    finishCore n near degen d (endpoints fs) ((seqEdges 0 (List.replicate fs.length [])).zip ids)
      = .ok ⟨fs.map strip, some d, ids.map n.toIdx⟩ := by
  have hm := greedy_lookup near (endpoints fs) [] (fun x hx p hp h => by
    rcases hx with hx | hx
    · cases hx
    · exact hnear x hx p hp h)
  have hfst : ((seqEdges 0 (List.replicate fs.length [])).zip ids).map (·.1)
      = seqEdges 0 (List.replicate fs.length []) :=
    List.map_fst_zip (by rw [seqEdges_length, List.length_replicate, hids]; exact Nat.le_refl _)
  have hsnd : ((seqEdges 0 (List.replicate fs.length [])).zip ids).map (·.2) = ids :=
    List.map_snd_zip (by rw [seqEdges_length, List.length_replicate, hids]; exact Nat.le_refl _)
  have hlook := seqEdges_lookup (List.replicate fs.length []) [] (greedy near [] (endpoints fs)).2
    (by rw [m_length _ fs _ hm, List.length_replicate])
  simp only [List.nil_append, List.length_nil] at hlook
  have hes := pairTag_length _ fs _ hm
  have hfilter : ((pairTag (greedy near [] (endpoints fs)).2 (List.replicate fs.length [])).zip ids).filter
      (fun p => p.1.1 != p.1.2.1)
      = (pairTag (greedy near [] (endpoints fs)).2 (List.replicate fs.length [])).zip ids :=
    List.filter_eq_self.mpr (fun p hp => pairTag_ne _ fs _ hm hlen p.1 (List.of_mem_zip hp).1)
  have h1 : ((pairTag (greedy near [] (endpoints fs)).2 (List.replicate fs.length [])).zip ids).map (·.1)
      = pairTag (greedy near [] (endpoints fs)).2 (List.replicate fs.length []) :=
    List.map_fst_zip (by rw [hes, hids]; exact Nat.le_refl _)
  have h2 : ((pairTag (greedy near [] (endpoints fs)).2 (List.replicate fs.length [])).zip ids).map
      (fun p => n.toIdx p.2) = ids.map n.toIdx := by
    rw [← List.map_snd_zip (l₁ := pairTag (greedy near [] (endpoints fs)).2 (List.replicate fs.length []))
      (l₂ := ids) (by rw [hes, hids]; exact Nat.le_refl _), List.map_map]
    rw [List.map_snd_zip (by rw [hes, hids]; exact Nat.le_refl _)]
    rfl
  simp only [finishCore, hfst, hsnd, hlook, hfilter, h1, h2, mkFrac_pairTag degen _ fs _ hm hdeg]

theorem domOr_cons_isSome {V : Type} (n : Num V) (dom : Option (Box2 V)) (f : Frac2 V) (fs : List (Frac2 V)) :
    ∃ d, domOr n dom (endpoints (f :: fs)) = some d := by
  cases dom with
  | some d => exact ⟨d, rfl⟩
  | none => exact ⟨_, rfl⟩

theorem read2dRows_spec {V T : Type} [DecidableEq V] (c : Codec V T) (n : Num V) (hF : Faithful c n)
    (near degen : Pt2 V → Pt2 V → Bool) (fs : List (Frac2 V)) (hne : fs ≠ []) (skip : Nat)
    (dom : Option (Box2 V))
    (hnear : ∀ p ∈ endpoints fs, ∀ q ∈ endpoints fs, near p q = true → p = q)
    (hlen : ∀ f ∈ fs, f.a ≠ f.b) (hdeg : ∀ f ∈ fs, degen f.a f.b = false) :
    read2dRows n near degen (valsSpec n 0 fs) ⟨skip, none, none, false, dom⟩
      = .ok ⟨fs.map strip, domOr n dom (endpoints fs), (List.range' 0 fs.length).map Int.ofNat⟩ := by
  cases fs with
  | nil => exact absurd rfl hne
  | cons f fs' =>
    have hcols : ptCols (((valsSpec n 0 (f :: fs')).head?.map List.length).getD 0) none = [1, 2, 3, 4] := by
      simp only [valsSpec, List.head?_cons, Option.map_some, List.length_cons, List.length_nil,
        Option.getD_some]
      decide
    obtain ⟨d, hd⟩ := domOr_cons_isSome n dom f fs'
    have hfin := finishCore_spec n near degen d (f :: fs') (idVals n 0 (f :: fs'))
      (idVals_length n 0 _) hnear hlen hdeg
    simp only [read2dRows, hcols, sel_valsSpec, pairUp_sel, tags_valsSpec, heads_valsSpec, finish2, hd,
      hfin, idVals_toIdx c n hF]
    rfl

/-! ### 3-D -/

theorem decodeRow_map_enc {V T : Type} (c : Codec V T) (n : Num V) (hF : Faithful c n) (e : Err) (l : List V) :
    decodeRow c e (l.map c.enc) = .ok l := by
  induction l with
  | nil => rfl
  | cons v l ih =>
    simp only [decodeRow, decodeWith] at ih
    simp only [decodeRow, decodeWith, List.map_cons, mapE, hF.dec_enc, ih]

theorem triples_flat3 {V : Type} (f : List (Pt3 V)) : triples (flat3 f) = .ok f := by
  induction f with
  | nil => rfl
  | cons p ps ih => simp only [flat3, triples, ih]

theorem readFracs_rows {V T : Type} (c : Codec V T) (n : Num V) (hF : Faithful c n)
    (norm : List (Pt3 V) → Except Err (List (Pt3 V))) (fracs : List (List (Pt3 V)))
    (hne : ∀ f ∈ fracs, f ≠ []) :
    readFracs c norm (fracs.map (fun f => Line.data ((flat3 f).map c.enc))) = mapE norm fracs := by
  induction fracs with
  | nil => rfl
  | cons f fs ih =>
    have ih' := ih (fun g hg => hne g (List.mem_cons_of_mem _ hg))
    cases f with
    | nil => exact absurd rfl (hne [] (List.mem_cons_self))
    | cons p ps =>
      have hdec := decodeRow_map_enc c n hF .value (flat3 (p :: ps))
      have htr := triples_flat3 (p :: ps)
      simp only [flat3, List.map_cons] at hdec htr
      simp only [List.map_cons, flat3, readFracs, hdec, htr, mapE]
      rw [ih']
      cases norm (p :: ps) with
      | error e => rfl
      | ok b => cases mapE norm fs <;> rfl

theorem mapE_pointwise {α β : Type} (f : α → Except Err β) (R : β → α → Prop) (l : List α) (r : List β)
    (h : ∀ a ∈ l, ∀ b, f a = .ok b → R b a) (hr : mapE f l = .ok r) : Pointwise R r l := by
  induction l generalizing r with
  | nil =>
    simp only [mapE] at hr
    cases hr
    exact .nil
  | cons a as ih =>
    simp only [mapE] at hr
    cases hfa : f a with
    | error e => simp [hfa] at hr
    | ok b =>
      cases hm : mapE f as with
      | error e => simp [hfa, hm] at hr
      | ok bs =>
        simp only [hfa, hm] at hr
        cases hr
        exact .cons (h a (List.mem_cons_self) b hfa)
          (ih bs (fun x hx => h x (List.mem_cons_of_mem _ hx)) hm)

/-! ### txt: header -/

theorem splitAux_word (w : List Char) (hw : ∀ ch ∈ w, isWs ch = false) (cur rest : List Char)
    (hne : cur ++ w ≠ []) :
    splitAux (w ++ ' ' :: rest) cur = (cur ++ w) :: splitAux rest [] := by
  induction w generalizing cur with
  | nil =>
    have hc : cur ≠ [] := by simpa using hne
    have : cur.isEmpty = false := by
      cases cur with
      | nil => exact absurd rfl hc
      | cons _ _ => rfl
    simp only [List.nil_append, splitAux, List.append_nil, this]
    rfl
  | cons ch w ih =>
    have h1 : isWs ch = false := hw ch (List.mem_cons_self)
    have := ih (fun x hx => hw x (List.mem_cons_of_mem _ hx)) (cur ++ [ch]) (by simp)
    simp only [List.cons_append, splitAux, h1]
    simpa using this

theorem split_join (names : List Name) (h : ∀ w ∈ names, w ≠ [] ∧ ∀ ch ∈ w, isWs ch = false) :
    splitAux (joinNames names) [] = names := by
  induction names with
  | nil => rfl
  | cons w ws ih =>
    have hw := h w (List.mem_cons_self)
    simp only [joinNames]
    rw [splitAux_word w hw.2 [] _ (by simpa using hw.1)]
    simp only [List.nil_append, ih (fun x hx => h x (List.mem_cons_of_mem _ hx))]

theorem lstrip_header (names : List Name) (h : ∀ w ∈ names, w ≠ [] ∧ ∀ ch ∈ w, isWs ch = false)
    (hfirst : ∀ w, names.head? = some w → w.head? ≠ some '#') :
    lstripHash (headerLine names) = joinNames names := by
  cases names with
  | nil => rfl
  | cons w ws =>
    have hw := h w (List.mem_cons_self)
    have hf := hfirst w rfl
    cases w with
    | nil => exact absurd rfl hw.1
    | cons ch w' =>
      have h1 : isWs ch = false := hw.2 ch (List.mem_cons_self)
      have h2 : ch ≠ '#' := by
        intro hc; subst hc; exact hf rfl
      have h3 : ch ≠ ' ' := by
        intro hc; subst hc; simp [isWs] at h1
      have h4 : (ch == '#' || ch == ' ') = false := by simp [h2, h3]
      simp only [headerLine, joinNames, lstripHash, List.cons_append, h4]
      rfl

theorem readNames_headerLine (names : List Name) (h : ∀ w ∈ names, w ≠ [] ∧ ∀ ch ∈ w, isWs ch = false)
    (hfirst : ∀ w, names.head? = some w → w.head? ≠ some '#') :
    readNames (headerLine names) = names := by
  simp only [readNames, lstrip_header names h hfirst, split_join names h]

/-! ### txt: table -/

theorem replicate_nil_of_forall {α : Type} (cols : List (List α)) (h : ∀ c ∈ cols, c.length = 0) :
    List.replicate cols.length [] = cols := by
  induction cols with
  | nil => rfl
  | cons c cols ih =>
    have hc : c = [] := List.eq_nil_of_length_eq_zero (h c (List.mem_cons_self))
    subst hc
    simp only [List.length_cons, List.replicate_succ, ih (fun x hx => h x (List.mem_cons_of_mem _ hx))]

theorem zipWith_heads_tails {α : Type} (cols : List (List α)) (k : Nat) (h : ∀ c ∈ cols, c.length = k + 1) :
    List.zipWith (· :: ·) (cols.filterMap List.head?) (cols.map List.tail) = cols := by
  induction cols with
  | nil => rfl
  | cons c cols ih =>
    have hc := h c (List.mem_cons_self)
    cases c with
    | nil => simp at hc
    | cons x xs =>
      simp only [List.filterMap_cons, List.head?_cons, List.map_cons, List.tail_cons, List.zipWith_cons_cons,
        ih (fun y hy => h y (List.mem_cons_of_mem _ hy))]

theorem heads_length {α : Type} (cols : List (List α)) (k : Nat) (h : ∀ c ∈ cols, c.length = k + 1) :
    (cols.filterMap List.head?).length = cols.length := by
  induction cols with
  | nil => rfl
  | cons c cols ih =>
    have hc := h c (List.mem_cons_self)
    cases c with
    | nil => simp at hc
    | cons x xs =>
      simp only [List.filterMap_cons, List.head?_cons, List.length_cons,
        ih (fun y hy => h y (List.mem_cons_of_mem _ hy))]

theorem tails_length {α : Type} (cols : List (List α)) (k : Nat) (h : ∀ c ∈ cols, c.length = k + 1) :
    ∀ c ∈ cols.map List.tail, c.length = k := by
  intro c hc
  obtain ⟨d, hd, rfl⟩ := List.mem_map.mp hc
  have := h d hd
  simp only [List.length_tail, this, Nat.add_sub_cancel]

theorem transpose_rowsOf {α : Type} (k : Nat) (cols : List (List α)) (h : ∀ c ∈ cols, c.length = k) :
    transposeRows cols.length (rowsOf k cols) = cols := by
  induction k generalizing cols with
  | zero => simp only [rowsOf, transposeRows, replicate_nil_of_forall cols h]
  | succ k ih =>
    have := ih (cols.map List.tail) (tails_length cols k h)
    rw [List.length_map] at this
    simp only [rowsOf, transposeRows, this, zipWith_heads_tails cols k h]

theorem rowsOf_row_length {α : Type} (k : Nat) (cols : List (List α)) (h : ∀ c ∈ cols, c.length = k) :
    ∀ r ∈ rowsOf k cols, r.length = cols.length := by
  induction k generalizing cols with
  | zero => intro r hr; cases hr
  | succ k ih =>
    intro r hr
    simp only [rowsOf, List.mem_cons] at hr
    rcases hr with rfl | hr
    · exact heads_length cols k h
    · have := ih (cols.map List.tail) (tails_length cols k h) r hr
      rwa [List.length_map] at this

theorem sameLen_of_forall {α : Type} (rows : List (List α)) (n : Nat) (h : ∀ r ∈ rows, r.length = n) :
    sameLen rows = true := by
  cases rows with
  | nil => rfl
  | cons r rs =>
    simp only [sameLen, List.all_eq_true, beq_iff_eq]
    intro s hs
    rw [h s (List.mem_cons_of_mem _ hs), h r (List.mem_cons_self)]

theorem columnsOf_rowsOf {α : Type} (k : Nat) (cols : List (List α)) (h : ∀ c ∈ cols, c.length = k) :
    columnsOf cols.length (rowsOf k cols) = cols := by
  cases k with
  | zero => simp only [rowsOf, columnsOf, replicate_nil_of_forall cols h]
  | succ k =>
    have hl := heads_length cols k h
    have := transpose_rowsOf (k + 1) cols h
    simp only [rowsOf] at this
    simp only [rowsOf, columnsOf, hl, this]

/-- columns as written (`enc fmt v`) and as read back (`rnd fmt v`) -/
def encCols {V F T : Type} (enc : F → V → T) (cols : List (TxtCol V F)) : List (List T) :=
  cols.map (fun c => c.arr.map (enc c.fmt))

def tailCols {V F : Type} (cols : List (TxtCol V F)) : List (TxtCol V F) :=
  cols.map (fun c => { c with arr := c.arr.tail })

theorem encCols_tail {V F T : Type} (enc : F → V → T) (cols : List (TxtCol V F)) :
    (encCols enc cols).map List.tail = encCols enc (tailCols cols) := by
  simp only [encCols, tailCols, List.map_map]
  apply List.map_congr_left
  intro c _
  simp only [Function.comp, List.map_tail]

theorem decode_heads {V F T : Type} (enc : F → V → T) (dec : T → Option V) (rnd : F → V → V)
    (hcodec : ∀ f v, dec (enc f v) = some (rnd f v)) (e : Err) (cols : List (TxtCol V F)) :
    decodeWith dec e ((encCols enc cols).filterMap List.head?)
      = .ok ((encCols rnd cols).filterMap List.head?) := by
  induction cols with
  | nil => rfl
  | cons c cols ih =>
    simp only [decodeWith, encCols] at ih
    cases hc : c.arr with
    | nil => simp only [decodeWith, encCols, List.map_cons, hc, List.map_nil, List.filterMap_cons,
        List.head?_nil, ih]
    | cons v vs => simp only [decodeWith, encCols, List.map_cons, hc, List.filterMap_cons, List.head?_cons,
        mapE, hcodec, ih]

theorem decode_rowsOf {V F T : Type} (enc : F → V → T) (dec : T → Option V) (rnd : F → V → V)
    (hcodec : ∀ f v, dec (enc f v) = some (rnd f v)) (e : Err) (k : Nat) (cols : List (TxtCol V F)) :
    mapE (decodeWith dec e) (rowsOf k (encCols enc cols)) = .ok (rowsOf k (encCols rnd cols)) := by
  induction k generalizing cols with
  | zero => rfl
  | succ k ih =>
    simp only [rowsOf, mapE, decode_heads enc dec rnd hcodec e cols, encCols_tail, ih (tailCols cols)]

end PorepyVerif.C47
