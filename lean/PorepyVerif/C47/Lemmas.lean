/-
C47 — helper lemmas for the round-trip theorems (core Lean only; no Mathlib needed).
-/
import PorepyVerif.C47.Model

namespace PorepyVerif.C47

/-! ### mapE / getE -/

theorem mapE_ok_of_forall {α β : Type} (f : α → Except Err β) (g : α → β) (l : List α)
    (h : ∀ a ∈ l, f a = .ok (g a)) : mapE f l = .ok (l.map g) := by
  induction l with
  | nil => rfl
  | cons a as ih =>
    have ha := h a (List.mem_cons_self)
    have := ih (fun x hx => h x (List.mem_cons_of_mem _ hx))
    simp only [mapE, ha, this, List.map_cons]

theorem getE_of_getElem? {α : Type} (l : List α) (i : Nat) (x : α) (h : l[i]? = some x) :
    getE l i = .ok x := by
  simp only [getE, h]

/-! ### the greedy point table -/

theorem firstIdx_some {P : Type} (f : P → Bool) (l : List P) (i : Nat) (h : firstIdx f l = some i) :
    ∃ x, l[i]? = some x ∧ f x = true := by
  induction l generalizing i with
  | nil => simp [firstIdx] at h
  | cons a as ih =>
    simp only [firstIdx] at h
    by_cases ha : f a = true
    · simp only [ha, if_true] at h
      cases h
      exact ⟨a, by simp, ha⟩
    · simp only [ha] at h
      cases hf : firstIdx f as with
      | none => simp [hf] at h
      | some j =>
        simp only [hf, Option.map_some] at h
        cases h
        obtain ⟨x, hx, hfx⟩ := ih j hf
        exact ⟨x, by simpa using hx, hfx⟩

theorem greedy_prefix {P : Type} (rel : P → P → Bool) (pts reps : List P) :
    ∃ t, (greedy rel reps pts).1 = reps ++ t := by
  induction pts generalizing reps with
  | nil => exact ⟨[], by simp [greedy]⟩
  | cons p ps ih =>
    simp only [greedy]
    cases firstIdx (fun x => rel x p) reps with
    | some i => exact ih reps
    | none =>
      obtain ⟨t, ht⟩ := ih (reps ++ [p])
      exact ⟨p :: t, by simp [ht]⟩

/-- If `rel` relates no two DISTINCT points among the table entries and the incoming points, every
    incoming point is mapped to a table slot that holds exactly that point. -/
theorem greedy_lookup {P : Type} (rel : P → P → Bool) (pts reps : List P)
    (hd : ∀ x, x ∈ reps ∨ x ∈ pts → ∀ p ∈ pts, rel x p = true → x = p) :
    (greedy rel reps pts).2.map (fun i => (greedy rel reps pts).1[i]?) = pts.map some := by
  induction pts generalizing reps with
  | nil => simp [greedy]
  | cons p ps ih =>
    simp only [greedy]
    cases hf : firstIdx (fun x => rel x p) reps with
    | some i =>
      simp only [List.map_cons]
      obtain ⟨x, hx, hr⟩ := firstIdx_some _ _ _ hf
      have hxr : x ∈ reps := List.mem_of_getElem? hx
      have hxp : x = p := hd x (Or.inl hxr) p (List.mem_cons_self) hr
      obtain ⟨t, ht⟩ := greedy_prefix rel ps reps
      have h1 : (greedy rel reps ps).1[i]? = some p := by
        rw [ht, List.getElem?_append_left (by
          have := List.getElem?_eq_some_iff.mp hx
          exact this.1), hx, hxp]
      rw [h1]
      congr 1
      exact ih reps (fun y hy q hq hrel => hd y (by
        rcases hy with h | h
        · exact Or.inl h
        · exact Or.inr (List.mem_cons_of_mem _ h)) q (List.mem_cons_of_mem _ hq) hrel)
    | none =>
      simp only [List.map_cons]
      obtain ⟨t, ht⟩ := greedy_prefix rel ps (reps ++ [p])
      have h1 : (greedy rel (reps ++ [p]) ps).1[reps.length]? = some p := by
        rw [ht, List.append_assoc]
        simp
      rw [h1]
      congr 1
      exact ih (reps ++ [p]) (fun y hy q hq hrel => hd y (by
        rcases hy with h | h
        · rcases List.mem_append.mp h with h' | h'
          · exact Or.inl h'
          · simp at h'; subst h'; exact Or.inr (List.mem_cons_self)
        · exact Or.inr (List.mem_cons_of_mem _ h)) q (List.mem_cons_of_mem _ hq) hrel)

/-! ### 2-D: what `to_csv` writes -/

/-- specification of the written rows: fracture k contributes `[k, a.x, a.y, b.x, b.y]` -/
def rowsSpec {V T : Type} (c : Codec V T) : Nat → List (Frac2 V) → List (Line T)
  | _, [] => []
  | k, f :: fs => .data [c.encIdx k, c.enc f.a.1, c.enc f.a.2, c.enc f.b.1, c.enc f.b.2] :: rowsSpec c (k + 1) fs

theorem rows2_spec {V T : Type} (c : Codec V T) (U : List (Pt2 V)) (fs : List (Frac2 V)) (m : List Nat) (k : Nat)
    (hm : m.map (fun i => U[i]?) = (endpoints fs).map some) :
    rows2 c U k (pairIdx m) = .ok (rowsSpec c k fs) := by
  induction fs generalizing m k with
  | nil =>
    simp only [endpoints, List.map_nil, List.map_eq_nil_iff] at hm
    subst hm
    rfl
  | cons f fs ih =>
    match m, hm with
    | i :: j :: m', hm =>
      simp only [endpoints, List.map_cons, List.cons.injEq] at hm
      obtain ⟨hi, hj, hm'⟩ := hm
      simp only [pairIdx, rows2, getE, hi, hj, ih m' (k + 1) hm', rowsSpec]
    | [], hm => simp [endpoints] at hm
    | [_], hm => simp [endpoints] at hm

theorem write2d_spec {V T : Type} (c : Codec V T) (close : Pt2 V → Pt2 V → Bool) (fs : List (Frac2 V))
    (hdr : Bool)
    (hclose : ∀ p ∈ endpoints fs, ∀ q ∈ endpoints fs, close p q = true → p = q) :
    write2d c close fs hdr
      = .ok (if hdr then Line.comment header2 :: rowsSpec c 0 fs else rowsSpec c 0 fs) := by
  have hm := greedy_lookup close (endpoints fs) [] (fun x hx p hp h => by
    rcases hx with hx | hx
    · cases hx
    · exact hclose x hx p hp h)
  simp only [write2d, rows2_spec c _ fs _ 0 hm]

/-! ### 2-D: what `network_2d_from_csv` sees -/

def valsSpec {V : Type} (n : Num V) : Nat → List (Frac2 V) → List (List V)
  | _, [] => []
  | k, f :: fs => [n.ofIdx k, f.a.1, f.a.2, f.b.1, f.b.2] :: valsSpec n (k + 1) fs

def idVals {V : Type} (n : Num V) : Nat → List (Frac2 V) → List V
  | _, [] => []
  | k, _ :: fs => n.ofIdx k :: idVals n (k + 1) fs

/-- a fracture as the reader without tag columns returns it -/
def strip {V : Type} (f : Frac2 V) : Frac2 V := ⟨f.a, f.b, []⟩

theorem decode_rowsSpec {V T : Type} (c : Codec V T) (n : Num V) (hF : Faithful c n) (k : Nat)
    (fs : List (Frac2 V)) :
    mapE (decodeRow c .decode) ((rowsSpec c k fs).filterMap cellsOf) = .ok (valsSpec n k fs) := by
  induction fs generalizing k with
  | nil => rfl
  | cons f fs ih =>
    have h5 : decodeRow c .decode [c.encIdx k, c.enc f.a.1, c.enc f.a.2, c.enc f.b.1, c.enc f.b.2]
        = .ok [n.ofIdx k, f.a.1, f.a.2, f.b.1, f.b.2] := by
      simp only [decodeRow, decodeWith, mapE, hF.dec_enc, hF.dec_encIdx]
    simp only [rowsSpec, List.filterMap_cons, cellsOf, mapE, h5, ih (k + 1), valsSpec]

theorem valsSpec_length {V : Type} (n : Num V) (k : Nat) (fs : List (Frac2 V)) :
    ∀ r ∈ valsSpec n k fs, r.length = 5 := by
  induction fs generalizing k with
  | nil => intro r hr; cases hr
  | cons f fs ih =>
    intro r hr
    simp only [valsSpec, List.mem_cons] at hr
    rcases hr with rfl | hr
    · rfl
    · exact ih (k + 1) r hr

theorem sameLen_valsSpec {V : Type} (n : Num V) (k : Nat) (fs : List (Frac2 V)) :
    sameLen (valsSpec n k fs) = true := by
  cases fs with
  | nil => rfl
  | cons f fs =>
    simp only [valsSpec, sameLen, List.all_eq_true, beq_iff_eq]
    intro r hr
    exact valsSpec_length n (k + 1) fs r hr

theorem sel_valsSpec {V : Type} (n : Num V) (k : Nat) (fs : List (Frac2 V)) :
    mapE (selRow [1, 2, 3, 4]) (valsSpec n k fs)
      = .ok (fs.map (fun f => [f.a.1, f.a.2, f.b.1, f.b.2])) := by
  induction fs generalizing k with
  | nil => rfl
  | cons f fs ih =>
    have h5 : selRow [1, 2, 3, 4] [n.ofIdx k, f.a.1, f.a.2, f.b.1, f.b.2]
        = .ok [f.a.1, f.a.2, f.b.1, f.b.2] := rfl
    simp only [valsSpec, mapE, h5, ih (k + 1), List.map_cons]

theorem pairUp_sel {V : Type} (fs : List (Frac2 V)) :
    pairUp (fs.map (fun f => [f.a.1, f.a.2, f.b.1, f.b.2])).flatten = .ok (endpoints fs) := by
  induction fs with
  | nil => rfl
  | cons f fs ih =>
    simp only [List.map_cons, List.flatten_cons, List.cons_append, List.nil_append, pairUp, ih,
      endpoints]

theorem heads_valsSpec {V : Type} (n : Num V) (d : V) (k : Nat) (fs : List (Frac2 V)) :
    (valsSpec n k fs).map (fun r => r.headD d) = idVals n k fs := by
  induction fs generalizing k with
  | nil => rfl
  | cons f fs ih => simp only [valsSpec, List.map_cons, List.headD_cons, ih (k + 1), idVals]

theorem tags_valsSpec {V : Type} (n : Num V) (k : Nat) (fs : List (Frac2 V)) :
    mapE (tagsOfRow n none) (valsSpec n k fs) = .ok (List.replicate fs.length []) := by
  induction fs generalizing k with
  | nil => rfl
  | cons f fs ih => simp only [valsSpec, mapE, tagsOfRow, ih (k + 1), List.length_cons, List.replicate_succ]

theorem idVals_length {V : Type} (n : Num V) (k : Nat) (fs : List (Frac2 V)) :
    (idVals n k fs).length = fs.length := by
  induction fs generalizing k with
  | nil => rfl
  | cons f fs ih => simp only [idVals, List.length_cons, ih (k + 1)]

theorem idVals_toIdx {V T : Type} (c : Codec V T) (n : Num V) (hF : Faithful c n) (k : Nat)
    (fs : List (Frac2 V)) :
    (idVals n k fs).map n.toIdx = (List.range' k fs.length).map Int.ofNat := by
  induction fs generalizing k with
  | nil => rfl
  | cons f fs ih =>
    simp only [idVals, List.map_cons, hF.toIdx_ofIdx, ih (k + 1), List.length_cons, List.range'_succ]
    rfl

/-- index pairs of `m` together with the tags -/
def pairTag : List Nat → List (List Int) → List (Nat × Nat × List Int)
  | i :: j :: r, t :: ts => (i, j, t) :: pairTag r ts
  | _, _ => []

theorem seqEdges_lookup (ts : List (List Int)) (pre m' : List Nat) (h : m'.length = 2 * ts.length) :
    mapE (lookupEdge (pre ++ m')) (seqEdges pre.length ts) = .ok (pairTag m' ts) := by
  induction ts generalizing pre m' with
  | nil =>
    have : m' = [] := List.eq_nil_of_length_eq_zero (by simpa using h)
    subst this
    rfl
  | cons t ts ih =>
    match m', h with
    | i :: j :: m'', h =>
      have h1 : (pre ++ i :: j :: m'')[pre.length]? = some i := by simp
      have h2 : (pre ++ i :: j :: m'')[pre.length + 1]? = some j := by
        rw [List.getElem?_append_right (Nat.le_add_right _ _)]
        simp
      have h3 : pre ++ i :: j :: m'' = (pre ++ [i, j]) ++ m'' := by simp
      have h4 : pre.length + 2 = (pre ++ [i, j]).length := by simp
      have h5 : m''.length = 2 * ts.length := by
        simp only [List.length_cons] at h
        omega
      simp only [seqEdges, mapE, lookupEdge, getE, h1, h2, pairTag]
      rw [h3, h4, ih (pre ++ [i, j]) m'' h5]
    | [], h => simp at h
    | [_], h => simp only [List.length_cons, List.length_nil] at h; omega

theorem pairTag_length {V : Type} (U : List (Pt2 V)) (fs : List (Frac2 V)) (m : List Nat)
    (hm : m.map (fun i => U[i]?) = (endpoints fs).map some) :
    (pairTag m (List.replicate fs.length [])).length = fs.length := by
  induction fs generalizing m with
  | nil => 
    simp only [endpoints, List.map_nil, List.map_eq_nil_iff] at hm
    subst hm; rfl
  | cons f fs ih =>
    match m, hm with
    | i :: j :: m', hm =>
      simp only [endpoints, List.map_cons, List.cons.injEq] at hm
      simp only [List.length_cons, List.replicate_succ, pairTag, ih m' hm.2.2]
    | [], hm => simp [endpoints] at hm
    | [_], hm => simp [endpoints] at hm

theorem m_length {V : Type} (U : List (Pt2 V)) (fs : List (Frac2 V)) (m : List Nat)
    (hm : m.map (fun i => U[i]?) = (endpoints fs).map some) : m.length = 2 * fs.length := by
  have := congrArg List.length hm
  simp only [List.length_map] at this
  rw [this]
  clear hm this
  induction fs with
  | nil => rfl
  | cons f fs ih => simp only [endpoints, List.length_cons, ih]; omega

theorem pairTag_ne {V : Type} (U : List (Pt2 V)) (fs : List (Frac2 V)) (m : List Nat)
    (hm : m.map (fun i => U[i]?) = (endpoints fs).map some) (hlen : ∀ f ∈ fs, f.a ≠ f.b) :
    ∀ e ∈ pairTag m (List.replicate fs.length []), (e.1 != e.2.1) = true := by
  induction fs generalizing m with
  | nil =>
    simp only [endpoints, List.map_nil, List.map_eq_nil_iff] at hm
    subst hm; intro e he; cases he
  | cons f fs ih =>
    match m, hm with
    | i :: j :: m', hm =>
      simp only [endpoints, List.map_cons, List.cons.injEq] at hm
      obtain ⟨hi, hj, hm'⟩ := hm
      intro e he
      simp only [List.length_cons, List.replicate_succ, pairTag, List.mem_cons] at he
      rcases he with rfl | he
      · simp only [bne_iff_ne, ne_eq]
        intro hij
        subst hij
        rw [hi] at hj
        exact hlen f (List.mem_cons_self) (Option.some.inj hj)
      · exact ih m' hm' (fun g hg => hlen g (List.mem_cons_of_mem _ hg)) e he
    | [], hm => simp [endpoints] at hm
    | [_], hm => simp [endpoints] at hm

theorem mkFrac_pairTag {V : Type} (degen : Pt2 V → Pt2 V → Bool) (U : List (Pt2 V)) (fs : List (Frac2 V))
    (m : List Nat) (hm : m.map (fun i => U[i]?) = (endpoints fs).map some)
    (hdeg : ∀ f ∈ fs, degen f.a f.b = false) :
    mapE (mkFrac degen U) (pairTag m (List.replicate fs.length [])) = .ok (fs.map strip) := by
  induction fs generalizing m with
  | nil =>
    simp only [endpoints, List.map_nil, List.map_eq_nil_iff] at hm
    subst hm; rfl
  | cons f fs ih =>
    match m, hm with
    | i :: j :: m', hm =>
      simp only [endpoints, List.map_cons, List.cons.injEq] at hm
      obtain ⟨hi, hj, hm'⟩ := hm
      have hd := hdeg f (List.mem_cons_self)
      simp only [List.length_cons, List.replicate_succ, pairTag, mapE, mkFrac, getE, hi, hj, hd,
        ih m' hm' (fun g hg => hdeg g (List.mem_cons_of_mem _ hg)), List.map_cons, strip]
      rfl
    | [], hm => simp [endpoints] at hm
    | [_], hm => simp [endpoints] at hm

end PorepyVerif.C47
