/-
C47 — helper lemmas for the round-trip theorems (core Lean, plus Mathlib.Data.List.Rotate for the
rotation algebra behind `Dihedral`).
-/
import PorepyVerif.C47.Model
import Mathlib.Data.List.Rotate

namespace PorepyVerif.C47

/-! ### mapE / getE -/

theorem mapE_ok_of_forall {α β : Type} (f : α → Except Err β) (g : α → β) (l : List α)
    (h : ∀ a ∈ l, f a = .ok (g a)) : mapE f l = .ok (l.map g) := by
  induction l with
  | nil => rfl
  | cons a as ih =>
    have ha := h a (List.mem_cons_self)
    have := ih (fun x hx => h x (List.mem_cons_of_mem _ hx))
    simp only [mapE, ha, this, List.map_cons]

theorem getE_of_getElem? {α : Type} (l : List α) (i : Nat) (x : α) (h : l[i]? = some x) :
    getE l i = .ok x := by
  simp only [getE, h]

/-! ### the greedy point table -/

theorem firstIdx_some {P : Type} (f : P → Bool) (l : List P) (i : Nat) (h : firstIdx f l = some i) :
    ∃ x, l[i]? = some x ∧ f x = true := by
  induction l generalizing i with
  | nil => simp [firstIdx] at h
  | cons a as ih =>
    simp only [firstIdx] at h
    by_cases ha : f a = true
    · simp only [ha, if_true] at h
      cases h
      exact ⟨a, by simp, ha⟩
    · simp only [ha] at h
      cases hf : firstIdx f as with
      | none => simp [hf] at h
      | some j =>
        simp only [hf, Option.map_some] at h
        cases h
        obtain ⟨x, hx, hfx⟩ := ih j hf
        exact ⟨x, by simpa using hx, hfx⟩

theorem greedy_prefix {P : Type} (rel : P → P → Bool) (pts reps : List P) :
    ∃ t, (greedy rel reps pts).1 = reps ++ t := by
  induction pts generalizing reps with
  | nil => exact ⟨[], by simp [greedy]⟩
  | cons p ps ih =>
    simp only [greedy]
    cases firstIdx (fun x => rel x p) reps with
    | some i => exact ih reps
    | none =>
      obtain ⟨t, ht⟩ := ih (reps ++ [p])
      exact ⟨p :: t, by simp [ht]⟩

/-- If `rel` relates no two DISTINCT points among the table entries and the incoming points, every
    incoming point is mapped to a table slot that holds exactly that point. -/
theorem greedy_lookup {P : Type} (rel : P → P → Bool) (pts reps : List P)
    (hd : ∀ x, x ∈ reps ∨ x ∈ pts → ∀ p ∈ pts, rel x p = true → x = p) :
    (greedy rel reps pts).2.map (fun i => (greedy rel reps pts).1[i]?) = pts.map some := by
  induction pts generalizing reps with
  | nil => simp [greedy]
  | cons p ps ih =>
    simp only [greedy]
    cases hf : firstIdx (fun x => rel x p) reps with
    | some i =>
      simp only [List.map_cons]
      obtain ⟨x, hx, hr⟩ := firstIdx_some _ _ _ hf
      have hxr : x ∈ reps := List.mem_of_getElem? hx
      have hxp : x = p := hd x (Or.inl hxr) p (List.mem_cons_self) hr
      obtain ⟨t, ht⟩ := greedy_prefix rel ps reps
      have h1 : (greedy rel reps ps).1[i]? = some p := by
        rw [ht, List.getElem?_append_left (by
          have := List.getElem?_eq_some_iff.mp hx
          exact this.1), hx, hxp]
      rw [h1]
      congr 1
      exact ih reps (fun y hy q hq hrel => hd y (by
        rcases hy with h | h
        · exact Or.inl h
        · exact Or.inr (List.mem_cons_of_mem _ h)) q (List.mem_cons_of_mem _ hq) hrel)
    | none =>
      simp only [List.map_cons]
      obtain ⟨t, ht⟩ := greedy_prefix rel ps (reps ++ [p])
      have h1 : (greedy rel (reps ++ [p]) ps).1[reps.length]? = some p := by
        rw [ht, List.append_assoc]
        simp
      rw [h1]
      congr 1
      exact ih (reps ++ [p]) (fun y hy q hq hrel => hd y (by
        rcases hy with h | h
        · rcases List.mem_append.mp h with h' | h'
          · exact Or.inl h'
          · simp at h'; subst h'; exact Or.inr (List.mem_cons_self)
        · exact Or.inr (List.mem_cons_of_mem _ h)) q (List.mem_cons_of_mem _ hq) hrel)

/-! ### 2-D: what `to_csv` writes -/

theorem rows2_spec {V T : Type} (c : Codec V T) (U : List (Pt2 V)) (fs : List (Frac2 V)) (m : List Nat) (k : Nat)
    (hm : m.map (fun i => U[i]?) = (endpoints fs).map some) :
    rows2 c U k (pairIdx m) = .ok (rowsSpec c k fs) := by
  induction fs generalizing m k with
  | nil =>
    simp only [endpoints, List.map_nil, List.map_eq_nil_iff] at hm
    subst hm
    rfl
  | cons f fs ih =>
    match m, hm with
    | i :: j :: m', hm =>
      simp only [endpoints, List.map_cons, List.cons.injEq] at hm
      obtain ⟨hi, hj, hm'⟩ := hm
      simp only [pairIdx, rows2, getE, hi, hj, ih m' (k + 1) hm', rowsSpec]
    | [], hm => simp [endpoints] at hm
    | [_], hm => simp [endpoints] at hm

theorem write2d_spec {V T : Type} (c : Codec V T) (close : Pt2 V → Pt2 V → Bool) (fs : List (Frac2 V))
    (hdr : Bool)
    (hclose : ∀ p ∈ endpoints fs, ∀ q ∈ endpoints fs, close p q = true → p = q) :
    write2d c close fs hdr
      = .ok (if hdr then Line.comment header2 :: rowsSpec c 0 fs else rowsSpec c 0 fs) := by
  have hm := greedy_lookup close (endpoints fs) [] (fun x hx p hp h => by
    rcases hx with hx | hx
    · cases hx
    · exact hclose x hx p hp h)
  simp only [write2d, rows2_spec c _ fs _ 0 hm]

/-! ### 2-D: what `network_2d_from_csv` sees -/

def valsSpec {V : Type} (n : Num V) : Nat → List (Frac2 V) → List (List V)
  | _, [] => []
  | k, f :: fs => [n.ofIdx k, f.a.1, f.a.2, f.b.1, f.b.2] :: valsSpec n (k + 1) fs

def idVals {V : Type} (n : Num V) : Nat → List (Frac2 V) → List V
  | _, [] => []
  | k, _ :: fs => n.ofIdx k :: idVals n (k + 1) fs

theorem decode_rowsSpec {V T : Type} (c : Codec V T) (n : Num V) (hF : Faithful c n) (k : Nat)
    (fs : List (Frac2 V)) :
    mapE (decodeRow c .decode) ((rowsSpec c k fs).filterMap cellsOf) = .ok (valsSpec n k fs) := by
  induction fs generalizing k with
  | nil => rfl
  | cons f fs ih =>
    have h5 : decodeRow c .decode [c.encIdx k, c.enc f.a.1, c.enc f.a.2, c.enc f.b.1, c.enc f.b.2]
        = .ok [n.ofIdx k, f.a.1, f.a.2, f.b.1, f.b.2] := by
      simp only [decodeRow, decodeWith, mapE, hF.dec_enc, hF.dec_encIdx]
    simp only [rowsSpec, List.filterMap_cons, cellsOf, mapE, h5, ih (k + 1), valsSpec]

theorem valsSpec_length {V : Type} (n : Num V) (k : Nat) (fs : List (Frac2 V)) :
    ∀ r ∈ valsSpec n k fs, r.length = 5 := by
  induction fs generalizing k with
  | nil => intro r hr; cases hr
  | cons f fs ih =>
    intro r hr
    simp only [valsSpec, List.mem_cons] at hr
    rcases hr with rfl | hr
    · rfl
    · exact ih (k + 1) r hr

theorem sameLen_valsSpec {V : Type} (n : Num V) (k : Nat) (fs : List (Frac2 V)) :
    sameLen (valsSpec n k fs) = true := by
  cases fs with
  | nil => rfl
  | cons f fs =>
    simp only [valsSpec, sameLen, List.all_eq_true, beq_iff_eq]
    intro r hr
    exact valsSpec_length n (k + 1) fs r hr

theorem atleast2d_valsSpec {V : Type} (n : Num V) (k : Nat) (fs : List (Frac2 V)) :
    atleast2d (valsSpec n k fs) = valsSpec n k fs := by
  match fs with
  | [] => rfl
  | [_] => rfl
  | _ :: _ :: _ => rfl

theorem sel_valsSpec {V : Type} (n : Num V) (k : Nat) (fs : List (Frac2 V)) :
    mapE (selRow [1, 2, 3, 4]) (valsSpec n k fs)
      = .ok (fs.map (fun f => [f.a.1, f.a.2, f.b.1, f.b.2])) := by
  induction fs generalizing k with
  | nil => rfl
  | cons f fs ih =>
    have h5 : selRow [1, 2, 3, 4] [n.ofIdx k, f.a.1, f.a.2, f.b.1, f.b.2]
        = .ok [f.a.1, f.a.2, f.b.1, f.b.2] := rfl
    simp only [valsSpec, mapE, h5, ih (k + 1), List.map_cons]

theorem pairUp_sel {V : Type} (fs : List (Frac2 V)) :
    pairUp (fs.map (fun f => [f.a.1, f.a.2, f.b.1, f.b.2])).flatten = .ok (endpoints fs) := by
  induction fs with
  | nil => rfl
  | cons f fs ih =>
    simp only [List.map_cons, List.flatten_cons, List.cons_append, List.nil_append, pairUp, ih,
      endpoints]

theorem heads_valsSpec {V : Type} (n : Num V) (d : V) (k : Nat) (fs : List (Frac2 V)) :
    (valsSpec n k fs).map (fun r => r.headD d) = idVals n k fs := by
  induction fs generalizing k with
  | nil => rfl
  | cons f fs ih => simp only [valsSpec, List.map_cons, List.headD_cons, ih (k + 1), idVals]

theorem tags_valsSpec {V : Type} (n : Num V) (k : Nat) (fs : List (Frac2 V)) :
    mapE (tagsOfRow n none) (valsSpec n k fs) = .ok (List.replicate fs.length []) := by
  induction fs generalizing k with
  | nil => rfl
  | cons f fs ih => simp only [valsSpec, mapE, tagsOfRow, ih (k + 1), List.length_cons, List.replicate_succ]

theorem idVals_length {V : Type} (n : Num V) (k : Nat) (fs : List (Frac2 V)) :
    (idVals n k fs).length = fs.length := by
  induction fs generalizing k with
  | nil => rfl
  | cons f fs ih => simp only [idVals, List.length_cons, ih (k + 1)]

theorem idVals_toIdx {V T : Type} (c : Codec V T) (n : Num V) (hF : Faithful c n) (k : Nat)
    (fs : List (Frac2 V)) :
    (idVals n k fs).map n.toIdx = (List.range' k fs.length).map Int.ofNat := by
  induction fs generalizing k with
  | nil => rfl
  | cons f fs ih =>
    simp only [idVals, List.map_cons, hF.toIdx_ofIdx, ih (k + 1), List.length_cons, List.range'_succ]
    rfl

/-- index pairs of `m` together with the tags -/
def pairTag : List Nat → List (List Int) → List (Nat × Nat × List Int)
  | i :: j :: r, t :: ts => (i, j, t) :: pairTag r ts
  | _, _ => []

theorem seqEdges_lookup (ts : List (List Int)) (pre m' : List Nat) (h : m'.length = 2 * ts.length) :
    mapE (lookupEdge (pre ++ m')) (seqEdges pre.length ts) = .ok (pairTag m' ts) := by
  induction ts generalizing pre m' with
  | nil =>
    have : m' = [] := List.eq_nil_of_length_eq_zero (by simpa using h)
    subst this
    rfl
  | cons t ts ih =>
    match m', h with
    | i :: j :: m'', h =>
      have h1 : (pre ++ i :: j :: m'')[pre.length]? = some i := by simp
      have h2 : (pre ++ i :: j :: m'')[pre.length + 1]? = some j := by
        rw [List.getElem?_append_right (Nat.le_add_right _ _)]
        simp
      have h3 : pre ++ i :: j :: m'' = (pre ++ [i, j]) ++ m'' := by simp
      have h4 : pre.length + 2 = (pre ++ [i, j]).length := by simp
      have h5 : m''.length = 2 * ts.length := by
        simp only [List.length_cons] at h
        omega
      simp only [seqEdges, mapE, lookupEdge, getE, h1, h2, pairTag]
      rw [h3, h4, ih (pre ++ [i, j]) m'' h5]
    | [], h => simp at h
    | [_], h => simp only [List.length_cons, List.length_nil] at h; omega

theorem pairTag_length {V : Type} (U : List (Pt2 V)) (fs : List (Frac2 V)) (m : List Nat)
    (hm : m.map (fun i => U[i]?) = (endpoints fs).map some) :
    (pairTag m (List.replicate fs.length [])).length = fs.length := by
  induction fs generalizing m with
  | nil => 
    simp only [endpoints, List.map_nil, List.map_eq_nil_iff] at hm
    subst hm; rfl
  | cons f fs ih =>
    match m, hm with
    | i :: j :: m', hm =>
      simp only [endpoints, List.map_cons, List.cons.injEq] at hm
      simp only [List.length_cons, List.replicate_succ, pairTag, ih m' hm.2.2]
    | [], hm => simp [endpoints] at hm
    | [_], hm => simp [endpoints] at hm

theorem m_length {V : Type} (U : List (Pt2 V)) (fs : List (Frac2 V)) (m : List Nat)
    (hm : m.map (fun i => U[i]?) = (endpoints fs).map some) : m.length = 2 * fs.length := by
  have := congrArg List.length hm
  simp only [List.length_map] at this
  rw [this]
  clear hm this
  induction fs with
  | nil => rfl
  | cons f fs ih => simp only [endpoints, List.length_cons, ih]; omega

theorem pairTag_ne {V : Type} (U : List (Pt2 V)) (fs : List (Frac2 V)) (m : List Nat)
    (hm : m.map (fun i => U[i]?) = (endpoints fs).map some) (hlen : ∀ f ∈ fs, f.a ≠ f.b) :
    ∀ e ∈ pairTag m (List.replicate fs.length []), (e.1 != e.2.1) = true := by
  induction fs generalizing m with
  | nil =>
    simp only [endpoints, List.map_nil, List.map_eq_nil_iff] at hm
    subst hm; intro e he; cases he
  | cons f fs ih =>
    match m, hm with
    | i :: j :: m', hm =>
      simp only [endpoints, List.map_cons, List.cons.injEq] at hm
      obtain ⟨hi, hj, hm'⟩ := hm
      intro e he
      simp only [List.length_cons, List.replicate_succ, pairTag, List.mem_cons] at he
      rcases he with rfl | he
      · simp only [bne_iff_ne, ne_eq]
        intro hij
        subst hij
        rw [hi] at hj
        exact hlen f (List.mem_cons_self) (Option.some.inj hj)
      · exact ih m' hm' (fun g hg => hlen g (List.mem_cons_of_mem _ hg)) e he
    | [], hm => simp [endpoints] at hm
    | [_], hm => simp [endpoints] at hm

theorem mkFrac_pairTag {V : Type} (degen : Pt2 V → Pt2 V → Bool) (U : List (Pt2 V)) (fs : List (Frac2 V))
    (m : List Nat) (hm : m.map (fun i => U[i]?) = (endpoints fs).map some)
    (hdeg : ∀ f ∈ fs, degen f.a f.b = false) :
    mapE (mkFrac degen U) (pairTag m (List.replicate fs.length [])) = .ok (fs.map strip) := by
  induction fs generalizing m with
  | nil =>
    simp only [endpoints, List.map_nil, List.map_eq_nil_iff] at hm
    subst hm; rfl
  | cons f fs ih =>
    match m, hm with
    | i :: j :: m', hm =>
      simp only [endpoints, List.map_cons, List.cons.injEq] at hm
      obtain ⟨hi, hj, hm'⟩ := hm
      have hd := hdeg f (List.mem_cons_self)
      simp only [List.length_cons, List.replicate_succ, pairTag, mapE, mkFrac, getE, hi, hj, hd,
        ih m' hm' (fun g hg => hdeg g (List.mem_cons_of_mem _ hg)), List.map_cons, strip]
      rfl
    | [], hm => simp [endpoints] at hm
    | [_], hm => simp [endpoints] at hm

theorem seqEdges_length (k : Nat) (ts : List (List Int)) : (seqEdges k ts).length = ts.length := by
  induction ts generalizing k with
  | nil => rfl
  | cons t ts ih => simp only [seqEdges, List.length_cons, ih (k + 2)]

/-- second half of the reader on the point list of a network written by `to_csv` -/
theorem finishCore_spec {V : Type} (n : Num V) (near degen : Pt2 V → Pt2 V → Bool) (d : Box2 V)
    (fs : List (Frac2 V)) (ids : List V) (hids : ids.length = fs.length)
    (hnear : ∀ p ∈ endpoints fs, ∀ q ∈ endpoints fs, near p q = true → p = q)
    (hlen : ∀ f ∈ fs, f.a ≠ f.b) (hdeg : ∀ f ∈ fs, degen f.a f.b = false) :
    finishCore n near degen d (endpoints fs) ((seqEdges 0 (List.replicate fs.length [])).zip ids)
      = .ok ⟨fs.map strip, some d, ids.map n.toIdx⟩ := by
  have hm := greedy_lookup near (endpoints fs) [] (fun x hx p hp h => by
    rcases hx with hx | hx
    · cases hx
    · exact hnear x hx p hp h)
  have hfst : ((seqEdges 0 (List.replicate fs.length [])).zip ids).map (·.1)
      = seqEdges 0 (List.replicate fs.length []) :=
    List.map_fst_zip (by simp only [seqEdges_length, List.length_replicate, hids, Nat.le_refl])
  have hsnd : ((seqEdges 0 (List.replicate fs.length [])).zip ids).map (·.2) = ids :=
    List.map_snd_zip (by simp only [seqEdges_length, List.length_replicate, hids, Nat.le_refl])
  have hlook := seqEdges_lookup (List.replicate fs.length []) [] (greedy near [] (endpoints fs)).2
    (by rw [m_length _ fs _ hm, List.length_replicate])
  simp only [List.nil_append, List.length_nil] at hlook
  have hes := pairTag_length _ fs _ hm
  have hfilter : ((pairTag (greedy near [] (endpoints fs)).2 (List.replicate fs.length [])).zip ids).filter
      (fun p => p.1.1 != p.1.2.1)
      = (pairTag (greedy near [] (endpoints fs)).2 (List.replicate fs.length [])).zip ids :=
    List.filter_eq_self.mpr (fun p hp => pairTag_ne _ fs _ hm hlen p.1 (List.of_mem_zip hp).1)
  have h1 : ((pairTag (greedy near [] (endpoints fs)).2 (List.replicate fs.length [])).zip ids).map (·.1)
      = pairTag (greedy near [] (endpoints fs)).2 (List.replicate fs.length []) :=
    List.map_fst_zip (by simp only [hes, hids, Nat.le_refl])
  have h2 : ((pairTag (greedy near [] (endpoints fs)).2 (List.replicate fs.length [])).zip ids).map
      (fun p => n.toIdx p.2) = ids.map n.toIdx := by
    rw [← List.map_snd_zip (l₁ := pairTag (greedy near [] (endpoints fs)).2 (List.replicate fs.length []))
      (l₂ := ids) (by simp only [hes, hids, Nat.le_refl]), List.map_map]
    rw [List.map_snd_zip (by simp only [hes, hids, Nat.le_refl])]
    rfl
  simp only [finishCore, hfst, hsnd, hlook, hfilter, h1, h2, mkFrac_pairTag degen _ fs _ hm hdeg]

theorem domOr_cons_isSome {V : Type} (n : Num V) (dom : Option (Box2 V)) (f : Frac2 V) (fs : List (Frac2 V)) :
    ∃ d, domOr n dom (endpoints (f :: fs)) = some d := by
  cases dom with
  | some d => exact ⟨d, rfl⟩
  | none => exact ⟨_, rfl⟩

theorem read2dRows_spec {V T : Type} [DecidableEq V] (c : Codec V T) (n : Num V) (hF : Faithful c n)
    (near degen : Pt2 V → Pt2 V → Bool) (fs : List (Frac2 V)) (hne : fs ≠ []) (skip : Nat)
    (dom : Option (Box2 V)) (mx : Option Nat)
    (hnear : ∀ p ∈ endpoints fs, ∀ q ∈ endpoints fs, near p q = true → p = q)
    (hlen : ∀ f ∈ fs, f.a ≠ f.b) (hdeg : ∀ f ∈ fs, degen f.a f.b = false) :
    read2dRows n near degen (valsSpec n 0 fs) ⟨skip, none, mx, false, dom⟩
      = .ok ⟨fs.map strip, domOr n dom (endpoints fs), (List.range' 0 fs.length).map Int.ofNat⟩ := by
  cases fs with
  | nil => exact absurd rfl hne
  | cons f fs' =>
    have hcols : ptCols (((valsSpec n 0 (f :: fs')).head?.map List.length).getD 0) none = [1, 2, 3, 4] := by
      simp only [valsSpec, List.head?_cons, Option.map_some, List.length_cons, List.length_nil,
        Option.getD_some]
      decide
    obtain ⟨d, hd⟩ := domOr_cons_isSome n dom f fs'
    have hfin := finishCore_spec n near degen d (f :: fs') (idVals n 0 (f :: fs'))
      (idVals_length n 0 _) hnear hlen hdeg
    simp only [read2dRows, hcols, sel_valsSpec, pairUp_sel, tags_valsSpec, heads_valsSpec, finish2, hd,
      hfin, idVals_toIdx c n hF]
    rfl

/-! ### 3-D -/

theorem decodeRow_map_enc {V T : Type} (c : Codec V T) (n : Num V) (hF : Faithful c n) (e : Err) (l : List V) :
    decodeRow c e (l.map c.enc) = .ok l := by
  induction l with
  | nil => rfl
  | cons v l ih =>
    simp only [decodeRow, decodeWith] at ih
    simp only [decodeRow, decodeWith, List.map_cons, mapE, hF.dec_enc, ih]

theorem triples_flat3 {V : Type} (f : List (Pt3 V)) : triples (flat3 f) = .ok f := by
  induction f with
  | nil => rfl
  | cons p ps ih => simp only [flat3, triples, ih]

theorem readFracs_rows {V T : Type} (c : Codec V T) (n : Num V) (hF : Faithful c n)
    (norm : List (Pt3 V) → Except Err (List (Pt3 V))) (fracs : List (List (Pt3 V)))
    (hne : ∀ f ∈ fracs, f ≠ []) :
    readFracs c norm (fracs.map (fun f => Line.data ((flat3 f).map c.enc))) = mapE norm fracs := by
  induction fracs with
  | nil => rfl
  | cons f fs ih =>
    have ih' := ih (fun g hg => hne g (List.mem_cons_of_mem _ hg))
    cases f with
    | nil => exact absurd rfl (hne [] (List.mem_cons_self))
    | cons p ps =>
      have hdec := decodeRow_map_enc c n hF .value (flat3 (p :: ps))
      have htr := triples_flat3 (p :: ps)
      simp only [flat3, List.map_cons] at hdec htr
      simp only [List.map_cons, flat3, readFracs, hdec, htr, mapE]
      rw [ih']
      cases norm (p :: ps) with
      | error e => rfl
      | ok b => cases mapE norm fs <;> rfl

theorem mapE_pointwise {α β : Type} (f : α → Except Err β) (R : β → α → Prop) (l : List α) (r : List β)
    (h : ∀ a ∈ l, ∀ b, f a = .ok b → R b a) (hr : mapE f l = .ok r) : Pointwise R r l := by
  induction l generalizing r with
  | nil =>
    simp only [mapE] at hr
    cases hr
    exact .nil
  | cons a as ih =>
    simp only [mapE] at hr
    cases hfa : f a with
    | error e => simp [hfa] at hr
    | ok b =>
      cases hm : mapE f as with
      | error e => simp [hfa, hm] at hr
      | ok bs =>
        simp only [hfa, hm] at hr
        cases hr
        exact .cons (h a (List.mem_cons_self) b hfa)
          (ih bs (fun x hx => h x (List.mem_cons_of_mem _ hx)) hm)

/-! ### txt: header -/

theorem splitAux_word (w : List Char) (hw : ∀ ch ∈ w, isWs ch = false) (cur rest : List Char)
    (hne : cur ++ w ≠ []) :
    splitAux (w ++ ' ' :: rest) cur = (cur ++ w) :: splitAux rest [] := by
  induction w generalizing cur with
  | nil =>
    have hc : cur ≠ [] := by simpa using hne
    have : cur.isEmpty = false := by
      cases cur with
      | nil => exact absurd rfl hc
      | cons _ _ => rfl
    simp only [List.nil_append, splitAux, List.append_nil, this]
    rfl
  | cons ch w ih =>
    have h1 : isWs ch = false := hw ch (List.mem_cons_self)
    have := ih (fun x hx => hw x (List.mem_cons_of_mem _ hx)) (cur ++ [ch]) (by simp)
    simp only [List.cons_append, splitAux, h1]
    simpa using this

theorem split_join (names : List Name) (h : ∀ w ∈ names, w ≠ [] ∧ ∀ ch ∈ w, isWs ch = false) :
    splitAux (joinNames names) [] = names := by
  induction names with
  | nil => rfl
  | cons w ws ih =>
    have hw := h w (List.mem_cons_self)
    simp only [joinNames]
    rw [splitAux_word w hw.2 [] _ (by simpa using hw.1)]
    simp only [List.nil_append, ih (fun x hx => h x (List.mem_cons_of_mem _ hx))]

theorem lstrip_header (names : List Name) (h : ∀ w ∈ names, w ≠ [] ∧ ∀ ch ∈ w, isWs ch = false)
    (hfirst : ∀ w, names.head? = some w → w.head? ≠ some '#') :
    lstripHash (headerLine names) = joinNames names := by
  cases names with
  | nil => rfl
  | cons w ws =>
    have hw := h w (List.mem_cons_self)
    have hf := hfirst w rfl
    cases w with
    | nil => exact absurd rfl hw.1
    | cons ch w' =>
      have h1 : isWs ch = false := hw.2 ch (List.mem_cons_self)
      have h2 : ch ≠ '#' := by
        intro hc; subst hc; exact hf rfl
      have h3 : ch ≠ ' ' := by
        intro hc; subst hc; simp [isWs] at h1
      have h4 : (ch == '#' || ch == ' ') = false := by simp [h2, h3]
      simp only [headerLine, joinNames, lstripHash, List.cons_append, h4]
      rfl

theorem readNames_headerLine (names : List Name) (h : ∀ w ∈ names, w ≠ [] ∧ ∀ ch ∈ w, isWs ch = false)
    (hfirst : ∀ w, names.head? = some w → w.head? ≠ some '#') :
    readNames (headerLine names) = names := by
  simp only [readNames, lstrip_header names h hfirst, split_join names h]

/-! ### txt: table -/

theorem replicate_nil_of_forall {α : Type} (cols : List (List α)) (h : ∀ c ∈ cols, c.length = 0) :
    List.replicate cols.length [] = cols := by
  induction cols with
  | nil => rfl
  | cons c cols ih =>
    have hc : c = [] := List.eq_nil_of_length_eq_zero (h c (List.mem_cons_self))
    subst hc
    simp only [List.length_cons, List.replicate_succ, ih (fun x hx => h x (List.mem_cons_of_mem _ hx))]

theorem zipWith_heads_tails {α : Type} (cols : List (List α)) (k : Nat) (h : ∀ c ∈ cols, c.length = k + 1) :
    List.zipWith (· :: ·) (cols.filterMap List.head?) (cols.map List.tail) = cols := by
  induction cols with
  | nil => rfl
  | cons c cols ih =>
    have hc := h c (List.mem_cons_self)
    cases c with
    | nil => simp at hc
    | cons x xs =>
      simp only [List.filterMap_cons, List.head?_cons, List.map_cons, List.tail_cons, List.zipWith_cons_cons,
        ih (fun y hy => h y (List.mem_cons_of_mem _ hy))]

theorem heads_length {α : Type} (cols : List (List α)) (k : Nat) (h : ∀ c ∈ cols, c.length = k + 1) :
    (cols.filterMap List.head?).length = cols.length := by
  induction cols with
  | nil => rfl
  | cons c cols ih =>
    have hc := h c (List.mem_cons_self)
    cases c with
    | nil => simp at hc
    | cons x xs =>
      simp only [List.filterMap_cons, List.head?_cons, List.length_cons,
        ih (fun y hy => h y (List.mem_cons_of_mem _ hy))]

theorem tails_length {α : Type} (cols : List (List α)) (k : Nat) (h : ∀ c ∈ cols, c.length = k + 1) :
    ∀ c ∈ cols.map List.tail, c.length = k := by
  intro c hc
  obtain ⟨d, hd, rfl⟩ := List.mem_map.mp hc
  have := h d hd
  simp only [List.length_tail, this, Nat.add_sub_cancel]

theorem transpose_rowsOf {α : Type} (k : Nat) (cols : List (List α)) (h : ∀ c ∈ cols, c.length = k) :
    transposeRows cols.length (rowsOf k cols) = cols := by
  induction k generalizing cols with
  | zero => simp only [rowsOf, transposeRows, replicate_nil_of_forall cols h]
  | succ k ih =>
    have := ih (cols.map List.tail) (tails_length cols k h)
    rw [List.length_map] at this
    simp only [rowsOf, transposeRows, this, zipWith_heads_tails cols k h]

theorem rowsOf_row_length {α : Type} (k : Nat) (cols : List (List α)) (h : ∀ c ∈ cols, c.length = k) :
    ∀ r ∈ rowsOf k cols, r.length = cols.length := by
  induction k generalizing cols with
  | zero => intro r hr; cases hr
  | succ k ih =>
    intro r hr
    simp only [rowsOf, List.mem_cons] at hr
    rcases hr with rfl | hr
    · exact heads_length cols k h
    · have := ih (cols.map List.tail) (tails_length cols k h) r hr
      rwa [List.length_map] at this

theorem sameLen_of_forall {α : Type} (rows : List (List α)) (n : Nat) (h : ∀ r ∈ rows, r.length = n) :
    sameLen rows = true := by
  cases rows with
  | nil => rfl
  | cons r rs =>
    simp only [sameLen, List.all_eq_true, beq_iff_eq]
    intro s hs
    rw [h s (List.mem_cons_of_mem _ hs), h r (List.mem_cons_self)]

theorem columnsOf_rowsOf {α : Type} (k : Nat) (cols : List (List α)) (h : ∀ c ∈ cols, c.length = k) :
    columnsOf cols.length (rowsOf k cols) = cols := by
  cases k with
  | zero => simp only [rowsOf, columnsOf, replicate_nil_of_forall cols h]
  | succ k =>
    have hl := heads_length cols k h
    have := transpose_rowsOf (k + 1) cols h
    simp only [rowsOf] at this
    simp only [rowsOf, columnsOf, hl, this]

/-- columns as written (`enc fmt v`) and as read back (`rnd fmt v`) -/
def encCols {V F T : Type} (enc : F → V → T) (cols : List (TxtCol V F)) : List (List T) :=
  cols.map (fun c => c.arr.map (enc c.fmt))

def tailCols {V F : Type} (cols : List (TxtCol V F)) : List (TxtCol V F) :=
  cols.map (fun c => { c with arr := c.arr.tail })

theorem encCols_tail {V F T : Type} (enc : F → V → T) (cols : List (TxtCol V F)) :
    (encCols enc cols).map List.tail = encCols enc (tailCols cols) := by
  simp only [encCols, tailCols, List.map_map]
  apply List.map_congr_left
  intro c _
  simp only [Function.comp, List.map_tail]

theorem decode_heads {V F T : Type} (enc : F → V → T) (dec : T → Option V) (rnd : F → V → V)
    (hcodec : ∀ f v, dec (enc f v) = some (rnd f v)) (e : Err) (cols : List (TxtCol V F)) :
    decodeWith dec e ((encCols enc cols).filterMap List.head?)
      = .ok ((encCols rnd cols).filterMap List.head?) := by
  induction cols with
  | nil => rfl
  | cons c cols ih =>
    simp only [decodeWith, encCols] at ih
    cases hc : c.arr with
    | nil => simp only [decodeWith, encCols, List.map_cons, hc, List.map_nil, List.filterMap_cons,
        List.head?_nil, ih]
    | cons v vs => simp only [decodeWith, encCols, List.map_cons, hc, List.filterMap_cons, List.head?_cons,
        mapE, hcodec, ih]

theorem decode_rowsOf {V F T : Type} (enc : F → V → T) (dec : T → Option V) (rnd : F → V → V)
    (hcodec : ∀ f v, dec (enc f v) = some (rnd f v)) (e : Err) (k : Nat) (cols : List (TxtCol V F)) :
    mapE (decodeWith dec e) (rowsOf k (encCols enc cols)) = .ok (rowsOf k (encCols rnd cols)) := by
  induction k generalizing cols with
  | zero => rfl
  | succ k ih =>
    simp only [rowsOf, mapE, decode_heads enc dec rnd hcodec e cols, encCols_tail, ih (tailCols cols)]


/-! ### the polyline branch -/


theorem mapE_append {α β : Type} (f : α → Except Err β) (l1 l2 : List α) (a b : List β)
    (h1 : mapE f l1 = .ok a) (h2 : mapE f l2 = .ok b) : mapE f (l1 ++ l2) = .ok (a ++ b) := by
  induction l1 generalizing a with
  | nil => simp only [mapE] at h1; cases h1; simpa using h2
  | cons x xs ih =>
    simp only [mapE] at h1
    cases hx : f x with
    | error e => simp [hx] at h1
    | ok y =>
      cases hxs : mapE f xs with
      | error e => simp [hx, hxs] at h1
      | ok ys =>
        simp only [hx, hxs] at h1
        cases h1
        simp only [List.cons_append, mapE, hx, ih ys hxs]

theorem mapE_length {α β : Type} (f : α → Except Err β) (l : List α) (r : List β)
    (h : mapE f l = .ok r) : r.length = l.length := by
  induction l generalizing r with
  | nil => simp only [mapE] at h; cases h; rfl
  | cons x xs ih =>
    simp only [mapE] at h
    cases hx : f x with
    | error e => simp [hx] at h
    | ok y =>
      cases hxs : mapE f xs with
      | error e => simp [hx, hxs] at h
      | ok ys =>
        simp only [hx, hxs] at h
        cases h
        simp only [List.length_cons, ih ys hxs]

/-! #### decoded rows of a polyline file -/

def polyVals {V : Type} : List (Poly V) → List (List V)
  | [] => []
  | P :: Ps => P.pts.map (fun p => [P.id, p.1, p.2]) ++ polyVals Ps

def idCol {V : Type} : List (Poly V) → List V
  | [] => []
  | P :: Ps => List.replicate P.pts.length P.id ++ idCol Ps

theorem decode_chain {V T : Type} (c : Codec V T) (n : Num V) (hF : Faithful c n) (v : V)
    (pts : List (Pt2 V)) :
    mapE (decodeRow c .decode) ((pts.map (fun p => Line.data [c.enc v, c.enc p.1, c.enc p.2])).filterMap cellsOf)
      = .ok (pts.map (fun p => [v, p.1, p.2])) := by
  induction pts with
  | nil => rfl
  | cons p ps ih =>
    have h3 : decodeRow c .decode [c.enc v, c.enc p.1, c.enc p.2] = .ok [v, p.1, p.2] := by
      simp only [decodeRow, decodeWith, mapE, hF.dec_enc]
    simp only [List.map_cons, List.filterMap_cons, cellsOf, mapE, h3, ih]

theorem decode_polyRows {V T : Type} (c : Codec V T) (n : Num V) (hF : Faithful c n) (polys : List (Poly V)) :
    mapE (decodeRow c .decode) ((polyRowsSpec c polys).filterMap cellsOf) = .ok (polyVals polys) := by
  induction polys with
  | nil => rfl
  | cons P Ps ih =>
    simp only [polyRowsSpec, List.filterMap_append, polyVals]
    exact mapE_append _ _ _ _ _ (decode_chain c n hF P.id P.pts) ih

theorem polyVals_length {V : Type} (polys : List (Poly V)) : ∀ r ∈ polyVals polys, r.length = 3 := by
  induction polys with
  | nil => intro r hr; cases hr
  | cons P Ps ih =>
    intro r hr
    simp only [polyVals, List.mem_append, List.mem_map] at hr
    rcases hr with ⟨p, _, rfl⟩ | hr
    · rfl
    · exact ih r hr

theorem atleast2d_of_len3 {V : Type} (rows : List (List V)) (h : ∀ r ∈ rows, r.length = 3) :
    atleast2d rows = rows := by
  match rows, h with
  | [], _ => rfl
  | [_], _ => rfl
  | r :: s :: t, h =>
    have := h r (List.mem_cons_self)
    simp only [atleast2d, this]
    rfl

theorem sel_polyVals {V : Type} (polys : List (Poly V)) :
    mapE (selRow [1, 2]) (polyVals polys) = .ok ((allPts polys).map (fun p => [p.1, p.2])) := by
  induction polys with
  | nil => rfl
  | cons P Ps ih =>
    simp only [polyVals, allPts, List.map_append]
    refine mapE_append _ _ _ _ _ ?_ ih
    rw [mapE_ok_of_forall (selRow [1, 2]) (fun r => r.drop 1) _ (by
      intro r hr
      obtain ⟨p, _, rfl⟩ := List.mem_map.mp hr
      rfl)]
    simp only [List.map_map]
    rfl

theorem pairUp_pts {V : Type} (pts : List (Pt2 V)) :
    pairUp (pts.map (fun p => [p.1, p.2])).flatten = .ok pts := by
  induction pts with
  | nil => rfl
  | cons p ps ih => simp only [List.map_cons, List.flatten_cons, List.cons_append, List.nil_append, pairUp, ih]

theorem heads_polyVals {V : Type} (d : V) (polys : List (Poly V)) :
    (polyVals polys).map (fun r => r.headD d) = idCol polys := by
  induction polys with
  | nil => rfl
  | cons P Ps ih =>
    simp only [polyVals, List.map_append, List.map_map, idCol, ih]
    congr 1
    induction P.pts with
    | nil => rfl
    | cons p ps ih2 => simp only [List.map_cons, Function.comp, List.headD_cons, List.length_cons,
        List.replicate_succ, ih2]




/-- index pairs (s,s+1),(s+1,s+2),… : `c` of them -/
def chainEdges : Nat → Nat → List (Nat × Nat × List Int)
  | _, 0 => []
  | s, c + 1 => (s, s + 1, []) :: chainEdges (s + 1) c

/-- what the polyline branch computes for the edges: per polyline a chain, tagged with its id -/
def polyEdgesSpec {V : Type} : Nat → List (Poly V) → List ((Nat × Nat × List Int) × V)
  | _, [] => []
  | s, P :: Ps => (chainEdges s (P.pts.length - 1)).map (fun e => (e, P.id)) ++ polyEdgesSpec (s + P.pts.length) Ps

theorem range_chain (c s : Nat) :
    (List.range c).map (fun d => ((s + d, s + 1 + d, []) : Nat × Nat × List Int)) = chainEdges s c := by
  induction c generalizing s with
  | zero => rfl
  | succ c ih =>
    rw [List.range_succ_eq_map]
    simp only [List.map_cons, List.map_map, chainEdges, Nat.add_zero]
    congr 1
    rw [← ih (s + 1)]
    apply List.map_congr_left
    intro d _
    simp only [Function.comp]
    have h1 : s + d.succ = s + 1 + d := by omega
    have h2 : s + 1 + d.succ = s + 1 + 1 + d := by omega
    rw [h1, h2]

theorem mem_idCol {V : Type} (polys : List (Poly V)) (x : V) (h : x ∈ idCol polys) :
    ∃ P ∈ polys, x = P.id := by
  induction polys with
  | nil => cases h
  | cons P Ps ih =>
    simp only [idCol, List.mem_append, List.mem_replicate] at h
    rcases h with ⟨_, rfl⟩ | h
    · exact ⟨P, List.mem_cons_self, rfl⟩
    · obtain ⟨Q, hQ, rfl⟩ := ih h
      exact ⟨Q, List.mem_cons_of_mem _ hQ, rfl⟩

theorem idCol_append {V : Type} (l1 l2 : List (Poly V)) : idCol (l1 ++ l2) = idCol l1 ++ idCol l2 := by
  induction l1 with
  | nil => rfl
  | cons P Ps ih => simp only [List.cons_append, idCol, ih, List.append_assoc]

theorem idCol_length {V : Type} (polys : List (Poly V)) : (idCol polys).length = (allPts polys).length := by
  induction polys with
  | nil => rfl
  | cons P Ps ih => simp only [idCol, allPts, List.length_append, List.length_replicate, ih]

section
variable {V : Type} [DecidableEq V]

theorem positions_append (v : V) (l1 l2 : List V) (k : Nat) :
    positions v (l1 ++ l2) k = positions v l1 k ++ positions v l2 (k + l1.length) := by
  induction l1 generalizing k with
  | nil => rfl
  | cons a l ih =>
    simp only [List.cons_append, positions, ih (k + 1), List.length_cons]
    have : k + 1 + l.length = k + (l.length + 1) := by omega
    by_cases h : a = v <;> simp [h, this]

theorem positions_replicate (v : V) (L k : Nat) : positions v (List.replicate L v) k = List.range' k L := by
  induction L generalizing k with
  | zero => rfl
  | succ L ih => simp only [List.replicate_succ, positions, if_true, ih (k + 1), List.range'_succ]

theorem positions_notmem (v : V) (l : List V) (k : Nat) (h : v ∉ l) : positions v l k = [] := by
  induction l generalizing k with
  | nil => rfl
  | cons a l ih =>
    have ha : a ≠ v := fun e => h (e ▸ List.mem_cons_self)
    simp only [positions, ha, if_false, ih (k + 1) (fun hm => h (List.mem_cons_of_mem _ hm))]

theorem uniqueSorted_block (n : Num V) (v : V) (L : Nat) (hL : 1 ≤ L) (Ps : List (Poly V))
    (ih : uniqueSorted n (idCol Ps) = Ps.map (·.id))
    (hv : ∀ Q ∈ Ps, v ≠ Q.id ∧ n.lt v Q.id = true) :
    uniqueSorted n (List.replicate L v ++ idCol Ps) = v :: Ps.map (·.id) := by
  induction L with
  | zero => omega
  | succ L ihL =>
    simp only [List.replicate_succ, List.cons_append, uniqueSorted]
    cases L with
    | zero =>
      simp only [List.replicate_zero, List.nil_append, ih]
      cases Ps with
      | nil => rfl
      | cons Q Qs =>
        have := hv Q (List.mem_cons_self)
        simp only [List.map_cons, insertU, this.1, if_false, this.2, if_true]
    | succ L' =>
      rw [ihL (by omega)]
      simp only [insertU, if_true]

theorem uniqueSorted_idCol (n : Num V) (polys : List (Poly V)) (hlen : ∀ P ∈ polys, 2 ≤ P.pts.length)
    (hids : polys.Pairwise (fun a b => a.id ≠ b.id ∧ n.lt a.id b.id = true)) :
    uniqueSorted n (idCol polys) = polys.map (·.id) := by
  induction polys with
  | nil => rfl
  | cons P Ps ih =>
    have hp := List.pairwise_cons.mp hids
    simp only [idCol, List.map_cons]
    exact uniqueSorted_block n P.id P.pts.length (by have := hlen P List.mem_cons_self; omega) Ps
      (ih (fun Q hQ => hlen Q (List.mem_cons_of_mem _ hQ)) hp.2) hp.1

end

theorem polyBlock_range' {V : Type} (fi : V) (s L : Nat) (hL : 2 ≤ L) :
    polyBlock fi (List.range' s L) = .ok ((chainEdges s (L - 1)).map (fun e => (e, fi))) := by
  match L, hL with
  | 2, _ =>
    simp only [List.range'_succ, List.range'_zero, polyBlock]
    rfl
  | L + 3, _ =>
    have hlast : ((s + 1) :: List.range' (s + 1 + 1) (L + 1)).getLast?.getD (s + 1) = s + L + 2 := by
      rw [← List.range'_succ, List.getLast?_range']
      simp
      omega
    simp only [List.range'_succ, polyBlock] at hlast ⊢
    rw [hlast]
    have : s + L + 2 - s = s + L + 2 + 1 - (s + 1) := by omega
    simp only [this, if_true]
    have h2 : s + L + 2 + 1 - (s + 1) = L + 3 - 1 := by omega
    rw [h2, ← range_chain, List.map_map]
    rfl

def blocks {V : Type} : Nat → List (Poly V) → List (List ((Nat × Nat × List Int) × V))
  | _, [] => []
  | s, P :: Ps => (chainEdges s (P.pts.length - 1)).map (fun e => (e, P.id)) :: blocks (s + P.pts.length) Ps

theorem blocks_flatten {V : Type} (s : Nat) (polys : List (Poly V)) :
    (blocks s polys).flatten = polyEdgesSpec s polys := by
  induction polys generalizing s with
  | nil => rfl
  | cons P Ps ih => simp only [blocks, List.flatten_cons, polyEdgesSpec, ih]

theorem polyBlocks {V : Type} [DecidableEq V] (pre rest : List (Poly V))
    (hlen : ∀ P ∈ rest, 2 ≤ P.pts.length)
    (hpre : ∀ Q ∈ pre, ∀ R ∈ rest, Q.id ≠ R.id)
    (hrest : rest.Pairwise (fun a b => a.id ≠ b.id)) :
    mapE (fun fi => polyBlock fi (positions fi (idCol pre ++ idCol rest) 0)) (rest.map (·.id))
      = .ok (blocks (idCol pre).length rest) := by
  induction rest generalizing pre with
  | nil => rfl
  | cons P Ps ih =>
    have hp := List.pairwise_cons.mp hrest
    have h1 : P.id ∉ idCol pre := by
      intro hm
      obtain ⟨Q, hQ, he⟩ := mem_idCol pre _ hm
      exact hpre Q hQ P List.mem_cons_self he.symm
    have h2 : P.id ∉ idCol Ps := by
      intro hm
      obtain ⟨Q, hQ, he⟩ := mem_idCol Ps _ hm
      exact hp.1 Q hQ he
    have hpos : positions P.id (idCol pre ++ idCol (P :: Ps)) 0
        = List.range' (idCol pre).length P.pts.length := by
      simp only [idCol, positions_append, positions_notmem _ _ _ h1, positions_notmem _ _ _ h2,
        positions_replicate, List.nil_append, List.append_nil, Nat.zero_add]
    have hre : idCol pre ++ idCol (P :: Ps) = idCol (pre ++ [P]) ++ idCol Ps := by
      simp only [idCol_append, idCol, List.append_nil, List.append_assoc]
    have hl : (idCol (pre ++ [P])).length = (idCol pre).length + P.pts.length := by
      simp only [idCol_append, idCol, List.append_nil, List.length_append, List.length_replicate]
    have ih' := ih (pre ++ [P]) (fun Q hQ => hlen Q (List.mem_cons_of_mem _ hQ))
      (fun Q hQ R hR => by
        rcases List.mem_append.mp hQ with h | h
        · exact hpre Q h R (List.mem_cons_of_mem _ hR)
        · simp only [List.mem_singleton] at h
          subst h
          exact hp.1 R hR) hp.2
    rw [← hre, hl] at ih'
    simp only [List.map_cons, mapE, hpos, polyBlock_range' P.id _ _ (hlen P List.mem_cons_self), ih', blocks]

theorem polyEdges_spec {V : Type} [DecidableEq V] (n : Num V) (polys : List (Poly V))
    (hlen : ∀ P ∈ polys, 2 ≤ P.pts.length)
    (hids : polys.Pairwise (fun a b => a.id ≠ b.id ∧ n.lt a.id b.id = true)) :
    polyEdges n (idCol polys) = .ok (polyEdgesSpec 0 polys) := by
  have hb := polyBlocks [] polys hlen (fun Q hQ => by cases hQ) (hids.imp (fun h => h.1))
  simp only [idCol, List.nil_append, List.length_nil] at hb
  simp only [polyEdges, uniqueSorted_idCol n polys hlen hids, hb, blocks_flatten]



/-- consecutive index pairs -/
def consec : List Nat → List (Nat × Nat × List Int)
  | i :: j :: r => (i, j, []) :: consec (j :: r)
  | _ => []

def polyPairs {V : Type} : List (Poly V) → List Nat → List (Nat × Nat × List Int)
  | [], _ => []
  | P :: Ps, m => consec (m.take P.pts.length) ++ polyPairs Ps (m.drop P.pts.length)

theorem chain_lookup (mc pre post : List Nat) :
    mapE (lookupEdge (pre ++ mc ++ post)) (chainEdges pre.length (mc.length - 1)) = .ok (consec mc) := by
  induction mc generalizing pre with
  | nil => rfl
  | cons i r ih =>
    cases r with
    | nil => rfl
    | cons j r =>
      have h1 : (pre ++ i :: j :: r ++ post)[pre.length]? = some i := by simp
      have h2 : (pre ++ i :: j :: r ++ post)[pre.length + 1]? = some j := by
        rw [List.append_assoc, List.getElem?_append_right (Nat.le_add_right _ _)]
        simp
      have h3 : pre ++ i :: j :: r ++ post = (pre ++ [i]) ++ (j :: r) ++ post := by simp
      have h4 : pre.length + 1 = (pre ++ [i]).length := by simp
      have := ih (pre ++ [i])
      rw [← h3, ← h4] at this
      simp only [List.length_cons, Nat.add_sub_cancel, chainEdges, mapE, lookupEdge, getE, h1, h2, consec]
      simp only [List.length_cons, Nat.add_sub_cancel] at this
      rw [this]

theorem edges_fst {V : Type} (s : Nat) (polys : List (Poly V)) :
    (polyEdgesSpec s polys).map (·.1) = match polys with
      | [] => []
      | P :: Ps => chainEdges s (P.pts.length - 1) ++ (polyEdgesSpec (s + P.pts.length) Ps).map (·.1) := by
  cases polys with
  | nil => rfl
  | cons P Ps =>
    have : ((fun x : (Nat × Nat × List Int) × V => x.fst) ∘ fun e => (e, P.id)) = id := rfl
    simp only [polyEdgesSpec, List.map_append, List.map_map, this, List.map_id]

theorem poly_lookup {V : Type} (polys : List (Poly V)) (pre m' : List Nat)
    (hl : m'.length = (allPts polys).length) :
    mapE (lookupEdge (pre ++ m')) ((polyEdgesSpec pre.length polys).map (·.1)) = .ok (polyPairs polys m') := by
  induction polys generalizing pre m' with
  | nil => rfl
  | cons P Ps ih =>
    rw [edges_fst]
    simp only [allPts, List.length_append] at hl
    have htl : (m'.take P.pts.length).length = P.pts.length := by
      rw [List.length_take]; omega
    have hc := chain_lookup (m'.take P.pts.length) pre (m'.drop P.pts.length)
    rw [List.append_assoc, List.take_append_drop, htl] at hc
    have hi := ih (pre ++ m'.take P.pts.length) (m'.drop P.pts.length) (by rw [List.length_drop]; omega)
    rw [List.append_assoc, List.take_append_drop, List.length_append, htl] at hi
    exact mapE_append _ _ _ _ _ hc hi

theorem chain_ne {V : Type} (U : List (Pt2 V)) (chain : List (Pt2 V)) (mc : List Nat)
    (hm : mc.map (fun i => U[i]?) = chain.map some) (hseg : ∀ f ∈ segs chain, f.a ≠ f.b) :
    ∀ e ∈ consec mc, (e.1 != e.2.1) = true := by
  induction chain generalizing mc with
  | nil =>
    simp only [List.map_nil, List.map_eq_nil_iff] at hm
    subst hm; intro e he; cases he
  | cons p r ih =>
    cases r with
    | nil =>
      match mc, hm with
      | [i], _ => intro e he; cases he
      | [], hm => simp at hm
      | _ :: _ :: _, hm => simp at hm
    | cons q r =>
      match mc, hm with
      | i :: j :: mr, hm =>
        simp only [List.map_cons, List.cons.injEq] at hm
        obtain ⟨hi, hj, hr⟩ := hm
        intro e he
        simp only [consec, List.mem_cons] at he
        rcases he with rfl | he
        · simp only [bne_iff_ne, ne_eq]
          intro hij
          subst hij
          rw [hi] at hj
          exact hseg ⟨p, q, []⟩ (by simp [segs]) (Option.some.inj hj)
        · exact ih (j :: mr) (by simp only [List.map_cons, hj, hr])
            (fun f hf => hseg f (by simp only [segs, List.mem_cons]; exact Or.inr hf)) e he
      | [], hm => simp at hm
      | [_], hm => simp at hm

theorem chain_mk {V : Type} (degen : Pt2 V → Pt2 V → Bool) (U : List (Pt2 V)) (chain : List (Pt2 V))
    (mc : List Nat) (hm : mc.map (fun i => U[i]?) = chain.map some)
    (hseg : ∀ f ∈ segs chain, degen f.a f.b = false) :
    mapE (mkFrac degen U) (consec mc) = .ok (segs chain) := by
  induction chain generalizing mc with
  | nil =>
    simp only [List.map_nil, List.map_eq_nil_iff] at hm
    subst hm; rfl
  | cons p r ih =>
    cases r with
    | nil =>
      match mc, hm with
      | [i], _ => rfl
      | [], hm => simp at hm
      | _ :: _ :: _, hm => simp at hm
    | cons q r =>
      match mc, hm with
      | i :: j :: mr, hm =>
        simp only [List.map_cons, List.cons.injEq] at hm
        obtain ⟨hi, hj, hr⟩ := hm
        have hd := hseg ⟨p, q, []⟩ (by simp [segs])
        have := ih (j :: mr) (by simp only [List.map_cons, hj, hr])
          (fun f hf => hseg f (by simp only [segs, List.mem_cons]; exact Or.inr hf))
        simp only [consec, mapE, mkFrac, getE, hi, hj, hd, this, segs]
        rfl
      | [], hm => simp at hm
      | [_], hm => simp at hm

theorem split_map {V : Type} (U : List (Pt2 V)) (a b : List (Pt2 V)) (m : List Nat)
    (hm : m.map (fun i => U[i]?) = (a ++ b).map some) :
    (m.take a.length).map (fun i => U[i]?) = a.map some ∧ (m.drop a.length).map (fun i => U[i]?) = b.map some := by
  constructor
  · rw [List.map_take, hm, List.map_append, List.take_left' (by simp)]
  · rw [List.map_drop, hm, List.map_append, List.drop_left' (by simp)]

theorem poly_ne {V : Type} (U : List (Pt2 V)) (polys : List (Poly V)) (m : List Nat)
    (hm : m.map (fun i => U[i]?) = (allPts polys).map some) (hseg : ∀ f ∈ polySegs polys, f.a ≠ f.b) :
    ∀ e ∈ polyPairs polys m, (e.1 != e.2.1) = true := by
  induction polys generalizing m with
  | nil => intro e he; cases he
  | cons P Ps ih =>
    obtain ⟨h1, h2⟩ := split_map U P.pts (allPts Ps) m hm
    intro e he
    simp only [polyPairs, List.mem_append] at he
    rcases he with he | he
    · exact chain_ne U P.pts _ h1 (fun f hf => hseg f (by simp only [polySegs, List.mem_append]; exact Or.inl hf)) e he
    · exact ih _ h2 (fun f hf => hseg f (by simp only [polySegs, List.mem_append]; exact Or.inr hf)) e he

theorem poly_mk {V : Type} (degen : Pt2 V → Pt2 V → Bool) (U : List (Pt2 V)) (polys : List (Poly V))
    (m : List Nat) (hm : m.map (fun i => U[i]?) = (allPts polys).map some)
    (hseg : ∀ f ∈ polySegs polys, degen f.a f.b = false) :
    mapE (mkFrac degen U) (polyPairs polys m) = .ok (polySegs polys) := by
  induction polys generalizing m with
  | nil => rfl
  | cons P Ps ih =>
    obtain ⟨h1, h2⟩ := split_map U P.pts (allPts Ps) m hm
    exact mapE_append _ _ _ _ _
      (chain_mk degen U P.pts _ h1 (fun f hf => hseg f (by simp only [polySegs, List.mem_append]; exact Or.inl hf)))
      (ih _ h2 (fun f hf => hseg f (by simp only [polySegs, List.mem_append]; exact Or.inr hf)))

theorem chainEdges_length (s c : Nat) : (chainEdges s c).length = c := by
  induction c generalizing s with
  | zero => rfl
  | succ c ih => simp only [chainEdges, List.length_cons, ih]

theorem edges_snd_toIdx {V : Type} (n : Num V) (s : Nat) (polys : List (Poly V)) :
    ((polyEdgesSpec s polys).map (·.2)).map n.toIdx = polyIds n polys := by
  induction polys generalizing s with
  | nil => rfl
  | cons P Ps ih =>
    simp only [polyEdgesSpec, List.map_append, List.map_map, polyIds, ih]
    congr 1
    rw [List.eq_replicate_iff]
    constructor
    · simp only [List.length_map, chainEdges_length]
    · intro b hb
      simp only [List.mem_map, Function.comp] at hb
      obtain ⟨_, _, rfl⟩ := hb
      rfl




theorem allPts_length_pos {V : Type} (P : Poly V) (Ps : List (Poly V)) (h : 2 ≤ P.pts.length) :
    ∃ p r, allPts (P :: Ps) = p :: r := by
  cases hp : P.pts with
  | nil => rw [hp] at h; simp at h
  | cons p r => exact ⟨p, r ++ allPts Ps, by simp only [allPts, hp, List.cons_append]⟩

theorem finishCore_poly {V : Type} (n : Num V) (near degen : Pt2 V → Pt2 V → Bool) (d : Box2 V)
    (polys : List (Poly V))
    (hnear : ∀ p ∈ allPts polys, ∀ q ∈ allPts polys, near p q = true → p = q)
    (hseg : ∀ f ∈ polySegs polys, f.a ≠ f.b ∧ degen f.a f.b = false) :
    finishCore n near degen d (allPts polys) (polyEdgesSpec 0 polys)
      = .ok ⟨polySegs polys, some d, polyIds n polys⟩ := by
  have hm := greedy_lookup near (allPts polys) [] (fun x hx p hp h => by
    rcases hx with hx | hx
    · cases hx
    · exact hnear x hx p hp h)
  have hml : (greedy near [] (allPts polys)).2.length = (allPts polys).length := by
    have := congrArg List.length hm
    simpa using this
  have hlook := poly_lookup polys [] (greedy near [] (allPts polys)).2 hml
  simp only [List.nil_append, List.length_nil] at hlook
  have hlen := mapE_length _ _ _ hlook
  have hfilter : ((polyPairs polys (greedy near [] (allPts polys)).2).zip ((polyEdgesSpec 0 polys).map (·.2))).filter
      (fun p => p.1.1 != p.1.2.1)
      = (polyPairs polys (greedy near [] (allPts polys)).2).zip ((polyEdgesSpec 0 polys).map (·.2)) :=
    List.filter_eq_self.mpr (fun p hp =>
      poly_ne _ polys _ hm (fun f hf => (hseg f hf).1) p.1 (List.of_mem_zip hp).1)
  have h1 : ((polyPairs polys (greedy near [] (allPts polys)).2).zip ((polyEdgesSpec 0 polys).map (·.2))).map (·.1)
      = polyPairs polys (greedy near [] (allPts polys)).2 :=
    List.map_fst_zip (by rw [hlen]; simp)
  have h2 : ((polyPairs polys (greedy near [] (allPts polys)).2).zip ((polyEdgesSpec 0 polys).map (·.2))).map
      (fun p => n.toIdx p.2) = polyIds n polys := by
    rw [← edges_snd_toIdx n 0 polys]
    rw [← List.map_snd_zip (l₁ := polyPairs polys (greedy near [] (allPts polys)).2)
      (l₂ := (polyEdgesSpec 0 polys).map (·.2)) (by rw [hlen]; simp), List.map_map]
    rw [List.map_snd_zip (by rw [hlen]; simp)]
    rfl
  simp only [finishCore, hlook, hfilter, h1, h2,
    poly_mk degen _ polys _ hm (fun f hf => (hseg f hf).2)]

theorem read2dRows_poly {V : Type} [DecidableEq V] (n : Num V) (near degen : Pt2 V → Pt2 V → Bool)
    (polys : List (Poly V)) (hne : polys ≠ []) (skip : Nat) (dom : Option (Box2 V))
    (hlen : ∀ P ∈ polys, 2 ≤ P.pts.length)
    (hids : polys.Pairwise (fun a b => a.id ≠ b.id ∧ n.lt a.id b.id = true))
    (hnear : ∀ p ∈ allPts polys, ∀ q ∈ allPts polys, near p q = true → p = q)
    (hseg : ∀ f ∈ polySegs polys, f.a ≠ f.b ∧ degen f.a f.b = false) :
    read2dRows n near degen (polyVals polys) ⟨skip, none, none, true, dom⟩
      = .ok ⟨polySegs polys, domOr n dom (allPts polys), polyIds n polys⟩ := by
  cases polys with
  | nil => exact absurd rfl hne
  | cons P Ps =>
    have hP := hlen P List.mem_cons_self
    obtain ⟨p, r, hpr⟩ := allPts_length_pos P Ps hP
    have hhead : ((polyVals (P :: Ps)).head?.map List.length).getD 0 = 3 := by
      cases hp : P.pts with
      | nil => rw [hp] at hP; simp at hP
      | cons q t => simp [polyVals, hp]
    have hcols : ptCols 3 none = [1, 2] := by decide
    have hd : ∃ d, domOr n dom (allPts (P :: Ps)) = some d := by
      rw [hpr]
      cases dom with
      | some d => exact ⟨d, rfl⟩
      | none => exact ⟨_, rfl⟩
    obtain ⟨d, hd⟩ := hd
    simp only [read2dRows, hhead, hcols, sel_polyVals, pairUp_pts, heads_polyVals, if_true,
      polyEdges_spec n (P :: Ps) hlen hids, finish2, hd,
      finishCore_poly n near degen d (P :: Ps) hnear hseg]



/-! ### vertex cycles: dihedral symmetry and the angular sort -/


theorem rot_eq_rotate {α : Type} (k : Nat) (l : List α) : rot k l = l.rotate k := by
  rw [rot, List.rotate_eq_drop_append_take_mod]

theorem dihedral_iff {α : Type} (g f : List α) : Dihedral g f ↔ (f ~r g ∨ f ~r g.reverse) := by
  constructor
  · rintro ⟨k, h | h⟩
    · exact Or.inl ⟨k, by rw [h, rot_eq_rotate]⟩
    · exact Or.inr ⟨k, by rw [h, rot_eq_rotate, List.reverse_reverse]⟩
  · rintro (⟨k, h⟩ | ⟨k, h⟩)
    · exact ⟨k, Or.inl (by rw [rot_eq_rotate, h])⟩
    · exact ⟨k, Or.inr (by rw [rot_eq_rotate, h, List.reverse_reverse])⟩

theorem dihedral_refl {α : Type} (f : List α) : Dihedral f f :=
  (dihedral_iff f f).mpr (Or.inl (List.IsRotated.refl f))

theorem dihedral_symm {α : Type} {g f : List α} (h : Dihedral g f) : Dihedral f g := by
  rw [dihedral_iff] at h ⊢
  rcases h with h | h
  · exact Or.inl h.symm
  · refine Or.inr ?_
    have := h.symm.reverse
    rwa [List.reverse_reverse] at this

theorem dihedral_trans {α : Type} {h g f : List α} (h1 : Dihedral h g) (h2 : Dihedral g f) : Dihedral h f := by
  rw [dihedral_iff] at h1 h2 ⊢
  rcases h1 with h1 | h1 <;> rcases h2 with h2 | h2
  · exact Or.inl (h2.trans h1)
  · refine Or.inr ?_
    exact h2.trans h1.reverse
  · exact Or.inr (h2.trans h1)
  · refine Or.inl ?_
    have := h1.reverse
    rw [List.reverse_reverse] at this
    exact h2.trans this

theorem dihedral_perm {α : Type} {g f : List α} (h : Dihedral g f) : g.Perm f := by
  rw [dihedral_iff] at h
  rcases h with h | h
  · exact h.perm.symm
  · exact ((List.reverse_perm g).symm.trans h.perm.symm)

/-! angular sort -/

theorem insertBy_perm {P : Type} (θ : P → Rat) (p : P) (l : List P) : (insertBy θ p l).Perm (p :: l) := by
  induction l with
  | nil => exact List.Perm.refl _
  | cons a l ih =>
    simp only [insertBy]
    split
    · exact (List.Perm.cons a ih).trans (List.Perm.swap p a l)
    · exact List.Perm.refl _

theorem angSort_perm {P : Type} (θ : P → Rat) (l : List P) : (angSort θ l).Perm l := by
  induction l with
  | nil => exact List.Perm.refl _
  | cons p l ih => exact (insertBy_perm θ p _).trans (List.Perm.cons p ih)

theorem insertBy_sorted {P : Type} (θ : P → Rat) (p : P) (l : List P) (hs : StrictAsc θ l)
    (hne : ∀ x ∈ l, θ x ≠ θ p) : StrictAsc θ (insertBy θ p l) := by
  induction l with
  | nil => exact List.pairwise_singleton _ _
  | cons a l ih =>
    have hp := List.pairwise_cons.mp hs
    simp only [insertBy]
    split
    · rename_i hlt
      refine List.pairwise_cons.mpr ⟨?_, ih hp.2 (fun x hx => hne x (List.mem_cons_of_mem _ hx))⟩
      intro y hy
      rcases List.mem_cons.mp ((insertBy_perm θ p l).mem_iff.mp hy) with rfl | hy
      · exact hlt
      · exact hp.1 y hy
    · rename_i hnlt
      have hpa : θ p < θ a := by
        have := hne a List.mem_cons_self
        grind
      refine List.pairwise_cons.mpr ⟨?_, hs⟩
      intro y hy
      rcases List.mem_cons.mp hy with rfl | hy
      · exact hpa
      · have := hp.1 y hy
        grind

theorem angSort_sorted {P : Type} (θ : P → Rat) (l : List P) (hinj : l.Pairwise (fun x y => θ x ≠ θ y)) :
    StrictAsc θ (angSort θ l) := by
  induction l with
  | nil => exact List.Pairwise.nil
  | cons p l ih =>
    have hp := List.pairwise_cons.mp hinj
    exact insertBy_sorted θ p _ (ih hp.2) (fun x hx => (hp.1 x ((angSort_perm θ l).mem_iff.mp hx)).symm)

theorem eq_of_perm_of_strictAsc {P : Type} (θ : P → Rat) (l1 l2 : List P) (hp : l1.Perm l2)
    (h1 : StrictAsc θ l1) (h2 : StrictAsc θ l2) : l1 = l2 := by
  induction l1 generalizing l2 with
  | nil => exact (List.Perm.nil_eq hp)
  | cons x t ih =>
    cases l2 with
    | nil => exact absurd hp.eq_nil (List.cons_ne_nil _ _)
    | cons y t2 =>
      have p1 := List.pairwise_cons.mp h1
      have p2 := List.pairwise_cons.mp h2
      have hxy : x = y := by
        by_contra hne
        have hx2 : x ∈ t2 := by
          rcases List.mem_cons.mp (hp.mem_iff.mp List.mem_cons_self) with h | h
          · exact absurd h hne
          · exact h
        have hy1 : y ∈ t := by
          rcases List.mem_cons.mp (hp.mem_iff.mpr List.mem_cons_self) with h | h
          · exact absurd h.symm hne
          · exact h
        have a := p2.1 x hx2
        have b := p1.1 y hy1
        grind
      subst hxy
      rw [ih t2 ((List.perm_cons x).mp hp) p1.2 p2.2]

theorem angSort_eq_of_perm {P : Type} (θ : P → Rat) (f a : List P) (hp : f.Perm a) (ha : StrictAsc θ a) :
    angSort θ f = a := by
  have hne_a : a.Pairwise (fun x y => θ x ≠ θ y) := ha.imp (fun h => by grind)
  have hne_f : f.Pairwise (fun x y => θ x ≠ θ y) :=
    (List.Perm.pairwise_iff (fun h => Ne.symm h) hp).mpr hne_a
  exact eq_of_perm_of_strictAsc θ _ _ ((angSort_perm θ f).trans hp) (angSort_sorted θ f hne_f) ha



/-! ### elliptic 3-D files -/


theorem readFracsE_rows {V T : Type} (c : Codec V T) (n : Num V) (hF : Faithful c n)
    (mk : List V → Except Err (List (Pt3 V))) (params : List (List V))
    (h9 : ∀ p ∈ params, p.length = 9) :
    readFracsE c mk (params.map (fun p => Line.data (p.map c.enc))) = mapE mk params := by
  induction params with
  | nil => rfl
  | cons p ps ih =>
    have ih' := ih (fun q hq => h9 q (List.mem_cons_of_mem _ hq))
    have hp := h9 p List.mem_cons_self
    have hdec := decodeRow_map_enc c n hF .value p
    match p, hp, hdec with
    | x :: xs, hp, hdec =>
      have hmod : ((x :: xs).length % 9 != 0) = false := by rw [hp]; rfl
      have htake : (x :: xs).take 9 = x :: xs := by rw [← hp]; exact List.take_length
      simp only [List.map_cons] at hdec
      simp only [List.map_cons, readFracsE, hdec, hmod, htake, ih', mapE, Bool.false_eq_true, if_false]
      cases mk (x :: xs) with
      | error e => rfl
      | ok b => cases mapE mk ps <;> rfl



/-! ### concrete tolerances over Rat; max_num_fracs -/


theorem sq_ge (tol e : Rat) (h0 : 0 ≤ tol) (h : tol < e) : tol * tol ≤ e * e := by
  have h1 : tol * tol ≤ tol * e := Rat.mul_le_mul_of_nonneg_left (by grind) h0
  have h2 : tol * e ≤ e * e := Rat.mul_le_mul_of_nonneg_right (by grind) (by grind)
  grind

theorem sq_nonneg' (d : Rat) : 0 ≤ d * d := by
  by_cases h : 0 ≤ d
  · exact Rat.mul_nonneg h h
  · have : 0 ≤ (-d) * (-d) := Rat.mul_nonneg (by grind) (by grind)
    grind

theorem sq_ge_abs (tol d : Rat) (h0 : 0 ≤ tol) (h : tol < absQ d) : tol * tol ≤ d * d := by
  unfold absQ at h
  split at h
  · have := sq_ge tol (-d) h0 h
    grind
  · exact sq_ge tol d h0 h

theorem absQ_sub_comm (a b : Rat) : absQ (a - b) = absQ (b - a) := by
  unfold absQ
  grind

theorem closeQ_discrete (tol : Rat) (fs : List (Frac2 Rat)) (hs : Separated tol fs) :
    ∀ p ∈ endpoints fs, ∀ q ∈ endpoints fs, closeQ tol p q = true → p = q := by
  intro p hp q hq hc
  by_contra hne
  simp only [closeQ, Bool.and_eq_true, decide_eq_true_eq] at hc
  rcases hs p hp q hq hne with h | h
  · rw [absQ_sub_comm] at h; grind
  · rw [absQ_sub_comm] at h; grind

theorem nearQ_discrete (tol : Rat) (h0 : 0 ≤ tol) (fs : List (Frac2 Rat)) (hs : Separated tol fs) :
    ∀ p ∈ endpoints fs, ∀ q ∈ endpoints fs, nearQ tol p q = true → p = q := by
  intro p hp q hq hc
  by_contra hne
  simp only [nearQ, decide_eq_true_eq] at hc
  have n1 := sq_nonneg' (q.1 - p.1)
  have n2 := sq_nonneg' (q.2 - p.2)
  rcases hs p hp q hq hne with h | h
  · rw [absQ_sub_comm] at h
    have := sq_ge_abs tol _ h0 h
    grind
  · rw [absQ_sub_comm] at h
    have := sq_ge_abs tol _ h0 h
    grind

theorem valsSpec_take {V : Type} (n : Num V) (s k : Nat) (fs : List (Frac2 V)) :
    (valsSpec n s fs).take k = valsSpec n s (fs.take k) := by
  induction fs generalizing s k with
  | nil => simp [valsSpec]
  | cons f fs ih =>
    cases k with
    | zero => simp [valsSpec]
    | succ k => simp only [valsSpec, List.take_succ_cons, ih]

theorem endpoints_take_subset {V : Type} (k : Nat) (fs : List (Frac2 V)) :
    ∀ p ∈ endpoints (fs.take k), p ∈ endpoints fs := by
  induction fs generalizing k with
  | nil => intro p hp; simp [endpoints] at hp
  | cons f fs ih =>
    cases k with
    | zero => intro p hp; simp [endpoints] at hp
    | succ k =>
      intro p hp
      simp only [List.take_succ_cons, endpoints, List.mem_cons] at hp ⊢
      rcases hp with h | h | h
      · exact Or.inl h
      · exact Or.inr (Or.inl h)
      · exact Or.inr (Or.inr (ih k p h))



/-! ### the dictionary built from the (name, column) pairs -/


theorem foldl_nokey {V : Type} (l : List (Name × List V)) (k : Name) (acc : Option (List V))
    (h : ∀ p ∈ l, p.1 ≠ k) :
    l.foldl (fun acc p => if p.1 = k then some p.2 else acc) acc = acc := by
  induction l generalizing acc with
  | nil => rfl
  | cons d t ih =>
    have hd := h d List.mem_cons_self
    simp only [List.foldl_cons, hd, if_false]
    exact ih acc (fun p hp => h p (List.mem_cons_of_mem _ hp))

theorem foldl_key {V : Type} (l : List (Name × List V)) (q : Name × List V) (acc : Option (List V))
    (hq : q ∈ l) (hnd : (l.map (·.1)).Nodup) :
    l.foldl (fun acc p => if p.1 = q.1 then some p.2 else acc) acc = some q.2 := by
  induction l generalizing acc with
  | nil => cases hq
  | cons d t ih =>
    have hn : d.1 ∉ t.map (·.1) ∧ (t.map (·.1)).Nodup := List.nodup_cons.mp hnd
    rcases List.mem_cons.mp hq with rfl | hq'
    · simp only [List.foldl_cons, if_true]
      exact foldl_nokey t q.1 _ (fun p hp he => hn.1 (he ▸ List.mem_map_of_mem hp))
    · simp only [List.foldl_cons]
      exact ih _ hq' hn.2


end PorepyVerif.C47
