/- C47 line-protocol driver: `lake env lean --run PorepyVerif/C47/Driver.lean`
   Values are rationals; a token is `some q` (a cell that parses as a number) or `none` (a cell that
   does not).  The text layer itself (str(float), `%`-formats, float parsing) is checked on the
   Python side. -/
import PorepyVerif.Common.Wire
import PorepyVerif.C47.Model
open Lean PV PorepyVerif.C47

abbrev Tok := Option Rat

def codecQ : Codec Rat Tok := ⟨fun v => some v, fun t => t, fun k => some (k : Rat)⟩
def numQ : Num Rat := ⟨fun a b => decide (a < b), fun v => Int.tdiv v.num v.den, fun k => (k : Rat)⟩

/-- PlaneFracture constructor, record layer only: at least three vertices, vertices kept -/
def normQ (f : List (Pt3 Rat)) : Except Err (List (Pt3 Rat)) :=
  if f.length < 3 then .error .value else .ok f

/-- key function given as a table: the i-th vertex of `f` has key `ths[i]` -/
def keyOf (f : List (Pt3 Rat)) (ths : List Rat) (p : Pt3 Rat) : Rat :=
  match (f.zip ths).find? (fun q => q.1 == p) with
  | some q => q.2
  | none => 0

def errJson : Err → Json
  | .value => err "ValueError"
  | .index => err "IndexError"
  | .stopIteration => err "StopIteration"
  | .decode => err "DecodeError"

def tokJson : Tok → Json
  | some q => ofRat q
  | none => Json.null

def lineJson : Line Tok → Json
  | .comment s => obj [("c", Json.str s)]
  | .data cs => ofList tokJson cs

def jTok (j : Json) : R Tok :=
  match j with
  | .null => pure none
  | _ => some <$> jRat j

def jLine (j : Json) : R (Line Tok) :=
  match j with
  | .arr _ => Line.data <$> jList jTok j
  | _ => do
    let s ← fStr j "c"
    pure (Line.comment s)

def jFrac2 (j : Json) : R (Frac2 Rat) := do
  let l ← jList jRat j
  match l with
  | [ax, ay, bx, b_y] => pure ⟨(ax, ay), (bx, b_y), []⟩
  | _ => throw "fracture needs 4 numbers"

def jBox2 (j : Json) : R (Box2 Rat) := do
  let l ← jList jRat j
  match l with
  | [a, b, c, d] => pure ⟨a, b, c, d⟩
  | _ => throw "box2 needs 4 numbers"

def jPt3 (j : Json) : R (Pt3 Rat) := do
  let l ← jList jRat j
  match l with
  | [x, y, z] => pure (x, y, z)
  | _ => throw "point needs 3 numbers"

def jBox3 (j : Json) : R (Box3 Rat) := do
  let l ← jList jRat j
  match l with
  | [a, b, c, d, e, f] => pure ⟨a, b, c, d, e, f⟩
  | _ => throw "box3 needs 6 numbers"

def readOpts (j : Json) : R (Opts2 Rat × Rat) := do
  let skip ← fNat j "skip_header"
  let tagcols ← jOpt (jList jNat) (fieldD j "tagcols" Json.null)
  let maxn ← jOpt jNat (fieldD j "max_num_fracs" Json.null)
  let poly ← fBool j "polyline"
  let dom ← jOpt jBox2 (fieldD j "domain" Json.null)
  let tol ← fRat j "tol"
  pure (⟨skip, tagcols, maxn, poly, dom⟩, tol)

def net2Json (r : Except Err (Net2 Rat)) : Json :=
  match r with
  | .error e => errJson e
  | .ok net => obj [
      ("fracs", ofList (fun f => ofRats [f.a.1, f.a.2, f.b.1, f.b.2]) net.fracs),
      ("tags", ofList (fun f => ofInts f.tags) net.fracs),
      ("domain", match net.domain with
        | none => Json.null
        | some b => ofRats [b.xmin, b.xmax, b.ymin, b.ymax]),
      ("ids", ofInts net.fracIds)]

def net3Json (r : Except Err (Net3 Rat)) : Json :=
  match r with
  | .error e => errJson e
  | .ok net => obj [
      ("fracs", ofList (fun f => ofList (fun p => ofRats [p.1, p.2.1, p.2.2]) f) net.fracs),
      ("domain", match net.domain with
        | none => Json.null
        | some b => ofRats [b.xmin, b.ymin, b.zmin, b.xmax, b.ymax, b.zmax])]

def jCol (j : Json) : R (TxtCol Rat Unit × List Rat) := do
  let name ← fStr j "name"
  let arr ← fRats j "arr"
  let rounded ← fRats j "rounded"
  pure (⟨name.toList, arr, ()⟩, rounded)

def step (j : Json) : R Json := do
  let op ← fStr j "op"
  match op with
  | "csv2d" =>
    let fs ← field j "fracs" >>= jList jFrac2
    let tol ← fRat j "tol"
    let hdr ← fBool j "with_header"
    let (o, rtol) ← field j "read" >>= readOpts
    match write2d codecQ (closeQ tol) fs hdr with
    | .error e => pure (errJson e)
    | .ok lines =>
      -- the decidable input conditions of csv2d_roundtrip_tol, evaluated by the model
      let pre : Bool := decide (Separated tol fs) && decide (Separated rtol fs) && decide (Constructible fs)
      pure (obj [("lines", ofList lineJson lines), ("pre", Json.bool pre),
                 ("net", net2Json (read2d codecQ numQ (nearQ rtol) degenQ lines o))])
  | "raw2d" =>
    let lines ← field j "lines" >>= jList jLine
    let (o, rtol) ← field j "read" >>= readOpts
    pure (obj [("net", net2Json (read2d codecQ numQ (nearQ rtol) degenQ lines o))])
  | "csv3d" =>
    let fracs0 ← field j "fracs" >>= jList (jList jPt3)
    let dom ← jOpt jBox3 (fieldD j "domain" Json.null)
    let hasDom ← fBool j "has_domain"
    -- angle keys of the construction sort (null: network built with sort_points=False) and of the
    -- reader's re-sort of the stored lists (null: vertices kept, the harness compares vertex cycles)
    let th1 ← jOpt (jList (jList jRat)) (fieldD j "thetas1" Json.null)
    let th2 ← jOpt (jList (jList jRat)) (fieldD j "thetas2" Json.null)
    let fracs : List (List (Pt3 Rat)) := match th1 with
      | none => fracs0
      | some ths => (fracs0.zip ths).map (fun p => angSort (keyOf p.1 p.2) p.1)
    let lines : List (Line Tok) := write3d codecQ fracs dom
    let norm : List (Pt3 Rat) → Except Err (List (Pt3 Rat)) := match th2 with
      | none => normQ
      | some ths => normSort (fun f => match (fracs.zip ths).find? (fun p => p.1 == f) with
          | some p => keyOf p.1 p.2
          | none => fun _ => 0)
    pure (obj [("held", ofList (fun f => ofList (fun p => ofRats [p.1, p.2.1, p.2.2]) f) fracs),
               ("lines", ofList lineJson lines), ("net", net3Json (read3d codecQ norm lines hasDom))])
  | "raw3d" =>
    let lines ← field j "lines" >>= jList jLine
    let hasDom ← fBool j "has_domain"
    pure (obj [("net", net3Json (read3d codecQ normQ lines hasDom))])
  | "ell3d" =>
    let lines ← field j "lines" >>= jList jLine
    let hasDom ← fBool j "has_domain"
    -- `mk` only records the nine parameters it is handed (as three triples)
    let mk : List Rat → Except Err (List (Pt3 Rat)) := fun vs =>
      match vs with
      | [a, b, c, d, e, f, g, h, i] => .ok [(a, b, c), (d, e, f), (g, h, i)]
      | _ => .error .value
    pure (obj [("net", net3Json (readElliptic codecQ mk lines hasDom))])
  | "txt" =>
    let cs ← field j "cols" >>= jList jCol
    let cols := cs.map (·.1)
    -- what the decoder sees: the same table with every value replaced by its rounded partner
    let colsR := cs.map (fun p => ({ p.1 with arr := p.2 } : TxtCol Rat Unit))
    match exportTxt (fun (_ : Unit) (v : Rat) => (some v : Tok)) cols,
          exportTxt (fun (_ : Unit) (v : Rat) => (some v : Tok)) colsR with
    | .ok file, .ok fileR =>
      let rd : Json := match readTxt (fun (t : Tok) => t) fileR with
        | .error e => errJson e
        | .ok l => ofList (fun p => Json.arr #[Json.str (String.ofList p.1), ofRats p.2]) l
      pure (obj [("header", Json.str (String.ofList file.header)),
                 ("rows", ofList (fun r => ofList tokJson r) file.rows), ("read", rd)])
    | .error e, _ => pure (errJson e)
    | _, .error e => pure (errJson e)
  | _ => throw s!"unknown op {op}"

def main : IO Unit := runPure step
