import PorepyVerif.C47.Props
#print axioms PorepyVerif.C47.csv2d_file
#print axioms PorepyVerif.C47.csv2d_roundtrip
#print axioms PorepyVerif.C47.csv3d_transparent
#print axioms PorepyVerif.C47.csv3d_roundtrip
#print axioms PorepyVerif.C47.csv3d_roundtrip_upto
#print axioms PorepyVerif.C47.txt_roundtrip_rounded
#print axioms PorepyVerif.C47.txt_roundtrip
#print axioms PorepyVerif.C47.polyline_read
#print axioms PorepyVerif.C47.dihedral_equivalence
#print axioms PorepyVerif.C47.angSort_dihedral
#print axioms PorepyVerif.C47.angSort_fixed
#print axioms PorepyVerif.C47.csv3d_roundtrip_dihedral
#print axioms PorepyVerif.C47.csv3d_roundtrip_sorted
#print axioms PorepyVerif.C47.elliptic_transparent
#print axioms PorepyVerif.C47.csv2d_roundtrip_tol
#print axioms PorepyVerif.C47.csv2d_roundtrip_max
#print axioms PorepyVerif.C47.txt_roundtrip_dict
