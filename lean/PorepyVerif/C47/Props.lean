/-
C47 — property theorems (statements only depend on Model.lean; helper lemmas in Lemmas.lean).

Property: writing a 2-D or 3-D fracture network to csv and reading it back yields the same fractures,
and writing named data arrays to txt and reading them back yields the same arrays.

All theorems are about the RECORD layer and hold for every token codec with `dec (enc v) = some v`
(`Faithful`).  What "the same fractures" means:
* 2-D: the ORDERED list of (start point, end point) pairs, same fracture order, same orientation;
  tags are not part of the file (the reader returns fractures without tags), the domain is not part of
  the file either (the reader takes it as an argument or computes the bounding box), fracture ids come
  back as 0,1,2,…
* 3-D: the ordered list of vertex lists as the PlaneFracture constructor `norm` returns them; equal to
  the original vertex lists when `norm` reproduces them, and related to them by any relation `R`
  (e.g. "same polygon up to rotation/reflection of the vertex cycle") that `norm` guarantees.
* txt: the ordered list of (name, array) pairs; with a lossy format every value comes back as
  `rnd fmt v` where `dec (enc fmt v) = some (rnd fmt v)`.
-/
import PorepyVerif.C47.Lemmas

namespace PorepyVerif.C47

/-- What `to_csv` writes: an optional header comment and, for fracture k, the row
    `[k, start.x, start.y, end.x, end.y]` — provided the network's own point table (built with the
    tolerance relation `close`) merges no two DISTINCT endpoints. -/
theorem csv2d_file {V T : Type} (c : Codec V T) (close : Pt2 V → Pt2 V → Bool) (fs : List (Frac2 V))
    (hdr : Bool)
    (hclose : ∀ p ∈ endpoints fs, ∀ q ∈ endpoints fs, close p q = true → p = q) :
    write2d c close fs hdr
      = .ok (if hdr then Line.comment header2 :: rowsSpec c 0 fs else rowsSpec c 0 fs) :=
  write2d_spec c close fs hdr hclose

/-- 2-D round trip.  Hypotheses: faithful codec; the reader skips exactly the header line if there is
    one (`skip_header = 1`, the default) or nothing (`skip_header = 0`, the header being a comment);
    no two distinct endpoints are identified by the writer's table (`close`) or by the reader's
    `uniquify_point_set` (`near`) — "points pairwise farther apart than tol"; no zero-length fracture;
    no fracture the LineFracture constructor rejects (`degen`). -/
theorem csv2d_roundtrip {V T : Type} [DecidableEq V] (c : Codec V T) (n : Num V)
    (close near degen : Pt2 V → Pt2 V → Bool) (fs : List (Frac2 V)) (hdr : Bool) (skip : Nat)
    (dom : Option (Box2 V)) (hF : Faithful c n)
    (hskip : skip = 0 ∨ (hdr = true ∧ skip = 1))
    (hclose : ∀ p ∈ endpoints fs, ∀ q ∈ endpoints fs, close p q = true → p = q)
    (hnear : ∀ p ∈ endpoints fs, ∀ q ∈ endpoints fs, near p q = true → p = q)
    (hlen : ∀ f ∈ fs, f.a ≠ f.b) (hdeg : ∀ f ∈ fs, degen f.a f.b = false) :
    ∃ file, write2d c close fs hdr = .ok file ∧
      read2d c n near degen file ⟨skip, none, none, false, dom⟩
        = .ok ⟨fs.map strip, domOr n dom (endpoints fs), (List.range' 0 fs.length).map Int.ofNat⟩ := by
  refine ⟨_, write2d_spec c close fs hdr hclose, ?_⟩
  have hdrop : ((if hdr then Line.comment header2 :: rowsSpec c 0 fs else rowsSpec c 0 fs).drop skip).filterMap
      cellsOf = (rowsSpec c 0 fs).filterMap cellsOf := by
    rcases hskip with rfl | ⟨rfl, rfl⟩
    · cases hdr
      · simp
      · simp only [if_true, List.drop_zero]
        exact List.filterMap_cons_none rfl
    · simp
  simp only [read2d, hdrop, decode_rowsSpec c n hF, sameLen_valsSpec, atleast2d_valsSpec]
  cases fs with
  | nil =>
    cases dom <;> rfl
  | cons f fs' =>
    have := read2dRows_spec c n hF near degen (f :: fs') (by simp) skip dom none hnear hlen hdeg
    simpa [valsSpec] using this

/-- 2-D round trip with the real tolerance tests (values = rationals, which include every binary64):
    the abstract hypotheses of `csv2d_roundtrip` become DECIDABLE conditions on the input network —
    `Separated`: two different end points differ by more than tol in some coordinate (for the network's
    tol and for the reader's tol), `Constructible`: LineFracture accepts every fracture.  The writer's
    table test is `np.allclose(rtol=0, atol=tol)`, the reader's `uniquify_point_set` test is the squared
    distance, the constructor's test is `np.isclose` with numpy's defaults. -/
theorem csv2d_roundtrip_tol {T : Type} (c : Codec Rat T) (n : Num Rat) (tolW tolR : Rat)
    (fs : List (Frac2 Rat)) (hdr : Bool) (skip : Nat) (dom : Option (Box2 Rat)) (hF : Faithful c n)
    (hskip : skip = 0 ∨ (hdr = true ∧ skip = 1)) (h0 : 0 ≤ tolR)
    (hW : Separated tolW fs) (hR : Separated tolR fs) (hC : Constructible fs) :
    ∃ file, write2d c (closeQ tolW) fs hdr = .ok file ∧
      read2d c n (nearQ tolR) degenQ file ⟨skip, none, none, false, dom⟩
        = .ok ⟨fs.map strip, domOr n dom (endpoints fs), (List.range' 0 fs.length).map Int.ofNat⟩ :=
  csv2d_roundtrip c n (closeQ tolW) (nearQ tolR) degenQ fs hdr skip dom hF hskip
    (closeQ_discrete tolW fs hW) (nearQ_discrete tolR h0 fs hR)
    (fun f hf => (hC f hf).1) (fun f hf => (hC f hf).2)

/-- `max_num_fracs = k + 1` on a written file: the first `k + 1` fractures come back (ordered, ids
    0..k), the domain is the argument or the bounding box of THEIR end points. -/
theorem csv2d_roundtrip_max {V T : Type} [DecidableEq V] (c : Codec V T) (n : Num V)
    (close near degen : Pt2 V → Pt2 V → Bool) (fs : List (Frac2 V)) (hdr : Bool) (skip k : Nat)
    (dom : Option (Box2 V)) (hF : Faithful c n)
    (hskip : skip = 0 ∨ (hdr = true ∧ skip = 1))
    (hclose : ∀ p ∈ endpoints fs, ∀ q ∈ endpoints fs, close p q = true → p = q)
    (hnear : ∀ p ∈ endpoints fs, ∀ q ∈ endpoints fs, near p q = true → p = q)
    (hlen : ∀ f ∈ fs, f.a ≠ f.b) (hdeg : ∀ f ∈ fs, degen f.a f.b = false) :
    ∃ file, write2d c close fs hdr = .ok file ∧
      read2d c n near degen file ⟨skip, none, some (k + 1), false, dom⟩
        = .ok ⟨(fs.take (k + 1)).map strip, domOr n dom (endpoints (fs.take (k + 1))),
               (List.range' 0 (fs.take (k + 1)).length).map Int.ofNat⟩ := by
  refine ⟨_, write2d_spec c close fs hdr hclose, ?_⟩
  have hdrop : ((if hdr then Line.comment header2 :: rowsSpec c 0 fs else rowsSpec c 0 fs).drop skip).filterMap
      cellsOf = (rowsSpec c 0 fs).filterMap cellsOf := by
    rcases hskip with rfl | ⟨rfl, rfl⟩
    · cases hdr
      · simp
      · simp only [if_true, List.drop_zero]
        exact List.filterMap_cons_none rfl
    · simp
  simp only [read2d, hdrop, decode_rowsSpec c n hF, sameLen_valsSpec, atleast2d_valsSpec, valsSpec_take]
  cases fs with
  | nil => cases dom <;> rfl
  | cons f fs' =>
    have hsub := endpoints_take_subset (k + 1) (f :: fs')
    have := read2dRows_spec c n hF near degen ((f :: fs').take (k + 1)) (by simp) skip dom (some (k + 1))
      (fun p hp q hq => hnear p (hsub p hp) q (hsub q hq))
      (fun g hg => hlen g (List.mem_of_mem_take hg)) (fun g hg => hdeg g (List.mem_of_mem_take hg))
    simpa [valsSpec] using this

/-- Polyline files (format 2, `polyline=True`; porepy has no writer for this format, so this is the
    reader's specification on the rows `FID, PT_X, PT_Y`).  For polylines listed one after the other
    with pairwise different, ascending ids and at least two points each, the reader returns, for each
    polyline in turn, its CONSECUTIVE points as fractures (neighbouring fractures share an end point),
    each carrying the id of its polyline.  Hypotheses: faithful codec, no two distinct points within
    tol of each other, consecutive points of a polyline distinct and accepted by LineFracture. -/
theorem polyline_read {V T : Type} [DecidableEq V] (c : Codec V T) (n : Num V)
    (near degen : Pt2 V → Pt2 V → Bool) (polys : List (Poly V)) (hdr : Option String) (skip : Nat)
    (dom : Option (Box2 V)) (hF : Faithful c n)
    (hskip : skip = 0 ∨ (hdr.isSome = true ∧ skip = 1))
    (hlen : ∀ P ∈ polys, 2 ≤ P.pts.length)
    (hids : polys.Pairwise (fun a b => a.id ≠ b.id ∧ n.lt a.id b.id = true))
    (hnear : ∀ p ∈ allPts polys, ∀ q ∈ allPts polys, near p q = true → p = q)
    (hseg : ∀ f ∈ polySegs polys, f.a ≠ f.b ∧ degen f.a f.b = false) :
    read2d c n near degen
        (hdrLines hdr ++ polyRowsSpec c polys) ⟨skip, none, none, true, dom⟩
      = .ok ⟨polySegs polys, domOr n dom (allPts polys), polyIds n polys⟩ := by
  have hdrop : ((hdrLines hdr ++ polyRowsSpec c polys).drop skip).filterMap cellsOf
      = (polyRowsSpec c polys).filterMap (cellsOf (T := T)) := by
    rcases hskip with rfl | ⟨h1, rfl⟩
    · cases hdr with
      | none => simp [hdrLines]
      | some h =>
        simp only [hdrLines, List.drop_zero, List.cons_append, List.nil_append]
        exact List.filterMap_cons_none rfl
    · cases hdr with
      | none => simp at h1
      | some h => simp [hdrLines]
  have hsl := sameLen_of_forall _ 3 (polyVals_length polys)
  simp only [read2d, hdrop, decode_polyRows c n hF, hsl, atleast2d_of_len3 _ (polyVals_length polys)]
  cases polys with
  | nil => cases dom <;> rfl
  | cons P Ps =>
    have hP := hlen P List.mem_cons_self
    have hne : (polyVals (P :: Ps)).isEmpty = false := by
      cases hp : P.pts with
      | nil => rw [hp] at hP; simp at hP
      | cons q t => simp [polyVals, hp]
    have := read2dRows_poly n near degen (P :: Ps) (by simp) skip dom hlen hids hnear hseg
    simpa [hne] using this

/-- 3-D: the record layer is transparent.  Reading a written file hands the PlaneFracture
    constructor `norm` exactly the vertex lists of the network, in order, and returns the domain that
    was written (`has_domain` must say whether one was written). -/
theorem csv3d_transparent {V T : Type} (c : Codec V T) (n : Num V) (hF : Faithful c n)
    (norm : List (Pt3 V) → Except Err (List (Pt3 V))) (fracs : List (List (Pt3 V)))
    (dom : Option (Box3 V)) (hne : ∀ f ∈ fracs, f ≠ []) :
    read3d c norm (write3d c fracs dom) dom.isSome =
      match mapE norm fracs with
      | .error e => .error e
      | .ok fs => if dom.isNone && fs.isEmpty then .error .value else .ok ⟨fs, dom⟩ := by
  cases dom with
  | none =>
    simp only [write3d, List.nil_append, read3d, Option.isSome_none, Bool.false_eq_true, if_false,
      readFracs_rows c n hF norm fracs hne, Option.isNone_none, Bool.true_and]
    cases mapE norm fracs with
    | error e => rfl
    | ok fs => cases fs <;> rfl
  | some b =>
    have hd : decodeRow c .value [c.enc b.xmin, c.enc b.ymin, c.enc b.zmin, c.enc b.xmax, c.enc b.ymax,
        c.enc b.zmax] = .ok [b.xmin, b.ymin, b.zmin, b.xmax, b.ymax, b.zmax] :=
      decodeRow_map_enc c n hF .value [b.xmin, b.ymin, b.zmin, b.xmax, b.ymax, b.zmax]
    simp only [write3d, List.cons_append, List.nil_append, read3d, Option.isSome_some, if_true, readDomain,
      hd, readFracs_rows c n hF norm fracs hne, Option.isNone_some, Bool.false_and]
    cases mapE norm fracs <;> rfl

/-- 3-D round trip (exact form): if the constructor reproduces the vertex lists the network holds
    (they were produced by the same constructor), the network read back is the network written. -/
theorem csv3d_roundtrip {V T : Type} (c : Codec V T) (n : Num V) (hF : Faithful c n)
    (norm : List (Pt3 V) → Except Err (List (Pt3 V))) (fracs : List (List (Pt3 V)))
    (dom : Option (Box3 V)) (hne : ∀ f ∈ fracs, f ≠ [])
    (hnorm : ∀ f ∈ fracs, norm f = .ok f) (hsome : dom.isSome = true ∨ fracs ≠ []) :
    read3d c norm (write3d c fracs dom) dom.isSome = .ok ⟨fracs, dom⟩ := by
  rw [csv3d_transparent c n hF norm fracs dom hne,
    mapE_ok_of_forall norm (fun f => f) fracs hnorm, List.map_id']
  cases dom with
  | some b => rfl
  | none =>
    cases fracs with
    | nil => rcases hsome with h | h <;> simp at h
    | cons f fs => rfl

/-- 3-D round trip (general form): if the constructor accepts every vertex list of the network and
    returns one related to it by `R` (e.g. a rotation or reflection of the vertex cycle), the network
    read back has the same number of fractures, in the same order, pairwise `R`-related, and the
    same domain. -/
theorem csv3d_roundtrip_upto {V T : Type} (c : Codec V T) (n : Num V) (hF : Faithful c n)
    (norm : List (Pt3 V) → Except Err (List (Pt3 V))) (R : List (Pt3 V) → List (Pt3 V) → Prop)
    (fracs : List (List (Pt3 V))) (dom : Option (Box3 V)) (hne : ∀ f ∈ fracs, f ≠ [])
    (hnorm : ∀ f ∈ fracs, ∃ g, norm f = .ok g ∧ R g f) (hsome : dom.isSome = true ∨ fracs ≠ []) :
    ∃ fs, read3d c norm (write3d c fracs dom) dom.isSome = .ok ⟨fs, dom⟩ ∧ Pointwise R fs fracs := by
  rw [csv3d_transparent c n hF norm fracs dom hne]
  have hex : ∃ fs, mapE norm fracs = .ok fs := by
    clear hsome hne
    induction fracs with
    | nil => exact ⟨[], rfl⟩
    | cons f fs ih =>
      obtain ⟨g, hg, _⟩ := hnorm f (List.mem_cons_self)
      obtain ⟨gs, hgs⟩ := ih (fun x hx => hnorm x (List.mem_cons_of_mem _ hx))
      exact ⟨g :: gs, by simp only [mapE, hg, hgs]⟩
  obtain ⟨fs, hfs⟩ := hex
  have hpw : Pointwise R fs fracs := mapE_pointwise norm R fracs fs (fun a ha b hb => by
    obtain ⟨g, hg, hR⟩ := hnorm a ha
    rw [hg] at hb
    cases hb
    exact hR) hfs
  refine ⟨fs, ?_, hpw⟩
  rw [hfs]
  cases dom with
  | some b => rfl
  | none =>
    cases hpw with
    | nil => rcases hsome with h | h <;> simp at h
    | cons _ _ => rfl

/-- "The same vertex cycle" (equal up to rotation and reflection of the vertex list — the dihedral
    group of the polygon) is an equivalence relation; so any number of write/read passes stays in the
    class of the original polygon. -/
theorem dihedral_equivalence {α : Type} : Equivalence (@Dihedral α) :=
  ⟨dihedral_refl, dihedral_symm, dihedral_trans⟩

/-- The angular sort of PlaneFracture's constructor on a polygon whose vertices are given in cyclic
    order (some rotation of the list or of its reverse is strictly ascending in the angle key `θ`):
    the result is the ascending list, and it is the same vertex cycle as the input. -/
theorem angSort_dihedral {P : Type} (θ : P → Rat) (f : List P) (h : CyclicMono θ f) :
    Dihedral (angSort θ f) f ∧ StrictAsc θ (angSort θ f) := by
  obtain ⟨a, ha, hd⟩ := h
  rw [angSort_eq_of_perm θ f a (dihedral_perm hd) ha]
  exact ⟨dihedral_symm hd, ha⟩

/-- A list already ascending in the key is left alone (the constructor is idempotent when the key
    function does not change). -/
theorem angSort_fixed {P : Type} (θ : P → Rat) (f : List P) (h : StrictAsc θ f) : angSort θ f = f :=
  angSort_eq_of_perm θ f f (List.Perm.refl f) h

/-- 3-D round trip with the vertex normalisation modelled: the reader's constructor re-sorts every
    stored vertex list by the angle key it derives from that list (`θof f`, which in floating point
    need not be the key the list was sorted with when the network was built: the local frame may flip).
    If every stored polygon is seen in cyclic order by its key (convex planar polygon in general
    position), the network read back has the same fractures in the same order, each with the same
    vertex CYCLE up to rotation/reflection, and the same domain. -/
theorem csv3d_roundtrip_dihedral {V T : Type} (c : Codec V T) (n : Num V) (hF : Faithful c n)
    (θof : List (Pt3 V) → Pt3 V → Rat) (fracs : List (List (Pt3 V))) (dom : Option (Box3 V))
    (h3 : ∀ f ∈ fracs, 3 ≤ f.length) (hcyc : ∀ f ∈ fracs, CyclicMono (θof f) f)
    (hsome : dom.isSome = true ∨ fracs ≠ []) :
    ∃ fs, read3d c (normSort θof) (write3d c fracs dom) dom.isSome = .ok ⟨fs, dom⟩ ∧
      Pointwise Dihedral fs fracs :=
  csv3d_roundtrip_upto c n hF (normSort θof) Dihedral fracs dom
    (fun f hf he => by have := h3 f hf; rw [he] at this; simp at this)
    (fun f hf => ⟨angSort (θof f) f, by
      have := h3 f hf
      simp only [normSort, show ¬ f.length < 3 by omega, if_false],
      (angSort_dihedral (θof f) f (hcyc f hf)).1⟩) hsome

/-- … and exactly the same vertex lists when every stored list is ascending for the key the reader
    derives from it (the generic case: the key function is reproduced). -/
theorem csv3d_roundtrip_sorted {V T : Type} (c : Codec V T) (n : Num V) (hF : Faithful c n)
    (θof : List (Pt3 V) → Pt3 V → Rat) (fracs : List (List (Pt3 V))) (dom : Option (Box3 V))
    (h3 : ∀ f ∈ fracs, 3 ≤ f.length) (hasc : ∀ f ∈ fracs, StrictAsc (θof f) f)
    (hsome : dom.isSome = true ∨ fracs ≠ []) :
    read3d c (normSort θof) (write3d c fracs dom) dom.isSome = .ok ⟨fracs, dom⟩ :=
  csv3d_roundtrip c n hF (normSort θof) fracs dom
    (fun f hf he => by have := h3 f hf; rw [he] at this; simp at this)
    (fun f hf => by
      have := h3 f hf
      simp only [normSort, show ¬ f.length < 3 by omega, if_false, angSort_fixed _ _ (hasc f hf)]) hsome

/-- Elliptic 3-D files (`elliptic_network_3d_from_csv`; reader's specification, porepy has no writer
    for them): a file holding an optional domain line and one row of nine numbers per ellipse hands
    `create_elliptic_fracture` (`mk`) exactly those nine numbers, row by row, and returns the domain. -/
theorem elliptic_transparent {V T : Type} (c : Codec V T) (n : Num V) (hF : Faithful c n)
    (mk : List V → Except Err (List (Pt3 V))) (params : List (List V)) (dom : Option (Box3 V))
    (h9 : ∀ p ∈ params, p.length = 9) :
    readElliptic c mk (ellipticRows c params dom) dom.isSome =
      match mapE mk params with
      | .error e => .error e
      | .ok fs => if dom.isNone && fs.isEmpty then .error .value else .ok ⟨fs, dom⟩ := by
  cases dom with
  | none =>
    simp only [ellipticRows, List.nil_append, readElliptic, Option.isSome_none, Bool.false_eq_true, if_false,
      readFracsE_rows c n hF mk params h9, Option.isNone_none, Bool.true_and]
    cases mapE mk params with
    | error e => rfl
    | ok fs => cases fs <;> rfl
  | some b =>
    have hd : decodeRow c .value [c.enc b.xmin, c.enc b.ymin, c.enc b.zmin, c.enc b.xmax, c.enc b.ymax,
        c.enc b.zmax] = .ok [b.xmin, b.ymin, b.zmin, b.xmax, b.ymax, b.zmax] :=
      decodeRow_map_enc c n hF .value [b.xmin, b.ymin, b.zmin, b.xmax, b.ymax, b.zmax]
    simp only [ellipticRows, List.cons_append, List.nil_append, readElliptic, Option.isSome_some, if_true,
      readDomainE, hd, readFracsE_rows c n hF mk params h9, Option.isNone_some, Bool.false_and]
    cases mapE mk params <;> rfl

/-- txt round trip, general codec: if a token written with format `f` decodes to `rnd f v`, the arrays
    read back are the arrays written with `rnd` applied entry-wise, under the names written, in order.
    Hypotheses: at least one column, equal lengths, names non-empty and free of whitespace, the first
    name does not start with `#`. -/
theorem txt_roundtrip_rounded {V F T : Type} (enc : F → V → T) (dec : T → Option V) (rnd : F → V → V)
    (hcodec : ∀ f v, dec (enc f v) = some (rnd f v))
    (cols : List (TxtCol V F)) (k : Nat) (hcols : cols ≠ []) (hlen : ∀ c ∈ cols, c.arr.length = k)
    (hnames : ∀ w ∈ cols.map (·.name), w ≠ [] ∧ ∀ ch ∈ w, isWs ch = false)
    (hfirst : ∀ w, (cols.map (·.name)).head? = some w → w.head? ≠ some '#') :
    ∃ file, exportTxt enc cols = .ok file ∧
      readTxt dec file = .ok (cols.map (fun c => (c.name, c.arr.map (rnd c.fmt)))) := by
  cases cols with
  | nil => exact absurd rfl hcols
  | cons c0 cs =>
    have hall : (c0 :: cs).all (fun c => c.arr.length == c0.arr.length) = true := by
      simp only [List.all_eq_true, beq_iff_eq]
      intro c hc
      rw [hlen c hc, hlen c0 (List.mem_cons_self)]
    refine ⟨⟨headerLine ((c0 :: cs).map (·.name)),
      rowsOf c0.arr.length ((c0 :: cs).map (fun c => c.arr.map (enc c.fmt)))⟩,
      by simp only [exportTxt, hall, if_true], ?_⟩
    have hk : c0.arr.length = k := hlen c0 (List.mem_cons_self)
    have hvl : ∀ col ∈ encCols rnd (c0 :: cs), col.length = k := by
      intro col hcol
      obtain ⟨c, hc, rfl⟩ := List.mem_map.mp hcol
      simp only [List.length_map, hlen c hc]
    have hdec := decode_rowsOf enc dec rnd hcodec .value k (c0 :: cs)
    have hsl := sameLen_of_forall _ _ (rowsOf_row_length k _ hvl)
    have hcol := columnsOf_rowsOf k _ hvl
    have hnl : (List.map (·.name) (c0 :: cs)).length = (encCols rnd (c0 :: cs)).length := by
      simp only [encCols, List.length_map]
    simp only [encCols] at hdec hsl hcol hnl
    simp only [readTxt, hk, hdec, hsl, readNames_headerLine _ hnames hfirst, hnl, hcol, List.zip_map']
    rfl

/-- txt round trip with a faithful format (`dec (enc f v) = some v`, e.g. `%.17e` or `%r`): the same
    arrays come back under the same names. -/
theorem txt_roundtrip {V F T : Type} (enc : F → V → T) (dec : T → Option V)
    (hcodec : ∀ f v, dec (enc f v) = some v)
    (cols : List (TxtCol V F)) (k : Nat) (hcols : cols ≠ []) (hlen : ∀ c ∈ cols, c.arr.length = k)
    (hnames : ∀ w ∈ cols.map (·.name), w ≠ [] ∧ ∀ ch ∈ w, isWs ch = false)
    (hfirst : ∀ w, (cols.map (·.name)).head? = some w → w.head? ≠ some '#') :
    ∃ file, exportTxt enc cols = .ok file ∧
      readTxt dec file = .ok (cols.map (fun c => (c.name, c.arr))) := by
  obtain ⟨file, hw, hr⟩ := txt_roundtrip_rounded enc dec (fun _ v => v) hcodec cols k hcols hlen hnames hfirst
  exact ⟨file, hw, by simpa using hr⟩

/-- txt round trip as a DICTIONARY (what `read_data_from_txt` returns): with pairwise different names,
    looking up any written name in `dict(zip(names, columns))` of the file read back gives that array
    (with `rnd` applied entry-wise; `rnd = id` for a faithful format). -/
theorem txt_roundtrip_dict {V F T : Type} (enc : F → V → T) (dec : T → Option V) (rnd : F → V → V)
    (hcodec : ∀ f v, dec (enc f v) = some (rnd f v))
    (cols : List (TxtCol V F)) (k : Nat) (hcols : cols ≠ []) (hlen : ∀ c ∈ cols, c.arr.length = k)
    (hnames : ∀ w ∈ cols.map (·.name), w ≠ [] ∧ ∀ ch ∈ w, isWs ch = false)
    (hfirst : ∀ w, (cols.map (·.name)).head? = some w → w.head? ≠ some '#')
    (hnd : (cols.map (·.name)).Nodup) :
    ∃ file l, exportTxt enc cols = .ok file ∧ readTxt dec file = .ok l ∧
      ∀ c ∈ cols, dictGet l c.name = some (c.arr.map (rnd c.fmt)) := by
  obtain ⟨file, hw, hr⟩ := txt_roundtrip_rounded enc dec rnd hcodec cols k hcols hlen hnames hfirst
  refine ⟨file, _, hw, hr, ?_⟩
  intro c hc
  exact foldl_key (cols.map (fun c => (c.name, c.arr.map (rnd c.fmt)))) (c.name, c.arr.map (rnd c.fmt)) none
    (List.mem_map_of_mem hc) (by
      rw [List.map_map]
      exact hnd)

/-! ### non-vacuity: concrete instances (integers as values and tokens) -/

section Examples

def cQ' : Codec Rat Rat := ⟨fun v => v, fun t => some t, fun k => (k : Rat)⟩
def nQ' : Num Rat := ⟨fun a b => decide (a < b), fun v => v.num.tdiv v.den, fun k => (k : Rat)⟩
def cI : Codec Int Int := ⟨fun v => v, fun t => some t, fun k => (k : Int)⟩
def nI : Num Int := ⟨fun a b => decide (a < b), fun v => v, fun k => (k : Int)⟩
theorem faithfulI : Faithful cI nI := ⟨fun _ => rfl, fun _ => rfl, fun _ => rfl⟩

/-- tolerance 1: component-wise for the writer's table, Euclidean (squared) for the reader -/
def closeI (p q : Pt2 Int) : Bool := decide ((p.1 - q.1).natAbs ≤ 1 ∧ (p.2 - q.2).natAbs ≤ 1)
def nearI (p q : Pt2 Int) : Bool := decide ((p.1 - q.1) ^ 2 + (p.2 - q.2) ^ 2 < 1)
def degenI (p q : Pt2 Int) : Bool := decide (p = q)

/-- three fractures sharing end points (a triangle-like chain), with tags -/
def fsI : List (Frac2 Int) :=
  [⟨(0, 0), (10, 0), [3]⟩, ⟨(10, 0), (10, 10), []⟩, ⟨(0, 10), (0, 0), [7, 8]⟩]

example : ∃ file, write2d cI closeI fsI true = .ok file ∧
    read2d cI nI nearI degenI file ⟨1, none, none, false, none⟩
      = .ok ⟨fsI.map strip, domOr nI none (endpoints fsI), [0, 1, 2]⟩ :=
  csv2d_roundtrip cI nI closeI nearI degenI fsI true 1 none faithfulI (Or.inr ⟨rfl, rfl⟩)
    (by decide) (by decide) (by decide) (by decide)

/-- the file of that network, computed by the model -/
example : (match write2d cI closeI fsI false with
    | .ok ls => ls.filterMap cellsOf
    | .error _ => []) = [[0, 0, 0, 10, 0], [1, 10, 0, 10, 10], [2, 0, 10, 0, 0]] := by decide

/-- The hypothesis on `close` is needed: if the network's table identifies two distinct end points
    ((10,0) and (10,1) are within 1 of each other), the file holds the first one twice and the second
    fracture comes back moved. -/
example : (match write2d cI closeI [⟨(0, 0), (10, 0), []⟩, ⟨(10, 1), (10, 10), []⟩] false with
    | .ok ls => ls.filterMap cellsOf
    | .error _ => []) = [[0, 0, 0, 10, 0], [1, 10, 0, 10, 10]] := by decide

def norm3 (f : List (Pt3 Int)) : Except Err (List (Pt3 Int)) :=
  if f.length < 3 then .error .value else .ok f

def fracs3 : List (List (Pt3 Int)) :=
  [[(0, 0, 0), (1, 0, 0), (1, 1, 0)], [(0, 0, 5), (2, 0, 5), (2, 2, 5), (0, 2, 5)]]

example : read3d cI norm3 (write3d cI fracs3 (some ⟨-1, -1, -1, 3, 3, 6⟩)) true
    = .ok ⟨fracs3, some ⟨-1, -1, -1, 3, 3, 6⟩⟩ :=
  csv3d_roundtrip cI nI faithfulI norm3 fracs3 (some ⟨-1, -1, -1, 3, 3, 6⟩) (by decide)
    (fun f hf => by
      simp only [fracs3, List.mem_cons, List.not_mem_nil, or_false] at hf
      rcases hf with rfl | rfl <;> rfl)
    (Or.inl rfl)

/-- a constructor that reverses the vertex cycle: the network comes back up to that relation -/
example : ∃ fs, read3d cI (fun f => .ok f.reverse) (write3d cI fracs3 none) false = .ok ⟨fs, none⟩ ∧
    Pointwise (fun g f => g = f.reverse) fs fracs3 :=
  csv3d_roundtrip_upto cI nI faithfulI (fun f => .ok f.reverse) (fun g f => g = f.reverse) fracs3 none
    (by decide) (fun f _ => ⟨f.reverse, rfl, rfl⟩) (Or.inr (by decide))

/-- a lossy "format": keep multiples of `f` only -/
def encI (f : Nat) (v : Int) : Int := v / f * f

def colsI : List (TxtCol Int Nat) :=
  [⟨"pressure".toList, [12, 345, -7], 1⟩, ⟨"flux#2".toList, [19, 250, 1234], 10⟩]

example : ∃ file, exportTxt encI colsI = .ok file ∧
    readTxt (fun t => some t) file
      = .ok [("pressure".toList, [12, 345, -7]), ("flux#2".toList, [10, 250, 1230])] :=
  txt_roundtrip_rounded encI (fun t => some t) encI (fun _ _ => rfl) colsI 3 (by decide) (by decide)
    (by decide) (by decide)

/-- one column, and zero rows: every array still comes back as an array -/
example : ∃ file, exportTxt (fun (_ : Unit) (v : Int) => v) [⟨"a".toList, [4, 5], ()⟩] = .ok file ∧
    readTxt (fun t => some t) file = .ok [("a".toList, [4, 5])] :=
  txt_roundtrip _ _ (fun _ _ => rfl) _ 2 (by decide) (by decide) (by decide) (by decide)

example : ∃ file, exportTxt (fun (_ : Unit) (v : Int) => v) [⟨"a".toList, [], ()⟩, ⟨"b".toList, [], ()⟩]
      = .ok file ∧
    readTxt (fun t => some t) file = .ok [("a".toList, []), ("b".toList, [])] :=
  txt_roundtrip _ _ (fun _ _ => rfl) _ 0 (by decide) (by decide) (by decide) (by decide)

/-- two polylines (ids 0 and 3), the second starting where the first ends -/
def polysI : List (Poly Int) := [⟨0, [(0, 0), (5, 0), (5, 5)]⟩, ⟨3, [(5, 5), (9, 9)]⟩]

example : read2d cI nI nearI degenI (hdrLines (some "# FID,X,Y") ++ polyRowsSpec cI polysI)
      ⟨1, none, none, true, none⟩
    = .ok ⟨[⟨(0, 0), (5, 0), []⟩, ⟨(5, 0), (5, 5), []⟩, ⟨(5, 5), (9, 9), []⟩],
           domOr nI none (allPts polysI), [0, 0, 3]⟩ :=
  polyline_read cI nI nearI degenI polysI (some "# FID,X,Y") 1 none faithfulI (Or.inr ⟨rfl, rfl⟩)
    (by decide) (by decide) (by decide) (by decide)

/-- a quadrilateral listed from its third vertex on: the angular sort (key = first coordinate here)
    returns the ascending list, which is the same vertex cycle -/
def quadA : List (Pt3 Int) := [(0, 0, 0), (1, 2, 0), (2, 3, 0), (3, 1, 0)]
def quadF : List (Pt3 Int) := [(2, 3, 0), (3, 1, 0), (0, 0, 0), (1, 2, 0)]
def keyI (p : Pt3 Int) : Rat := (p.1 : Rat)

theorem quadA_asc : StrictAsc keyI quadA := by
  simp only [StrictAsc, quadA, keyI, List.pairwise_cons, List.mem_cons, List.not_mem_nil, or_false,
    forall_eq_or_imp, forall_eq, List.Pairwise.nil, and_true, false_imp_iff, implies_true]
  decide +kernel

example : Dihedral (angSort keyI quadF) quadF ∧ StrictAsc keyI (angSort keyI quadF) :=
  angSort_dihedral keyI quadF ⟨quadA, quadA_asc, 2, Or.inl (by decide)⟩

example : ∃ fs, read3d cI (normSort (fun _ => keyI)) (write3d cI [quadF] none) false = .ok ⟨fs, none⟩ ∧
    Pointwise Dihedral fs [quadF] :=
  csv3d_roundtrip_dihedral cI nI faithfulI (fun _ => keyI) [quadF] none (by decide)
    (fun f hf => by
      simp only [List.mem_cons, List.not_mem_nil, or_false] at hf
      subst hf
      exact ⟨quadA, quadA_asc, 2, Or.inl (by decide)⟩)
    (Or.inr (by decide))

example : readElliptic cI (fun p => .ok [(p.getD 0 0, p.getD 1 0, p.getD 8 0)])
      (ellipticRows cI [[1, 2, 3, 5, 4, 0, 0, 0, 12]] (some ⟨0, 0, 0, 9, 9, 9⟩)) true
    = .ok ⟨[[(1, 2, 12)]], some ⟨0, 0, 0, 9, 9, 9⟩⟩ := by
  rw [show true = (some (⟨0, 0, 0, 9, 9, 9⟩ : Box3 Int)).isSome from rfl,
    elliptic_transparent cI nI faithfulI _ _ _ (by decide)]
  rfl

/-- the decidable input conditions on a concrete network over Rat (tol = 1/100): two fractures sharing
    an end point, a third one 3/100 away from it -/
def fsQ : List (Frac2 Rat) :=
  [⟨(0, 0), (1, 1 / 2), []⟩, ⟨(1, 1 / 2), (2, 3), []⟩, ⟨(1 + 3 / 100, 1 / 2), (0, 3), []⟩]

example : ∃ file, write2d cQ' (closeQ (1 / 100)) fsQ true = .ok file ∧
    read2d cQ' nQ' (nearQ (1 / 100)) degenQ file ⟨1, none, none, false, none⟩
      = .ok ⟨fsQ.map strip, domOr nQ' none (endpoints fsQ), [0, 1, 2]⟩ :=
  csv2d_roundtrip_tol cQ' nQ' (1 / 100) (1 / 100) fsQ true 1 none
    ⟨fun _ => rfl, fun _ => rfl, fun k => by simp [nQ']⟩
    (Or.inr ⟨rfl, rfl⟩) (by decide +kernel) (by decide +kernel) (by decide +kernel) (by decide +kernel)

example : ∃ file, write2d cI closeI fsI true = .ok file ∧
    read2d cI nI nearI degenI file ⟨1, none, some 2, false, none⟩
      = .ok ⟨(fsI.take 2).map strip, domOr nI none (endpoints (fsI.take 2)), [0, 1]⟩ :=
  csv2d_roundtrip_max cI nI closeI nearI degenI fsI true 1 1 none faithfulI (Or.inr ⟨rfl, rfl⟩)
    (by decide) (by decide) (by decide) (by decide)

example : ∃ file l, exportTxt encI colsI = .ok file ∧ readTxt (fun t => some t) file = .ok l ∧
    ∀ c ∈ colsI, dictGet l c.name = some (c.arr.map (encI c.fmt)) :=
  txt_roundtrip_dict encI (fun t => some t) encI (fun _ _ => rfl) colsI 3 (by decide) (by decide)
    (by decide) (by decide) (by decide)

end Examples

end PorepyVerif.C47
