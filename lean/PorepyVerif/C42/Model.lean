/-
C42 — executable model of `porepy/compositional/utils.py` (core Lean only, exact rationals).

  safe_sum                          ↦ `safeSum`
  normalize_rows                    ↦ `normalizeRows`
  _chainrule_fractional_derivatives ↦ `dxn` (the Jacobian exactly as assembled), `vecMat` (`.dot`), `chainrule`
  chainrule_fractional_derivatives  ↦ `chainruleCols` (vectorised wrapper + its two shape checks)
  _compute_saturations              ↦ `satCell` (branch for branch: 1 phase, saturated phase, 2-phase closed
                                       formula as coded, >2 phases: drop vanished phases, solve, scatter)
  compute_saturations               ↦ `computeSaturations` (shape check, two "more than one phase saturated" checks)

The only place where the model does not literally repeat the code is `np.linalg.solve(mat, rhs)`: the model
returns the explicit solution `codedSolution`, which is the closed form `sat` (s_j = (y_j/ρ_j) / Σ_k y_k/ρ_k) whenever the
fractions handed to the solve sum to one.  `codedMat` / `codedRhs` are the matrix and right-hand
side exactly as the code assembles them; Props proves that `sat` solves that system and that the system has no other
solution, i.e. `solve` can only return `sat` (up to rounding).

Vectorised input is a list of cells (columns of the `(num_phases, N)` arrays); the transposition is done by the
driver / harness.
-/
namespace PorepyVerif.C42

inductive Err where
  | valueError
  | assertionError
  deriving DecidableEq, Repr

/-! ### small vector helpers -/

/-- `np.dot` of two vectors -/
def dot (a b : List Rat) : Rat := (List.zipWith (· * ·) a b).sum

/-- `M @ v` for a list of rows -/
def matVec (M : List (List Rat)) (v : List Rat) : List Rat := M.map (dot · v)

/-- python `safe_sum`: `x[0] + x[1] + …` without a leading `0 +`, `0` for the empty sequence -/
def safeSum : List Rat → Rat
  | [] => 0
  | x :: xs => xs.foldl (· + ·) x

/-- `normalize_rows`: `(x.T / x.sum(axis=1)).T` — every row divided by its own sum -/
def normalizeRows (X : List (List Rat)) : List (List Rat) := X.map fun r => r.map (· / r.sum)

/-! ### saturations: closed form (the specification) -/

/-- `y_j / ρ_j` -/
def quot (y rho : List Rat) : List Rat := List.zipWith (· / ·) y rho

/-- `Σ_k y_k / ρ_k` -/
def wsum (y rho : List Rat) : Rat := (quot y rho).sum

/-- closed form `s_j = (y_j/ρ_j) / Σ_k y_k/ρ_k` -/
def sat (y rho : List Rat) : List Rat := (quot y rho).map (· / wsum y rho)

/-- phase fractions recovered from saturations: `y_j = ρ_j s_j / Σ_k ρ_k s_k` -/
def fracOfSat (s rho : List Rat) : List Rat := (List.zipWith (· * ·) rho s).map (· / dot rho s)

/-! ### saturations: the linear system exactly as `_compute_saturations` assembles it -/

/-- `rhs = rho_ * (y_ - 1.0)` -/
def codedRhs (y rho : List Rat) : List Rat := List.zipWith (fun yj rj => rj * (yj - 1)) y rho

/-- `mat[j] = rho_[j] * (y_[j] - 1) - rho_ * y_[j]` for every `j` -/
def rawMat (y rho : List Rat) : List (List Rat) :=
  List.zipWith (fun yj rj => rho.map fun rk => rj * (yj - 1) - rk * yj) y rho

/-- `np.fill_diagonal(mat, 0.0)` -/
def fillDiagonal0 (M : List (List Rat)) : List (List Rat) := M.zipIdx.map fun p => p.1.set p.2 0

def codedMat (y rho : List Rat) : List (List Rat) := fillDiagonal0 (rawMat y rho)

/-- `Σ_j ρ_j (1 - y_j)` -/
def pSum (y rho : List Rat) : Rat := (List.zipWith (fun yj rj => rj * (1 - yj)) y rho).sum

/-- what `np.linalg.solve(mat, rhs)` returns in exact arithmetic, also when the fractions handed to it do NOT sum to one
    (this happens when phases with `0 < y_j <= eps` were dropped): with the defect `d = 1 - Σy`, `P = Σ ρ_j (1 - y_j)`,
    `s_j = R · (y_j/ρ_j + (1 - y_j) d / P)`, `R = 1 / (Σ y_k/ρ_k + (n - 1 - Σy) d / P)`.
    For `d = 0` this is the closed form `sat` (Props: `codedSolution_eq_sat`); Props proves that it solves the coded system. -/
def codedSolution (y rho : List Rat) : List Rat :=
  let d := 1 - y.sum
  let P := pSum y rho
  let R := 1 / (wsum y rho + ((y.length : Rat) - 1 - y.sum) * d / P)
  (List.zipWith (fun yj rj => yj / rj + (1 - yj) * d / P) y rho).map (R * ·)

/-! ### saturations: `_compute_saturations` branch for branch -/

/-- number of phases with `y >= 1 - eps` -/
def nSat (y : List Rat) (eps : Rat) : Nat := y.countP fun v => decide (1 - eps ≤ v)

/-- number of entries with `v > 1 - eps` (the two checks of the public wrapper) -/
def nSatStrict (y : List Rat) (eps : Rat) : Nat := y.countP fun v => decide (1 - eps < v)

/-- `s = zeros; s[saturated] = 1.0` -/
def indicator (y : List Rat) (eps : Rat) : List Rat := y.map fun v => if 1 - eps ≤ v then 1 else 0

/-- `not_vanished = y > eps` -/
def notVanished (y : List Rat) (eps : Rat) : List Bool := y.map fun v => decide (eps < v)

/-- boolean-mask indexing `v[mask]` -/
def select : List Bool → List Rat → List Rat
  | true :: m, v :: vs => v :: select m vs
  | false :: m, _ :: vs => select m vs
  | _, _ => []

/-- `s = zeros; s[mask] = vals` -/
def scatter : List Bool → List Rat → List Rat
  | [], _ => []
  | false :: m, vs => 0 :: scatter m vs
  | true :: m, v :: vs => v :: scatter m vs
  | true :: m, [] => 0 :: scatter m []

/-- the 2-phase formula as coded: `s[0] = 1/(1 + y[1]/(1 - y[1]) * rho[0]/rho[1]); s[1] = 1 - s[0]` -/
def twoPhase (y1 r0 r1 : Rat) : List Rat :=
  let s0 := 1 / (1 + y1 / (1 - y1) * r0 / r1)
  [s0, 1 - s0]

/-- `_compute_saturations(y, rho, eps)` for one cell -/
def satCell (y rho : List Rat) (eps : Rat) : Except Err (List Rat) :=
  if y.length ≠ rho.length then .error .assertionError
  else if y.length = 1 then .ok [1]
  else if 1 < nSat y eps then .error .assertionError
  else if 0 < nSat y eps then .ok (indicator y eps)
  else match y, rho with
    | [_, y1], [r0, r1] => .ok (twoPhase y1 r0 r1)
    | _, _ =>
      let m := notVanished y eps
      .ok (scatter m (codedSolution (select m y) (select m rho)))

/-- `_compute_saturations_parallel`: cell by cell -/
def satCells : List (List Rat) → List (List Rat) → Rat → Except Err (List (List Rat))
  | y :: ys, r :: rs, eps =>
    match satCell y r eps with
    | .error e => .error e
    | .ok s =>
      match satCells ys rs eps with
      | .error e => .error e
      | .ok ss => .ok (s :: ss)
  | _, _, _ => .ok []

/-- `compute_saturations(y, rho, eps)`; `ys`, `rhos` are the cells (columns) -/
def computeSaturations (ys rhos : List (List Rat)) (eps : Rat) : Except Err (List (List Rat)) :=
  if ys.map List.length ≠ rhos.map List.length then .error .valueError
  else if ys.any (fun y => decide (1 < nSatStrict y eps)) then .error .valueError
  else match satCells ys rhos eps with
    | .error e => .error e
    | .ok ss =>
      if ss.any (fun s => decide (1 < nSatStrict s eps)) then .error .assertionError else .ok ss

/-! ### chain rule for normalised fractions -/

/-- `dxn = np.eye(ncomp) / x_sum - np.outer(x, np.ones(ncomp)) / x_sum**2`, entry `[i][j]` -/
def dxn (x : List Rat) : List (List Rat) :=
  x.zipIdx.map fun p =>
    (List.range x.length).map fun j => (if p.2 = j then 1 else 0) / x.sum - p.1 * 1 / (x.sum * x.sum)

/-- `g.dot(M)` for a list of rows `M` of width `n`: `Σ_i g_i · M[i]` -/
def vecMat : List Rat → List (List Rat) → Nat → List Rat
  | g :: gs, r :: rs, n => List.zipWith (· + ·) (r.map (g * ·)) (vecMat gs rs n)
  | _, _, n => List.replicate n 0

/-- `_chainrule_fractional_derivatives(df_dxn, x)`: the last `ncomp` entries are multiplied by `dxn` -/
def chainrule1 (df x : List Rat) : List Rat :=
  let k := df.length - x.length
  df.take k ++ vecMat (df.drop k) (dxn x) x.length

/-- `chainrule_fractional_derivatives` on one column, with its first shape check -/
def chainrule (df x : List Rat) : Except Err (List Rat) :=
  if df.length < x.length then .error .valueError else .ok (chainrule1 df x)

/-- vectorised wrapper: columns of `df_dxn` and of `x` -/
def chainruleCols (dfs xs : List (List Rat)) : Except Err (List (List Rat)) :=
  if (List.zip dfs xs).any (fun p => decide (p.1.length < p.2.length)) then .error .valueError
  else if dfs.length ≠ xs.length then .error .valueError
  else .ok (List.zipWith chainrule1 dfs xs)

/-! ### hypotheses of the property (used by Props) -/

/-- phase fractions on the simplex, positive densities, one density per phase -/
structure Admissible (y rho : List Rat) : Prop where
  len : y.length = rho.length
  nonneg : ∀ v ∈ y, 0 ≤ v
  sum_one : y.sum = 1
  rho_pos : ∀ r ∈ rho, 0 < r

/-- the input keeps clear of the code's `eps` thresholds: a phase is either absent (`y = 0`) or present by more
    than `eps`, and either saturated (`y = 1`) or below `1 - eps`; `eps` itself is a small positive number -/
structure Margins (y : List Rat) (eps : Rat) : Prop where
  eps_pos : 0 < eps
  eps_small : eps < 1 / 2
  vanished : ∀ v ∈ y, v = 0 ∨ eps < v
  saturated : ∀ v ∈ y, v = 1 ∨ v < 1 - eps

end PorepyVerif.C42
