/- C42 line-protocol driver: `lake env lean --run PorepyVerif/C42/Driver.lean`
   Matrices travel as lists of cells (columns of the numpy arrays); see Model.lean. -/
import PorepyVerif.Common.Wire
import PorepyVerif.C42.Model
open Lean PV PorepyVerif.C42

def errJson : Err → Json
  | .valueError => err "ValueError"
  | .assertionError => err "AssertionError"

def step (j : Json) : R Json := do
  let op ← fStr j "op"
  match op with
  | "sat" =>
    let y ← fRatss j "y"
    let rho ← fRatss j "rho"
    let eps ← fRat j "eps"
    match computeSaturations y rho eps with
    | .error e => pure (errJson e)
    | .ok s => pure (obj [("s", ofList ofRats s)])
  | "closed" =>   -- closed form, cell by cell (specification side, no branches)
    let y ← fRatss j "y"
    let rho ← fRatss j "rho"
    pure (obj [("s", ofList ofRats (List.zipWith sat y rho))])
  | "system" =>   -- residual of the coded system at the closed form: mat * sat - rhs
    let y ← fRats j "y"
    let rho ← fRats j "rho"
    let r := List.zipWith (· - ·) (matVec (codedMat y rho) (sat y rho)) (codedRhs y rho)
    pure (obj [("mat", ofList ofRats (codedMat y rho)), ("rhs", ofRats (codedRhs y rho)), ("res", ofRats r)])
  | "chain" =>
    let df ← fRatss j "df"
    let x ← fRatss j "x"
    match chainruleCols df x with
    | .error e => pure (errJson e)
    | .ok o => pure (obj [("out", ofList ofRats o)])
  | "dxn" =>
    let x ← fRats j "x"
    pure (obj [("out", ofList ofRats (dxn x))])
  | "norm" =>
    let x ← fRatss j "x"
    pure (obj [("out", ofList ofRats (normalizeRows x))])
  | "safe_sum" =>
    let x ← fRats j "x"
    pure (obj [("out", ofRat (safeSum x))])
  | _ => throw s!"unknown op {op}"

def main : IO Unit := runPure step
