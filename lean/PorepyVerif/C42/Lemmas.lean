/-
C42 — helper lemmas (property theorems are in Props.lean).

Technique: a list of length `n` is `List.ofFn f` for some `f : Fin n → ℚ`; every model function has an `ofFn` normal
form, so the algebra is done with `Finset` sums over `Fin n`.  The branch lemmas (masking, counting) are list inductions.
-/
import Mathlib.Algebra.BigOperators.Fin
import Mathlib.Algebra.BigOperators.Field
import Mathlib.Algebra.Order.BigOperators.Group.Finset
import Mathlib.Algebra.Order.Field.Rat
import Mathlib.Data.List.OfFn
import Mathlib.Data.Rat.Cast.Order
import Mathlib.Tactic.FieldSimp
import Mathlib.Tactic.Ring
import Mathlib.Tactic.Linarith
import Mathlib.Tactic.Positivity
import Mathlib.Analysis.Calculus.Deriv.Inv
import Mathlib.Analysis.Calculus.Deriv.Add
import Mathlib.Analysis.Calculus.Deriv.Mul
import Mathlib.Analysis.Calculus.Deriv.Prod
import Mathlib.Analysis.Calculus.FDeriv.Comp
import PorepyVerif.C42.Model

namespace PorepyVerif.C42
open Finset

theorem exists_ofFn {α} (l : List α) {n : ℕ} (h : l.length = n) : ∃ f : Fin n → α, l = List.ofFn f := by
  subst h
  exact ⟨l.get, (List.ofFn_get l).symm⟩

theorem zipWith_ofFn {α β γ} {n} (g : α → β → γ) (a : Fin n → α) (b : Fin n → β) :
    List.zipWith g (List.ofFn a) (List.ofFn b) = List.ofFn fun i => g (a i) (b i) := by
  apply List.ext_getElem <;> simp

theorem quot_ofFn {n} (y rho : Fin n → ℚ) : quot (List.ofFn y) (List.ofFn rho) = List.ofFn fun i => y i / rho i := by
  simp [quot, zipWith_ofFn]

theorem wsum_ofFn {n} (y rho : Fin n → ℚ) : wsum (List.ofFn y) (List.ofFn rho) = ∑ i, y i / rho i := by
  simp [wsum, quot_ofFn, List.sum_ofFn]

theorem sat_ofFn {n} (y rho : Fin n → ℚ) :
    sat (List.ofFn y) (List.ofFn rho) = List.ofFn fun i => y i / rho i / ∑ k, y k / rho k := by
  simp [sat, quot_ofFn, wsum_ofFn, List.map_ofFn, Function.comp_def]

theorem dot_ofFn {n} (a b : Fin n → ℚ) : dot (List.ofFn a) (List.ofFn b) = ∑ i, a i * b i := by
  simp [dot, zipWith_ofFn, List.sum_ofFn]

theorem fracOfSat_ofFn {n} (s rho : Fin n → ℚ) :
    fracOfSat (List.ofFn s) (List.ofFn rho) = List.ofFn fun i => rho i * s i / ∑ k, rho k * s k := by
  simp [fracOfSat, zipWith_ofFn, dot_ofFn, List.map_ofFn, Function.comp_def]

theorem codedRhs_ofFn {n} (y rho : Fin n → ℚ) :
    codedRhs (List.ofFn y) (List.ofFn rho) = List.ofFn fun j => rho j * (y j - 1) := by
  simp [codedRhs, zipWith_ofFn]

theorem codedMat_ofFn {n} (y rho : Fin n → ℚ) :
    codedMat (List.ofFn y) (List.ofFn rho) =
      List.ofFn fun j : Fin n => List.ofFn fun k : Fin n => if k = j then 0 else rho j * (y j - 1) - rho k * y j := by
  apply List.ext_getElem
  · simp [codedMat, fillDiagonal0, rawMat]
  · intro j h1 h2
    apply List.ext_getElem
    · simp [codedMat, fillDiagonal0, rawMat]
    · intro k h3 h4
      simp [codedMat, fillDiagonal0, rawMat, List.getElem_set, Fin.ext_iff]
      split <;> simp_all [eq_comm]

theorem matVec_ofFn {n m} (M : Fin m → Fin n → ℚ) (v : Fin n → ℚ) :
    matVec (List.ofFn fun j => List.ofFn (M j)) (List.ofFn v) = List.ofFn fun j => ∑ k, M j k * v k := by
  simp [matVec, List.map_ofFn, Function.comp_def, dot_ofFn]

section fin
variable {n : ℕ} (y rho : Fin n → ℚ)

theorem W_pos (hy : ∀ i, 0 ≤ y i) (hs : ∑ i, y i = 1) (hr : ∀ i, 0 < rho i) : 0 < ∑ i, y i / rho i := by
  have hex : ∃ i, 0 < y i := by
    by_contra hne
    have : ∀ i, y i = 0 := fun i => le_antisymm (not_lt.mp (fun h => hne ⟨i, h⟩)) (hy i)
    simp [this] at hs
  obtain ⟨i, hi⟩ := hex
  exact Finset.sum_pos' (fun k _ => div_nonneg (hy k) (hr k).le) ⟨i, mem_univ i, div_pos hi (hr i)⟩

theorem satF_sum (hW : ∑ i, y i / rho i ≠ 0) : ∑ j, y j / rho j / ∑ k, y k / rho k = 1 := by
  rw [← Finset.sum_div]; exact div_self hW

theorem rho_satF_sum (hs : ∑ i, y i = 1) (hr : ∀ i, rho i ≠ 0) :
    ∑ j, rho j * (y j / rho j / ∑ k, y k / rho k) = 1 / ∑ k, y k / rho k := by
  have : ∀ j, rho j * (y j / rho j / ∑ k, y k / rho k) = y j / ∑ k, y k / rho k := by
    intro j; have := hr j; field_simp
  simp only [this, ← Finset.sum_div, hs]

/-- row `j` of the coded matrix (diagonal zeroed) applied to any vector `s` -/
theorem coded_row_apply (s : Fin n → ℚ) (j : Fin n) :
    ∑ k, (if k = j then 0 else rho j * (y j - 1) - rho k * y j) * s k
      = rho j * (y j - 1) * (∑ k, s k) - y j * (∑ k, rho k * s k) + rho j * s j := by
  have h : ∀ k, (if k = j then 0 else rho j * (y j - 1) - rho k * y j) * s k
      = (rho j * (y j - 1) * s k - y j * (rho k * s k)) + (if k = j then rho j * s j else 0) := by
    intro k; split
    · subst_vars; ring
    · ring
  simp only [h, Finset.sum_add_distrib, Finset.sum_sub_distrib, ← Finset.mul_sum, Finset.sum_ite_eq', mem_univ, if_true]

theorem satF_solves (hy : ∀ i, 0 ≤ y i) (hs : ∑ i, y i = 1) (hr : ∀ i, 0 < rho i) (j : Fin n) :
    ∑ k, (if k = j then 0 else rho j * (y j - 1) - rho k * y j) * (y k / rho k / ∑ i, y i / rho i)
      = rho j * (y j - 1) := by
  have hW := (W_pos y rho hy hs hr).ne'
  rw [coded_row_apply, satF_sum y rho hW, rho_satF_sum y rho hs (fun i => (hr i).ne')]
  have := (hr j).ne'
  field_simp
  ring

/-- the coded system has no other solution (for at least two phases) -/
theorem coded_unique (hn : 2 ≤ n) (hy : ∀ i, 0 ≤ y i) (hs : ∑ i, y i = 1) (hr : ∀ i, 0 < rho i)
    (s : Fin n → ℚ)
    (hsol : ∀ j, ∑ k, (if k = j then 0 else rho j * (y j - 1) - rho k * y j) * s k = rho j * (y j - 1))
    (j : Fin n) : s j = y j / rho j / ∑ i, y i / rho i := by
  have hW := W_pos y rho hy hs hr
  set σ := ∑ k, s k with hσ
  set R := ∑ k, rho k * s k with hR
  have hE : ∀ j, rho j * (y j - 1) * (σ - 1) - y j * R + rho j * s j = 0 := by
    intro j
    have := hsol j
    rw [coded_row_apply] at this
    linarith
  -- summing the equations: (σ - 1) * Σ ρ_j (y_j - 1) = 0
  have hsum : (∑ j, rho j * (y j - 1)) * (σ - 1) = 0 := by
    have h0 : ∑ j, (rho j * (y j - 1) * (σ - 1) - y j * R + rho j * s j) = 0 :=
      Finset.sum_eq_zero (fun j _ => hE j)
    rw [Finset.sum_add_distrib, Finset.sum_sub_distrib, ← Finset.sum_mul, ← Finset.sum_mul, hs, ← hR] at h0
    linarith
  have hle : ∀ i, y i ≤ 1 := by
    intro i
    rw [← hs]
    exact Finset.single_le_sum (fun k _ => hy k) (mem_univ i)
  have hP : ∑ j, rho j * (y j - 1) < 0 := by
    have hex : ∃ i, y i < 1 := by
      by_contra hne
      have h1 : ∀ i, y i = 1 := fun i => le_antisymm (hle i) (not_lt.mp (fun h => hne ⟨i, h⟩))
      simp [h1] at hs
      have : (2 : ℚ) ≤ n := by exact_mod_cast hn
      linarith
    obtain ⟨i, hi⟩ := hex
    have : 0 < ∑ j, rho j * (1 - y j) :=
      Finset.sum_pos' (fun k _ => mul_nonneg (hr k).le (by linarith [hle k]))
        ⟨i, mem_univ i, mul_pos (hr i) (by linarith)⟩
    have h2 : ∑ j, rho j * (y j - 1) = - ∑ j, rho j * (1 - y j) := by
      rw [← Finset.sum_neg_distrib]; exact Finset.sum_congr rfl (fun k _ => by ring)
    linarith
  have hσ1 : σ = 1 := by
    rcases mul_eq_zero.mp hsum with h | h
    · exact absurd h hP.ne
    · linarith
  have hsj : ∀ j, s j = y j / rho j * R := by
    intro j
    have := hE j
    rw [hσ1] at this
    have hrj := (hr j).ne'
    field_simp
    linarith
  have hRW : R * (∑ i, y i / rho i) = 1 := by
    have : σ = ∑ k, y k / rho k * R := Finset.sum_congr rfl (fun k _ => hsj k)
    rw [← Finset.sum_mul, hσ1] at this
    linarith
  rw [hsj j, eq_div_iff hW.ne', mul_assoc, hRW, mul_one]

end fin

theorem twoPhase_eq (y0 y1 r0 r1 : ℚ) (hy0 : 0 < y0) (hy1 : 0 ≤ y1) (hs : y0 + y1 = 1) (h0 : 0 < r0) (h1 : 0 < r1) :
    twoPhase y1 r0 r1 = sat [y0, y1] [r0, r1] := by
  have e : 1 - y1 = y0 := by linarith
  have hd : 0 < y0 * r1 + y1 * r0 := by positivity
  have hd' : 0 < r1 * y0 + r0 * y1 := by positivity
  simp only [twoPhase, sat, quot, wsum, List.zipWith_cons_cons, List.zipWith_nil_right, List.map_cons, List.map_nil,
    List.sum_cons, List.sum_nil, add_zero, e]
  congr 1
  · field_simp
  · congr 1
    field_simp
    ring

/-- counting lemma: `k` entries `≥ c` of a non-negative list contribute at least `k * c` to its sum -/
theorem countP_mul_le_sum (c : ℚ) (l : List ℚ) (hl : ∀ v ∈ l, 0 ≤ v) :
    (l.countP (fun v => decide (c ≤ v)) : ℚ) * c ≤ l.sum := by
  induction l with
  | nil => simp
  | cons a l ih =>
    have ha := hl a (List.mem_cons_self)
    have ih := ih (fun v hv => hl v (List.mem_cons_of_mem _ hv))
    rw [List.countP_cons, List.sum_cons]
    by_cases h : c ≤ a
    · simp only [h, decide_true, if_true, Nat.cast_add, Nat.cast_one]; linarith
    · simp only [h, decide_false, Bool.false_eq_true, if_false, add_zero]; linarith

theorem nSat_le_one (y : List ℚ) (eps : ℚ) (he : eps < 1 / 2) (hy : ∀ v ∈ y, 0 ≤ v) (hs : y.sum = 1) :
    nSat y eps ≤ 1 := by
  by_contra hc
  have h2 : (2 : ℚ) ≤ (nSat y eps : ℚ) := by exact_mod_cast (not_le.mp hc)
  have := countP_mul_le_sum (1 - eps) y hy
  unfold nSat at h2
  nlinarith

theorem nSatStrict_le_nSat (y : List ℚ) (eps : ℚ) : nSatStrict y eps ≤ nSat y eps := by
  unfold nSatStrict nSat
  apply List.countP_mono_left
  intro v _ hv
  simp only [decide_eq_true_eq] at hv ⊢
  exact hv.le

/-- saturated phase over `Fin n`: if `y j0 = 1` on the simplex then the closed form is `y` itself (0/1 valued) -/
theorem satF_saturated {n} (y rho : Fin n → ℚ) (hy : ∀ i, 0 ≤ y i) (hs : ∑ i, y i = 1) (hr : ∀ i, 0 < rho i)
    (j0 : Fin n) (h1 : y j0 = 1) (j : Fin n) :
    y j / rho j / ∑ k, y k / rho k = if j = j0 then 1 else 0 := by
  have hz : ∀ k, k ≠ j0 → y k = 0 := by
    intro k hk
    have hsplit := Finset.add_sum_erase univ y (mem_univ j0)
    have h0 : ∑ i ∈ univ.erase j0, y i = 0 := by linarith
    exact (Finset.sum_eq_zero_iff_of_nonneg (fun i _ => hy i)).mp h0 k (by simp [hk])
  have hW : ∑ k, y k / rho k = 1 / rho j0 := by
    rw [Finset.sum_eq_single j0 (fun k _ hk => by simp [hz k hk]) (fun h => absurd (mem_univ j0) h), h1]
  rw [hW]
  by_cases hj : j = j0
  · subst hj
    have := (hr j).ne'
    simp only [h1, if_true]
    field_simp
  · simp [hj, hz j hj]

theorem indicator_ofFn {n} (y : Fin n → ℚ) (eps : ℚ) :
    indicator (List.ofFn y) eps = List.ofFn fun j => if 1 - eps ≤ y j then (1 : ℚ) else 0 := by
  simp [indicator, List.map_ofFn, Function.comp_def]

/-- vanished phases: dropping zero entries does not change `Σ y/ρ` … -/
theorem wsum_select (eps : ℚ) (he : 0 ≤ eps) :
    ∀ (y rho : List ℚ), (∀ v ∈ y, v = 0 ∨ eps < v) →
      wsum (select (notVanished y eps) y) (select (notVanished y eps) rho) = wsum y rho := by
  intro y
  induction y with
  | nil => intro rho _; simp [notVanished, select, wsum, quot]
  | cons v y ih =>
    intro rho hv
    cases rho with
    | nil => simp [notVanished, select, wsum, quot]
    | cons r rho =>
      have ih := ih rho (fun w hw => hv w (List.mem_cons_of_mem _ hw))
      rcases hv v List.mem_cons_self with h0 | hpos
      · subst h0
        have : ¬ eps < 0 := not_lt.mpr he
        simp only [wsum, quot, notVanished, List.map_cons, this, decide_false, select] at ih ⊢
        simp [ih]
      · simp only [wsum, quot, notVanished, List.map_cons, hpos, decide_true, select] at ih ⊢
        simp [ih]

/-- … and scattering the scaled quotients of the remaining phases back gives the scaled quotients of all phases -/
theorem scatter_select (eps : ℚ) (he : 0 ≤ eps) (c : ℚ) :
    ∀ (y rho : List ℚ), y.length = rho.length → (∀ v ∈ y, v = 0 ∨ eps < v) →
      scatter (notVanished y eps) ((quot (select (notVanished y eps) y) (select (notVanished y eps) rho)).map (· / c))
        = (quot y rho).map (· / c) := by
  intro y
  induction y with
  | nil => intro rho _ _; simp [notVanished, select, scatter, quot]
  | cons v y ih =>
    intro rho hl hv
    cases rho with
    | nil => simp at hl
    | cons r rho =>
      have ih := ih rho (by simpa using hl) (fun w hw => hv w (List.mem_cons_of_mem _ hw))
      rcases hv v List.mem_cons_self with h0 | hpos
      · subst h0
        have : ¬ eps < 0 := not_lt.mpr he
        simp only [quot, notVanished, List.map_cons, this, decide_false, select, scatter] at ih ⊢
        simpa using ih
      · simp only [quot, notVanished, List.map_cons, hpos, decide_true, select, scatter, List.zipWith_cons_cons] at ih ⊢
        simpa using ih

/-- entry `[i][j]` of the Jacobian exactly as the code assembles it -/
def dxnF {n} (x : Fin n → ℚ) (i j : Fin n) : ℚ :=
  (if i = j then 1 else 0) / (∑ k, x k) - x i * 1 / ((∑ k, x k) * (∑ k, x k))

theorem dxn_ofFn {n} (x : Fin n → ℚ) : dxn (List.ofFn x) = List.ofFn fun i => List.ofFn fun j => dxnF x i j := by
  apply List.ext_getElem
  · simp [dxn]
  · intro i h1 h2
    apply List.ext_getElem
    · simp [dxn]
    · intro j h3 h4
      simp [dxn, dxnF, List.sum_ofFn, Fin.ext_iff]

theorem vecMat_ofFn {m n} (g : Fin m → ℚ) (M : Fin m → Fin n → ℚ) :
    vecMat (List.ofFn g) (List.ofFn fun i => List.ofFn (M i)) n = List.ofFn fun j => ∑ i, g i * M i j := by
  induction m with
  | zero =>
    simp only [List.ofFn_zero, vecMat, univ_eq_empty, sum_empty]
    apply List.ext_getElem <;> simp
  | succ m ih =>
    rw [List.ofFn_succ, List.ofFn_succ]
    simp only [vecMat]
    rw [ih (fun i => g i.succ) (fun i => M i.succ), List.map_ofFn, zipWith_ofFn, List.ofFn_inj]
    funext j
    simp [Fin.sum_univ_succ]

/-- the chain-rule output in closed form: `g_j / S − (Σ_i g_i x_i) / S²` -/
def chainTail {n} (x g : Fin n → ℚ) (j : Fin n) : ℚ := ∑ i, g i * dxnF x i j

theorem chainTail_closed {n} (x g : Fin n → ℚ) (j : Fin n) :
    chainTail x g j = g j / (∑ k, x k) - (∑ i, g i * x i) / ((∑ k, x k) * (∑ k, x k)) := by
  unfold chainTail dxnF
  have : ∀ i, g i * ((if i = j then 1 else 0) / (∑ k, x k) - x i * 1 / ((∑ k, x k) * (∑ k, x k)))
      = (if i = j then g j / (∑ k, x k) else 0) - g i * x i / ((∑ k, x k) * (∑ k, x k)) := by
    intro i; split
    · subst_vars; ring
    · ring
  simp only [this, Finset.sum_sub_distrib, Finset.sum_ite_eq', mem_univ, if_true, ← Finset.sum_div]

theorem chainrule1_ofFn {n} (pre : List ℚ) (x g : Fin n → ℚ) :
    chainrule1 (pre ++ List.ofFn g) (List.ofFn x) = pre ++ List.ofFn (chainTail x g) := by
  unfold chainrule1
  simp only [List.length_append, List.length_ofFn, Nat.add_sub_cancel, List.take_left', List.drop_left', dxn_ofFn]
  rw [vecMat_ofFn]
  rfl


/-- the normalised fractions along the coordinate line `x + t e_j` (real extension of the rational map) -/
noncomputable def normLine {n} (x : Fin n → ℚ) (j : Fin n) (t : ℝ) : Fin n → ℝ :=
  fun i => ((x i : ℝ) + if i = j then t else 0) / ((∑ k, (x k : ℝ)) + t)

theorem normLine_hasDerivAt {n} (x : Fin n → ℚ) (hS : ∑ k, x k ≠ 0) (j : Fin n) :
    HasDerivAt (normLine x j) (fun i => ((dxnF x i j : ℚ) : ℝ)) 0 := by
  have hSr : (∑ k, (x k : ℝ)) ≠ 0 := by
    have : ((∑ k, x k : ℚ) : ℝ) ≠ 0 := by exact_mod_cast hS
    simpa using this
  rw [hasDerivAt_pi]
  intro i
  set δ : ℝ := if i = j then 1 else 0 with hδ
  have hnum : HasDerivAt (fun t : ℝ => (x i : ℝ) + δ * t) (δ * 1) 0 :=
    ((hasDerivAt_id (0 : ℝ)).const_mul δ).const_add _
  have hden : HasDerivAt (fun t : ℝ => (∑ k, (x k : ℝ)) + t) 1 0 := (hasDerivAt_id (0 : ℝ)).const_add _
  have h := hnum.div hden (by simpa using hSr)
  have hfun : (fun t : ℝ => normLine x j t i) = (fun t : ℝ => (x i : ℝ) + δ * t) / (fun t : ℝ => (∑ k, (x k : ℝ)) + t) := by
    funext t
    simp only [normLine, Pi.div_apply, hδ]
    split <;> simp
  rw [hfun]
  refine h.congr_deriv ?_
  simp only [dxnF, hδ]
  push_cast
  generalize (∑ k, (x k : ℝ)) = S at hSr
  simp only [add_zero, mul_zero, mul_one]
  split <;> field_simp <;> ring

/-- **Chain rule.**  For ANY real function `f` of the normalised fractions that is differentiable at `x / Σx` with partial
    derivatives `g`, the derivative of the composed function `x ↦ f (x / Σx)` with respect to `x_j` is the `j`-th entry
    of what the code returns. -/
theorem chainTail_is_derivative {n} (x g : Fin n → ℚ) (j : Fin n) (hS : ∑ k, x k ≠ 0)
    (f : (Fin n → ℝ) → ℝ) (f' : (Fin n → ℝ) →L[ℝ] ℝ) (hf : HasFDerivAt f f' (normLine x j 0))
    (hg : ∀ i, f' (Pi.single i 1) = (g i : ℝ)) :
    HasDerivAt (fun t => f (normLine x j t)) ((chainTail x g j : ℚ) : ℝ) 0 := by
  have h := hf.comp_hasDerivAt (0 : ℝ) (normLine_hasDerivAt x hS j)
  refine HasDerivAt.congr_deriv h ?_
  have hlin := (f' : (Fin n → ℝ) →ₗ[ℝ] ℝ).pi_apply_eq_sum_univ (fun i => ((dxnF x i j : ℚ) : ℝ))
  simp only [ContinuousLinearMap.coe_coe] at hlin
  rw [hlin]
  unfold chainTail
  push_cast
  refine Finset.sum_congr rfl (fun i _ => ?_)
  have he : (fun k : Fin n => if i = k then (1 : ℝ) else 0) = Pi.single i 1 := by
    funext k
    simp [Pi.single_apply, eq_comm]
  rw [he, hg i, smul_eq_mul, mul_comm]

/-- exact difference quotient of `x ↦ x_i / Σx` along `e_j` (what a finite-difference check measures):
    it equals the coded Jacobian entry times `S / (S + h)` -/
theorem dxnF_difference_quotient {n} (x : Fin n → ℚ) (i j : Fin n) (h : ℚ) (hS : ∑ k, x k ≠ 0)
    (hSh : ∑ k, x k + h ≠ 0) :
    (x i + if i = j then h else 0) / (∑ k, x k + h) - x i / ∑ k, x k
      = h * (dxnF x i j * ((∑ k, x k) / (∑ k, x k + h))) := by
  unfold dxnF
  generalize (∑ k, x k) = S at hS hSh
  split <;> field_simp <;> ring

theorem sum_map_div (l : List ℚ) (c : ℚ) : (l.map (· / c)).sum = l.sum / c := by
  induction l with
  | nil => simp
  | cons a l ih => simp [ih, add_div]

theorem foldl_add_eq (l : List ℚ) (a : ℚ) : l.foldl (· + ·) a = a + l.sum := by
  induction l generalizing a with
  | nil => simp
  | cons b l ih => simp [ih, add_assoc]

theorem Admissible.ofFn {y rho : List ℚ} (h : Admissible y rho) :
    ∃ (n : ℕ) (fy fr : Fin n → ℚ), y = List.ofFn fy ∧ rho = List.ofFn fr ∧
      (∀ i, 0 ≤ fy i) ∧ ∑ i, fy i = 1 ∧ ∀ i, 0 < fr i := by
  obtain ⟨hl, hy, hs, hr⟩ := h
  obtain ⟨n, hn⟩ : ∃ n, y.length = n := ⟨_, rfl⟩
  obtain ⟨fy, rfl⟩ := exists_ofFn y hn
  obtain ⟨fr, rfl⟩ := exists_ofFn rho (hl.symm.trans hn)
  exact ⟨n, fy, fr, rfl, rfl, List.forall_mem_ofFn_iff.mp hy, by rwa [List.sum_ofFn] at hs,
    List.forall_mem_ofFn_iff.mp hr⟩

theorem sat_nonneg_sum {y rho : List ℚ} (h : Admissible y rho) :
    (∀ s ∈ sat y rho, 0 ≤ s) ∧ (sat y rho).sum = 1 := by
  obtain ⟨n, fy, fr, rfl, rfl, hy, hs, hr⟩ := h.ofFn
  have hW := W_pos fy fr hy hs hr
  refine ⟨?_, ?_⟩
  · rw [sat_ofFn, List.forall_mem_ofFn_iff]
    intro j
    exact div_nonneg (div_nonneg (hy j) (hr j).le) hW.le
  · rw [sat_ofFn, List.sum_ofFn]
    exact satF_sum fy fr hW.ne'

theorem nSatStrict_le_one {s : List ℚ} {eps : ℚ} (he : eps < 1 / 2) (hn : ∀ v ∈ s, 0 ≤ v) (hs : s.sum = 1) :
    ¬ 1 < nSatStrict s eps :=
  not_lt.mpr ((nSatStrict_le_nSat s eps).trans (nSat_le_one s eps he hn hs))

theorem forall₂_len {ys rhos : List (List ℚ)} {eps : ℚ}
    (h : List.Forall₂ (fun y rho => Admissible y rho ∧ Margins y eps) ys rhos) :
    ys.map List.length = rhos.map List.length := by
  induction h with
  | nil => rfl
  | cons hd _ ih => simp [hd.1.len, ih]

theorem forall₂_in {ys rhos : List (List ℚ)} {eps : ℚ}
    (h : List.Forall₂ (fun y rho => Admissible y rho ∧ Margins y eps) ys rhos) :
    ys.any (fun y => decide (1 < nSatStrict y eps)) = false := by
  induction h with
  | nil => rfl
  | cons hd _ ih =>
    rw [List.any_cons, ih, Bool.or_false]
    simpa using nSatStrict_le_one hd.2.eps_small hd.1.nonneg hd.1.sum_one

theorem forall₂_out {ys rhos : List (List ℚ)} {eps : ℚ}
    (h : List.Forall₂ (fun y rho => Admissible y rho ∧ Margins y eps) ys rhos) :
    (List.zipWith sat ys rhos).any (fun s => decide (1 < nSatStrict s eps)) = false := by
  induction h with
  | nil => rfl
  | cons hd _ ih =>
    rw [List.zipWith_cons_cons, List.any_cons, ih, Bool.or_false]
    simpa using nSatStrict_le_one hd.2.eps_small (sat_nonneg_sum hd.1).1 (sat_nonneg_sum hd.1).2

theorem pSum_ofFn {n} (y rho : Fin n → ℚ) : pSum (List.ofFn y) (List.ofFn rho) = ∑ j, rho j * (1 - y j) := by
  simp [pSum, zipWith_ofFn, List.sum_ofFn]

/-- explicit solution over `Fin n` -/
def solF {n} (y rho : Fin n → ℚ) (j : Fin n) : ℚ :=
  1 / ((∑ k, y k / rho k) + ((n : ℚ) - 1 - ∑ k, y k) * (1 - ∑ k, y k) / ∑ k, rho k * (1 - y k))
    * (y j / rho j + (1 - y j) * (1 - ∑ k, y k) / ∑ k, rho k * (1 - y k))

theorem codedSolution_ofFn {n} (y rho : Fin n → ℚ) :
    codedSolution (List.ofFn y) (List.ofFn rho) = List.ofFn (solF y rho) := by
  simp only [codedSolution, pSum_ofFn, wsum_ofFn, zipWith_ofFn, List.sum_ofFn, List.map_ofFn, List.length_ofFn, Function.comp_def]
  rfl

theorem clear_D (W P a : ℚ) (hP : P ≠ 0) (hD : W + a / P ≠ 0) : W * P + a ≠ 0 := by
  intro h
  apply hD
  field_simp
  linarith

section snap
variable {n : ℕ} (y rho : Fin n → ℚ)

theorem P_pos (hn : 2 ≤ n) (hy : ∀ i, 0 ≤ y i) (hs : ∑ i, y i ≤ 1) (hr : ∀ i, 0 < rho i) :
    0 < ∑ j, rho j * (1 - y j) := by
  have hle : ∀ i, y i ≤ 1 := fun i =>
    (Finset.single_le_sum (fun k _ => hy k) (mem_univ i)).trans hs
  have hex : ∃ i, y i < 1 := by
    by_contra hne
    have h1 : ∀ i, y i = 1 := fun i => le_antisymm (hle i) (not_lt.mp (fun h => hne ⟨i, h⟩))
    simp [h1] at hs
    have : (2 : ℚ) ≤ n := by exact_mod_cast hn
    linarith
  obtain ⟨i, hi⟩ := hex
  exact Finset.sum_pos' (fun k _ => mul_nonneg (hr k).le (by linarith [hle k]))
    ⟨i, mem_univ i, mul_pos (hr i) (by linarith)⟩

theorem D_pos (hn : 2 ≤ n) (hy : ∀ i, 0 ≤ y i) (hs : ∑ i, y i ≤ 1) (h0 : 0 < ∑ i, y i) (hr : ∀ i, 0 < rho i) :
    0 < (∑ k, y k / rho k) + ((n : ℚ) - 1 - ∑ k, y k) * (1 - ∑ k, y k) / ∑ k, rho k * (1 - y k) := by
  have hP := P_pos y rho hn hy hs hr
  have hW : 0 < ∑ k, y k / rho k := by
    have hex : ∃ i, 0 < y i := by
      by_contra hne
      have : ∀ i, y i = 0 := fun i => le_antisymm (not_lt.mp (fun h => hne ⟨i, h⟩)) (hy i)
      simp [this] at h0
    obtain ⟨i, hi⟩ := hex
    exact Finset.sum_pos' (fun k _ => div_nonneg (hy k) (hr k).le) ⟨i, mem_univ i, div_pos hi (hr i)⟩
  have : (2 : ℚ) ≤ n := by exact_mod_cast hn
  have h2 : 0 ≤ ((n : ℚ) - 1 - ∑ k, y k) * (1 - ∑ k, y k) / ∑ k, rho k * (1 - y k) :=
    div_nonneg (mul_nonneg (by linarith) (by linarith)) hP.le
  linarith

theorem solF_sum :
    ∑ j, solF y rho j = 1 / ((∑ k, y k / rho k) + ((n : ℚ) - 1 - ∑ k, y k) * (1 - ∑ k, y k) / ∑ k, rho k * (1 - y k))
      * ((∑ k, y k / rho k) + ((n : ℚ) - ∑ k, y k) * (1 - ∑ k, y k) / ∑ k, rho k * (1 - y k)) := by
  unfold solF
  rw [← Finset.mul_sum, Finset.sum_add_distrib, ← Finset.sum_div, ← Finset.sum_mul, Finset.sum_sub_distrib]
  simp

theorem solF_rho_sum (hr : ∀ i, rho i ≠ 0) (hP : ∑ k, rho k * (1 - y k) ≠ 0) :
    ∑ j, rho j * solF y rho j
      = 1 / ((∑ k, y k / rho k) + ((n : ℚ) - 1 - ∑ k, y k) * (1 - ∑ k, y k) / ∑ k, rho k * (1 - y k)) := by
  unfold solF
  have : ∀ j, rho j * (1 / ((∑ k, y k / rho k) + ((n : ℚ) - 1 - ∑ k, y k) * (1 - ∑ k, y k) / ∑ k, rho k * (1 - y k))
      * (y j / rho j + (1 - y j) * (1 - ∑ k, y k) / ∑ k, rho k * (1 - y k)))
      = 1 / ((∑ k, y k / rho k) + ((n : ℚ) - 1 - ∑ k, y k) * (1 - ∑ k, y k) / ∑ k, rho k * (1 - y k))
        * (y j + rho j * (1 - y j) * ((1 - ∑ k, y k) / ∑ k, rho k * (1 - y k))) := by
    intro j; have := hr j; field_simp
  simp only [this, ← Finset.mul_sum, Finset.sum_add_distrib, ← Finset.sum_mul]
  rw [mul_div_cancel₀ _ hP]
  ring

/-- the explicit solution solves the coded system (fractions need not sum to one) -/
theorem solF_solves (hn : 2 ≤ n) (hy : ∀ i, 0 ≤ y i) (hs : ∑ i, y i ≤ 1) (h0 : 0 < ∑ i, y i) (hr : ∀ i, 0 < rho i)
    (j : Fin n) :
    ∑ k, (if k = j then 0 else rho j * (y j - 1) - rho k * y j) * solF y rho k = rho j * (y j - 1) := by
  have hP := (P_pos y rho hn hy hs hr).ne'
  have hD := (D_pos y rho hn hy hs h0 hr).ne'
  rw [coded_row_apply, solF_sum, solF_rho_sum y rho (fun i => (hr i).ne') hP]
  unfold solF
  have hrj := (hr j).ne'
  generalize (∑ k, rho k * (1 - y k)) = P at hP hD ⊢
  generalize (∑ k, y k / rho k) = W at hD ⊢
  generalize (∑ k, y k) = Y at hD ⊢
  have hD' := clear_D W P _ hP hD
  field_simp
  ring

/-- reproduced fraction of a present phase: exact error term -/
theorem solF_repro (hn : 2 ≤ n) (hy : ∀ i, 0 ≤ y i) (hs : ∑ i, y i ≤ 1) (h0 : 0 < ∑ i, y i) (hr : ∀ i, 0 < rho i)
    (j : Fin n) :
    rho j * solF y rho j / ∑ k, rho k * solF y rho k
      = y j + rho j * (1 - y j) * (1 - ∑ k, y k) / ∑ k, rho k * (1 - y k) := by
  have hP := (P_pos y rho hn hy hs hr).ne'
  have hD := (D_pos y rho hn hy hs h0 hr).ne'
  rw [solF_rho_sum y rho (fun i => (hr i).ne') hP]
  unfold solF
  have hrj := (hr j).ne'
  generalize (∑ k, rho k * (1 - y k)) = P at hP hD ⊢
  generalize (∑ k, y k / rho k) = W at hD ⊢
  generalize (∑ k, y k) = Y at hD ⊢
  have hD' := clear_D W P _ hP hD
  field_simp

/-- sum of the solution: exact error term -/
theorem solF_sum_err (hn : 2 ≤ n) (hy : ∀ i, 0 ≤ y i) (hs : ∑ i, y i ≤ 1) (h0 : 0 < ∑ i, y i) (hr : ∀ i, 0 < rho i) :
    ∑ j, solF y rho j - 1 = (∑ k, rho k * solF y rho k) * (1 - ∑ k, y k) / ∑ k, rho k * (1 - y k) := by
  have hP := (P_pos y rho hn hy hs hr).ne'
  have hD := (D_pos y rho hn hy hs h0 hr).ne'
  rw [solF_sum, solF_rho_sum y rho (fun i => (hr i).ne') hP]
  generalize (∑ k, rho k * (1 - y k)) = P at hP hD ⊢
  generalize (∑ k, y k / rho k) = W at hD ⊢
  generalize (∑ k, y k) = Y at hD ⊢
  have hD' := clear_D W P _ hP hD
  field_simp
  ring

/-- bounds with `lo ≤ ρ ≤ hi`: `P ≥ lo (n - 1)`, `Σ ρ s ≤ hi / Σy` -/
theorem P_ge (lo : ℚ) (hlo : ∀ i, lo ≤ rho i) (hl0 : 0 ≤ lo) (hy : ∀ i, 0 ≤ y i) (hs : ∑ i, y i ≤ 1) :
    lo * ((n : ℚ) - 1) ≤ ∑ j, rho j * (1 - y j) := by
  have hle : ∀ i, y i ≤ 1 := fun i => (Finset.single_le_sum (fun k _ => hy k) (mem_univ i)).trans hs
  have h1 : ∑ j, lo * (1 - y j) ≤ ∑ j, rho j * (1 - y j) :=
    Finset.sum_le_sum (fun j _ => mul_le_mul_of_nonneg_right (hlo j) (by linarith [hle j]))
  rw [← Finset.mul_sum, Finset.sum_sub_distrib] at h1
  simp at h1
  nlinarith

theorem repro_err_le (lo hi : ℚ) (hlo : ∀ i, lo ≤ rho i) (hhi : ∀ i, rho i ≤ hi) (hl0 : 0 < lo) (hn : 2 ≤ n)
    (hy : ∀ i, 0 ≤ y i) (hs : ∑ i, y i ≤ 1) (j : Fin n) :
    rho j * (1 - y j) * (1 - ∑ k, y k) / ∑ k, rho k * (1 - y k) ≤ hi / lo * ((1 - ∑ k, y k) / ((n : ℚ) - 1)) := by
  have hr : ∀ i, 0 < rho i := fun i => lt_of_lt_of_le hl0 (hlo i)
  have hP := P_pos y rho hn hy hs hr
  have hPge := P_ge y rho lo hlo hl0.le hy hs
  have hn2 : (2 : ℚ) ≤ n := by exact_mod_cast hn
  have hn1 : (0 : ℚ) < (n : ℚ) - 1 := by linarith
  have hle : y j ≤ 1 := (Finset.single_le_sum (fun k _ => hy k) (mem_univ j)).trans hs
  have hnum : rho j * (1 - y j) ≤ hi := by
    have := hhi j; have := hy j; have := hr j
    nlinarith
  have hd : 0 ≤ 1 - ∑ k, y k := by linarith
  rw [div_mul_div_comm, div_le_div_iff₀ hP (mul_pos hl0 hn1)]
  have h1 : rho j * (1 - y j) * (1 - ∑ k, y k) ≤ hi * (1 - ∑ k, y k) := mul_le_mul_of_nonneg_right hnum hd
  have hhi0 : 0 ≤ hi * (1 - ∑ k, y k) := mul_nonneg (le_trans (hr j).le (hhi j)) hd
  calc rho j * (1 - y j) * (1 - ∑ k, y k) * (lo * ((n : ℚ) - 1))
      ≤ hi * (1 - ∑ k, y k) * (lo * ((n : ℚ) - 1)) := mul_le_mul_of_nonneg_right h1 (mul_nonneg hl0.le hn1.le)
    _ ≤ hi * (1 - ∑ k, y k) * ∑ k, rho k * (1 - y k) := mul_le_mul_of_nonneg_left hPge hhi0

end snap

theorem codedSolution_eq_sat_of_sum (y rho : List ℚ) (h : y.sum = 1) : codedSolution y rho = sat y rho := by
  simp only [codedSolution, sat, quot, h, sub_self, mul_zero, zero_div, add_zero]
  apply List.map_congr_left
  intro x _
  ring

theorem sum_select (eps : ℚ) (he : 0 ≤ eps) :
    ∀ (y : List ℚ), (∀ v ∈ y, v = 0 ∨ eps < v) → (select (notVanished y eps) y).sum = y.sum := by
  intro y
  induction y with
  | nil => intro _; simp [notVanished, select]
  | cons v y ih =>
    intro hv
    have ih := ih (fun w hw => hv w (List.mem_cons_of_mem _ hw))
    rcases hv v List.mem_cons_self with h0 | hpos
    · subst h0
      have : ¬ eps < 0 := not_lt.mpr he
      simp only [notVanished, List.map_cons, this, decide_false, select] at ih ⊢
      simpa using ih
    · simp only [notVanished, List.map_cons, hpos, decide_true, select] at ih ⊢
      simpa using ih

/-- what is dropped by the mask is at most `eps` per dropped phase -/
theorem defect_select_le (eps : ℚ) :
    ∀ (y : List ℚ), y.sum - (select (notVanished y eps) y).sum ≤ (y.countP (fun v => decide (¬ eps < v)) : ℚ) * eps := by
  intro y
  induction y with
  | nil => simp [notVanished, select]
  | cons v y ih =>
    by_cases h : eps < v
    · simp only [notVanished, List.map_cons, h, decide_true, select, List.sum_cons, List.countP_cons, not_true_eq_false,
        decide_false, Bool.false_eq_true, if_false, add_zero] at ih ⊢
      linarith
    · simp only [notVanished, List.map_cons, h, decide_false, select, List.sum_cons, List.countP_cons, not_false_eq_true,
        decide_true, if_true, Nat.cast_add, Nat.cast_one] at ih ⊢
      have := not_lt.mp h
      linarith

/-- snapping to a saturated phase changes every fraction by at most `eps` -/
theorem indicator_err_le {n} (y : Fin n → ℚ) (eps : ℚ) (hy : ∀ i, 0 ≤ y i) (hs : ∑ i, y i = 1)
    (j0 : Fin n) (hj0 : 1 - eps ≤ y j0) (k : Fin n) :
    |(if 1 - eps ≤ y k then (1 : ℚ) else 0) - y k| ≤ eps := by
  have hle : ∀ i, y i ≤ 1 := fun i => hs ▸ Finset.single_le_sum (fun k _ => hy k) (mem_univ i)
  split
  · rename_i h
    rw [abs_of_nonneg (by linarith [hle k])]; linarith
  · rename_i h
    have hk : k ≠ j0 := fun e => h (e ▸ hj0)
    have hsplit := Finset.add_sum_erase univ y (mem_univ j0)
    have h2 : y k ≤ ∑ i ∈ univ.erase j0, y i :=
      Finset.single_le_sum (fun i _ => hy i) (by simp [hk])
    rw [zero_sub, abs_neg, abs_of_nonneg (hy k)]
    linarith

end PorepyVerif.C42
