/-
C42 — property theorems (the model is Model.lean; helper lemmas in Lemmas.lean).

Property: for any phase fractions on the simplex and positive densities, computed saturations are non-negative, sum to
one, and reproduce the phase fractions as density-weighted saturation ratios.  The chain rule for normalised fractions
equals the derivative of the composed function, and row normalisation yields rows summing to one.

Hypotheses (Model.lean): `Admissible y rho` = fractions ≥ 0 with sum 1, densities > 0, equally many of both;
`Margins y eps` = the input keeps clear of the code's `eps` thresholds (a phase is absent or present by more than `eps`,
saturated or below `1 - eps`; 0 < eps < 1/2).  All statements are for every number of phases and every input.
-/
import Mathlib.Data.List.GetD
import PorepyVerif.C42.Lemmas

namespace PorepyVerif.C42
open Finset

/-- saturations are non-negative -/
theorem sat_nonneg {y rho : List ℚ} (h : Admissible y rho) : ∀ s ∈ sat y rho, 0 ≤ s := (sat_nonneg_sum h).1

/-- saturations sum to one -/
theorem sat_sum_one {y rho : List ℚ} (h : Admissible y rho) : (sat y rho).sum = 1 := (sat_nonneg_sum h).2

/-- saturations reproduce the phase fractions: `y_j = ρ_j s_j / Σ_k ρ_k s_k` -/
theorem sat_reproduces_fractions {y rho : List ℚ} (h : Admissible y rho) : fracOfSat (sat y rho) rho = y := by
  obtain ⟨n, fy, fr, rfl, rfl, hy, hs, hr⟩ := h.ofFn
  rw [sat_ofFn, fracOfSat_ofFn, List.ofFn_inj]
  funext j
  rw [rho_satF_sum fy fr hs (fun i => (hr i).ne')]
  have := (W_pos fy fr hy hs hr).ne'
  have := (hr j).ne'
  field_simp

/-- the closed form solves the linear system `mat · s = rhs` with `mat`, `rhs` exactly as `_compute_saturations`
    assembles them (rows `rho_j (y_j - 1) - rho_k y_j`, zero diagonal; right-hand side `rho_j (y_j - 1)`), any number of phases -/
theorem sat_solves_coded_system {y rho : List ℚ} (h : Admissible y rho) :
    matVec (codedMat y rho) (sat y rho) = codedRhs y rho := by
  obtain ⟨n, fy, fr, rfl, rfl, hy, hs, hr⟩ := h.ofFn
  rw [sat_ofFn, codedMat_ofFn, codedRhs_ofFn, matVec_ofFn, List.ofFn_inj]
  funext j
  exact satF_solves fy fr hy hs hr j

/-- … and for at least two phases that system has no other solution, so `np.linalg.solve` can only return the closed form -/
theorem coded_system_unique {y rho : List ℚ} (h : Admissible y rho) (h2 : 2 ≤ y.length)
    (s : List ℚ) (hlen : s.length = y.length) (hsol : matVec (codedMat y rho) s = codedRhs y rho) :
    s = sat y rho := by
  obtain ⟨n, fy, fr, rfl, rfl, hy, hs, hr⟩ := h.ofFn
  obtain ⟨fs, rfl⟩ := exists_ofFn s (hlen.trans (List.length_ofFn))
  rw [codedMat_ofFn, codedRhs_ofFn, matVec_ofFn, List.ofFn_inj] at hsol
  rw [sat_ofFn, List.ofFn_inj]
  funext j
  exact coded_unique fy fr (by simpa using h2) hy hs hr fs (fun j => congrFun hsol j) j

/-- the 2-phase formula as coded, `s_0 = 1 / (1 + y_1/(1 - y_1) · ρ_0/ρ_1)`, `s_1 = 1 - s_0`, is the closed form -/
theorem two_phase_as_coded (y0 y1 r0 r1 : ℚ) (h : Admissible [y0, y1] [r0, r1]) (hy1 : y1 ≠ 1) :
    twoPhase y1 r0 r1 = sat [y0, y1] [r0, r1] := by
  obtain ⟨_, hy, hs, hr⟩ := h
  have hs' : y0 + y1 = 1 := by simpa using hs
  have h0 : 0 ≤ y0 := hy y0 (by simp)
  have h1 : 0 ≤ y1 := hy y1 (by simp)
  have : 0 < y0 := lt_of_le_of_ne h0 (fun e => hy1 (by linarith))
  exact twoPhase_eq y0 y1 r0 r1 this h1 hs' (hr r0 (by simp)) (hr r1 (by simp))

/-- saturated branch: if some `y_j = 1` (hence all others vanish) then `s[saturated] = 1`, zeros elsewhere, is the closed form -/
theorem saturated_branch {y rho : List ℚ} (h : Admissible y rho) (h1 : (1 : ℚ) ∈ y) (eps : ℚ)
    (he0 : 0 ≤ eps) (he1 : eps < 1) : indicator y eps = sat y rho := by
  obtain ⟨n, fy, fr, rfl, rfl, hy, hs, hr⟩ := h.ofFn
  obtain ⟨j0, hj0⟩ := (List.mem_ofFn' _ _).mp h1
  have hone : ∀ j, fy j = if j = j0 then 1 else 0 := by
    intro j
    have := satF_saturated fy fr hy hs hr j0 hj0 j
    by_cases hj : j = j0
    · simp [hj, hj0]
    · simp only [hj, if_false] at this ⊢
      have hW := (W_pos fy fr hy hs hr).ne'
      have hr' := (hr j).ne'
      have h3 : fy j / fr j = 0 := by
        rcases div_eq_zero_iff.mp this with h | h
        · exact h
        · exact absurd h hW
      rcases div_eq_zero_iff.mp h3 with h | h
      · exact h
      · exact absurd h hr'
  rw [sat_ofFn, indicator_ofFn, List.ofFn_inj]
  funext j
  rw [satF_saturated fy fr hy hs hr j0 hj0 j, hone j]
  by_cases hj : j = j0
  · simp [hj, he0]
  · simp [hj, he1]

/-- vanished branch: dropping the phases with `y_j = 0`, computing the rest and scattering back (zeros for the dropped
    phases) is the closed form of the full problem -/
theorem vanished_branch (y rho : List ℚ) (eps : ℚ) (hl : y.length = rho.length) (he : 0 ≤ eps)
    (hv : ∀ v ∈ y, v = 0 ∨ eps < v) :
    scatter (notVanished y eps) (sat (select (notVanished y eps) y) (select (notVanished y eps) rho)) = sat y rho := by
  unfold sat
  rw [wsum_select eps he y rho hv]
  exact scatter_select eps he _ y rho hl hv

/-- `_compute_saturations` (all branches: 1 phase, saturated, 2-phase formula, ≥ 3 phases with masking) raises nothing and
    returns the closed form for every admissible input that respects the `eps` margins -/
theorem satCell_eq_closed {y rho : List ℚ} {eps : ℚ} (h : Admissible y rho) (hm : Margins y eps) :
    satCell y rho eps = .ok (sat y rho) := by
  have hle := nSat_le_one y eps hm.eps_small h.nonneg h.sum_one
  unfold satCell
  rw [if_neg (not_not.mpr h.len)]
  split
  · -- one phase
    rename_i h1
    obtain ⟨v, rfl⟩ := List.length_eq_one_iff.mp h1
    obtain ⟨r, rfl⟩ := List.length_eq_one_iff.mp (h.len ▸ h1)
    have hv : v = 1 := by simpa using h.sum_one
    have hr : r ≠ 0 := (h.rho_pos r (by simp)).ne'
    subst hv
    simp [sat, quot, wsum, hr]
  · rw [if_neg (not_lt.mpr hle)]
    split
    · -- a saturated phase
      rename_i hpos
      obtain ⟨v, hv, hv1⟩ := List.countP_pos_iff.mp hpos
      simp only [decide_eq_true_eq] at hv1
      have : v = 1 := by
        rcases hm.saturated v hv with h1 | h1
        · exact h1
        · exact absurd hv1 (not_le.mpr h1)
      rw [saturated_branch h (this ▸ hv) eps hm.eps_pos.le (by linarith [hm.eps_small])]
    · rename_i h1 hpos
      have hnone : ∀ v ∈ y, v < 1 - eps := by
        intro v hv
        by_contra hc
        exact hpos (List.countP_pos_iff.mpr ⟨v, hv, by simpa using not_lt.mp hc⟩)
      split
      · -- two phases, formula as coded
        rename_i y0 y1 r0 r1
        have : y1 ≠ 1 := by
          have := hnone y1 (by simp)
          intro e; linarith [hm.eps_pos]
        rw [two_phase_as_coded y0 y1 r0 r1 h this]
      · -- more phases: vanished phases dropped, system solved, scattered back
        have hsum := (sum_select eps hm.eps_pos.le y hm.vanished).trans h.sum_one
        simp only [codedSolution_eq_sat_of_sum _ _ hsum]
        exact congrArg _ (vanished_branch y rho eps h.len hm.eps_pos.le hm.vanished)

/-- the parallel loop over cells -/
theorem satCells_eq_closed {ys rhos : List (List ℚ)} {eps : ℚ}
    (h : List.Forall₂ (fun y rho => Admissible y rho ∧ Margins y eps) ys rhos) :
    satCells ys rhos eps = .ok (List.zipWith sat ys rhos) := by
  induction h with
  | nil => rfl
  | cons hd _ ih => simp only [satCells, satCell_eq_closed hd.1 hd.2, ih, List.zipWith_cons_cons]

/-- the whole public function on vectorised input: no error is raised and every cell gets the closed form -/
theorem computeSaturations_eq_closed {ys rhos : List (List ℚ)} {eps : ℚ}
    (h : List.Forall₂ (fun y rho => Admissible y rho ∧ Margins y eps) ys rhos) :
    computeSaturations ys rhos eps = .ok (List.zipWith sat ys rhos) := by
  unfold computeSaturations
  rw [if_neg (not_not.mpr (forall₂_len h)), forall₂_in h, satCells_eq_closed h]
  simp [forall₂_out h]

/-- Headline: what `compute_saturations` returns for admissible input is thermodynamically consistent in every cell:
    non-negative, summing to one, and reproducing the phase fractions `y_j = ρ_j s_j / Σ_k ρ_k s_k`. -/
theorem computeSaturations_consistent {ys rhos : List (List ℚ)} {eps : ℚ}
    (h : List.Forall₂ (fun y rho => Admissible y rho ∧ Margins y eps) ys rhos) :
    ∃ ss, computeSaturations ys rhos eps = .ok ss ∧
      List.Forall₂ (fun (p : List ℚ × List ℚ) s => (∀ v ∈ s, 0 ≤ v) ∧ s.sum = 1 ∧ fracOfSat s p.2 = p.1)
        (List.zip ys rhos) ss := by
  refine ⟨_, computeSaturations_eq_closed h, ?_⟩
  induction h with
  | nil => exact .nil
  | cons hd _ ih =>
    exact .cons ⟨sat_nonneg hd.1, sat_sum_one hd.1, sat_reproduces_fractions hd.1⟩ ih

/-! ### the eps-snapping regime (inputs within `eps` of a vanished / saturated state): quantitative statements

`Margins` is not needed here.  Phases with `y_j ≤ eps` are dropped by the code; the fractions `y` handed to the solve then sum
to `1 - d` with the defect `0 ≤ d ≤ (#dropped)·eps`.  `codedSolution` is the exact solution of the system the code assembles. -/

/-- the explicit solution is the closed form whenever the fractions sum to one -/
theorem codedSolution_eq_sat (y rho : List ℚ) (h : y.sum = 1) : codedSolution y rho = sat y rho :=
  codedSolution_eq_sat_of_sum y rho h

/-- `codedSolution` solves the system exactly as assembled by the code, also for fractions summing to less than one -/
theorem codedSolution_solves {n : ℕ} (y rho : Fin n → ℚ) (hn : 2 ≤ n) (hy : ∀ i, 0 ≤ y i) (hs : ∑ i, y i ≤ 1)
    (h0 : 0 < ∑ i, y i) (hr : ∀ i, 0 < rho i) :
    matVec (codedMat (List.ofFn y) (List.ofFn rho)) (codedSolution (List.ofFn y) (List.ofFn rho))
      = codedRhs (List.ofFn y) (List.ofFn rho) := by
  rw [codedSolution_ofFn, codedMat_ofFn, codedRhs_ofFn, matVec_ofFn, List.ofFn_inj]
  funext j
  exact solF_solves y rho hn hy hs h0 hr j

/-- reproduced fractions of the present phases, exactly: `ρ_j s_j / Σ ρ s = y_j + ρ_j (1 - y_j) d / P`,
    `d = 1 - Σy` the dropped mass, `P = Σ_k ρ_k (1 - y_k)` -/
theorem snap_reproduction {n : ℕ} (y rho : Fin n → ℚ) (hn : 2 ≤ n) (hy : ∀ i, 0 ≤ y i) (hs : ∑ i, y i ≤ 1)
    (h0 : 0 < ∑ i, y i) (hr : ∀ i, 0 < rho i) :
    fracOfSat (codedSolution (List.ofFn y) (List.ofFn rho)) (List.ofFn rho)
      = List.ofFn fun j => y j + rho j * (1 - y j) * (1 - ∑ k, y k) / ∑ k, rho k * (1 - y k) := by
  rw [codedSolution_ofFn, fracOfSat_ofFn, List.ofFn_inj]
  funext j
  exact solF_repro y rho hn hy hs h0 hr j

/-- … and that error term is between `0` and `(ρ_max/ρ_min) · d / (n - 1)`: the explicit constant `C` of the
    eps-snapping regime is the density ratio (with `d ≤ (#dropped) · eps`, see `snap_defect_le`) -/
theorem snap_reproduction_error_le {n : ℕ} (y rho : Fin n → ℚ) (lo hi : ℚ) (hlo : ∀ i, lo ≤ rho i)
    (hhi : ∀ i, rho i ≤ hi) (hl0 : 0 < lo) (hn : 2 ≤ n) (hy : ∀ i, 0 ≤ y i) (hs : ∑ i, y i ≤ 1) (j : Fin n) :
    0 ≤ rho j * (1 - y j) * (1 - ∑ k, y k) / ∑ k, rho k * (1 - y k) ∧
    rho j * (1 - y j) * (1 - ∑ k, y k) / ∑ k, rho k * (1 - y k) ≤ hi / lo * ((1 - ∑ k, y k) / ((n : ℚ) - 1)) := by
  have hr : ∀ i, 0 < rho i := fun i => lt_of_lt_of_le hl0 (hlo i)
  have hle : y j ≤ 1 := (Finset.single_le_sum (fun k _ => hy k) (mem_univ j)).trans hs
  refine ⟨div_nonneg (mul_nonneg (mul_nonneg (hr j).le (by linarith)) (by linarith)) (P_pos y rho hn hy hs hr).le, ?_⟩
  exact repro_err_le y rho lo hi hlo hhi hl0 hn hy hs j

/-- the saturations returned by the solve then do NOT sum to one exactly: `Σ s - 1 = (Σ ρ s) · d / P` (zero iff `d = 0`) -/
theorem snap_sum_error {n : ℕ} (y rho : Fin n → ℚ) (hn : 2 ≤ n) (hy : ∀ i, 0 ≤ y i) (hs : ∑ i, y i ≤ 1)
    (h0 : 0 < ∑ i, y i) (hr : ∀ i, 0 < rho i) :
    (codedSolution (List.ofFn y) (List.ofFn rho)).sum - 1
      = dot (List.ofFn rho) (codedSolution (List.ofFn y) (List.ofFn rho)) * (1 - ∑ k, y k) / ∑ k, rho k * (1 - y k) := by
  rw [codedSolution_ofFn, dot_ofFn, List.sum_ofFn]
  exact solF_sum_err y rho hn hy hs h0 hr

/-- the dropped mass is at most `eps` per dropped phase -/
theorem snap_defect_le (y : List ℚ) (eps : ℚ) :
    y.sum - (select (notVanished y eps) y).sum ≤ (y.countP (fun v => decide (¬ eps < v)) : ℚ) * eps :=
  defect_select_le eps y

/-- snapping to a saturated phase (`y_j ≥ 1 - eps` ⇒ `s = e_j`, which sums to one and reproduces itself) changes every
    fraction by at most `eps`, independently of the densities -/
theorem snap_saturated_error_le {n : ℕ} (y : Fin n → ℚ) (eps : ℚ) (hy : ∀ i, 0 ≤ y i) (hs : ∑ i, y i = 1)
    (j0 : Fin n) (hj0 : 1 - eps ≤ y j0) :
    ∀ p ∈ List.zip (indicator (List.ofFn y) eps) (List.ofFn y), |p.1 - p.2| ≤ eps := by
  rw [indicator_ofFn, List.zip, zipWith_ofFn, List.forall_mem_ofFn_iff]
  intro k
  exact indicator_err_le y eps hy hs j0 hj0 k

/-! ### chain rule -/

/-- the coded chain rule in closed form: leading derivatives pass unchanged, the last `n` entries become
    `g_j / S − (Σ_i g_i x_i) / S²` with `S = Σ x` -/
theorem chainrule_closed_form {n : ℕ} (pre : List ℚ) (x g : Fin n → ℚ) :
    chainrule (pre ++ List.ofFn g) (List.ofFn x) =
      .ok (pre ++ List.ofFn fun j => g j / (∑ k, x k) - (∑ i, g i * x i) / ((∑ k, x k) * (∑ k, x k))) := by
  unfold chainrule
  rw [if_neg (by simp), chainrule1_ofFn]
  rw [show chainTail x g = _ from funext (chainTail_closed x g)]

/-- the Jacobian `dxn` exactly as assembled by the code is the Jacobian of `x ↦ x / Σx`: entry `[i][j]` is the derivative
    of the `i`-th normalised fraction along the `j`-th coordinate direction (real extension of the rational map) -/
theorem dxn_is_jacobian {n : ℕ} (x : Fin n → ℚ) (hS : ∑ k, x k ≠ 0) (i j : Fin n) :
    HasDerivAt (fun t : ℝ => ((x i : ℝ) + if i = j then t else 0) / ((∑ k, (x k : ℝ)) + t))
      ((((dxn (List.ofFn x)).getD i []).getD j 0 : ℚ) : ℝ) 0 := by
  have h := hasDerivAt_pi.mp (normLine_hasDerivAt x hS j) i
  rw [dxn_ofFn]
  simpa [normLine] using h

/-- exact rational difference quotient of the normalised fractions = coded Jacobian entry × `S / (S + h)`
    (so a finite difference with step `h` has relative error exactly `|h / (S + h)|`) -/
theorem dxn_difference_quotient {n : ℕ} (x : Fin n → ℚ) (i j : Fin n) (h : ℚ) (hS : ∑ k, x k ≠ 0)
    (hSh : ∑ k, x k + h ≠ 0) :
    (x i + if i = j then h else 0) / (∑ k, x k + h) - x i / ∑ k, x k
      = h * (((dxn (List.ofFn x)).getD i []).getD j 0 * ((∑ k, x k) / (∑ k, x k + h))) := by
  rw [dxn_ofFn]
  simpa using dxnF_difference_quotient x i j h hS hSh

/-- **Chain rule equals the derivative of the composed function.**  For ANY real function `f` of the normalised
    fractions, differentiable at `x / Σx` with partial derivatives `g` there, the derivative of `x ↦ f (x / Σx)` with
    respect to `x_j` is entry `j` of the block that `chainrule_fractional_derivatives` returns. -/
theorem chainrule_is_derivative {n : ℕ} (pre : List ℚ) (x g : Fin n → ℚ) (j : Fin n) (hS : ∑ k, x k ≠ 0)
    (f : (Fin n → ℝ) → ℝ) (f' : (Fin n → ℝ) →L[ℝ] ℝ)
    (hf : HasFDerivAt f f' (fun i => (x i : ℝ) / ∑ k, (x k : ℝ)))
    (hg : ∀ i, f' (Pi.single i 1) = (g i : ℝ)) :
    HasDerivAt (fun t : ℝ => f (fun i => ((x i : ℝ) + if i = j then t else 0) / ((∑ k, (x k : ℝ)) + t)))
      (((chainrule1 (pre ++ List.ofFn g) (List.ofFn x)).getD (pre.length + j) 0 : ℚ) : ℝ) 0 := by
  have h0 : normLine x j 0 = fun i => (x i : ℝ) / ∑ k, (x k : ℝ) := by
    funext i; simp [normLine]
  have h := chainTail_is_derivative x g j hS f f' (h0 ▸ hf) hg
  have hget : (pre ++ List.ofFn (chainTail x g)).getD (pre.length + j) 0 = chainTail x g j := by
    rw [List.getD_append_right _ _ _ _ (Nat.le_add_right _ _), Nat.add_sub_cancel_left,
      List.getD_eq_getElem _ _ (by simp)]
    simp
  rw [chainrule1_ofFn, hget]
  exact h

/-! ### row normalisation, safe_sum -/

/-- `normalize_rows`: every row with non-zero sum is mapped to a row summing to one -/
theorem normalize_rows_sum_one (X : List (List ℚ)) (h : ∀ r ∈ X, r.sum ≠ 0) :
    ∀ r ∈ normalizeRows X, r.sum = 1 := by
  intro r hr
  obtain ⟨r0, hr0, rfl⟩ := List.mem_map.mp hr
  rw [sum_map_div, div_self (h r0 hr0)]

/-- `safe_sum` is the sum (and `0` on the empty sequence) -/
theorem safeSum_eq_sum (l : List ℚ) : safeSum l = l.sum := by
  cases l with
  | nil => rfl
  | cons a l => simp [safeSum, foldl_add_eq]

/-! ### non-vacuity: the hypotheses are satisfiable, the statements are about non-trivial data -/

example : Admissible [1/2, 3/10, 1/5] [1, 2, 10] := ⟨rfl, by norm_num, by norm_num, by norm_num⟩
example : Margins [1/2, 3/10, 1/5] (1 / 10 ^ 10) := ⟨by norm_num, by norm_num, by norm_num, by norm_num⟩
example : Admissible [0, 1/2, 1/2] [4, 5, 40] ∧ Margins [0, 1/2, 1/2] (1 / 100) :=
  ⟨⟨rfl, by norm_num, by norm_num, by norm_num⟩, ⟨by norm_num, by norm_num, by norm_num, by norm_num⟩⟩
example : Admissible [1, 0, 0] [3, 4, 30] ∧ Margins [1, 0, 0] (1 / 100) :=
  ⟨⟨rfl, by norm_num, by norm_num, by norm_num⟩, ⟨by norm_num, by norm_num, by norm_num, by norm_num⟩⟩
example : Admissible [1/5, 4/5] [2, 3] ∧ (4 / 5 : ℚ) ≠ 1 := ⟨⟨rfl, by norm_num, by norm_num, by norm_num⟩, by norm_num⟩
-- all branches on concrete data (3 phases / vanished phase / saturated phase / 2 phases)
example : computeSaturations [[1/2, 3/10, 1/5], [0, 1/2, 1/2], [1, 0, 0]] [[1, 2, 10], [4, 5, 40], [3, 4, 30]] (1 / 100)
    = .ok [[50/67, 15/67, 2/67], [0, 8/9, 1/9], [1, 0, 0]] := by decide +kernel
example : computeSaturations [[1/5, 4/5]] [[2, 3]] (1 / 100) = .ok [[3/11, 8/11]] := by decide +kernel
example : matVec (codedMat [1/2, 3/10, 1/5] [1, 2, 10]) [50/67, 15/67, 2/67] = codedRhs [1/2, 3/10, 1/5] [1, 2, 10] := by
  decide +kernel
example : (2 : ℕ) ≤ [1/2, 3/10, 1/5].length := by decide
example : chainrule [1, 2, 3, 4] [1/5, 3/10, 3/5] = .ok [1, -150/121, -40/121, 70/121] := by decide +kernel
example : ∑ k : Fin 3, (![1/5, 3/10, 3/5] : Fin 3 → ℚ) k ≠ 0 := by simp [Fin.sum_univ_succ]; norm_num
example : normalizeRows [[1, 2, 3], [1, -1, 5]] = [[1/6, 1/3, 1/2], [1/5, -1/5, 1]] := by decide +kernel
example : ∀ r ∈ [[(1 : ℚ), 2, 3], [1, -1, 5]], r.sum ≠ 0 := by norm_num

end PorepyVerif.C42
