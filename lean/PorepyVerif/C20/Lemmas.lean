/-
C20 — helper lemmas, generic over a linearly ordered field `K` (ℚ for the driver and the examples, ℝ for the
statements with the true square root): vector algebra in K³, rotations (RᵀR = 1, det R = 1) commute with cross
products and preserve dot products, sums / means / weighted means commute with rigid motions, `argmax` only sees
the keys; the Rodrigues matrix of `rotation_matrix` / `project_plane_matrix`; `Real.sqrt` facts.
-/
import Mathlib.Tactic.Ring
import Mathlib.Tactic.LinearCombination
import Mathlib.Tactic.FieldSimp
import Mathlib.Algebra.Order.Field.Rat
import Mathlib.Tactic.Linarith
import Mathlib.Analysis.Real.Sqrt
import PorepyVerif.C20.Model

namespace PorepyVerif.C20
open V3

set_option linter.unusedSectionVars false

variable {K : Type} [Field K] [LinearOrder K] [IsStrictOrderedRing K]

theorem V3.ext' {a b : V3 K} (hx : a.x = b.x) (hy : a.y = b.y) (hz : a.z = b.z) : a = b := by
  cases a; cases b; simp_all

/-- unfold everything down to coordinates and close by `ring` -/
macro "v3" : tactic =>
  `(tactic| (apply V3.ext' <;>
    simp only [act, rot, Mat3.mulVec, V3.add, V3.sub, V3.neg, V3.smul, V3.dot, V3.cross, V3.zero, V3.norm2] <;>
    push_cast <;> ring))

/-! ### linearity of `rot`, affinity of `act` (no hypothesis on the matrix) -/

theorem rot_zero (M : Motion K) : rot M zero = zero := by v3
theorem rot_add (M : Motion K) (a b : V3 K) : rot M (add a b) = add (rot M a) (rot M b) := by v3
theorem rot_sub (M : Motion K) (a b : V3 K) : rot M (sub a b) = sub (rot M a) (rot M b) := by v3
theorem rot_neg (M : Motion K) (a : V3 K) : rot M (neg a) = neg (rot M a) := by v3
theorem rot_smul (M : Motion K) (c : K) (a : V3 K) : rot M (smul c a) = smul c (rot M a) := by v3
theorem act_sub_act (M : Motion K) (a b : V3 K) : sub (act M a) (act M b) = rot M (sub a b) := by v3
theorem act_add_rot (M : Motion K) (a v : V3 K) : add (act M a) (rot M v) = act M (add a v) := by v3
theorem midpoint_act (M : Motion K) (a b : V3 K) :
    smul (((1 : Nat) : K) / ((2 : Nat) : K)) (add (act M a) (act M b)) = act M (smul (((1 : Nat) : K) / ((2 : Nat) : K)) (add a b)) := by v3
theorem third_act (M : Motion K) (t f : V3 K) :
    smul (((1 : Nat) : K) / ((3 : Nat) : K)) (add (act M t) (smul ((2 : Nat) : K) (act M f))) = act M (smul (((1 : Nat) : K) / ((3 : Nat) : K)) (add t (smul ((2 : Nat) : K) f))) := by v3
theorem third3_act (M : Motion K) (p q c : V3 K) :
    smul (((1 : Nat) : K) / ((3 : Nat) : K)) (add (add (act M p) (act M q)) (act M c)) = act M (smul (((1 : Nat) : K) / ((3 : Nat) : K)) (add (add p q) c)) := by v3

/-! ### rotations -/

theorem dot_rot (M : Motion K) (h : M.R.IsRot) (a b : V3 K) : dot (rot M a) (rot M b) = dot a b := by
  obtain ⟨⟨⟨a11, a12, a13⟩, ⟨a21, a22, a23⟩, ⟨a31, a32, a33⟩⟩, t⟩ := M
  obtain ⟨h11, h22, h33, h12, h13, h23, -⟩ := h
  simp only [Mat3.c1, Mat3.c2, Mat3.c3, V3.dot] at h11 h22 h33 h12 h13 h23
  simp only [rot, Mat3.mulVec, V3.dot]
  linear_combination (a.x * b.x) * h11 + (a.y * b.y) * h22 + (a.z * b.z) * h33
    + (a.x * b.y + a.y * b.x) * h12 + (a.x * b.z + a.z * b.x) * h13 + (a.y * b.z + a.z * b.y) * h23

theorem norm2_rot (M : Motion K) (h : M.R.IsRot) (a : V3 K) : norm2 (rot M a) = norm2 a := dot_rot M h a a

/-- rows of a rotation: `r₂ × r₃ = r₁`, `r₃ × r₁ = r₂`, `r₁ × r₂ = r₃` (cofactor matrix = matrix) -/
theorem rows_cross (R : Mat3 K) (h : R.IsRot) :
    cross R.r2 R.r3 = R.r1 ∧ cross R.r3 R.r1 = R.r2 ∧ cross R.r1 R.r2 = R.r3 := by
  obtain ⟨⟨a11, a12, a13⟩, ⟨a21, a22, a23⟩, ⟨a31, a32, a33⟩⟩ := R
  obtain ⟨h11, h22, h33, h12, h13, h23, hd⟩ := h
  simp only [Mat3.c1, Mat3.c2, Mat3.c3, Mat3.det, V3.dot, V3.cross] at h11 h22 h33 h12 h13 h23 hd
  refine ⟨?_, ?_, ?_⟩ <;> apply V3.ext' <;> simp only [V3.cross]
  · linear_combination a11 * hd - (a22 * a33 - a23 * a32) * h11 - (a23 * a31 - a21 * a33) * h12 - (a21 * a32 - a22 * a31) * h13
  · linear_combination a12 * hd - (a22 * a33 - a23 * a32) * h12 - (a23 * a31 - a21 * a33) * h22 - (a21 * a32 - a22 * a31) * h23
  · linear_combination a13 * hd - (a22 * a33 - a23 * a32) * h13 - (a23 * a31 - a21 * a33) * h23 - (a21 * a32 - a22 * a31) * h33
  · linear_combination a21 * hd - (a32 * a13 - a33 * a12) * h11 - (a33 * a11 - a31 * a13) * h12 - (a31 * a12 - a32 * a11) * h13
  · linear_combination a22 * hd - (a32 * a13 - a33 * a12) * h12 - (a33 * a11 - a31 * a13) * h22 - (a31 * a12 - a32 * a11) * h23
  · linear_combination a23 * hd - (a32 * a13 - a33 * a12) * h13 - (a33 * a11 - a31 * a13) * h23 - (a31 * a12 - a32 * a11) * h33
  · linear_combination a31 * hd - (a12 * a23 - a13 * a22) * h11 - (a13 * a21 - a11 * a23) * h12 - (a11 * a22 - a12 * a21) * h13
  · linear_combination a32 * hd - (a12 * a23 - a13 * a22) * h12 - (a13 * a21 - a11 * a23) * h22 - (a11 * a22 - a12 * a21) * h23
  · linear_combination a33 * hd - (a12 * a23 - a13 * a22) * h13 - (a13 * a21 - a11 * a23) * h23 - (a11 * a22 - a12 * a21) * h33

/-- for every matrix: `R a × R b = cof(R) (a × b)`, the rows of `cof(R)` being `r₂×r₃, r₃×r₁, r₁×r₂` -/
theorem cross_mulVec (R : Mat3 K) (a b : V3 K) :
    cross (R.mulVec a) (R.mulVec b) =
      ⟨dot (cross R.r2 R.r3) (cross a b), dot (cross R.r3 R.r1) (cross a b), dot (cross R.r1 R.r2) (cross a b)⟩ := by
  apply V3.ext' <;> simp only [Mat3.mulVec, V3.dot, V3.cross] <;> ring

theorem cross_rot (M : Motion K) (h : M.R.IsRot) (a b : V3 K) : cross (rot M a) (rot M b) = rot M (cross a b) := by
  obtain ⟨h1, h2, h3⟩ := rows_cross M.R h
  show cross (M.R.mulVec a) (M.R.mulVec b) = M.R.mulVec (cross a b)
  rw [cross_mulVec, h1, h2, h3]
  rfl

theorem quatMat_isRot (w x y z : K) (h : w * w + x * x + y * y + z * z ≠ 0) : (quatMat w x y z).IsRot := by
  simp only [Mat3.IsRot, quatMat, Mat3.c1, Mat3.c2, Mat3.c3, Mat3.det, V3.dot, V3.cross]
  generalize hn : w * w + x * x + y * y + z * z = n at h ⊢
  refine ⟨?_, ?_, ?_, ?_, ?_, ?_, ?_⟩ <;> field_simp <;> subst hn <;> ring

/-! ### sums and means -/

theorem vsum_map_rot (M : Motion K) (l : List (V3 K)) : vsum (l.map (rot M)) = rot M (vsum l) := by
  induction l with
  | nil => simp only [List.map_nil, vsum, rot_zero]
  | cons a l ih => simp only [List.map_cons, vsum, ih, rot_add]

theorem vsum_map_rot' {α : Type} (M : Motion K) (f : α → V3 K) (l : List α) :
    vsum (l.map fun e => rot M (f e)) = rot M (vsum (l.map f)) := by
  rw [← vsum_map_rot, List.map_map]; rfl

/-- weighted sums of moved points -/
theorem wsum_act {α : Type} (M : Motion K) (w : α → K) (p : α → V3 K) (l : List α) :
    vsum (l.map fun e => smul (w e) (act M (p e))) =
      add (rot M (vsum (l.map fun e => smul (w e) (p e)))) (smul (rsum (l.map w)) M.t) := by
  induction l with
  | nil => simp only [List.map_nil, vsum, rsum]; v3
  | cons a l ih => simp only [List.map_cons, vsum, rsum, ih]; v3

theorem rsum_map_one {α : Type} (l : List α) : rsum (l.map fun _ => ((1 : Nat) : K)) = (l.length : K) := by
  induction l with
  | nil => simp [rsum]
  | cons a l ih => simp only [List.map_cons, rsum, ih, List.length_cons]; push_cast; ring

theorem vsum_map_act {α : Type} (M : Motion K) (p : α → V3 K) (l : List α) :
    vsum (l.map fun e => act M (p e)) = add (rot M (vsum (l.map p))) (smul (l.length : K) M.t) := by
  have h := wsum_act M (fun _ => ((1 : Nat) : K)) p l
  have e1 : ∀ v : V3 K, smul ((1 : Nat) : K) v = v := fun v => by v3
  simp only [e1, rsum_map_one] at h
  exact h

/-- dividing an affine combination by its total weight -/
theorem smul_inv_affine (M : Motion K) (W : K) (hW : W ≠ 0) (S : V3 K) :
    smul (((1 : Nat) : K) / W) (add (rot M S) (smul W M.t)) = act M (smul (((1 : Nat) : K) / W) S) := by
  apply V3.ext' <;>
    simp only [act, rot, Mat3.mulVec, V3.add, V3.smul, V3.dot] <;> field_simp <;> push_cast <;> ring

theorem length_cast_ne_zero {α : Type} (l : List α) (h : l ≠ []) : (l.length : K) ≠ 0 := by
  have : 0 < l.length := List.length_pos_of_ne_nil h
  exact_mod_cast this.ne'

theorem mean_map_act {α : Type} (M : Motion K) (p : α → V3 K) (l : List α) (h : l ≠ []) :
    mean (l.map fun e => act M (p e)) = act M (mean (l.map p)) := by
  unfold mean
  rw [vsum_map_act, List.length_map, List.length_map, smul_inv_affine M _ (length_cast_ne_zero l h)]

theorem mean_act (M : Motion K) (l : List (V3 K)) (h : l ≠ []) : mean (l.map (act M)) = act M (mean l) := by
  have := mean_map_act M (fun p => p) l h
  simpa using this

/-- `centroid_equivariant`: weighted averages with the same weights move with the points -/
theorem wavg_act (M : Motion K) (l : List (K × V3 K)) (hW : rsum (l.map (·.1)) ≠ 0) :
    wavg (l.map fun p => (p.1, act M p.2)) = act M (wavg l) := by
  unfold wavg
  simp only [List.map_map, Function.comp_def]
  rw [wsum_act M (fun p : K × V3 K => p.1) (fun p => p.2) l, smul_inv_affine M _ hW]

/-! ### getD, argmax, normalisation -/

theorem getD_map_rot (M : Motion K) (l : List (V3 K)) (i : Nat) :
    (l.map (rot M)).getD i zero = rot M (l.getD i zero) := by
  induction l generalizing i with
  | nil => simp [rot_zero]
  | cons a l ih =>
    cases i with
    | zero => simp only [List.map_cons, List.getD_cons_zero]
    | succ n => simp only [List.map_cons, List.getD_cons_succ, ih]

theorem nrm_rot (sq : K → K) (M : Motion K) (h : M.R.IsRot) (u : V3 K) : nrm sq (rot M u) = nrm sq u := by
  simp only [nrm, norm2_rot M h]

theorem normalize_rot (sq : K → K) (M : Motion K) (h : M.R.IsRot) (u : V3 K) :
    normalize sq (rot M u) = rot M (normalize sq u) := by
  simp only [normalize, nrm_rot sq M h, rot_smul]

theorem map_nrm_rot (sq : K → K) (M : Motion K) (h : M.R.IsRot) (l : List (V3 K)) :
    (l.map (rot M)).map (nrm sq) = l.map (nrm sq) := by
  simp only [List.map_map, Function.comp_def, nrm_rot sq M h]

theorem map_norm2_rot (M : Motion K) (h : M.R.IsRot) (l : List (V3 K)) :
    (l.map (rot M)).map norm2 = l.map norm2 := by
  simp only [List.map_map, Function.comp_def, norm2_rot M h]

/-! ### compute_tangent / compute_normal -/

theorem centred_act (M : Motion K) (pts : List (V3 K)) (h : pts ≠ []) :
    centred (pts.map (act M)) = (centred pts).map (rot M) := by
  simp only [centred, mean_act M pts h, List.map_map, Function.comp_def, subFrom, act_sub_act]

theorem tangent_act (sq : K → K) (M : Motion K) (hM : M.R.IsRot) (pts : List (V3 K)) (h : pts ≠ []) :
    tangent sq (pts.map (act M)) = rot M (tangent sq pts) := by
  simp only [tangent, tangentRaw, centred_act M pts h, map_norm2_rot M hM, getD_map_rot, normalize_rot sq M hM]

theorem pnI1_act (sq : K → K) (M : Motion K) (hM : M.R.IsRot) (pts : List (V3 K)) (h : pts ≠ []) :
    pnI1 sq (pts.map (act M)) = pnI1 sq pts := by
  simp only [pnI1, centred_act M pts h, map_nrm_rot sq M hM]

theorem pnV1_act (sq : K → K) (M : Motion K) (hM : M.R.IsRot) (pts : List (V3 K)) (h : pts ≠ []) :
    pnV1 sq (pts.map (act M)) = rot M (pnV1 sq pts) := by
  simp only [pnV1, pnI1_act sq M hM pts h, centred_act M pts h, getD_map_rot]

theorem pnCross_act (sq : K → K) (M : Motion K) (hM : M.R.IsRot) (pts : List (V3 K)) (h : pts ≠ []) :
    pnCross sq (pts.map (act M)) = (pnCross sq pts).map (rot M) := by
  simp only [pnCross, pnV1_act sq M hM pts h, centred_act M pts h, List.map_map, Function.comp_def, cross_rot M hM]

theorem pnIc_act (sq : K → K) (M : Motion K) (hM : M.R.IsRot) (pts : List (V3 K)) (h : pts ≠ []) :
    pnIc sq (pts.map (act M)) = pnIc sq pts := by
  simp only [pnIc, pnCross_act sq M hM pts h, map_nrm_rot sq M hM]

theorem pnRaw_act (sq : K → K) (M : Motion K) (hM : M.R.IsRot) (pts : List (V3 K)) (h : pts ≠ []) :
    pnRaw sq (pts.map (act M)) = rot M (pnRaw sq pts) := by
  simp only [pnRaw, pnIc_act sq M hM pts h, pnCross_act sq M hM pts h, getD_map_rot]

theorem planeNormal_act (sq : K → K) (M : Motion K) (hM : M.R.IsRot) (pts : List (V3 K)) (h : pts ≠ []) :
    planeNormal sq (pts.map (act M)) = rot M (planeNormal sq pts) := by
  simp only [planeNormal, pnRaw_act sq M hM pts h, normalize_rot sq M hM]


/-! ### 1-D -/

theorem cellCen1_move (M : Motion K) (c : Inc1 K × Inc1 K) :
    cellCen1 (c.1.move M, c.2.move M) = act M (cellCen1 c) := by
  simp only [cellCen1, Inc1.move, midpoint_act]

theorem cellVol1_move (sq : K → K) (M : Motion K) (hM : M.R.IsRot) (c : Inc1 K × Inc1 K) :
    cellVol1 sq (c.1.move M, c.2.move M) = cellVol1 sq c := by
  simp only [cellVol1, Inc1.move, act_sub_act, nrm_rot sq M hM]

/-- motion of a listed incidence (with the centre of its cell) -/
def incMove1 (M : Motion K) (p : Inc1 K × V3 K) : Inc1 K × V3 K := (p.1.move M, act M p.2)

theorem incs1_move (M : Motion K) (cells : List (Inc1 K × Inc1 K)) :
    incs1 (cells.map fun c => (c.1.move M, c.2.move M)) = (incs1 cells).map (incMove1 M) := by
  induction cells with
  | nil => rfl
  | cons c l ih => simp only [List.map_cons, incs1, ih, cellCen1_move, incMove1]

theorem firstInc1_move (M : Motion K) (f : Nat) (l : List (Inc1 K × V3 K)) :
    firstInc1 f (l.map (incMove1 M)) = (firstInc1 f l).map (incMove1 M) := by
  induction l with
  | nil => rfl
  | cons e l ih =>
    simp only [List.map_cons, firstInc1]
    have hface : (incMove1 M e).1.face = e.1.face := rfl
    rw [hface]
    by_cases hf : e.1.face = f
    · rw [if_pos hf, if_pos hf]; rfl
    · rw [if_neg hf, if_neg hf, ih]

theorem flip1_move (sq : K → K) (M : Motion K) (hM : M.R.IsRot) (t : V3 K) (sgn : Int) (fc cc : V3 K) :
    flip1 sq (rot M t) sgn (act M fc) (act M cc) = flip1 sq t sgn fc cc := by
  simp only [flip1, act_sub_act, nrm_rot sq M hM, ← rot_smul, ← rot_add]

theorem faceNormal1_move (sq : K → K) (M : Motion K) (hM : M.R.IsRot) (t : V3 K) (incs : List (Inc1 K × V3 K)) (f : Nat) :
    faceNormal1 sq (rot M t) (incs.map (incMove1 M)) f = rot M (faceNormal1 sq t incs f) := by
  simp only [faceNormal1, firstInc1_move]
  cases firstInc1 f incs with
  | none => rfl
  | some e =>
    simp only [Option.map_some, incMove1, Inc1.move, flip1_move sq M hM]
    split
    · rw [rot_neg]
    · rfl

theorem geom1_move (sq : K → K) (M : Motion K) (hM : M.R.IsRot) (g : Grid1 K) (h : g.nodes ≠ []) :
    geom1 sq (g.move M) = (geom1 sq g).move M := by
  simp only [geom1, Grid1.move, Out.move, tangent_act sq M hM g.nodes h, incs1_move, List.length_map,
    List.map_map, Function.comp_def, cellVol1_move sq M hM, cellCen1_move]
  rw [show faceNormal1 sq (rot M (tangent sq g.nodes)) (List.map (incMove1 M) (incs1 g.cells)) =
        fun x => rot M (faceNormal1 sq (tangent sq g.nodes) (incs1 g.cells) x) from
      funext (faceNormal1_move sq M hM _ _)]

/-! ### 2-D: incidence level -/

theorem tang_move (M : Motion K) (e : Inc2 K) : tang (e.move M) = rot M (tang e) := by
  simp only [tang, Inc2.move, act_sub_act]

theorem fcen_move (M : Motion K) (e : Inc2 K) : fcen (e.move M) = act M (fcen e) := by
  simp only [fcen, Inc2.move, midpoint_act]

theorem tcc_eq_mean (c : List (Inc2 K)) : tcc c = mean (c.map fcen) := by
  simp only [tcc, mean, List.length_map]

theorem tcc_move (M : Motion K) (c : List (Inc2 K)) (h : c ≠ []) : tcc (c.map (Inc2.move M)) = act M (tcc c) := by
  rw [tcc_eq_mean, tcc_eq_mean, List.map_map]
  simp only [Function.comp_def, fcen_move]
  exact mean_map_act M fcen c h

theorem height_move (M : Motion K) (t : V3 K) (e : Inc2 K) : height (act M t) (e.move M) = rot M (height t e) := by
  simp only [height, fcen_move, act_sub_act]

theorem sgn_move (M : Motion K) (e : Inc2 K) : (e.move M).sgn = e.sgn := rfl
theorem face_move (M : Motion K) (e : Inc2 K) : (e.move M).face = e.face := rfl
theorem n0_move (M : Motion K) (e : Inc2 K) : (e.move M).n0 = e.n0 := rfl
theorem n1_move (M : Motion K) (e : Inc2 K) : (e.move M).n1 = e.n1 := rfl

theorem ssn_move (M : Motion K) (hM : M.R.IsRot) (t : V3 K) (e : Inc2 K) :
    ssn (act M t) (e.move M) = rot M (ssn t e) := by
  simp only [ssn, height_move, tang_move, sgn_move, ← rot_smul, cross_rot M hM]

theorem subCentroid_move (M : Motion K) (t : V3 K) (e : Inc2 K) :
    subCentroid (act M t) (e.move M) = act M (subCentroid t e) := by
  simp only [subCentroid, fcen_move, third_act]

theorem nodeBalance_move (M : Motion K) (c : List (Inc2 K)) (n : Nat) :
    nodeBalance (c.map (Inc2.move M)) n = nodeBalance c n := by
  induction c with
  | nil => rfl
  | cons e l ih => simp only [List.map_cons, nodeBalance, ih]; rfl

theorem cellClosed_move (M : Motion K) (c : List (Inc2 K)) : cellClosed (c.map (Inc2.move M)) = cellClosed c := by
  simp only [cellClosed, List.all_map, Function.comp_def, nodeBalance_move]
  rfl

theorem check1_move (M : Motion K) (g : Grid2 K) : check1 (g.move M) = check1 g := by
  simp only [check1, Grid2.move, List.all_map, Function.comp_def, cellClosed_move]

theorem cellNsum_move (M : Motion K) (hM : M.R.IsRot) (c : List (Inc2 K)) (h : c ≠ []) :
    cellNsum (c.map (Inc2.move M)) = rot M (cellNsum c) := by
  simp only [cellNsum, tcc_move M c h, List.map_map, Function.comp_def, ssn_move M hM]
  exact vsum_map_rot' M _ c

theorem nsum_move (M : Motion K) (hM : M.R.IsRot) (g : Grid2 K) (hc : ∀ c ∈ g.cells, c ≠ []) :
    nsum (g.move M) = rot M (nsum g) := by
  simp only [nsum, Grid2.move, List.map_map, Function.comp_def]
  rw [List.map_congr_left (g := fun c => rot M (cellNsum c)) (fun c hmem => cellNsum_move M hM c (hc c hmem))]
  exact vsum_map_rot' M _ _

theorem faceArea2_move (sq : K → K) (M : Motion K) (hM : M.R.IsRot) (f : V3 K × V3 K) :
    faceArea2 sq (act M f.1, act M f.2) = faceArea2 sq f := by
  simp only [faceArea2, act_sub_act, nrm_rot sq M hM]

theorem meanArea_move (sq : K → K) (M : Motion K) (hM : M.R.IsRot) (g : Grid2 K) :
    meanArea sq (g.move M) = meanArea sq g := by
  simp only [meanArea, Grid2.move, List.map_map, Function.comp_def, faceArea2_move sq M hM, List.length_map]

theorem check2Fails_move (sq : K → K) (M : Motion K) (hM : M.R.IsRot) (g : Grid2 K) (hc : ∀ c ∈ g.cells, c ≠ []) :
    check2Fails sq (g.move M) = check2Fails sq g := by
  simp only [check2Fails, nsum_move M hM g hc, nrm_rot sq M hM, meanArea_move sq M hM]

theorem normalOriented_move (sq : K → K) (M : Motion K) (hM : M.R.IsRot) (g : Grid2 K) (hc : ∀ c ∈ g.cells, c ≠ []) :
    normalOriented sq (g.move M) = normalOriented sq g := by
  simp only [normalOriented, check1_move, check2Fails_move sq M hM g hc]

theorem nhat_move (sq : K → K) (M : Motion K) (hM : M.R.IsRot) (g : Grid2 K) (hn : g.nodes ≠ [])
    (hc : ∀ c ∈ g.cells, c ≠ []) : nhat sq (g.move M) = rot M (nhat sq g) := by
  simp only [nhat, normalOriented_move sq M hM g hc, nsum_move M hM g hc, normalize_rot sq M hM]
  split
  · rfl
  · exact planeNormal_act sq M hM g.nodes hn


/-! ### 2-D: cell and grid level -/

theorem all_congr_mem {α : Type} (l : List α) (p q : α → Bool) (h : ∀ a ∈ l, p a = q a) : l.all p = l.all q := by
  induction l with
  | nil => rfl
  | cons a l ih =>
    simp only [List.all_cons, h a List.mem_cons_self, ih (fun b hb => h b (List.mem_cons_of_mem _ hb))]

theorem ssvO_move (M : Motion K) (hM : M.R.IsRot) (nh t : V3 K) (e : Inc2 K) :
    ssvO (rot M nh) (act M t) (e.move M) = ssvO nh t e := by
  simp only [ssvO, ssn_move M hM, dot_rot M hM]

theorem volO_move (M : Motion K) (hM : M.R.IsRot) (nh : V3 K) (c : List (Inc2 K)) (h : c ≠ []) :
    volO (rot M nh) (c.map (Inc2.move M)) = volO nh c := by
  simp only [volO, tcc_move M c h, List.map_map, Function.comp_def, ssvO_move M hM]

theorem volOriented_move (M : Motion K) (hM : M.R.IsRot) (nh : V3 K) (g : Grid2 K) (hc : ∀ c ∈ g.cells, c ≠ []) :
    volOriented (rot M nh) (g.move M) = volOriented nh g := by
  simp only [volOriented, check1_move]
  congr 1
  simp only [Grid2.move, List.all_map, Function.comp_def]
  exact all_congr_mem _ _ _ (fun c hmem => by rw [volO_move M hM nh c (hc c hmem)])

theorem ssv_move (sq : K → K) (M : Motion K) (hM : M.R.IsRot) (vo : Bool) (nh t : V3 K) (e : Inc2 K) :
    ssv sq vo (rot M nh) (act M t) (e.move M) = ssv sq vo nh t e := by
  simp only [ssv, ssvO_move M hM, ssn_move M hM, nrm_rot sq M hM]

theorem vol2_move (sq : K → K) (M : Motion K) (hM : M.R.IsRot) (vo : Bool) (nh : V3 K) (c : List (Inc2 K)) (h : c ≠ []) :
    vol2 sq vo (rot M nh) (c.map (Inc2.move M)) = vol2 sq vo nh c := by
  simp only [vol2, tcc_move M c h, List.map_map, Function.comp_def, ssv_move sq M hM]

theorem cen2_move (sq : K → K) (M : Motion K) (hM : M.R.IsRot) (vo : Bool) (nh : V3 K) (c : List (Inc2 K)) (h : c ≠ [])
    (hV : vol2 sq vo nh c ≠ 0) :
    cen2 sq vo (rot M nh) (c.map (Inc2.move M)) = act M (cen2 sq vo nh c) := by
  unfold cen2
  rw [vol2_move sq M hM vo nh c h]
  simp only [tcc_move M c h, List.map_map, Function.comp_def, wcen, ssv_move sq M hM, subCentroid_move]
  rw [wsum_act M (fun e => ssv sq vo nh (tcc c) e) (fun e => subCentroid (tcc c) e) c]
  exact smul_inv_affine M (vol2 sq vo nh c) hV _

theorem flipInc_move (M : Motion K) (hM : M.R.IsRot) (nh t : V3 K) (e : Inc2 K) :
    flipInc (rot M nh) (act M t) (e.move M) = flipInc nh t e := by
  simp only [flipInc, height_move, tang_move, sgn_move, cross_rot M hM, dot_rot M hM]

theorem cellFlips_move (M : Motion K) (hM : M.R.IsRot) (nh : V3 K) (c : List (Inc2 K)) (h : c ≠ []) :
    cellFlips (rot M nh) (c.map (Inc2.move M)) = cellFlips nh c := by
  simp only [cellFlips, tcc_move M c h, List.filter_map, List.map_map, Function.comp_def, flipInc_move M hM, face_move]

theorem flips_move (M : Motion K) (hM : M.R.IsRot) (nh : V3 K) (cells : List (List (Inc2 K))) (hc : ∀ c ∈ cells, c ≠ []) :
    flips (rot M nh) (cells.map fun c => c.map (Inc2.move M)) = flips nh cells := by
  induction cells with
  | nil => rfl
  | cons c l ih =>
    simp only [List.map_cons, flips, cellFlips_move M hM nh c (hc c List.mem_cons_self),
      ih (fun b hb => hc b (List.mem_cons_of_mem _ hb))]

theorem faceNormal2_move (M : Motion K) (hM : M.R.IsRot) (nh : V3 K) (fl : List Nat) (p : Nat × (V3 K × V3 K)) :
    faceNormal2 (rot M nh) fl (p.1, (act M p.2.1, act M p.2.2)) = rot M (faceNormal2 nh fl p) := by
  simp only [faceNormal2, act_sub_act, cross_rot M hM]
  split
  · rw [rot_neg]
  · rfl

theorem faceCen2_move (M : Motion K) (f : V3 K × V3 K) : faceCen2 (act M f.1, act M f.2) = act M (faceCen2 f) := by
  simp only [faceCen2, midpoint_act]

theorem zipIdx_map {α β : Type} (f : α → β) (l : List α) : zipIdx (l.map f) = (zipIdx l).map (Prod.map id f) := by
  simp only [zipIdx, List.length_map, List.zip_map_right]

theorem geom2_move (sq : K → K) (M : Motion K) (hM : M.R.IsRot) (g : Grid2 K) (hn : g.nodes ≠ [])
    (hc : ∀ c ∈ g.cells, c ≠ []) (hv : ∀ v ∈ (geom2 sq g).cv, v ≠ 0) :
    geom2 sq (g.move M) = (geom2 sq g).move M := by
  have hnh := nhat_move sq M hM g hn hc
  have hvo := volOriented_move M hM (nhat sq g) g hc
  have hfl : flips (rot M (nhat sq g)) (g.move M).cells = flips (nhat sq g) g.cells := flips_move M hM _ g.cells hc
  simp only [geom2, Out.move, hnh, hvo, hfl]
  have hcells : (g.move M).cells = g.cells.map (fun c => c.map (Inc2.move M)) := rfl
  have hfaces : (g.move M).faces = g.faces.map (fun f => (act M f.1, act M f.2)) := rfl
  rw [hcells, hfaces]
  congr 1
  · simp only [List.map_map, Function.comp_def, faceArea2_move sq M hM]
  · simp only [List.map_map, Function.comp_def, faceCen2_move]
  · rw [zipIdx_map, List.map_map, List.map_map]
    apply List.map_congr_left
    intro p _
    exact faceNormal2_move M hM _ _ p
  · rw [List.map_map]
    apply List.map_congr_left
    intro c hmem
    exact vol2_move sq M hM _ _ c (hc c hmem)
  · rw [List.map_map, List.map_map]
    apply List.map_congr_left
    intro c hmem
    refine cen2_move sq M hM _ _ c (hc c hmem) (hv _ ?_)
    simp only [geom2]
    exact List.mem_map_of_mem hmem

/-! ### a polygon given by its vertex loop -/

theorem polyEdges_map {f : V3 K → V3 K} (vs : List (V3 K)) : polyEdges (vs.map f) = (polyEdges vs).map (Prod.map f f) := by
  cases vs with
  | nil => rfl
  | cons p l =>
    simp only [List.map_cons, polyEdges]
    rw [show List.map f l ++ [f p] = (l ++ [p]).map f by simp, ← List.map_cons, List.zip_map]

theorem polyIncs_map (M : Motion K) (vs : List (V3 K)) : polyIncs (vs.map (act M)) = (polyIncs vs).map (Inc2.move M) := by
  simp only [polyIncs, polyEdges_map, zipIdx_map, List.map_map, List.length_map]
  apply List.map_congr_left
  intro p _
  rfl

theorem polyGrid_move (M : Motion K) (vs : List (V3 K)) : polyGrid (vs.map (act M)) = (polyGrid vs).move M := by
  simp only [polyGrid, Grid2.move, polyEdges_map, polyIncs_map, List.map_cons, List.map_nil]
  rfl

theorem polyIncs_ne_nil (vs : List (V3 K)) (h : vs ≠ []) : polyIncs vs ≠ [] := by
  cases vs with
  | nil => exact absurd rfl h
  | cons p l =>
    intro hnil
    have := congrArg List.length hnil
    simp [polyIncs, polyEdges, zipIdx] at this


/-! ### 3-D: faces -/

theorem nextOf_map {f : V3 K → V3 K} (ps : List (V3 K)) : nextOf (ps.map f) = (nextOf ps).map f := by
  cases ps with
  | nil => rfl
  | cons p l => simp only [List.map_cons, nextOf, List.map_append, List.map_nil]

theorem loopEdges_map {f : V3 K → V3 K} (ps : List (V3 K)) : loopEdges (ps.map f) = (loopEdges ps).map (Prod.map f f) := by
  simp only [loopEdges, nextOf_map, List.zip_map]

theorem subNormal_move (M : Motion K) (hM : M.R.IsRot) (c : V3 K) (e : V3 K × V3 K) :
    subNormal (act M c) (Prod.map (act M) (act M) e) = rot M (subNormal c e) := by
  simp only [subNormal, Prod.map_fst, Prod.map_snd, act_sub_act, cross_rot M hM, rot_smul]

theorem subCentroid3_move (M : Motion K) (c : V3 K) (e : V3 K × V3 K) :
    subCentroid3 (act M c) (Prod.map (act M) (act M) e) = act M (subCentroid3 c e) := by
  simp only [subCentroid3, Prod.map_fst, Prod.map_snd, third3_act]

theorem subNormals_move (M : Motion K) (hM : M.R.IsRot) (ps : List (V3 K)) (h : ps ≠ []) :
    subNormals (ps.map (act M)) = (subNormals ps).map (rot M) := by
  simp only [subNormals, mean_act M ps h, loopEdges_map, List.map_map, Function.comp_def, subNormal_move M hM]

theorem faceNormal3_move (M : Motion K) (hM : M.R.IsRot) (ps : List (V3 K)) (h : ps ≠ []) :
    faceNormal3 (ps.map (act M)) = rot M (faceNormal3 ps) := by
  simp only [faceNormal3, subNormals_move M hM ps h, vsum_map_rot]

theorem subW_move (sq : K → K) (M : Motion K) (hM : M.R.IsRot) (c : V3 K) (e : V3 K × V3 K) :
    subW sq (act M c) (Prod.map (act M) (act M) e) = ((subW sq c e).1, act M (subW sq c e).2) := by
  simp only [subW, subNormal_move M hM, nrm_rot sq M hM, subCentroid3_move]

theorem subTris_move (sq : K → K) (M : Motion K) (hM : M.R.IsRot) (ps : List (V3 K)) (h : ps ≠ []) :
    subTris sq (ps.map (act M)) = (subTris sq ps).map (fun p => (p.1, act M p.2)) := by
  simp only [subTris, mean_act M ps h, loopEdges_map, List.map_map, Function.comp_def, subW_move sq M hM]

theorem faceArea3_move (sq : K → K) (M : Motion K) (hM : M.R.IsRot) (ps : List (V3 K)) (h : ps ≠ []) :
    faceArea3 sq (ps.map (act M)) = faceArea3 sq ps := by
  simp only [faceArea3, subTris_move sq M hM ps h, List.map_map, Function.comp_def]

theorem faceCentre3_move (sq : K → K) (M : Motion K) (hM : M.R.IsRot) (ps : List (V3 K)) (h : ps ≠ [])
    (hA : faceArea3 sq ps ≠ 0) : faceCentre3 sq (ps.map (act M)) = act M (faceCentre3 sq ps) := by
  simp only [faceCentre3, subTris_move sq M hM ps h]
  exact wavg_act M _ hA

/-! ### 3-D: cells -/

/-- motion of a sub-tetrahedron base -/
def Edge3.move (M : Motion K) (e : Edge3 K) : Edge3 K := ⟨act M e.fc, act M e.sc, rot M e.outer⟩

theorem mkEdge_move (M : Motion K) (hM : M.R.IsRot) (fc fnm c : V3 K) (o : Int) (e : V3 K × V3 K) :
    mkEdge (act M fc) (rot M fnm) (act M c) o (Prod.map (act M) (act M) e) = (mkEdge fc fnm c o e).move M := by
  simp only [mkEdge, Edge3.move, subCentroid3_move, subNormal_move M hM, dot_rot M hM, rot_smul]

theorem faceEdges_move (sq : K → K) (M : Motion K) (hM : M.R.IsRot) (f : Int × List (V3 K)) (h : f.2 ≠ [])
    (hA : faceArea3 sq f.2 ≠ 0) : faceEdges sq (face3Move M f) = (faceEdges sq f).map (Edge3.move M) := by
  simp only [faceEdges, face3Move, loopEdges_map, List.map_map, Function.comp_def,
    faceCentre3_move sq M hM f.2 h hA, faceNormal3_move M hM f.2 h, mean_act M f.2 h, mkEdge_move M hM]

theorem cellEdges_move (sq : K → K) (M : Motion K) (hM : M.R.IsRot) (c : Cell3 K)
    (hf : ∀ f ∈ c, f.2 ≠ [] ∧ faceArea3 sq f.2 ≠ 0) :
    cellEdges sq (Cell3.move M c) = (cellEdges sq c).map (Edge3.move M) := by
  induction c with
  | nil => rfl
  | cons f l ih =>
    have h1 := hf f List.mem_cons_self
    simp only [Cell3.move, List.map_cons, cellEdges, List.map_append, faceEdges_move sq M hM f h1.1 h1.2]
    congr 1
    exact ih (fun b hb => hf b (List.mem_cons_of_mem _ hb))

theorem tcc3_eq_mean (es : List (Edge3 K)) : tcc3 es = mean (es.map (·.fc)) := by
  simp only [tcc3, mean, List.length_map]

theorem tcc3_move (M : Motion K) (es : List (Edge3 K)) (h : es ≠ []) : tcc3 (es.map (Edge3.move M)) = act M (tcc3 es) := by
  rw [tcc3_eq_mean, tcc3_eq_mean, List.map_map]
  rw [show List.map ((fun x => x.fc) ∘ Edge3.move M) es = es.map (fun e => act M e.fc) from
    List.map_congr_left (fun e _ => rfl)]
  exact mean_map_act M (fun e : Edge3 K => e.fc) es h

theorem dist3_move (M : Motion K) (t : V3 K) (e : Edge3 K) : dist3 (act M t) (e.move M) = rot M (dist3 t e) := by
  simp only [dist3, Edge3.move, act_sub_act]

theorem outer_move (M : Motion K) (e : Edge3 K) : (e.move M).outer = rot M e.outer := rfl

theorem tetVol_move (M : Motion K) (hM : M.R.IsRot) (t : V3 K) (e : Edge3 K) :
    tetVol (act M t) (e.move M) = tetVol t e := by
  simp only [tetVol, dist3_move, outer_move, dot_rot M hM]

theorem vol3_move (M : Motion K) (hM : M.R.IsRot) (es : List (Edge3 K)) (h : es ≠ []) :
    vol3 (es.map (Edge3.move M)) = vol3 es := by
  simp only [vol3, tcc3_move M es h, List.map_map, Function.comp_def, tetVol_move M hM]

theorem wtet_move (M : Motion K) (hM : M.R.IsRot) (t : V3 K) (e : Edge3 K) :
    wtet (act M t) (e.move M) = rot M (wtet t e) := by
  simp only [wtet, tetVol_move M hM, dist3_move, rot_smul]

theorem cen3_move (M : Motion K) (hM : M.R.IsRot) (es : List (Edge3 K)) (h : es ≠ []) :
    cen3 (es.map (Edge3.move M)) = act M (cen3 es) := by
  unfold cen3
  rw [vol3_move M hM es h, tcc3_move M es h]
  simp only [List.map_map, Function.comp_def, wtet_move M hM]
  rw [vsum_map_rot' M (wtet (tcc3 es)) es, ← rot_smul, act_add_rot]

theorem loopEdges_ne_nil (ps : List (V3 K)) (h : ps ≠ []) : loopEdges ps ≠ [] := by
  cases ps with
  | nil => exact absurd rfl h
  | cons p l =>
    intro hnil
    have := congrArg List.length hnil
    simp [loopEdges, nextOf] at this

theorem cellEdges_ne_nil (sq : K → K) (c : Cell3 K) (hc : c ≠ []) (hf : ∀ f ∈ c, f.2 ≠ []) : cellEdges sq c ≠ [] := by
  cases c with
  | nil => exact absurd rfl hc
  | cons f l =>
    intro hnil
    simp only [cellEdges, List.append_eq_nil_iff, faceEdges, List.map_eq_nil_iff] at hnil
    exact loopEdges_ne_nil f.2 (hf f List.mem_cons_self) hnil.1

theorem any_congr_mem {α : Type} (l : List α) (p q : α → Bool) (h : ∀ a ∈ l, p a = q a) : l.any p = l.any q := by
  induction l with
  | nil => rfl
  | cons a l ih =>
    simp only [List.any_cons, h a List.mem_cons_self, ih (fun b hb => h b (List.mem_cons_of_mem _ hb))]

theorem cellVol3_move (sq : K → K) (M : Motion K) (hM : M.R.IsRot) (c : Cell3 K) (hc : c ≠ [])
    (hf : ∀ f ∈ c, f.2 ≠ [] ∧ faceArea3 sq f.2 ≠ 0) : cellVol3 sq (Cell3.move M c) = cellVol3 sq c := by
  simp only [cellVol3, cellEdges_move sq M hM c hf]
  exact vol3_move M hM _ (cellEdges_ne_nil sq c hc (fun f hm => (hf f hm).1))

theorem cellCen3_move (sq : K → K) (M : Motion K) (hM : M.R.IsRot) (c : Cell3 K) (hc : c ≠ [])
    (hf : ∀ f ∈ c, f.2 ≠ [] ∧ faceArea3 sq f.2 ≠ 0) : cellCen3 sq (Cell3.move M c) = act M (cellCen3 sq c) := by
  simp only [cellCen3, cellEdges_move sq M hM c hf]
  exact cen3_move M hM _ (cellEdges_ne_nil sq c hc (fun f hm => (hf f hm).1))

theorem geom3_move (sq : K → K) (M : Motion K) (hM : M.R.IsRot) (g : Grid3 K)
    (hF : ∀ ps ∈ g.faces, ps ≠ [] ∧ faceArea3 sq ps ≠ 0)
    (hC : ∀ c ∈ g.cells, c ≠ [] ∧ ∀ f ∈ c, f.2 ≠ [] ∧ faceArea3 sq f.2 ≠ 0) :
    geom3 sq (g.move M) = (geom3 sq g).move M := by
  simp only [geom3, Grid3.move, Out.move, List.map_map]
  congr 1
  · exact List.map_congr_left (fun ps hm => faceArea3_move sq M hM ps (hF ps hm).1)
  · exact List.map_congr_left (fun ps hm => faceCentre3_move sq M hM ps (hF ps hm).1 (hF ps hm).2)
  · exact List.map_congr_left (fun ps hm => faceNormal3_move M hM ps (hF ps hm).1)
  · exact List.map_congr_left (fun c hm => cellVol3_move sq M hM c (hC c hm).1 (hC c hm).2)
  · exact List.map_congr_left (fun c hm => cellCen3_move sq M hM c (hC c hm).1 (hC c hm).2)

theorem cellTetVols_move (sq : K → K) (M : Motion K) (hM : M.R.IsRot) (c : Cell3 K) (hc : c ≠ [])
    (hf : ∀ f ∈ c, f.2 ≠ [] ∧ faceArea3 sq f.2 ≠ 0) : cellTetVols sq (Cell3.move M c) = cellTetVols sq c := by
  have hne := cellEdges_ne_nil sq c hc (fun f hm => (hf f hm).1)
  simp only [cellTetVols, cellEdges_move sq M hM c hf, tcc3_move M _ hne, List.map_map, Function.comp_def,
    tetVol_move M hM]

theorem allTetVols_move (sq : K → K) (M : Motion K) (hM : M.R.IsRot) (cells : List (Cell3 K))
    (hC : ∀ c ∈ cells, c ≠ [] ∧ ∀ f ∈ c, f.2 ≠ [] ∧ faceArea3 sq f.2 ≠ 0) :
    allTetVols sq (cells.map (Cell3.move M)) = allTetVols sq cells := by
  induction cells with
  | nil => rfl
  | cons c l ih =>
    have h1 := hC c List.mem_cons_self
    simp only [List.map_cons, allTetVols, cellTetVols_move sq M hM c h1.1 h1.2,
      ih (fun b hb => hC b (List.mem_cons_of_mem _ hb))]

theorem geom3Err_move (sq : K → K) (M : Motion K) (hM : M.R.IsRot) (g : Grid3 K)
    (hC : ∀ c ∈ g.cells, c ≠ [] ∧ ∀ f ∈ c, f.2 ≠ [] ∧ faceArea3 sq f.2 ≠ 0) :
    geom3Err sq (g.move M) = geom3Err sq g := by
  simp only [geom3Err, Grid3.move, allTetVols_move sq M hM g.cells hC]

/-! ### rotation_matrix / project_plane_matrix: the Rodrigues matrix -/

theorem Mat3.ext' {A B : Mat3 K} (h1 : A.r1 = B.r1) (h2 : A.r2 = B.r2) (h3 : A.r3 = B.r3) : A = B := by
  cases A; cases B; simp_all

/-- the entries of the Rodrigues matrix of `n = (a, b, c)` with `d = 1 / (1 + c)` -/
def rodEntries (a b _c d : K) : Mat3 K :=
  ⟨⟨1 - a * a * d, -(a * b * d), -a⟩, ⟨-(a * b * d), 1 - b * b * d, -b⟩, ⟨a, b, 1 - (a * a + b * b) * d⟩⟩

theorem cross_ez (n : V3 K) : cross n ez = ⟨n.y, -n.x, 0⟩ := by
  apply V3.ext' <;> simp only [cross, ez] <;> push_cast <;> ring

theorem dot_ez (n : V3 K) : dot n ez = n.z := by
  simp only [dot, ez]; push_cast; ring

theorem rodrigues_entries (n : V3 K) (d : K) (hd : d * (1 + n.z) = 1) :
    rodrigues n = rodEntries n.x n.y n.z d := by
  have hc : (1 : K) + n.z ≠ 0 := fun h => by rw [h, mul_zero] at hd; exact zero_ne_one hd
  have hd' : ((1 : Nat) : K) / (((1 : Nat) : K) + n.z) = d := by
    push_cast; rw [div_eq_iff hc]; exact hd.symm
  simp only [rodrigues, dot_ez, hd', cross_ez]
  apply Mat3.ext' <;> apply V3.ext' <;>
    simp only [rodEntries, Mat3.add, Mat3.smul, Mat3.mul, Mat3.one, skew, Mat3.c1, Mat3.c2, Mat3.c3, V3.add, V3.smul,
      V3.dot] <;> push_cast <;> ring

theorem rodEntries_isRot (a b c d : K) (hn : a * a + b * b + c * c = 1) (hd : d * (1 + c) = 1) :
    (rodEntries a b c d).IsRot := by
  simp only [Mat3.IsRot, rodEntries, Mat3.c1, Mat3.c2, Mat3.c3, Mat3.det, V3.dot, V3.cross]
  push_cast
  refine ⟨?_, ?_, ?_, ?_, ?_, ?_, ?_⟩
  · linear_combination (a^2*d^2 - c^2*d^2 + d^2 - 2*d + 1) * hn + (b^2*c*d - b^2*d + b^2 + c^3*d - c^2*d + c^2 - c*d + d - 1) * hd
  · linear_combination (b^2*d^2) * hn + (-b^2*c*d + b^2*d - b^2) * hd
  · linear_combination (a^2*d^2 + b^2*d^2 - c^2*d^2 + d^2 - 2*d + 1) * hn + (c^3*d - c^2*d + c^2 - c*d + d - 1) * hd
  · linear_combination (a*b*d^2) * hn + (-a*b*c*d + a*b*d - a*b) * hd
  · ring
  · ring
  · linear_combination (a^2*d^2 + b^2*d^2 - c^2*d^2 + d^2 - 2*d + 1) * hn + (c^3*d - c^2*d + c^2 - c*d + d - 1) * hd

theorem rodEntries_mulVec (a b c d : K) (hn : a * a + b * b + c * c = 1) (hd : d * (1 + c) = 1) :
    (rodEntries a b c d).mulVec ⟨a, b, c⟩ = ez := by
  apply V3.ext' <;> simp only [rodEntries, Mat3.mulVec, V3.dot, ez] <;> push_cast
  · linear_combination (-a*d) * hn + (a*c - a) * hd
  · linear_combination (-b*d) * hn + (b*c - b) * hd
  · linear_combination (-c*d + 1) * hn + (c^2 - c) * hd

/-- `I + ℓ W + (1 − c) W²` with `W = skew (m (b, −a, 0))`, `m ℓ = 1`, `ℓ² = a² + b²` is the Rodrigues matrix -/
theorem rot_core (a b c d l m : K) (hn : a * a + b * b + c * c = 1) (hd : d * (1 + c) = 1)
    (hl : l * l = a * a + b * b) (hm : m * l = 1) :
    Mat3.add (Mat3.add Mat3.one (Mat3.smul l (skew (smul m ⟨b, -a, 0⟩))))
      (Mat3.smul (1 - c) (Mat3.mul (skew (smul m ⟨b, -a, 0⟩)) (skew (smul m ⟨b, -a, 0⟩)))) = rodEntries a b c d := by
  have h1 : m * m * (l * l) = 1 := by linear_combination (m * l + 1) * hm
  have h2 : l * l = (1 - c) * (1 + c) := by linear_combination hl + hn
  have h3 : (1 - c) * (m * m) = d := by
    linear_combination (-(1 - c) * (m * m)) * hd + (-(d * m * m)) * h2 + d * h1
  apply Mat3.ext' <;> apply V3.ext' <;>
    simp only [rodEntries, Mat3.add, Mat3.smul, Mat3.mul, Mat3.one, skew, Mat3.c1, Mat3.c2, Mat3.c3, V3.add, V3.smul,
      V3.dot] <;> push_cast
  · linear_combination (-(a * a)) * h3
  · linear_combination (-(a * b)) * h3
  · linear_combination (-a) * hm
  · linear_combination (-(a * b)) * h3
  · linear_combination (-(b * b)) * h3
  · linear_combination (-b) * hm
  · linear_combination a * hm
  · linear_combination b * hm
  · linear_combination (-(a * a + b * b)) * h3


theorem isSmall_zero : isSmall (zero : V3 K) = true := by
  simp only [isSmall, zero, rabs]
  push_cast
  simp only [lt_self_iff_false, if_false]
  have : (0 : K) ≤ 1 / 100000000 := by positivity
  simp only [this, decide_true, Bool.and_self]

/-- the formula of `rotation_matrix` with `s = |v|`, `c = n·ref`, `v = n × ref ≠ 0` is the Rodrigues matrix -/
theorem rotationMatrix_eq_rodEntries (sq : K → K) (n : V3 K) (d s : K) (hn : dot n n = 1) (hd : d * (1 + n.z) = 1)
    (hsmall : isSmall (cross n ez) = false)
    (hl : nrm sq (cross n ez) * nrm sq (cross n ez) = norm2 (cross n ez)) (hl0 : nrm sq (cross n ez) ≠ 0)
    (hs : s = nrm sq (cross n ez)) :
    rotationMatrix sq s n.z (cross n ez) = rodEntries n.x n.y n.z d := by
  unfold rotationMatrix
  rw [hsmall]
  simp only [Bool.false_eq_true, if_false, normalize]
  subst hs
  rw [cross_ez] at hl hl0 ⊢
  have hn' : n.x * n.x + n.y * n.y + n.z * n.z = 1 := by simpa only [dot] using hn
  have hl' : nrm sq ⟨n.y, -n.x, 0⟩ * nrm sq ⟨n.y, -n.x, 0⟩ = n.x * n.x + n.y * n.y := by
    rw [hl]; simp only [norm2, dot]; ring
  have hm : (1 / nrm sq ⟨n.y, -n.x, 0⟩) * nrm sq ⟨n.y, -n.x, 0⟩ = 1 := by field_simp
  have := rot_core n.x n.y n.z d _ _ hn' hd hl' hm
  push_cast
  exact this

theorem norm2_ne_zero {v : V3 K} (h : v ≠ zero) : norm2 v ≠ 0 := by
  intro h0
  apply h
  simp only [norm2, dot] at h0
  have hx : v.x * v.x = 0 := by nlinarith [mul_self_nonneg v.x, mul_self_nonneg v.y, mul_self_nonneg v.z]
  have hy : v.y * v.y = 0 := by nlinarith [mul_self_nonneg v.x, mul_self_nonneg v.y, mul_self_nonneg v.z]
  have hz : v.z * v.z = 0 := by nlinarith [mul_self_nonneg v.x, mul_self_nonneg v.y, mul_self_nonneg v.z]
  apply V3.ext' <;> simp only [zero] <;> push_cast
  · exact mul_self_eq_zero.mp hx
  · exact mul_self_eq_zero.mp hy
  · exact mul_self_eq_zero.mp hz

theorem clip1_id (c : K) (h1 : -1 ≤ c) (h2 : c ≤ 1) : clip1 c = c := by
  simp only [clip1]; push_cast
  rw [if_neg (not_lt.mpr h1), if_neg (not_lt.mpr h2)]

theorem one_isRot : (Mat3.one : Mat3 K).IsRot := by
  simp only [Mat3.IsRot, Mat3.one, Mat3.c1, Mat3.c2, Mat3.c3, Mat3.det, V3.dot, V3.cross]
  push_cast
  refine ⟨?_, ?_, ?_, ?_, ?_, ?_, ?_⟩ <;> ring

/-! ### the real numbers with the true square root -/

theorem norm2_nonneg (v : V3 K) : 0 ≤ norm2 v := by
  simp only [norm2, dot]
  exact add_nonneg (add_nonneg (mul_self_nonneg _) (mul_self_nonneg _)) (mul_self_nonneg _)

theorem nrm_sqrt_mul_self (v : V3 ℝ) : nrm Real.sqrt v * nrm Real.sqrt v = norm2 v :=
  Real.mul_self_sqrt (norm2_nonneg v)

theorem nrm_sqrt_ne_zero {v : V3 ℝ} (h : v ≠ zero) : nrm Real.sqrt v ≠ 0 := by
  intro h0
  have := nrm_sqrt_mul_self v
  rw [h0, mul_zero] at this
  exact norm2_ne_zero h this.symm

theorem normalize_sqrt_unit {v : V3 ℝ} (h : v ≠ zero) : dot (normalize Real.sqrt v) (normalize Real.sqrt v) = 1 := by
  have h0 := nrm_sqrt_ne_zero h
  have hs := nrm_sqrt_mul_self v
  simp only [normalize, V3.smul, V3.dot, norm2] at hs ⊢
  push_cast
  field_simp
  linear_combination hs.symm

/-- `project_plane_matrix` / `project_line_matrix` over ℝ for a unit vector `n`: always a proper rotation; unless
    `n × ref` is numerically zero it is the Rodrigues matrix and takes `n` to the reference direction -/
theorem projectMatrix_sqrt (n : V3 ℝ) (hn : dot n n = 1) :
    (projectMatrix Real.sqrt n).IsRot ∧
      (isSmall (cross n ez) = false →
        projectMatrix Real.sqrt n = rodrigues n ∧ (projectMatrix Real.sqrt n).mulVec n = ez) := by
  have hn' : n.x * n.x + n.y * n.y + n.z * n.z = 1 := by simpa only [dot] using hn
  have hz1 : -1 ≤ n.z := by nlinarith [mul_self_nonneg n.x, mul_self_nonneg n.y, mul_self_nonneg (n.z + 1)]
  have hz2 : n.z ≤ 1 := by nlinarith [mul_self_nonneg n.x, mul_self_nonneg n.y, mul_self_nonneg (n.z - 1)]
  have hclip : clip1 (dot n ez) = n.z := by rw [dot_ez]; exact clip1_id _ hz1 hz2
  by_cases hsm : isSmall (cross n ez) = true
  · refine ⟨?_, fun h => by rw [hsm] at h; exact absurd h (by decide)⟩
    simp only [projectMatrix, hclip, rotationMatrix, hsm, if_true]
    exact one_isRot
  · have hsm' : isSmall (cross n ez) = false := by simpa using hsm
    have hv : cross n ez ≠ zero := fun h => by rw [h, isSmall_zero] at hsm'; exact absurd hsm' (by decide)
    have hl0 := nrm_sqrt_ne_zero hv
    have hl := nrm_sqrt_mul_self (cross n ez)
    have hnv : norm2 (cross n ez) = (1 - n.z) * (1 + n.z) := by
      rw [cross_ez]; simp only [norm2, dot]; linear_combination hn'
    have hc : (1 : ℝ) + n.z ≠ 0 := by
      intro h0
      have : norm2 (cross n ez) = 0 := by rw [hnv, h0, mul_zero]
      exact norm2_ne_zero hv this
    have hd : (1 / (1 + n.z)) * (1 + n.z) = 1 := by field_simp
    have hs : Real.sqrt (((1 : Nat) : ℝ) - n.z * n.z) = nrm Real.sqrt (cross n ez) := by
      simp only [nrm]; congr 1; rw [hnv]; push_cast; ring
    have hR : projectMatrix Real.sqrt n = rodEntries n.x n.y n.z (1 / (1 + n.z)) := by
      simp only [projectMatrix, hclip]
      exact rotationMatrix_eq_rodEntries Real.sqrt n _ _ hn hd hsm' hl hl0 hs
    have hrod := rodrigues_entries n (1 / (1 + n.z)) hd
    refine ⟨hR ▸ rodEntries_isRot _ _ _ _ hn' hd, fun _ => ⟨hR.trans hrod.symm, ?_⟩⟩
    rw [hR]
    exact rodEntries_mulVec _ _ _ _ hn' hd


/-! ### map_grid -/

/-- a rotation matrix as a motion without translation -/
def rotOnly (R : Mat3 K) : Motion K := ⟨R, zero⟩

theorem rot_rotOnly (R : Mat3 K) (v : V3 K) : rot (rotOnly R) v = R.mulVec v := rfl

theorem mulVec_sub (R : Mat3 K) (a b : V3 K) : sub (R.mulVec a) (R.mulVec b) = R.mulVec (sub a b) := by
  rw [← rot_rotOnly, ← rot_rotOnly, ← rot_rotOnly, rot_sub]

/-- a proper rotation preserves distances and dot products -/
theorem mulVec_isometry (R : Mat3 K) (hR : R.IsRot) (p q : V3 K) :
    norm2 (sub (R.mulVec p) (R.mulVec q)) = norm2 (sub p q) ∧ dot (R.mulVec p) (R.mulVec q) = dot p q := by
  refine ⟨?_, dot_rot (rotOnly R) hR p q⟩
  rw [mulVec_sub]
  exact norm2_rot (rotOnly R) hR _

/-- if `R n = ref` then points whose difference is orthogonal to `n` get the same third local coordinate -/
theorem mulVec_flat (R : Mat3 K) (hR : R.IsRot) (n p q : V3 K) (hRn : R.mulVec n = ez) (h : dot n (sub p q) = 0) :
    (R.mulVec p).z = (R.mulVec q).z := by
  have h1 : dot (R.mulVec n) (R.mulVec (sub p q)) = 0 := by rw [(mulVec_isometry R hR _ _).2, h]
  rw [hRn, ← mulVec_sub] at h1
  simp only [dot, ez, V3.sub] at h1
  push_cast at h1
  linarith

theorem rot_ne_zero (M : Motion K) (hM : M.R.IsRot) {v : V3 K} (h : v ≠ zero) : rot M v ≠ zero := by
  intro h0
  have : norm2 (rot M v) = 0 := by rw [h0]; simp only [norm2, dot, zero]; push_cast; ring
  rw [norm2_rot M hM] at this
  exact norm2_ne_zero h this

theorem tangentRaw_act (M : Motion K) (hM : M.R.IsRot) (pts : List (V3 K)) (h : pts ≠ []) :
    tangentRaw (pts.map (act M)) = rot M (tangentRaw pts) := by
  simp only [tangentRaw, centred_act M pts h, map_norm2_rot M hM, getD_map_rot]

/-- the rotation chosen by `map_grid` over ℝ is proper as soon as the fitted normal / tangent is not zero -/
theorem mapGrid_isRot (dim : Nat) (nodes : List (V3 ℝ)) (o : Out ℝ)
    (h2 : dim = 2 → pnRaw Real.sqrt nodes ≠ zero) (h1 : dim ≠ 2 → tangentRaw nodes ≠ zero) :
    (mapGrid Real.sqrt dim nodes o).R.IsRot := by
  simp only [mapGrid]
  by_cases hd : dim = 2
  · rw [if_pos hd]
    exact (projectMatrix_sqrt _ (normalize_sqrt_unit (h2 hd))).1
  · rw [if_neg hd]
    exact (projectMatrix_sqrt _ (normalize_sqrt_unit (h1 hd))).1


end PorepyVerif.C20
