/-
C20 — helper lemmas: vector algebra in ℚ³, rotations (RᵀR = 1, det R = 1) commute with cross products and
preserve dot products, sums / means / weighted means commute with rigid motions, `argmax` only sees the keys.
-/
import Mathlib.Tactic.Ring
import Mathlib.Tactic.LinearCombination
import Mathlib.Tactic.FieldSimp
import Mathlib.Algebra.Order.Field.Rat
import PorepyVerif.C20.Model

namespace PorepyVerif.C20
open V3

theorem V3.ext' {a b : V3} (hx : a.x = b.x) (hy : a.y = b.y) (hz : a.z = b.z) : a = b := by
  cases a; cases b; simp_all

/-- unfold everything down to coordinates and close by `ring` -/
macro "v3" : tactic =>
  `(tactic| (apply V3.ext' <;>
    simp only [act, rot, Mat3.mulVec, V3.add, V3.sub, V3.neg, V3.smul, V3.dot, V3.cross, V3.zero, V3.norm2] <;> ring))

/-! ### linearity of `rot`, affinity of `act` (no hypothesis on the matrix) -/

theorem rot_zero (M : Motion) : rot M zero = zero := by v3
theorem rot_add (M : Motion) (a b : V3) : rot M (add a b) = add (rot M a) (rot M b) := by v3
theorem rot_sub (M : Motion) (a b : V3) : rot M (sub a b) = sub (rot M a) (rot M b) := by v3
theorem rot_neg (M : Motion) (a : V3) : rot M (neg a) = neg (rot M a) := by v3
theorem rot_smul (M : Motion) (c : Rat) (a : V3) : rot M (smul c a) = smul c (rot M a) := by v3
theorem act_sub_act (M : Motion) (a b : V3) : sub (act M a) (act M b) = rot M (sub a b) := by v3
theorem act_add_rot (M : Motion) (a v : V3) : add (act M a) (rot M v) = act M (add a v) := by v3
theorem midpoint_act (M : Motion) (a b : V3) :
    smul (1 / 2) (add (act M a) (act M b)) = act M (smul (1 / 2) (add a b)) := by v3
theorem third_act (M : Motion) (t f : V3) :
    smul (1 / 3) (add (act M t) (smul 2 (act M f))) = act M (smul (1 / 3) (add t (smul 2 f))) := by v3
theorem third3_act (M : Motion) (p q c : V3) :
    smul (1 / 3) (add (add (act M p) (act M q)) (act M c)) = act M (smul (1 / 3) (add (add p q) c)) := by v3

/-! ### rotations -/

theorem dot_rot (M : Motion) (h : M.R.IsRot) (a b : V3) : dot (rot M a) (rot M b) = dot a b := by
  obtain ⟨⟨⟨a11, a12, a13⟩, ⟨a21, a22, a23⟩, ⟨a31, a32, a33⟩⟩, t⟩ := M
  obtain ⟨h11, h22, h33, h12, h13, h23, -⟩ := h
  simp only [Mat3.c1, Mat3.c2, Mat3.c3, V3.dot] at h11 h22 h33 h12 h13 h23
  simp only [rot, Mat3.mulVec, V3.dot]
  linear_combination (a.x * b.x) * h11 + (a.y * b.y) * h22 + (a.z * b.z) * h33
    + (a.x * b.y + a.y * b.x) * h12 + (a.x * b.z + a.z * b.x) * h13 + (a.y * b.z + a.z * b.y) * h23

theorem norm2_rot (M : Motion) (h : M.R.IsRot) (a : V3) : norm2 (rot M a) = norm2 a := dot_rot M h a a

/-- rows of a rotation: `r₂ × r₃ = r₁`, `r₃ × r₁ = r₂`, `r₁ × r₂ = r₃` (cofactor matrix = matrix) -/
theorem rows_cross (R : Mat3) (h : R.IsRot) :
    cross R.r2 R.r3 = R.r1 ∧ cross R.r3 R.r1 = R.r2 ∧ cross R.r1 R.r2 = R.r3 := by
  obtain ⟨⟨a11, a12, a13⟩, ⟨a21, a22, a23⟩, ⟨a31, a32, a33⟩⟩ := R
  obtain ⟨h11, h22, h33, h12, h13, h23, hd⟩ := h
  simp only [Mat3.c1, Mat3.c2, Mat3.c3, Mat3.det, V3.dot, V3.cross] at h11 h22 h33 h12 h13 h23 hd
  refine ⟨?_, ?_, ?_⟩ <;> apply V3.ext' <;> simp only [V3.cross]
  · linear_combination a11 * hd - (a22 * a33 - a23 * a32) * h11 - (a23 * a31 - a21 * a33) * h12 - (a21 * a32 - a22 * a31) * h13
  · linear_combination a12 * hd - (a22 * a33 - a23 * a32) * h12 - (a23 * a31 - a21 * a33) * h22 - (a21 * a32 - a22 * a31) * h23
  · linear_combination a13 * hd - (a22 * a33 - a23 * a32) * h13 - (a23 * a31 - a21 * a33) * h23 - (a21 * a32 - a22 * a31) * h33
  · linear_combination a21 * hd - (a32 * a13 - a33 * a12) * h11 - (a33 * a11 - a31 * a13) * h12 - (a31 * a12 - a32 * a11) * h13
  · linear_combination a22 * hd - (a32 * a13 - a33 * a12) * h12 - (a33 * a11 - a31 * a13) * h22 - (a31 * a12 - a32 * a11) * h23
  · linear_combination a23 * hd - (a32 * a13 - a33 * a12) * h13 - (a33 * a11 - a31 * a13) * h23 - (a31 * a12 - a32 * a11) * h33
  · linear_combination a31 * hd - (a12 * a23 - a13 * a22) * h11 - (a13 * a21 - a11 * a23) * h12 - (a11 * a22 - a12 * a21) * h13
  · linear_combination a32 * hd - (a12 * a23 - a13 * a22) * h12 - (a13 * a21 - a11 * a23) * h22 - (a11 * a22 - a12 * a21) * h23
  · linear_combination a33 * hd - (a12 * a23 - a13 * a22) * h13 - (a13 * a21 - a11 * a23) * h23 - (a11 * a22 - a12 * a21) * h33

/-- for every matrix: `R a × R b = cof(R) (a × b)`, the rows of `cof(R)` being `r₂×r₃, r₃×r₁, r₁×r₂` -/
theorem cross_mulVec (R : Mat3) (a b : V3) :
    cross (R.mulVec a) (R.mulVec b) =
      ⟨dot (cross R.r2 R.r3) (cross a b), dot (cross R.r3 R.r1) (cross a b), dot (cross R.r1 R.r2) (cross a b)⟩ := by
  apply V3.ext' <;> simp only [Mat3.mulVec, V3.dot, V3.cross] <;> ring

theorem cross_rot (M : Motion) (h : M.R.IsRot) (a b : V3) : cross (rot M a) (rot M b) = rot M (cross a b) := by
  obtain ⟨h1, h2, h3⟩ := rows_cross M.R h
  show cross (M.R.mulVec a) (M.R.mulVec b) = M.R.mulVec (cross a b)
  rw [cross_mulVec, h1, h2, h3]
  rfl

/-! ### sums and means -/

theorem vsum_map_rot (M : Motion) (l : List V3) : vsum (l.map (rot M)) = rot M (vsum l) := by
  induction l with
  | nil => simp only [List.map_nil, vsum, rot_zero]
  | cons a l ih => simp only [List.map_cons, vsum, ih, rot_add]

theorem vsum_map_rot' {α : Type} (M : Motion) (f : α → V3) (l : List α) :
    vsum (l.map fun e => rot M (f e)) = rot M (vsum (l.map f)) := by
  rw [← vsum_map_rot, List.map_map]; rfl

/-- weighted sums of moved points -/
theorem wsum_act {α : Type} (M : Motion) (w : α → Rat) (p : α → V3) (l : List α) :
    vsum (l.map fun e => smul (w e) (act M (p e))) =
      add (rot M (vsum (l.map fun e => smul (w e) (p e)))) (smul (rsum (l.map w)) M.t) := by
  induction l with
  | nil => simp only [List.map_nil, vsum, rsum]; v3
  | cons a l ih => simp only [List.map_cons, vsum, rsum, ih]; v3

theorem rsum_map_one {α : Type} (l : List α) : rsum (l.map fun _ => (1 : Rat)) = (l.length : Rat) := by
  induction l with
  | nil => simp [rsum]
  | cons a l ih => simp only [List.map_cons, rsum, ih, List.length_cons]; push_cast; ring

theorem vsum_map_act {α : Type} (M : Motion) (p : α → V3) (l : List α) :
    vsum (l.map fun e => act M (p e)) = add (rot M (vsum (l.map p))) (smul (l.length : Rat) M.t) := by
  have h := wsum_act M (fun _ => (1 : Rat)) p l
  have e1 : ∀ v : V3, smul 1 v = v := fun v => by v3
  simp only [e1, rsum_map_one] at h
  exact h

/-- dividing an affine combination by its total weight -/
theorem smul_inv_affine (M : Motion) (W : Rat) (hW : W ≠ 0) (S : V3) :
    smul (1 / W) (add (rot M S) (smul W M.t)) = act M (smul (1 / W) S) := by
  apply V3.ext' <;>
    simp only [act, rot, Mat3.mulVec, V3.add, V3.smul, V3.dot] <;> field_simp

theorem length_cast_ne_zero {α : Type} (l : List α) (h : l ≠ []) : (l.length : Rat) ≠ 0 := by
  have : 0 < l.length := List.length_pos_of_ne_nil h
  exact_mod_cast this.ne'

theorem mean_map_act {α : Type} (M : Motion) (p : α → V3) (l : List α) (h : l ≠ []) :
    mean (l.map fun e => act M (p e)) = act M (mean (l.map p)) := by
  unfold mean
  rw [vsum_map_act, List.length_map, List.length_map, smul_inv_affine M _ (length_cast_ne_zero l h)]

theorem mean_act (M : Motion) (l : List V3) (h : l ≠ []) : mean (l.map (act M)) = act M (mean l) := by
  have := mean_map_act M (fun p => p) l h
  simpa using this

/-- `centroid_equivariant`: weighted averages with the same weights move with the points -/
theorem wavg_act (M : Motion) (l : List (Rat × V3)) (hW : rsum (l.map (·.1)) ≠ 0) :
    wavg (l.map fun p => (p.1, act M p.2)) = act M (wavg l) := by
  unfold wavg
  simp only [List.map_map, Function.comp_def]
  rw [wsum_act M (fun p : Rat × V3 => p.1) (fun p => p.2) l, smul_inv_affine M _ hW]

/-! ### getD, argmax, normalisation -/

theorem getD_map_rot (M : Motion) (l : List V3) (i : Nat) :
    (l.map (rot M)).getD i zero = rot M (l.getD i zero) := by
  induction l generalizing i with
  | nil => simp [rot_zero]
  | cons a l ih =>
    cases i with
    | zero => simp only [List.map_cons, List.getD_cons_zero]
    | succ n => simp only [List.map_cons, List.getD_cons_succ, ih]

theorem nrm_rot (sq : Rat → Rat) (M : Motion) (h : M.R.IsRot) (u : V3) : nrm sq (rot M u) = nrm sq u := by
  simp only [nrm, norm2_rot M h]

theorem normalize_rot (sq : Rat → Rat) (M : Motion) (h : M.R.IsRot) (u : V3) :
    normalize sq (rot M u) = rot M (normalize sq u) := by
  simp only [normalize, nrm_rot sq M h, rot_smul]

theorem map_nrm_rot (sq : Rat → Rat) (M : Motion) (h : M.R.IsRot) (l : List V3) :
    (l.map (rot M)).map (nrm sq) = l.map (nrm sq) := by
  simp only [List.map_map, Function.comp_def, nrm_rot sq M h]

theorem map_norm2_rot (M : Motion) (h : M.R.IsRot) (l : List V3) :
    (l.map (rot M)).map norm2 = l.map norm2 := by
  simp only [List.map_map, Function.comp_def, norm2_rot M h]

/-! ### compute_tangent / compute_normal -/

theorem centred_act (M : Motion) (pts : List V3) (h : pts ≠ []) :
    centred (pts.map (act M)) = (centred pts).map (rot M) := by
  simp only [centred, mean_act M pts h, List.map_map, Function.comp_def, subFrom, act_sub_act]

theorem tangent_act (sq : Rat → Rat) (M : Motion) (hM : M.R.IsRot) (pts : List V3) (h : pts ≠ []) :
    tangent sq (pts.map (act M)) = rot M (tangent sq pts) := by
  simp only [tangent, centred_act M pts h, map_norm2_rot M hM, getD_map_rot, normalize_rot sq M hM]

theorem pnI1_act (sq : Rat → Rat) (M : Motion) (hM : M.R.IsRot) (pts : List V3) (h : pts ≠ []) :
    pnI1 sq (pts.map (act M)) = pnI1 sq pts := by
  simp only [pnI1, centred_act M pts h, map_nrm_rot sq M hM]

theorem pnV1_act (sq : Rat → Rat) (M : Motion) (hM : M.R.IsRot) (pts : List V3) (h : pts ≠ []) :
    pnV1 sq (pts.map (act M)) = rot M (pnV1 sq pts) := by
  simp only [pnV1, pnI1_act sq M hM pts h, centred_act M pts h, getD_map_rot]

theorem pnCross_act (sq : Rat → Rat) (M : Motion) (hM : M.R.IsRot) (pts : List V3) (h : pts ≠ []) :
    pnCross sq (pts.map (act M)) = (pnCross sq pts).map (rot M) := by
  simp only [pnCross, pnV1_act sq M hM pts h, centred_act M pts h, List.map_map, Function.comp_def, cross_rot M hM]

theorem pnIc_act (sq : Rat → Rat) (M : Motion) (hM : M.R.IsRot) (pts : List V3) (h : pts ≠ []) :
    pnIc sq (pts.map (act M)) = pnIc sq pts := by
  simp only [pnIc, pnCross_act sq M hM pts h, map_nrm_rot sq M hM]

theorem pnRaw_act (sq : Rat → Rat) (M : Motion) (hM : M.R.IsRot) (pts : List V3) (h : pts ≠ []) :
    pnRaw sq (pts.map (act M)) = rot M (pnRaw sq pts) := by
  simp only [pnRaw, pnIc_act sq M hM pts h, pnCross_act sq M hM pts h, getD_map_rot]

theorem planeNormal_act (sq : Rat → Rat) (M : Motion) (hM : M.R.IsRot) (pts : List V3) (h : pts ≠ []) :
    planeNormal sq (pts.map (act M)) = rot M (planeNormal sq pts) := by
  simp only [planeNormal, pnRaw_act sq M hM pts h, normalize_rot sq M hM]


end PorepyVerif.C20
