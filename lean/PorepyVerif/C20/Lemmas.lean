/-
C20 — helper lemmas: vector algebra in ℚ³, rotations (RᵀR = 1, det R = 1) commute with cross products and
preserve dot products, sums / means / weighted means commute with rigid motions, `argmax` only sees the keys.
-/
import Mathlib.Tactic.Ring
import Mathlib.Tactic.LinearCombination
import Mathlib.Tactic.FieldSimp
import Mathlib.Algebra.Order.Field.Rat
import PorepyVerif.C20.Model

namespace PorepyVerif.C20
open V3

theorem V3.ext' {a b : V3} (hx : a.x = b.x) (hy : a.y = b.y) (hz : a.z = b.z) : a = b := by
  cases a; cases b; simp_all

/-- unfold everything down to coordinates and close by `ring` -/
macro "v3" : tactic =>
  `(tactic| (apply V3.ext' <;>
    simp only [act, rot, Mat3.mulVec, V3.add, V3.sub, V3.neg, V3.smul, V3.dot, V3.cross, V3.zero, V3.norm2] <;> ring))

/-! ### linearity of `rot`, affinity of `act` (no hypothesis on the matrix) -/

theorem rot_zero (M : Motion) : rot M zero = zero := by v3
theorem rot_add (M : Motion) (a b : V3) : rot M (add a b) = add (rot M a) (rot M b) := by v3
theorem rot_sub (M : Motion) (a b : V3) : rot M (sub a b) = sub (rot M a) (rot M b) := by v3
theorem rot_neg (M : Motion) (a : V3) : rot M (neg a) = neg (rot M a) := by v3
theorem rot_smul (M : Motion) (c : Rat) (a : V3) : rot M (smul c a) = smul c (rot M a) := by v3
theorem act_sub_act (M : Motion) (a b : V3) : sub (act M a) (act M b) = rot M (sub a b) := by v3
theorem act_add_rot (M : Motion) (a v : V3) : add (act M a) (rot M v) = act M (add a v) := by v3
theorem midpoint_act (M : Motion) (a b : V3) :
    smul (1 / 2) (add (act M a) (act M b)) = act M (smul (1 / 2) (add a b)) := by v3
theorem third_act (M : Motion) (t f : V3) :
    smul (1 / 3) (add (act M t) (smul 2 (act M f))) = act M (smul (1 / 3) (add t (smul 2 f))) := by v3
theorem third3_act (M : Motion) (p q c : V3) :
    smul (1 / 3) (add (add (act M p) (act M q)) (act M c)) = act M (smul (1 / 3) (add (add p q) c)) := by v3

/-! ### rotations -/

theorem dot_rot (M : Motion) (h : M.R.IsRot) (a b : V3) : dot (rot M a) (rot M b) = dot a b := by
  obtain ⟨⟨⟨a11, a12, a13⟩, ⟨a21, a22, a23⟩, ⟨a31, a32, a33⟩⟩, t⟩ := M
  obtain ⟨h11, h22, h33, h12, h13, h23, -⟩ := h
  simp only [Mat3.c1, Mat3.c2, Mat3.c3, V3.dot] at h11 h22 h33 h12 h13 h23
  simp only [rot, Mat3.mulVec, V3.dot]
  linear_combination (a.x * b.x) * h11 + (a.y * b.y) * h22 + (a.z * b.z) * h33
    + (a.x * b.y + a.y * b.x) * h12 + (a.x * b.z + a.z * b.x) * h13 + (a.y * b.z + a.z * b.y) * h23

theorem norm2_rot (M : Motion) (h : M.R.IsRot) (a : V3) : norm2 (rot M a) = norm2 a := dot_rot M h a a

/-- rows of a rotation: `r₂ × r₃ = r₁`, `r₃ × r₁ = r₂`, `r₁ × r₂ = r₃` (cofactor matrix = matrix) -/
theorem rows_cross (R : Mat3) (h : R.IsRot) :
    cross R.r2 R.r3 = R.r1 ∧ cross R.r3 R.r1 = R.r2 ∧ cross R.r1 R.r2 = R.r3 := by
  obtain ⟨⟨a11, a12, a13⟩, ⟨a21, a22, a23⟩, ⟨a31, a32, a33⟩⟩ := R
  obtain ⟨h11, h22, h33, h12, h13, h23, hd⟩ := h
  simp only [Mat3.c1, Mat3.c2, Mat3.c3, Mat3.det, V3.dot, V3.cross] at h11 h22 h33 h12 h13 h23 hd
  refine ⟨?_, ?_, ?_⟩ <;> apply V3.ext' <;> simp only [V3.cross]
  · linear_combination a11 * hd - (a22 * a33 - a23 * a32) * h11 - (a23 * a31 - a21 * a33) * h12 - (a21 * a32 - a22 * a31) * h13
  · linear_combination a12 * hd - (a22 * a33 - a23 * a32) * h12 - (a23 * a31 - a21 * a33) * h22 - (a21 * a32 - a22 * a31) * h23
  · linear_combination a13 * hd - (a22 * a33 - a23 * a32) * h13 - (a23 * a31 - a21 * a33) * h23 - (a21 * a32 - a22 * a31) * h33
  · linear_combination a21 * hd - (a32 * a13 - a33 * a12) * h11 - (a33 * a11 - a31 * a13) * h12 - (a31 * a12 - a32 * a11) * h13
  · linear_combination a22 * hd - (a32 * a13 - a33 * a12) * h12 - (a33 * a11 - a31 * a13) * h22 - (a31 * a12 - a32 * a11) * h23
  · linear_combination a23 * hd - (a32 * a13 - a33 * a12) * h13 - (a33 * a11 - a31 * a13) * h23 - (a31 * a12 - a32 * a11) * h33
  · linear_combination a31 * hd - (a12 * a23 - a13 * a22) * h11 - (a13 * a21 - a11 * a23) * h12 - (a11 * a22 - a12 * a21) * h13
  · linear_combination a32 * hd - (a12 * a23 - a13 * a22) * h12 - (a13 * a21 - a11 * a23) * h22 - (a11 * a22 - a12 * a21) * h23
  · linear_combination a33 * hd - (a12 * a23 - a13 * a22) * h13 - (a13 * a21 - a11 * a23) * h23 - (a11 * a22 - a12 * a21) * h33

/-- for every matrix: `R a × R b = cof(R) (a × b)`, the rows of `cof(R)` being `r₂×r₃, r₃×r₁, r₁×r₂` -/
theorem cross_mulVec (R : Mat3) (a b : V3) :
    cross (R.mulVec a) (R.mulVec b) =
      ⟨dot (cross R.r2 R.r3) (cross a b), dot (cross R.r3 R.r1) (cross a b), dot (cross R.r1 R.r2) (cross a b)⟩ := by
  apply V3.ext' <;> simp only [Mat3.mulVec, V3.dot, V3.cross] <;> ring

theorem cross_rot (M : Motion) (h : M.R.IsRot) (a b : V3) : cross (rot M a) (rot M b) = rot M (cross a b) := by
  obtain ⟨h1, h2, h3⟩ := rows_cross M.R h
  show cross (M.R.mulVec a) (M.R.mulVec b) = M.R.mulVec (cross a b)
  rw [cross_mulVec, h1, h2, h3]
  rfl

theorem quatMat_isRot (w x y z : Rat) (h : w * w + x * x + y * y + z * z ≠ 0) : (quatMat w x y z).IsRot := by
  simp only [Mat3.IsRot, quatMat, Mat3.c1, Mat3.c2, Mat3.c3, Mat3.det, V3.dot, V3.cross]
  generalize hn : w * w + x * x + y * y + z * z = n at h ⊢
  refine ⟨?_, ?_, ?_, ?_, ?_, ?_, ?_⟩ <;> field_simp <;> subst hn <;> ring

/-! ### sums and means -/

theorem vsum_map_rot (M : Motion) (l : List V3) : vsum (l.map (rot M)) = rot M (vsum l) := by
  induction l with
  | nil => simp only [List.map_nil, vsum, rot_zero]
  | cons a l ih => simp only [List.map_cons, vsum, ih, rot_add]

theorem vsum_map_rot' {α : Type} (M : Motion) (f : α → V3) (l : List α) :
    vsum (l.map fun e => rot M (f e)) = rot M (vsum (l.map f)) := by
  rw [← vsum_map_rot, List.map_map]; rfl

/-- weighted sums of moved points -/
theorem wsum_act {α : Type} (M : Motion) (w : α → Rat) (p : α → V3) (l : List α) :
    vsum (l.map fun e => smul (w e) (act M (p e))) =
      add (rot M (vsum (l.map fun e => smul (w e) (p e)))) (smul (rsum (l.map w)) M.t) := by
  induction l with
  | nil => simp only [List.map_nil, vsum, rsum]; v3
  | cons a l ih => simp only [List.map_cons, vsum, rsum, ih]; v3

theorem rsum_map_one {α : Type} (l : List α) : rsum (l.map fun _ => (1 : Rat)) = (l.length : Rat) := by
  induction l with
  | nil => simp [rsum]
  | cons a l ih => simp only [List.map_cons, rsum, ih, List.length_cons]; push_cast; ring

theorem vsum_map_act {α : Type} (M : Motion) (p : α → V3) (l : List α) :
    vsum (l.map fun e => act M (p e)) = add (rot M (vsum (l.map p))) (smul (l.length : Rat) M.t) := by
  have h := wsum_act M (fun _ => (1 : Rat)) p l
  have e1 : ∀ v : V3, smul 1 v = v := fun v => by v3
  simp only [e1, rsum_map_one] at h
  exact h

/-- dividing an affine combination by its total weight -/
theorem smul_inv_affine (M : Motion) (W : Rat) (hW : W ≠ 0) (S : V3) :
    smul (1 / W) (add (rot M S) (smul W M.t)) = act M (smul (1 / W) S) := by
  apply V3.ext' <;>
    simp only [act, rot, Mat3.mulVec, V3.add, V3.smul, V3.dot] <;> field_simp

theorem length_cast_ne_zero {α : Type} (l : List α) (h : l ≠ []) : (l.length : Rat) ≠ 0 := by
  have : 0 < l.length := List.length_pos_of_ne_nil h
  exact_mod_cast this.ne'

theorem mean_map_act {α : Type} (M : Motion) (p : α → V3) (l : List α) (h : l ≠ []) :
    mean (l.map fun e => act M (p e)) = act M (mean (l.map p)) := by
  unfold mean
  rw [vsum_map_act, List.length_map, List.length_map, smul_inv_affine M _ (length_cast_ne_zero l h)]

theorem mean_act (M : Motion) (l : List V3) (h : l ≠ []) : mean (l.map (act M)) = act M (mean l) := by
  have := mean_map_act M (fun p => p) l h
  simpa using this

/-- `centroid_equivariant`: weighted averages with the same weights move with the points -/
theorem wavg_act (M : Motion) (l : List (Rat × V3)) (hW : rsum (l.map (·.1)) ≠ 0) :
    wavg (l.map fun p => (p.1, act M p.2)) = act M (wavg l) := by
  unfold wavg
  simp only [List.map_map, Function.comp_def]
  rw [wsum_act M (fun p : Rat × V3 => p.1) (fun p => p.2) l, smul_inv_affine M _ hW]

/-! ### getD, argmax, normalisation -/

theorem getD_map_rot (M : Motion) (l : List V3) (i : Nat) :
    (l.map (rot M)).getD i zero = rot M (l.getD i zero) := by
  induction l generalizing i with
  | nil => simp [rot_zero]
  | cons a l ih =>
    cases i with
    | zero => simp only [List.map_cons, List.getD_cons_zero]
    | succ n => simp only [List.map_cons, List.getD_cons_succ, ih]

theorem nrm_rot (sq : Rat → Rat) (M : Motion) (h : M.R.IsRot) (u : V3) : nrm sq (rot M u) = nrm sq u := by
  simp only [nrm, norm2_rot M h]

theorem normalize_rot (sq : Rat → Rat) (M : Motion) (h : M.R.IsRot) (u : V3) :
    normalize sq (rot M u) = rot M (normalize sq u) := by
  simp only [normalize, nrm_rot sq M h, rot_smul]

theorem map_nrm_rot (sq : Rat → Rat) (M : Motion) (h : M.R.IsRot) (l : List V3) :
    (l.map (rot M)).map (nrm sq) = l.map (nrm sq) := by
  simp only [List.map_map, Function.comp_def, nrm_rot sq M h]

theorem map_norm2_rot (M : Motion) (h : M.R.IsRot) (l : List V3) :
    (l.map (rot M)).map norm2 = l.map norm2 := by
  simp only [List.map_map, Function.comp_def, norm2_rot M h]

/-! ### compute_tangent / compute_normal -/

theorem centred_act (M : Motion) (pts : List V3) (h : pts ≠ []) :
    centred (pts.map (act M)) = (centred pts).map (rot M) := by
  simp only [centred, mean_act M pts h, List.map_map, Function.comp_def, subFrom, act_sub_act]

theorem tangent_act (sq : Rat → Rat) (M : Motion) (hM : M.R.IsRot) (pts : List V3) (h : pts ≠ []) :
    tangent sq (pts.map (act M)) = rot M (tangent sq pts) := by
  simp only [tangent, centred_act M pts h, map_norm2_rot M hM, getD_map_rot, normalize_rot sq M hM]

theorem pnI1_act (sq : Rat → Rat) (M : Motion) (hM : M.R.IsRot) (pts : List V3) (h : pts ≠ []) :
    pnI1 sq (pts.map (act M)) = pnI1 sq pts := by
  simp only [pnI1, centred_act M pts h, map_nrm_rot sq M hM]

theorem pnV1_act (sq : Rat → Rat) (M : Motion) (hM : M.R.IsRot) (pts : List V3) (h : pts ≠ []) :
    pnV1 sq (pts.map (act M)) = rot M (pnV1 sq pts) := by
  simp only [pnV1, pnI1_act sq M hM pts h, centred_act M pts h, getD_map_rot]

theorem pnCross_act (sq : Rat → Rat) (M : Motion) (hM : M.R.IsRot) (pts : List V3) (h : pts ≠ []) :
    pnCross sq (pts.map (act M)) = (pnCross sq pts).map (rot M) := by
  simp only [pnCross, pnV1_act sq M hM pts h, centred_act M pts h, List.map_map, Function.comp_def, cross_rot M hM]

theorem pnIc_act (sq : Rat → Rat) (M : Motion) (hM : M.R.IsRot) (pts : List V3) (h : pts ≠ []) :
    pnIc sq (pts.map (act M)) = pnIc sq pts := by
  simp only [pnIc, pnCross_act sq M hM pts h, map_nrm_rot sq M hM]

theorem pnRaw_act (sq : Rat → Rat) (M : Motion) (hM : M.R.IsRot) (pts : List V3) (h : pts ≠ []) :
    pnRaw sq (pts.map (act M)) = rot M (pnRaw sq pts) := by
  simp only [pnRaw, pnIc_act sq M hM pts h, pnCross_act sq M hM pts h, getD_map_rot]

theorem planeNormal_act (sq : Rat → Rat) (M : Motion) (hM : M.R.IsRot) (pts : List V3) (h : pts ≠ []) :
    planeNormal sq (pts.map (act M)) = rot M (planeNormal sq pts) := by
  simp only [planeNormal, pnRaw_act sq M hM pts h, normalize_rot sq M hM]


/-! ### 1-D -/

theorem cellCen1_move (M : Motion) (c : Inc1 × Inc1) :
    cellCen1 (c.1.move M, c.2.move M) = act M (cellCen1 c) := by
  simp only [cellCen1, Inc1.move, midpoint_act]

theorem cellVol1_move (sq : Rat → Rat) (M : Motion) (hM : M.R.IsRot) (c : Inc1 × Inc1) :
    cellVol1 sq (c.1.move M, c.2.move M) = cellVol1 sq c := by
  simp only [cellVol1, Inc1.move, act_sub_act, nrm_rot sq M hM]

/-- motion of a listed incidence (with the centre of its cell) -/
def incMove1 (M : Motion) (p : Inc1 × V3) : Inc1 × V3 := (p.1.move M, act M p.2)

theorem incs1_move (M : Motion) (cells : List (Inc1 × Inc1)) :
    incs1 (cells.map fun c => (c.1.move M, c.2.move M)) = (incs1 cells).map (incMove1 M) := by
  induction cells with
  | nil => rfl
  | cons c l ih => simp only [List.map_cons, incs1, ih, cellCen1_move, incMove1]

theorem firstInc1_move (M : Motion) (f : Nat) (l : List (Inc1 × V3)) :
    firstInc1 f (l.map (incMove1 M)) = (firstInc1 f l).map (incMove1 M) := by
  induction l with
  | nil => rfl
  | cons e l ih =>
    simp only [List.map_cons, firstInc1]
    have hface : (incMove1 M e).1.face = e.1.face := rfl
    rw [hface]
    by_cases hf : e.1.face = f
    · rw [if_pos hf, if_pos hf]; rfl
    · rw [if_neg hf, if_neg hf, ih]

theorem flip1_move (sq : Rat → Rat) (M : Motion) (hM : M.R.IsRot) (t : V3) (sgn : Int) (fc cc : V3) :
    flip1 sq (rot M t) sgn (act M fc) (act M cc) = flip1 sq t sgn fc cc := by
  simp only [flip1, act_sub_act, nrm_rot sq M hM, ← rot_smul, ← rot_add]

theorem faceNormal1_move (sq : Rat → Rat) (M : Motion) (hM : M.R.IsRot) (t : V3) (incs : List (Inc1 × V3)) (f : Nat) :
    faceNormal1 sq (rot M t) (incs.map (incMove1 M)) f = rot M (faceNormal1 sq t incs f) := by
  simp only [faceNormal1, firstInc1_move]
  cases firstInc1 f incs with
  | none => rfl
  | some e =>
    simp only [Option.map_some, incMove1, Inc1.move, flip1_move sq M hM]
    split
    · rw [rot_neg]
    · rfl

theorem geom1_move (sq : Rat → Rat) (M : Motion) (hM : M.R.IsRot) (g : Grid1) (h : g.nodes ≠ []) :
    geom1 sq (g.move M) = (geom1 sq g).move M := by
  simp only [geom1, Grid1.move, Out.move, tangent_act sq M hM g.nodes h, incs1_move, List.length_map,
    List.map_map, Function.comp_def, cellVol1_move sq M hM, cellCen1_move]
  rw [show faceNormal1 sq (rot M (tangent sq g.nodes)) (List.map (incMove1 M) (incs1 g.cells)) =
        fun x => rot M (faceNormal1 sq (tangent sq g.nodes) (incs1 g.cells) x) from
      funext (faceNormal1_move sq M hM _ _)]

/-! ### 2-D: incidence level -/

theorem tang_move (M : Motion) (e : Inc2) : tang (e.move M) = rot M (tang e) := by
  simp only [tang, Inc2.move, act_sub_act]

theorem fcen_move (M : Motion) (e : Inc2) : fcen (e.move M) = act M (fcen e) := by
  simp only [fcen, Inc2.move, midpoint_act]

theorem tcc_eq_mean (c : List Inc2) : tcc c = mean (c.map fcen) := by
  simp only [tcc, mean, List.length_map]

theorem tcc_move (M : Motion) (c : List Inc2) (h : c ≠ []) : tcc (c.map (Inc2.move M)) = act M (tcc c) := by
  rw [tcc_eq_mean, tcc_eq_mean, List.map_map]
  simp only [Function.comp_def, fcen_move]
  exact mean_map_act M fcen c h

theorem height_move (M : Motion) (t : V3) (e : Inc2) : height (act M t) (e.move M) = rot M (height t e) := by
  simp only [height, fcen_move, act_sub_act]

theorem sgn_move (M : Motion) (e : Inc2) : (e.move M).sgn = e.sgn := rfl
theorem face_move (M : Motion) (e : Inc2) : (e.move M).face = e.face := rfl
theorem n0_move (M : Motion) (e : Inc2) : (e.move M).n0 = e.n0 := rfl
theorem n1_move (M : Motion) (e : Inc2) : (e.move M).n1 = e.n1 := rfl

theorem ssn_move (M : Motion) (hM : M.R.IsRot) (t : V3) (e : Inc2) :
    ssn (act M t) (e.move M) = rot M (ssn t e) := by
  simp only [ssn, height_move, tang_move, sgn_move, ← rot_smul, cross_rot M hM]

theorem subCentroid_move (M : Motion) (t : V3) (e : Inc2) :
    subCentroid (act M t) (e.move M) = act M (subCentroid t e) := by
  simp only [subCentroid, fcen_move, third_act]

theorem nodeBalance_move (M : Motion) (c : List Inc2) (n : Nat) :
    nodeBalance (c.map (Inc2.move M)) n = nodeBalance c n := by
  induction c with
  | nil => rfl
  | cons e l ih => simp only [List.map_cons, nodeBalance, ih]; rfl

theorem cellClosed_move (M : Motion) (c : List Inc2) : cellClosed (c.map (Inc2.move M)) = cellClosed c := by
  simp only [cellClosed, List.all_map, Function.comp_def, nodeBalance_move]
  rfl

theorem check1_move (M : Motion) (g : Grid2) : check1 (g.move M) = check1 g := by
  simp only [check1, Grid2.move, List.all_map, Function.comp_def, cellClosed_move]

theorem cellNsum_move (M : Motion) (hM : M.R.IsRot) (c : List Inc2) (h : c ≠ []) :
    cellNsum (c.map (Inc2.move M)) = rot M (cellNsum c) := by
  simp only [cellNsum, tcc_move M c h, List.map_map, Function.comp_def, ssn_move M hM]
  exact vsum_map_rot' M _ c

theorem nsum_move (M : Motion) (hM : M.R.IsRot) (g : Grid2) (hc : ∀ c ∈ g.cells, c ≠ []) :
    nsum (g.move M) = rot M (nsum g) := by
  simp only [nsum, Grid2.move, List.map_map, Function.comp_def]
  rw [List.map_congr_left (g := fun c => rot M (cellNsum c)) (fun c hmem => cellNsum_move M hM c (hc c hmem))]
  exact vsum_map_rot' M _ _

theorem faceArea2_move (sq : Rat → Rat) (M : Motion) (hM : M.R.IsRot) (f : V3 × V3) :
    faceArea2 sq (act M f.1, act M f.2) = faceArea2 sq f := by
  simp only [faceArea2, act_sub_act, nrm_rot sq M hM]

theorem meanArea_move (sq : Rat → Rat) (M : Motion) (hM : M.R.IsRot) (g : Grid2) :
    meanArea sq (g.move M) = meanArea sq g := by
  simp only [meanArea, Grid2.move, List.map_map, Function.comp_def, faceArea2_move sq M hM, List.length_map]

theorem check2Fails_move (sq : Rat → Rat) (M : Motion) (hM : M.R.IsRot) (g : Grid2) (hc : ∀ c ∈ g.cells, c ≠ []) :
    check2Fails sq (g.move M) = check2Fails sq g := by
  simp only [check2Fails, nsum_move M hM g hc, nrm_rot sq M hM, meanArea_move sq M hM]

theorem normalOriented_move (sq : Rat → Rat) (M : Motion) (hM : M.R.IsRot) (g : Grid2) (hc : ∀ c ∈ g.cells, c ≠ []) :
    normalOriented sq (g.move M) = normalOriented sq g := by
  simp only [normalOriented, check1_move, check2Fails_move sq M hM g hc]

theorem nhat_move (sq : Rat → Rat) (M : Motion) (hM : M.R.IsRot) (g : Grid2) (hn : g.nodes ≠ [])
    (hc : ∀ c ∈ g.cells, c ≠ []) : nhat sq (g.move M) = rot M (nhat sq g) := by
  simp only [nhat, normalOriented_move sq M hM g hc, nsum_move M hM g hc, normalize_rot sq M hM]
  split
  · rfl
  · exact planeNormal_act sq M hM g.nodes hn


/-! ### 2-D: cell and grid level -/

theorem all_congr_mem {α : Type} (l : List α) (p q : α → Bool) (h : ∀ a ∈ l, p a = q a) : l.all p = l.all q := by
  induction l with
  | nil => rfl
  | cons a l ih =>
    simp only [List.all_cons, h a List.mem_cons_self, ih (fun b hb => h b (List.mem_cons_of_mem _ hb))]

theorem ssvO_move (M : Motion) (hM : M.R.IsRot) (nh t : V3) (e : Inc2) :
    ssvO (rot M nh) (act M t) (e.move M) = ssvO nh t e := by
  simp only [ssvO, ssn_move M hM, dot_rot M hM]

theorem volO_move (M : Motion) (hM : M.R.IsRot) (nh : V3) (c : List Inc2) (h : c ≠ []) :
    volO (rot M nh) (c.map (Inc2.move M)) = volO nh c := by
  simp only [volO, tcc_move M c h, List.map_map, Function.comp_def, ssvO_move M hM]

theorem volOriented_move (M : Motion) (hM : M.R.IsRot) (nh : V3) (g : Grid2) (hc : ∀ c ∈ g.cells, c ≠ []) :
    volOriented (rot M nh) (g.move M) = volOriented nh g := by
  simp only [volOriented, check1_move]
  congr 1
  simp only [Grid2.move, List.all_map, Function.comp_def]
  exact all_congr_mem _ _ _ (fun c hmem => by rw [volO_move M hM nh c (hc c hmem)])

theorem ssv_move (sq : Rat → Rat) (M : Motion) (hM : M.R.IsRot) (vo : Bool) (nh t : V3) (e : Inc2) :
    ssv sq vo (rot M nh) (act M t) (e.move M) = ssv sq vo nh t e := by
  simp only [ssv, ssvO_move M hM, ssn_move M hM, nrm_rot sq M hM]

theorem vol2_move (sq : Rat → Rat) (M : Motion) (hM : M.R.IsRot) (vo : Bool) (nh : V3) (c : List Inc2) (h : c ≠ []) :
    vol2 sq vo (rot M nh) (c.map (Inc2.move M)) = vol2 sq vo nh c := by
  simp only [vol2, tcc_move M c h, List.map_map, Function.comp_def, ssv_move sq M hM]

theorem cen2_move (sq : Rat → Rat) (M : Motion) (hM : M.R.IsRot) (vo : Bool) (nh : V3) (c : List Inc2) (h : c ≠ [])
    (hV : vol2 sq vo nh c ≠ 0) :
    cen2 sq vo (rot M nh) (c.map (Inc2.move M)) = act M (cen2 sq vo nh c) := by
  unfold cen2
  rw [vol2_move sq M hM vo nh c h]
  simp only [tcc_move M c h, List.map_map, Function.comp_def, wcen, ssv_move sq M hM, subCentroid_move]
  rw [wsum_act M (fun e => ssv sq vo nh (tcc c) e) (fun e => subCentroid (tcc c) e) c]
  exact smul_inv_affine M (vol2 sq vo nh c) hV _

theorem flipInc_move (M : Motion) (hM : M.R.IsRot) (nh t : V3) (e : Inc2) :
    flipInc (rot M nh) (act M t) (e.move M) = flipInc nh t e := by
  simp only [flipInc, height_move, tang_move, sgn_move, cross_rot M hM, dot_rot M hM]

theorem cellFlips_move (M : Motion) (hM : M.R.IsRot) (nh : V3) (c : List Inc2) (h : c ≠ []) :
    cellFlips (rot M nh) (c.map (Inc2.move M)) = cellFlips nh c := by
  simp only [cellFlips, tcc_move M c h, List.filter_map, List.map_map, Function.comp_def, flipInc_move M hM, face_move]

theorem flips_move (M : Motion) (hM : M.R.IsRot) (nh : V3) (cells : List (List Inc2)) (hc : ∀ c ∈ cells, c ≠ []) :
    flips (rot M nh) (cells.map fun c => c.map (Inc2.move M)) = flips nh cells := by
  induction cells with
  | nil => rfl
  | cons c l ih =>
    simp only [List.map_cons, flips, cellFlips_move M hM nh c (hc c List.mem_cons_self),
      ih (fun b hb => hc b (List.mem_cons_of_mem _ hb))]

theorem faceNormal2_move (M : Motion) (hM : M.R.IsRot) (nh : V3) (fl : List Nat) (p : Nat × (V3 × V3)) :
    faceNormal2 (rot M nh) fl (p.1, (act M p.2.1, act M p.2.2)) = rot M (faceNormal2 nh fl p) := by
  simp only [faceNormal2, act_sub_act, cross_rot M hM]
  split
  · rw [rot_neg]
  · rfl

theorem faceCen2_move (M : Motion) (f : V3 × V3) : faceCen2 (act M f.1, act M f.2) = act M (faceCen2 f) := by
  simp only [faceCen2, midpoint_act]

theorem zipIdx_map {α β : Type} (f : α → β) (l : List α) : zipIdx (l.map f) = (zipIdx l).map (Prod.map id f) := by
  simp only [zipIdx, List.length_map, List.zip_map_right]

theorem geom2_move (sq : Rat → Rat) (M : Motion) (hM : M.R.IsRot) (g : Grid2) (hn : g.nodes ≠ [])
    (hc : ∀ c ∈ g.cells, c ≠ []) (hv : ∀ v ∈ (geom2 sq g).cv, v ≠ 0) :
    geom2 sq (g.move M) = (geom2 sq g).move M := by
  have hnh := nhat_move sq M hM g hn hc
  have hvo := volOriented_move M hM (nhat sq g) g hc
  have hfl : flips (rot M (nhat sq g)) (g.move M).cells = flips (nhat sq g) g.cells := flips_move M hM _ g.cells hc
  simp only [geom2, Out.move, hnh, hvo, hfl]
  have hcells : (g.move M).cells = g.cells.map (fun c => c.map (Inc2.move M)) := rfl
  have hfaces : (g.move M).faces = g.faces.map (fun f => (act M f.1, act M f.2)) := rfl
  rw [hcells, hfaces]
  congr 1
  · simp only [List.map_map, Function.comp_def, faceArea2_move sq M hM]
  · simp only [List.map_map, Function.comp_def, faceCen2_move]
  · rw [zipIdx_map, List.map_map, List.map_map]
    apply List.map_congr_left
    intro p _
    exact faceNormal2_move M hM _ _ p
  · rw [List.map_map]
    apply List.map_congr_left
    intro c hmem
    exact vol2_move sq M hM _ _ c (hc c hmem)
  · rw [List.map_map, List.map_map]
    apply List.map_congr_left
    intro c hmem
    refine cen2_move sq M hM _ _ c (hc c hmem) (hv _ ?_)
    simp only [geom2]
    exact List.mem_map_of_mem hmem

/-! ### a polygon given by its vertex loop -/

theorem polyEdges_map {f : V3 → V3} (vs : List V3) : polyEdges (vs.map f) = (polyEdges vs).map (Prod.map f f) := by
  cases vs with
  | nil => rfl
  | cons p l =>
    simp only [List.map_cons, polyEdges]
    rw [show List.map f l ++ [f p] = (l ++ [p]).map f by simp, ← List.map_cons, List.zip_map]

theorem polyIncs_map (M : Motion) (vs : List V3) : polyIncs (vs.map (act M)) = (polyIncs vs).map (Inc2.move M) := by
  simp only [polyIncs, polyEdges_map, zipIdx_map, List.map_map, List.length_map]
  apply List.map_congr_left
  intro p _
  rfl

theorem polyGrid_move (M : Motion) (vs : List V3) : polyGrid (vs.map (act M)) = (polyGrid vs).move M := by
  simp only [polyGrid, Grid2.move, polyEdges_map, polyIncs_map, List.map_cons, List.map_nil]
  rfl

theorem polyIncs_ne_nil (vs : List V3) (h : vs ≠ []) : polyIncs vs ≠ [] := by
  cases vs with
  | nil => exact absurd rfl h
  | cons p l =>
    intro hnil
    have := congrArg List.length hnil
    simp [polyIncs, polyEdges, zipIdx] at this


/-! ### 3-D: faces -/

theorem nextOf_map {f : V3 → V3} (ps : List V3) : nextOf (ps.map f) = (nextOf ps).map f := by
  cases ps with
  | nil => rfl
  | cons p l => simp only [List.map_cons, nextOf, List.map_append, List.map_nil]

theorem loopEdges_map {f : V3 → V3} (ps : List V3) : loopEdges (ps.map f) = (loopEdges ps).map (Prod.map f f) := by
  simp only [loopEdges, nextOf_map, List.zip_map]

theorem subNormal_move (M : Motion) (hM : M.R.IsRot) (c : V3) (e : V3 × V3) :
    subNormal (act M c) (Prod.map (act M) (act M) e) = rot M (subNormal c e) := by
  simp only [subNormal, Prod.map_fst, Prod.map_snd, act_sub_act, cross_rot M hM, rot_smul]

theorem subCentroid3_move (M : Motion) (c : V3) (e : V3 × V3) :
    subCentroid3 (act M c) (Prod.map (act M) (act M) e) = act M (subCentroid3 c e) := by
  simp only [subCentroid3, Prod.map_fst, Prod.map_snd, third3_act]

theorem subNormals_move (M : Motion) (hM : M.R.IsRot) (ps : List V3) (h : ps ≠ []) :
    subNormals (ps.map (act M)) = (subNormals ps).map (rot M) := by
  simp only [subNormals, mean_act M ps h, loopEdges_map, List.map_map, Function.comp_def, subNormal_move M hM]

theorem faceNormal3_move (M : Motion) (hM : M.R.IsRot) (ps : List V3) (h : ps ≠ []) :
    faceNormal3 (ps.map (act M)) = rot M (faceNormal3 ps) := by
  simp only [faceNormal3, subNormals_move M hM ps h, vsum_map_rot]

theorem subW_move (sq : Rat → Rat) (M : Motion) (hM : M.R.IsRot) (c : V3) (e : V3 × V3) :
    subW sq (act M c) (Prod.map (act M) (act M) e) = ((subW sq c e).1, act M (subW sq c e).2) := by
  simp only [subW, subNormal_move M hM, nrm_rot sq M hM, subCentroid3_move]

theorem subTris_move (sq : Rat → Rat) (M : Motion) (hM : M.R.IsRot) (ps : List V3) (h : ps ≠ []) :
    subTris sq (ps.map (act M)) = (subTris sq ps).map (fun p => (p.1, act M p.2)) := by
  simp only [subTris, mean_act M ps h, loopEdges_map, List.map_map, Function.comp_def, subW_move sq M hM]

theorem faceArea3_move (sq : Rat → Rat) (M : Motion) (hM : M.R.IsRot) (ps : List V3) (h : ps ≠ []) :
    faceArea3 sq (ps.map (act M)) = faceArea3 sq ps := by
  simp only [faceArea3, subTris_move sq M hM ps h, List.map_map, Function.comp_def]

theorem faceCentre3_move (sq : Rat → Rat) (M : Motion) (hM : M.R.IsRot) (ps : List V3) (h : ps ≠ [])
    (hA : faceArea3 sq ps ≠ 0) : faceCentre3 sq (ps.map (act M)) = act M (faceCentre3 sq ps) := by
  simp only [faceCentre3, subTris_move sq M hM ps h]
  exact wavg_act M _ hA

/-! ### 3-D: cells -/

/-- motion of a sub-tetrahedron base -/
def Edge3.move (M : Motion) (e : Edge3) : Edge3 := ⟨act M e.fc, act M e.sc, rot M e.outer⟩

theorem mkEdge_move (M : Motion) (hM : M.R.IsRot) (fc fnm c : V3) (o : Int) (e : V3 × V3) :
    mkEdge (act M fc) (rot M fnm) (act M c) o (Prod.map (act M) (act M) e) = (mkEdge fc fnm c o e).move M := by
  simp only [mkEdge, Edge3.move, subCentroid3_move, subNormal_move M hM, dot_rot M hM, rot_smul]

theorem faceEdges_move (sq : Rat → Rat) (M : Motion) (hM : M.R.IsRot) (f : Int × List V3) (h : f.2 ≠ [])
    (hA : faceArea3 sq f.2 ≠ 0) : faceEdges sq (face3Move M f) = (faceEdges sq f).map (Edge3.move M) := by
  simp only [faceEdges, face3Move, loopEdges_map, List.map_map, Function.comp_def,
    faceCentre3_move sq M hM f.2 h hA, faceNormal3_move M hM f.2 h, mean_act M f.2 h, mkEdge_move M hM]

theorem cellEdges_move (sq : Rat → Rat) (M : Motion) (hM : M.R.IsRot) (c : Cell3)
    (hf : ∀ f ∈ c, f.2 ≠ [] ∧ faceArea3 sq f.2 ≠ 0) :
    cellEdges sq (Cell3.move M c) = (cellEdges sq c).map (Edge3.move M) := by
  induction c with
  | nil => rfl
  | cons f l ih =>
    have h1 := hf f List.mem_cons_self
    simp only [Cell3.move, List.map_cons, cellEdges, List.map_append, faceEdges_move sq M hM f h1.1 h1.2]
    congr 1
    exact ih (fun b hb => hf b (List.mem_cons_of_mem _ hb))

theorem tcc3_eq_mean (es : List Edge3) : tcc3 es = mean (es.map (·.fc)) := by
  simp only [tcc3, mean, List.length_map]

theorem tcc3_move (M : Motion) (es : List Edge3) (h : es ≠ []) : tcc3 (es.map (Edge3.move M)) = act M (tcc3 es) := by
  rw [tcc3_eq_mean, tcc3_eq_mean, List.map_map]
  rw [show List.map ((fun x => x.fc) ∘ Edge3.move M) es = es.map (fun e => act M e.fc) from
    List.map_congr_left (fun e _ => rfl)]
  exact mean_map_act M (fun e : Edge3 => e.fc) es h

theorem dist3_move (M : Motion) (t : V3) (e : Edge3) : dist3 (act M t) (e.move M) = rot M (dist3 t e) := by
  simp only [dist3, Edge3.move, act_sub_act]

theorem outer_move (M : Motion) (e : Edge3) : (e.move M).outer = rot M e.outer := rfl

theorem tetVol_move (M : Motion) (hM : M.R.IsRot) (t : V3) (e : Edge3) :
    tetVol (act M t) (e.move M) = tetVol t e := by
  simp only [tetVol, dist3_move, outer_move, dot_rot M hM]

theorem vol3_move (M : Motion) (hM : M.R.IsRot) (es : List Edge3) (h : es ≠ []) :
    vol3 (es.map (Edge3.move M)) = vol3 es := by
  simp only [vol3, tcc3_move M es h, List.map_map, Function.comp_def, tetVol_move M hM]

theorem wtet_move (M : Motion) (hM : M.R.IsRot) (t : V3) (e : Edge3) :
    wtet (act M t) (e.move M) = rot M (wtet t e) := by
  simp only [wtet, tetVol_move M hM, dist3_move, rot_smul]

theorem cen3_move (M : Motion) (hM : M.R.IsRot) (es : List Edge3) (h : es ≠ []) :
    cen3 (es.map (Edge3.move M)) = act M (cen3 es) := by
  unfold cen3
  rw [vol3_move M hM es h, tcc3_move M es h]
  simp only [List.map_map, Function.comp_def, wtet_move M hM]
  rw [vsum_map_rot' M (wtet (tcc3 es)) es, ← rot_smul, act_add_rot]

theorem negTet_move (M : Motion) (hM : M.R.IsRot) (es : List Edge3) (h : es ≠ []) :
    negTet (es.map (Edge3.move M)) = negTet es := by
  simp only [negTet, tcc3_move M es h, List.any_map, Function.comp_def, tetBad, tetVol_move M hM]
  rfl

theorem loopEdges_ne_nil (ps : List V3) (h : ps ≠ []) : loopEdges ps ≠ [] := by
  cases ps with
  | nil => exact absurd rfl h
  | cons p l =>
    intro hnil
    have := congrArg List.length hnil
    simp [loopEdges, nextOf] at this

theorem cellEdges_ne_nil (sq : Rat → Rat) (c : Cell3) (hc : c ≠ []) (hf : ∀ f ∈ c, f.2 ≠ []) : cellEdges sq c ≠ [] := by
  cases c with
  | nil => exact absurd rfl hc
  | cons f l =>
    intro hnil
    simp only [cellEdges, List.append_eq_nil_iff, faceEdges, List.map_eq_nil_iff] at hnil
    exact loopEdges_ne_nil f.2 (hf f List.mem_cons_self) hnil.1

theorem any_congr_mem {α : Type} (l : List α) (p q : α → Bool) (h : ∀ a ∈ l, p a = q a) : l.any p = l.any q := by
  induction l with
  | nil => rfl
  | cons a l ih =>
    simp only [List.any_cons, h a List.mem_cons_self, ih (fun b hb => h b (List.mem_cons_of_mem _ hb))]

theorem cellVol3_move (sq : Rat → Rat) (M : Motion) (hM : M.R.IsRot) (c : Cell3) (hc : c ≠ [])
    (hf : ∀ f ∈ c, f.2 ≠ [] ∧ faceArea3 sq f.2 ≠ 0) : cellVol3 sq (Cell3.move M c) = cellVol3 sq c := by
  simp only [cellVol3, cellEdges_move sq M hM c hf]
  exact vol3_move M hM _ (cellEdges_ne_nil sq c hc (fun f hm => (hf f hm).1))

theorem cellCen3_move (sq : Rat → Rat) (M : Motion) (hM : M.R.IsRot) (c : Cell3) (hc : c ≠ [])
    (hf : ∀ f ∈ c, f.2 ≠ [] ∧ faceArea3 sq f.2 ≠ 0) : cellCen3 sq (Cell3.move M c) = act M (cellCen3 sq c) := by
  simp only [cellCen3, cellEdges_move sq M hM c hf]
  exact cen3_move M hM _ (cellEdges_ne_nil sq c hc (fun f hm => (hf f hm).1))

theorem geom3_move (sq : Rat → Rat) (M : Motion) (hM : M.R.IsRot) (g : Grid3)
    (hF : ∀ ps ∈ g.faces, ps ≠ [] ∧ faceArea3 sq ps ≠ 0)
    (hC : ∀ c ∈ g.cells, c ≠ [] ∧ ∀ f ∈ c, f.2 ≠ [] ∧ faceArea3 sq f.2 ≠ 0) :
    geom3 sq (g.move M) = (geom3 sq g).move M := by
  simp only [geom3, Grid3.move, Out.move, List.map_map]
  congr 1
  · exact List.map_congr_left (fun ps hm => faceArea3_move sq M hM ps (hF ps hm).1)
  · exact List.map_congr_left (fun ps hm => faceCentre3_move sq M hM ps (hF ps hm).1 (hF ps hm).2)
  · exact List.map_congr_left (fun ps hm => faceNormal3_move M hM ps (hF ps hm).1)
  · exact List.map_congr_left (fun c hm => cellVol3_move sq M hM c (hC c hm).1 (hC c hm).2)
  · exact List.map_congr_left (fun c hm => cellCen3_move sq M hM c (hC c hm).1 (hC c hm).2)

theorem geom3Err_move (sq : Rat → Rat) (M : Motion) (hM : M.R.IsRot) (g : Grid3)
    (hC : ∀ c ∈ g.cells, c ≠ [] ∧ ∀ f ∈ c, f.2 ≠ [] ∧ faceArea3 sq f.2 ≠ 0) :
    geom3Err sq (g.move M) = geom3Err sq g := by
  simp only [geom3Err, Grid3.move, List.any_map, Function.comp_def]
  apply any_congr_mem
  intro c hm
  rw [cellEdges_move sq M hM c (hC c hm).2]
  exact negTet_move M hM _ (cellEdges_ne_nil sq c (hC c hm).1 (fun f hf => ((hC c hm).2 f hf).1))


end PorepyVerif.C20
