/- C20 line-protocol driver: `lake env lean --run PorepyVerif/C20/Driver.lean`
   op `geom`: {"op":"geom","dim":1|2|3,"grid":<resolved grid>} → the five geometry fields computed by the model
   (square roots through `asqrt`), or {"err":…} where the code raises.
   op `motion`: the rigid motion of the case applied exactly to the reference nodes. -/
import PorepyVerif.Common.Wire
import PorepyVerif.C20.Model
open Lean PV PorepyVerif.C20

def jV3 (j : Json) : R V3 := do
  match (← jList jRat j) with
  | [x, y, z] => pure ⟨x, y, z⟩
  | _ => throw s!"not a 3-vector: {j.compress}"

def fV3 (j : Json) (k : String) : R V3 := field j k >>= jV3
def fV3s (j : Json) (k : String) : R (List V3) := field j k >>= jList jV3

def ofV3 (v : V3) : Json := ofRats [v.x, v.y, v.z]

def ofOut (o : Out) : Json :=
  obj [("fa", ofRats o.fa), ("fc", ofList ofV3 o.fc), ("fn", ofList ofV3 o.fn), ("cv", ofRats o.cv), ("cc", ofList ofV3 o.cc)]

def jInc1 (j : Json) : R Inc1 := do
  pure ⟨← fNat j "f", ← fInt j "s", ← fV3 j "x"⟩

def jCell1 (j : Json) : R (Inc1 × Inc1) := do
  match (← jList jInc1 j) with
  | [a, b] => pure (a, b)
  | _ => throw "a 1-d cell needs exactly two faces"

def jInc2 (j : Json) : R Inc2 := do
  pure ⟨← fNat j "f", ← fInt j "s", ← fNat j "n0", ← fNat j "n1", ← fV3 j "a", ← fV3 j "b"⟩

def jPair (j : Json) : R (V3 × V3) := do
  match (← jList jV3 j) with
  | [a, b] => pure (a, b)
  | _ => throw "a 2-d face needs exactly two nodes"

def jFace3 (j : Json) : R (Int × List V3) := do
  pure (← fInt j "s", ← fV3s j "ps")

def geom (j : Json) : R Json := do
  let dim ← fNat j "dim"
  let g ← field j "grid"
  match dim with
  | 1 =>
    let gr : Grid1 := ⟨← fV3s g "nodes", ← fV3s g "faces", ← field g "cells" >>= jList jCell1⟩
    pure (ofOut (geom1 asqrt gr))
  | 2 =>
    let gr : Grid2 := ⟨← fV3s g "nodes", ← field g "faces" >>= jList jPair, ← field g "cells" >>= jList (jList jInc2)⟩
    if geom2Err asqrt gr then pure (err "RuntimeError") else pure (ofOut (geom2 asqrt gr))
  | 3 =>
    let gr : Grid3 := ⟨← field g "faces" >>= jList (jList jV3), ← field g "cells" >>= jList (jList jFace3)⟩
    if geom3Err asqrt gr then pure (err "ValueError") else pure (ofOut (geom3 asqrt gr))
  | _ => throw s!"unsupported dim {dim}"

/-- op `motion`: {"q":[w,x,y,z],"t":[..],"pts":[[..],..]} → is the quaternion matrix a proper rotation (decided with
    the model's `IsRot`), and the exact images of the points under the model's `act` -/
def motion (j : Json) : R Json := do
  let t ← fV3 j "t"
  let pts ← fV3s j "pts"
  match (← fRats j "q") with
  | [w, x, y, z] =>
    let M : Motion := ⟨quatMat w x y z, t⟩
    pure (obj [("isrot", Json.bool (decide M.R.IsRot)), ("pts", ofList ofV3 (pts.map (act M)))])
  | _ => throw "q needs four entries"

def step (j : Json) : R Json := do
  let op ← fStr j "op"
  match op with
  | "geom" => geom j
  | "motion" => motion j
  | _ => throw s!"unknown op {op}"

def main : IO Unit := runPure step
