/- C20 line-protocol driver: `lake env lean --run PorepyVerif/C20/Driver.lean`
   op `geom`: {"op":"geom","dim":1|2|3,"grid":<resolved grid>} → the five geometry fields computed by the model
   (square roots through `asqrt`), or {"err":…} where the code raises.
   op `motion`: the rigid motion of the case applied exactly to the reference nodes.
   op `mapgrid`: compute_geometry + map_grid (rotation onto the coordinate plane / axis, active dimensions). -/
import PorepyVerif.Common.Wire
import PorepyVerif.C20.Model
open Lean PV PorepyVerif.C20

def jV3 (j : Json) : R (V3 Rat) := do
  match (← jList jRat j) with
  | [x, y, z] => pure ⟨x, y, z⟩
  | _ => throw s!"not a 3-vector: {j.compress}"

def fV3 (j : Json) (k : String) : R (V3 Rat) := field j k >>= jV3
def fV3s (j : Json) (k : String) : R (List (V3 Rat)) := field j k >>= jList jV3

def ofV3 (v : V3 Rat) : Json := ofRats [v.x, v.y, v.z]

/-- `hyp` = the decidable hypothesis (`wf1` / `wf2` / `wf3`) of the equivariance theorem for this grid -/
def ofOut (o : Out Rat) (hyp : Bool) : Json :=
  obj [("fa", ofRats o.fa), ("fc", ofList ofV3 o.fc), ("fn", ofList ofV3 o.fn), ("cv", ofRats o.cv), ("cc", ofList ofV3 o.cc),
       ("hyp", Json.bool hyp)]

def jInc1 (j : Json) : R (Inc1 Rat) := do
  pure ⟨← fNat j "f", ← fInt j "s", ← fV3 j "x"⟩

def jCell1 (j : Json) : R (Inc1 Rat × Inc1 Rat) := do
  match (← jList jInc1 j) with
  | [a, b] => pure (a, b)
  | _ => throw "a 1-d cell needs exactly two faces"

def jInc2 (j : Json) : R (Inc2 Rat) := do
  pure ⟨← fNat j "f", ← fInt j "s", ← fNat j "n0", ← fNat j "n1", ← fV3 j "a", ← fV3 j "b"⟩

def jPair (j : Json) : R (V3 Rat × V3 Rat) := do
  match (← jList jV3 j) with
  | [a, b] => pure (a, b)
  | _ => throw "a 2-d face needs exactly two nodes"

def jFace3 (j : Json) : R (Int × List (V3 Rat)) := do
  pure (← fInt j "s", ← fV3s j "ps")

def geom (j : Json) : R Json := do
  let dim ← fNat j "dim"
  let g ← field j "grid"
  match dim with
  | 0 =>
    let gr : Grid0 Rat := ⟨← fV3s g "nodes", ← fV3s g "centers"⟩
    pure (ofOut (geom0 gr) true)
  | 1 =>
    let gr : Grid1 Rat := ⟨← fV3s g "nodes", ← fV3s g "faces", ← field g "cells" >>= jList jCell1⟩
    pure (ofOut (geom1 asqrt gr) (wf1 gr))
  | 2 =>
    let gr : Grid2 Rat := ⟨← fV3s g "nodes", ← field g "faces" >>= jList jPair, ← field g "cells" >>= jList (jList jInc2)⟩
    if geom2Err asqrt gr then pure (err "RuntimeError") else pure (ofOut (geom2 asqrt gr) (wf2 asqrt gr))
  | 3 =>
    let gr : Grid3 Rat := ⟨← field g "faces" >>= jList (jList jV3), ← field g "cells" >>= jList (jList jFace3)⟩
    if geom3Err asqrt gr then pure (err "ValueError") else pure (ofOut (geom3 asqrt gr) (wf3 asqrt gr))
  | _ => throw s!"unsupported dim {dim}"

def ofMat (R : Mat3 Rat) : Json := ofList ofV3 [R.r1, R.r2, R.r3]

def ofMap (m : MapOut Rat) (margin : Rat) : Json :=
  obj [("R", ofMat m.R), ("dim", Json.arr #[Json.bool m.mx, Json.bool m.my, Json.bool m.mz]),
       ("cc", ofList ofV3 m.cc), ("fn", ofList ofV3 m.fn), ("fc", ofList ofV3 m.fc), ("nodes", ofList ofV3 m.nodes),
       ("margin", ofRat margin)]

def countTrue (m : MapOut Rat) : Nat := (if m.mx then 1 else 0) + (if m.my then 1 else 0) + (if m.mz then 1 else 0)

/-- op `mapgrid`: compute_geometry followed by map_grid on a 1-D or 2-D grid; `margin` = how safely the argmax
    selections inside compute_tangent / compute_normal are decided (rounding may pick another point on a tie) -/
def mapgrid (j : Json) : R Json := do
  let dim ← fNat j "dim"
  let g ← field j "grid"
  match dim with
  | 1 =>
    let gr : Grid1 Rat := ⟨← fV3s g "nodes", ← fV3s g "faces", ← field g "cells" >>= jList jCell1⟩
    let m := mapGrid asqrt 1 gr.nodes (geom1 asqrt gr)
    if countTrue m != 1 then pure (err "AssertionError") else
    pure (ofMap m (argmaxMargin ((centred gr.nodes).map V3.norm2)))
  | 2 =>
    let gr : Grid2 Rat := ⟨← fV3s g "nodes", ← field g "faces" >>= jList jPair, ← field g "cells" >>= jList (jList jInc2)⟩
    if geom2Err asqrt gr || collinearErr asqrt gr.nodes then pure (err "RuntimeError") else
    let m := mapGrid asqrt 2 gr.nodes (geom2 asqrt gr)
    if countTrue m != 2 then pure (err "AssertionError") else
    let m1 := argmaxMargin ((centred gr.nodes).map (nrm asqrt))
    let m2 := argmaxMargin ((pnCross asqrt gr.nodes).map (nrm asqrt))
    pure (ofMap m (if m1 < m2 then m1 else m2))
  | _ => throw s!"mapgrid: unsupported dim {dim}"

/-- op `motion`: {"q":[w,x,y,z],"t":[..],"pts":[[..],..]} → is the quaternion matrix a proper rotation (decided with
    the model's `IsRot`), and the exact images of the points under the model's `act` -/
def motion (j : Json) : R Json := do
  let t ← fV3 j "t"
  let pts ← fV3s j "pts"
  match (← fRats j "q") with
  | [w, x, y, z] =>
    let M : Motion Rat := ⟨quatMat w x y z, t⟩
    pure (obj [("isrot", Json.bool (decide M.R.IsRot)), ("pts", ofList ofV3 (pts.map (act M)))])
  | _ => throw "q needs four entries"

/-- op `diam`: {"cells":[[node coordinates of a cell],..]} → `Grid.cell_diameters()` -/
def diam (j : Json) : R Json := do
  let cells ← field j "cells" >>= jList (jList jV3)
  pure (ofRats (cells.map (cellDiam asqrt)))

def step (j : Json) : R Json := do
  let op ← fStr j "op"
  match op with
  | "geom" => geom j
  | "motion" => motion j
  | "mapgrid" => mapgrid j
  | "diam" => diam j
  | _ => throw s!"unknown op {op}"

def main : IO Unit := runPure step
