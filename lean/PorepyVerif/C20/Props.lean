/-
C20 — property theorems (statements only depend on Model.lean; proofs in Lemmas.lean).

Property: translating and rotating a grid's nodes (including embedding 1-D and 2-D grids in arbitrary lines
and planes of 3-D) leaves cell volumes and face areas unchanged and transforms centres and normals by the
same motion.

Everywhere: `K` is any linearly ordered field (ℚ in the examples and the driver, ℝ in the `_real` theorems);
`M : Motion K` is `x ↦ R x + t` with an explicit 3×3 matrix `R` over `K`; `M.R.IsRot` says
`RᵀR = 1 ∧ det R = 1` (seven polynomial equations, decidable); `act M` moves points, `rot M` moves vectors;
`sq : K → K` stands for the square root and is arbitrary (the statements hold for every function; the `_real`
theorems take `Real.sqrt`).
`Out.move M o` leaves `fa` (face areas) and `cv` (cell volumes) alone, maps `fc`, `cc` (centres) with `act M`
and `fn` (normals) with `rot M`.
-/
import PorepyVerif.C20.Lemmas

namespace PorepyVerif.C20
open V3

set_option linter.unusedSectionVars false

variable {K : Type} [Field K] [LinearOrder K] [IsStrictOrderedRing K]

/-! ### rotations and translations act on the building blocks (differences, dot and cross products) -/

/-- dot products are rotation invariant (`RᵀR = 1`). -/
theorem dot_rotate (M : Motion K) (hM : M.R.IsRot) (a b : V3 K) : dot (rot M a) (rot M b) = dot a b :=
  dot_rot M hM a b

/-- squared lengths are rotation invariant. -/
theorem norm2_rotate (M : Motion K) (hM : M.R.IsRot) (a : V3 K) : norm2 (rot M a) = norm2 a :=
  norm2_rot M hM a

/-- `R a × R b = R (a × b)` for proper rotations (`RᵀR = 1`, `det R = 1`; false for reflections). -/
theorem cross_rotate (M : Motion K) (hM : M.R.IsRot) (a b : V3 K) : cross (rot M a) (rot M b) = rot M (cross a b) :=
  cross_rot M hM a b

/-- difference vectors do not see the translation. -/
theorem diff_translate (M : Motion K) (a b : V3 K) : sub (act M a) (act M b) = rot M (sub a b) :=
  act_sub_act M a b

/-- the motions the harness generates satisfy the hypothesis `IsRot`: the matrix of any non-zero rational
    quaternion is a proper rotation. -/
theorem quat_rotation_isRot (w x y z : K) (h : w * w + x * x + y * y + z * z ≠ 0) : (quatMat w x y z).IsRot :=
  quatMat_isRot w x y z h

/-- area-weighted normal of a triangle (the sub-simplex / sub-face normals of the 2-D and 3-D code). -/
theorem tri_normal_equivariant (M : Motion K) (hM : M.R.IsRot) (a b c : V3 K) :
    triNormal (act M a) (act M b) (act M c) = rot M (triNormal a b c) := by
  simp only [triNormal, act_sub_act, cross_rot M hM, rot_smul]

/-- squared area of a triangle. -/
theorem tri_area2_invariant (M : Motion K) (hM : M.R.IsRot) (a b c : V3 K) :
    triArea2 (act M a) (act M b) (act M c) = triArea2 a b c := by
  simp only [triArea2, tri_normal_equivariant M hM, norm2_rot M hM]

/-- signed volume of a tetrahedron (triple product; the sub-tetrahedra of the 3-D code). -/
theorem tet_volume_invariant (M : Motion K) (hM : M.R.IsRot) (a b c d : V3 K) :
    tetVolume (act M a) (act M b) (act M c) (act M d) = tetVolume a b c d := by
  simp only [tetVolume, act_sub_act, cross_rot M hM, dot_rot M hM]

/-- weighted averages with invariant weights (cell centres, face centres): the average of the moved points
    is the moved average, provided the total weight is not zero. -/
theorem centroid_equivariant (M : Motion K) (l : List (K × V3 K)) (hW : rsum (l.map (·.1)) ≠ 0) :
    wavg (l.map fun p => (p.1, act M p.2)) = act M (wavg l) :=
  wavg_act M l hW

/-! ### line and plane fitting (map_geometry.compute_tangent / compute_normal) -/

/-- `compute_tangent`: the tangent of the moved point set is the rotated tangent; in particular the index
    chosen by `argmax` is the same (exact arithmetic). Used by `_compute_geometry_1d`. -/
theorem tangent_equivariant (sq : K → K) (M : Motion K) (hM : M.R.IsRot) (pts : List (V3 K)) (h : pts ≠ []) :
    tangent sq (pts.map (act M)) = rot M (tangent sq pts) :=
  tangent_act sq M hM pts h

/-- `compute_normal` (point selection by two `argmax` included): the normal of the moved point cloud is the
    rotated normal. Used by the non-oriented branch of `_compute_geometry_2d`. -/
theorem plane_normal_equivariant (sq : K → K) (M : Motion K) (hM : M.R.IsRot) (pts : List (V3 K)) (h : pts ≠ []) :
    planeNormal sq (pts.map (act M)) = rot M (planeNormal sq pts) :=
  planeNormal_act sq M hM pts h

/-! ### grid level: all fields of `compute_geometry` -/

/-- `_compute_geometry_1d` (embedded line grids): areas and volumes invariant, centres moved, normals
    (tangent ± by the sign convention, flip test included) rotated. -/
theorem geom1_equivariant (sq : K → K) (M : Motion K) (hM : M.R.IsRot) (g : Grid1 K) (h : g.nodes ≠ []) :
    geom1 sq (g.move M) = (geom1 sq g).move M :=
  geom1_move sq M hM g h

/-- `_compute_geometry_2d` (embedded planar grids), every branch: orientation checks 1-3 come out the same
    for the moved grid; oriented path (fan of sub-triangles about the average of the face centres, plane
    normal from the sum of the sub-normals) and fallback path (plane normal from `compute_normal`,
    unsigned sub-areas, flipping of normals). Hypotheses: the grid has nodes, every cell has a face, no cell
    volume is zero (the code divides by it). -/
theorem geom2_equivariant (sq : K → K) (M : Motion K) (hM : M.R.IsRot) (g : Grid2 K) (hn : g.nodes ≠ [])
    (hc : ∀ c ∈ g.cells, c ≠ []) (hv : ∀ v ∈ (geom2 sq g).cv, v ≠ 0) :
    geom2 sq (g.move M) = (geom2 sq g).move M :=
  geom2_move sq M hM g hn hc hv

/-- … and the branch taken is itself invariant: the moved grid fails the same orientation checks. -/
theorem geom2_branches_invariant (sq : K → K) (M : Motion K) (hM : M.R.IsRot) (g : Grid2 K) (hn : g.nodes ≠ [])
    (hc : ∀ c ∈ g.cells, c ≠ []) :
    check1 (g.move M) = check1 g ∧ check2Fails sq (g.move M) = check2Fails sq g ∧
      volOriented (nhat sq (g.move M)) (g.move M) = volOriented (nhat sq g) g := by
  refine ⟨check1_move M g, check2Fails_move sq M hM g hc, ?_⟩
  rw [nhat_move sq M hM g hn hc]
  exact volOriented_move M hM _ g hc

/-- one polygonal cell given by its vertex loop `vs` (any length, convex or not, any plane of 3-D), geometry
    as the code forms it (`polyGrid vs`: faces = consecutive vertex pairs, fan of sub-triangles about the
    average of the edge midpoints): volume and edge lengths invariant, centre and edge midpoints moved,
    edge normals rotated. -/
theorem polygon_cell_geometry_equivariant (sq : K → K) (M : Motion K) (hM : M.R.IsRot) (vs : List (V3 K))
    (hne : vs ≠ []) (hv : ∀ v ∈ (geom2 sq (polyGrid vs)).cv, v ≠ 0) :
    geom2 sq (polyGrid (vs.map (act M))) = (geom2 sq (polyGrid vs)).move M := by
  rw [polyGrid_move]
  refine geom2_move sq M hM (polyGrid vs) hne ?_ hv
  intro c hmem
  simp only [polyGrid, List.mem_singleton] at hmem
  rw [hmem]
  exact polyIncs_ne_nil vs hne

/-- one face of a 3-D grid given by its node loop (planar or not): area (sum of the sub-triangle areas)
    invariant, normal (sum of the sub-normals) rotated, centre (area-weighted mean of the sub-centroids)
    moved. First half of `_compute_geometry_3d`. -/
theorem face3_geometry_equivariant (sq : K → K) (M : Motion K) (hM : M.R.IsRot) (ps : List (V3 K)) (h : ps ≠ [])
    (hA : faceArea3 sq ps ≠ 0) :
    faceArea3 sq (ps.map (act M)) = faceArea3 sq ps ∧
      faceNormal3 (ps.map (act M)) = rot M (faceNormal3 ps) ∧
      faceCentre3 sq (ps.map (act M)) = act M (faceCentre3 sq ps) :=
  ⟨faceArea3_move sq M hM ps h, faceNormal3_move M hM ps h, faceCentre3_move sq M hM ps h hA⟩

/-- one cell of a 3-D grid given by its faces (sign in `cell_faces`, node loop): volume (sum of the signed
    sub-tetrahedra about the mean of the face centres) invariant, centre moved, and the list of signed
    sub-tetrahedron volumes (what the "negative tetrahedron" test looks at) invariant. Second half of `_compute_geometry_3d`. -/
theorem cell3_geometry_equivariant (sq : K → K) (M : Motion K) (hM : M.R.IsRot) (c : Cell3 K) (hc : c ≠ [])
    (hf : ∀ f ∈ c, f.2 ≠ [] ∧ faceArea3 sq f.2 ≠ 0) :
    cellVol3 sq (Cell3.move M c) = cellVol3 sq c ∧ cellCen3 sq (Cell3.move M c) = act M (cellCen3 sq c) ∧
      cellTetVols sq (Cell3.move M c) = cellTetVols sq c :=
  ⟨cellVol3_move sq M hM c hc hf, cellCen3_move sq M hM c hc hf, cellTetVols_move sq M hM c hc hf⟩

/-- `_compute_geometry_3d`, whole grid: all five fields, and the ValueError test. Hypotheses: faces have
    nodes and non-zero area (the code divides by it), cells have faces. -/
theorem geom3_equivariant (sq : K → K) (M : Motion K) (hM : M.R.IsRot) (g : Grid3 K)
    (hF : ∀ ps ∈ g.faces, ps ≠ [] ∧ faceArea3 sq ps ≠ 0)
    (hC : ∀ c ∈ g.cells, c ≠ [] ∧ ∀ f ∈ c, f.2 ≠ [] ∧ faceArea3 sq f.2 ≠ 0) :
    geom3 sq (g.move M) = (geom3 sq g).move M ∧ geom3Err sq (g.move M) = geom3Err sq g :=
  ⟨geom3_move sq M hM g hF hC, geom3Err_move sq M hM g hC⟩

/-! ### the hypotheses as decidable input conditions; neighbouring entry points (0-D grids, `cell_diameters`)

`wf1`, `wf2 sq`, `wf3 sq` are Boolean functions of the grid; the driver evaluates them on every generated grid
(answer field `hyp`) and the harness requires `true`, so the hypotheses of the equivariance theorems are
checked inputs, not assumptions about the generator. -/

/-- `_compute_geometry_0d` (point grids, the dispatcher's fourth branch): unit volumes, centres moved. -/
theorem geom0_equivariant (M : Motion K) (g : Grid0 K) : geom0 (g.move M) = (geom0 g).move M := by
  simp only [geom0, Grid0.move, Out.move, List.map_map, Function.comp_def, List.map_nil]

theorem pairDists_act (sq : K → K) (M : Motion K) (hM : M.R.IsRot) (ps : List (V3 K)) :
    pairDists sq (ps.map (act M)) = pairDists sq ps := by
  induction ps with
  | nil => rfl
  | cons p l ih =>
    simp only [List.map_cons, pairDists, ih, List.map_map, Function.comp_def, act_sub_act, nrm_rot sq M hM]

/-- `Grid.cell_diameters`: the diameter of a cell (largest node distance) is invariant -/
theorem cell_diameter_invariant (sq : K → K) (M : Motion K) (hM : M.R.IsRot) (ps : List (V3 K)) :
    cellDiam sq (ps.map (act M)) = cellDiam sq ps := by
  simp only [cellDiam, pairDists_act sq M hM]

theorem isEmpty_false_ne_nil {α : Type} {l : List α} (h : (!l.isEmpty) = true) : l ≠ [] := by
  cases l with
  | nil => simp at h
  | cons a l => simp

/-- `geom1_equivariant` with its hypothesis as the decidable condition `wf1`. -/
theorem geom1_equivariant_wf (sq : K → K) (M : Motion K) (hM : M.R.IsRot) (g : Grid1 K) (h : wf1 g = true) :
    geom1 sq (g.move M) = (geom1 sq g).move M :=
  geom1_move sq M hM g (isEmpty_false_ne_nil h)

/-- `geom2_equivariant` under `wf2 sq g = true` (nodes exist, cells have faces, no zero volume). -/
theorem geom2_equivariant_wf (sq : K → K) (M : Motion K) (hM : M.R.IsRot) (g : Grid2 K) (h : wf2 sq g = true) :
    geom2 sq (g.move M) = (geom2 sq g).move M := by
  simp only [wf2, Bool.and_eq_true, List.all_eq_true] at h
  obtain ⟨⟨h1, h2⟩, h3⟩ := h
  refine geom2_move sq M hM g (isEmpty_false_ne_nil h1) (fun c hc => isEmpty_false_ne_nil (h2 c hc)) ?_
  intro v hv hv0
  have := h3 v hv
  simp [hv0] at this

theorem faceOk_iff (sq : K → K) (ps : List (V3 K)) (h : faceOk sq ps = true) : ps ≠ [] ∧ faceArea3 sq ps ≠ 0 := by
  simp only [faceOk, Bool.and_eq_true] at h
  refine ⟨isEmpty_false_ne_nil h.1, fun h0 => ?_⟩
  have := h.2
  simp [h0] at this

/-- `geom3_equivariant` under `wf3 sq g = true` (faces have nodes and area, cells have faces). -/
theorem geom3_equivariant_wf (sq : K → K) (M : Motion K) (hM : M.R.IsRot) (g : Grid3 K) (h : wf3 sq g = true) :
    geom3 sq (g.move M) = (geom3 sq g).move M ∧ geom3Err sq (g.move M) = geom3Err sq g := by
  simp only [wf3, Bool.and_eq_true, List.all_eq_true] at h
  obtain ⟨hF, hC⟩ := h
  have hF' : ∀ ps ∈ g.faces, ps ≠ [] ∧ faceArea3 sq ps ≠ 0 := fun ps hp => faceOk_iff sq ps (hF ps hp)
  have hC' : ∀ c ∈ g.cells, c ≠ [] ∧ ∀ f ∈ c, f.2 ≠ [] ∧ faceArea3 sq f.2 ≠ 0 := fun c hc =>
    ⟨isEmpty_false_ne_nil (hC c hc).1, fun f hf => faceOk_iff sq f.2 ((hC c hc).2 f hf)⟩
  exact ⟨geom3_move sq M hM g hF' hC', geom3Err_move sq M hM g hC'⟩

/-! ### the real numbers: the true square root and arbitrary real rotation matrices

Everything above is proved for every linearly ordered field `K` and every function `sq : K → K`. Taking
`K = ℝ` and `sq = Real.sqrt` gives the statements about the geometry the code computes up to rounding:
`M : Motion ℝ` is ANY proper rigid motion (real rotation matrix, not only a rational one). -/

/-- with `Real.sqrt`, `nrm` is the Euclidean length … -/
theorem euclidean_length_real (v : V3 ℝ) : 0 ≤ nrm Real.sqrt v ∧ nrm Real.sqrt v * nrm Real.sqrt v = norm2 v :=
  ⟨Real.sqrt_nonneg _, nrm_sqrt_mul_self v⟩

/-- … which rotations preserve: `‖R v‖ = ‖v‖` … -/
theorem norm_rotate_real (M : Motion ℝ) (hM : M.R.IsRot) (v : V3 ℝ) :
    Real.sqrt (norm2 (rot M v)) = Real.sqrt (norm2 v) := by
  rw [norm2_rot M hM]

/-- … `v / ‖v‖` is a unit vector for `v ≠ 0` … -/
theorem unit_normal_is_unit_real (v : V3 ℝ) (h : v ≠ zero) :
    dot (normalize Real.sqrt v) (normalize Real.sqrt v) = 1 :=
  normalize_sqrt_unit h

/-- … and normalisation commutes with rotations: `(R v) / ‖R v‖ = R (v / ‖v‖)`. -/
theorem unit_normal_equivariant_real (M : Motion ℝ) (hM : M.R.IsRot) (v : V3 ℝ) :
    normalize Real.sqrt (rot M v) = rot M (normalize Real.sqrt v) :=
  normalize_rot Real.sqrt M hM v

/-- `_compute_geometry_1d` with the true square root under any real proper rigid motion. -/
theorem geom1_equivariant_real (M : Motion ℝ) (hM : M.R.IsRot) (g : Grid1 ℝ) (h : g.nodes ≠ []) :
    geom1 Real.sqrt (g.move M) = (geom1 Real.sqrt g).move M :=
  geom1_equivariant Real.sqrt M hM g h

/-- `_compute_geometry_2d` with the true square root under any real proper rigid motion (all branches). -/
theorem geom2_equivariant_real (M : Motion ℝ) (hM : M.R.IsRot) (g : Grid2 ℝ) (hn : g.nodes ≠ [])
    (hc : ∀ c ∈ g.cells, c ≠ []) (hv : ∀ v ∈ (geom2 Real.sqrt g).cv, v ≠ 0) :
    geom2 Real.sqrt (g.move M) = (geom2 Real.sqrt g).move M :=
  geom2_equivariant Real.sqrt M hM g hn hc hv

/-- `_compute_geometry_3d` with the true square root under any real proper rigid motion. -/
theorem geom3_equivariant_real (M : Motion ℝ) (hM : M.R.IsRot) (g : Grid3 ℝ)
    (hF : ∀ ps ∈ g.faces, ps ≠ [] ∧ faceArea3 Real.sqrt ps ≠ 0)
    (hC : ∀ c ∈ g.cells, c ≠ [] ∧ ∀ f ∈ c, f.2 ≠ [] ∧ faceArea3 Real.sqrt f.2 ≠ 0) :
    geom3 Real.sqrt (g.move M) = (geom3 Real.sqrt g).move M ∧
      geom3Err Real.sqrt (g.move M) = geom3Err Real.sqrt g :=
  geom3_equivariant Real.sqrt M hM g hF hC

/-! ### map_geometry: `rotation_matrix`, `project_plane_matrix` / `project_line_matrix`, `map_grid` -/

/-- the Rodrigues matrix `I + [v]ₓ + [v]ₓ²/(1 + n·ref)`, `v = n × ref`, of a unit vector `n ≠ −ref` is a proper
    rotation and takes `n` to the reference direction `ref = (0,0,1)` (any field; rational in `n`). -/
theorem rodrigues_isRot (n : V3 K) (hn : dot n n = 1) (hc : 1 + n.z ≠ 0) :
    (rodrigues n).IsRot ∧ (rodrigues n).mulVec n = ez := by
  have hd : (1 / (1 + n.z)) * (1 + n.z) = 1 := by field_simp
  have hn' : n.x * n.x + n.y * n.y + n.z * n.z = 1 := by simpa only [dot] using hn
  rw [rodrigues_entries n _ hd]
  refine ⟨rodEntries_isRot _ _ _ _ hn' hd, ?_⟩
  have := rodEntries_mulVec n.x n.y n.z _ hn' hd
  cases n
  exact this

/-- `project_plane_matrix(pts, normal = n)` / `project_line_matrix(pts, tangent = n)` as coded (`rotation_matrix`
    of the angle `arccos (n·ref)` about `n × ref`, identity for a numerically vanishing axis; `sin (arccos c)` is
    taken to be `√(1 − c²)`), over ℝ, for a unit vector `n`: it is always a proper rotation, and unless the axis
    is numerically zero it is the Rodrigues matrix and takes `n` to `ref`. -/
theorem project_matrix_real (n : V3 ℝ) (hn : dot n n = 1) :
    (projectMatrix Real.sqrt n).IsRot ∧
      (isSmall (cross n ez) = false →
        projectMatrix Real.sqrt n = rodrigues n ∧ (projectMatrix Real.sqrt n).mulVec n = ez) :=
  projectMatrix_sqrt n hn

/-- `map_grid` over ℝ (grid of dimension 1 or 2 in 3-D, fitted tangent / normal not zero): the local fields are
    the fields rotated by one proper rotation `R`, hence a rigid copy: distances and dot products of centres,
    normals and nodes are those of the embedded grid. -/
theorem map_grid_isometry_real (dim : Nat) (nodes : List (V3 ℝ)) (o : Out ℝ)
    (h2 : dim = 2 → pnRaw Real.sqrt nodes ≠ zero) (h1 : dim ≠ 2 → tangentRaw nodes ≠ zero) :
    let m := mapGrid Real.sqrt dim nodes o
    m.R.IsRot ∧ m.cc = o.cc.map m.R.mulVec ∧ m.fn = o.fn.map m.R.mulVec ∧ m.fc = o.fc.map m.R.mulVec ∧
      m.nodes = nodes.map m.R.mulVec ∧
      ∀ p q : V3 ℝ, norm2 (sub (m.R.mulVec p) (m.R.mulVec q)) = norm2 (sub p q) ∧
        dot (m.R.mulVec p) (m.R.mulVec q) = dot p q := by
  intro m
  have hR : m.R.IsRot := mapGrid_isRot dim nodes o h2 h1
  exact ⟨hR, rfl, rfl, rfl, rfl, fun p q => mulVec_isometry m.R hR p q⟩

/-- … and for a planar 2-D grid (all node differences orthogonal to the fitted normal) whose plane is not
    numerically horizontal, the third local coordinate is the same for all nodes: the grid lies in a
    coordinate plane, as `map_grid` asserts. -/
theorem map_grid_flat_real (nodes : List (V3 ℝ)) (o : Out ℝ) (h2 : pnRaw Real.sqrt nodes ≠ zero)
    (hs : isSmall (cross (planeNormal Real.sqrt nodes) ez) = false)
    (hplanar : ∀ p ∈ nodes, ∀ q ∈ nodes, dot (pnRaw Real.sqrt nodes) (sub p q) = 0) :
    ∀ p ∈ nodes, ∀ q ∈ nodes, ((mapGrid Real.sqrt 2 nodes o).R.mulVec p).z = ((mapGrid Real.sqrt 2 nodes o).R.mulVec q).z := by
  intro p hp q hq
  have hunit := normalize_sqrt_unit h2
  obtain ⟨hR, hrest⟩ := projectMatrix_sqrt (planeNormal Real.sqrt nodes) hunit
  have hRn := (hrest hs).2
  have hRdef : (mapGrid Real.sqrt 2 nodes o).R = projectMatrix Real.sqrt (planeNormal Real.sqrt nodes) := by
    simp only [mapGrid, if_true]
  rw [hRdef]
  refine mulVec_flat _ hR _ p q hRn ?_
  have := hplanar p hp q hq
  simp only [planeNormal, normalize, V3.smul, V3.dot] at this ⊢
  linear_combination (((1 : Nat) : ℝ) / nrm Real.sqrt (pnRaw Real.sqrt nodes)) * this

/-- compute_geometry followed by map_grid on the MOVED 2-D grid: the local centres / normals are the centres /
    normals of the original grid carried along by the motion and one further proper rotation. -/
theorem map_grid_of_moved_grid2_real (M : Motion ℝ) (hM : M.R.IsRot) (g : Grid2 ℝ) (hn : g.nodes ≠ [])
    (hc : ∀ c ∈ g.cells, c ≠ []) (hv : ∀ v ∈ (geom2 Real.sqrt g).cv, v ≠ 0)
    (h2 : pnRaw Real.sqrt g.nodes ≠ zero) :
    let m := mapGrid Real.sqrt 2 (g.move M).nodes (geom2 Real.sqrt (g.move M))
    m.R.IsRot ∧ m.cc = ((geom2 Real.sqrt g).cc.map (act M)).map m.R.mulVec ∧
      m.fn = ((geom2 Real.sqrt g).fn.map (rot M)).map m.R.mulVec ∧
      m.fc = ((geom2 Real.sqrt g).fc.map (act M)).map m.R.mulVec := by
  intro m
  have hmoved : pnRaw Real.sqrt (g.move M).nodes ≠ zero := by
    show pnRaw Real.sqrt (g.nodes.map (act M)) ≠ zero
    rw [pnRaw_act Real.sqrt M hM g.nodes hn]
    exact rot_ne_zero M hM h2
  have hR : m.R.IsRot := mapGrid_isRot 2 _ _ (fun _ => hmoved) (fun h => absurd rfl h)
  have hg := geom2_equivariant Real.sqrt M hM g hn hc hv
  refine ⟨hR, ?_, ?_, ?_⟩ <;> (show List.map _ _ = _; rw [hg]; rfl)

/-- the same for 1-D grids (line fitted by `compute_tangent`). -/
theorem map_grid_of_moved_grid1_real (M : Motion ℝ) (hM : M.R.IsRot) (g : Grid1 ℝ) (hn : g.nodes ≠ [])
    (h1 : tangentRaw g.nodes ≠ zero) :
    let m := mapGrid Real.sqrt 1 (g.move M).nodes (geom1 Real.sqrt (g.move M))
    m.R.IsRot ∧ m.cc = ((geom1 Real.sqrt g).cc.map (act M)).map m.R.mulVec ∧
      m.fn = ((geom1 Real.sqrt g).fn.map (rot M)).map m.R.mulVec ∧
      m.fc = ((geom1 Real.sqrt g).fc.map (act M)).map m.R.mulVec := by
  intro m
  have hmoved : tangentRaw (g.move M).nodes ≠ zero := by
    show tangentRaw (g.nodes.map (act M)) ≠ zero
    rw [tangentRaw_act M hM g.nodes hn]
    exact rot_ne_zero M hM h1
  have hR : m.R.IsRot := mapGrid_isRot 1 _ _ (fun h => absurd h (by decide)) (fun _ => hmoved)
  have hg := geom1_equivariant Real.sqrt M hM g hn
  refine ⟨hR, ?_, ?_, ?_⟩ <;> (show List.map _ _ = _; rw [hg]; rfl)

/-! ### non-vacuity: concrete rational rotations and grids satisfy every hypothesis -/

/-- rotation from the quaternion (1,1,1,0): `R = ⅓ [[1,2,2],[2,1,-2],[-2,2,-1]]`, translation (1,-2,1/2) -/
def M0 : Motion Rat := ⟨⟨⟨1/3, 2/3, 2/3⟩, ⟨2/3, 1/3, -2/3⟩, ⟨-2/3, 2/3, -1/3⟩⟩, ⟨1, -2, 1/2⟩⟩
/-- Pythagorean rotation about the x-axis (3-4-5) -/
def M1 : Motion Rat := ⟨⟨⟨1, 0, 0⟩, ⟨0, -3/5, -4/5⟩, ⟨0, 4/5, -3/5⟩⟩, ⟨0, 0, 7⟩⟩
/-- a reflection is rejected by `IsRot` -/
def Mrefl : Motion Rat := ⟨⟨⟨1, 0, 0⟩, ⟨0, 1, 0⟩, ⟨0, 0, -1⟩⟩, ⟨0, 0, 0⟩⟩

example : M0.R.IsRot := by decide +kernel
example : M0.R = quatMat 1 1 1 0 := by decide +kernel
example : M1.R = quatMat 1 2 0 0 := by decide +kernel
example : M1.R.IsRot := by decide +kernel
example : ¬ Mrefl.R.IsRot := by decide +kernel
/-- `cross_rotate` really needs `det R = 1`: it fails for the reflection -/
example : cross (rot Mrefl ⟨1, 0, 0⟩) (rot Mrefl ⟨0, 1, 0⟩) ≠ rot Mrefl (cross ⟨1, 0, 0⟩ ⟨0, 1, 0⟩) := by decide +kernel

example : cross (rot M0 ⟨1, 2, 3⟩) (rot M0 ⟨-1, 0, 5⟩) = rot M0 (cross ⟨1, 2, 3⟩ ⟨-1, 0, 5⟩) :=
  cross_rotate M0 (by decide +kernel) _ _
example : triArea2 (act M0 ⟨0, 0, 0⟩) (act M0 ⟨2, 0, 0⟩) (act M0 ⟨0, 3, 0⟩) = 9 := by decide +kernel
example : tetVolume (act M0 ⟨0, 0, 1⟩) (act M0 ⟨0, 0, 0⟩) (act M0 ⟨1, 0, 0⟩) (act M0 ⟨0, 1, 0⟩) = 1 / 6 := by decide +kernel
example : wavg ([(1, ⟨0, 0, 0⟩), (3, ⟨4, 0, 0⟩)].map fun p => (p.1, act M0 p.2)) = act M0 ⟨3, 0, 0⟩ := by
  decide +kernel

/-- a "square root" that is exact on the squares that occur below (any function would do) -/
def sq0 (q : Rat) : Rat := if q = 4 then 2 else if q = 9 then 3 else if q = 1 / 4 then 1 / 2 else q

/-- 1-D: the grid with nodes 0, 1, 3 on the x-axis (two cells) -/
def g1 : Grid1 Rat :=
  { nodes := [⟨0, 0, 0⟩, ⟨1, 0, 0⟩, ⟨3, 0, 0⟩], faces := [⟨0, 0, 0⟩, ⟨1, 0, 0⟩, ⟨3, 0, 0⟩],
    cells := [(⟨0, -1, ⟨0, 0, 0⟩⟩, ⟨1, 1, ⟨1, 0, 0⟩⟩), (⟨1, -1, ⟨1, 0, 0⟩⟩, ⟨2, 1, ⟨3, 0, 0⟩⟩)] }
example : (geom1 sq0 g1).cv = [1, 2] ∧ (geom1 sq0 g1).cc = [⟨1/2, 0, 0⟩, ⟨2, 0, 0⟩] := by decide +kernel
example : geom1 sq0 (g1.move M0) = (geom1 sq0 g1).move M0 :=
  geom1_equivariant sq0 M0 (by decide +kernel) g1 (by decide +kernel)

/-- 2-D: the L-shaped (non-convex) hexagon with area 3 -/
def lshape : List (V3 Rat) := [⟨0, 0, 0⟩, ⟨2, 0, 0⟩, ⟨2, 1, 0⟩, ⟨1, 1, 0⟩, ⟨1, 2, 0⟩, ⟨0, 2, 0⟩]
example : (geom2 sq0 (polyGrid lshape)).cv = [3] ∧ (geom2 sq0 (polyGrid lshape)).cc = [⟨5/6, 5/6, 0⟩] ∧
    check1 (polyGrid lshape) = true ∧ volOriented (nhat sq0 (polyGrid lshape)) (polyGrid lshape) = true := by
  decide +kernel
example : geom2 sq0 (polyGrid (lshape.map (act M0))) = (geom2 sq0 (polyGrid lshape)).move M0 :=
  polygon_cell_geometry_equivariant sq0 M0 (by decide +kernel) lshape (by decide +kernel) (by decide +kernel)

/-- 2-D, fallback path: a unit square whose second face is stored backwards (check 1 fails) -/
def gsq : Grid2 Rat :=
  { nodes := [⟨0, 0, 0⟩, ⟨1, 0, 0⟩, ⟨1, 1, 0⟩, ⟨0, 1, 0⟩],
    faces := [(⟨0, 0, 0⟩, ⟨1, 0, 0⟩), (⟨1, 1, 0⟩, ⟨1, 0, 0⟩), (⟨1, 1, 0⟩, ⟨0, 1, 0⟩), (⟨0, 1, 0⟩, ⟨0, 0, 0⟩)],
    cells := [[⟨0, 1, 0, 1, ⟨0, 0, 0⟩, ⟨1, 0, 0⟩⟩, ⟨1, 1, 2, 1, ⟨1, 1, 0⟩, ⟨1, 0, 0⟩⟩,
               ⟨2, 1, 2, 3, ⟨1, 1, 0⟩, ⟨0, 1, 0⟩⟩, ⟨3, 1, 3, 0, ⟨0, 1, 0⟩, ⟨0, 0, 0⟩⟩]] }
example : check1 gsq = false ∧ volOriented (nhat sq0 gsq) gsq = false := by decide +kernel
example : geom2 sq0 (gsq.move M1) = (geom2 sq0 gsq).move M1 :=
  geom2_equivariant sq0 M1 (by decide +kernel) gsq (by decide +kernel) (by decide +kernel) (by decide +kernel)

/-- 3-D: the unit right tetrahedron, faces oriented outwards -/
def tetFaces : List (List (V3 Rat)) :=
  [[⟨0, 0, 0⟩, ⟨0, 1, 0⟩, ⟨1, 0, 0⟩], [⟨0, 0, 0⟩, ⟨1, 0, 0⟩, ⟨0, 0, 1⟩],
   [⟨0, 0, 0⟩, ⟨0, 0, 1⟩, ⟨0, 1, 0⟩], [⟨1, 0, 0⟩, ⟨0, 1, 0⟩, ⟨0, 0, 1⟩]]
def g3 : Grid3 Rat := { faces := tetFaces, cells := [tetFaces.map fun ps => (1, ps)] }
example : (geom3 id g3).cv = [1 / 6] ∧ (geom3 id g3).cc = [⟨1/4, 1/4, 1/4⟩] ∧ geom3Err id g3 = false := by
  decide +kernel
example : geom3 id (g3.move M0) = (geom3 id g3).move M0 ∧ geom3Err id (g3.move M0) = geom3Err id g3 :=
  geom3_equivariant id M0 (by decide +kernel) g3 (by decide +kernel) (by decide +kernel)

example : wf1 g1 = true ∧ wf2 sq0 (polyGrid lshape) = true ∧ wf2 sq0 gsq = true ∧ wf3 id g3 = true := by decide +kernel
example : geom2 sq0 (gsq.move M1) = (geom2 sq0 gsq).move M1 :=
  geom2_equivariant_wf sq0 M1 (by decide +kernel) gsq (by decide +kernel)
example : geom0 (Grid0.move M0 ⟨[⟨1, 2, 3⟩], [⟨1, 2, 3⟩]⟩) = (geom0 (⟨[⟨1, 2, 3⟩], [⟨1, 2, 3⟩]⟩ : Grid0 Rat)).move M0 :=
  geom0_equivariant M0 _
example : cellDiam sq0 (lshape.map (act M0)) = cellDiam sq0 lshape ∧ cellDiam sq0 lshape = 8 :=
  ⟨cell_diameter_invariant sq0 M0 (by decide +kernel) lshape, by decide +kernel⟩

/-- an IRRATIONAL proper rotation (45° about the z-axis) satisfies the hypothesis of the real theorems -/
noncomputable def M45 : Motion ℝ :=
  ⟨⟨⟨Real.sqrt 2 / 2, -(Real.sqrt 2 / 2), 0⟩, ⟨Real.sqrt 2 / 2, Real.sqrt 2 / 2, 0⟩, ⟨0, 0, 1⟩⟩, ⟨Real.sqrt 2, 0, 1⟩⟩
example : M45.R.IsRot := by
  have hs : Real.sqrt 2 * Real.sqrt 2 = 2 := Real.mul_self_sqrt (by norm_num)
  simp only [Mat3.IsRot, M45, Mat3.c1, Mat3.c2, Mat3.c3, Mat3.det, V3.dot, V3.cross]
  push_cast
  refine ⟨?_, ?_, ?_, ?_, ?_, ?_, ?_⟩
  · linear_combination (1 / 2 : ℝ) * hs
  · linear_combination (1 / 2 : ℝ) * hs
  · ring
  · ring
  · ring
  · ring
  · linear_combination (1 / 2 : ℝ) * hs

/-- the Rodrigues matrix of the unit vector (2/3, 1/3, 2/3) -/
example : (rodrigues (⟨2/3, 1/3, 2/3⟩ : V3 Rat)).IsRot ∧ (rodrigues (⟨2/3, 1/3, 2/3⟩ : V3 Rat)).mulVec ⟨2/3, 1/3, 2/3⟩ = ez :=
  rodrigues_isRot _ (by decide +kernel) (by decide +kernel)
example : rodrigues (⟨2/3, 1/3, 2/3⟩ : V3 Rat) = ⟨⟨11/15, -2/15, -2/3⟩, ⟨-2/15, 14/15, -1/3⟩, ⟨2/3, 1/3, 2/3⟩⟩ := by decide +kernel

end PorepyVerif.C20
