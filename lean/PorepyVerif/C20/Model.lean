/-
C20 — executable model of `Grid.compute_geometry` (porepy/grids/grid.py: `_compute_geometry_1d`,
`_compute_geometry_2d`, `_compute_geometry_3d`) and of the plane / line fitting helpers
`compute_tangent`, `compute_normal` (porepy/geometry/map_geometry.py).  Core Lean only.

Numbers are rationals, points and vectors live in ℚ³.  Wherever the code takes a square root
(`np.sqrt`, `np.linalg.norm`) the model applies an abstract function `sq : Rat → Rat`, which is a
parameter of every definition: the theorems hold for every `sq`, the driver instantiates it with a
rational square root that is accurate to 2⁻⁶⁴ (`asqrt`).

Grids are handed over "resolved": the harness gathers the node coordinates of every face and the
faces of every cell (that gathering is numpy/scipy glue), in the order of the csc storage of
`cell_faces` / `face_nodes`, and keeps the integer labels (face ids, node ids, signs) the code
branches on.
-/
namespace PorepyVerif.C20

/-! ### vectors, matrices, rigid motions -/

structure V3 where
  x : Rat
  y : Rat
  z : Rat
deriving DecidableEq, Repr, Inhabited

namespace V3
def zero : V3 := ⟨0, 0, 0⟩
def add (a b : V3) : V3 := ⟨a.x + b.x, a.y + b.y, a.z + b.z⟩
def sub (a b : V3) : V3 := ⟨a.x - b.x, a.y - b.y, a.z - b.z⟩
def neg (a : V3) : V3 := ⟨-a.x, -a.y, -a.z⟩
def smul (c : Rat) (a : V3) : V3 := ⟨c * a.x, c * a.y, c * a.z⟩
def dot (a b : V3) : Rat := a.x * b.x + a.y * b.y + a.z * b.z
def cross (a b : V3) : V3 :=
  ⟨a.y * b.z - a.z * b.y, a.z * b.x - a.x * b.z, a.x * b.y - a.y * b.x⟩
def norm2 (a : V3) : Rat := dot a a
end V3
open V3

/-- 3×3 matrix given by its rows. -/
structure Mat3 where
  r1 : V3
  r2 : V3
  r3 : V3
deriving DecidableEq, Repr

def Mat3.mulVec (R : Mat3) (v : V3) : V3 := ⟨dot R.r1 v, dot R.r2 v, dot R.r3 v⟩
def Mat3.c1 (R : Mat3) : V3 := ⟨R.r1.x, R.r2.x, R.r3.x⟩
def Mat3.c2 (R : Mat3) : V3 := ⟨R.r1.y, R.r2.y, R.r3.y⟩
def Mat3.c3 (R : Mat3) : V3 := ⟨R.r1.z, R.r2.z, R.r3.z⟩
def Mat3.det (R : Mat3) : Rat := dot R.r1 (cross R.r2 R.r3)

/-- proper rotation: `RᵀR = 1` (orthonormal columns) and `det R = 1`. -/
def Mat3.IsRot (R : Mat3) : Prop :=
  dot R.c1 R.c1 = 1 ∧ dot R.c2 R.c2 = 1 ∧ dot R.c3 R.c3 = 1 ∧
  dot R.c1 R.c2 = 0 ∧ dot R.c1 R.c3 = 0 ∧ dot R.c2 R.c3 = 0 ∧ R.det = 1

instance (R : Mat3) : Decidable R.IsRot := by unfold Mat3.IsRot; infer_instance

/-- rigid motion `x ↦ R x + t`. -/
structure Motion where
  R : Mat3
  t : V3

/-- action on vectors (differences of points): rotation only -/
def rot (M : Motion) (v : V3) : V3 := M.R.mulVec v
/-- action on points -/
def act (M : Motion) (p : V3) : V3 := add (rot M p) M.t

/-- the rotation matrix of a (non-zero, not necessarily unit) quaternion `w + x i + y j + z k`: every rational
    proper rotation is of this form; the harness draws its motions from integer quaternions -/
def quatMat (w x y z : Rat) : Mat3 :=
  let n := w * w + x * x + y * y + z * z
  ⟨⟨(w * w + x * x - y * y - z * z) / n, 2 * (x * y - w * z) / n, 2 * (x * z + w * y) / n⟩,
   ⟨2 * (x * y + w * z) / n, (w * w - x * x + y * y - z * z) / n, 2 * (y * z - w * x) / n⟩,
   ⟨2 * (x * z - w * y) / n, 2 * (y * z + w * x) / n, (w * w - x * x - y * y + z * z) / n⟩⟩

/-! ### sums, averages, argmax -/

def vsum : List V3 → V3
  | [] => zero
  | a :: l => add a (vsum l)

def rsum : List Rat → Rat
  | [] => 0
  | a :: l => a + rsum l

/-- `pts.mean(axis=1)` -/
def mean (l : List V3) : V3 := smul (1 / (l.length : Rat)) (vsum l)

/-- weighted average `Σ wᵢ cᵢ / Σ wᵢ` (bincount of weighted centroids divided by bincount of weights) -/
def wavg (l : List (Rat × V3)) : V3 :=
  smul (1 / rsum (l.map (·.1))) (vsum (l.map fun p => smul p.1 p.2))

def argmaxAux (best : Rat) (bi : Nat) : Nat → List Rat → Nat
  | _, [] => bi
  | i, a :: l => if a > best then argmaxAux a i (i + 1) l else argmaxAux best bi (i + 1) l

/-- `np.argmax`: index of the first maximal entry -/
def argmax : List Rat → Nat
  | [] => 0
  | a :: l => argmaxAux a 0 1 l

def nrm (sq : Rat → Rat) (u : V3) : Rat := sq (norm2 u)
def normalize (sq : Rat → Rat) (u : V3) : V3 := smul (1 / nrm sq u) u

/-- all five geometry fields of a grid -/
structure Out where
  fa : List Rat   -- face_areas
  fc : List V3    -- face_centers
  fn : List V3    -- face_normals
  cv : List Rat   -- cell_volumes
  cc : List V3    -- cell_centers
deriving DecidableEq, Repr

/-- what the property says happens to the fields under the motion -/
def Out.move (M : Motion) (o : Out) : Out :=
  { fa := o.fa, fc := o.fc.map (act M), fn := o.fn.map (rot M), cv := o.cv, cc := o.cc.map (act M) }

/-! ### map_geometry.compute_tangent / compute_normal -/

def subFrom (m p : V3) : V3 := sub p m

/-- vectors from the centre of the point cloud -/
def centred (pts : List V3) : List V3 := pts.map (subFrom (mean pts))

/-- `compute_tangent(pts)`: the point farthest from the mean, normalised -/
def tangent (sq : Rat → Rat) (pts : List V3) : V3 :=
  let d := centred pts
  normalize sq (d.getD (argmax (d.map norm2)) zero)

/-- index of the longest centred vector (`v1_ind`) -/
def pnI1 (sq : Rat → Rat) (pts : List V3) : Nat := argmax ((centred pts).map (nrm sq))
def pnV1 (sq : Rat → Rat) (pts : List V3) : V3 := (centred pts).getD (pnI1 sq pts) zero
/-- cross products of the longest vector with all vectors -/
def pnCross (sq : Rat → Rat) (pts : List V3) : List V3 := (centred pts).map (cross (pnV1 sq pts))
def pnIc (sq : Rat → Rat) (pts : List V3) : Nat := argmax ((pnCross sq pts).map (nrm sq))
/-- the un-normalised normal `cross[:, cross_ind]` -/
def pnRaw (sq : Rat → Rat) (pts : List V3) : V3 := (pnCross sq pts).getD (pnIc sq pts) zero
/-- `compute_normal(pts)` -/
def planeNormal (sq : Rat → Rat) (pts : List V3) : V3 := normalize sq (pnRaw sq pts)

def rabs (q : Rat) : Rat := if q < 0 then -q else q

/-- the collinearity test of `compute_normal` (`np.allclose(normal, 0, atol=tol * nrm_scaling)` → RuntimeError).
    It is component-wise, hence NOT rotation invariant; it is reproduced for the correspondence only. -/
def collinearErr (sq : Rat → Rat) (pts : List V3) : Bool :=
  let n := pnRaw sq pts
  let n1 := ((centred pts).map (nrm sq)).getD (pnI1 sq pts) 0
  let s := n1 * n1                                    -- nrm_scaling = nrm[v1_ind] ** 2
  let atol := (1 / 100000 : Rat) * s
  decide (rabs n.x ≤ atol) && decide (rabs n.y ≤ atol) && decide (rabs n.z ≤ atol)

/-! ### 1-D grids (`_compute_geometry_1d`) -/

/-- one (face, cell) incidence of a 1-D grid: face id, sign in `cell_faces`, face centre (= node) -/
structure Inc1 where
  face : Nat
  sgn : Int
  x : V3
deriving DecidableEq, Repr

structure Grid1 where
  nodes : List V3               -- g.nodes
  faces : List V3               -- g.nodes[:, face_nodes.indices]
  cells : List (Inc1 × Inc1)    -- cell_faces.indices[::2], [1::2] with their signs, per cell

def Inc1.move (M : Motion) (e : Inc1) : Inc1 := { e with x := act M e.x }
def Grid1.move (M : Motion) (g : Grid1) : Grid1 :=
  { nodes := g.nodes.map (act M), faces := g.faces.map (act M),
    cells := g.cells.map fun c => (c.1.move M, c.2.move M) }

def cellVol1 (sq : Rat → Rat) (c : Inc1 × Inc1) : Rat := nrm sq (sub c.1.x c.2.x)
def cellCen1 (c : Inc1 × Inc1) : V3 := smul (1 / 2) (add c.1.x c.2.x)

/-- the (face, cell) listing in csc order, each with the centre of its cell -/
def incs1 (cells : List (Inc1 × Inc1)) : List (Inc1 × V3) :=
  match cells with
  | [] => []
  | c :: l => (c.1, cellCen1 c) :: (c.2, cellCen1 c) :: incs1 l

/-- first incidence of face `f` (`np.unique(fi, return_index=True)`) -/
def firstInc1 (f : Nat) : List (Inc1 × V3) → Option (Inc1 × V3)
  | [] => none
  | e :: l => if e.1.face = f then some e else firstInc1 f l

/-- the flip decision: prolong the vector from cell centre to face centre by 0.001 of its length along the
    normal; flip if that made it shorter although the sign is +1, or longer although the sign is −1 -/
def flip1 (sq : Rat → Rat) (t : V3) (sgn : Int) (fc cc : V3) : Bool :=
  let v := sub fc cc
  let vn := add v (smul (nrm sq v * (1 / 1000)) t)
  (decide (nrm sq v > nrm sq vn) && decide (sgn > 0)) || (decide (nrm sq v < nrm sq vn) && decide (sgn < 0))

def faceNormal1 (sq : Rat → Rat) (t : V3) (incs : List (Inc1 × V3)) (f : Nat) : V3 :=
  match firstInc1 f incs with
  | none => t
  | some e => if flip1 sq t e.1.sgn e.1.x e.2 then neg t else t

def geom1 (sq : Rat → Rat) (g : Grid1) : Out :=
  let t := tangent sq g.nodes
  { fa := g.faces.map (fun _ => 1),
    fc := g.faces,
    fn := (List.range g.faces.length).map (faceNormal1 sq t (incs1 g.cells)),
    cv := g.cells.map (cellVol1 sq),
    cc := g.cells.map cellCen1 }

/-! ### 2-D grids (`_compute_geometry_2d`) -/

/-- one (face, cell) incidence of a 2-D grid: face id, sign in `cell_faces`, ids and coordinates of the
    start and end node of the face (order of `face_nodes.indices`) -/
structure Inc2 where
  face : Nat
  sgn : Int
  n0 : Nat
  n1 : Nat
  a : V3
  b : V3
deriving DecidableEq, Repr

structure Grid2 where
  nodes : List V3            -- g.nodes (used by the plane fitting fallback)
  faces : List (V3 × V3)     -- start and end node of every face
  cells : List (List Inc2)   -- the columns of cell_faces

def Inc2.move (M : Motion) (e : Inc2) : Inc2 := { e with a := act M e.a, b := act M e.b }
def Grid2.move (M : Motion) (g : Grid2) : Grid2 :=
  { nodes := g.nodes.map (act M), faces := g.faces.map (fun f => (act M f.1, act M f.2)),
    cells := g.cells.map (fun c => c.map (Inc2.move M)) }

/-- `tangent = nodes @ fn_orient`: end − start -/
def tang (e : Inc2) : V3 := sub e.b e.a
/-- `face_centers = 0.5 * nodes * |fn_orient|` -/
def fcen (e : Inc2) : V3 := smul (1 / 2) (add e.a e.b)
/-- temporary cell centre: average of the face centres of the cell -/
def tcc (c : List Inc2) : V3 := smul (1 / (c.length : Rat)) (vsum (c.map fcen))
/-- `subsimplex_heights` (`t` = temporary centre of the cell) -/
def height (t : V3) (e : Inc2) : V3 := sub (fcen e) t
/-- `subsimplex_normals = 0.5 * cross(heights, cf_orient * tangent)` -/
def ssn (t : V3) (e : Inc2) : V3 := smul (1 / 2) (cross (height t e) (smul (e.sgn : Rat) (tang e)))
def subCentroid (t : V3) (e : Inc2) : V3 := smul (1 / 3) (add t (smul 2 (fcen e)))

/-- entry `n` of the column of `fn_orient @ cell_faces` belonging to the cell -/
def nodeBalance (c : List Inc2) (n : Nat) : Int :=
  match c with
  | [] => 0
  | e :: l => e.sgn * ((if e.n1 = n then 1 else 0) - (if e.n0 = n then 1 else 0)) + nodeBalance l n

def cellClosed (c : List Inc2) : Bool :=
  c.all fun e => decide (nodeBalance c e.n0 = 0) && decide (nodeBalance c e.n1 = 0)

/-- orientation check 1/3: every cell is a closed signed node loop -/
def check1 (g : Grid2) : Bool := g.cells.all cellClosed

def cellNsum (c : List Inc2) : V3 := vsum (c.map (ssn (tcc c)))
/-- `subsimplex_normals.sum(axis=1)` -/
def nsum (g : Grid2) : V3 := vsum (g.cells.map cellNsum)
def faceArea2 (sq : Rat → Rat) (f : V3 × V3) : Rat := nrm sq (sub f.2 f.1)
def meanArea (sq : Rat → Rat) (g : Grid2) : Rat := rsum (g.faces.map (faceArea2 sq)) / (g.faces.length : Rat)

/-- orientation check 2/3 fails: `len_normal < 1e-5 * mean(face_areas)**2` -/
def check2Fails (sq : Rat → Rat) (g : Grid2) : Bool :=
  decide (nrm sq (nsum g) < (1 / 100000 : Rat) * (meanArea sq g * meanArea sq g))

/-- does `compute_normal(is_oriented)` use the sub-simplex normals? -/
def normalOriented (sq : Rat → Rat) (g : Grid2) : Bool := check1 g && !check2Fails sq g

/-- unit normal of the plane of the grid -/
def nhat (sq : Rat → Rat) (g : Grid2) : V3 :=
  if normalOriented sq g then normalize sq (nsum g) else planeNormal sq g.nodes

/-- signed sub-simplex volumes and cell volumes of the oriented path (`nh` = plane normal) -/
def ssvO (nh t : V3) (e : Inc2) : Rat := dot nh (ssn t e)
def volO (nh : V3) (c : List Inc2) : Rat := rsum (c.map (ssvO nh (tcc c)))

/-- the oriented path is used to the end: check 1 passed (the outer `is_oriented`; the result of check 2 is
    local to the nested function in the code) and no negative volume appeared (check 3/3) -/
def volOriented (nh : V3) (g : Grid2) : Bool :=
  check1 g && g.cells.all fun c => !decide (volO nh c < 0)

/-- sub-simplex volumes actually used (`vo` = oriented path) -/
def ssv (sq : Rat → Rat) (vo : Bool) (nh t : V3) (e : Inc2) : Rat :=
  if vo then ssvO nh t e else nrm sq (ssn t e)
def vol2 (sq : Rat → Rat) (vo : Bool) (nh : V3) (c : List Inc2) : Rat := rsum (c.map (ssv sq vo nh (tcc c)))
def wcen (sq : Rat → Rat) (vo : Bool) (nh t : V3) (e : Inc2) : V3 := smul (ssv sq vo nh t e) (subCentroid t e)
def cen2 (sq : Rat → Rat) (vo : Bool) (nh : V3) (c : List Inc2) : V3 :=
  smul (1 / vol2 sq vo nh c) (vsum (c.map (wcen sq vo nh (tcc c))))

/-- fallback: this side of the face asks for a flip of the normal -/
def flipInc (nh t : V3) (e : Inc2) : Bool :=
  decide ((e.sgn : Rat) * dot (height t e) (cross (tang e) nh) < 0)

def cellFlips (nh : V3) (c : List Inc2) : List Nat := (c.filter (flipInc nh (tcc c))).map (·.face)

/-- faces whose normal is flipped: `np.bincount(faceno, weights=flip).astype(bool)` -/
def flips (nh : V3) : List (List Inc2) → List Nat
  | [] => []
  | c :: l => cellFlips nh c ++ flips nh l

def faceNormal2 (nh : V3) (fl : List Nat) (p : Nat × (V3 × V3)) : V3 :=
  if fl.contains p.1 then neg (cross (sub p.2.2 p.2.1) nh) else cross (sub p.2.2 p.2.1) nh

def faceCen2 (f : V3 × V3) : V3 := smul (1 / 2) (add f.1 f.2)

def zipIdx {α : Type} (l : List α) : List (Nat × α) := (List.range l.length).zip l

def geom2 (sq : Rat → Rat) (g : Grid2) : Out :=
  let nh := nhat sq g
  let vo := volOriented nh g
  let fl := if vo then [] else flips nh g.cells
  { fa := g.faces.map (faceArea2 sq),
    fc := g.faces.map faceCen2,
    fn := (zipIdx g.faces).map (faceNormal2 nh fl),
    cv := g.cells.map (vol2 sq vo nh),
    cc := g.cells.map (cen2 sq vo nh) }

/-- `compute_normal` raises RuntimeError (points collinear up to the tolerance) -/
def geom2Err (sq : Rat → Rat) (g : Grid2) : Bool := !normalOriented sq g && collinearErr sq g.nodes

/-! #### a single polygonal cell given by its vertex loop (oriented path) -/

/-- the edges of a polygon `v₀ v₁ … v_{m-1}` traversed in the order given -/
def polyEdges (vs : List V3) : List (V3 × V3) :=
  match vs with
  | [] => []
  | p :: l => vs.zip (l ++ [p])

def polyInc (m : Nat) (p : Nat × (V3 × V3)) : Inc2 := ⟨p.1, 1, p.1, (p.1 + 1) % m, p.2.1, p.2.2⟩
/-- its incidences: all signs +1, node ids = positions in the loop -/
def polyIncs (vs : List V3) : List Inc2 := (zipIdx (polyEdges vs)).map (polyInc vs.length)

/-- the one-cell grid of a polygon -/
def polyGrid (vs : List V3) : Grid2 :=
  { nodes := vs, faces := polyEdges vs, cells := [polyIncs vs] }

/-! ### 3-D grids (`_compute_geometry_3d`) -/

/-- cyclic successor of every node of a face (`next_node`) -/
def nextOf (ps : List V3) : List V3 :=
  match ps with
  | [] => []
  | p :: l => l ++ [p]

/-- the edges of the node loop of a face: (node, next node) -/
def loopEdges (ps : List V3) : List (V3 × V3) := ps.zip (nextOf ps)

/-- sub-triangle (edge `e = (p, q)`, temporary face centre `c`): area-weighted normal and centroid -/
def subNormal (c : V3) (e : V3 × V3) : V3 := smul (1 / 2) (cross (sub e.2 e.1) (sub c e.1))
def subCentroid3 (c : V3) (e : V3 × V3) : V3 := smul (1 / 3) (add (add e.1 e.2) c)

def subNormals (ps : List V3) : List V3 := (loopEdges ps).map (subNormal (mean ps))
/-- face normal = sum of the sub-normals -/
def faceNormal3 (ps : List V3) : V3 := vsum (subNormals ps)

/-- (sub-area, sub-centroid) of one sub-triangle -/
def subW (sq : Rat → Rat) (c : V3) (e : V3 × V3) : Rat × V3 := (nrm sq (subNormal c e), subCentroid3 c e)
def subTris (sq : Rat → Rat) (ps : List V3) : List (Rat × V3) := (loopEdges ps).map (subW sq (mean ps))
/-- face area = sum of the sub-areas -/
def faceArea3 (sq : Rat → Rat) (ps : List V3) : Rat := rsum ((subTris sq ps).map (·.1))
/-- `face_centers = sub_areas * sub_centroids * edge_2_face / face_areas` -/
def faceCentre3 (sq : Rat → Rat) (ps : List V3) : V3 := wavg (subTris sq ps)

def sgnRat (q : Rat) : Rat := if q > 0 then 1 else if q < 0 then -1 else 0

/-- one sub-tetrahedron base as seen from a cell: centre of its face, centroid of the sub-triangle,
    outward area-weighted normal (`sub_normals * orientation * sub_normals_sign`) -/
structure Edge3 where
  fc : V3
  sc : V3
  outer : V3
deriving DecidableEq, Repr

def mkEdge (fc fnm c : V3) (o : Int) (e : V3 × V3) : Edge3 :=
  ⟨fc, subCentroid3 c e, smul ((o : Rat) * sgnRat (dot (subNormal c e) fnm)) (subNormal c e)⟩

def faceEdges (sq : Rat → Rat) (f : Int × List V3) : List Edge3 :=
  (loopEdges f.2).map (mkEdge (faceCentre3 sq f.2) (faceNormal3 f.2) (mean f.2) f.1)

/-- a cell: its faces with their sign in `cell_faces` and node loop -/
abbrev Cell3 := List (Int × List V3)

def cellEdges (sq : Rat → Rat) (c : Cell3) : List Edge3 :=
  match c with
  | [] => []
  | f :: l => faceEdges sq f ++ cellEdges sq l

/-- temporary cell centre: mean over the edges of the cell of the centres of their faces -/
def tcc3 (es : List Edge3) : V3 := smul (1 / (es.length : Rat)) (vsum (es.map (·.fc)))
def dist3 (t : V3) (e : Edge3) : V3 := sub e.sc t
def tetVol (t : V3) (e : Edge3) : Rat := dot (dist3 t e) e.outer / 3
def vol3 (es : List Edge3) : Rat := rsum (es.map (tetVol (tcc3 es)))
def wtet (t : V3) (e : Edge3) : V3 := smul (tetVol t e) (smul (3 / 4) (dist3 t e))
def cen3 (es : List Edge3) : V3 :=
  add (tcc3 es) (smul (1 / vol3 es) (vsum (es.map (wtet (tcc3 es)))))

def tetBad (t : V3) (e : Edge3) : Bool := !decide (tetVol t e > -(1 / 1000000000000 : Rat))
/-- `not np.all(tet_volumes > -1e-12)` → ValueError -/
def negTet (es : List Edge3) : Bool := es.any (tetBad (tcc3 es))

structure Grid3 where
  faces : List (List V3)
  cells : List Cell3

def face3Move (M : Motion) (f : Int × List V3) : Int × List V3 := (f.1, f.2.map (act M))
def Cell3.move (M : Motion) (c : Cell3) : Cell3 := c.map (face3Move M)
def Grid3.move (M : Motion) (g : Grid3) : Grid3 :=
  { faces := g.faces.map (fun ps => ps.map (act M)), cells := g.cells.map (Cell3.move M) }

def cellVol3 (sq : Rat → Rat) (c : Cell3) : Rat := vol3 (cellEdges sq c)
def cellCen3 (sq : Rat → Rat) (c : Cell3) : V3 := cen3 (cellEdges sq c)

def geom3 (sq : Rat → Rat) (g : Grid3) : Out :=
  { fa := g.faces.map (faceArea3 sq),
    fc := g.faces.map (faceCentre3 sq),
    fn := g.faces.map faceNormal3,
    cv := g.cells.map (cellVol3 sq),
    cc := g.cells.map (cellCen3 sq) }

def geom3Err (sq : Rat → Rat) (g : Grid3) : Bool := g.cells.any fun c => negTet (cellEdges sq c)

/-! ### elementary quantities named in the property theorems -/

/-- area-weighted normal of the triangle `a b c` (½ (b−a) × (c−a)) and its squared area -/
def triNormal (a b c : V3) : V3 := smul (1 / 2) (cross (sub b a) (sub c a))
def triArea2 (a b c : V3) : Rat := norm2 (triNormal a b c)
/-- signed volume of the tetrahedron with apex `a` over the triangle `b c d` (triple product / 6) -/
def tetVolume (a b c d : V3) : Rat := dot (sub a b) (cross (sub c b) (sub d b)) / 6

/-! ### the square root used by the driver -/

/-- rational approximation of `√q`, relative accuracy 2⁻⁶⁴ (`0` for `q ≤ 0`) -/
def asqrt (q : Rat) : Rat :=
  if q ≤ 0 then 0 else
    let k : Nat := 2 ^ 64
    ((Nat.sqrt (q.num.toNat * q.den * k * k) : Nat) : Rat) / ((q.den * k : Nat) : Rat)

end PorepyVerif.C20
