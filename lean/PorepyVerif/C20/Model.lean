/-
C20 — executable model of `Grid.compute_geometry` (porepy/grids/grid.py: `_compute_geometry_1d`,
`_compute_geometry_2d`, `_compute_geometry_3d`) and of the plane / line fitting helpers
`compute_tangent`, `compute_normal` (porepy/geometry/map_geometry.py).  Core Lean only.

The model is generic over the scalar type `K` (core type classes only: field operations, casts from ℕ / ℤ —
numerals are written as casts — and a decidable order): the driver runs it with `K = Rat`, the theorems
are proved for every linearly ordered field and instantiated at ℝ.  Wherever the code takes a square root
(`np.sqrt`, `np.linalg.norm`) the model applies a function `sq : K → K`, which is a parameter of every
definition: the theorems hold for every `sq`; over ℝ it is `Real.sqrt`, the driver uses a rational square root
that is accurate to 2⁻⁶⁴ (`asqrt`).  `rotation_matrix`, `project_plane_matrix` / `project_line_matrix` and
`map_grid` (porepy/geometry/map_geometry.py) are modelled as well, with `cos (arccos c) = c`,
`sin (arccos c) = √(1 − c²)` in place of the trigonometric functions.

Grids are handed over "resolved": the harness gathers the node coordinates of every face and the
faces of every cell (that gathering is numpy/scipy glue), in the order of the csc storage of
`cell_faces` / `face_nodes`, and keeps the integer labels (face ids, node ids, signs) the code
branches on.
-/
namespace PorepyVerif.C20

/- the scalars: any type with the field operations, casts from ℕ / ℤ (numerals are written as casts) and a
   decidable order; `Rat` for the driver, any linearly ordered field (ℚ, ℝ) in the theorems -/
variable {K : Type} [Add K] [Sub K] [Mul K] [Neg K] [Div K] [NatCast K] [IntCast K]
  [LT K] [LE K] [DecidableLT K] [DecidableLE K] [DecidableEq K]

/-! ### vectors, matrices, rigid motions -/

structure V3 (K : Type) where
  x : K
  y : K
  z : K
deriving DecidableEq, Repr, Inhabited

namespace V3
def zero : V3 K := ⟨((0 : Nat) : K), ((0 : Nat) : K), ((0 : Nat) : K)⟩
def add (a b : V3 K) : V3 K := ⟨a.x + b.x, a.y + b.y, a.z + b.z⟩
def sub (a b : V3 K) : V3 K := ⟨a.x - b.x, a.y - b.y, a.z - b.z⟩
def neg (a : V3 K) : V3 K := ⟨-a.x, -a.y, -a.z⟩
def smul (c : K) (a : V3 K) : V3 K := ⟨c * a.x, c * a.y, c * a.z⟩
def dot (a b : V3 K) : K := a.x * b.x + a.y * b.y + a.z * b.z
def cross (a b : V3 K) : V3 K :=
  ⟨a.y * b.z - a.z * b.y, a.z * b.x - a.x * b.z, a.x * b.y - a.y * b.x⟩
def norm2 (a : V3 K) : K := dot a a
end V3
open V3

/-- 3×3 matrix given by its rows. -/
structure Mat3 (K : Type) where
  r1 : V3 K
  r2 : V3 K
  r3 : V3 K
deriving DecidableEq, Repr

def Mat3.mulVec (R : Mat3 K) (v : V3 K) : V3 K := ⟨dot R.r1 v, dot R.r2 v, dot R.r3 v⟩
def Mat3.c1 (R : Mat3 K) : V3 K := ⟨R.r1.x, R.r2.x, R.r3.x⟩
def Mat3.c2 (R : Mat3 K) : V3 K := ⟨R.r1.y, R.r2.y, R.r3.y⟩
def Mat3.c3 (R : Mat3 K) : V3 K := ⟨R.r1.z, R.r2.z, R.r3.z⟩
def Mat3.det (R : Mat3 K) : K := dot R.r1 (cross R.r2 R.r3)

/-- proper rotation: `RᵀR = 1` (orthonormal columns) and `det R = 1`. -/
def Mat3.IsRot (R : Mat3 K) : Prop :=
  dot R.c1 R.c1 = ((1 : Nat) : K) ∧ dot R.c2 R.c2 = ((1 : Nat) : K) ∧ dot R.c3 R.c3 = ((1 : Nat) : K) ∧
  dot R.c1 R.c2 = ((0 : Nat) : K) ∧ dot R.c1 R.c3 = ((0 : Nat) : K) ∧ dot R.c2 R.c3 = ((0 : Nat) : K) ∧ R.det = ((1 : Nat) : K)

instance (R : Mat3 K) : Decidable R.IsRot := by unfold Mat3.IsRot; infer_instance

/-- rigid motion `x ↦ R x + t`. -/
structure Motion (K : Type) where
  R : Mat3 K
  t : V3 K

/-- action on vectors (differences of points): rotation only -/
def rot (M : Motion K) (v : V3 K) : V3 K := M.R.mulVec v
/-- action on points -/
def act (M : Motion K) (p : V3 K) : V3 K := add (rot M p) M.t

/-- the rotation matrix of a (non-zero, not necessarily unit) quaternion `w + x i + y j + z k`: every rational
    proper rotation is of this form; the harness draws its motions from integer quaternions -/
def quatMat (w x y z : K) : Mat3 K :=
  let n := w * w + x * x + y * y + z * z
  ⟨⟨(w * w + x * x - y * y - z * z) / n, ((2 : Nat) : K) * (x * y - w * z) / n, ((2 : Nat) : K) * (x * z + w * y) / n⟩,
   ⟨((2 : Nat) : K) * (x * y + w * z) / n, (w * w - x * x + y * y - z * z) / n, ((2 : Nat) : K) * (y * z - w * x) / n⟩,
   ⟨((2 : Nat) : K) * (x * z - w * y) / n, ((2 : Nat) : K) * (y * z + w * x) / n, (w * w - x * x - y * y + z * z) / n⟩⟩

/-! ### sums, averages, argmax -/

def vsum : List (V3 K) → V3 K
  | [] => zero
  | a :: l => add a (vsum l)

def rsum : List K → K
  | [] => ((0 : Nat) : K)
  | a :: l => a + rsum l

/-- `pts.mean(axis=1)` -/
def mean (l : List (V3 K)) : V3 K := smul (((1 : Nat) : K) / (l.length : K)) (vsum l)

/-- weighted average `Σ wᵢ cᵢ / Σ wᵢ` (bincount of weighted centroids divided by bincount of weights) -/
def wavg (l : List (K × V3 K)) : V3 K :=
  smul (((1 : Nat) : K) / rsum (l.map (·.1))) (vsum (l.map fun p => smul p.1 p.2))

def argmaxAux (best : K) (bi : Nat) : Nat → List K → Nat
  | _, [] => bi
  | i, a :: l => if a > best then argmaxAux a i (i + 1) l else argmaxAux best bi (i + 1) l

/-- `np.argmax`: index of the first maximal entry -/
def argmax : List K → Nat
  | [] => 0
  | a :: l => argmaxAux a 0 1 l

/-- `np.amax` -/
def maxL : List K → K
  | [] => ((0 : Nat) : K)
  | a :: l => l.foldl (fun m x => if m < x then x else m) a

def nrm (sq : K → K) (u : V3 K) : K := sq (norm2 u)
def normalize (sq : K → K) (u : V3 K) : V3 K := smul (((1 : Nat) : K) / nrm sq u) u

/-- all five geometry fields of a grid -/
structure Out (K : Type) where
  fa : List K   -- face_areas
  fc : List (V3 K)    -- face_centers
  fn : List (V3 K)    -- face_normals
  cv : List K   -- cell_volumes
  cc : List (V3 K)    -- cell_centers
deriving DecidableEq, Repr

/-- what the property says happens to the fields under the motion -/
def Out.move (M : Motion K) (o : Out K) : Out K :=
  { fa := o.fa, fc := o.fc.map (act M), fn := o.fn.map (rot M), cv := o.cv, cc := o.cc.map (act M) }

/-! ### map_geometry.compute_tangent / compute_normal -/

def subFrom (m p : V3 K) : V3 K := sub p m

/-- vectors from the centre of the point cloud -/
def centred (pts : List (V3 K)) : List (V3 K) := pts.map (subFrom (mean pts))

/-- the point farthest from the mean, relative to the mean (`tangent[:, max_ind]`) -/
def tangentRaw (pts : List (V3 K)) : V3 K := (centred pts).getD (argmax ((centred pts).map norm2)) zero

/-- `compute_tangent(pts)`: the point farthest from the mean, normalised -/
def tangent (sq : K → K) (pts : List (V3 K)) : V3 K := normalize sq (tangentRaw pts)

/-- index of the longest centred vector (`v1_ind`) -/
def pnI1 (sq : K → K) (pts : List (V3 K)) : Nat := argmax ((centred pts).map (nrm sq))
def pnV1 (sq : K → K) (pts : List (V3 K)) : V3 K := (centred pts).getD (pnI1 sq pts) zero
/-- cross products of the longest vector with all vectors -/
def pnCross (sq : K → K) (pts : List (V3 K)) : List (V3 K) := (centred pts).map (cross (pnV1 sq pts))
def pnIc (sq : K → K) (pts : List (V3 K)) : Nat := argmax ((pnCross sq pts).map (nrm sq))
/-- the un-normalised normal `cross[:, cross_ind]` -/
def pnRaw (sq : K → K) (pts : List (V3 K)) : V3 K := (pnCross sq pts).getD (pnIc sq pts) zero
/-- `compute_normal(pts)` -/
def planeNormal (sq : K → K) (pts : List (V3 K)) : V3 K := normalize sq (pnRaw sq pts)

def rabs (q : K) : K := if q < ((0 : Nat) : K) then -q else q

/-- the collinearity test of `compute_normal` (`np.allclose(normal, 0, atol=tol * nrm_scaling)` → RuntimeError).
    It is component-wise, hence NOT rotation invariant; it is reproduced for the correspondence only. -/
def collinearErr (sq : K → K) (pts : List (V3 K)) : Bool :=
  let n := pnRaw sq pts
  let n1 := ((centred pts).map (nrm sq)).getD (pnI1 sq pts) ((0 : Nat) : K)
  let s := n1 * n1                                    -- nrm_scaling = nrm[v1_ind] ** 2
  let atol := (((1 : Nat) : K) / ((100000 : Nat) : K)) * s
  decide (rabs n.x ≤ atol) && decide (rabs n.y ≤ atol) && decide (rabs n.z ≤ atol)

/-! ### 1-D grids (`_compute_geometry_1d`) -/

/-- one (face, cell) incidence of a 1-D grid: face id, sign in `cell_faces`, face centre (= node) -/
structure Inc1 (K : Type) where
  face : Nat
  sgn : Int
  x : V3 K
deriving DecidableEq, Repr

structure Grid1 (K : Type) where
  nodes : List (V3 K)               -- g.nodes
  faces : List (V3 K)               -- g.nodes[:, face_nodes.indices]
  cells : List (Inc1 K × Inc1 K)    -- cell_faces.indices[::2], [1::2] with their signs, per cell

def Inc1.move (M : Motion K) (e : Inc1 K) : Inc1 K := { e with x := act M e.x }
def Grid1.move (M : Motion K) (g : Grid1 K) : Grid1 K :=
  { nodes := g.nodes.map (act M), faces := g.faces.map (act M),
    cells := g.cells.map fun c => (c.1.move M, c.2.move M) }

def cellVol1 (sq : K → K) (c : Inc1 K × Inc1 K) : K := nrm sq (sub c.1.x c.2.x)
def cellCen1 (c : Inc1 K × Inc1 K) : V3 K := smul (((1 : Nat) : K) / ((2 : Nat) : K)) (add c.1.x c.2.x)

/-- the (face, cell) listing in csc order, each with the centre of its cell -/
def incs1 (cells : List (Inc1 K × Inc1 K)) : List (Inc1 K × V3 K) :=
  match cells with
  | [] => []
  | c :: l => (c.1, cellCen1 c) :: (c.2, cellCen1 c) :: incs1 l

/-- first incidence of face `f` (`np.unique(fi, return_index=True)`) -/
def firstInc1 (f : Nat) : List (Inc1 K × V3 K) → Option (Inc1 K × V3 K)
  | [] => none
  | e :: l => if e.1.face = f then some e else firstInc1 f l

/-- the flip decision: prolong the vector from cell centre to face centre by 0.001 of its length along the
    normal; flip if that made it shorter although the sign is +1, or longer although the sign is −1 -/
def flip1 (sq : K → K) (t : V3 K) (sgn : Int) (fc cc : V3 K) : Bool :=
  let v := sub fc cc
  let vn := add v (smul (nrm sq v * (((1 : Nat) : K) / ((1000 : Nat) : K))) t)
  (decide (nrm sq v > nrm sq vn) && decide (sgn > 0)) || (decide (nrm sq v < nrm sq vn) && decide (sgn < 0))

def faceNormal1 (sq : K → K) (t : V3 K) (incs : List (Inc1 K × V3 K)) (f : Nat) : V3 K :=
  match firstInc1 f incs with
  | none => t
  | some e => if flip1 sq t e.1.sgn e.1.x e.2 then neg t else t

def geom1 (sq : K → K) (g : Grid1 K) : Out K :=
  let t := tangent sq g.nodes
  { fa := g.faces.map (fun _ => ((1 : Nat) : K)),
    fc := g.faces,
    fn := (List.range g.faces.length).map (faceNormal1 sq t (incs1 g.cells)),
    cv := g.cells.map (cellVol1 sq),
    cc := g.cells.map cellCen1 }

/-! ### 2-D grids (`_compute_geometry_2d`) -/

/-- one (face, cell) incidence of a 2-D grid: face id, sign in `cell_faces`, ids and coordinates of the
    start and end node of the face (order of `face_nodes.indices`) -/
structure Inc2 (K : Type) where
  face : Nat
  sgn : Int
  n0 : Nat
  n1 : Nat
  a : V3 K
  b : V3 K
deriving DecidableEq, Repr

structure Grid2 (K : Type) where
  nodes : List (V3 K)            -- g.nodes (used by the plane fitting fallback)
  faces : List (V3 K × V3 K)     -- start and end node of every face
  cells : List (List (Inc2 K))   -- the columns of cell_faces

def Inc2.move (M : Motion K) (e : Inc2 K) : Inc2 K := { e with a := act M e.a, b := act M e.b }
def Grid2.move (M : Motion K) (g : Grid2 K) : Grid2 K :=
  { nodes := g.nodes.map (act M), faces := g.faces.map (fun f => (act M f.1, act M f.2)),
    cells := g.cells.map (fun c => c.map (Inc2.move M)) }

/-- `tangent = nodes @ fn_orient`: end − start -/
def tang (e : Inc2 K) : V3 K := sub e.b e.a
/-- `face_centers = 0.5 * nodes * |fn_orient|` -/
def fcen (e : Inc2 K) : V3 K := smul (((1 : Nat) : K) / ((2 : Nat) : K)) (add e.a e.b)
/-- temporary cell centre: average of the face centres of the cell -/
def tcc (c : List (Inc2 K)) : V3 K := smul (((1 : Nat) : K) / (c.length : K)) (vsum (c.map fcen))
/-- `subsimplex_heights` (`t` = temporary centre of the cell) -/
def height (t : V3 K) (e : Inc2 K) : V3 K := sub (fcen e) t
/-- `subsimplex_normals = 0.5 * cross(heights, cf_orient * tangent)` -/
def ssn (t : V3 K) (e : Inc2 K) : V3 K := smul (((1 : Nat) : K) / ((2 : Nat) : K)) (cross (height t e) (smul (e.sgn : K) (tang e)))
def subCentroid (t : V3 K) (e : Inc2 K) : V3 K := smul (((1 : Nat) : K) / ((3 : Nat) : K)) (add t (smul ((2 : Nat) : K) (fcen e)))

/-- entry `n` of the column of `fn_orient @ cell_faces` belonging to the cell -/
def nodeBalance (c : List (Inc2 K)) (n : Nat) : Int :=
  match c with
  | [] => 0
  | e :: l => e.sgn * ((if e.n1 = n then 1 else 0) - (if e.n0 = n then 1 else 0)) + nodeBalance l n

def cellClosed (c : List (Inc2 K)) : Bool :=
  c.all fun e => decide (nodeBalance c e.n0 = 0) && decide (nodeBalance c e.n1 = 0)

/-- orientation check 1/3: every cell is a closed signed node loop -/
def check1 (g : Grid2 K) : Bool := g.cells.all cellClosed

def cellNsum (c : List (Inc2 K)) : V3 K := vsum (c.map (ssn (tcc c)))
/-- `subsimplex_normals.sum(axis=1)` -/
def nsum (g : Grid2 K) : V3 K := vsum (g.cells.map cellNsum)
def faceArea2 (sq : K → K) (f : V3 K × V3 K) : K := nrm sq (sub f.2 f.1)
def meanArea (sq : K → K) (g : Grid2 K) : K := rsum (g.faces.map (faceArea2 sq)) / (g.faces.length : K)

/-- orientation check 2/3 fails: `len_normal < 1e-5 * mean(face_areas)**2` -/
def check2Fails (sq : K → K) (g : Grid2 K) : Bool :=
  decide (nrm sq (nsum g) < (((1 : Nat) : K) / ((100000 : Nat) : K)) * (meanArea sq g * meanArea sq g))

/-- does `compute_normal(is_oriented)` use the sub-simplex normals? -/
def normalOriented (sq : K → K) (g : Grid2 K) : Bool := check1 g && !check2Fails sq g

/-- unit normal of the plane of the grid -/
def nhat (sq : K → K) (g : Grid2 K) : V3 K :=
  if normalOriented sq g then normalize sq (nsum g) else planeNormal sq g.nodes

/-- signed sub-simplex volumes and cell volumes of the oriented path (`nh` = plane normal) -/
def ssvO (nh t : V3 K) (e : Inc2 K) : K := dot nh (ssn t e)
def volO (nh : V3 K) (c : List (Inc2 K)) : K := rsum (c.map (ssvO nh (tcc c)))

/-- the oriented path is used to the end: check 1 passed (the outer `is_oriented`; the result of check 2 is
    local to the nested function in the code) and no negative volume appeared (check 3/3) -/
def volOriented (nh : V3 K) (g : Grid2 K) : Bool :=
  check1 g && g.cells.all fun c => !decide (volO nh c < ((0 : Nat) : K))

/-- sub-simplex volumes actually used (`vo` = oriented path) -/
def ssv (sq : K → K) (vo : Bool) (nh t : V3 K) (e : Inc2 K) : K :=
  if vo then ssvO nh t e else nrm sq (ssn t e)
def vol2 (sq : K → K) (vo : Bool) (nh : V3 K) (c : List (Inc2 K)) : K := rsum (c.map (ssv sq vo nh (tcc c)))
def wcen (sq : K → K) (vo : Bool) (nh t : V3 K) (e : Inc2 K) : V3 K := smul (ssv sq vo nh t e) (subCentroid t e)
def cen2 (sq : K → K) (vo : Bool) (nh : V3 K) (c : List (Inc2 K)) : V3 K :=
  smul (((1 : Nat) : K) / vol2 sq vo nh c) (vsum (c.map (wcen sq vo nh (tcc c))))

/-- fallback: this side of the face asks for a flip of the normal -/
def flipInc (nh t : V3 K) (e : Inc2 K) : Bool :=
  decide ((e.sgn : K) * dot (height t e) (cross (tang e) nh) < ((0 : Nat) : K))

def cellFlips (nh : V3 K) (c : List (Inc2 K)) : List Nat := (c.filter (flipInc nh (tcc c))).map (·.face)

/-- faces whose normal is flipped: `np.bincount(faceno, weights=flip).astype(bool)` -/
def flips (nh : V3 K) : List (List (Inc2 K)) → List Nat
  | [] => []
  | c :: l => cellFlips nh c ++ flips nh l

def faceNormal2 (nh : V3 K) (fl : List Nat) (p : Nat × (V3 K × V3 K)) : V3 K :=
  if fl.contains p.1 then neg (cross (sub p.2.2 p.2.1) nh) else cross (sub p.2.2 p.2.1) nh

def faceCen2 (f : V3 K × V3 K) : V3 K := smul (((1 : Nat) : K) / ((2 : Nat) : K)) (add f.1 f.2)

def zipIdx {α : Type} (l : List α) : List (Nat × α) := (List.range l.length).zip l

def geom2 (sq : K → K) (g : Grid2 K) : Out K :=
  let nh := nhat sq g
  let vo := volOriented nh g
  let fl := if vo then [] else flips nh g.cells
  { fa := g.faces.map (faceArea2 sq),
    fc := g.faces.map faceCen2,
    fn := (zipIdx g.faces).map (faceNormal2 nh fl),
    cv := g.cells.map (vol2 sq vo nh),
    cc := g.cells.map (cen2 sq vo nh) }

/-- `compute_normal` raises RuntimeError (points collinear up to the tolerance) -/
def geom2Err (sq : K → K) (g : Grid2 K) : Bool := !normalOriented sq g && collinearErr sq g.nodes

/-! #### a single polygonal cell given by its vertex loop (oriented path) -/

/-- the edges of a polygon `v₀ v₁ … v_{m-1}` traversed in the order given -/
def polyEdges (vs : List (V3 K)) : List (V3 K × V3 K) :=
  match vs with
  | [] => []
  | p :: l => vs.zip (l ++ [p])

def polyInc (m : Nat) (p : Nat × (V3 K × V3 K)) : Inc2 K := ⟨p.1, 1, p.1, (p.1 + 1) % m, p.2.1, p.2.2⟩
/-- its incidences: all signs +1, node ids = positions in the loop -/
def polyIncs (vs : List (V3 K)) : List (Inc2 K) := (zipIdx (polyEdges vs)).map (polyInc vs.length)

/-- the one-cell grid of a polygon -/
def polyGrid (vs : List (V3 K)) : Grid2 K :=
  { nodes := vs, faces := polyEdges vs, cells := [polyIncs vs] }

/-! ### 3-D grids (`_compute_geometry_3d`) -/

/-- cyclic successor of every node of a face (`next_node`) -/
def nextOf (ps : List (V3 K)) : List (V3 K) :=
  match ps with
  | [] => []
  | p :: l => l ++ [p]

/-- the edges of the node loop of a face: (node, next node) -/
def loopEdges (ps : List (V3 K)) : List (V3 K × V3 K) := ps.zip (nextOf ps)

/-- sub-triangle (edge `e = (p, q)`, temporary face centre `c`): area-weighted normal and centroid -/
def subNormal (c : V3 K) (e : V3 K × V3 K) : V3 K := smul (((1 : Nat) : K) / ((2 : Nat) : K)) (cross (sub e.2 e.1) (sub c e.1))
def subCentroid3 (c : V3 K) (e : V3 K × V3 K) : V3 K := smul (((1 : Nat) : K) / ((3 : Nat) : K)) (add (add e.1 e.2) c)

def subNormals (ps : List (V3 K)) : List (V3 K) := (loopEdges ps).map (subNormal (mean ps))
/-- face normal = sum of the sub-normals -/
def faceNormal3 (ps : List (V3 K)) : V3 K := vsum (subNormals ps)

/-- (sub-area, sub-centroid) of one sub-triangle -/
def subW (sq : K → K) (c : V3 K) (e : V3 K × V3 K) : K × V3 K := (nrm sq (subNormal c e), subCentroid3 c e)
def subTris (sq : K → K) (ps : List (V3 K)) : List (K × V3 K) := (loopEdges ps).map (subW sq (mean ps))
/-- face area = sum of the sub-areas -/
def faceArea3 (sq : K → K) (ps : List (V3 K)) : K := rsum ((subTris sq ps).map (·.1))
/-- `face_centers = sub_areas * sub_centroids * edge_2_face / face_areas` -/
def faceCentre3 (sq : K → K) (ps : List (V3 K)) : V3 K := wavg (subTris sq ps)

def sgnRat (q : K) : K := if q > ((0 : Nat) : K) then ((1 : Nat) : K) else if q < ((0 : Nat) : K) then -((1 : Nat) : K) else ((0 : Nat) : K)

/-- one sub-tetrahedron base as seen from a cell: centre of its face, centroid of the sub-triangle,
    outward area-weighted normal (`sub_normals * orientation * sub_normals_sign`) -/
structure Edge3 (K : Type) where
  fc : V3 K
  sc : V3 K
  outer : V3 K
deriving DecidableEq, Repr

def mkEdge (fc fnm c : V3 K) (o : Int) (e : V3 K × V3 K) : Edge3 K :=
  ⟨fc, subCentroid3 c e, smul ((o : K) * sgnRat (dot (subNormal c e) fnm)) (subNormal c e)⟩

def faceEdges (sq : K → K) (f : Int × List (V3 K)) : List (Edge3 K) :=
  (loopEdges f.2).map (mkEdge (faceCentre3 sq f.2) (faceNormal3 f.2) (mean f.2) f.1)

/-- a cell: its faces with their sign in `cell_faces` and node loop -/
abbrev Cell3 K := List (Int × List (V3 K))

def cellEdges (sq : K → K) (c : Cell3 K) : List (Edge3 K) :=
  match c with
  | [] => []
  | f :: l => faceEdges sq f ++ cellEdges sq l

/-- temporary cell centre: mean over the edges of the cell of the centres of their faces -/
def tcc3 (es : List (Edge3 K)) : V3 K := smul (((1 : Nat) : K) / (es.length : K)) (vsum (es.map (·.fc)))
def dist3 (t : V3 K) (e : Edge3 K) : V3 K := sub e.sc t
def tetVol (t : V3 K) (e : Edge3 K) : K := dot (dist3 t e) e.outer / ((3 : Nat) : K)
def vol3 (es : List (Edge3 K)) : K := rsum (es.map (tetVol (tcc3 es)))
def wtet (t : V3 K) (e : Edge3 K) : V3 K := smul (tetVol t e) (smul (((3 : Nat) : K) / ((4 : Nat) : K)) (dist3 t e))
def cen3 (es : List (Edge3 K)) : V3 K :=
  add (tcc3 es) (smul (((1 : Nat) : K) / vol3 es) (vsum (es.map (wtet (tcc3 es)))))

/-- the signed sub-tetrahedron volumes of one cell -/
def cellTetVols (sq : K → K) (c : Cell3 K) : List K :=
  (cellEdges sq c).map (tetVol (tcc3 (cellEdges sq c)))

/-- `tet_volumes` of the whole grid -/
def allTetVols (sq : K → K) : List (Cell3 K) → List K
  | [] => []
  | c :: l => cellTetVols sq c ++ allTetVols sq l

/-- `tol = 1e-12 * max(1.0, np.max(np.abs(tet_volumes), initial=0.0))`: relative to the largest sub-tetrahedron,
    not below the absolute tolerance for grids of unit size -/
def tetTol (vs : List K) : K :=
  let m := maxL (vs.map rabs)
  (((1 : Nat) : K) / ((1000000000000 : Nat) : K)) * (if ((1 : Nat) : K) < m then m else ((1 : Nat) : K))

/-- `not np.all(tet_volumes > -tol)` → ValueError -/
def negTets (vs : List K) : Bool := vs.any fun v => !decide (v > -tetTol vs)

structure Grid3 (K : Type) where
  faces : List (List (V3 K))
  cells : List (Cell3 K)

def face3Move (M : Motion K) (f : Int × List (V3 K)) : Int × List (V3 K) := (f.1, f.2.map (act M))
def Cell3.move (M : Motion K) (c : Cell3 K) : Cell3 K := c.map (face3Move M)
def Grid3.move (M : Motion K) (g : Grid3 K) : Grid3 K :=
  { faces := g.faces.map (fun ps => ps.map (act M)), cells := g.cells.map (Cell3.move M) }

def cellVol3 (sq : K → K) (c : Cell3 K) : K := vol3 (cellEdges sq c)
def cellCen3 (sq : K → K) (c : Cell3 K) : V3 K := cen3 (cellEdges sq c)

def geom3 (sq : K → K) (g : Grid3 K) : Out K :=
  { fa := g.faces.map (faceArea3 sq),
    fc := g.faces.map (faceCentre3 sq),
    fn := g.faces.map faceNormal3,
    cv := g.cells.map (cellVol3 sq),
    cc := g.cells.map (cellCen3 sq) }

def geom3Err (sq : K → K) (g : Grid3 K) : Bool := negTets (allTetVols sq g.cells)

/-! ### map_geometry: `rotation_matrix`, `project_plane_matrix`, `project_line_matrix`, `map_grid` -/

/-- the reference direction `[0, 0, 1]` of `project_plane_matrix` / `project_line_matrix` -/
def ez : V3 K := ⟨((0 : Nat) : K), ((0 : Nat) : K), ((1 : Nat) : K)⟩
def Mat3.one : Mat3 K := ⟨⟨((1 : Nat) : K), ((0 : Nat) : K), ((0 : Nat) : K)⟩, ⟨((0 : Nat) : K), ((1 : Nat) : K), ((0 : Nat) : K)⟩, ⟨((0 : Nat) : K), ((0 : Nat) : K), ((1 : Nat) : K)⟩⟩
def Mat3.add (A B : Mat3 K) : Mat3 K := ⟨V3.add A.r1 B.r1, V3.add A.r2 B.r2, V3.add A.r3 B.r3⟩
def Mat3.smul (c : K) (A : Mat3 K) : Mat3 K := ⟨V3.smul c A.r1, V3.smul c A.r2, V3.smul c A.r3⟩
def Mat3.mul (A B : Mat3 K) : Mat3 K :=
  ⟨⟨dot A.r1 B.c1, dot A.r1 B.c2, dot A.r1 B.c3⟩, ⟨dot A.r2 B.c1, dot A.r2 B.c2, dot A.r2 B.c3⟩,
   ⟨dot A.r3 B.c1, dot A.r3 B.c2, dot A.r3 B.c3⟩⟩
/-- the matrix `W` of `rotation_matrix`: `W u = v × u` -/
def skew (v : V3 K) : Mat3 K := ⟨⟨((0 : Nat) : K), -v.z, v.y⟩, ⟨v.z, ((0 : Nat) : K), -v.x⟩, ⟨-v.y, v.x, ((0 : Nat) : K)⟩⟩

/-- `np.allclose(vect, np.zeros(3))` (default `atol = 1e-8`) -/
def isSmall (v : V3 K) : Bool :=
  decide (rabs v.x ≤ ((1 : Nat) : K) / ((100000000 : Nat) : K)) && decide (rabs v.y ≤ ((1 : Nat) : K) / ((100000000 : Nat) : K)) &&
    decide (rabs v.z ≤ ((1 : Nat) : K) / ((100000000 : Nat) : K))

/-- `rotation_matrix(a, vect)` with `s = sin a`, `c = cos a`: the identity for a (numerically) zero axis, else
    `I + s W + (1 − c) W²`, `W = skew (vect / |vect|)` -/
def rotationMatrix (sq : K → K) (s c : K) (vect : V3 K) : Mat3 K :=
  if isSmall vect then Mat3.one else
    let W := skew (normalize sq vect)
    Mat3.add (Mat3.add Mat3.one (Mat3.smul s W)) (Mat3.smul (((1 : Nat) : K) - c) (Mat3.mul W W))

/-- `np.clip(x, -1, 1)` -/
def clip1 (c : K) : K := if c < -((1 : Nat) : K) then -((1 : Nat) : K) else if ((1 : Nat) : K) < c then ((1 : Nat) : K) else c

/-- `project_plane_matrix(pts, normal = n)` / `project_line_matrix(pts, tangent = n)` with the default reference
    `[0,0,1]` for a vector `n` the code has just normalised: `rotation_matrix(arccos(clip(n·ref)), n × ref)`;
    `cos (arccos c) = c` and `sin (arccos c) = √(1 − c²)` are used in place of the trigonometric functions -/
def projectMatrix (sq : K → K) (n : V3 K) : Mat3 K :=
  let c := clip1 (dot n ez)
  rotationMatrix sq (sq (((1 : Nat) : K) - c * c)) c (cross n ez)

/-- closed form of the same matrix for a unit vector `n` (rational in `n`): `I + [v]ₓ + [v]ₓ² / (1 + n·ref)`,
    `v = n × ref` -/
def rodrigues (n : V3 K) : Mat3 K :=
  Mat3.add (Mat3.add Mat3.one (skew (cross n ez)))
    (Mat3.smul (((1 : Nat) : K) / (((1 : Nat) : K) + dot n ez)) (Mat3.mul (skew (cross n ez)) (skew (cross n ez))))

/-- `Σ_j |x_j − x_0|` over one coordinate row of the rotated face centres -/
def rowSpread (l : List K) : K :=
  match l with
  | [] => ((0 : Nat) : K)
  | a :: _ => rsum (l.map fun b => rabs (b - a))

/-- result of `map_grid`: rotation, mask of the active dimensions, and the rotated (not yet masked) fields -/
structure MapOut (K : Type) where
  R : Mat3 K
  mx : Bool
  my : Bool
  mz : Bool
  cc : List (V3 K)
  fn : List (V3 K)
  fc : List (V3 K)
  nodes : List (V3 K)

/-- `not np.isclose(check, 0, atol=tol, rtol=0)` with `tol = 1e-5` -/
def activeDim (x tot : K) : Bool := !decide (rabs (x / tot) ≤ ((1 : Nat) : K) / ((100000 : Nat) : K))

/-- `map_grid(g)` for a 1-D or 2-D grid (no rotation given): rotate the line / plane of the grid onto a
    coordinate axis / plane and find out which coordinates vary -/
def mapGrid (sq : K → K) (dim : Nat) (nodes : List (V3 K)) (o : Out K) : MapOut K :=
  let R := if dim = 2 then projectMatrix sq (planeNormal sq nodes) else projectMatrix sq (tangent sq nodes)
  let fc := o.fc.map R.mulVec
  let cx := rowSpread (fc.map (·.x))
  let cy := rowSpread (fc.map (·.y))
  let cz := rowSpread (fc.map (·.z))
  let tot := cx + cy + cz
  { R := R, mx := activeDim cx tot, my := activeDim cy tot, mz := activeDim cz tot,
    cc := o.cc.map R.mulVec, fn := o.fn.map R.mulVec, fc := fc, nodes := nodes.map R.mulVec }

/-- relative gap between the largest entry and the largest entry at another index (0 for a tie, 1 for a
    single entry): how safely `np.argmax` is decided -/
def argmaxMargin (l : List K) : K :=
  let i := argmax l
  let best := l.getD i ((0 : Nat) : K)
  let others := (zipIdx l).filter (fun p => p.1 != i)
  match others with
  | [] => ((1 : Nat) : K)
  | p :: ps => (best - (ps.foldl (fun m q => if m < q.2 then q.2 else m) p.2)) / best

/-! ### 0-D grids (`_compute_geometry_0d`), the dispatcher's remaining branch -/

/-- a point grid: its node(s) and the cell centres given at construction (`PointGrid(pt)`) -/
structure Grid0 (K : Type) where
  nodes : List (V3 K)
  centers : List (V3 K)

def Grid0.move (M : Motion K) (g : Grid0 K) : Grid0 K :=
  { nodes := g.nodes.map (act M), centers := g.centers.map (act M) }

/-- no faces areas / normals, face centres = nodes, unit volumes, cell centres kept -/
def geom0 (g : Grid0 K) : Out K :=
  { fa := [], fc := g.nodes, fn := [], cv := g.centers.map (fun _ => ((1 : Nat) : K)), cc := g.centers }

/-! ### `Grid.cell_diameters` (cell-wise): largest distance between two nodes of the cell -/

def pairDists (sq : K → K) : List (V3 K) → List K
  | [] => []
  | p :: l => l.map (fun q => nrm sq (sub p q)) ++ pairDists sq l

def cellDiam (sq : K → K) (ps : List (V3 K)) : K := maxL (pairDists sq ps)

/-! ### the hypotheses of the equivariance theorems as decidable conditions (evaluated by the driver on every case) -/

def wf1 (g : Grid1 K) : Bool := !g.nodes.isEmpty

/-- nodes exist, every cell has a face, no cell volume is zero -/
def wf2 (sq : K → K) (g : Grid2 K) : Bool :=
  !g.nodes.isEmpty && g.cells.all (fun c => !c.isEmpty) && (geom2 sq g).cv.all (fun v => !decide (v = ((0 : Nat) : K)))

def faceOk (sq : K → K) (ps : List (V3 K)) : Bool := !ps.isEmpty && !decide (faceArea3 sq ps = ((0 : Nat) : K))

/-- faces have nodes and non-zero area, cells have faces -/
def wf3 (sq : K → K) (g : Grid3 K) : Bool :=
  g.faces.all (faceOk sq) && g.cells.all (fun c => !c.isEmpty && c.all (fun f => faceOk sq f.2))

/-! ### elementary quantities named in the property theorems -/

/-- area-weighted normal of the triangle `a b c` (½ (b−a) × (c−a)) and its squared area -/
def triNormal (a b c : V3 K) : V3 K := smul (((1 : Nat) : K) / ((2 : Nat) : K)) (cross (sub b a) (sub c a))
def triArea2 (a b c : V3 K) : K := norm2 (triNormal a b c)
/-- signed volume of the tetrahedron with apex `a` over the triangle `b c d` (triple product / 6) -/
def tetVolume (a b c d : V3 K) : K := dot (sub a b) (cross (sub c b) (sub d b)) / ((6 : Nat) : K)

/-! ### the square root used by the driver -/

/-- rational approximation of `√q`, relative accuracy 2⁻⁶⁴ (`0` for `q ≤ 0`) -/
def asqrt (q : Rat) : Rat :=
  if q ≤ 0 then 0 else
    let k : Nat := 2 ^ 64
    ((Nat.sqrt (q.num.toNat * q.den * k * k) : Nat) : Rat) / ((q.den * k : Nat) : Rat)

end PorepyVerif.C20
